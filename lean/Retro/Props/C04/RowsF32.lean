/-
C04 — the ROWS of a scan are exact in f32 (a theorem at the IEEE binary32 bit level).

The exact-arithmetic theorems of `Scan.lean` say which rows and pixels a trapezoid covers over an ordered
field; the f32 side was left to the correspondence.  The *row* structure of `scan` / `ScanlineIter::next`
(core/src/render/raster.rs), however, involves no inexact arithmetic at all:

    y0_rounded = round_up_to_half(y0);  y1_rounded = round_up_to_half(y1);      raster.rs:218-219
    n = (y1_rounded - y0_rounded) as u32;                                        raster.rs:232
    n times:  y: self.y as usize;  self.y += 1.0;                                raster.rs:80,96,100

`rowsF` is this computation, literally, on binary32 bit patterns with the operations of
`Retro.Model.F32Ops` (`add`, `sub` = one rounding each, the saturating `as u32` / `as usize` casts) and the
bit-level `round_up_to_half` of `Retro.Model.FloatFallback` (the function `Props.C20` proves exact).

  * `round_up_to_half_exact_wide`  the rounding is exact for every `|x| ≤ 2^23 − 1` (C20 has `|x| < 2^22`;
                                    between `2^22` and `2^23` every float is a multiple of ½ and nothing rounds)
  * `rowsF_exact`                  for finite `y0, y1` with exact values `|q0|, |q1| ≤ 2^23 − 1` the f32 code
                                    visits exactly the rows `(⌊q0+½⌋ + k).toNat`, `k < ⌊q1+½⌋ − ⌊q0+½⌋`
  * `rowsF_eq_scan_rows`           … which are the rows of the exact model `Raster.scan` run on the exact values
                                    of the same inputs (`scan_rows`: that list in closed form, any floor field)
  * `rowsF_consecutive`, `rowsF_increasing`, `rowsF_nodup`, `mem_rowsF_iff`
                                    for `−½ ≤ q0`: consecutive rows from `⌊q0+½⌋`, strictly increasing, none
                                    twice; row `r` is visited iff its centre satisfies `q0 < r + ½ ≤ q1`
  * `trifill_rowsF`                the two half-triangles (`top_y..mid_y`, `mid_y..bot_y` on the SAME f32
                                    `mid_y`) visit disjoint, consecutive row ranges whose concatenation is the row
                                    range of `top_y..bot_y`, in f32
  * `rowsFNoFp_exact`              the same for the build without an fp feature (`(x + 0.5) as i32 as f32`),
                                    for `−½ ≤ q0, q1`
  * sharpness                      `rowsF_beyond_2p23_extra_row`, `rowsF_beyond_2p24_repeats_row` (the bound is
                                    tight: at `2^23` a row is emitted that the exact model does not visit; at
                                    `2^24` the SAME row is emitted four times because `y += 1.0` is absorbed),
                                    `rowsF_negative_saturates` (finding `negative-screen-coordinate`: the theorem
                                    still holds — model and code both saturate — but rows repeat)

NOT proved here: the x ends of the spans (`x0`, `x1`, the fragment count) — they come out of the edge
stepping `left += dl`, `right += dr`, which IS rounded in f32; that part stays with the correspondence
check and the property's 0.001 px band.
-/
import Retro.Props.C04.Scan
import Retro.Props.C20
import Retro.Lemmas.F32Rows

namespace Retro.Props.C04
open Retro Retro.F32 Retro.FloatFallback Retro.Raster Retro.Lemmas.Raster

/-! ### The literal f32 computation -/

/-- The rows of raster.rs `scan(y0..y1, …)` followed by `ScanlineIter::next` until `None`, with the build's
`round_up_to_half` as a parameter: `y0r`, `y1r`, `n = (y1r - y0r) as u32`, then `n` times
`(y as usize, y += 1.0)` from `y0r` (`F32.rowsLoop`).  The iterator's other exits (`left.next()?`,
`right.next()?`) never fire: both are unbounded `vary(…, None)` iterators. -/
def rowsWith (rnd : UInt32 → UInt32) (y0 y1 : UInt32) : List Nat :=
  let y0r := rnd y0
  let y1r := rnd y1
  rowsLoop (toU32Sat (sub y1r y0r)) y0r

/-- fp builds: `round_up_to_half(x) = { let n = floor(x + 0.5); if n - 0.5 > x { n - 0.5 } else { n + 0.5 } }`
with the exact `floor` of std / libm / the repaired fallback (`Props.C20.fallback_floor_exact`). -/
def rowsF (y0 y1 : UInt32) : List Nat := rowsWith (roundUpHalfFp F32.floor) y0 y1

/-- builds without an fp feature: `n = (x + 0.5) as i32 as f32`. -/
def rowsFNoFp (y0 y1 : UInt32) : List Nat := rowsWith roundUpHalfNoFp y0 y1

/-- The rows of the exact model on exact values: `⌊q0+½⌋, ⌊q0+½⌋+1, …, ⌊q1+½⌋−1`, through the same
saturating `toNat` as the model's `as usize` (`HasToNat ℚ`). -/
def rowsExact (q0 q1 : ℚ) : List Nat :=
  List.map (fun k : ℕ => (⌊q0 + 1 / 2⌋ + (k : ℤ)).toNat) (List.range (⌊q1 + 1 / 2⌋ - ⌊q0 + 1 / 2⌋).toNat)

/-! ### The rounding, up to the last representable pixel centre -/

/-- **round_up_to_half_exact_wide.**  For every finite `x` with `|x| ≤ 2^23 − 1` the repaired
`round_up_to_half` returns exactly the pixel centre `⌊x + ½⌋ + ½`.  (`Props.C20.round_up_to_half_exact`
below `2^22`, `F32.round_up_to_half_exact_large` above.)  Sharp: the next float, `2^23 − ½`, would need the
centre `2^23 + ½`, which is not a binary32 value (`round_up_to_half_wide_sharp`). -/
theorem round_up_to_half_exact_wide {x : UInt32} {q : ℚ} (hx : toRat? x = some q) (hq : |q| ≤ 2 ^ 23 - 1) :
    toRat? (roundUpHalfFp F32.floor x) = some (((⌊q + 1 / 2⌋ : ℤ) : ℚ) + 1 / 2) := by
  by_cases h : |q| < 2 ^ 22
  · exact C20.round_up_to_half_exact hx h
  · exact round_up_to_half_exact_large hx (not_lt.1 h) hq

example : toRat? (0x4AFFFFFE : UInt32) = some (2 ^ 23 - 1) ∧ |(2 ^ 23 - 1 : ℚ)| ≤ 2 ^ 23 - 1 := by
  constructor
  · decide +kernel
  · norm_num

/-- `x = 2^23 − ½` (0x4AFFFFFF): the result is `2^23`, whereas `⌊x + ½⌋ + ½ = 2^23 + ½`. -/
theorem round_up_to_half_wide_sharp :
    toRat? (0x4AFFFFFF : UInt32) = some (2 ^ 23 - 1 / 2) ∧
    toRat? (roundUpHalfFp F32.floor 0x4AFFFFFF) = some (2 ^ 23) := by
  unfold roundUpHalfFp roundUpHalfCore
  decide +kernel

/-- The no-fp variant on the same range (for `−½ ≤ x`, what survives clipping). -/
theorem round_up_to_half_exact_nofp_wide {x : UInt32} {q : ℚ} (hx : toRat? x = some q)
    (h0 : -1 / 2 ≤ q) (hq : q ≤ 2 ^ 23 - 1) :
    toRat? (roundUpHalfNoFp x) = some (((⌊q + 1 / 2⌋ : ℤ) : ℚ) + 1 / 2) := by
  by_cases h : q < 2 ^ 22
  · exact C20.round_up_to_half_exact_nofp hx h0 h
  · have hlo : (2 : ℚ) ^ 22 ≤ q := not_lt.1 h
    have hpos : 0 ≤ q := le_trans (by norm_num) hlo
    have habs : |q| = q := abs_of_nonneg hpos
    have hsum := add_half_exact_large hx (by rw [habs]; exact hlo) (by rw [habs]; exact hq)
    rw [C20.round_half_variants_agree hsum (by linarith)
      (signBit_false_of_pos hsum (by linarith)) (by norm_num; linarith)]
    exact round_up_to_half_exact_wide hx (by rw [habs]; exact hq)

/-! ### The rows -/

/-- Whatever `round_up_to_half` the build uses: if it is exact on `y0` and `y1`, the rows are exact. -/
theorem rowsWith_exact {rnd : UInt32 → UInt32} {y0 y1 : UInt32} {q0 q1 : ℚ}
    (h0 : toRat? (rnd y0) = some (((⌊q0 + 1 / 2⌋ : ℤ) : ℚ) + 1 / 2))
    (h1 : toRat? (rnd y1) = some (((⌊q1 + 1 / 2⌋ : ℤ) : ℚ) + 1 / 2))
    (hq0 : |q0| ≤ 2 ^ 23 - 1) (hq1 : |q1| ≤ 2 ^ 23 - 1) :
    rowsWith rnd y0 y1 = rowsExact q0 q1 := by
  have hb : ∀ q : ℚ, |q| ≤ 2 ^ 23 - 1 → -(2 ^ 23 : ℤ) ≤ ⌊q + 1 / 2⌋ ∧ ⌊q + 1 / 2⌋ < 2 ^ 23 := by
    intro q hq
    have hb := abs_le.1 hq
    constructor
    · apply Int.le_floor.2; push_cast; linarith
    · apply Int.floor_lt.2; push_cast; linarith
  obtain ⟨ha, ha'⟩ := hb q0 hq0
  obtain ⟨hb1, hb1'⟩ := hb q1 hq1
  unfold rowsWith rowsExact
  exact rows_of_centres h0 h1 ha ha' hb1 hb1'

/-- **rowsF_exact.**  For finite `y0`, `y1` with exact values `q0`, `q1` of magnitude at most `2^23 − 1`
(8 388 607: far beyond any frame buffer) the f32 code visits exactly the rows
`(⌊q0 + ½⌋ + k).toNat`, `k = 0 … ⌊q1 + ½⌋ − ⌊q0 + ½⌋ − 1` — the rows of the exact-arithmetic model
(`scan_length`, `scan_get`), with no tolerance.  No order between `q0` and `q1` is assumed (`q1 ≤ q0`
gives no rows on both sides, `as u32` saturating), nor a sign (a negative `q0` saturates to row 0 on both
sides — see `rowsF_negative_saturates`). -/
theorem rowsF_exact {y0 y1 : UInt32} {q0 q1 : ℚ} (hy0 : toRat? y0 = some q0) (hy1 : toRat? y1 = some q1)
    (hq0 : |q0| ≤ 2 ^ 23 - 1) (hq1 : |q1| ≤ 2 ^ 23 - 1) :
    rowsF y0 y1 = List.map (fun k : ℕ => (⌊q0 + 1 / 2⌋ + (k : ℤ)).toNat)
      (List.range (⌊q1 + 1 / 2⌋ - ⌊q0 + 1 / 2⌋).toNat) :=
  rowsWith_exact (round_up_to_half_exact_wide hy0 hq0) (round_up_to_half_exact_wide hy1 hq1) hq0 hq1

-- satisfiable, on the witness of fix b772987: y0 = 0.49999997 (0x3EFFFFFF), y1 = 3.5 (0x40600000)
example : toRat? (0x3EFFFFFF : UInt32) = some (16777215 / 33554432) ∧ toRat? (0x40600000 : UInt32) = some (7 / 2) ∧
    |(16777215 / 33554432 : ℚ)| ≤ 2 ^ 23 - 1 ∧ |(7 / 2 : ℚ)| ≤ 2 ^ 23 - 1 := by
  refine ⟨by decide +kernel, by decide +kernel, ?_, ?_⟩ <;> rw [abs_of_nonneg] <;> norm_num

-- the same witness meets the hypotheses of the theorems below (`−½ ≤ q0`, `q ≤ 2^23 − 1`)
example : -(1 / 2) ≤ (16777215 / 33554432 : ℚ) ∧ (16777215 / 33554432 : ℚ) ≤ 2 ^ 23 - 1 ∧
    -1 / 2 ≤ (7 / 2 : ℚ) ∧ (7 / 2 : ℚ) ≤ 2 ^ 23 - 1 := by norm_num

/-- **rowsFNoFp_exact.**  The same for the build without an fp feature, for `−½ ≤ q0, q1`. -/
theorem rowsFNoFp_exact {y0 y1 : UInt32} {q0 q1 : ℚ} (hy0 : toRat? y0 = some q0) (hy1 : toRat? y1 = some q1)
    (h0 : -1 / 2 ≤ q0) (hq0 : q0 ≤ 2 ^ 23 - 1) (h1 : -1 / 2 ≤ q1) (hq1 : q1 ≤ 2 ^ 23 - 1) :
    rowsFNoFp y0 y1 = List.map (fun k : ℕ => (⌊q0 + 1 / 2⌋ + (k : ℤ)).toNat)
      (List.range (⌊q1 + 1 / 2⌋ - ⌊q0 + 1 / 2⌋).toNat) :=
  rowsWith_exact (round_up_to_half_exact_nofp_wide hy0 h0 hq0) (round_up_to_half_exact_nofp_wide hy1 h1 hq1)
    (by rw [abs_le]; constructor <;> linarith) (by rw [abs_le]; constructor <;> linarith)

/-- Both builds visit the same rows. -/
theorem rowsFNoFp_eq_rowsF {y0 y1 : UInt32} {q0 q1 : ℚ} (hy0 : toRat? y0 = some q0) (hy1 : toRat? y1 = some q1)
    (h0 : -1 / 2 ≤ q0) (hq0 : q0 ≤ 2 ^ 23 - 1) (h1 : -1 / 2 ≤ q1) (hq1 : q1 ≤ 2 ^ 23 - 1) :
    rowsFNoFp y0 y1 = rowsF y0 y1 := by
  rw [rowsFNoFp_exact hy0 hy1 h0 hq0 h1 hq1,
    rowsF_exact hy0 hy1 (by rw [abs_le]; constructor <;> linarith) (by rw [abs_le]; constructor <;> linarith)]

/-! ### … are the rows of the exact model on the exact values -/

section Generic
variable {K : Type} [Field K] [LinearOrder K] [IsStrictOrderedRing K] [FloorRing K]
attribute [local instance] hasFloorK hasToNatK

omit [IsStrictOrderedRing K] in
/-- the `y` fields of the iterator's rows -/
theorem scanRows_map_y (dl : List K) (drx : K) (dvdx : List K) (n : Nat) (y : K) (left : List K) (right : K) :
    (scanRows dl drx dvdx n y left right).map (·.y)
      = List.map (fun k : ℕ => (⌊y + (k : K)⌋ : ℤ).toNat) (List.range n) := by
  induction n generalizing y left right with
  | zero => rfl
  | succ n ih =>
    rw [scanRows, List.map_cons, ih, List.range_succ_eq_map, List.map_cons, List.map_map]
    congr 1
    · show (⌊y⌋ : ℤ).toNat = _
      simp
    · apply List.map_congr_left
      intro k _
      simp only [Function.comp, Nat.succ_eq_add_one]
      congr 2; push_cast; ring

/-- **scan_rows.**  The rows of the exact model's `scan`, as one list (any ordered field with floor, any
varyings — no hypothesis on the lists or on `y0 ≠ y1`): `scan_length` and the `y` part of `scan_get`
together. -/
theorem scan_rows (y0 y1 : K) (l0 l1 r0 r1 : List K) :
    (scan y0 y1 l0 l1 r0 r1).map (·.y)
      = List.map (fun k : ℕ => (⌊y0 + 1 / 2⌋ + (k : ℤ)).toNat) (List.range (⌊y1 + 1 / 2⌋ - ⌊y0 + 1 / 2⌋).toNat) := by
  rw [scan_eq]
  simp only
  rw [scanRows_map_y, scan_rowcount]
  apply List.map_congr_left
  intro k _
  rw [Int.floor_add_natCast, floor_roundUpHalf]

end Generic

/-- At ℚ, with the instances the compiled driver uses. -/
theorem scan_rows_rat (q0 q1 : ℚ) (l0 l1 r0 r1 : List ℚ) :
    (scan (α := ℚ) q0 q1 l0 l1 r0 r1).map (·.y) = rowsExact q0 q1 :=
  scan_rows (K := ℚ) q0 q1 l0 l1 r0 r1

/-- **rowsF_eq_scan_rows.**  The rows the f32 code visits are the rows of the exact model `Raster.scan`
(the one the correspondence check runs) on the exact values of the same two `y` inputs — whatever the
varyings are. -/
theorem rowsF_eq_scan_rows {y0 y1 : UInt32} {q0 q1 : ℚ} (hy0 : toRat? y0 = some q0) (hy1 : toRat? y1 = some q1)
    (hq0 : |q0| ≤ 2 ^ 23 - 1) (hq1 : |q1| ≤ 2 ^ 23 - 1) (l0 l1 r0 r1 : List ℚ) :
    rowsF y0 y1 = (scan (α := ℚ) q0 q1 l0 l1 r0 r1).map (·.y) := by
  rw [scan_rows_rat, rowsF_exact hy0 hy1 hq0 hq1]; rfl

/-! ### Increasing, none twice, centre rule -/

/-- for a non-negative start the saturating cast is the identity: consecutive rows -/
theorem rowsExact_eq_range' {q0 q1 : ℚ} (h0 : -(1 / 2) ≤ q0) :
    rowsExact q0 q1 = List.range' ⌊q0 + 1 / 2⌋.toNat (⌊q1 + 1 / 2⌋ - ⌊q0 + 1 / 2⌋).toNat := by
  have ha : 0 ≤ ⌊q0 + 1 / 2⌋ := Int.floor_nonneg.mpr (by linarith)
  unfold rowsExact
  rw [List.range'_eq_map_range]
  apply List.map_congr_left
  intro k _
  omega

/-- **rowsF_consecutive.**  For `−½ ≤ q0` (the hypothesis of `scan_ys`) the f32 code visits the consecutive
rows `⌊q0+½⌋, ⌊q0+½⌋+1, …, ⌊q1+½⌋−1`. -/
theorem rowsF_consecutive {y0 y1 : UInt32} {q0 q1 : ℚ} (hy0 : toRat? y0 = some q0) (hy1 : toRat? y1 = some q1)
    (h0 : -(1 / 2) ≤ q0) (hq0 : q0 ≤ 2 ^ 23 - 1) (hq1 : |q1| ≤ 2 ^ 23 - 1) :
    rowsF y0 y1 = List.range' ⌊q0 + 1 / 2⌋.toNat (⌊q1 + 1 / 2⌋ - ⌊q0 + 1 / 2⌋).toNat := by
  rw [← rowsExact_eq_range' h0]
  exact rowsF_exact hy0 hy1 (by rw [abs_le]; constructor <;> linarith) hq1

/-- **rowsF_increasing.**  "Scanlines arrive in increasing y", in f32. -/
theorem rowsF_increasing {y0 y1 : UInt32} {q0 q1 : ℚ} (hy0 : toRat? y0 = some q0) (hy1 : toRat? y1 = some q1)
    (h0 : -(1 / 2) ≤ q0) (hq0 : q0 ≤ 2 ^ 23 - 1) (hq1 : |q1| ≤ 2 ^ 23 - 1) :
    (rowsF y0 y1).Pairwise (· < ·) := by
  rw [rowsF_consecutive hy0 hy1 h0 hq0 hq1]; exact List.pairwise_lt_range'

/-- **rowsF_nodup.**  "No row is produced twice", in f32. -/
theorem rowsF_nodup {y0 y1 : UInt32} {q0 q1 : ℚ} (hy0 : toRat? y0 = some q0) (hy1 : toRat? y1 = some q1)
    (h0 : -(1 / 2) ≤ q0) (hq0 : q0 ≤ 2 ^ 23 - 1) (hq1 : |q1| ≤ 2 ^ 23 - 1) :
    (rowsF y0 y1).Nodup := by
  rw [rowsF_consecutive hy0 hy1 h0 hq0 hq1]; exact List.nodup_range'

/-- **mem_rowsF_iff.**  The f32 code visits row `r` exactly when the pixel-centre height `r + ½` satisfies
`q0 < r + ½ ≤ q1` — the y half of the pixel-centre rule of `scan_covers_iff`, with no tolerance. -/
theorem mem_rowsF_iff {y0 y1 : UInt32} {q0 q1 : ℚ} (hy0 : toRat? y0 = some q0) (hy1 : toRat? y1 = some q1)
    (h0 : -(1 / 2) ≤ q0) (hq0 : q0 ≤ 2 ^ 23 - 1) (hq1 : |q1| ≤ 2 ^ 23 - 1) (r : ℕ) :
    r ∈ rowsF y0 y1 ↔ (q0 < (r : ℚ) + 1 / 2 ∧ (r : ℚ) + 1 / 2 ≤ q1) := by
  have ha : 0 ≤ ⌊q0 + 1 / 2⌋ := Int.floor_nonneg.mpr (by linarith)
  rw [rowsF_consecutive hy0 hy1 h0 hq0 hq1, List.mem_range'_1]
  have := pixel_in_span_iff q0 q1 (r : ℤ)
  simp only [Int.cast_natCast] at this
  rw [← this]
  omega

/-! ### The two halves of a triangle share `mid_y`: disjoint, consecutive row ranges -/

/-- **trifill_rowsF.**  `tri_fill` scans `top_y..mid_y` and then `mid_y..bot_y` with the SAME f32 `mid_y`
(raster.rs:143,146).  For `−½ ≤ top_y ≤ mid_y ≤ bot_y ≤ 2^23 − 1`, in f32: the rows of the upper half
followed by the rows of the lower half are the consecutive rows `⌊top+½⌋ … ⌊bot+½⌋ − 1` — exactly the rows
of `top_y..bot_y`; in particular strictly increasing across the seam, no row in both halves, none missing. -/
theorem trifill_rowsF {yt ym yb : UInt32} {qt qm qb : ℚ}
    (ht : toRat? yt = some qt) (hm : toRat? ym = some qm) (hb : toRat? yb = some qb)
    (h0 : -(1 / 2) ≤ qt) (htm : qt ≤ qm) (hmb : qm ≤ qb) (hhi : qb ≤ 2 ^ 23 - 1) :
    rowsF yt ym ++ rowsF ym yb = List.range' ⌊qt + 1 / 2⌋.toNat (⌊qb + 1 / 2⌋ - ⌊qt + 1 / 2⌋).toNat ∧
    rowsF yt ym ++ rowsF ym yb = rowsF yt yb ∧
    (rowsF yt ym ++ rowsF ym yb).Pairwise (· < ·) ∧
    (∀ r, r ∈ rowsF yt ym → r ∉ rowsF ym yb) := by
  have habs : ∀ q : ℚ, -(1 / 2) ≤ q → q ≤ 2 ^ 23 - 1 → |q| ≤ 2 ^ 23 - 1 := by
    intro q h1 h2; rw [abs_le]; constructor <;> linarith
  have ha : 0 ≤ ⌊qt + 1 / 2⌋ := Int.floor_nonneg.mpr (by linarith)
  have hfm : ⌊qt + 1 / 2⌋ ≤ ⌊qm + 1 / 2⌋ := Int.floor_le_floor (by linarith)
  have hfb : ⌊qm + 1 / 2⌋ ≤ ⌊qb + 1 / 2⌋ := Int.floor_le_floor (by linarith)
  have e1 := rowsF_consecutive ht hm h0 (by linarith) (habs qm (by linarith) (by linarith))
  have e2 := rowsF_consecutive hm hb (by linarith) (by linarith) (habs qb (by linarith) hhi)
  have e3 := rowsF_consecutive ht hb h0 (by linarith) (habs qb (by linarith) hhi)
  have hcat : rowsF yt ym ++ rowsF ym yb
      = List.range' ⌊qt + 1 / 2⌋.toNat (⌊qb + 1 / 2⌋ - ⌊qt + 1 / 2⌋).toNat := by
    rw [e1, e2]
    have s : ⌊qm + 1 / 2⌋.toNat = ⌊qt + 1 / 2⌋.toNat + (⌊qm + 1 / 2⌋ - ⌊qt + 1 / 2⌋).toNat := by omega
    rw [s, List.range'_append_1]
    congr 1; omega
  refine ⟨hcat, by rw [hcat, e3], by rw [hcat]; exact List.pairwise_lt_range', ?_⟩
  intro r h1 h2
  rw [e1, List.mem_range'_1] at h1
  rw [e2, List.mem_range'_1] at h2
  omega

-- satisfiable: top = 0.49999997, mid = 2.25 (0x40100000), bot = 5.5 (0x40B00000)
example : toRat? (0x40100000 : UInt32) = some (9 / 4) ∧ toRat? (0x40B00000 : UInt32) = some (11 / 2) ∧
    -(1 / 2) ≤ (16777215 / 33554432 : ℚ) ∧ (16777215 / 33554432 : ℚ) ≤ 9 / 4 ∧ (9 / 4 : ℚ) ≤ 11 / 2 ∧
    (11 / 2 : ℚ) ≤ 2 ^ 23 - 1 := by
  refine ⟨by decide +kernel, by decide +kernel, ?_, ?_, ?_, ?_⟩ <;> norm_num
example : rowsF 0x3EFFFFFF 0x40100000 = [0, 1] ∧ rowsF 0x40100000 0x40B00000 = [2, 3, 4, 5] ∧
    rowsF 0x3EFFFFFF 0x40B00000 = [0, 1, 2, 3, 4, 5] := by
  unfold rowsF rowsWith roundUpHalfFp roundUpHalfCore
  decide +kernel

/-! ### Sharpness: what fails beyond the bounds -/

/-- **Beyond `2^23` the rows are wrong.**  `y0 = 2^23` (0x4B000000), `y1 = 2^23 + 1` (0x4B000001), the first
two floats past the bound: the exact model visits the single row `2^23` (its centre `2^23 + ½` is the only one
in `(y0, y1]`); the f32 code ALSO emits row `2^23 + 1`, whose centre `2^23 + 1.5` lies above `y1` —
`y1 + 0.5` is a tie that rounds up to `2^23 + 2`, and no half-integer is left to correct it. -/
theorem rowsF_beyond_2p23_extra_row :
    toRat? (0x4B000000 : UInt32) = some (2 ^ 23) ∧ toRat? (0x4B000001 : UInt32) = some (2 ^ 23 + 1) ∧
    rowsF 0x4B000000 0x4B000001 = [8388608, 8388609] ∧
    rowsExact (2 ^ 23) (2 ^ 23 + 1) = [8388608] := by
  unfold rowsF rowsWith roundUpHalfFp roundUpHalfCore rowsExact
  refine ⟨by decide +kernel, by decide +kernel, by decide +kernel, ?_⟩
  have h1 : ⌊(2 ^ 23 : ℚ) + 1 / 2⌋ = 8388608 := by rw [Int.floor_eq_iff]; norm_num
  have h2 : ⌊(2 ^ 23 + 1 : ℚ) + 1 / 2⌋ = 8388609 := by rw [Int.floor_eq_iff]; norm_num
  rw [h1, h2]; decide

/-- **Beyond `2^24` a row is produced again and again.**  `y0 = 2^24` (0x4B800000), `y1 = 2^24 + 4`
(0x4B800002): `self.y += 1.0` is absorbed (`2^24 + 1` ties to `2^24`), so the four rows the iterator emits
are all row `2^24` — "no row is produced twice" fails in f32 there, while the exact model visits
`2^24 … 2^24 + 3`. -/
theorem rowsF_beyond_2p24_repeats_row :
    toRat? (0x4B800000 : UInt32) = some (2 ^ 24) ∧ toRat? (0x4B800002 : UInt32) = some (2 ^ 24 + 4) ∧
    rowsF 0x4B800000 0x4B800002 = [16777216, 16777216, 16777216, 16777216] ∧
    rowsExact (2 ^ 24) (2 ^ 24 + 4) = [16777216, 16777217, 16777218, 16777219] := by
  unfold rowsF rowsWith roundUpHalfFp roundUpHalfCore rowsExact
  refine ⟨by decide +kernel, by decide +kernel, by decide +kernel, ?_⟩
  have h1 : ⌊(2 ^ 24 : ℚ) + 1 / 2⌋ = 16777216 := by rw [Int.floor_eq_iff]; norm_num
  have h2 : ⌊(2 ^ 24 + 4 : ℚ) + 1 / 2⌋ = 16777220 := by rw [Int.floor_eq_iff]; norm_num
  rw [h1, h2]; decide

/-- **Negative coordinates** (the recorded finding `negative-screen-coordinate`): `y0 = −2.5` (0xC0200000),
`y1 = 1.5` (0x3FC00000) is inside the bounds of `rowsF_exact`, and f32 and exact model agree — but both
saturate `as usize` at 0, so row 0 is produced three times: `−½ ≤ q0` in `rowsF_nodup` cannot be dropped. -/
theorem rowsF_negative_saturates :
    toRat? (0xC0200000 : UInt32) = some (-5 / 2) ∧ toRat? (0x3FC00000 : UInt32) = some (3 / 2) ∧
    rowsF 0xC0200000 0x3FC00000 = [0, 0, 0, 1] ∧ ¬ (rowsF 0xC0200000 0x3FC00000).Nodup := by
  have h : rowsF 0xC0200000 0x3FC00000 = [0, 0, 0, 1] := by
    unfold rowsF rowsWith roundUpHalfFp roundUpHalfCore
    decide +kernel
  refine ⟨by decide +kernel, by decide +kernel, h, ?_⟩
  rw [h]; decide

/-! ### Non-vacuity on concrete bit patterns -/

-- the b772987 witness: y0 = 0.49999997 (0x3EFFFFFF) lies below the centre 0.5 of row 0, so row 0 IS visited
-- (before the fix `x + 0.5` rounded to 1.0 and the scan started at row 1); y1 = 3.5 (0x40600000) is a centre
-- itself and is included
example : rowsF 0x3EFFFFFF 0x40600000 = [0, 1, 2, 3] ∧ rowsFNoFp 0x3EFFFFFF 0x40600000 = [0, 1, 2, 3] := by
  unfold rowsF rowsFNoFp rowsWith roundUpHalfFp roundUpHalfNoFp roundUpHalfCore
  decide +kernel

-- y0 = 2.5 (0x40200000) is a centre: excluded (top exclusive); y1 = 2.5: nothing; reversed range: nothing
example : rowsF 0x40200000 0x40900000 = [3, 4] ∧ rowsF 0x40200000 0x40200000 = [] ∧
    rowsF 0x40900000 0x40200000 = [] := by
  unfold rowsF rowsWith roundUpHalfFp roundUpHalfCore
  decide +kernel

-- near the top of the range: y0 = 2^23 − 3 (0x4AFFFFFA), y1 = 2^23 − 1 (0x4AFFFFFE)
example : rowsF 0x4AFFFFFA 0x4AFFFFFE = [8388605, 8388606] := by
  unfold rowsF rowsWith roundUpHalfFp roundUpHalfCore
  decide +kernel

end Retro.Props.C04
