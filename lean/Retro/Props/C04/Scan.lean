/-
C04 — Scan conversion covers exactly the pixels whose centres are inside.

Exact-arithmetic theorems (any linearly ordered field with floor) about `Retro.Raster.scan` /
`scanRows` / `triFill`, the functions the correspondence check runs against `tri_fill`.

  * `scan_get`           row k of a trapezoid scan, in closed form (state advanced k times)
  * `scan_ys`            rows arrive with consecutive, strictly increasing y, none twice
  * `scan_covers_iff`    pixel (px,py) is covered by the scan of a trapezoid iff its centre c
                          satisfies  y0 < c.y ≤ y1  and  xl(c.y) < c.x ≤ xr(c.y), where xl, xr are the
                          exact points of the left/right edge lines at height c.y — the half-open
                          pixel-centre rule (top/left exclusive, bottom/right inclusive)
  * `scan_frag_count`    the reported x range has the same length as the fragment sequence
  * `trifill_split`      tri_fill is the upper scan followed by the lower scan of the sorted
                          vertices, with the split point on the long edge
In exact arithmetic there is no tolerance band; the 0.001 px band of the property is only needed
for f32 edge stepping and is applied in the correspondence check.
The step from this per-trapezoid characterisation to "centre inside the triangle by the three-edge-
function test" and its corollaries is proved in `Slice.lean` (slice rule), `Order.lean` (vertex-order
independence) and `Edge.lean` (`trifill_covers_iff_inside`, shared-edge partition). Coordinates are
assumed ≥ −½ in y (negative coordinates are the recorded finding `negative-screen-coordinate`).
-/
import Retro.Lemmas.Raster

namespace Retro.Props.C04
open Retro Retro.Raster Retro.Lemmas.Raster

variable {K : Type} [Field K] [LinearOrder K] [IsStrictOrderedRing K] [FloorRing K]
attribute [local instance] hasFloorK hasToNatK

/-- Pixel (px, py) lies in one of the spans. -/
def Covers (rows : List (Scanline K)) (px py : Nat) : Prop :=
  ∃ r ∈ rows, r.y = py ∧ r.x0 ≤ px ∧ px < r.x1

/-- The state `scan` hands to the iterator, and the row count. -/
theorem scan_eq (y0 y1 : K) (l0 l1 r0 r1 : List K) :
    scan y0 y1 l0 l1 r0 r1 =
      let dl := dvdtL l0 l1 (1 / (y1 - y0))
      let dr := dvdtL r0 r1 (1 / (y1 - y0))
      let dx0 := nth0 r0 - nth0 l0
      let dx1 := nth0 r1 - nth0 l1
      let dvdx := if dx0 * dx0 < dx1 * dx1 then dvdtL l1 r1 (1 / dx1) else dvdtL l0 r0 (1 / dx0)
      scanRows dl (nth0 dr) dvdx (HasToNat.toNatSat (roundUpHalf y1 - roundUpHalf y0)) (roundUpHalf y0)
        (lerpL l0 (stepL l0 dl) (roundUpHalf y0 - y0)) (nth0 r0 + nth0 dr * (roundUpHalf y0 - y0)) := by
  -- the model guards the reciprocal (`recip0`); over a field that is `1 / dx`
  simp only [scan, recip0_eq]

/-- number of rows: ⌊y1+½⌋ − ⌊y0+½⌋ (saturating at 0) -/
theorem scan_rowcount (y0 y1 : K) :
    (HasToNat.toNatSat (roundUpHalf y1 - roundUpHalf y0) : Nat) = (⌊y1 + 1 / 2⌋ - ⌊y0 + 1 / 2⌋).toNat := by
  show (⌊roundUpHalf y1 - roundUpHalf y0⌋ : Int).toNat = _
  rw [roundUpHalf_eq, roundUpHalf_eq]
  have : ((⌊y1 + 1 / 2⌋ : Int) : K) + 1 / 2 - (((⌊y0 + 1 / 2⌋ : Int) : K) + 1 / 2) =
      (((⌊y1 + 1 / 2⌋ - ⌊y0 + 1 / 2⌋ : Int)) : K) := by push_cast; ring
  rw [this, Int.floor_intCast]

theorem scan_length (y0 y1 : K) (l0 l1 r0 r1 : List K) :
    (scan y0 y1 l0 l1 r0 r1).length = (⌊y1 + 1 / 2⌋ - ⌊y0 + 1 / 2⌋).toNat := by
  rw [scan_eq]; simp only [scanRows_length]; exact scan_rowcount y0 y1

/-- **Row k in closed form.** For `y0 ≠ y1`, row `k` of the scan has pixel row `⌊y0+½⌋ + k`
(centre height `cy = ⌊y0+½⌋ + ½ + k`), and its span is `[⌊xl+½⌋, ⌊xr+½⌋)` with `xl, xr` the exact
x of the left and right edge lines at height `cy`. -/
theorem scan_get (y0 y1 : K) (l0 l1 r0 r1 : List K) (hne : y1 - y0 ≠ 0)
    (hl : l0.length = l1.length) (hl0 : 0 < l0.length) (hr : 0 < r0.length) (hr1 : 0 < r1.length)
    (k : Nat) (hk : k < (scan y0 y1 l0 l1 r0 r1).length) :
    ∃ row, (scan y0 y1 l0 l1 r0 r1)[k]? = some row ∧
      row.y = (⌊y0 + 1 / 2⌋ + (k : Int)).toNat ∧
      row.x0 = ⌊edgeX y0 y1 l0 l1 (roundUpHalf y0 + (k : K)) + 1 / 2⌋.toNat ∧
      row.x1 = ⌊edgeX y0 y1 r0 r1 (roundUpHalf y0 + (k : K)) + 1 / 2⌋.toNat ∧
      row.frags.length = (⌊edgeX y0 y1 r0 r1 (roundUpHalf y0 + (k : K)) + 1 / 2⌋
                          - ⌊edgeX y0 y1 l0 l1 (roundUpHalf y0 + (k : K)) + 1 / 2⌋).toNat := by
  rw [scan_eq] at hk ⊢
  simp only [scanRows_length] at hk
  simp only
  rw [scanRows_get _ _ _ _ _ _ _ k hk]
  refine ⟨_, rfl, ?_, ?_, ?_, ?_⟩
  · -- y
    show (⌊roundUpHalf y0 + (k : K)⌋ : Int).toNat = _
    rw [Int.floor_add_natCast, floor_roundUpHalf]
  all_goals
    have hdl : (dvdtL l0 l1 (1 / (y1 - y0))).length = l0.length := by rw [dvdtL_length, ← hl, Nat.min_self]
    have hstep : (stepL l0 (dvdtL l0 l1 (1 / (y1 - y0)))).length = l0.length := by
      rw [stepL_length, hdl, Nat.min_self]
    have hl0' : (lerpL l0 (stepL l0 (dvdtL l0 l1 (1 / (y1 - y0)))) (roundUpHalf y0 - y0)).length
        = (dvdtL l0 l1 (1 / (y1 - y0))).length := by rw [lerpL_length, hstep, Nat.min_self, hdl]
    have hxl : nth0 (stepN (dvdtL l0 l1 (1 / (y1 - y0))) k
        (lerpL l0 (stepL l0 (dvdtL l0 l1 (1 / (y1 - y0)))) (roundUpHalf y0 - y0)))
        = edgeX y0 y1 l0 l1 (roundUpHalf y0 + (k : K)) := by
      rw [nth0_stepN _ _ _ hl0' (by omega), nth0_lerpL _ _ _ hl0 (by omega),
        nth0_stepL _ _ hl0 (by omega), nth0_dvdtL _ _ _ hl0 (by omega)]
      simp only [lerp, edgeX]
      field_simp
      ring
    have hxr : nth0 r0 + nth0 (dvdtL r0 r1 (1 / (y1 - y0))) * (roundUpHalf y0 - y0)
        + (k : K) * nth0 (dvdtL r0 r1 (1 / (y1 - y0))) = edgeX y0 y1 r0 r1 (roundUpHalf y0 + (k : K)) := by
      rw [nth0_dvdtL _ _ _ hr hr1]
      simp only [edgeX]
      field_simp
      ring
  · show (⌊roundUpHalf (nth0 _)⌋ : Int).toNat = _
    rw [floor_roundUpHalf, hxl]
  · show (⌊roundUpHalf _⌋ : Int).toNat = _
    rw [floor_roundUpHalf, hxr]
  · simp only [rowOf, varyN_length]
    show (⌊roundUpHalf _ - roundUpHalf (nth0 _)⌋ : Int).toNat = _
    rw [hxl, hxr]
    generalize edgeX y0 y1 r0 r1 (roundUpHalf y0 + (k : K)) = xr
    generalize edgeX y0 y1 l0 l1 (roundUpHalf y0 + (k : K)) = xl
    rw [roundUpHalf_eq, roundUpHalf_eq]
    have : ∀ a b : Int, ((a : K) + 1 / 2 - ((b : K) + 1 / 2)) = ((a - b : Int) : K) := by
      intro a b; push_cast; ring
    rw [this, Int.floor_intCast]


/-- centre height of row `k`: `⌊y0+½⌋ + k + ½` -/
theorem row_centre (y0 : K) (k : Nat) (py : Nat) (h : (py : Int) = ⌊y0 + 1 / 2⌋ + (k : Int)) :
    roundUpHalf y0 + (k : K) = (py : K) + 1 / 2 := by
  rw [roundUpHalf_eq]
  have : ((py : Int) : K) = ((⌊y0 + 1 / 2⌋ + (k : Int) : Int) : K) := by rw [h]
  push_cast at this
  rw [this]; ring

/-- **Rows arrive in increasing y, none twice**: row `k` has pixel row `⌊y0+½⌋ + k`. -/
theorem scan_ys (y0 y1 : K) (l0 l1 r0 r1 : List K) (hne : y1 - y0 ≠ 0)
    (hl : l0.length = l1.length) (hl0 : 0 < l0.length) (hr : 0 < r0.length) (hr1 : 0 < r1.length)
    (hy : -(1 / 2) ≤ y0) (i j : Nat) (hij : i < j) (hj : j < (scan y0 y1 l0 l1 r0 r1).length) :
    ∃ ri rj, (scan y0 y1 l0 l1 r0 r1)[i]? = some ri ∧ (scan y0 y1 l0 l1 r0 r1)[j]? = some rj ∧ ri.y < rj.y := by
  obtain ⟨ri, hi, hyi, -⟩ := scan_get y0 y1 l0 l1 r0 r1 hne hl hl0 hr hr1 i (by omega)
  obtain ⟨rj, hj', hyj, -⟩ := scan_get y0 y1 l0 l1 r0 r1 hne hl hl0 hr hr1 j hj
  refine ⟨ri, rj, hi, hj', ?_⟩
  have h0 : 0 ≤ ⌊y0 + 1 / 2⌋ := Int.floor_nonneg.mpr (by linarith)
  rw [hyi, hyj]
  omega

/-- **The reported x range has the same length as the fragment sequence** (left edge on-grid). -/
theorem scan_frag_count (y0 y1 : K) (l0 l1 r0 r1 : List K) (hne : y1 - y0 ≠ 0)
    (hl : l0.length = l1.length) (hl0 : 0 < l0.length) (hr : 0 < r0.length) (hr1 : 0 < r1.length)
    (k : Nat) (hk : k < (scan y0 y1 l0 l1 r0 r1).length)
    (hx : -(1 / 2) ≤ edgeX y0 y1 l0 l1 (roundUpHalf y0 + (k : K))) :
    ∃ row, (scan y0 y1 l0 l1 r0 r1)[k]? = some row ∧ row.frags.length = row.x1 - row.x0 := by
  obtain ⟨row, hrow, -, hx0, hx1, hn⟩ := scan_get y0 y1 l0 l1 r0 r1 hne hl hl0 hr hr1 k hk
  refine ⟨row, hrow, ?_⟩
  have h0 : 0 ≤ ⌊edgeX y0 y1 l0 l1 (roundUpHalf y0 + (k : K)) + 1 / 2⌋ := Int.floor_nonneg.mpr (by linarith)
  rw [hn, hx0, hx1]
  omega

/-- **The pixel-centre rule for a trapezoid.** Pixel (px, py) is covered by `scan` exactly when
its centre `(px+½, py+½)` satisfies `y0 < cy ≤ y1` and `xl(cy) < cx ≤ xr(cy)`, where `xl`, `xr` are
the exact left/right edge lines. No tolerance. -/
theorem scan_covers_iff (y0 y1 : K) (l0 l1 r0 r1 : List K)
    (hl : l0.length = l1.length) (hl0 : 0 < l0.length) (hr : 0 < r0.length) (hr1 : 0 < r1.length)
    (hy : -(1 / 2) ≤ y0) (px py : Nat) :
    Covers (scan y0 y1 l0 l1 r0 r1) px py ↔
      (y0 < (py : K) + 1 / 2 ∧ (py : K) + 1 / 2 ≤ y1 ∧
       edgeX y0 y1 l0 l1 ((py : K) + 1 / 2) < (px : K) + 1 / 2 ∧
       (px : K) + 1 / 2 ≤ edgeX y0 y1 r0 r1 ((py : K) + 1 / 2)) := by
  have h0 : 0 ≤ ⌊y0 + 1 / 2⌋ := Int.floor_nonneg.mpr (by linarith)
  by_cases hne : y1 - y0 = 0
  · -- empty range: no rows, and no centre satisfies y0 < c ≤ y1
    have hy1 : y1 = y0 := by linarith
    constructor
    · rintro ⟨r, hr', -⟩
      have : (scan y0 y1 l0 l1 r0 r1).length = 0 := by rw [scan_length, hy1]; simp
      rw [List.length_eq_zero_iff] at this
      rw [this] at hr'; simp at hr'
    · rintro ⟨h1, h2, -⟩; rw [hy1] at h2; linarith
  constructor
  · rintro ⟨r, hmem, hry, hx0, hx1⟩
    obtain ⟨k, hk, hget⟩ := List.mem_iff_getElem.mp hmem
    obtain ⟨row, hrow, hyk, hxl, hxr, -⟩ := scan_get y0 y1 l0 l1 r0 r1 hne hl hl0 hr hr1 k hk
    have : row = r := by
      rw [List.getElem?_eq_getElem hk] at hrow
      injection hrow with hrow; rw [← hrow, hget]
    subst this
    have hklen := hk
    rw [scan_length] at hklen
    have hpy : (py : Int) = ⌊y0 + 1 / 2⌋ + (k : Int) := by rw [← hry, hyk]; omega
    have hc := row_centre y0 k py hpy
    rw [hc] at hxl hxr
    have hyspan : ⌊y0 + 1 / 2⌋ ≤ (py : Int) ∧ (py : Int) < ⌊y1 + 1 / 2⌋ := by omega
    have hys := (pixel_in_span_iff y0 y1 (py : Int)).mp hyspan
    have hxspan : ⌊edgeX y0 y1 l0 l1 ((py : K) + 1 / 2) + 1 / 2⌋ ≤ (px : Int) ∧
        (px : Int) < ⌊edgeX y0 y1 r0 r1 ((py : K) + 1 / 2) + 1 / 2⌋ := by
      rw [hxl] at hx0; rw [hxr] at hx1
      omega
    have hxs := (pixel_in_span_iff _ _ (px : Int)).mp hxspan
    simp only [Int.cast_natCast] at hys hxs
    exact ⟨hys.1, hys.2, hxs.1, hxs.2⟩
  · rintro ⟨hy1, hy2, hx1, hx2⟩
    have hyspan := (pixel_in_span_iff y0 y1 (py : Int)).mpr (by simp only [Int.cast_natCast]; exact ⟨hy1, hy2⟩)
    have hxspan := (pixel_in_span_iff (edgeX y0 y1 l0 l1 ((py : K) + 1 / 2))
      (edgeX y0 y1 r0 r1 ((py : K) + 1 / 2)) (px : Int)).mpr (by simp only [Int.cast_natCast]; exact ⟨hx1, hx2⟩)
    set k := ((py : Int) - ⌊y0 + 1 / 2⌋).toNat with hkdef
    have hk : k < (scan y0 y1 l0 l1 r0 r1).length := by rw [scan_length]; omega
    obtain ⟨row, hrow, hyk, hxl, hxr, -⟩ := scan_get y0 y1 l0 l1 r0 r1 hne hl hl0 hr hr1 k hk
    have hpy : (py : Int) = ⌊y0 + 1 / 2⌋ + (k : Int) := by omega
    have hc := row_centre y0 k py hpy
    rw [hc] at hxl hxr
    refine ⟨row, List.mem_of_getElem? hrow, ?_, ?_, ?_⟩
    · rw [hyk]; omega
    · rw [hxl]; omega
    · rw [hxr]; omega

/-! ### tri_fill is the two scans of the sorted vertices -/

/-- `tri_fill` = upper trapezoid scan then lower trapezoid scan, split at the middle vertex and
the point of the long edge at the same height. -/
theorem trifill_split (a b c : List K) :
    triFill a b c =
      let s := sort3 a b c
      let mid1 := lerpL s.1 s.2.2 ((nth1 s.2.1 - nth1 s.1) / (nth1 s.2.2 - nth1 s.1))
      let lr := if nth0 s.2.1 < nth0 mid1 then (s.2.1, mid1) else (mid1, s.2.1)
      scan (nth1 s.1) (nth1 s.2.1) s.1 lr.1 s.1 lr.2 ++ scan (nth1 s.2.1) (nth1 s.2.2) lr.1 s.2.2 lr.2 s.2.2 := by
  simp only [triFill]

/-- `sort3` returns a permutation of its arguments ordered by y (stable). -/
theorem sort3_sorted (a b c : List K) :
    nth1 (sort3 a b c).1 ≤ nth1 (sort3 a b c).2.1 ∧ nth1 (sort3 a b c).2.1 ≤ nth1 (sort3 a b c).2.2 := by
  unfold sort3
  by_cases h1 : nth1 b < nth1 a <;> simp only [h1, if_true, if_false] <;>
  · split_ifs with h2 h3 <;> constructor <;> linarith

theorem sort3_perm (a b c : List K) :
    [(sort3 a b c).1, (sort3 a b c).2.1, (sort3 a b c).2.2].Perm [a, b, c] := by
  unfold sort3
  by_cases h1 : nth1 b < nth1 a <;> simp only [h1, if_true, if_false] <;>
  · split_ifs <;> simp only <;> grind

/-! ### Non-vacuity: the suite's 'gradient' triangle, run exactly over ℚ -/

example : ((triFill (α := Rat) [15, 2, 1] [2, 8, 1] [26, 14, 1]).map fun r => (r.y, r.x0, r.x1)) =
    [(2, 14, 15), (3, 12, 16), (4, 10, 17), (5, 7, 18), (6, 5, 19), (7, 3, 20), (8, 4, 21),
     (9, 8, 22), (10, 12, 23), (11, 16, 24), (12, 20, 25), (13, 24, 26)] := by
  decide +kernel

end Retro.Props.C04
