/-
C04, triangle level: `tri_fill` covers pixel (px, py) exactly when the pixel centre lies in the
half-open horizontal slice of the triangle at the centre's height.

For the y-sorted vertices T, M, B the slice of the triangle at height cy is the segment between the
long edge TB and the short edge active at that height (TM up to M's height, MB below it). The theorem
`trifill_covers_iff` states: covered ⇔ (T.y < cy ≤ B.y) and min(x_short(cy), x_long(cy)) < cx ≤
max(x_short(cy), x_long(cy)) — top and left exclusive, bottom and right inclusive, no tolerance, for
every triangle (flat tops/bottoms and zero-area triangles included) with y ≥ −½.
-/
import Retro.Props.C04.Scan

namespace Retro.Props.C04
open Retro Retro.Raster Retro.Lemmas.Raster

variable {K : Type} [Field K] [LinearOrder K] [IsStrictOrderedRing K] [FloorRing K]
attribute [local instance] hasFloorK hasToNatK

theorem covers_append (r1 r2 : List (Scanline K)) (px py : Nat) :
    Covers (r1 ++ r2) px py ↔ Covers r1 px py ∨ Covers r2 px py := by
  unfold Covers
  constructor
  · rintro ⟨r, hr, h⟩
    rcases List.mem_append.mp hr with h1 | h2
    · exact Or.inl ⟨r, h1, h⟩
    · exact Or.inr ⟨r, h2, h⟩
  · rintro (⟨r, hr, h⟩ | ⟨r, hr, h⟩)
    · exact ⟨r, List.mem_append.mpr (Or.inl hr), h⟩
    · exact ⟨r, List.mem_append.mpr (Or.inr hr), h⟩

/-- x of the line through P and Q at height c (the vertices' own y as parameters). -/
def lineX (P Q : List K) (c : K) : K := edgeX (nth1 P) (nth1 Q) P Q c

/-- The half-open slice rule against two edge lines. -/
def InSlice (x1 x2 cx : K) : Prop := min x1 x2 < cx ∧ cx ≤ max x1 x2

theorem inSlice_of_le {x1 x2 cx : K} (h : x1 ≤ x2) : InSlice x1 x2 cx ↔ (x1 < cx ∧ cx ≤ x2) := by
  unfold InSlice; rw [min_eq_left h, max_eq_right h]

theorem inSlice_of_ge {x1 x2 cx : K} (h : x2 ≤ x1) : InSlice x1 x2 cx ↔ (x2 < cx ∧ cx ≤ x1) := by
  unfold InSlice; rw [min_eq_right h, max_eq_left h]

/-- The point of the long edge at the middle vertex's height, as `tri_fill` computes it. -/
theorem nth0_mid1 (T B : List K) (my : K) (hT : 0 < T.length) (hB : 0 < B.length) :
    nth0 (lerpL T B ((my - nth1 T) / (nth1 B - nth1 T))) = lineX T B my := by
  rw [nth0_lerpL _ _ _ hT hB]; rfl

/-- Upper half: the edge from T to mid1 is the long edge TB. -/
theorem upper_long (T B : List K) (my c : K) (hT : 0 < T.length) (hB : 0 < B.length) (h : my - nth1 T ≠ 0) :
    edgeX (nth1 T) my T (lerpL T B ((my - nth1 T) / (nth1 B - nth1 T))) c = lineX T B c := by
  unfold lineX edgeX
  rw [nth0_lerpL _ _ _ hT hB]
  simp only [lerp]
  by_cases hb : nth1 B - nth1 T = 0
  · simp [hb]
  · field_simp
    ring

/-- Lower half: the edge from mid1 to B is the long edge TB. -/
theorem lower_long (T B : List K) (my c : K) (hT : 0 < T.length) (hB : 0 < B.length)
    (h : nth1 B - my ≠ 0) (h' : nth1 B - nth1 T ≠ 0) :
    edgeX my (nth1 B) (lerpL T B ((my - nth1 T) / (nth1 B - nth1 T))) B c = lineX T B c := by
  unfold lineX edgeX
  rw [nth0_lerpL _ _ _ hT hB]
  simp only [lerp]
  field_simp
  ring

/-- Ordering of the two edge lines is the same along a whole half (they meet only at its apex). -/
theorem upper_order (T M B : List K) (c : K) (h : nth1 M - nth1 T ≠ 0) (hb : nth1 B - nth1 T ≠ 0) :
    lineX T M c - lineX T B c = (nth0 M - lineX T B (nth1 M)) * ((c - nth1 T) / (nth1 M - nth1 T)) := by
  unfold lineX edgeX
  field_simp
  ring

theorem lower_order (T M B : List K) (c : K) (h : nth1 B - nth1 M ≠ 0) (hb : nth1 B - nth1 T ≠ 0) :
    lineX M B c - lineX T B c = (nth0 M - lineX T B (nth1 M)) * ((nth1 B - c) / (nth1 B - nth1 M)) := by
  unfold lineX edgeX
  field_simp
  ring


/-- **Upper half.** The scan of the upper trapezoid covers exactly the centres in the slice between
the short edge TM and the long edge TB, for heights in (T.y, M.y]. -/
theorem upper_half_iff (T M B : List K) (m : Nat) (hm : 1 < m)
    (hT : T.length = m) (hM : M.length = m) (hB : B.length = m)
    (h1 : nth1 T ≤ nth1 M) (h2 : nth1 M ≤ nth1 B) (hy : -(1 / 2) ≤ nth1 T) (px py : Nat) :
    let mid1 := lerpL T B ((nth1 M - nth1 T) / (nth1 B - nth1 T))
    let lr := if nth0 M < nth0 mid1 then (M, mid1) else (mid1, M)
    Covers (scan (nth1 T) (nth1 M) T lr.1 T lr.2) px py ↔
      (nth1 T < (py : K) + 1 / 2 ∧ (py : K) + 1 / 2 ≤ nth1 M ∧
       InSlice (lineX T M ((py : K) + 1 / 2)) (lineX T B ((py : K) + 1 / 2)) ((px : K) + 1 / 2)) := by
  intro mid1 lr
  have hmid : mid1.length = m := by simp only [mid1]; rw [lerpL_length, hT, hB, Nat.min_self]
  have hlr : lr.1.length = m ∧ lr.2.length = m := by
    simp only [lr]; split <;> exact ⟨by assumption, by assumption⟩
  rw [scan_covers_iff (nth1 T) (nth1 M) T lr.1 T lr.2 (by rw [hT, hlr.1]) (by omega) (by omega) (by omega) hy]
  by_cases hflat : nth1 M - nth1 T = 0
  · have : nth1 M = nth1 T := by linarith
    constructor
    · rintro ⟨a, b, -⟩; rw [this] at b; linarith
    · rintro ⟨a, b, -⟩; rw [this] at b; linarith
  have hpos : 0 < nth1 M - nth1 T := lt_of_le_of_ne (by linarith) (Ne.symm hflat)
  have hb : nth1 B - nth1 T ≠ 0 := by
    have : 0 < nth1 B - nth1 T := by linarith
    exact this.ne'
  constructor
  · rintro ⟨hy1, hy2, hx1, hx2⟩
    refine ⟨hy1, hy2, ?_⟩
    have hf : 0 < ((py : K) + 1 / 2 - nth1 T) / (nth1 M - nth1 T) := div_pos (by linarith) hpos
    have hord := upper_order T M B ((py : K) + 1 / 2) hflat hb
    have hmx : nth0 mid1 = lineX T B (nth1 M) := nth0_mid1 T B (nth1 M) (by omega) (by omega)
    by_cases hc : nth0 M < nth0 mid1
    · simp only [lr, hc, if_true] at hx1 hx2
      rw [upper_long T B (nth1 M) _ (by omega) (by omega) hflat] at hx2
      have hlt : lineX T M ((py : K) + 1 / 2) ≤ lineX T B ((py : K) + 1 / 2) := by
        have : (nth0 M - lineX T B (nth1 M)) * (((py : K) + 1 / 2 - nth1 T) / (nth1 M - nth1 T)) ≤ 0 :=
          mul_nonpos_of_nonpos_of_nonneg (by rw [← hmx]; linarith) hf.le
        linarith
      exact (inSlice_of_le hlt).mpr ⟨hx1, hx2⟩
    · simp only [lr, hc, if_false] at hx1 hx2
      rw [upper_long T B (nth1 M) _ (by omega) (by omega) hflat] at hx1
      have hge : lineX T B ((py : K) + 1 / 2) ≤ lineX T M ((py : K) + 1 / 2) := by
        have : 0 ≤ (nth0 M - lineX T B (nth1 M)) * (((py : K) + 1 / 2 - nth1 T) / (nth1 M - nth1 T)) :=
          mul_nonneg (by rw [← hmx]; linarith [not_lt.mp hc]) hf.le
        linarith
      exact (inSlice_of_ge hge).mpr ⟨hx1, hx2⟩
  · rintro ⟨hy1, hy2, hs⟩
    refine ⟨hy1, hy2, ?_⟩
    have hf : 0 < ((py : K) + 1 / 2 - nth1 T) / (nth1 M - nth1 T) := div_pos (by linarith) hpos
    have hord := upper_order T M B ((py : K) + 1 / 2) hflat hb
    have hmx : nth0 mid1 = lineX T B (nth1 M) := nth0_mid1 T B (nth1 M) (by omega) (by omega)
    by_cases hc : nth0 M < nth0 mid1
    · simp only [lr, hc, if_true]
      rw [upper_long T B (nth1 M) _ (by omega) (by omega) hflat]
      have hlt : lineX T M ((py : K) + 1 / 2) ≤ lineX T B ((py : K) + 1 / 2) := by
        have : (nth0 M - lineX T B (nth1 M)) * (((py : K) + 1 / 2 - nth1 T) / (nth1 M - nth1 T)) ≤ 0 :=
          mul_nonpos_of_nonpos_of_nonneg (by rw [← hmx]; linarith) hf.le
        linarith
      exact (inSlice_of_le hlt).mp hs
    · simp only [lr, hc, if_false]
      rw [upper_long T B (nth1 M) _ (by omega) (by omega) hflat]
      have hge : lineX T B ((py : K) + 1 / 2) ≤ lineX T M ((py : K) + 1 / 2) := by
        have : 0 ≤ (nth0 M - lineX T B (nth1 M)) * (((py : K) + 1 / 2 - nth1 T) / (nth1 M - nth1 T)) :=
          mul_nonneg (by rw [← hmx]; linarith [not_lt.mp hc]) hf.le
        linarith
      exact (inSlice_of_ge hge).mp hs

/-- **Lower half.** The scan of the lower trapezoid covers exactly the centres in the slice between
the short edge MB and the long edge TB, for heights in (M.y, B.y]. -/
theorem lower_half_iff (T M B : List K) (m : Nat) (hm : 1 < m)
    (hT : T.length = m) (hM : M.length = m) (hB : B.length = m)
    (h1 : nth1 T ≤ nth1 M) (h2 : nth1 M ≤ nth1 B) (hy : -(1 / 2) ≤ nth1 M) (px py : Nat) :
    let mid1 := lerpL T B ((nth1 M - nth1 T) / (nth1 B - nth1 T))
    let lr := if nth0 M < nth0 mid1 then (M, mid1) else (mid1, M)
    Covers (scan (nth1 M) (nth1 B) lr.1 B lr.2 B) px py ↔
      (nth1 M < (py : K) + 1 / 2 ∧ (py : K) + 1 / 2 ≤ nth1 B ∧
       InSlice (lineX M B ((py : K) + 1 / 2)) (lineX T B ((py : K) + 1 / 2)) ((px : K) + 1 / 2)) := by
  intro mid1 lr
  have hmid : mid1.length = m := by simp only [mid1]; rw [lerpL_length, hT, hB, Nat.min_self]
  have hlr : lr.1.length = m ∧ lr.2.length = m := by
    simp only [lr]; split <;> exact ⟨by assumption, by assumption⟩
  rw [scan_covers_iff (nth1 M) (nth1 B) lr.1 B lr.2 B (by rw [hB, hlr.1]) (by omega) (by omega) (by omega) hy]
  by_cases hflat : nth1 B - nth1 M = 0
  · have : nth1 B = nth1 M := by linarith
    constructor
    · rintro ⟨a, b, -⟩; rw [this] at b; linarith
    · rintro ⟨a, b, -⟩; rw [this] at b; linarith
  have hpos : 0 < nth1 B - nth1 M := lt_of_le_of_ne (by linarith) (Ne.symm hflat)
  have hb : nth1 B - nth1 T ≠ 0 := by
    have : 0 < nth1 B - nth1 T := by linarith
    exact this.ne'
  have hmx : nth0 mid1 = lineX T B (nth1 M) := nth0_mid1 T B (nth1 M) (by omega) (by omega)
  have key : ∀ (hy2 : (py : K) + 1 / 2 ≤ nth1 B),
      0 ≤ (nth1 B - ((py : K) + 1 / 2)) / (nth1 B - nth1 M) := fun hy2 => div_nonneg (by linarith) hpos.le
  have hord := lower_order T M B ((py : K) + 1 / 2) hflat hb
  constructor
  · rintro ⟨hy1, hy2, hx1, hx2⟩
    refine ⟨hy1, hy2, ?_⟩
    by_cases hc : nth0 M < nth0 mid1
    · simp only [lr, hc, if_true] at hx1 hx2
      rw [lower_long T B (nth1 M) _ (by omega) (by omega) hflat hb] at hx2
      have hlt : lineX M B ((py : K) + 1 / 2) ≤ lineX T B ((py : K) + 1 / 2) := by
        have : (nth0 M - lineX T B (nth1 M)) * ((nth1 B - ((py : K) + 1 / 2)) / (nth1 B - nth1 M)) ≤ 0 :=
          mul_nonpos_of_nonpos_of_nonneg (by rw [← hmx]; linarith) (key hy2)
        linarith
      exact (inSlice_of_le hlt).mpr ⟨hx1, hx2⟩
    · simp only [lr, hc, if_false] at hx1 hx2
      rw [lower_long T B (nth1 M) _ (by omega) (by omega) hflat hb] at hx1
      have hge : lineX T B ((py : K) + 1 / 2) ≤ lineX M B ((py : K) + 1 / 2) := by
        have : 0 ≤ (nth0 M - lineX T B (nth1 M)) * ((nth1 B - ((py : K) + 1 / 2)) / (nth1 B - nth1 M)) :=
          mul_nonneg (by rw [← hmx]; linarith [not_lt.mp hc]) (key hy2)
        linarith
      exact (inSlice_of_ge hge).mpr ⟨hx1, hx2⟩
  · rintro ⟨hy1, hy2, hs⟩
    refine ⟨hy1, hy2, ?_⟩
    by_cases hc : nth0 M < nth0 mid1
    · simp only [lr, hc, if_true]
      rw [lower_long T B (nth1 M) _ (by omega) (by omega) hflat hb]
      have hlt : lineX M B ((py : K) + 1 / 2) ≤ lineX T B ((py : K) + 1 / 2) := by
        have : (nth0 M - lineX T B (nth1 M)) * ((nth1 B - ((py : K) + 1 / 2)) / (nth1 B - nth1 M)) ≤ 0 :=
          mul_nonpos_of_nonpos_of_nonneg (by rw [← hmx]; linarith) (key hy2)
        linarith
      exact (inSlice_of_le hlt).mp hs
    · simp only [lr, hc, if_false]
      rw [lower_long T B (nth1 M) _ (by omega) (by omega) hflat hb]
      have hge : lineX T B ((py : K) + 1 / 2) ≤ lineX M B ((py : K) + 1 / 2) := by
        have : 0 ≤ (nth0 M - lineX T B (nth1 M)) * ((nth1 B - ((py : K) + 1 / 2)) / (nth1 B - nth1 M)) :=
          mul_nonneg (by rw [← hmx]; linarith [not_lt.mp hc]) (key hy2)
        linarith
      exact (inSlice_of_ge hge).mp hs

/-- The sorted vertices keep the common length. -/
theorem sort3_lengths (a b c : List K) (m : Nat) (ha : a.length = m) (hb : b.length = m) (hc : c.length = m) :
    (sort3 a b c).1.length = m ∧ (sort3 a b c).2.1.length = m ∧ (sort3 a b c).2.2.length = m := by
  unfold sort3
  by_cases h : nth1 b < nth1 a <;> simp only [h, if_true, if_false] <;>
  · split_ifs <;> exact ⟨by assumption, by assumption, by assumption⟩

theorem sort3_mem (a b c : List K) :
    ∀ v ∈ [(sort3 a b c).1, (sort3 a b c).2.1, (sort3 a b c).2.2], v ∈ [a, b, c] := by
  intro v hv
  exact (sort3_perm a b c).subset hv

/-- **Triangle level.** For every triangle whose vertices have y ≥ −½, `tri_fill` covers pixel
(px, py) iff the pixel centre lies in the half-open horizontal slice of the triangle at its height:
between the long edge TB and the short edge TM (heights in (T.y, M.y]) or MB (heights in (M.y, B.y])
of the y-sorted vertices — left and top exclusive, right and bottom inclusive, no tolerance. -/
theorem trifill_covers_iff (a b c : List K) (m : Nat) (hm : 1 < m)
    (ha : a.length = m) (hb : b.length = m) (hc : c.length = m)
    (hy : ∀ v ∈ [a, b, c], -(1 / 2) ≤ nth1 v) (px py : Nat) :
    let T := (sort3 a b c).1
    let M := (sort3 a b c).2.1
    let B := (sort3 a b c).2.2
    Covers (triFill a b c) px py ↔
      (nth1 T < (py : K) + 1 / 2 ∧ (py : K) + 1 / 2 ≤ nth1 M ∧
        InSlice (lineX T M ((py : K) + 1 / 2)) (lineX T B ((py : K) + 1 / 2)) ((px : K) + 1 / 2)) ∨
      (nth1 M < (py : K) + 1 / 2 ∧ (py : K) + 1 / 2 ≤ nth1 B ∧
        InSlice (lineX M B ((py : K) + 1 / 2)) (lineX T B ((py : K) + 1 / 2)) ((px : K) + 1 / 2)) := by
  intro T M B
  obtain ⟨hT, hM, hB⟩ := sort3_lengths a b c m ha hb hc
  obtain ⟨h1, h2⟩ := sort3_sorted a b c
  have hyT : -(1 / 2) ≤ nth1 T := hy _ (sort3_mem a b c _ (by simp [T]))
  have hyM : -(1 / 2) ≤ nth1 M := hy _ (sort3_mem a b c _ (by simp [M]))
  rw [trifill_split]
  simp only
  rw [covers_append]
  have hu := upper_half_iff T M B m hm hT hM hB h1 h2 hyT px py
  have hl := lower_half_iff T M B m hm hT hM hB h1 h2 hyM px py
  simp only at hu hl
  rw [hu, hl]

/-- No pixel is produced twice: the two halves cover disjoint rows, and within a row a span covers
each pixel once by construction. -/
theorem trifill_halves_disjoint (a b c : List K) (m : Nat) (hm : 1 < m)
    (ha : a.length = m) (hb : b.length = m) (hc : c.length = m)
    (hy : ∀ v ∈ [a, b, c], -(1 / 2) ≤ nth1 v) (px py : Nat) :
    let T := (sort3 a b c).1
    let M := (sort3 a b c).2.1
    let B := (sort3 a b c).2.2
    ¬ ((nth1 T < (py : K) + 1 / 2 ∧ (py : K) + 1 / 2 ≤ nth1 M) ∧
       (nth1 M < (py : K) + 1 / 2 ∧ (py : K) + 1 / 2 ≤ nth1 B)) := by
  intro T M B h
  obtain ⟨⟨-, h1⟩, ⟨h2, -⟩⟩ := h
  linarith

/-- Non-vacuity: the triangle (2,1), (8,5), (4,6) over ℚ covers pixel (4,3) and not pixel (2,3). -/
example : Covers (triFill (α := Rat) [2, 1] [8, 5] [4, 6]) 4 3 ∧ ¬ Covers (triFill (α := Rat) [2, 1] [8, 5] [4, 6]) 2 3 := by
  have hyv : ∀ v ∈ [([2, 1] : List Rat), [8, 5], [4, 6]], -(1 / 2) ≤ nth1 v := by
    intro v hv
    simp only [List.mem_cons, List.mem_nil_iff, or_false] at hv
    rcases hv with rfl | rfl | rfl <;> norm_num [nth1]
  have h1 := trifill_covers_iff (K := Rat) [2, 1] [8, 5] [4, 6] 2 (by omega) rfl rfl rfl hyv 4 3
  have h2 := trifill_covers_iff (K := Rat) [2, 1] [8, 5] [4, 6] 2 (by omega) rfl rfl rfl hyv 2 3
  simp only at h1 h2
  constructor
  · apply h1.mpr; left
    norm_num [sort3, nth1, nth0, InSlice, lineX, edgeX]
  · intro hc
    have := h2.mp hc
    norm_num [sort3, nth1, nth0, InSlice, lineX, edgeX] at this

end Retro.Props.C04
