/-
C05 — Fragments carry correctly interpolated, finite depth and attributes.
  `Retro.Props.C05.Frag` : affine-hull invariant (`frag_on_plane`), perspective division, per-trapezoid
                           fragment centres, non-zero divisors
  `Retro.Props.C05.Tri`  : triangle level — for every triangle of non-zero area each fragment sits at
                           its pixel centre (`trifill_frag_centre`) and every division that feeds an
                           emitted fragment has a non-zero divisor (`trifill_divisors_ne_zero`)
-/
import Retro.Props.C05.Frag
import Retro.Props.C05.Tri
