/-
C05 — Fragments carry correctly interpolated, finite depth and attributes.
  `Retro.Props.C05.Frag` : affine-hull invariant (`frag_on_plane`), perspective division, per-trapezoid
                           fragment centres, non-zero divisors
  `Retro.Props.C05.Tri`  : triangle level — for every triangle of non-zero area each fragment sits at
                           its pixel centre (`trifill_frag_centre`) and every division that feeds an
                           emitted fragment has a non-zero divisor (`trifill_divisors_ne_zero`)
  `Retro.Props.C05.Poison`: NaN/∞-freedom as a theorem — the same model run at `Poison K` (a value, or `bad` =
                           "a division by zero happened upstream") on lifted input is the lift of the exact
                           run (`scan_poison_free`, `trifill_poison_free`), reciprocal depth stays positive
                           (`frag_z_pos`), hence the fragments after `z_div` are finite (`trifill_frags_finite`);
                           the pre-fix `scan` poisons a fragment (`scanOld_poisons`)
-/
import Retro.Props.C05.Frag
import Retro.Props.C05.Tri
import Retro.Props.C05.Poison
