/-
C05 — Fragments carry correctly interpolated, finite depth and attributes.

Exact-arithmetic theorems about `Retro.Raster.triFill` / `scan` / `zdiv`:

  * `frag_on_plane`   every raw fragment tuple (x, y, z, attributes…) produced by `triFill A B C` is
                      ONE affine combination a·A + b·B + c·C (a+b+c = 1) of the three vertex tuples:
                      depth and every attribute take the value of the plane through the three
                      vertex values at the fragment's own (x, y).
  * `frag_persp`      after `zdiv`, attribute j equals (a·A_j + b·B_j + c·C_j)/(a·A_z + b·B_z + c·C_z):
                      division by the interpolated reciprocal depth (perspective correction).
  * `persp_correct`   with A_j = α_j·A_z etc. (attributes pre-divided by w, z = 1/w) that quotient is
                      the weighted mean Σ(wᵢ'·αᵢ)/Σwᵢ' with weights wᵢ' = aᵢ·zᵢ — the clip-space-affine
                      (perspective-correct) interpolant.
  * `scan_frag_centre` in a trapezoid whose left/right edges span exactly y0..y1 and that is not of
                      zero width, fragment j of row k sits at x = x0 + j and y = the row's centre.
  * `scan_dvdx_den_ne_zero`, `scan_rows_imp_dy`: every division feeding an emitted fragment has a
                      non-zero divisor unless the trapezoid has zero width (the fixed defect
                      `scan-one-row-half-nan` was exactly a violation of the first).
PARTIAL: the 0.5 % bound under f32 rounding is not proved (tolerance-gated correspondence and the
plane oracle on the implementation's own output).
-/
import Retro.Lemmas.Raster
import Retro.Lemmas.Comb
import Retro.Props.C04

namespace Retro.Props.C05
open Retro Retro.Raster Retro.Lemmas.Raster Retro.Lemmas.Comb

variable {K : Type} [Field K] [LinearOrder K] [IsStrictOrderedRing K] [FloorRing K]
attribute [local instance] hasFloorK hasToNatK

/-! ### Everything the scan manipulates stays in the affine hull of the three vertices -/

theorem aff_stepN {A B C d : List K} (hd : Dif A B C d) (k : Nat) {v : List K} (hv : Aff A B C v) :
    Aff A B C (stepN d k v) := by
  induction k generalizing v with
  | zero => exact hv
  | succ k ih => exact ih (aff_step hv hd)

theorem aff_varyN {A B C d : List K} (hd : Dif A B C d) (n : Nat) {v : List K} (hv : Aff A B C v) :
    ∀ f ∈ varyN d n v, Aff A B C f := by
  induction n generalizing v with
  | zero => intro f hf; simp [varyN] at hf
  | succ n ih =>
    intro f hf
    simp only [varyN, List.mem_cons] at hf
    rcases hf with rfl | hf
    · exact hv
    · exact ih (aff_step hv hd) f hf

theorem aff_scanRows {A B C dl dvdx : List K} (hdl : Dif A B C dl) (hdv : Dif A B C dvdx) (drx : K)
    (n : Nat) (y : K) {left : List K} (hleft : Aff A B C left) (right : K) :
    ∀ row ∈ scanRows dl drx dvdx n y left right, ∀ f ∈ row.frags, Aff A B C f := by
  induction n generalizing y left right with
  | zero => intro row h; simp [scanRows] at h
  | succ n ih =>
    intro row h f hf
    simp only [scanRows, List.mem_cons] at h
    rcases h with rfl | h
    · exact aff_varyN hdv _ (aff_lerp _ hleft (aff_step hleft hdv)) f hf
    · exact ih _ (aff_step hleft hdl) _ row h f hf

theorem aff_scan {A B C l0 l1 r0 r1 : List K} (h0 : Aff A B C l0) (h1 : Aff A B C l1)
    (h2 : Aff A B C r0) (h3 : Aff A B C r1) (y0 y1 : K) :
    ∀ row ∈ scan y0 y1 l0 l1 r0 r1, ∀ f ∈ row.frags, Aff A B C f := by
  unfold scan
  simp only [recip0_eq]
  have hdl := dif_dvdt (1 / (y1 - y0)) h0 h1
  apply aff_scanRows hdl
  · split
    · exact dif_dvdt _ h1 h3
    · exact dif_dvdt _ h0 h2
  · exact aff_lerp _ h0 (aff_step h0 hdl)

/-- **Fragments lie on the plane through the three vertex tuples.** Every raw fragment of
`triFill A B C` (position x, y, depth z and all attribute components, before the division) is a
single affine combination of A, B, C. -/
theorem frag_on_plane (A B C : List K) (h1 : A.length = B.length) (h2 : B.length = C.length) :
    ∀ row ∈ triFill A B C, ∀ f ∈ row.frags, ∃ a b c : K, a + b + c = 1 ∧ f = combL a b c A B C := by
  obtain ⟨c1, c2, c3⟩ := combL_unit A B C h1 h2
  have hA : Aff A B C A := ⟨1, 0, 0, by norm_num, c1.symm⟩
  have hB : Aff A B C B := ⟨0, 1, 0, by norm_num, c2.symm⟩
  have hC : Aff A B C C := ⟨0, 0, 1, by norm_num, c3.symm⟩
  have hs : Aff A B C (sort3 A B C).1 ∧ Aff A B C (sort3 A B C).2.1 ∧ Aff A B C (sort3 A B C).2.2 := by
    unfold sort3
    by_cases h : nth1 B < nth1 A <;> simp only [h, if_true, if_false] <;>
    · split_ifs <;> exact ⟨by assumption, by assumption, by assumption⟩
  obtain ⟨ht, hm, hb⟩ := hs
  intro row hrow f hf
  rw [Retro.Props.C04.trifill_split] at hrow
  simp only at hrow
  have hmid1 := aff_lerp ((nth1 (sort3 A B C).2.1 - nth1 (sort3 A B C).1) /
    (nth1 (sort3 A B C).2.2 - nth1 (sort3 A B C).1)) ht hb
  split_ifs at hrow with hcond
  · rcases List.mem_append.mp hrow with h | h
    · exact aff_scan ht hm ht hmid1 _ _ row h f hf
    · exact aff_scan hm hb hmid1 hb _ _ row h f hf
  · rcases List.mem_append.mp hrow with h | h
    · exact aff_scan ht hmid1 ht hm _ _ row h f hf
    · exact aff_scan hmid1 hb hm hb _ _ row h f hf

/-! ### Perspective correction -/

/-- After `zdiv`, attribute component `j` of a fragment that is the combination (a,b,c) equals the
combined attribute divided by the combined depth. -/
theorem frag_persp (a b c xa ya za xb yb zb xc yc zc : K) (attA attB attC : List K) :
    zdiv (combL a b c (xa :: ya :: za :: attA) (xb :: yb :: zb :: attB) (xc :: yc :: zc :: attC)) =
      (a * xa + b * xb + c * xc) :: (a * ya + b * yb + c * yc) :: (a * za + b * zb + c * zc) ::
        (combL a b c attA attB attC).map (· / (a * za + b * zb + c * zc)) := by
  simp [combL, zdiv]

/-- **Perspective-correct interpolation.** If the vertex attributes were pre-divided by w
(`A = α·zA` with `z = 1/w`), then dividing the screen-space-affine attribute by the screen-space-affine
reciprocal depth yields the mean of the true attribute values with weights `a·zA, b·zB, c·zC`
— exactly interpolation that is affine in clip space. -/
theorem persp_correct (a b c zA zB zC αA αB αC : K) (hz : a * zA + b * zB + c * zC ≠ 0) :
    (a * (αA * zA) + b * (αB * zB) + c * (αC * zC)) / (a * zA + b * zB + c * zC) =
      ((a * zA) * αA + (b * zB) * αB + (c * zC) * αC) / (a * zA + b * zB + c * zC) ∧
    (a * zA) / (a * zA + b * zB + c * zC) + (b * zB) / (a * zA + b * zB + c * zC)
      + (c * zC) / (a * zA + b * zB + c * zC) = 1 := by
  constructor
  · congr 1; ring
  · field_simp

/-! ### No division by zero feeds an emitted fragment -/

/-- The divisor of dv/dx (taken along the wider base) is non-zero unless the trapezoid has zero
width at both bases. -/
theorem scan_dvdx_den_ne_zero (dx0 dx1 : K) (h : ¬(dx0 = 0 ∧ dx1 = 0)) :
    (if dx0 * dx0 < dx1 * dx1 then dx1 else dx0) ≠ 0 := by
  split_ifs with hlt
  · intro h1; subst h1; nlinarith [mul_self_nonneg dx0]
  · intro h0; subst h0
    have : dx1 * dx1 ≤ 0 := by simpa using not_lt.mp hlt
    have : dx1 = 0 := by nlinarith [mul_self_nonneg dx1, mul_self_eq_zero.mp (le_antisymm this (mul_self_nonneg dx1))]
    exact h ⟨rfl, this⟩

/-- If a scan emits any row then `y1 − y0 > 0`: the divisor of the edge slopes is non-zero. -/
theorem scan_rows_imp_dy (y0 y1 : K) (l0 l1 r0 r1 : List K) (h : scan y0 y1 l0 l1 r0 r1 ≠ []) : y0 < y1 := by
  have hlen : 0 < (scan y0 y1 l0 l1 r0 r1).length := List.length_pos_iff.mpr h
  rw [Retro.Props.C04.scan_length] at hlen
  have hlt : ⌊y0 + 1 / 2⌋ < ⌊y1 + 1 / 2⌋ := by omega
  by_contra hc
  have hle : y1 + 1 / 2 ≤ y0 + 1 / 2 := by linarith [not_lt.mp hc]
  have := Int.floor_le_floor hle
  omega


/-! ### Fragments sit at pixel centres -/

/-- x and y steps of dv/dx: one pixel in x, nothing in y (both bases are horizontal). -/
theorem dvdx_xy (y0 y1 : K) (l0 l1 r0 r1 : List K) (m : Nat) (hm : 1 < m)
    (h0 : l0.length = m) (h1 : l1.length = m) (h2 : r0.length = m) (h3 : r1.length = m)
    (hy0 : nth1 l0 = y0) (hy0' : nth1 r0 = y0) (hy1 : nth1 l1 = y1) (hy1' : nth1 r1 = y1)
    (hw : ¬(nth0 r0 - nth0 l0 = 0 ∧ nth0 r1 - nth0 l1 = 0)) :
    let dx0 := nth0 r0 - nth0 l0
    let dx1 := nth0 r1 - nth0 l1
    let dvdx := if dx0 * dx0 < dx1 * dx1 then dvdtL l1 r1 (1 / dx1) else dvdtL l0 r0 (1 / dx0)
    dvdx.length = m ∧ nth0 dvdx = 1 ∧ nth1 dvdx = 0 := by
  intro dx0 dx1 dvdx
  have hden := scan_dvdx_den_ne_zero dx0 dx1 hw
  simp only [dvdx]
  split_ifs with hlt
  · simp only [hlt, if_true] at hden
    refine ⟨by rw [dvdtL_length, h1, h3, Nat.min_self], ?_, ?_⟩
    · rw [nth0_dvdtL _ _ _ (by omega) (by omega)]; exact mul_one_div_cancel hden
    · rw [nth1_dvdtL _ _ _ (by omega) (by omega), hy1, hy1']; ring
  · simp only [hlt, if_false] at hden
    refine ⟨by rw [dvdtL_length, h0, h2, Nat.min_self], ?_, ?_⟩
    · rw [nth0_dvdtL _ _ _ (by omega) (by omega)]; exact mul_one_div_cancel hden
    · rw [nth1_dvdtL _ _ _ (by omega) (by omega), hy0, hy0']; ring

/-- **Every fragment sits at its pixel centre.** In a trapezoid whose two edges span exactly
`y0..y1` (as both halves of `tri_fill` do) and that is not of zero width, fragment `j` of row `k` has
`x = roundUpHalf(xl) + j` — the centre of pixel `x0 + j` — and `y = roundUpHalf(y0) + k`, the centre
of the row. -/
theorem scan_frag_centre (y0 y1 : K) (l0 l1 r0 r1 : List K) (m : Nat) (hm : 1 < m) (hne : y1 - y0 ≠ 0)
    (h0 : l0.length = m) (h1 : l1.length = m) (h2 : r0.length = m) (h3 : r1.length = m)
    (hy0 : nth1 l0 = y0) (hy0' : nth1 r0 = y0) (hy1 : nth1 l1 = y1) (hy1' : nth1 r1 = y1)
    (hw : ¬(nth0 r0 - nth0 l0 = 0 ∧ nth0 r1 - nth0 l1 = 0))
    (k : Nat) (hk : k < (scan y0 y1 l0 l1 r0 r1).length) :
    ∃ row, (scan y0 y1 l0 l1 r0 r1)[k]? = some row ∧
      ∀ j, j < row.frags.length → ∃ f, row.frags[j]? = some f ∧
        nth0 f = roundUpHalf (edgeX y0 y1 l0 l1 (roundUpHalf y0 + (k : K))) + (j : K) ∧
        nth1 f = roundUpHalf y0 + (k : K) := by
  obtain ⟨hdvl, hdvx, hdvy⟩ := dvdx_xy y0 y1 l0 l1 r0 r1 m hm h0 h1 h2 h3 hy0 hy0' hy1 hy1' hw
  rw [Retro.Props.C04.scan_eq] at hk ⊢
  simp only [scanRows_length] at hk
  simp only
  rw [scanRows_get _ _ _ _ _ _ _ k hk]
  refine ⟨_, rfl, ?_⟩
  intro j hj
  simp only [rowOf, varyN_length] at hj
  simp only [rowOf]
  rw [varyN_get _ _ _ j hj]
  refine ⟨_, rfl, ?_, ?_⟩
  all_goals
    set dl := dvdtL l0 l1 (1 / (y1 - y0)) with hdl_def
    have hdl : dl.length = m := by rw [hdl_def, dvdtL_length, h0, h1, Nat.min_self]
    have hstep : (stepL l0 dl).length = m := by rw [stepL_length, hdl, h0, Nat.min_self]
    have hl0' : (lerpL l0 (stepL l0 dl) (roundUpHalf y0 - y0)).length = dl.length := by
      rw [lerpL_length, hstep, h0, Nat.min_self, hdl]
    set L := stepN dl k (lerpL l0 (stepL l0 dl) (roundUpHalf y0 - y0)) with hL
    have hLlen : L.length = m := by rw [hL, stepN_length _ _ _ hl0', hdl]
    set dvdx := (if (nth0 r0 - nth0 l0) * (nth0 r0 - nth0 l0) < (nth0 r1 - nth0 l1) * (nth0 r1 - nth0 l1)
      then dvdtL l1 r1 (1 / (nth0 r1 - nth0 l1)) else dvdtL l0 r0 (1 / (nth0 r0 - nth0 l0))) with hdv
    have hsl : (stepL L dvdx).length = m := by rw [stepL_length, hLlen, hdvl, Nat.min_self]
    have hv0 : (lerpL L (stepL L dvdx) (roundUpHalf (nth0 L) - nth0 L)).length = dvdx.length := by
      rw [lerpL_length, hLlen, hsl, Nat.min_self, hdvl]
  · -- x
    rw [nth0_stepN _ _ _ hv0 (by omega), nth0_lerpL _ _ _ (by omega) (by omega),
      nth0_stepL _ _ (by omega) (by omega), hdvx]
    have hxl : nth0 L = edgeX y0 y1 l0 l1 (roundUpHalf y0 + (k : K)) := by
      rw [hL, nth0_stepN _ _ _ hl0' (by omega), nth0_lerpL _ _ _ (by omega) (by omega),
        nth0_stepL _ _ (by omega) (by omega), hdl_def, nth0_dvdtL _ _ _ (by omega) (by omega)]
      simp only [lerp, edgeX]
      field_simp
      ring
    rw [hxl]
    simp only [lerp]; ring
  · -- y
    rw [nth1_stepN _ _ _ hv0 (by omega), nth1_lerpL _ _ _ (by omega) (by omega),
      nth1_stepL _ _ (by omega) (by omega), hdvy]
    have hyl : nth1 L = roundUpHalf y0 + (k : K) := by
      rw [hL, nth1_stepN _ _ _ hl0' (by omega), nth1_lerpL _ _ _ (by omega) (by omega),
        nth1_stepL _ _ (by omega) (by omega), hdl_def, nth1_dvdtL _ _ _ (by omega) (by omega), hy0, hy1]
      simp only [lerp]
      field_simp
      ring
    rw [hyl]
    simp only [lerp]; ring

/-! ### Non-vacuity: the one-row-high lower half that used to produce NaN, exactly over ℚ -/

example : ((triFill (α := Rat) [2, 1, 1, 0] [8, 5, 1/2, 3] [4, 6, 1/4, 6]).getLast?.map
    fun r => (r.y, r.x0, r.x1, r.frags.map zdiv)) =
    some (5, 4, 6, [[9/2, 11/2, 15/44, 15], [11/2, 11/2, 4/11, 207/16]]) := by
  decide +kernel

end Retro.Props.C05
