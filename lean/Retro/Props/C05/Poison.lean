/-
C05 — "no fragment position, depth or attribute is NaN or infinite", as a theorem.

The raster model (`Retro.Raster.triFill` / `scan` / `zdiv`) is run at the scalar `Poison K`
(`Retro/Model/Poison.lean`: a value of the ordered field `K`, or `bad` = "a division by zero happened
upstream", the one way exact arithmetic can produce a NaN or an infinity). The theorems say that on
LIFTED (finite) input the poison run IS the lift of the field run, hence contains no `bad`:

  * `lerpL_lift`, `dvdtL_lift`, `stepL_lift`, `varyN_lift`, `scanRows_lift`, `recip0_lift`,
    `roundUpHalf_lift`, `sort3_lift`      homomorphism lemmas for every model helper
  * `scan_poison_free`      for ALL lifted inputs every row `scan` emits at `Poison K` is the lift of the
                            field row (y1 = y0: the slopes ARE `bad`, but no row is emitted; both bases
                            of zero width: the guarded reciprocal `recip0` gives gradient 0)
  * `trifill_poison_free`   `triFill (liftL a) (liftL b) (liftL c) = (triFill a b c).map Scanline.lift`
                            for ALL a b c — no area hypothesis is needed: when all three y coincide the
                            split parameter is `0/0 = bad`, and then nothing is emitted
                            (`trifill_flat_emits_nothing`, `trifill_split_param_bad`)
  * `trifill_raw_not_bad`   the property's words: no component of a raw fragment is `bad`
  * `zdiv_poison_free`      `zdiv` of a lifted fragment with `z ≠ 0` is the lift of the field `zdiv`;
    `zdiv_zero_bad`         and with `z = 0` and an attribute it IS poisoned (the hypothesis matters)
  * `frag_z_pos`            vertex `z` (reciprocal depth) all `> 0` ⇒ every emitted fragment has `z > 0`
  * `trifill_frags_finite`  conclusion: with positive reciprocal depths every fragment AFTER `z_div`
                            (what the shader receives) is the lift of the field fragment — poison-free
  * `scanOld_poisons`       the pre-fix `scan` (dv/dx from the START span only, a41d3b6) yields a `bad`
                            fragment on the triangle (2,1),(8,5),(4,6): the poison model exhibits the defect
NOT covered (see design/Poison.md): overflow of finite f32 operands to ∞, rounding, NaN/∞ input.
-/
import Retro.Model.Poison
import Retro.Props.C05.Tri

namespace Retro.Props.C05
open Retro Retro.Raster Retro.Lemmas.Raster Retro.Props.C04
open Retro.Poison (val bad liftL)

set_option linter.unusedSectionVars false

variable {K : Type} [Field K] [LinearOrder K] [IsStrictOrderedRing K] [FloorRing K]
attribute [local instance] hasFloorK hasToNatK

/-! ### Scalars -/

theorem val_div_of_ne (a b : K) (h : b ≠ 0) : (val a / val b : Poison K) = val (a / b) := by
  rw [Poison.val_div, if_neg h]

/-- `x / 0` is poisoned, whatever `x` is (`0/0 = NaN` and `x/0 = ±∞` alike). -/
theorem val_div_zero (a : K) : (val a / val 0 : Poison K) = bad := by
  rw [Poison.val_div, if_pos rfl]

theorem val_injective {a b : K} (h : (val a : Poison K) = val b) : a = b := by
  injection h

theorem half_lift : (1 / 2 : Poison K) = val (1 / 2) :=
  val_div_of_ne 1 2 two_ne_zero

theorem lerp_lift (a b t : K) : lerp (val a : Poison K) (val b) (val t) = val (lerp a b t) := rfl

theorem roundUpHalf_lift (x : K) : roundUpHalf (val x : Poison K) = val (roundUpHalf x) := by
  unfold roundUpHalf
  rw [half_lift]
  rfl

/-- The guarded reciprocal is a value for EVERY value — `0` included (`0 * 0`). -/
theorem recip0_lift (dx : K) : recip0 (val dx : Poison K) = val (recip0 dx) := by
  unfold recip0
  by_cases h : dx < 0 ∨ 0 < dx
  · have hne : dx ≠ 0 := by rcases h with h | h; exact h.ne; exact h.ne'
    have h' : (val dx : Poison K) < 0 ∨ (0 : Poison K) < val dx := h
    rw [if_pos h, if_pos h']
    exact val_div_of_ne 1 dx hne
  · have h' : ¬ ((val dx : Poison K) < 0 ∨ (0 : Poison K) < val dx) := h
    rw [if_neg h, if_neg h']
    rfl

/-- A poisoned width stays poisoned through the guard (NaN `!= 0.0` is true in Rust, `NaN.recip()` is NaN). -/
theorem recip0_bad : recip0 (bad : Poison K) = bad := by
  unfold recip0
  rw [if_neg (by rintro (h | h) <;> exact h)]
  rfl

/-! ### Tuples -/

theorem liftL_length (v : List K) : (liftL v).length = v.length := by
  simp [liftL]

theorem nth0_lift (v : List K) : nth0 (liftL v) = val (nth0 v) := by
  cases v <;> rfl

theorem nth1_lift (v : List K) : nth1 (liftL v) = val (nth1 v) := by
  rcases v with _ | ⟨_, _ | ⟨_, _⟩⟩ <;> rfl

theorem nth2_lift (v : List K) : nth2 (liftL v) = val (nth2 v) := by
  rcases v with _ | ⟨_, _ | ⟨_, _ | ⟨_, _⟩⟩⟩ <;> rfl

theorem lerpL_lift (a b : List K) (t : K) : lerpL (liftL a) (liftL b) (val t) = liftL (lerpL a b t) := by
  induction a generalizing b with
  | nil => simp [lerpL]
  | cons x xs ih =>
    cases b with
    | nil => simp [lerpL]
    | cons y ys => simp only [Poison.liftL_cons, lerpL, ih, lerp_lift]

theorem dvdtL_lift (a b : List K) (r : K) : dvdtL (liftL a) (liftL b) (val r) = liftL (dvdtL a b r) := by
  induction a generalizing b with
  | nil => simp [dvdtL]
  | cons x xs ih =>
    cases b with
    | nil => simp [dvdtL]
    | cons y ys => simp only [Poison.liftL_cons, dvdtL, ih, Poison.val_sub, Poison.val_mul]

theorem stepL_lift (a d : List K) : stepL (liftL a) (liftL d) = liftL (stepL a d) := by
  induction a generalizing d with
  | nil => simp [stepL]
  | cons x xs ih =>
    cases d with
    | nil => simp [stepL]
    | cons y ys => simp only [Poison.liftL_cons, stepL, ih, Poison.val_add]

theorem liftL_injective {a b : List K} (h : liftL a = liftL b) : a = b := by
  induction a generalizing b with
  | nil => cases b with
    | nil => rfl
    | cons y ys => simp at h
  | cons x xs ih =>
    cases b with
    | nil => simp at h
    | cons y ys =>
      simp only [Poison.liftL_cons, List.cons.injEq] at h
      rw [val_injective h.1, ih h.2]

/-- No component of a lifted tuple is `bad`. -/
theorem liftL_not_bad (v : List K) : ∀ c ∈ liftL v, c ≠ bad := by
  intro c hc
  obtain ⟨x, -, rfl⟩ := List.mem_map.mp hc
  exact fun h => by cases h

/-! ### The iterators -/

theorem varyN_lift (d : List K) (n : Nat) (v : List K) :
    varyN (liftL d) n (liftL v) = (varyN d n v).map liftL := by
  induction n generalizing v with
  | zero => rfl
  | succ n ih => simp only [varyN, stepL_lift, ih, List.map_cons]

theorem scanRows_lift (dl : List K) (drx : K) (dvdx : List K) (n : Nat) (y : K) (left : List K) (right : K) :
    scanRows (liftL dl) (val drx) (liftL dvdx) n (val y) (liftL left) (val right) =
      (scanRows dl drx dvdx n y left right).map Scanline.lift := by
  induction n generalizing y left right with
  | zero => rfl
  | succ n ih =>
    simp only [scanRows, nth0_lift, roundUpHalf_lift, stepL_lift, Poison.val_sub, lerpL_lift,
      Poison.toNatSat_val, varyN_lift, Poison.val_add, Poison.ofNat_eq, ih, List.map_cons, Scanline.lift]

/-- With a row count of zero `scan` emits nothing, WHATEVER (possibly poisoned) tuples it is given. -/
theorem scan_no_rows (y0 y1 : K) (l0 l1 r0 r1 : List (Poison K))
    (h : (HasToNat.toNatSat (roundUpHalf y1 - roundUpHalf y0) : Nat) = 0) :
    scan (val y0) (val y1) l0 l1 r0 r1 = [] := by
  unfold scan
  simp only [roundUpHalf_lift, Poison.val_sub, Poison.toNatSat_val, h, scanRows]

/-- **`scan` is poison-free.** For ALL values `y0 y1` and lifted corner tuples, the rows emitted at
`Poison K` are exactly the lifts of the rows emitted over the field: every `y`, `x0`, `x1` agrees and
every fragment component is a value. (`y1 = y0` makes both edge slopes `bad`, but then the row count is
0; two bases of zero width make `recip0` return `0`, not `1/0`.) -/
theorem scan_poison_free (y0 y1 : K) (l0 l1 r0 r1 : List K) :
    scan (val y0) (val y1) (liftL l0) (liftL l1) (liftL r0) (liftL r1) =
      (scan y0 y1 l0 l1 r0 r1).map Scanline.lift := by
  by_cases hne : y1 - y0 = 0
  · have hy : y1 = y0 := by linarith
    have hn : (HasToNat.toNatSat (roundUpHalf y1 - roundUpHalf y0) : Nat) = 0 := by
      rw [scan_rowcount, hy]; simp
    rw [scan_no_rows _ _ _ _ _ _ hn]
    have : scan y0 y1 l0 l1 r0 r1 = [] := by
      rw [← List.length_eq_zero_iff, scan_length, hy]; simp
    rw [this]; rfl
  · unfold scan
    simp only [nth0_lift, Poison.val_sub, Poison.val_mul, Poison.val_lt, Poison.ofNat_eq,
      val_div_of_ne _ _ hne, dvdtL_lift, recip0_lift, roundUpHalf_lift, stepL_lift, lerpL_lift,
      Poison.val_add, Poison.toNatSat_val]
    split_ifs <;> simp only [scanRows_lift]

/-! ### `tri_fill` -/

theorem sort3_lift (a b c : List K) :
    sort3 (liftL a) (liftL b) (liftL c) =
      (liftL (sort3 a b c).1, liftL (sort3 a b c).2.1, liftL (sort3 a b c).2.2) := by
  unfold sort3
  simp only [nth1_lift, Poison.val_lt]
  by_cases h1 : nth1 b < nth1 a <;> simp only [h1, if_true, if_false, nth1_lift, Poison.val_lt] <;>
    split_ifs <;> rfl

/-- `trifill_split` at the poison scalar (same unfolding). -/
theorem trifill_split_poison (a b c : List (Poison K)) :
    triFill a b c =
      let s := sort3 a b c
      let mid1 := lerpL s.1 s.2.2 ((nth1 s.2.1 - nth1 s.1) / (nth1 s.2.2 - nth1 s.1))
      let lr := if nth0 s.2.1 < nth0 mid1 then (s.2.1, mid1) else (mid1, s.2.1)
      scan (nth1 s.1) (nth1 s.2.1) s.1 lr.1 s.1 lr.2 ++ scan (nth1 s.2.1) (nth1 s.2.2) lr.1 s.2.2 lr.2 s.2.2 := by
  simp only [triFill]

/-- When the three vertices are NOT all at one height, the split parameter `(M.y − T.y)/(B.y − T.y)` of
`tri_fill` is a value under the poison interpretation … -/
theorem trifill_split_param_val (a b c : List K) (h : nth1 (sort3 a b c).2.2 - nth1 (sort3 a b c).1 ≠ 0) :
    ((nth1 (liftL (sort3 a b c).2.1) - nth1 (liftL (sort3 a b c).1)) /
      (nth1 (liftL (sort3 a b c).2.2) - nth1 (liftL (sort3 a b c).1)) : Poison K) =
      val ((nth1 (sort3 a b c).2.1 - nth1 (sort3 a b c).1) / (nth1 (sort3 a b c).2.2 - nth1 (sort3 a b c).1)) := by
  simp only [nth1_lift, Poison.val_sub]
  exact val_div_of_ne _ _ h

/-- … and when they are (a triangle squashed to a horizontal segment or a point) it is `0/0`: `bad`. So
`tri_fill` DOES compute a NaN on such input (the split point `mid1`); the next theorem shows it never
reaches a fragment. -/
theorem trifill_split_param_bad (a b c : List K) (h : nth1 (sort3 a b c).2.2 - nth1 (sort3 a b c).1 = 0) :
    ((nth1 (liftL (sort3 a b c).2.1) - nth1 (liftL (sort3 a b c).1)) /
      (nth1 (liftL (sort3 a b c).2.2) - nth1 (liftL (sort3 a b c).1)) : Poison K) = bad := by
  simp only [nth1_lift, Poison.val_sub, h]
  exact val_div_zero _

/-- **A triangle whose three vertices share one height emits nothing** — under the poison interpretation
(where its split point is poisoned) and over the field alike. -/
theorem trifill_flat_emits_nothing (a b c : List K) (h : nth1 (sort3 a b c).2.2 - nth1 (sort3 a b c).1 = 0) :
    triFill (liftL a) (liftL b) (liftL c) = [] ∧ triFill a b c = [] := by
  obtain ⟨s1, s2⟩ := sort3_sorted a b c
  have e1 : nth1 (sort3 a b c).2.1 = nth1 (sort3 a b c).1 := by
    apply le_antisymm _ s1
    have : nth1 (sort3 a b c).2.2 = nth1 (sort3 a b c).1 := by linarith
    rw [← this]; exact s2
  have e2 : nth1 (sort3 a b c).2.2 = nth1 (sort3 a b c).1 := by linarith
  have hn : ∀ y : K, (HasToNat.toNatSat (roundUpHalf y - roundUpHalf y) : Nat) = 0 := by
    intro y; rw [scan_rowcount]; simp
  constructor
  · rw [trifill_split_poison, sort3_lift]
    simp only [nth1_lift, e1, e2]
    rw [scan_no_rows _ _ _ _ _ _ (hn _), scan_no_rows _ _ _ _ _ _ (hn _)]
    rfl
  · rw [trifill_split]
    simp only [e1, e2]
    have z : ∀ (l0 l1 r0 r1 : List K), scan (nth1 (sort3 a b c).1) (nth1 (sort3 a b c).1) l0 l1 r0 r1 = [] := by
      intro l0 l1 r0 r1
      rw [← List.length_eq_zero_iff, scan_length]; simp
    rw [z, z]; rfl

/-- **`tri_fill` is poison-free — for EVERY lifted triangle.** Run on finite input, the scan conversion
under the poison interpretation emits exactly the lifts of the scanlines of the exact run: the same
`y`, `x0`, `x1` and fragment tuples whose every component (x, y, reciprocal depth, attributes) is a
value. No hypothesis on area, winding or tuple lengths: a triangle of non-zero area never divides by
zero on the way to a fragment (`trifill_divisors_ne_zero`), a one-row-high half takes dv/dx from its
wide base, a zero-width trapezoid takes gradient 0 from the guarded reciprocal, a flat half has a
poisoned slope but zero rows, and a triangle squashed to one height has a poisoned split point but
emits nothing. -/
theorem trifill_poison_free (a b c : List K) :
    triFill (liftL a) (liftL b) (liftL c) = (triFill a b c).map Scanline.lift := by
  by_cases h : nth1 (sort3 a b c).2.2 - nth1 (sort3 a b c).1 = 0
  · obtain ⟨h1, h2⟩ := trifill_flat_emits_nothing a b c h
    rw [h1, h2]; rfl
  · rw [trifill_split_poison, sort3_lift, trifill_split]
    simp only
    rw [trifill_split_param_val a b c h, lerpL_lift]
    simp only [nth0_lift, nth1_lift, Poison.val_lt]
    split_ifs <;> simp only [scan_poison_free, List.map_append]

/-- The same with the hypotheses of the property text (tuples of a common length ≥ 3, non-zero area):
then, in addition, every INTERMEDIATE quantity is a value — the split parameter's divisor `B.y − T.y`
and the width `M.x − mid1.x` of the shared base are non-zero (`trifill_divisors_ne_zero`). -/
theorem trifill_poison_free_of_area (a b c : List K) (m : Nat) (hm : 2 < m)
    (ha : a.length = m) (hb : b.length = m) (hc : c.length = m) (harea : area2 a b c ≠ 0) :
    triFill (liftL a) (liftL b) (liftL c) = (triFill a b c).map Scanline.lift ∧
    nth1 (sort3 a b c).2.2 - nth1 (sort3 a b c).1 ≠ 0 ∧
    nth0 (sort3 a b c).2.1 - nth0 (lerpL (sort3 a b c).1 (sort3 a b c).2.2
      ((nth1 (sort3 a b c).2.1 - nth1 (sort3 a b c).1) / (nth1 (sort3 a b c).2.2 - nth1 (sort3 a b c).1))) ≠ 0 := by
  obtain ⟨h1, h2⟩ := trifill_divisors_ne_zero a b c m (by omega) ha hb hc harea
  exact ⟨trifill_poison_free a b c, h1, h2⟩

/-- **In the property's words:** no `y`, `x0`, `x1` differs from the exact run and no component of any
raw fragment (position x, y, reciprocal depth, attribute components) is `bad` (NaN or infinite). -/
theorem trifill_raw_not_bad (a b c : List K) :
    ∀ row ∈ triFill (liftL a) (liftL b) (liftL c), ∀ f ∈ row.frags, ∀ comp ∈ f, comp ≠ bad := by
  intro row hrow f hf comp hcomp
  rw [trifill_poison_free] at hrow
  obtain ⟨r, -, rfl⟩ := List.mem_map.mp hrow
  simp only [Scanline.lift] at hf
  obtain ⟨g, -, rfl⟩ := List.mem_map.mp hf
  exact liftL_not_bad g comp hcomp

theorem lift_anyBad_false (v : List K) : Poison.anyBad (liftL v) = false := by
  simp [Poison.anyBad, liftL, Poison.isBad]

/-- The Boolean form the driver evaluates: no emitted row is tagged poisoned. -/
theorem trifill_anyBad_false (a b c : List K) :
    (triFill (liftL a) (liftL b) (liftL c)).any Scanline.anyBad = false := by
  rw [trifill_poison_free]
  simp [Scanline.anyBad, Scanline.lift, lift_anyBad_false]

/-! ### `z_div` -/

theorem map_div_lift (attrs : List K) (z : K) (hz : z ≠ 0) :
    (liftL attrs).map (· / val z) = liftL (attrs.map (· / z)) := by
  induction attrs with
  | nil => rfl
  | cons x xs ih => simp only [Poison.liftL_cons, List.map_cons, ih, val_div_of_ne _ _ hz]

/-- **`z_div` of a finite fragment with non-zero reciprocal depth is finite**: it is the lift of the
exact `z_div`. -/
theorem zdiv_poison_free (f : List K) (hz : nth2 f ≠ 0) : zdiv (liftL f) = liftL (zdiv f) := by
  rcases f with _ | ⟨x, _ | ⟨y, _ | ⟨z, attrs⟩⟩⟩
  · rfl
  · rfl
  · rfl
  · simp only [nth2] at hz
    simp only [Poison.liftL_cons, zdiv, map_div_lift _ _ hz]

/-- The hypothesis matters: with reciprocal depth `0` every attribute component is poisoned. -/
theorem zdiv_zero_bad (x y att : K) (attrs : List K) :
    zdiv (liftL (x :: y :: 0 :: att :: attrs)) = val x :: val y :: val 0 :: bad :: (liftL attrs).map (· / val 0) := by
  simp only [Poison.liftL_cons, zdiv, List.map_cons, val_div_zero]

/-! ### Reciprocal depth stays positive (field theorems; no poison involved) -/

theorem nth2_stepL (v d : List K) (hv : 2 < v.length) (hd : 2 < d.length) :
    nth2 (stepL v d) = nth2 v + nth2 d := by
  match v, d, hv, hd with
  | _ :: _ :: _ :: _, _ :: _ :: _ :: _, _, _ => simp [stepL, nth2]

theorem nth2_dvdtL (a b : List K) (r : K) (ha : 2 < a.length) (hb : 2 < b.length) :
    nth2 (dvdtL a b r) = (nth2 b - nth2 a) * r := by
  match a, b, ha, hb with
  | _ :: _ :: _ :: _, _ :: _ :: _ :: _, _, _ => simp [dvdtL, nth2]

theorem nth2_lerpL (a b : List K) (t : K) (ha : 2 < a.length) (hb : 2 < b.length) :
    nth2 (lerpL a b t) = lerp (nth2 a) (nth2 b) t := by
  match a, b, ha, hb with
  | _ :: _ :: _ :: _, _ :: _ :: _ :: _, _, _ => simp [lerpL, nth2]

theorem nth2_stepN (d : List K) (k : Nat) (v : List K) (h : v.length = d.length) (hd : 2 < d.length) :
    nth2 (stepN d k v) = nth2 v + (k : K) * nth2 d := by
  induction k generalizing v with
  | zero => simp [stepN]
  | succ k ih =>
    rw [stepN, ih _ (by rw [stepL_length, h, Nat.min_self]), nth2_stepL _ _ (by omega) hd]
    push_cast; ring

/-- The first pixel centre right of `xl` plus `j` whole pixels, for `j` below the span length, lies in
`(xl, xr]`. -/
theorem span_point_bounds (xl xr : K) (j : Nat)
    (hj : j < (HasToNat.toNatSat (roundUpHalf xr - roundUpHalf xl) : Nat)) :
    xl < roundUpHalf xl + (j : K) ∧ roundUpHalf xl + (j : K) ≤ xr := by
  have hcount : (HasToNat.toNatSat (roundUpHalf xr - roundUpHalf xl) : Nat) =
      (⌊xr + 1 / 2⌋ - ⌊xl + 1 / 2⌋).toNat := scan_rowcount xl xr
  rw [hcount] at hj
  rw [roundUpHalf_eq]
  have hj0 : (0 : K) ≤ (j : K) := Nat.cast_nonneg j
  constructor
  · have := Int.lt_floor_add_one (xl + 1 / 2)
    linarith
  · have hk' : (⌊xl + 1 / 2⌋ : Int) + (j : Int) + 1 ≤ ⌊xr + 1 / 2⌋ := by omega
    have h1 : ((⌊xl + 1 / 2⌋ + (j : Int) + 1 : Int) : K) ≤ xr + 1 / 2 :=
      calc ((⌊xl + 1 / 2⌋ + (j : Int) + 1 : Int) : K) ≤ ((⌊xr + 1 / 2⌋ : Int) : K) := by exact_mod_cast hk'
        _ ≤ xr + 1 / 2 := Int.floor_le _
    push_cast at h1
    linarith

/-- Algebra of the upper half (apex `l0 = r0` on top): the depth of a point `W` to the right of the left
edge, `0 < W ≤ t·dx1`, is a convex combination of the three corner depths. -/
theorem apex_top_pos (z0 zl zr t dx1 W : K) (h0 : 0 < z0) (hl : 0 < zl) (hr : 0 < zr)
    (ht0 : 0 < t) (ht1 : t ≤ 1) (hW0 : 0 < W) (hW1 : W ≤ dx1 * t) :
    0 < dx1 ∧ 0 < lerp z0 zl t + (zr - zl) * (1 / dx1) * W := by
  have hd : 0 < dx1 := by
    by_contra hc
    have : dx1 * t ≤ 0 := mul_nonpos_of_nonpos_of_nonneg (not_lt.mp hc) ht0.le
    linarith
  refine ⟨hd, ?_⟩
  set u := 1 / dx1 * W with hu
  have hu0 : 0 < u := mul_pos (one_div_pos.mpr hd) hW0
  have hu1 : u ≤ t := by
    rw [hu, one_div_mul_eq_div, div_le_iff₀ hd]; linarith
  have e : lerp z0 zl t + (zr - zl) * (1 / dx1) * W = z0 * (1 - t) + zl * (t - u) + zr * u := by
    rw [hu]; unfold lerp; ring
  rw [e]
  have := mul_nonneg h0.le (sub_nonneg.mpr ht1)
  have := mul_nonneg hl.le (sub_nonneg.mpr hu1)
  have := mul_pos hr hu0
  linarith

/-- Algebra of the lower half (apex `l1 = r1` at the bottom): `0 < W ≤ (1−t)·dx0`. -/
theorem apex_bottom_pos (zl zr z1 t dx0 W : K) (hl : 0 < zl) (hr : 0 < zr) (h1 : 0 < z1)
    (ht0 : 0 < t) (ht1 : t ≤ 1) (hW0 : 0 < W) (hW1 : W ≤ dx0 * (1 - t)) :
    0 < dx0 ∧ 0 < lerp zl z1 t + (zr - zl) * (1 / dx0) * W := by
  have hd : 0 < dx0 := by
    by_contra hc
    have : dx0 * (1 - t) ≤ 0 := mul_nonpos_of_nonpos_of_nonneg (not_lt.mp hc) (sub_nonneg.mpr ht1)
    linarith
  refine ⟨hd, ?_⟩
  set u := 1 / dx0 * W with hu
  have hu0 : 0 < u := mul_pos (one_div_pos.mpr hd) hW0
  have hu1 : u ≤ 1 - t := by
    rw [hu, one_div_mul_eq_div, div_le_iff₀ hd]; linarith
  have e : lerp zl z1 t + (zr - zl) * (1 / dx0) * W = zl * (1 - t - u) + z1 * t + zr * u := by
    rw [hu]; unfold lerp; ring
  rw [e]
  have := mul_nonneg hl.le (sub_nonneg.mpr hu1)
  have := mul_pos h1 ht0
  have := mul_pos hr hu0
  linarith

/-- Depth slot of the fragments of one iterator row: the left edge's depth plus the horizontal gradient
times the distance from the left edge to the fragment's pixel centre. -/
theorem rowOf_frag_z (dvdx : List K) (y : K) (left : List K) (right : K) (m : Nat) (hm : 2 < m)
    (hl : left.length = m) (hd : dvdx.length = m) :
    ∀ f ∈ (rowOf dvdx y left right).frags, ∃ j : Nat,
      j < (HasToNat.toNatSat (roundUpHalf right - roundUpHalf (nth0 left)) : Nat) ∧
      nth2 f = nth2 left + nth2 dvdx * (roundUpHalf (nth0 left) + (j : K) - nth0 left) := by
  intro f hf
  simp only [rowOf] at hf
  obtain ⟨j, hj, hfj⟩ := List.mem_iff_getElem.mp hf
  have hj' := hj
  simp only [varyN_length] at hj'
  have hget := varyN_get dvdx _ (lerpL left (stepL left dvdx) (roundUpHalf (nth0 left) - nth0 left)) j hj'
  rw [List.getElem?_eq_getElem hj, hfj] at hget
  injection hget with hget
  refine ⟨j, hj', ?_⟩
  have hsl : (stepL left dvdx).length = m := by rw [stepL_length, hl, hd, Nat.min_self]
  have hv0 : (lerpL left (stepL left dvdx) (roundUpHalf (nth0 left) - nth0 left)).length = dvdx.length := by
    rw [lerpL_length, hl, hsl, Nat.min_self, hd]
  rw [hget, nth2_stepN _ _ _ hv0 (by omega), nth2_lerpL _ _ _ (by omega) (by omega),
    nth2_stepL _ _ (by omega) (by omega)]
  simp only [lerp]; ring

/-- **Reciprocal depth stays positive across a half-triangle.** A trapezoid one of whose bases is a
single point (`l0 = r0` in x and z: the upper half of `tri_fill`; or `l1 = r1`: the lower half) and
whose four corner depths are positive emits only fragments of positive depth: each is a convex
combination of three corner depths. (The pre-fix dv/dx, measured one row below the apex, was exact here
too; this theorem is about the depth VALUE, `scan_poison_free` about the divisions.) -/
theorem scan_frag_z_pos (y0 y1 : K) (l0 l1 r0 r1 : List K) (m : Nat) (hm : 2 < m)
    (h0 : l0.length = m) (h1 : l1.length = m) (h2 : r0.length = m) (h3 : r1.length = m)
    (hapex : (nth0 r0 = nth0 l0 ∧ nth2 r0 = nth2 l0) ∨ (nth0 r1 = nth0 l1 ∧ nth2 r1 = nth2 l1))
    (hz0 : 0 < nth2 l0) (hz1 : 0 < nth2 l1) (hz2 : 0 < nth2 r0) (hz3 : 0 < nth2 r1) :
    ∀ row ∈ scan y0 y1 l0 l1 r0 r1, ∀ f ∈ row.frags, 0 < nth2 f := by
  intro row hrow f hf
  have hlt : y0 < y1 := scan_rows_imp_dy y0 y1 l0 l1 r0 r1 (List.ne_nil_of_mem hrow)
  have hpos : 0 < y1 - y0 := sub_pos.mpr hlt
  have hne : y1 - y0 ≠ 0 := hpos.ne'
  rw [scan_eq] at hrow
  simp only at hrow
  obtain ⟨k, hk, hget⟩ := List.mem_iff_getElem.mp hrow
  have hk' := hk
  simp only [scanRows_length] at hk'
  have hrk := List.getElem?_eq_getElem hk
  rw [hget, scanRows_get _ _ _ _ _ _ _ k hk'] at hrk
  injection hrk with hrk
  rw [← hrk] at hf
  clear hrk hget hk hrow
  -- names for the quantities of `scan`
  set dl := dvdtL l0 l1 (1 / (y1 - y0)) with hdl_def
  set dr := dvdtL r0 r1 (1 / (y1 - y0)) with hdr_def
  set tw := roundUpHalf y0 - y0 with htw
  set dvdx := (if (nth0 r0 - nth0 l0) * (nth0 r0 - nth0 l0) < (nth0 r1 - nth0 l1) * (nth0 r1 - nth0 l1)
      then dvdtL l1 r1 (1 / (nth0 r1 - nth0 l1)) else dvdtL l0 r0 (1 / (nth0 r0 - nth0 l0))) with hdv
  have hdl : dl.length = m := by rw [hdl_def, dvdtL_length, h0, h1, Nat.min_self]
  have hstep : (stepL l0 dl).length = m := by rw [stepL_length, hdl, h0, Nat.min_self]
  have hl0' : (lerpL l0 (stepL l0 dl) tw).length = dl.length := by
    rw [lerpL_length, hstep, h0, Nat.min_self, hdl]
  set L := stepN dl k (lerpL l0 (stepL l0 dl) tw) with hL
  have hLlen : L.length = m := by rw [hL, stepN_length _ _ _ hl0', hdl]
  have hdvl : dvdx.length = m := by
    rw [hdv]; split_ifs
    · rw [dvdtL_length, h1, h3, Nat.min_self]
    · rw [dvdtL_length, h0, h2, Nat.min_self]
  obtain ⟨j, hj, hzf⟩ := rowOf_frag_z dvdx _ L _ m hm hLlen hdvl f hf
  -- the row's centre height, as a parameter t ∈ (0, 1] along the edges
  obtain ⟨hc0, hc1⟩ := span_point_bounds y0 y1 k hk'
  set t := (roundUpHalf y0 + (k : K) - y0) / (y1 - y0) with ht
  have ht0 : 0 < t := div_pos (by linarith) hpos
  have ht1 : t ≤ 1 := by rw [ht, div_le_one hpos]; linarith
  have hxl : nth0 L = nth0 l0 + (nth0 l1 - nth0 l0) * t := by
    rw [hL, nth0_stepN _ _ _ hl0' (by omega), nth0_lerpL _ _ _ (by omega) (by omega),
      nth0_stepL _ _ (by omega) (by omega), hdl_def, nth0_dvdtL _ _ _ (by omega) (by omega), ht, htw]
    simp only [lerp]
    field_simp
    ring
  have hzl : nth2 L = lerp (nth2 l0) (nth2 l1) t := by
    rw [hL, nth2_stepN _ _ _ hl0' (by omega), nth2_lerpL _ _ _ (by omega) (by omega),
      nth2_stepL _ _ (by omega) (by omega), hdl_def, nth2_dvdtL _ _ _ (by omega) (by omega), ht, htw]
    simp only [lerp]
    field_simp
    ring
  have hxr : nth0 r0 + nth0 dr * tw + (k : K) * nth0 dr = nth0 r0 + (nth0 r1 - nth0 r0) * t := by
    rw [hdr_def, nth0_dvdtL _ _ _ (by omega) (by omega), ht, htw]
    field_simp
    ring
  rw [hxr] at hj
  obtain ⟨hW0, hW1⟩ := span_point_bounds _ _ j hj
  set W := roundUpHalf (nth0 L) + (j : K) - nth0 L with hW
  have hWpos : 0 < W := by rw [hW]; linarith
  rw [hzf, hzl]
  rcases hapex with ⟨ex, ez⟩ | ⟨ex, ez⟩
  · -- apex on top
    have hWle : W ≤ (nth0 r1 - nth0 l1) * t := by
      rw [ex] at hW1
      have e : nth0 l0 + (nth0 r1 - nth0 l0) * t - (nth0 l0 + (nth0 l1 - nth0 l0) * t)
          = (nth0 r1 - nth0 l1) * t := by ring
      rw [hW, ← e]; linarith
    obtain ⟨hd, hgoal⟩ := apex_top_pos (nth2 l0) (nth2 l1) (nth2 r1) t (nth0 r1 - nth0 l1) W hz0 hz1 hz3
      ht0 ht1 hWpos hWle
    have hsel : dvdx = dvdtL l1 r1 (1 / (nth0 r1 - nth0 l1)) := by
      rw [hdv, if_pos]
      rw [ex, sub_self, mul_zero]
      exact mul_pos hd hd
    rw [hsel, nth2_dvdtL _ _ _ (by omega) (by omega)]
    exact hgoal
  · -- apex at the bottom
    have hWle : W ≤ (nth0 r0 - nth0 l0) * (1 - t) := by
      rw [ex] at hW1
      have e : nth0 r0 + (nth0 l1 - nth0 r0) * t - (nth0 l0 + (nth0 l1 - nth0 l0) * t)
          = (nth0 r0 - nth0 l0) * (1 - t) := by ring
      rw [hW, ← e]; linarith
    obtain ⟨hd, hgoal⟩ := apex_bottom_pos (nth2 l0) (nth2 r0) (nth2 l1) t (nth0 r0 - nth0 l0) W hz0 hz2 hz1
      ht0 ht1 hWpos hWle
    have hsel : dvdx = dvdtL l0 r0 (1 / (nth0 r0 - nth0 l0)) := by
      rw [hdv, if_neg]
      rw [ex, sub_self, mul_zero]
      exact not_lt.mpr (mul_self_nonneg _)
    rw [hsel, nth2_dvdtL _ _ _ (by omega) (by omega)]
    exact hgoal

theorem lerp_pos (z0 z1 t : K) (h0 : 0 < z0) (h1 : 0 < z1) (ht0 : 0 ≤ t) (ht1 : t ≤ 1) : 0 < lerp z0 z1 t := by
  have e : lerp z0 z1 t = z0 * (1 - t) + z1 * t := by unfold lerp; ring
  rw [e]
  rcases ht0.lt_or_eq with h | h
  · have := mul_nonneg h0.le (sub_nonneg.mpr ht1)
    have := mul_pos h1 h
    linarith
  · rw [← h]; simpa using h0

/-- **Every emitted fragment has positive reciprocal depth.** For vertex tuples of a common length ≥ 3
whose `z` components (reciprocal depths `1/w`) are all positive, every raw fragment of `tri_fill` has
`z > 0` — no hypothesis on area, winding or position (negative coordinates included). -/
theorem frag_z_pos (a b c : List K) (m : Nat) (hm : 2 < m)
    (ha : a.length = m) (hb : b.length = m) (hc : c.length = m)
    (hza : 0 < nth2 a) (hzb : 0 < nth2 b) (hzc : 0 < nth2 c) :
    ∀ row ∈ triFill a b c, ∀ f ∈ row.frags, 0 < nth2 f := by
  obtain ⟨hT, hM, hB⟩ := sort3_lengths a b c m ha hb hc
  obtain ⟨s1, s2⟩ := sort3_sorted a b c
  have hmem := sort3_mem a b c
  have hzall : ∀ v ∈ [a, b, c], 0 < nth2 v := by
    intro v hv
    simp only [List.mem_cons, List.mem_nil_iff, or_false] at hv
    rcases hv with rfl | rfl | rfl <;> assumption
  set Tt := (sort3 a b c).1 with hTt
  set Mm := (sort3 a b c).2.1 with hMm
  set Bb := (sort3 a b c).2.2 with hBb
  have zT : 0 < nth2 Tt := hzall _ (hmem _ (by simp [Tt]))
  have zM : 0 < nth2 Mm := hzall _ (hmem _ (by simp [Mm]))
  have zB : 0 < nth2 Bb := hzall _ (hmem _ (by simp [Bb]))
  set tpar := (nth1 Mm - nth1 Tt) / (nth1 Bb - nth1 Tt) with htpar
  have ht0 : 0 ≤ tpar := by
    rw [htpar]; apply div_nonneg <;> linarith
  have ht1 : tpar ≤ 1 := by
    rw [htpar]
    by_cases hz : nth1 Bb - nth1 Tt = 0
    · rw [hz]; simp
    · have : 0 < nth1 Bb - nth1 Tt := lt_of_le_of_ne (by linarith) (Ne.symm hz)
      rw [div_le_one this]; linarith
  set mid1 := lerpL Tt Bb tpar with hmid1
  have hmidlen : mid1.length = m := by rw [hmid1, lerpL_length, hT, hB, Nat.min_self]
  have zmid : 0 < nth2 mid1 := by
    rw [hmid1, nth2_lerpL _ _ _ (by omega) (by omega)]
    exact lerp_pos _ _ _ zT zB ht0 ht1
  intro row hrow
  rw [trifill_split] at hrow
  simp only at hrow
  rw [← hTt, ← hMm, ← hBb, ← htpar, ← hmid1] at hrow
  split_ifs at hrow with hcond
  · rcases List.mem_append.mp hrow with h | h
    · exact scan_frag_z_pos _ _ Tt Mm Tt mid1 m hm hT hM hT hmidlen (Or.inl ⟨rfl, rfl⟩) zT zM zT zmid row h
    · exact scan_frag_z_pos _ _ Mm Bb mid1 Bb m hm hM hB hmidlen hB (Or.inr ⟨rfl, rfl⟩) zM zB zmid zB row h
  · rcases List.mem_append.mp hrow with h | h
    · exact scan_frag_z_pos _ _ Tt mid1 Tt Mm m hm hT hmidlen hT hM (Or.inl ⟨rfl, rfl⟩) zT zmid zT zM row h
    · exact scan_frag_z_pos _ _ mid1 Bb Mm Bb m hm hmidlen hB hM hB (Or.inr ⟨rfl, rfl⟩) zmid zB zM zB row h

/-- **What the shader receives is finite.** For a triangle with positive reciprocal depths (vertex
tuples of a common length ≥ 3; area, winding, position arbitrary) the fragments AFTER `z_div`, computed
under the poison interpretation, are exactly the lifts of the exactly computed fragments, row by row. -/
theorem trifill_frags_finite (a b c : List K) (m : Nat) (hm : 2 < m)
    (ha : a.length = m) (hb : b.length = m) (hc : c.length = m)
    (hza : 0 < nth2 a) (hzb : 0 < nth2 b) (hzc : 0 < nth2 c) :
    (triFill (liftL a) (liftL b) (liftL c)).map (fun r => r.frags.map zdiv) =
      (triFill a b c).map (fun r => (r.frags.map zdiv).map liftL) := by
  rw [trifill_poison_free, List.map_map]
  apply List.map_congr_left
  intro row hrow
  simp only [Function.comp, Scanline.lift, List.map_map]
  apply List.map_congr_left
  intro f hf
  exact zdiv_poison_free f (frag_z_pos a b c m hm ha hb hc hza hzb hzc row hrow f hf).ne'

/-- In the property's words: no component — position, depth, attribute — of any fragment handed to the
shader is `bad` (NaN or infinite). -/
theorem trifill_frags_not_bad (a b c : List K) (m : Nat) (hm : 2 < m)
    (ha : a.length = m) (hb : b.length = m) (hc : c.length = m)
    (hza : 0 < nth2 a) (hzb : 0 < nth2 b) (hzc : 0 < nth2 c) :
    ∀ row ∈ triFill (liftL a) (liftL b) (liftL c), ∀ f ∈ row.frags, ∀ comp ∈ zdiv f, comp ≠ bad := by
  intro row hrow f hf comp hcomp
  rw [trifill_poison_free] at hrow
  obtain ⟨r, hr, rfl⟩ := List.mem_map.mp hrow
  simp only [Scanline.lift] at hf
  obtain ⟨g, hg, rfl⟩ := List.mem_map.mp hf
  rw [zdiv_poison_free g (frag_z_pos a b c m hm ha hb hc hza hzb hzc r hr g hg).ne'] at hcomp
  exact liftL_not_bad _ comp hcomp

/-! ### The hypotheses matter: the pre-fix `scan` poisons a fragment -/

section Old
variable {α : Type} [Add α] [Sub α] [Mul α] [Div α] [LT α] [DecidableLT α]
  [OfNat α 0] [OfNat α 1] [OfNat α 2] [HasFloor α] [HasToNat α]

/-- `scan` as it was before the `fix:` commit a41d3b6 (literal transliteration of the removed lines
`let (l0, r0) = (l0.step(&dl_dy), r0.step(&dr_dy)); let dx = r0.0.x() - l0.0.x(); l0.dv_dt(&r0, dx.recip())`):
dv/dx measured along the span ONE ROW BELOW the start. -/
def scanOld (y0 y1 : α) (l0 l1 r0 r1 : List α) : List (Scanline α) :=
  let recipDy := 1 / (y1 - y0)
  let dl := dvdtL l0 l1 recipDy
  let dr := dvdtL r0 r1 recipDy
  let l0s := stepL l0 dl
  let r0s := stepL r0 dr
  let dx := nth0 r0s - nth0 l0s
  let dvdx := dvdtL l0s r0s (1 / dx)
  let y0r := roundUpHalf y0
  let y1r := roundUpHalf y1
  let tweak := y0r - y0
  let l0' := lerpL l0 (stepL l0 dl) tweak
  let r0' := nth0 r0 + nth0 dr * tweak
  scanRows dl (nth0 dr) dvdx (HasToNat.toNatSat (y1r - y0r)) y0r l0' r0'

/-- `tri_fill` over `scanOld`. -/
def triFillOld (a b c : List α) : List (Scanline α) :=
  let (top, mid0, bot) := sort3 a b c
  let topY := nth1 top
  let midY := nth1 mid0
  let botY := nth1 bot
  let mid1 := lerpL top bot ((midY - topY) / (botY - topY))
  let (left, right) := if nth0 mid0 < nth0 mid1 then (mid0, mid1) else (mid1, mid0)
  scanOld topY midY top left top right ++ scanOld midY botY left bot right bot
end Old

/-- **The poison model exhibits defect a41d3b6.** On the triangle (2,1),(8,5),(4,6) — non-zero area,
finite vertices, positive reciprocal depths: every hypothesis of the property holds — the pre-fix scan
conversion emits a fragment with a `bad` component: its lower half is exactly one row high, the span one
row below its start is the bottom vertex itself, `dx = 0`, and `dx.recip()` is infinite. So
`trifill_poison_free` is a theorem about the repaired `scan` and false of the old one. -/
theorem scanOld_poisons :
    ∃ row ∈ triFillOld (liftL ([2, 1, 1, 0] : List Rat)) (liftL [8, 5, 1 / 2, 3]) (liftL [4, 6, 1 / 4, 6]),
      ∃ f ∈ row.frags, ∃ comp ∈ f, comp = bad := by
  decide +kernel

/-- On that triangle the old code poisons exactly the last row (y = 5), all of it; the rows of the
upper half are clean. -/
example : (triFillOld (liftL ([2, 1, 1, 0] : List Rat)) (liftL [8, 5, 1 / 2, 3]) (liftL [4, 6, 1 / 4, 6])).map
    (fun r => (r.y, r.anyBad)) = [(1, false), (2, false), (3, false), (4, false), (5, true)] := by
  decide +kernel

/-! ### Non-vacuity -/

/-- The repaired `tri_fill` on the same triangle, run at `Poison ℚ`: last row as in `Frag.lean`, all values. -/
example : ((triFill (liftL ([2, 1, 1, 0] : List Rat)) (liftL [8, 5, 1 / 2, 3]) (liftL [4, 6, 1 / 4, 6])).getLast?.map
    fun r => r.frags.map zdiv) = some [liftL [9/2, 11/2, 15/44, 15], liftL [11/2, 11/2, 4/11, 207/16]] := by
  decide +kernel

/-- Hypotheses of `trifill_frags_finite` / `frag_z_pos` are met by that triangle (length 4, z = 1, ½, ¼). -/
example : (2 < 4) ∧ ([2, 1, 1, 0] : List Rat).length = 4 ∧ (0 : Rat) < nth2 [2, 1, 1, 0] ∧
    (0 : Rat) < nth2 [8, 5, 1 / 2, 3] ∧ (0 : Rat) < nth2 [4, 6, 1 / 4, 6] := by
  refine ⟨by omega, rfl, ?_, ?_, ?_⟩ <;> norm_num [nth2]

/-- A triangle squashed to one height (`trifill_flat_emits_nothing`, `trifill_split_param_bad`): the
split parameter is `0/0`, nothing is emitted. -/
example : triFill (liftL ([1, 3, 1] : List Rat)) (liftL [7, 3, 1]) (liftL [4, 3, 1]) = [] ∧
    ((nth1 (liftL ([7, 3, 1] : List Rat)) - nth1 (liftL [1, 3, 1])) / (nth1 (liftL [4, 3, 1]) - nth1 (liftL [1, 3, 1]))
      : Poison Rat) = bad := by
  decide +kernel

/-- A zero-width trapezoid (both bases a point, `recip0 0 = 0`): rows are emitted, empty, not poisoned;
with the unguarded `1 / dx0` the gradient would be `bad`. -/
example : scan (val (0 : Rat)) (val 2) (liftL [3, 0, 1]) (liftL [3, 2, 1]) (liftL [3, 0, 1]) (liftL [3, 2, 1]) =
    [⟨0, 3, 3, []⟩, ⟨1, 3, 3, []⟩] ∧
    (1 / (val (3 : Rat) - val 3) : Poison Rat) = bad ∧ recip0 (val (3 : Rat) - val 3) = val 0 := by
  decide +kernel

/-- `zdiv_poison_free` needs `z ≠ 0`: met by `[1, 2, 1/2, 3]`, violated by `[1, 2, 0, 3]`. -/
example : zdiv (liftL ([1, 2, 1 / 2, 3] : List Rat)) = liftL [1, 2, 1 / 2, 6] ∧
    zdiv (liftL ([1, 2, 0, 3] : List Rat)) = [val 1, val 2, val 0, bad] := by
  decide +kernel

end Retro.Props.C05
