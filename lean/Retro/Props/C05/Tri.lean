import Retro.Props.C05.Frag
import Retro.Props.C04.Slice

namespace Retro.Props.C05
open Retro Retro.Raster Retro.Lemmas.Raster Retro.Props.C04

variable {K : Type} [Field K] [LinearOrder K] [IsStrictOrderedRing K] [FloorRing K]
attribute [local instance] hasFloorK hasToNatK

/-- twice the signed area of the (x, y) triangle of three varying tuples -/
def area2 (a b c : List K) : K :=
  (nth0 b - nth0 a) * (nth1 c - nth1 a) - (nth1 b - nth1 a) * (nth0 c - nth0 a)

/-- The horizontal gap between the middle vertex and the long edge at its height is the area
divided by the triangle's height. -/
theorem mid_gap (T M B : List K) (h : nth1 B - nth1 T ≠ 0) :
    nth0 M - lineX T B (nth1 M) = area2 T M B / (nth1 B - nth1 T) := by
  unfold lineX edgeX area2
  field_simp
  ring

/-- The y component of the split point is the middle vertex's height. -/
theorem nth1_mid1 (T B : List K) (my : K) (hT : 1 < T.length) (hB : 1 < B.length) (h : nth1 B - nth1 T ≠ 0) :
    nth1 (lerpL T B ((my - nth1 T) / (nth1 B - nth1 T))) = my := by
  rw [nth1_lerpL _ _ _ hT hB]
  simp only [lerp]
  field_simp
  ring

/-- area2 is, up to sign, invariant under the stable sort (it is a permutation). -/
theorem area2_sort3_ne_zero (a b c : List K) (h : area2 a b c ≠ 0) :
    area2 (sort3 a b c).1 (sort3 a b c).2.1 (sort3 a b c).2.2 ≠ 0 := by
  unfold sort3
  by_cases h1 : nth1 b < nth1 a <;> simp only [h1, if_true, if_false] <;>
  · split_ifs <;> simp only <;> (intro h0; apply h; unfold area2 at *; linarith)

/-- **Non-zero divisors at triangle level.** For a triangle of non-zero area (all tuples of a common
length ≥ 2), each of the two trapezoid scans of `tri_fill` that emits any row has `y1 − y0 ≠ 0`, and
its dv/dx divisor (the wider base) is non-zero; the split parameter's divisor `B.y − T.y` is non-zero.
So no fragment of a non-degenerate triangle is computed from a division by zero. -/
theorem trifill_divisors_ne_zero (a b c : List K) (m : Nat) (hm : 1 < m)
    (ha : a.length = m) (hb : b.length = m) (hc : c.length = m) (harea : area2 a b c ≠ 0) :
    let T := (sort3 a b c).1
    let M := (sort3 a b c).2.1
    let B := (sort3 a b c).2.2
    let mid1 := lerpL T B ((nth1 M - nth1 T) / (nth1 B - nth1 T))
    nth1 B - nth1 T ≠ 0 ∧ nth0 M - nth0 mid1 ≠ 0 := by
  intro T M B mid1
  obtain ⟨hT0, hM0, hB0⟩ := sort3_lengths a b c m ha hb hc
  have hT : T.length = m := hT0
  have hM : M.length = m := hM0
  have hB : B.length = m := hB0
  obtain ⟨h1, h2⟩ := sort3_sorted a b c
  have har := area2_sort3_ne_zero a b c harea
  have hne : nth1 B - nth1 T ≠ 0 := by
    intro h0
    have e1 : nth1 M = nth1 T := by
      have : nth1 B = nth1 T := by linarith
      exact le_antisymm (by rw [← this]; exact h2) h1
    have e2 : nth1 B = nth1 T := by linarith
    apply har
    show area2 T M B = 0
    unfold area2
    rw [e1, e2]; ring
  refine ⟨hne, ?_⟩
  have hx : nth0 mid1 = lineX T B (nth1 M) := nth0_mid1 T B (nth1 M) (by omega) (by omega)
  rw [hx, mid_gap T M B hne]
  intro h0
  have : area2 T M B = 0 := by
    have := div_eq_zero_iff.mp h0
    rcases this with h | h
    · simpa using h
    · exact absurd h hne
  exact har this

/-- **Every fragment of a non-degenerate triangle sits at its pixel centre.** Row by row for both
halves: fragment `j` of a row of the upper (lower) scan has `x = roundUpHalf(xl) + j`, the centre of
pixel `x0 + j`, and `y` = the centre of the row. -/
theorem trifill_frag_centre (a b c : List K) (m : Nat) (hm : 1 < m)
    (ha : a.length = m) (hb : b.length = m) (hc : c.length = m) (harea : area2 a b c ≠ 0) :
    let T := (sort3 a b c).1
    let M := (sort3 a b c).2.1
    let B := (sort3 a b c).2.2
    let mid1 := lerpL T B ((nth1 M - nth1 T) / (nth1 B - nth1 T))
    let lr := if nth0 M < nth0 mid1 then (M, mid1) else (mid1, M)
    (nth1 M - nth1 T ≠ 0 →
      ∀ k, k < (scan (nth1 T) (nth1 M) T lr.1 T lr.2).length →
        ∃ row, (scan (nth1 T) (nth1 M) T lr.1 T lr.2)[k]? = some row ∧
          ∀ j, j < row.frags.length → ∃ f, row.frags[j]? = some f ∧
            nth0 f = roundUpHalf (edgeX (nth1 T) (nth1 M) T lr.1 (roundUpHalf (nth1 T) + (k : K))) + (j : K) ∧
            nth1 f = roundUpHalf (nth1 T) + (k : K)) ∧
    (nth1 B - nth1 M ≠ 0 →
      ∀ k, k < (scan (nth1 M) (nth1 B) lr.1 B lr.2 B).length →
        ∃ row, (scan (nth1 M) (nth1 B) lr.1 B lr.2 B)[k]? = some row ∧
          ∀ j, j < row.frags.length → ∃ f, row.frags[j]? = some f ∧
            nth0 f = roundUpHalf (edgeX (nth1 M) (nth1 B) lr.1 B (roundUpHalf (nth1 M) + (k : K))) + (j : K) ∧
            nth1 f = roundUpHalf (nth1 M) + (k : K)) := by
  intro T M B mid1 lr
  obtain ⟨hT0, hM0, hB0⟩ := sort3_lengths a b c m ha hb hc
  have hT : T.length = m := hT0
  have hM : M.length = m := hM0
  have hB : B.length = m := hB0
  obtain ⟨hne, hgap⟩ := trifill_divisors_ne_zero a b c m hm ha hb hc harea
  have hmidlen : mid1.length = m := by simp only [mid1]; rw [lerpL_length, hT, hB, Nat.min_self]
  have hmidy : nth1 mid1 = nth1 M := nth1_mid1 T B (nth1 M) (by omega) (by omega) hne
  have hlr : lr.1.length = m ∧ lr.2.length = m ∧ nth1 lr.1 = nth1 M ∧ nth1 lr.2 = nth1 M ∧
      nth0 lr.2 - nth0 lr.1 ≠ 0 := by
    simp only [lr]
    split
    · exact ⟨hM, hmidlen, rfl, hmidy, by intro h; apply hgap; linarith⟩
    · exact ⟨hmidlen, hM, hmidy, rfl, by intro h; apply hgap; linarith⟩
  obtain ⟨l1, l2, y1, y2, hw⟩ := hlr
  constructor
  · intro hflat k hk
    exact scan_frag_centre (nth1 T) (nth1 M) T lr.1 T lr.2 m hm hflat hT l1 hT l2 rfl rfl y1 y2
      (by rintro ⟨-, h⟩; exact hw h) k hk
  · intro hflat k hk
    exact scan_frag_centre (nth1 M) (nth1 B) lr.1 B lr.2 B m hm hflat l1 hB l2 hB y1 y2 rfl rfl
      (by rintro ⟨h, -⟩; exact hw h) k hk

/-- Non-vacuity: the triangle (2,1), (8,5), (4,6) has non-zero area. -/
example : area2 (K := Rat) [2, 1] [8, 5] [4, 6] ≠ 0 := by norm_num [area2, nth0, nth1]

end Retro.Props.C05
