/-
C06 — Hidden-surface removal is independent of submission order.
  `Retro.Props.C06.Pixel`  : the per-pixel z-buffer fold (zbuf_step, zbuf_comm, zbuf_perm, zbuf_nearest,
                             zbuf_depth_max, fold_append, span_pointwise, depthSorted_perm, painter_eq_zbuf)
  `Retro.Props.C06.Buffer` : the lift to whole framebuffers, triangle lists and `render` calls
                             (rasterize_pix2, rasterizeAll_pix, drawTris_pix, drawTris_append,
                             drawTris_perm_pixel, drawTris_perm, target_ext, render_perm, render_split)
-/
import Retro.Props.C06.Pixel
import Retro.Props.C06.Buffer
import Retro.Props.C06.Painter
