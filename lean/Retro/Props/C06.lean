/-
C06 — Hidden-surface removal is independent of submission order.
  `Retro.Props.C06.Pixel`  : the per-pixel z-buffer fold (zbuf_step, zbuf_comm, zbuf_perm, zbuf_nearest,
                             zbuf_depth_max, fold_append, span_pointwise, depthSorted_perm, painter_eq_zbuf)
  `Retro.Props.C06.Buffer` : the lift to whole framebuffers, triangle lists and `render` calls
                             (rasterize_pix2, rasterizeAll_pix, drawTris_pix, drawTris_append,
                             drawTris_perm_pixel, drawTris_perm, target_ext, render_perm, render_split)
  `Retro.Props.C06.Painter`, `Retro.Props.C06.PainterScene` : the depth sort really sorts (`depthSorted_backToFront_sorted`),
                             depth-disjoint triangles come out farthest first (`backToFront_far_first`), and for scenes
                             that need no clipping painter = z-buffer as whole `render` calls
                             (`render_painter_unclipped_partial`), and for ALL scenes on a perspective image — clipped pieces
                             included — `render_painter` (`Retro.Props.C06.PainterClip`)
  `Retro.Props.C06.ZbufF32` : the per-pixel fold on IEEE binary32 BIT PATTERNS (depth test = `F32.lt`, no arithmetic, hence exact):
                             `lt_b32_strict_total`, `zbuf_perm_f32` (no NaN hypothesis: NaN depths are no-ops of the fold),
                             `zbuf_nearest_f32`, `zbuf_nearest_f32_val`, `nan_fragment_dropped`, `nan_depth_freezes_pixel`,
                             sharpness `signed_zero_tie_breaks_order` (+0/−0 is a tie), `nan_fragment_invisible`
-/
import Retro.Props.C06.Pixel
import Retro.Props.C06.Buffer
import Retro.Props.C06.Painter
import Retro.Props.C06.PainterScene
import Retro.Props.C06.PainterClip
import Retro.Props.C06.ZbufF32
