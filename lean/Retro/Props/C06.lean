/-
C06 — Hidden-surface removal is independent of submission order.
  `Retro.Props.C06.Pixel`  : the per-pixel z-buffer fold (zbuf_step, zbuf_comm, zbuf_perm, zbuf_nearest,
                             zbuf_depth_max, fold_append, span_pointwise, depthSorted_perm, painter_eq_zbuf)
  `Retro.Props.C06.Buffer` : the lift to whole framebuffers, triangle lists and `render` calls
                             (rasterize_pix2, rasterizeAll_pix, drawTris_pix, drawTris_append,
                             drawTris_perm_pixel, drawTris_perm, target_ext, render_perm, render_split)
  `Retro.Props.C06.Painter`, `Retro.Props.C06.PainterScene` : the depth sort really sorts (`depthSorted_backToFront_sorted`),
                             depth-disjoint triangles come out farthest first (`backToFront_far_first`), and for scenes
                             that need no clipping painter = z-buffer as whole `render` calls
                             (`render_painter_unclipped_partial`), and for ALL scenes on a perspective image — clipped pieces
                             included — `render_painter` (`Retro.Props.C06.PainterClip`)
-/
import Retro.Props.C06.Pixel
import Retro.Props.C06.Buffer
import Retro.Props.C06.Painter
import Retro.Props.C06.PainterScene
import Retro.Props.C06.PainterClip
