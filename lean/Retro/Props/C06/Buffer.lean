/-
C06, lifted from one pixel to whole framebuffers and whole triangle lists.

`Retro.Props.C06.Pixel` proves order independence of the fold of fragments reaching ONE pixel. This
file proves that `rasterize`, `rasterizeAll`, `drawTris` and `render` of the model are exactly that
fold at every pixel:

  * `rasterize_pix2`     one scanline: pixel (x, y) is updated by the scanline's fragment for (x, y), if any
  * `rasterizeAll_pix`   a scanline list: pixel (x, y) = fold over `fragsAt sls x y`
  * `drawTris_pix`       a triangle list: pixel (x, y) = fold over `triFrags ctx m ts x y`
  * `drawTris_append`    a split into two calls re-brackets the loop
  * `drawTris_perm`      two permutations of the triangle list without exact depth ties at any pixel
                         give EQUAL framebuffers (colour and depth buffers)
  * `render_perm`        whole `render` calls: any permutation of the index triples and any two
                         depth_sort settings give equal framebuffers
-/
import Retro.Props.C06.Pixel
import Retro.Props.C02.NoPanic
import Retro.Lemmas.Target
import Mathlib.Tactic.IntervalCases
import Mathlib.Data.Rat.Floor

namespace Retro.Props.C06
open Retro Retro.Clip Retro.Raster Retro.Render Retro.Lemmas.Target Retro.Lemmas.Raster Retro.Lemmas.Clip Retro.Props.C02

variable {K : Type} [Field K] [LinearOrder K] [IsStrictOrderedRing K] [FloorRing K] {C : Type}
attribute [local instance] hasFloorK hasToNatK

/-- (colour, depth) held by pixel (x, y) of a depth-buffered target; `none` outside the buffers. -/
def pix (t : Target K C) (x y : Nat) : Option (C × K) :=
  match pixC t x y, pixZ t x y with
  | some c, some z => some (c, z)
  | _, _ => none

/-- The fragment a scanline delivers to pixel (x, y), if any. -/
def slFrag (sl : Scanline K) (x y : Nat) : Option (List K) :=
  if y = sl.y ∧ sl.x0 ≤ x ∧ x < Nat.max sl.x1 sl.x0 then (sl.frags.map zdiv)[x - sl.x0]? else none

/-- All fragments a scanline list delivers to pixel (x, y), in arrival order. -/
def fragsAt (sls : List (Scanline K)) (x y : Nat) : List (List K) :=
  sls.flatMap fun sl => (slFrag sl x y).toList

/-- All fragments a (clipped) triangle list delivers to pixel (x, y), in arrival order. -/
def triFrags (ctx : Ctx) (m : Mat4 K) (ts : List (Tri K)) (x y : Nat) : List (List K) :=
  ts.flatMap fun tri =>
    if culled ctx (toScreen m tri.a) (toScreen m tri.b) (toScreen m tri.c) then []
    else fragsAt (triFill (toScreen m tri.a) (toScreen m tri.b) (toScreen m tri.c)) x y

/-- A `W`×`H` target with a depth buffer (`Framebuf`). -/
def WFD (t : Target K C) (W H : Nat) : Prop := WFT t W H ∧ t.depth.isSome = true

/-- No two distinct shaded fragments of the list have exactly equal depth. -/
def NoTies (shade : List K → Option C) (l : List (List K)) : Prop :=
  ∀ f ∈ l, ∀ g ∈ l, shade f ≠ none → shade g ≠ none → nth2 f = nth2 g → f = g

theorem rasterize_pix2 (ctx : Ctx) (shade : List K → Option C) (t : Target K C) (W H : Nat) (sl : Scanline K)
    (hwf : WFD t W H) (hy : sl.y < H) (hx : Nat.max sl.x1 sl.x0 ≤ W) :
    ∃ t' i o, rasterize ctx shade t sl = .ok (t', i, o) ∧ WFD t' W H ∧
      ∀ x y, pix t' x y = (pix t x y).map (pixelFold ctx shade (slFrag sl x y).toList) := by
  obtain ⟨hw, hds⟩ := hwf
  obtain ⟨dbuf, hd⟩ := Option.isSome_iff_exists.mp hds
  obtain ⟨hc, hcr, hdep⟩ := hw
  obtain ⟨hdl, hdr⟩ := hdep dbuf hd
  obtain ⟨t1, i1, o1, h1, hw1⟩ := rasterize_ok ctx shade t W H sl ⟨hc, hcr, hdep⟩ hy hx
  obtain ⟨t2, i2, o2, h2, hs2, hp⟩ := rasterize_pix ctx shade t W H sl dbuf hd hc hcr hdl hdr hy hx
  rw [h1] at h2
  have e : t1 = t2 := by injection h2 with h2; injection h2
  subst e
  refine ⟨t1, i1, o1, h1, ⟨hw1, hs2⟩, ?_⟩
  intro x y
  have h := hp x y
  unfold pix slFrag
  by_cases hcond : y = sl.y ∧ sl.x0 ≤ x ∧ x < Nat.max sl.x1 sl.x0
  · rw [if_pos hcond] at h ⊢
    have hc' := congrArg Prod.fst h
    have hz' := congrArg Prod.snd h
    simp only at hc' hz'
    rw [hc', hz']
    unfold applyAt
    cases (List.map zdiv sl.frags)[x - sl.x0]? <;> cases pixC t x y <;> cases pixZ t x y <;>
      simp [pixelFold, step1]
  · rw [if_neg hcond] at h ⊢
    have hc' := congrArg Prod.fst h
    have hz' := congrArg Prod.snd h
    simp only at hc' hz'
    rw [hc', hz']
    cases pixC t x y <;> cases pixZ t x y <;> simp [pixelFold]

theorem rasterizeAll_pix (ctx : Ctx) (shade : List K → Option C) (W H : Nat) (sls : List (Scanline K))
    (hin : ∀ sl ∈ sls, sl.y < H ∧ Nat.max sl.x1 sl.x0 ≤ W) (t : Target K C) (st : Stats) (hwf : WFD t W H) :
    ∃ t' st', rasterizeAll ctx shade t st sls = .ok (t', st') ∧ WFD t' W H ∧
      ∀ x y, pix t' x y = (pix t x y).map (pixelFold ctx shade (fragsAt sls x y)) := by
  induction sls generalizing t st with
  | nil =>
    refine ⟨t, st, rfl, hwf, fun x y => ?_⟩
    cases pix t x y <;> simp [fragsAt, pixelFold]
  | cons sl rest ih =>
    obtain ⟨hy, hx⟩ := hin sl (by simp)
    obtain ⟨t1, i, o, hr, hwf1, hp1⟩ := rasterize_pix2 ctx shade t W H sl hwf hy hx
    simp only [rasterizeAll, hr]
    obtain ⟨t2, st2, hr2, hwf2, hp2⟩ := ih (fun s hs => hin s (List.mem_cons_of_mem _ hs)) t1
      { st with fragsI := st.fragsI + i, fragsO := st.fragsO + o } hwf1
    refine ⟨t2, st2, hr2, hwf2, fun x y => ?_⟩
    rw [hp2 x y, hp1 x y, Option.map_map]
    congr 1
    funext s
    simp only [Function.comp, fragsAt, List.flatMap_cons]
    rw [fold_append]

/-- Every scanline of every triangle of the list lies inside the `W`×`H` buffer. -/
def TrisInRect (m : Mat4 K) (W H : Nat) (ts : List (Tri K)) : Prop :=
  ∀ tri ∈ ts, ∀ sl ∈ triFill (toScreen m tri.a) (toScreen m tri.b) (toScreen m tri.c),
    sl.y < H ∧ Nat.max sl.x1 sl.x0 ≤ W

/-- **`drawTris` is the per-pixel fold.** -/
theorem drawTris_pix (ctx : Ctx) (shade : List K → Option C) (m : Mat4 K) (W H : Nat) (ts : List (Tri K))
    (hin : TrisInRect m W H ts) (t : Target K C) (st : Stats) (hwf : WFD t W H) :
    ∃ t' st', drawTris ctx shade m t st ts = .ok (t', st') ∧ WFD t' W H ∧
      ∀ x y, pix t' x y = (pix t x y).map (pixelFold ctx shade (triFrags ctx m ts x y)) := by
  induction ts generalizing t st with
  | nil =>
    refine ⟨t, st, rfl, hwf, fun x y => ?_⟩
    cases pix t x y <;> simp [triFrags, pixelFold]
  | cons tri rest ih =>
    have hrest : TrisInRect m W H rest := fun t ht => hin t (List.mem_cons_of_mem _ ht)
    simp only [drawTris]
    by_cases hcull : culled ctx (toScreen m tri.a) (toScreen m tri.b) (toScreen m tri.c) = true
    · rw [if_pos hcull]
      obtain ⟨t2, st2, hr2, hwf2, hp2⟩ := ih hrest t st hwf
      refine ⟨t2, st2, hr2, hwf2, fun x y => ?_⟩
      rw [hp2 x y]
      simp only [triFrags, List.flatMap_cons, if_pos hcull, List.nil_append]
    · rw [if_neg hcull]
      obtain ⟨t1, st1, hr, hwf1, hp1⟩ := rasterizeAll_pix ctx shade W H _ (hin tri (by simp)) t
        { st with primsO := st.primsO + 1, vertsO := st.vertsO + 3 } hwf
      simp only [hr]
      obtain ⟨t2, st2, hr2, hwf2, hp2⟩ := ih hrest t1 st1 hwf1
      refine ⟨t2, st2, hr2, hwf2, fun x y => ?_⟩
      rw [hp2 x y, hp1 x y, Option.map_map]
      congr 1
      funext s
      simp only [Function.comp, triFrags, List.flatMap_cons, if_neg hcull]
      rw [fold_append]

/-- **Splitting the triangle list into two calls** re-brackets the loop: the second call continues
from the target (and counters) the first one left. -/
theorem drawTris_append (ctx : Ctx) (shade : List K → Option C) (m : Mat4 K) (l1 l2 : List (Tri K))
    (t : Target K C) (st : Stats) :
    drawTris ctx shade m t st (l1 ++ l2) =
      match drawTris ctx shade m t st l1 with
      | .panic msg => .panic msg
      | .ok (t1, st1) => drawTris ctx shade m t1 st1 l2 := by
  induction l1 generalizing t st with
  | nil => simp [drawTris]
  | cons tri rest ih =>
    simp only [List.cons_append, drawTris]
    split
    · exact ih t st
    · cases hr : rasterizeAll ctx shade t { st with primsO := st.primsO + 1, vertsO := st.vertsO + 3 }
          (triFill (toScreen m tri.a) (toScreen m tri.b) (toScreen m tri.c)) with
      | panic msg => simp
      | ok r => obtain ⟨t1, st1⟩ := r; simp only; exact ih t1 st1

theorem triFrags_perm (ctx : Ctx) (m : Mat4 K) {ts ts' : List (Tri K)} (h : ts.Perm ts') (x y : Nat) :
    (triFrags ctx m ts x y).Perm (triFrags ctx m ts' x y) :=
  List.Perm.flatMap_right _ h

theorem trisInRect_perm (m : Mat4 K) (W H : Nat) {ts ts' : List (Tri K)} (h : ts.Perm ts')
    (hin : TrisInRect m W H ts) : TrisInRect m W H ts' :=
  fun tri htri => hin tri (h.symm.subset htri)

/-- **Order independence at every pixel of the framebuffer.** Two permutations of a triangle list, drawn
into the same target, leave the same colour and depth at every pixel where no two distinct shaded
fragments tie exactly in depth. -/
theorem drawTris_perm_pixel (ctx : Ctx) (hz : ZBuf ctx) (shade : List K → Option C) (m : Mat4 K) (W H : Nat)
    (ts ts' : List (Tri K)) (hperm : ts.Perm ts') (hin : TrisInRect m W H ts)
    (t : Target K C) (st st' : Stats) (hwf : WFD t W H) :
    ∃ t1 s1 t2 s2, drawTris ctx shade m t st ts = .ok (t1, s1) ∧ drawTris ctx shade m t st' ts' = .ok (t2, s2) ∧
      WFD t1 W H ∧ WFD t2 W H ∧
      ∀ x y, NoTies shade (triFrags ctx m ts x y) → pix t1 x y = pix t2 x y := by
  obtain ⟨t1, s1, h1, w1, p1⟩ := drawTris_pix ctx shade m W H ts hin t st hwf
  obtain ⟨t2, s2, h2, w2, p2⟩ := drawTris_pix ctx shade m W H ts' (trisInRect_perm m W H hperm hin) t st' hwf
  refine ⟨t1, s1, t2, s2, h1, h2, w1, w2, fun x y hties => ?_⟩
  rw [p1 x y, p2 x y]
  congr 1
  funext s
  exact zbuf_perm ctx hz shade _ _ (triFrags_perm ctx m hperm x y) hties s

/-! ### From equal pixels to equal buffers -/

theorem grid_ext {β : Type} (W H : Nat) (r1 r2 : List (List β)) (h1 : r1.length = H) (h2 : r2.length = H)
    (w1 : ∀ row ∈ r1, row.length = W) (w2 : ∀ row ∈ r2, row.length = W)
    (h : ∀ x y, x < W → y < H → (r1[y]?).bind (·[x]?) = (r2[y]?).bind (·[x]?)) : r1 = r2 := by
  apply List.ext_getElem (by omega)
  intro y hy1 hy2
  have l1 : (r1[y]).length = W := w1 _ (List.getElem_mem hy1)
  have l2 : (r2[y]).length = W := w2 _ (List.getElem_mem hy2)
  apply List.ext_getElem (by omega)
  intro x hx1 hx2
  have := h x y (by omega) (by omega)
  rw [List.getElem?_eq_getElem hy1, List.getElem?_eq_getElem hy2] at this
  simp only [Option.bind_some] at this
  rw [List.getElem?_eq_getElem hx1, List.getElem?_eq_getElem hx2] at this
  exact Option.some.inj this

theorem pix_inbounds (t : Target K C) (W H : Nat) (hwf : WFD t W H) (x y : Nat) (hx : x < W) (hy : y < H) :
    ∃ c z, pixC t x y = some c ∧ pixZ t x y = some z := by
  obtain ⟨⟨hc, hcr, hdep⟩, hds⟩ := hwf
  obtain ⟨dbuf, hd⟩ := Option.isSome_iff_exists.mp hds
  obtain ⟨hdl, hdr⟩ := hdep dbuf hd
  have hy1 : y < t.color.length := by omega
  have hy2 : y < dbuf.length := by omega
  have l1 : (t.color[y]).length = W := hcr _ (List.getElem_mem hy1)
  have l2 : (dbuf[y]).length = W := hdr _ (List.getElem_mem hy2)
  refine ⟨(t.color[y])[x], (dbuf[y])[x], ?_, ?_⟩
  · simp only [pixC, List.getElem?_eq_getElem hy1, Option.bind_some]
    exact List.getElem?_eq_getElem (by omega)
  · simp only [pixZ, hd, Option.bind_some, List.getElem?_eq_getElem hy2]
    exact List.getElem?_eq_getElem (by omega)

/-- Two `W`×`H` depth-buffered targets with equal pixels are equal. -/
theorem target_ext (t1 t2 : Target K C) (W H : Nat) (w1 : WFD t1 W H) (w2 : WFD t2 W H)
    (h : ∀ x y, x < W → y < H → pix t1 x y = pix t2 x y) : t1 = t2 := by
  have hC : ∀ x y, x < W → y < H → pixC t1 x y = pixC t2 x y ∧ pixZ t1 x y = pixZ t2 x y := by
    intro x y hx hy
    obtain ⟨c1, z1, hc1, hz1⟩ := pix_inbounds t1 W H w1 x y hx hy
    obtain ⟨c2, z2, hc2, hz2⟩ := pix_inbounds t2 W H w2 x y hx hy
    have := h x y hx hy
    simp only [pix, hc1, hz1, hc2, hz2, Option.some.injEq, Prod.mk.injEq] at this
    rw [hc1, hz1, hc2, hz2, this.1, this.2]
    exact ⟨rfl, rfl⟩
  obtain ⟨⟨hc1, hcr1, hdep1⟩, hds1⟩ := w1
  obtain ⟨⟨hc2, hcr2, hdep2⟩, hds2⟩ := w2
  obtain ⟨d1, hd1⟩ := Option.isSome_iff_exists.mp hds1
  obtain ⟨d2, hd2⟩ := Option.isSome_iff_exists.mp hds2
  obtain ⟨hdl1, hdr1⟩ := hdep1 d1 hd1
  obtain ⟨hdl2, hdr2⟩ := hdep2 d2 hd2
  have ec : t1.color = t2.color :=
    grid_ext W H _ _ hc1 hc2 hcr1 hcr2 (fun x y hx hy => (hC x y hx hy).1)
  have ed : d1 = d2 := by
    apply grid_ext W H _ _ hdl1 hdl2 hdr1 hdr2
    intro x y hx hy
    have := (hC x y hx hy).2
    simpa only [pixZ, hd1, hd2, Option.bind_some] using this
  cases t1; cases t2
  simp only at ec hd1 hd2
  subst ec; rw [hd1, hd2, ed]

/-- **Order independence of the whole framebuffer.** If at no pixel two distinct shaded fragments tie
exactly in depth, every permutation of the triangle list produces exactly the same colour buffer and
depth buffer. -/
theorem drawTris_perm (ctx : Ctx) (hz : ZBuf ctx) (shade : List K → Option C) (m : Mat4 K) (W H : Nat)
    (ts ts' : List (Tri K)) (hperm : ts.Perm ts') (hin : TrisInRect m W H ts)
    (hties : ∀ x y, x < W → y < H → NoTies shade (triFrags ctx m ts x y))
    (t : Target K C) (st st' : Stats) (hwf : WFD t W H) :
    ∃ t1 s1 s2, drawTris ctx shade m t st ts = .ok (t1, s1) ∧ drawTris ctx shade m t st' ts' = .ok (t1, s2) := by
  obtain ⟨t1, s1, t2, s2, h1, h2, w1, w2, hp⟩ := drawTris_perm_pixel ctx hz shade m W H ts ts' hperm hin t st st' hwf
  have : t1 = t2 := target_ext t1 t2 W H w1 w2 (fun x y hx hy => hp x y (hties x y hx hy))
  subst this
  exact ⟨t1, s1, s2, h1, h2⟩

/-! ### Whole `render` calls -/

theorem noTies_perm (shade : List K → Option C) {l1 l2 : List (List K)} (h : l1.Perm l2)
    (hn : NoTies shade l1) : NoTies shade l2 :=
  fun f hf g hg => hn f (h.symm.subset hf) g (h.symm.subset hg)

/-- Under the z-buffer configuration the per-pixel fold does not depend on any other Context field. -/
theorem pixelFold_ctx (c1 c2 : Ctx) (h1 : ZBuf c1) (h2 : ZBuf c2) (shade : List K → Option C)
    (l : List (List K)) (s : C × K) : pixelFold c1 shade l s = pixelFold c2 shade l s := by
  unfold pixelFold
  induction l generalizing s with
  | nil => rfl
  | cons f fs ih =>
    simp only [List.foldl_cons]
    rw [zbuf_step c1 h1, zbuf_step c2 h2]
    exact ih _

theorem triFrags_ctx (c1 c2 : Ctx) (hfc : c1.faceCull = c2.faceCull) (m : Mat4 K) (ts : List (Tri K)) (x y : Nat) :
    triFrags c1 m ts x y = triFrags c2 m ts x y := by
  unfold triFrags culled
  rw [hfc]

/-- The triangle an index triple denotes (`None` when an index is out of range). -/
def mkTri (verts : List (ClipVert K)) (ijk : Nat × Nat × Nat) : Option (Tri K) :=
  match verts[ijk.1]?, verts[ijk.2.1]?, verts[ijk.2.2]? with
  | some a, some b, some c => some ⟨a, b, c⟩
  | _, _, _ => none

theorem lookupTris_eq (verts : List (ClipVert K)) (tris : List (Nat × Nat × Nat))
    (hidx : ∀ t ∈ tris, t.1 < verts.length ∧ t.2.1 < verts.length ∧ t.2.2 < verts.length) :
    lookupTris verts tris = .ok (tris.filterMap (mkTri verts)) := by
  induction tris with
  | nil => rfl
  | cons hd tl ih =>
    obtain ⟨i, j, l⟩ := hd
    obtain ⟨hi, hj, hl⟩ := hidx (i, j, l) (by simp)
    simp only at hi hj hl
    have ih' := ih (fun t ht => hidx t (List.mem_cons_of_mem _ ht))
    simp only [lookupTris, List.getElem?_eq_getElem hi, List.getElem?_eq_getElem hj, List.getElem?_eq_getElem hl, ih',
      List.filterMap_cons, mkTri]

theorem mkTri_mem (verts : List (ClipVert K)) (ijk : Nat × Nat × Nat) (tri : Tri K) (h : mkTri verts ijk = some tri) :
    ∀ v ∈ [tri.a, tri.b, tri.c], v ∈ verts := by
  unfold mkTri at h
  cases ha : verts[ijk.1]? with
  | none => simp [ha] at h
  | some a =>
    cases hb : verts[ijk.2.1]? with
    | none => simp [ha, hb] at h
    | some b =>
      cases hc : verts[ijk.2.2]? with
      | none => simp [ha, hb, hc] at h
      | some c =>
        simp only [ha, hb, hc, Option.some.injEq] at h
        subst h
        intro v hv
        simp only [List.mem_cons, List.mem_nil_iff, or_false] at hv
        rcases hv with rfl | rfl | rfl
        · exact List.mem_of_getElem? ha
        · exact List.mem_of_getElem? hb
        · exact List.mem_of_getElem? hc

/-- Triangles that survive clipping project to within half a pixel of the viewport rectangle, so all
their scanlines lie inside any `W`×`H` target that contains the rectangle. -/
theorem clipped_inRect (Q : Vec4 K → Prop) (hQ : ClipInv Q) (L R T B W H k : Nat)
    (hLR : L ≤ R) (hTB : T ≤ B) (hRW : R ≤ W) (hBH : B ≤ H) (ts : List (Tri K))
    (hts : ∀ tri ∈ ts, ∀ v ∈ [tri.a, tri.b, tri.c], WF v ∧ Q v.pos ∧ v.attr.length = k) :
    TrisInRect (viewportMat L R T B) W H (clipTris ts) := by
  intro tri htri
  obtain ⟨t0, ht0, htri0⟩ := List.mem_flatMap.mp htri
  have hv0 := hts t0 ht0
  have hwf0 : Retro.Props.C03.TriWF t0 := ⟨(hv0 _ (by simp)).1, (hv0 _ (by simp)).1, (hv0 _ (by simp)).1⟩
  have hin := Retro.Props.C03.clip_inside t0 hwf0 tri htri0
  have hq := clip_keeps_inv Q hQ t0 (hv0 _ (by simp)).2.1 (hv0 _ (by simp)).2.1 (hv0 _ (by simp)).2.1 tri htri0
  have hlen := clip_attr_length k t0 (hv0 _ (by simp)).2.2 (hv0 _ (by simp)).2.2 (hv0 _ (by simp)).2.2 tri htri0
  have near : ∀ v ∈ Retro.Props.C03.triVerts tri, NearRect L R T B (toScreen (viewportMat L R T B) v) :=
    fun v hv => survivor_near_rect L R T B hLR hTB Q hQ v (hin v hv) (hq v hv)
  have hl : ∀ v ∈ Retro.Props.C03.triVerts tri, (toScreen (viewportMat L R T B) v).length = 3 + k := by
    intro v hv
    rw [toScreen_length, hlen v hv]
  have hrows := trifill_rows_in_rect L R T B (toScreen (viewportMat L R T B) tri.a) (toScreen (viewportMat L R T B) tri.b)
    (toScreen (viewportMat L R T B) tri.c) (3 + k) (by omega)
    (hl _ (by simp [Retro.Props.C03.triVerts])) (hl _ (by simp [Retro.Props.C03.triVerts]))
    (hl _ (by simp [Retro.Props.C03.triVerts]))
    (near _ (by simp [Retro.Props.C03.triVerts])) (near _ (by simp [Retro.Props.C03.triVerts]))
    (near _ (by simp [Retro.Props.C03.triVerts]))
  intro sl hsl
  obtain ⟨_, h2, _, h4, h5⟩ := hrows sl hsl
  exact ⟨by omega, by rw [Nat.max_le]; omega⟩

/-- The triangle list `render` hands to the draw loop. -/
def renderList (ctx : Ctx) (verts : List (Vec4 K × List K)) (tris : List (Nat × Nat × Nat)) : List (Tri K) :=
  let clipped := clipTris (tris.filterMap (mkTri (verts.map fun (p, a) => mkVert p a)))
  match ctx.depthSort with
  | some d => depthSorted d clipped
  | none => clipped

theorem renderList_perm (c1 c2 : Ctx) (verts : List (Vec4 K × List K)) {tris1 tris2 : List (Nat × Nat × Nat)}
    (h : tris1.Perm tris2) : (renderList c1 verts tris1).Perm (renderList c2 verts tris2) := by
  have hc : (clipTris (tris1.filterMap (mkTri (verts.map fun (p, a) => mkVert p a)))).Perm
      (clipTris (tris2.filterMap (mkTri (verts.map fun (p, a) => mkVert p a)))) :=
    List.Perm.flatMap_right _ (List.Perm.filterMap _ h)
  unfold renderList
  simp only
  cases c1.depthSort <;> cases c2.depthSort <;> simp only
  · exact hc
  · exact hc.trans (depthSorted_perm _ _).symm
  · exact (depthSorted_perm _ _).trans hc
  · exact ((depthSorted_perm _ _).trans hc).trans (depthSorted_perm _ _).symm

/-- `render` is the draw loop over `renderList`, all of whose scanlines lie inside the target (C02's clip and
viewport invariants): the bridge from the per-pixel theorems about `drawTris` to whole `render` calls. -/
theorem render_eq_drawTris (Q : Vec4 K → Prop) (hQ : ClipInv Q) (c : Ctx) (shade : List K → Option C)
    (L R T B W H k : Nat) (hLR : L ≤ R) (hTB : T ≤ B) (hRW : R ≤ W) (hBH : B ≤ H)
    (tris : List (Nat × Nat × Nat)) (verts : List (Vec4 K × List K))
    (hidx : ∀ t ∈ tris, t.1 < verts.length ∧ t.2.1 < verts.length ∧ t.2.2 < verts.length)
    (hverts : ∀ v ∈ verts, Q v.1 ∧ v.2.length = k) (t : Target K C) :
    render c shade (viewportMat L R T B) tris verts t =
      drawTris c shade (viewportMat L R T B) t { calls := 1, primsI := tris.length, vertsI := verts.length }
        (renderList c verts tris) ∧ TrisInRect (viewportMat L R T B) W H (renderList c verts tris) := by
  have hlen : (verts.map fun (p, a) => mkVert p a).length = verts.length := List.length_map _
  have hcv : ∀ v ∈ verts.map (fun (p, a) => mkVert p a), WF v ∧ Q v.pos ∧ v.attr.length = k := by
    intro v hv
    obtain ⟨pa, hpa, rfl⟩ := List.mem_map.mp hv
    obtain ⟨q1, q2⟩ := hverts pa hpa
    exact ⟨Retro.Lemmas.Clip.mkVert_wf _ _, q1, q2⟩
  constructor
  · unfold render renderList
    simp only
    rw [lookupTris_eq _ _ (by rw [hlen]; exact hidx)]
    rfl
  · have hclip := clipped_inRect Q hQ L R T B W H k hLR hTB hRW hBH
      (tris.filterMap (mkTri (verts.map fun (p, a) => mkVert p a)))
      (by
        intro tri htri v hv
        obtain ⟨ijk, _, hmk⟩ := List.mem_filterMap.mp htri
        exact hcv v (mkTri_mem _ ijk tri hmk v hv))
    unfold renderList
    simp only
    cases c.depthSort with
    | none => exact hclip
    | some d => exact trisInRect_perm _ W H (depthSorted_perm d _).symm hclip

/-- **C06 for whole `render` calls (z-buffer configuration).** Same vertices, same target, the library's
viewport matrix, clip-space positions satisfying a clip-invariant relation (`perspInv`, `affineInv`),
attribute tuples of one length. Two calls whose index triples are permutations of each other, under
ANY two Contexts that both have depth test `Less` with colour and depth writes on and agree on
`face_cull` — in particular any two `depth_sort` settings — both return, and produce exactly the same
colour buffer and depth buffer, provided no pixel receives two distinct shaded fragments of exactly equal
depth. -/
theorem render_perm (Q : Vec4 K → Prop) (hQ : ClipInv Q) (c1 c2 : Ctx) (h1 : ZBuf c1) (h2 : ZBuf c2)
    (hfc : c1.faceCull = c2.faceCull) (shade : List K → Option C)
    (L R T B W H k : Nat) (hLR : L ≤ R) (hTB : T ≤ B) (hRW : R ≤ W) (hBH : B ≤ H)
    (tris1 tris2 : List (Nat × Nat × Nat)) (hperm : tris1.Perm tris2) (verts : List (Vec4 K × List K))
    (hidx : ∀ t ∈ tris1, t.1 < verts.length ∧ t.2.1 < verts.length ∧ t.2.2 < verts.length)
    (hverts : ∀ v ∈ verts, Q v.1 ∧ v.2.length = k)
    (t : Target K C) (hwf : WFD t W H)
    (hties : ∀ x y, x < W → y < H →
      NoTies shade (triFrags c1 (viewportMat L R T B) (renderList c1 verts tris1) x y)) :
    ∃ t' s1 s2, render c1 shade (viewportMat L R T B) tris1 verts t = .ok (t', s1) ∧
      render c2 shade (viewportMat L R T B) tris2 verts t = .ok (t', s2) := by
  have hidx2 : ∀ t ∈ tris2, t.1 < verts.length ∧ t.2.1 < verts.length ∧ t.2.2 < verts.length :=
    fun t ht => hidx t (hperm.symm.subset ht)
  have hlen : (verts.map fun (p, a) => mkVert p a).length = verts.length := List.length_map _
  have hcv : ∀ v ∈ verts.map (fun (p, a) => mkVert p a), WF v ∧ Q v.pos ∧ v.attr.length = k := by
    intro v hv
    obtain ⟨pa, hpa, rfl⟩ := List.mem_map.mp hv
    obtain ⟨q1, q2⟩ := hverts pa hpa
    exact ⟨Retro.Lemmas.Clip.mkVert_wf _ _, q1, q2⟩
  have hr : ∀ (c : Ctx) (tris : List (Nat × Nat × Nat)),
      (∀ t ∈ tris, t.1 < verts.length ∧ t.2.1 < verts.length ∧ t.2.2 < verts.length) →
      render c shade (viewportMat L R T B) tris verts t =
        drawTris c shade (viewportMat L R T B) t { calls := 1, primsI := tris.length, vertsI := verts.length }
          (renderList c verts tris) ∧ TrisInRect (viewportMat L R T B) W H (renderList c verts tris) := by
    intro c tris hi
    constructor
    · unfold render renderList
      simp only
      rw [lookupTris_eq _ _ (by rw [hlen]; exact hi)]
      rfl
    · have hclip := clipped_inRect Q hQ L R T B W H k hLR hTB hRW hBH
        (tris.filterMap (mkTri (verts.map fun (p, a) => mkVert p a)))
        (by
          intro tri htri v hv
          obtain ⟨ijk, _, hmk⟩ := List.mem_filterMap.mp htri
          exact hcv v (mkTri_mem _ ijk tri hmk v hv))
      unfold renderList
      simp only
      cases c.depthSort with
      | none => exact hclip
      | some d => exact trisInRect_perm _ W H (depthSorted_perm d _).symm hclip
  obtain ⟨e1, r1⟩ := hr c1 tris1 hidx
  obtain ⟨e2, r2⟩ := hr c2 tris2 hidx2
  rw [e1, e2]
  obtain ⟨t1, s1, d1, w1, p1⟩ := drawTris_pix c1 shade _ W H _ r1 t
    { calls := 1, primsI := tris1.length, vertsI := verts.length } hwf
  obtain ⟨t2, s2, d2, w2, p2⟩ := drawTris_pix c2 shade _ W H _ r2 t
    { calls := 1, primsI := tris2.length, vertsI := verts.length } hwf
  have : t1 = t2 := by
    apply target_ext t1 t2 W H w1 w2
    intro x y hx hy
    rw [p1 x y, p2 x y]
    congr 1
    funext s
    rw [← triFrags_ctx c1 c2 hfc, ← pixelFold_ctx c1 c2 h1 h2]
    exact zbuf_perm c1 h1 shade _ _ (triFrags_perm c1 _ (renderList_perm c1 c2 verts hperm) x y)
      (hties x y hx hy) s
  subst this
  exact ⟨t1, s1, s2, d1, d2⟩

/-- **Splitting a `render` call in two.** Rendering `tris1 ++ tris2` in one call, or `tris1` and then
`tris2` into the target the first call left (under any Contexts in the z-buffer configuration that agree
on `face_cull`, whatever their `depth_sort`), gives exactly the same colour and depth buffers, provided no
pixel receives two distinct shaded fragments of exactly equal depth. -/
theorem render_split (Q : Vec4 K → Prop) (hQ : ClipInv Q) (c0 c1 c2 : Ctx) (h0 : ZBuf c0) (h1 : ZBuf c1) (h2 : ZBuf c2)
    (hfc1 : c0.faceCull = c1.faceCull) (hfc2 : c0.faceCull = c2.faceCull) (shade : List K → Option C)
    (L R T B W H k : Nat) (hLR : L ≤ R) (hTB : T ≤ B) (hRW : R ≤ W) (hBH : B ≤ H)
    (tris1 tris2 : List (Nat × Nat × Nat)) (verts : List (Vec4 K × List K))
    (hidx : ∀ t ∈ tris1 ++ tris2, t.1 < verts.length ∧ t.2.1 < verts.length ∧ t.2.2 < verts.length)
    (hverts : ∀ v ∈ verts, Q v.1 ∧ v.2.length = k)
    (t : Target K C) (hwf : WFD t W H)
    (hties : ∀ x y, x < W → y < H →
      NoTies shade (triFrags c0 (viewportMat L R T B) (renderList c0 verts (tris1 ++ tris2)) x y)) :
    ∃ t' ta s0 s1 s2, render c0 shade (viewportMat L R T B) (tris1 ++ tris2) verts t = .ok (t', s0) ∧
      render c1 shade (viewportMat L R T B) tris1 verts t = .ok (ta, s1) ∧
      render c2 shade (viewportMat L R T B) tris2 verts ta = .ok (t', s2) := by
  have hlen : (verts.map fun (p, a) => mkVert p a).length = verts.length := List.length_map _
  have hcv : ∀ v ∈ verts.map (fun (p, a) => mkVert p a), WF v ∧ Q v.pos ∧ v.attr.length = k := by
    intro v hv
    obtain ⟨pa, hpa, rfl⟩ := List.mem_map.mp hv
    obtain ⟨q1, q2⟩ := hverts pa hpa
    exact ⟨Retro.Lemmas.Clip.mkVert_wf _ _, q1, q2⟩
  have hr : ∀ (c : Ctx) (tris : List (Nat × Nat × Nat)) (t : Target K C),
      (∀ t ∈ tris, t.1 < verts.length ∧ t.2.1 < verts.length ∧ t.2.2 < verts.length) →
      render c shade (viewportMat L R T B) tris verts t =
        drawTris c shade (viewportMat L R T B) t { calls := 1, primsI := tris.length, vertsI := verts.length }
          (renderList c verts tris) ∧ TrisInRect (viewportMat L R T B) W H (renderList c verts tris) := by
    intro c tris t hi
    constructor
    · unfold render renderList
      simp only
      rw [lookupTris_eq _ _ (by rw [hlen]; exact hi)]
      rfl
    · have hclip := clipped_inRect Q hQ L R T B W H k hLR hTB hRW hBH
        (tris.filterMap (mkTri (verts.map fun (p, a) => mkVert p a)))
        (by
          intro tri htri v hv
          obtain ⟨ijk, _, hmk⟩ := List.mem_filterMap.mp htri
          exact hcv v (mkTri_mem _ ijk tri hmk v hv))
      unfold renderList
      simp only
      cases c.depthSort with
      | none => exact hclip
      | some d => exact trisInRect_perm _ W H (depthSorted_perm d _).symm hclip
  have hi1 : ∀ t ∈ tris1, t.1 < verts.length ∧ t.2.1 < verts.length ∧ t.2.2 < verts.length :=
    fun t ht => hidx t (List.mem_append_left _ ht)
  have hi2 : ∀ t ∈ tris2, t.1 < verts.length ∧ t.2.1 < verts.length ∧ t.2.2 < verts.length :=
    fun t ht => hidx t (List.mem_append_right _ ht)
  obtain ⟨e0, r0⟩ := hr c0 (tris1 ++ tris2) t hidx
  obtain ⟨e1, r1⟩ := hr c1 tris1 t hi1
  obtain ⟨t0, s0, d0, w0, p0⟩ := drawTris_pix c0 shade _ W H _ r0 t
    { calls := 1, primsI := (tris1 ++ tris2).length, vertsI := verts.length } hwf
  obtain ⟨ta, s1, d1, w1, p1⟩ := drawTris_pix c1 shade _ W H _ r1 t
    { calls := 1, primsI := tris1.length, vertsI := verts.length } hwf
  obtain ⟨e2, r2⟩ := hr c2 tris2 ta hi2
  obtain ⟨tb, s2, d2, w2, p2⟩ := drawTris_pix c2 shade _ W H _ r2 ta
    { calls := 1, primsI := tris2.length, vertsI := verts.length } w1
  have hperm : (renderList c0 verts (tris1 ++ tris2)).Perm (renderList c1 verts tris1 ++ renderList c2 verts tris2) := by
    have hc : (clipTris ((tris1 ++ tris2).filterMap (mkTri (verts.map fun (p, a) => mkVert p a)))) =
        clipTris (tris1.filterMap (mkTri (verts.map fun (p, a) => mkVert p a))) ++
        clipTris (tris2.filterMap (mkTri (verts.map fun (p, a) => mkVert p a))) := by
      simp only [clipTris, List.filterMap_append, List.flatMap_append]
    have hs : ∀ (c : Ctx) (l : List (Tri K)),
        (match c.depthSort with | some d => depthSorted d l | none => l).Perm l := by
      intro c l
      cases c.depthSort with
      | none => exact List.Perm.refl _
      | some d => exact depthSorted_perm d l
    unfold renderList
    simp only
    refine (hs c0 _).trans ?_
    rw [hc]
    exact List.Perm.append (hs c1 _).symm (hs c2 _).symm
  have : t0 = tb := by
    apply target_ext t0 tb W H w0 w2
    intro x y hx hy
    rw [p0 x y, p2 x y, p1 x y, Option.map_map]
    congr 1
    funext s
    simp only [Function.comp]
    rw [← triFrags_ctx c0 c1 hfc1, ← triFrags_ctx c0 c2 hfc2, ← pixelFold_ctx c0 c1 h0 h1, ← pixelFold_ctx c0 c2 h0 h2,
      ← fold_append]
    have hfr : triFrags c0 (viewportMat L R T B) (renderList c1 verts tris1) x y ++
        triFrags c0 (viewportMat L R T B) (renderList c2 verts tris2) x y =
        triFrags c0 (viewportMat L R T B) (renderList c1 verts tris1 ++ renderList c2 verts tris2) x y := by
      simp only [triFrags, List.flatMap_append]
    rw [hfr]
    exact zbuf_perm c0 h0 shade _ _ (triFrags_perm c0 _ hperm x y) (hties x y hx hy) s
  subst this
  exact ⟨t0, ta, s0, s1, s2, e0 ▸ d0, e1 ▸ d1, e2 ▸ d2⟩

/-! ### Non-vacuity: a concrete scene meets every hypothesis of `render_perm` -/

namespace NV
def pz (w : Rat) : Rat := 11 / 9 * w - 20 / 9      -- z of `perspective(_, _, 1.0..10.0)`
/-- Two overlapping triangles at w = 2 and w = 4 (reciprocal depths ½ and ¼). -/
def vs : List (Vec4 Rat × List Rat) :=
  [(⟨-2, -2, pz 2, 2⟩, [1]), (⟨2, -2, pz 2, 2⟩, [1]), (⟨-2, 2, pz 2, 2⟩, [1]),
   (⟨-4, -4, pz 4, 4⟩, [2]), (⟨4, 4, pz 4, 4⟩, [2]), (⟨-4, 4, pz 4, 4⟩, [2])]
def sh : List Rat → Option Nat := fun f => some (f.getD 3 0).floor.toNat
def c0 : Ctx := { faceCull := none }
def c1 : Ctx := { faceCull := none, depthSort := some .frontToBack }
def t0 : Target Rat Nat := ⟨List.replicate 4 (List.replicate 4 0), some (List.replicate 4 (List.replicate 4 0))⟩

theorem noTies : ∀ x y, x < 4 → y < 4 →
    NoTies sh (triFrags c0 (viewportMat 0 4 0 4) (renderList c0 vs [(0, 1, 2), (3, 4, 5)]) x y) := by
  intro x y hx hy
  unfold NoTies
  interval_cases x <;> interval_cases y <;> decide +kernel

/-- The hypotheses of `render_perm` hold for this scene, the two orders and two depth_sort settings. -/
example : ∃ t' s1 s2, render c0 sh (viewportMat 0 4 0 4) [(0, 1, 2), (3, 4, 5)] vs t0 = .ok (t', s1) ∧
    render c1 sh (viewportMat 0 4 0 4) [(3, 4, 5), (0, 1, 2)] vs t0 = .ok (t', s2) := by
  refine render_perm _ (perspInv (11 / 9 : Rat) (-20 / 9) (by norm_num) (by norm_num)) c0 c1 ⟨rfl, rfl, rfl⟩ ⟨rfl, rfl, rfl⟩ rfl
    sh 0 4 0 4 4 4 1 (by omega) (by omega) (by omega) (by omega) _ _ (List.Perm.swap _ _ _) vs (by decide) ?_ t0 ?_ noTies
  · intro v hv
    simp only [vs, List.mem_cons, List.mem_nil_iff, or_false] at hv
    rcases hv with rfl | rfl | rfl | rfl | rfl | rfl <;> refine ⟨?_, rfl⟩ <;> norm_num [pz]
  · refine ⟨⟨rfl, by decide, ?_⟩, rfl⟩
    intro d hd
    cases hd
    exact ⟨rfl, by decide⟩

/-- … and the overlap pixel (1,1) really receives a fragment from each triangle. -/
example : (triFrags c0 (viewportMat 0 4 0 4) (renderList c0 vs [(0, 1, 2), (3, 4, 5)]) 1 1).length = 2 := by
  decide +kernel
end NV

end Retro.Props.C06
