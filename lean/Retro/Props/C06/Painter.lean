/-
C06, painter side: back-to-front depth sorting orders the triangle list by summed clip-space z, and
for depth-disjoint triangles under a perspective relation z = e22·w + e23 (e22 > 0) that is the order of
their reciprocal-depth ranges.
-/
import Retro.Props.C06.Buffer

namespace Retro.Props.C06
open Retro Retro.Clip Retro.Raster Retro.Render

variable {K : Type} [Field K] [LinearOrder K] [IsStrictOrderedRing K] [FloorRing K] {C : Type}
attribute [local instance] Retro.Lemmas.Raster.hasFloorK Retro.Lemmas.Raster.hasToNatK

/-- Inserting into a list sorted by descending key keeps it sorted. -/
theorem insertBy_sorted_desc (t : Tri K) (us : List (Tri K))
    (h : us.Pairwise (fun a b => sortKey b ≤ sortKey a)) :
    (insertBy (fun t u => decide (sortKey u < sortKey t)) t us).Pairwise (fun a b => sortKey b ≤ sortKey a) := by
  induction us with
  | nil => simp [insertBy]
  | cons u us ih =>
    simp only [insertBy]
    by_cases hlt : sortKey u < sortKey t
    · simp only [hlt, decide_true, if_true]
      refine List.Pairwise.cons ?_ h
      intro b hb
      rcases List.mem_cons.mp hb with rfl | hb
      · exact le_of_lt hlt
      · exact le_trans (List.rel_of_pairwise_cons h hb) (le_of_lt hlt)
    · simp only [hlt, decide_false, Bool.false_eq_true, if_false]
      refine List.Pairwise.cons ?_ (ih (List.Pairwise.of_cons h))
      intro b hb
      have hperm := insertBy_perm (fun t u => decide (sortKey u < sortKey t)) t us
      rcases List.mem_cons.mp (hperm.subset hb) with rfl | hb'
      · exact not_lt.mp hlt
      · exact List.rel_of_pairwise_cons h hb'

/-- **`depth_sort: BackToFront` sorts by descending summed clip z** (farthest first). -/
theorem depthSorted_backToFront_sorted (ts : List (Tri K)) :
    (depthSorted .backToFront ts).Pairwise (fun a b => sortKey b ≤ sortKey a) := by
  unfold depthSorted
  simp only
  induction ts with
  | nil => simp
  | cons t ts ih => exact insertBy_sorted_desc t _ ih

/-- Inserting into a list sorted by ascending key keeps it sorted. -/
theorem insertBy_sorted_asc (t : Tri K) (us : List (Tri K))
    (h : us.Pairwise (fun a b => sortKey a ≤ sortKey b)) :
    (insertBy (fun t u => decide (sortKey t < sortKey u)) t us).Pairwise (fun a b => sortKey a ≤ sortKey b) := by
  induction us with
  | nil => simp [insertBy]
  | cons u us ih =>
    simp only [insertBy]
    by_cases hlt : sortKey t < sortKey u
    · simp only [hlt, decide_true, if_true]
      refine List.Pairwise.cons ?_ h
      intro b hb
      rcases List.mem_cons.mp hb with rfl | hb
      · exact le_of_lt hlt
      · exact le_trans (le_of_lt hlt) (List.rel_of_pairwise_cons h hb)
    · simp only [hlt, decide_false, Bool.false_eq_true, if_false]
      refine List.Pairwise.cons ?_ (ih (List.Pairwise.of_cons h))
      intro b hb
      have hperm := insertBy_perm (fun t u => decide (sortKey t < sortKey u)) t us
      rcases List.mem_cons.mp (hperm.subset hb) with rfl | hb'
      · exact not_lt.mp hlt
      · exact List.rel_of_pairwise_cons h hb'

/-- **`depth_sort: FrontToBack` sorts by ascending summed clip z** (nearest first). -/
theorem depthSorted_frontToBack_sorted (ts : List (Tri K)) :
    (depthSorted .frontToBack ts).Pairwise (fun a b => sortKey a ≤ sortKey b) := by
  unfold depthSorted
  simp only
  induction ts with
  | nil => simp
  | cons t ts ih => exact insertBy_sorted_asc t _ ih

/-- All three w of `t` are below all three w of `u` (t is entirely nearer than u). -/
def NearerThan (t u : Tri K) : Prop :=
  ∀ v ∈ [t.a, t.b, t.c], ∀ v' ∈ [u.a, u.b, u.c], v.pos.w < v'.pos.w

/-- Under a perspective relation z = e22·w + e23 with e22 > 0 the sort key is increasing in the w's:
an entirely nearer triangle has the strictly smaller key. -/
theorem sortKey_lt_of_nearer (e22 e23 : K) (h22 : 0 < e22) (t u : Tri K)
    (ht : ∀ v ∈ [t.a, t.b, t.c], v.pos.z = e22 * v.pos.w + e23)
    (hu : ∀ v ∈ [u.a, u.b, u.c], v.pos.z = e22 * v.pos.w + e23)
    (hn : NearerThan t u) : sortKey t < sortKey u := by
  unfold sortKey
  rw [ht t.a (by simp), ht t.b (by simp), ht t.c (by simp), hu u.a (by simp), hu u.b (by simp), hu u.c (by simp)]
  have h1 := hn t.a (by simp) u.a (by simp)
  have h2 := hn t.b (by simp) u.b (by simp)
  have h3 := hn t.c (by simp) u.c (by simp)
  nlinarith [mul_lt_mul_of_pos_left h1 h22, mul_lt_mul_of_pos_left h2 h22, mul_lt_mul_of_pos_left h3 h22]

/-- **Back-to-front order of depth-disjoint triangles.** If any two triangles of the list are depth
disjoint (one entirely nearer than the other), then in the back-to-front sorted list every triangle is
entirely FARTHER than all that follow it — whatever the submission order. -/
theorem backToFront_far_first (e22 e23 : K) (h22 : 0 < e22) (ts : List (Tri K))
    (hz : ∀ t ∈ ts, ∀ v ∈ [t.a, t.b, t.c], v.pos.z = e22 * v.pos.w + e23)
    (hdisj : ts.Pairwise (fun t u => NearerThan t u ∨ NearerThan u t)) :
    (depthSorted .backToFront ts).Pairwise (fun a b => NearerThan b a) := by
  have hperm := depthSorted_perm .backToFront ts
  have hs := depthSorted_backToFront_sorted ts
  have hd : (depthSorted .backToFront ts).Pairwise (fun t u => NearerThan t u ∨ NearerThan u t) :=
    hperm.symm.pairwise hdisj (fun h => h.symm)
  have hall := hs.and hd
  refine hall.imp_of_mem ?_
  intro a b ha hb ⟨hk, hor⟩
  rcases hor with h | h
  · exfalso
    have := sortKey_lt_of_nearer e22 e23 h22 a b (hz a (hperm.subset ha)) (hz b (hperm.subset hb)) h
    exact absurd hk (not_le.mpr this)
  · exact h

end Retro.Props.C06
