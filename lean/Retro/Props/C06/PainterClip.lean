/-
C06, second sentence, for whole `render` calls WITH clipping: with the depth test disabled and back-to-front
depth sorting enabled, a scene whose INPUT triangles occupy pairwise disjoint w ranges renders to the same
colour AND depth buffers as with the depth buffer — vertices may be anywhere on the perspective image
z = e22·w + e23 (behind the eye, outside the frustum, …).

  * `piece_w_between`       the w of every vertex of a clipped piece lies between the smallest and the largest
                            w of its input triangle (`clip_bary`: pieces are convex combinations)
  * `nearer_pieces`         pieces of an entirely nearer input triangle are entirely nearer
  * `pieces_far_first`      in the back-to-front sorted piece list every piece is a sibling of (same input
                            triangle) or entirely farther than every later one
  * `sibling_frag_eq`       two pieces of one input triangle show the SAME fragment at a pixel both cover
  * `noTies_of_weak_sorted` non-decreasing depth with "equal depth ⇒ equal fragment" has no ties
  * `render_painter`        the headline theorem
-/
import Retro.Props.C06.PainterScene
import Retro.Props.C01.VisibleRender

namespace Retro.Props.C06
open Retro Retro.Clip Retro.Raster Retro.Render Retro.Lemmas.Clip Retro.Lemmas.Raster Retro.Lemmas.Target
open Retro.Lemmas.Comb Retro.Props.C02 Retro.Props.C01

set_option linter.unusedSectionVars false

variable {K : Type} [Field K] [LinearOrder K] [IsStrictOrderedRing K] [FloorRing K] {C : Type}
attribute [local instance] hasFloorK hasToNatK

theorem conv_le_max (a b c x y z : K) (ha : 0 ≤ a) (hb : 0 ≤ b) (hc : 0 ≤ c) (hs : a + b + c = 1) :
    a * x + b * y + c * z ≤ max x (max y z) := by
  set M := max x (max y z)
  have h1 : a * x ≤ a * M := mul_le_mul_of_nonneg_left (le_max_left _ _) ha
  have h2 : b * y ≤ b * M := mul_le_mul_of_nonneg_left (le_trans (le_max_left _ _) (le_max_right _ _)) hb
  have h3 : c * z ≤ c * M := mul_le_mul_of_nonneg_left (le_trans (le_max_right _ _) (le_max_right _ _)) hc
  have : a * M + b * M + c * M = M := by rw [← add_mul, ← add_mul, hs, one_mul]
  linarith

theorem min_le_conv (a b c x y z : K) (ha : 0 ≤ a) (hb : 0 ≤ b) (hc : 0 ≤ c) (hs : a + b + c = 1) :
    min x (min y z) ≤ a * x + b * y + c * z := by
  set M := min x (min y z)
  have h1 : a * M ≤ a * x := mul_le_mul_of_nonneg_left (min_le_left _ _) ha
  have h2 : b * M ≤ b * y := mul_le_mul_of_nonneg_left (le_trans (min_le_right _ _) (min_le_left _ _)) hb
  have h3 : c * M ≤ c * z := mul_le_mul_of_nonneg_left (le_trans (min_le_right _ _) (min_le_right _ _)) hc
  have : a * M + b * M + c * M = M := by rw [← add_mul, ← add_mul, hs, one_mul]
  linarith

/-- **The w of a clipped piece stays inside the w range of its input triangle.** -/
theorem piece_w_between (t : Tri K)
    (hlen : t.a.attr.length = t.b.attr.length ∧ t.b.attr.length = t.c.attr.length)
    (tri : Tri K) (htri : tri ∈ clipTri t) (v : ClipVert K) (hv : v ∈ [tri.a, tri.b, tri.c]) :
    min t.a.pos.w (min t.b.pos.w t.c.pos.w) ≤ v.pos.w ∧ v.pos.w ≤ max t.a.pos.w (max t.b.pos.w t.c.pos.w) := by
  obtain ⟨a, b, c, ha, hb, hc, hs, hp, -⟩ := Retro.Props.C03.clip_bary t hlen tri htri v hv
  have e : v.pos.w = a * t.a.pos.w + b * t.b.pos.w + c * t.c.pos.w := by rw [hp]; rfl
  rw [e]
  exact ⟨min_le_conv a b c _ _ _ ha hb hc hs, conv_le_max a b c _ _ _ ha hb hc hs⟩

/-- **Pieces of depth-disjoint input triangles are depth disjoint.** -/
theorem nearer_pieces (t u : Tri K)
    (hlt : t.a.attr.length = t.b.attr.length ∧ t.b.attr.length = t.c.attr.length)
    (hlu : u.a.attr.length = u.b.attr.length ∧ u.b.attr.length = u.c.attr.length)
    (hn : NearerThan t u) (a b : Tri K) (ha : a ∈ clipTri t) (hb : b ∈ clipTri u) : NearerThan a b := by
  intro v hv v' hv'
  obtain ⟨-, h1⟩ := piece_w_between t hlt a ha v hv
  obtain ⟨h2, -⟩ := piece_w_between u hlu b hb v' hv'
  refine lt_of_le_of_lt h1 (lt_of_lt_of_le ?_ h2)
  rw [max_lt_iff, max_lt_iff, lt_min_iff, lt_min_iff, lt_min_iff, lt_min_iff, lt_min_iff, lt_min_iff]
  have k := fun x hx y hy => hn x hx y hy
  refine ⟨⟨?_, ?_, ?_⟩, ⟨?_, ?_, ?_⟩, ⟨?_, ?_, ?_⟩⟩ <;> exact k _ (by simp) _ (by simp)

/-- Two pieces of one input triangle of the list. -/
def SameInput (I : List (Tri K)) (a b : Tri K) : Prop := ∃ t ∈ I, a ∈ clipTri t ∧ b ∈ clipTri t

/-- Any two pieces of depth-disjoint input triangles are siblings or depth disjoint. -/
theorem pieces_rel (I : List (Tri K))
    (hlen : ∀ t ∈ I, t.a.attr.length = t.b.attr.length ∧ t.b.attr.length = t.c.attr.length)
    (hdisj : I.Pairwise (fun t u => NearerThan t u ∨ NearerThan u t)) :
    (clipTris I).Pairwise (fun a b => SameInput I a b ∨ NearerThan a b ∨ NearerThan b a) := by
  unfold clipTris
  rw [List.pairwise_flatMap]
  constructor
  · intro t ht
    exact List.pairwise_of_forall_mem_list fun a ha b hb => Or.inl ⟨t, ht, ha, hb⟩
  · refine hdisj.imp_of_mem ?_
    intro t u ht hu h a ha b hb
    rcases h with h | h
    · exact Or.inr (Or.inl (nearer_pieces t u (hlen t ht) (hlen u hu) h a b ha hb))
    · exact Or.inr (Or.inr (nearer_pieces u t (hlen u hu) (hlen t ht) h b a hb ha))

theorem sameInput_symm (I : List (Tri K)) (a b : Tri K) (h : SameInput I a b) : SameInput I b a := by
  obtain ⟨t, ht, ha, hb⟩ := h
  exact ⟨t, ht, hb, ha⟩

/-- **Back-to-front order of the clipped pieces.** In the back-to-front sorted piece list every piece is a
sibling of, or entirely FARTHER than, every piece that follows it. -/
theorem pieces_far_first (e22 e23 : K) (h22 : 0 < e22) (I : List (Tri K))
    (hlen : ∀ t ∈ I, t.a.attr.length = t.b.attr.length ∧ t.b.attr.length = t.c.attr.length)
    (hz : ∀ p ∈ clipTris I, ∀ v ∈ [p.a, p.b, p.c], v.pos.z = e22 * v.pos.w + e23)
    (hdisj : I.Pairwise (fun t u => NearerThan t u ∨ NearerThan u t)) :
    (depthSorted .backToFront (clipTris I)).Pairwise (fun a b => SameInput I a b ∨ NearerThan b a) := by
  have hperm := depthSorted_perm .backToFront (clipTris I)
  have hs := depthSorted_backToFront_sorted (clipTris I)
  have hd : (depthSorted .backToFront (clipTris I)).Pairwise
      (fun a b => SameInput I a b ∨ NearerThan a b ∨ NearerThan b a) :=
    hperm.symm.pairwise (pieces_rel I hlen hdisj) (fun h => by
      rcases h with h | h | h
      · exact Or.inl (sameInput_symm I _ _ h)
      · exact Or.inr (Or.inr h)
      · exact Or.inr (Or.inl h))
  refine (hs.and hd).imp_of_mem ?_
  intro a b ha hb ⟨hk, hor⟩
  rcases hor with h | h | h
  · exact Or.inl h
  · exfalso
    have := sortKey_lt_of_nearer e22 e23 h22 a b (hz a (hperm.subset ha)) (hz b (hperm.subset hb)) h
    exact absurd hk (not_le.mpr this)
  · exact Or.inr h

/-- Non-decreasing depth where equal depth means equal fragment: no ties. -/
theorem noTies_of_weak_sorted (shade : List K → Option C) (l : List (List K))
    (h : l.Pairwise (fun f g => nth2 f < nth2 g ∨ f = g)) : NoTies shade l := by
  induction l with
  | nil => intro f hf; cases hf
  | cons a l ih =>
    intro f hf g hg _ _ he
    rcases List.mem_cons.mp hf with rfl | hf' <;> rcases List.mem_cons.mp hg with rfl | hg'
    · rfl
    · rcases List.rel_of_pairwise_cons h hg' with h' | h'
      · exact absurd he (ne_of_lt h')
      · exact h'
    · rcases List.rel_of_pairwise_cons h hf' with h' | h'
      · exact absurd he.symm (ne_of_lt h')
      · exact h'.symm
    · exact ih (List.Pairwise.of_cons h) f hf' g hg' ‹_› ‹_› he

/-- **Two pieces of one input triangle show the same fragment** at a pixel whose centre both projections
contain: it is the fragment of the unique point of the input triangle's plane that projects to the centre. -/
theorem sibling_frag_eq (L R T B : Nat) (t : Tri K) (hwf : Retro.Props.C03.TriWF t)
    (hlen : t.a.attr.length = t.b.attr.length ∧ t.b.attr.length = t.c.attr.length) (a b : Tri K)
    (ha : a ∈ clipTri t) (hb : b ∈ clipTri t)
    (hwa : 0 < a.a.pos.w ∧ 0 < a.b.pos.w ∧ 0 < a.c.pos.w) (hwb : 0 < b.a.pos.w ∧ 0 < b.b.pos.w ∧ 0 < b.c.pos.w)
    (x y : Nat) (hia : InsideTri (viewportMat L R T B) a x y) (hib : InsideTri (viewportMat L R T B) b x y) :
    pixFrag (viewportMat L R T B) a x y = pixFrag (viewportMat L R T B) b x y := by
  rw [viewportMat_eq_vpMat] at *
  obtain ⟨q, -, hwq, hc, hf⟩ := inside_piece_visible_frag _ _ _ _ t hwf hlen a ha hwa.1 hwa.2.1 hwa.2.2 x y hia
  obtain ⟨q', -, hwq', hc', hf'⟩ := inside_piece_visible_frag _ _ _ _ t hwf hlen b hb hwb.1 hwb.2.1 hwb.2.2 x y hib
  obtain ⟨s, hrep, -, hO⟩ := Retro.Props.C03.clip_winding t hwf hlen a ha
  obtain ⟨-, hne⟩ := insideTri_nondeg _ _ _ _ t a s hrep hwa.1 hwa.2.1 hwa.2.2 hO x y hia
  have hdd := left_ne_zero_of_mul hne
  have hdet := right_ne_zero_of_mul hne
  have e : q = q' := proj_bary_inj _ _ _ _ (left_ne_zero_of_mul hdd) (right_ne_zero_of_mul hdd) t hdet q q'
    hwq.ne' hwq'.ne' (by rw [← hc, hc'])
  rw [hf, hf', e]

/-- **Painter = z-buffer for whole `render` calls, clipping allowed.** Clip-space vertices ANYWHERE on the
image of a perspective matrix (z = e22·w + e23, e22 > 0, e23 < 0: behind the eye, outside the frustum, …);
INPUT triangles pairwise depth disjoint (all three w of one below all three w of the other); a depth-buffered
target whose stored depths are ≤ 0 (cleared). Then `render` with the depth test DISABLED and
`depth_sort: BackToFront` returns exactly the colour and depth buffers that `render` returns in the z-buffer
configuration (any `depth_sort`), whatever the submission order and however the clipper splits the triangles. -/
theorem render_painter (e22 e23 : K) (h22 : 0 < e22) (h23 : e23 < 0)
    (cp cz : Ctx) (hp : Painter cp) (hsort : cp.depthSort = some .backToFront) (hz : ZBuf cz)
    (hfc : cp.faceCull = cz.faceCull) (shade : List K → Option C)
    (L R T B W H k : Nat) (hLR : L ≤ R) (hTB : T ≤ B) (hRW : R ≤ W) (hBH : B ≤ H)
    (tris : List (Nat × Nat × Nat)) (verts : List (Vec4 K × List K))
    (hidx : ∀ t ∈ tris, t.1 < verts.length ∧ t.2.1 < verts.length ∧ t.2.2 < verts.length)
    (hverts : ∀ v ∈ verts, v.1.z = e22 * v.1.w + e23 ∧ v.2.length = k)
    (hdisj : (inputTris verts tris).Pairwise (fun t u => NearerThan t u ∨ NearerThan u t))
    (t : Target K C) (hwf : WFD t W H) (hinit : ∀ x y c z, pix t x y = some (c, z) → z ≤ 0) :
    ∃ t' s1 s2, render cp shade (viewportMat L R T B) tris verts t = .ok (t', s1) ∧
      render cz shade (viewportMat L R T B) tris verts t = .ok (t', s2) := by
  have hQ := perspInv e22 e23 (by linarith) h23
  set I := inputTris verts tris with hI
  have hfacts := inputTris_facts (fun v : Vec4 K => v.z = e22 * v.w + e23) k verts tris hverts
  have hIv := inputTris_verts (fun v : Vec4 K => v.z = e22 * v.w + e23) k verts tris hverts
  have hgeo := clipped_geom _ hQ L R T B k hLR hTB I hIv
  have hlenI : ∀ t ∈ I, t.a.attr.length = t.b.attr.length ∧ t.b.attr.length = t.c.attr.length :=
    fun t ht => (hfacts t ht).2.2
  -- pieces stay on the perspective image
  have hzP : ∀ p ∈ clipTris I, ∀ v ∈ [p.a, p.b, p.c], v.pos.z = e22 * v.pos.w + e23 := by
    intro p hp' v hv
    obtain ⟨t0, ht0, hp0⟩ := List.mem_flatMap.mp hp'
    obtain ⟨-, hq0, -⟩ := hfacts t0 ht0
    exact clip_keeps_inv _ hQ t0 hq0.1 hq0.2.1 hq0.2.2 p hp0 v hv
  have hLp : renderList cp verts tris = depthSorted .backToFront (clipTris I) := by
    unfold renderList
    simp only [hsort]
    rfl
  have hfar := pieces_far_first e22 e23 h22 I hlenI hzP hdisj
  have hpermP : (depthSorted .backToFront (clipTris I)).Perm (clipTris I) := depthSorted_perm _ _
  have hgeoP : ∀ tri ∈ depthSorted .backToFront (clipTris I), ScreenXY (viewportMat L R T B) tri :=
    fun tri htri => (hgeo tri (hpermP.subset htri)).1
  obtain ⟨e1, r1⟩ := render_eq_drawTris _ hQ cp shade L R T B W H k hLR hTB hRW hBH tris verts hidx hverts t
  obtain ⟨e2, r2⟩ := render_eq_drawTris _ hQ cz shade L R T B W H k hLR hTB hRW hBH tris verts hidx hverts t
  rw [e1, e2]
  obtain ⟨t1, s1, d1, w1, p1⟩ := drawTris_pix cp shade _ W H _ r1 t
    { calls := 1, primsI := tris.length, vertsI := verts.length } hwf
  obtain ⟨t2, s2, d2, w2, p2⟩ := drawTris_pix cz shade _ W H _ r2 t
    { calls := 1, primsI := tris.length, vertsI := verts.length } hwf
  have : t1 = t2 := by
    apply target_ext t1 t2 W H w1 w2
    intro x y _ _
    rw [p1 x y, p2 x y]
    cases hpx : pix t x y with
    | none => rfl
    | some s =>
      obtain ⟨c, z⟩ := s
      simp only [Option.map_some, Option.some.injEq]
      have hz0 : z ≤ 0 := hinit x y c z hpx
      set m := (viewportMat L R T B : Mat4 K) with hm
      set S := depthSorted .backToFront (clipTris I) with hS
      set FP := triFrags cp m (renderList cp verts tris) x y with hFP
      have hFPeq : FP = S.flatMap fun tri =>
          if VisibleAt cp m tri x y then [pixFrag m tri x y] else [] := by
        rw [hFP, hLp]
        exact triFrags_eq cp _ _ hgeoP x y
      have hsortedF : FP.Pairwise (fun f g => nth2 f < nth2 g ∨ f = g) := by
        rw [hFPeq, List.pairwise_flatMap]
        constructor
        · intro tri _
          split <;> simp
        · refine hfar.imp_of_mem ?_
          intro a b ha hb hrel fa hfa fb hfb
          by_cases va : VisibleAt cp m a x y
          · by_cases vb : VisibleAt cp m b x y
            · rw [if_pos va, List.mem_singleton] at hfa
              rw [if_pos vb, List.mem_singleton] at hfb
              subst hfa hfb
              have ga := hgeo a (hpermP.subset ha)
              have gb := hgeo b (hpermP.subset hb)
              rcases hrel with ⟨t0, ht0, ha0, hb0⟩ | hnear
              · right
                exact sibling_frag_eq L R T B t0 (hfacts t0 ht0).1 (hlenI t0 ht0) a b ha0 hb0 ga.2.1 gb.2.1
                  x y va.2 vb.2
              · left
                exact depth_lt_of_nearer L R T B a b ga.1.1 gb.1.1 ga.2.1 gb.2.1 hnear x y va.2 vb.2
            · rw [if_neg vb] at hfb; cases hfb
          · rw [if_neg va] at hfa; cases hfa
      have hposF : ∀ f ∈ FP, shade f = none ∨ (c, z).2 < nth2 f ∨ (shade f = some (c, z).1 ∧ nth2 f = (c, z).2) := by
        intro f hf
        rw [hFPeq, List.mem_flatMap] at hf
        obtain ⟨tri, htri, hf⟩ := hf
        by_cases v : VisibleAt cp m tri x y
        · rw [if_pos v, List.mem_singleton] at hf
          subst hf
          have g := hgeo tri (hpermP.subset htri)
          obtain ⟨hmin, -⟩ := pixFrag_depth_between L R T B tri g.1.1 x y v.2
          have hpos : 0 < min (1 / tri.a.pos.w) (min (1 / tri.b.pos.w) (1 / tri.c.pos.w)) := by
            rw [lt_min_iff, lt_min_iff]
            exact ⟨one_div_pos.mpr g.2.1.1, one_div_pos.mpr g.2.1.2.1, one_div_pos.mpr g.2.1.2.2⟩
          exact Or.inr (Or.inl (lt_of_le_of_lt hz0 (lt_of_lt_of_le hpos hmin)))
        · rw [if_neg v] at hf; cases hf
      have hperm : FP.Perm (triFrags cz m (renderList cz verts tris) x y) := by
        rw [← triFrags_ctx cp cz hfc]
        exact triFrags_perm cp _ (renderList_perm cp cz verts (List.Perm.refl tris)) x y
      rw [painter_eq_zbuf_weak cp cz hp hz shade FP hsortedF (c, z) hposF]
      exact zbuf_perm cz hz shade _ _ hperm (noTies_of_weak_sorted shade FP hsortedF) (c, z)
  subst this
  exact ⟨t1, s1, s2, d1, d2⟩

/-! ### Non-vacuity: the scene `NV` with the near triangle pushed through the right frustum plane and with one
vertex BEHIND the eye (w = −1); the clipper splits it, and every hypothesis of `render_painter` holds. -/

namespace NVC
open NV NVP
def vs' : List (Vec4 Rat × List Rat) :=
  [(⟨-2, -2, pz 2, 2⟩, [1]), (⟨6, -2, pz 2, 2⟩, [1]), (⟨-2, 3, pz (-1), -1⟩, [1]),
   (⟨-4, -4, pz 4, 4⟩, [2]), (⟨4, 4, pz 4, 4⟩, [2]), (⟨-4, 4, pz 4, 4⟩, [2])]

/-- the near triangle is really clipped: two input triangles, more than two pieces -/
example : 2 < (clipTris (inputTris vs' [(3, 4, 5), (0, 1, 2)])).length := by decide +kernel

example : ∃ t' s1 s2, render cp sh (viewportMat 0 4 0 4) [(3, 4, 5), (0, 1, 2)] vs' t0 = .ok (t', s1) ∧
    render c0 sh (viewportMat 0 4 0 4) [(3, 4, 5), (0, 1, 2)] vs' t0 = .ok (t', s2) := by
  refine render_painter (11 / 9 : Rat) (-20 / 9) (by norm_num) (by norm_num) cp c0
    ⟨rfl, rfl, rfl⟩ rfl ⟨rfl, rfl, rfl⟩ rfl sh 0 4 0 4 4 4 1 (by omega) (by omega) (by omega) (by omega)
    _ vs' (by decide) ?_ ?_ t0 ?_ t0_depth
  · intro v hv
    simp only [vs', List.mem_cons, List.mem_nil_iff, or_false] at hv
    rcases hv with rfl | rfl | rfl | rfl | rfl | rfl <;> refine ⟨?_, rfl⟩ <;> norm_num [pz]
  · decide +kernel
  · refine ⟨⟨rfl, by decide, ?_⟩, rfl⟩
    intro d hd
    cases hd
    exact ⟨rfl, by decide⟩
/-- … and pixel (0,0) really receives a fragment of the far triangle and one of a piece of the clipped one. -/
example : (triFrags cp (viewportMat 0 4 0 4) (renderList cp vs' [(3, 4, 5), (0, 1, 2)]) 0 0).length = 2 := by
  decide +kernel
end NVC

end Retro.Props.C06
