/-
C06, second sentence, for whole `render` calls: with the depth test disabled and back-to-front depth
sorting enabled, a scene whose triangles occupy pairwise disjoint depth ranges renders to the same colour
AND depth buffers as with the depth buffer — for scenes that need no clipping (every vertex inside the
frustum). `render_painter_unclipped_partial`: the clipped case is not covered (pieces of one input
triangle share depth ranges; it needs C03's non-overlap of the pieces).
-/
import Retro.Props.C06.Painter
import Retro.Props.C01.Ideal
import Mathlib.Tactic.IntervalCases

namespace Retro.Props.C06
open Retro Retro.Clip Retro.Raster Retro.Render Retro.Lemmas.Clip Retro.Lemmas.Raster Retro.Lemmas.Target
open Retro.Props.C02 Retro.Props.C01

variable {K : Type} [Field K] [LinearOrder K] [IsStrictOrderedRing K] [FloorRing K] {C : Type}
attribute [local instance] hasFloorK hasToNatK

/-- The depth slot of a screen tuple produced by the library's viewport matrix is 1/w. -/
theorem nth2_toScreen_viewport (L R T B : Nat) (v : ClipVert K) :
    nth2 (toScreen (viewportMat L R T B) v) = 1 / v.pos.w := by
  rw [viewportMat_eq_vpMat]
  unfold vpMat
  rw [toScreen_spec]
  rfl

/-- The ideal fragment of a triangle at a pixel inside its projection has a depth between the smallest
and the largest 1/w of its vertices. -/
theorem pixFrag_depth_between (L R T B : Nat) (tri : Tri K) (h : ScreenY (viewportMat L R T B) tri) (x y : Nat)
    (hin : InsideTri (viewportMat L R T B) tri x y) :
    min (1 / tri.a.pos.w) (min (1 / tri.b.pos.w) (1 / tri.c.pos.w)) ≤ nth2 (pixFrag (viewportMat L R T B) tri x y) ∧
    nth2 (pixFrag (viewportMat L R T B) tri x y) ≤ max (1 / tri.a.pos.w) (max (1 / tri.b.pos.w) (1 / tri.c.pos.w)) := by
  obtain ⟨la, lb, lc⟩ := screen_lengths _ tri h
  have := frag_depth_between (toScreen (viewportMat L R T B) tri.a) (toScreen (viewportMat L R T B) tri.b)
    (toScreen (viewportMat L R T B) tri.c) (by rw [la, lb]) (by rw [lb, lc]) x y hin
  rw [nth2_toScreen_viewport, nth2_toScreen_viewport, nth2_toScreen_viewport] at this
  exact this

/-- A triangle entirely nearer than another (positive w) has strictly larger fragment depths at any pixel
both cover. -/
theorem depth_lt_of_nearer (L R T B : Nat) (a b : Tri K)
    (ha : ScreenY (viewportMat L R T B) a) (hb : ScreenY (viewportMat L R T B) b)
    (hwa : 0 < a.a.pos.w ∧ 0 < a.b.pos.w ∧ 0 < a.c.pos.w) (hwb : 0 < b.a.pos.w ∧ 0 < b.b.pos.w ∧ 0 < b.c.pos.w)
    (hn : NearerThan b a) (x y : Nat)
    (hia : InsideTri (viewportMat L R T B) a x y) (hib : InsideTri (viewportMat L R T B) b x y) :
    nth2 (pixFrag (viewportMat L R T B) a x y) < nth2 (pixFrag (viewportMat L R T B) b x y) := by
  obtain ⟨-, hmax⟩ := pixFrag_depth_between L R T B a ha x y hia
  obtain ⟨hmin, -⟩ := pixFrag_depth_between L R T B b hb x y hib
  refine lt_of_le_of_lt hmax (lt_of_lt_of_le ?_ hmin)
  -- every 1/w of a is below every 1/w of b
  have key : ∀ v ∈ [a.a, a.b, a.c], ∀ v' ∈ [b.a, b.b, b.c], 0 < v.pos.w → 0 < v'.pos.w →
      1 / v.pos.w < 1 / v'.pos.w := by
    intro v hv v' hv' h0 h0'
    exact one_div_lt_one_div_of_lt h0' (hn v' hv' v hv)
  rw [max_lt_iff, max_lt_iff, lt_min_iff, lt_min_iff, lt_min_iff, lt_min_iff, lt_min_iff, lt_min_iff]
  refine ⟨⟨?_, ?_, ?_⟩, ⟨?_, ?_, ?_⟩, ⟨?_, ?_, ?_⟩⟩ <;>
    first
      | exact key _ (by simp) _ (by simp) hwa.1 hwb.1
      | exact key _ (by simp) _ (by simp) hwa.1 hwb.2.1
      | exact key _ (by simp) _ (by simp) hwa.1 hwb.2.2
      | exact key _ (by simp) _ (by simp) hwa.2.1 hwb.1
      | exact key _ (by simp) _ (by simp) hwa.2.1 hwb.2.1
      | exact key _ (by simp) _ (by simp) hwa.2.1 hwb.2.2
      | exact key _ (by simp) _ (by simp) hwa.2.2 hwb.1
      | exact key _ (by simp) _ (by simp) hwa.2.2 hwb.2.1
      | exact key _ (by simp) _ (by simp) hwa.2.2 hwb.2.2

/-- A strictly depth-sorted fragment list has no exact depth ties. -/
theorem noTies_of_sorted (shade : List K → Option C) (l : List (List K))
    (h : l.Pairwise (fun f g => nth2 f < nth2 g)) : NoTies shade l := by
  induction l with
  | nil => intro f hf; cases hf
  | cons a l ih =>
    intro f hf g hg _ _ he
    rcases List.mem_cons.mp hf with rfl | hf' <;> rcases List.mem_cons.mp hg with rfl | hg'
    · rfl
    · exact absurd he (ne_of_lt (List.rel_of_pairwise_cons h hg'))
    · exact absurd he.symm (ne_of_lt (List.rel_of_pairwise_cons h hf'))
    · exact ih (List.Pairwise.of_cons h) f hf' g hg' ‹_› ‹_› he

/-- **Painter = z-buffer for whole `render` calls** (scenes that need no clipping). Clip-space vertices on
the image of a perspective matrix (z = e22·w + e23, e22 > 0, e23 < 0), all inside the frustum; input
triangles pairwise depth disjoint (one entirely nearer than the other); a depth-buffered target whose
stored depths are ≤ 0 (cleared). Then `render` with the depth test DISABLED and `depth_sort: BackToFront`
returns exactly the colour and depth buffers that `render` returns in the z-buffer configuration (any
`depth_sort`), whatever the submission order. PARTIAL: scenes with triangles that the clipper splits are
not covered. -/
theorem render_painter_unclipped_partial (e22 e23 : K) (h22 : 0 < e22) (h23 : e23 < 0)
    (cp cz : Ctx) (hp : Painter cp) (hsort : cp.depthSort = some .backToFront) (hz : ZBuf cz)
    (hfc : cp.faceCull = cz.faceCull) (shade : List K → Option C)
    (L R T B W H k : Nat) (hLR : L ≤ R) (hTB : T ≤ B) (hRW : R ≤ W) (hBH : B ≤ H)
    (tris : List (Nat × Nat × Nat)) (verts : List (Vec4 K × List K))
    (hidx : ∀ t ∈ tris, t.1 < verts.length ∧ t.2.1 < verts.length ∧ t.2.2 < verts.length)
    (hverts : ∀ v ∈ verts, v.1.z = e22 * v.1.w + e23 ∧ v.2.length = k)
    (hvis : ∀ v ∈ verts, Retro.Props.C03.Inside v.1)
    (hdisj : (inputTris verts tris).Pairwise (fun t u => NearerThan t u ∨ NearerThan u t))
    (t : Target K C) (hwf : WFD t W H) (hinit : ∀ x y c z, pix t x y = some (c, z) → z ≤ 0) :
    ∃ t' s1 s2, render cp shade (viewportMat L R T B) tris verts t = .ok (t', s1) ∧
      render cz shade (viewportMat L R T B) tris verts t = .ok (t', s2) := by
  have hQ := perspInv e22 e23 (by linarith) h23
  set I := inputTris verts tris with hI
  have hIv := inputTris_verts (fun v : Vec4 K => v.z = e22 * v.w + e23) k verts tris hverts
  -- every input triangle is wholly inside: nothing is clipped
  have hins : ∀ t ∈ I, Retro.Props.C03.TriWF t ∧ ∀ v ∈ Retro.Props.C03.triVerts t, Retro.Props.C03.Inside v.pos := by
    intro tr htr
    refine ⟨⟨(hIv tr htr _ (by simp)).1, (hIv tr htr _ (by simp)).1, (hIv tr htr _ (by simp)).1⟩, ?_⟩
    intro v hv
    obtain ⟨ijk, -, hmk⟩ := List.mem_filterMap.mp htr
    have hv' := mkTri_mem _ ijk tr hmk v (by simpa [Retro.Props.C03.triVerts] using hv)
    obtain ⟨pa, hpa, rfl⟩ := List.mem_map.mp hv'
    exact hvis pa hpa
  have hclip : clipTris I = I := clipTris_visible I hins
  have hgeo := clipped_geom _ hQ L R T B k hLR hTB I hIv
  rw [hclip] at hgeo
  -- the painter's draw list: the input triangles, farthest first
  have hLp : renderList cp verts tris = depthSorted .backToFront I := by
    unfold renderList
    simp only [hsort]
    exact congrArg _ hclip
  have hfar := backToFront_far_first e22 e23 h22 I (fun tr htr v hv => (hIv tr htr v hv).2.1) hdisj
  have hpermP : (depthSorted .backToFront I).Perm I := depthSorted_perm _ _
  have hgeoP : ∀ tri ∈ depthSorted .backToFront I, ScreenXY (viewportMat L R T B) tri :=
    fun tri htri => (hgeo tri (hpermP.subset htri)).1
  obtain ⟨e1, r1⟩ := render_eq_drawTris _ hQ cp shade L R T B W H k hLR hTB hRW hBH tris verts hidx hverts t
  obtain ⟨e2, r2⟩ := render_eq_drawTris _ hQ cz shade L R T B W H k hLR hTB hRW hBH tris verts hidx hverts t
  rw [e1, e2]
  obtain ⟨t1, s1, d1, w1, p1⟩ := drawTris_pix cp shade _ W H _ r1 t
    { calls := 1, primsI := tris.length, vertsI := verts.length } hwf
  obtain ⟨t2, s2, d2, w2, p2⟩ := drawTris_pix cz shade _ W H _ r2 t
    { calls := 1, primsI := tris.length, vertsI := verts.length } hwf
  have : t1 = t2 := by
    apply target_ext t1 t2 W H w1 w2
    intro x y _ _
    rw [p1 x y, p2 x y]
    cases hpx : pix t x y with
    | none => rfl
    | some s =>
      obtain ⟨c, z⟩ := s
      simp only [Option.map_some, Option.some.injEq]
      have hz0 : z ≤ 0 := hinit x y c z hpx
      -- the painter's fragment list at this pixel, strictly increasing in depth
      set FP := triFrags cp (viewportMat L R T B) (renderList cp verts tris) x y with hFP
      have hFPeq : FP = (depthSorted .backToFront I).flatMap fun tri =>
          if VisibleAt cp (viewportMat L R T B) tri x y then [pixFrag (viewportMat L R T B) tri x y] else [] := by
        rw [hFP, hLp]
        exact triFrags_eq cp _ _ hgeoP x y
      have hsortedF : FP.Pairwise (fun f g => nth2 f < nth2 g) := by
        rw [hFPeq, List.pairwise_flatMap]
        constructor
        · intro tri _
          split <;> simp
        · refine hfar.imp_of_mem ?_
          intro a b ha hb hnear fa hfa fb hfb
          by_cases va : VisibleAt cp (viewportMat L R T B) a x y
          · by_cases vb : VisibleAt cp (viewportMat L R T B) b x y
            · rw [if_pos va, List.mem_singleton] at hfa
              rw [if_pos vb, List.mem_singleton] at hfb
              subst hfa hfb
              have ga := hgeo a (hpermP.subset ha)
              have gb := hgeo b (hpermP.subset hb)
              exact depth_lt_of_nearer L R T B a b ga.1.1 gb.1.1 ga.2.1 gb.2.1 hnear x y va.2 vb.2
            · rw [if_neg vb] at hfb; cases hfb
          · rw [if_neg va] at hfa; cases hfa
      have hposF : ∀ f ∈ FP, z < nth2 f := by
        intro f hf
        rw [hFPeq, List.mem_flatMap] at hf
        obtain ⟨tri, htri, hf⟩ := hf
        by_cases v : VisibleAt cp (viewportMat L R T B) tri x y
        · rw [if_pos v, List.mem_singleton] at hf
          subst hf
          have g := hgeo tri (hpermP.subset htri)
          obtain ⟨hmin, -⟩ := pixFrag_depth_between L R T B tri g.1.1 x y v.2
          have hpos : 0 < min (1 / tri.a.pos.w) (min (1 / tri.b.pos.w) (1 / tri.c.pos.w)) := by
            rw [lt_min_iff, lt_min_iff]
            exact ⟨one_div_pos.mpr g.2.1.1, one_div_pos.mpr g.2.1.2.1, one_div_pos.mpr g.2.1.2.2⟩
          exact lt_of_le_of_lt hz0 (lt_of_lt_of_le hpos hmin)
        · rw [if_neg v] at hf; cases hf
      -- painter on FP = z-buffer on FP = z-buffer on its permutation FZ
      have hperm : FP.Perm (triFrags cz (viewportMat L R T B) (renderList cz verts tris) x y) := by
        rw [← triFrags_ctx cp cz hfc]
        exact triFrags_perm cp _ (renderList_perm cp cz verts (List.Perm.refl tris)) x y
      rw [painter_eq_zbuf cp cz hp hz shade FP hsortedF (c, z) hposF]
      exact zbuf_perm cz hz shade _ _ hperm (noTies_of_sorted shade FP hsortedF) (c, z)
  subst this
  exact ⟨t1, s1, s2, d1, d2⟩

/-! ### Non-vacuity: the two-triangle scene `NV` (w = 2 in front of w = 4) meets every hypothesis -/

namespace NVP
open NV
def cp : Ctx := { faceCull := none, depthTest := none, depthSort := some .backToFront }

instance decNearerThan (t u : Tri K) : Decidable (NearerThan t u) := by unfold NearerThan; infer_instance

theorem t0_depth (x y : Nat) (c : Nat) (z : Rat) (h : pix t0 x y = some (c, z)) : z ≤ 0 := by
  have hz : pixZ t0 x y = some z := by
    unfold pix at h
    cases hc : pixC t0 x y <;> cases hz : pixZ t0 x y <;> simp [hc, hz] at h
    rw [h.2]
  simp only [pixZ, t0, Option.bind_some, List.getElem?_replicate] at hz
  split_ifs at hz
  · simp only [Option.bind_some, List.getElem?_replicate] at hz
    split_ifs at hz
    · simp only [Option.some.injEq] at hz; rw [← hz]
  · cases hz

example : ∃ t' s1 s2, render cp sh (viewportMat 0 4 0 4) [(3, 4, 5), (0, 1, 2)] vs t0 = .ok (t', s1) ∧
    render c0 sh (viewportMat 0 4 0 4) [(3, 4, 5), (0, 1, 2)] vs t0 = .ok (t', s2) := by
  refine render_painter_unclipped_partial (11 / 9 : Rat) (-20 / 9) (by norm_num) (by norm_num) cp c0
    ⟨rfl, rfl, rfl⟩ rfl ⟨rfl, rfl, rfl⟩ rfl sh 0 4 0 4 4 4 1 (by omega) (by omega) (by omega) (by omega)
    _ vs (by decide) ?_ ?_ ?_ t0 ?_ t0_depth
  · intro v hv
    simp only [vs, List.mem_cons, List.mem_nil_iff, or_false] at hv
    rcases hv with rfl | rfl | rfl | rfl | rfl | rfl <;> refine ⟨?_, rfl⟩ <;> norm_num [pz]
  · intro v hv
    simp only [vs, List.mem_cons, List.mem_nil_iff, or_false] at hv
    rw [Retro.Props.C03.inside_iff]
    rcases hv with rfl | rfl | rfl | rfl | rfl | rfl <;> norm_num [pz]
  · decide +kernel
  · refine ⟨⟨rfl, by decide, ?_⟩, rfl⟩
    intro d hd
    cases hd
    exact ⟨rfl, by decide⟩
end NVP

end Retro.Props.C06
