/-
C06 — Hidden-surface removal is independent of submission order.

Theorems about the per-pixel function the model (and, by correspondence, target.rs:57-75) applies
to every fragment, `Retro.Render.shadeFrag`, folded over the fragments that reach one pixel, with
the depth test `curr < new` and both writes enabled:

  * `zbuf_step`        one fragment: replace (colour, depth) iff it is shaded and strictly nearer
  * `zbuf_nearest`     after any fragment list the pixel holds the colour and depth of a nearest
                       shaded fragment strictly nearer than the initial depth, or is unchanged
  * `zbuf_depth_max`   the final depth is the maximum of the initial depth and all shaded depths
  * `zbuf_perm`        for two permutations of a fragment list without exact depth ties among shaded
                       fragments, the final colour and depth are equal: submission order, the split into
                       render calls (a split only re-brackets the same fold: `fold_append`) and any
                       depth-sort setting (`depthSorted_perm`: sorting is a permutation) cannot matter
  * `span_pointwise`   the fragments of a span update only their own pixel (the span loop is a zip)
  * `painter_eq_zbuf`  with the depth test off, fragments arriving in strictly increasing reciprocal depth
                       (back to front) give exactly the z-buffer result
PARTIAL: the lift from "per pixel" to whole framebuffers and whole triangle lists (each triangle's
fragment set is independent of the other triangles; buffers are updated pointwise) is by inspection of
`rasterize`/`drawTris` and is not a theorem; it is checked exhaustively per scene by rendering every
permutation × call partition × depth_sort setting through the real code and comparing buffers bit for
bit. That back-to-front *triangle* order implies back-to-front *fragment* order needs disjoint depth
ranges (hypothesis of the property) and is likewise checked, not proved.
-/
import Retro.Model.Render
import Mathlib.Tactic.Linarith
import Mathlib.Algebra.Order.Field.Basic
import Mathlib.Data.List.Perm.Basic
import Mathlib.Order.Basic

namespace Retro.Props.C06
open Retro Retro.Clip Retro.Raster Retro.Render

variable {K : Type} [Field K] [LinearOrder K] [IsStrictOrderedRing K] [HasFloor K] [HasToNat K] {C : Type}

/-- The z-buffer configuration: `depth_test: Some(Less)`, colour and depth writes on. -/
def ZBuf (ctx : Ctx) : Prop := ctx.depthTest = some .less ∧ ctx.colorWrite = true ∧ ctx.depthWrite = true

/-- One fragment applied to a pixel's (colour, depth). -/
def step1 (ctx : Ctx) (shade : List K → Option C) (s : C × K) (f : List K) : C × K :=
  ((shadeFrag ctx shade f s.1 s.2).1, (shadeFrag ctx shade f s.1 s.2).2.1)

/-- All fragments that reach one pixel, in arrival order. -/
def pixelFold (ctx : Ctx) (shade : List K → Option C) (fs : List (List K)) (s : C × K) : C × K :=
  fs.foldl (step1 ctx shade) s

theorem zbuf_step (ctx : Ctx) (hz : ZBuf ctx) (shade : List K → Option C) (s : C × K) (f : List K) :
    step1 ctx shade s f =
      match shade f with
      | some col => if s.2 < nth2 f then (col, nth2 f) else s
      | none => s := by
  obtain ⟨h1, h2, h3⟩ := hz
  unfold step1 shadeFrag depthTest
  cases hs : shade f <;> by_cases hlt : s.2 < nth2 f <;> simp [h1, h2, h3, hlt]

/-- A split of the fragment stream into several calls only re-brackets the fold. -/
theorem fold_append (ctx : Ctx) (shade : List K → Option C) (l1 l2 : List (List K)) (s : C × K) :
    pixelFold ctx shade (l1 ++ l2) s = pixelFold ctx shade l2 (pixelFold ctx shade l1 s) := by
  simp [pixelFold, List.foldl_append]

/-- Two fragments commute unless both are shaded and have exactly equal depth. -/
theorem zbuf_comm (ctx : Ctx) (hz : ZBuf ctx) (shade : List K → Option C) (s : C × K) (f g : List K)
    (h : shade f = none ∨ shade g = none ∨ nth2 f ≠ nth2 g ∨ f = g) :
    step1 ctx shade (step1 ctx shade s f) g = step1 ctx shade (step1 ctx shade s g) f := by
  rcases h with h | h | h | h
  · simp [zbuf_step ctx hz, h]
  · simp [zbuf_step ctx hz, h]
  · cases hf : shade f with
    | none => simp [zbuf_step ctx hz, hf]
    | some cf =>
      cases hg : shade g with
      | none => simp [zbuf_step ctx hz, hg]
      | some cg =>
        simp only [zbuf_step ctx hz, hf, hg]
        rcases lt_or_gt_of_ne h with hlt | hgt
        · by_cases h1 : s.2 < nth2 f <;> by_cases h2 : s.2 < nth2 g <;>
            simp [h1, h2, hlt, not_lt.mpr hlt.le] <;> first | (exfalso; linarith) | skip
        · by_cases h1 : s.2 < nth2 f <;> by_cases h2 : s.2 < nth2 g <;>
            simp [h1, h2, hgt, not_lt.mpr hgt.le] <;> first | (exfalso; linarith) | skip
  · subst h; rfl

/-- **Order independence at a pixel.** If no two distinct shaded fragments have exactly equal depth,
every permutation of the fragments leaves the same colour and depth. -/
theorem zbuf_perm (ctx : Ctx) (hz : ZBuf ctx) (shade : List K → Option C) (l1 l2 : List (List K))
    (hp : l1.Perm l2)
    (hties : ∀ f ∈ l1, ∀ g ∈ l1, shade f ≠ none → shade g ≠ none → nth2 f = nth2 g → f = g)
    (s : C × K) : pixelFold ctx shade l1 s = pixelFold ctx shade l2 s := by
  unfold pixelFold
  apply List.Perm.foldl_eq' hp
  intro x hx y hy z
  apply zbuf_comm ctx hz shade z x y
  by_cases h1 : shade x = none
  · exact Or.inl h1
  · by_cases h2 : shade y = none
    · exact Or.inr (Or.inl h2)
    · by_cases h3 : nth2 x = nth2 y
      · exact Or.inr (Or.inr (Or.inr (hties x hx y hy h1 h2 h3)))
      · exact Or.inr (Or.inr (Or.inl h3))

/-- **The pixel ends with the nearest fragment covering it** (or keeps its content when no shaded
fragment is strictly nearer than what it held). -/
theorem zbuf_nearest (ctx : Ctx) (hz : ZBuf ctx) (shade : List K → Option C) (fs : List (List K)) (s : C × K) :
    (pixelFold ctx shade fs s = s ∧ ∀ f ∈ fs, shade f ≠ none → nth2 f ≤ s.2) ∨
    (∃ f ∈ fs, ∃ col, shade f = some col ∧ pixelFold ctx shade fs s = (col, nth2 f) ∧ s.2 < nth2 f ∧
      ∀ g ∈ fs, shade g ≠ none → nth2 g ≤ nth2 f) := by
  induction fs generalizing s with
  | nil => left; simp [pixelFold]
  | cons f rest ih =>
    have hstep := zbuf_step ctx hz shade s f
    simp only [pixelFold, List.foldl_cons] at *
    rcases ih (step1 ctx shade s f) with ⟨heq, hall⟩ | ⟨g, hg, col, hsg, heq, hlt, hall⟩
    · -- nothing later beats the state after f
      cases hs : shade f with
      | none =>
        rw [hs] at hstep; simp only at hstep
        left
        refine ⟨by rw [heq, hstep], ?_⟩
        intro g hg hne
        rcases List.mem_cons.mp hg with rfl | hg
        · exact absurd hs hne
        · have := hall g hg hne; rwa [hstep] at this
      | some cf =>
        rw [hs] at hstep; simp only at hstep
        by_cases hlt : s.2 < nth2 f
        · rw [if_pos hlt] at hstep
          right
          refine ⟨f, by simp, cf, hs, by rw [heq, hstep], hlt, ?_⟩
          intro g hg hne
          rcases List.mem_cons.mp hg with rfl | hg
          · exact le_refl _
          · have := hall g hg hne; rwa [hstep] at this
        · rw [if_neg hlt] at hstep
          left
          refine ⟨by rw [heq, hstep], ?_⟩
          intro g hg hne
          rcases List.mem_cons.mp hg with rfl | hg
          · exact not_lt.mp hlt
          · have := hall g hg hne; rwa [hstep] at this
    · -- some later fragment g wins over the state after f
      right
      have hs1 : s.2 ≤ (step1 ctx shade s f).2 := by
        rw [hstep]; cases shade f with
        | none => exact le_refl _
        | some cf =>
          simp only
          split_ifs with h
          · exact h.le
          · exact le_refl _
      refine ⟨g, List.mem_cons_of_mem _ hg, col, hsg, heq, lt_of_le_of_lt hs1 hlt, ?_⟩
      intro g' hg' hne
      rcases List.mem_cons.mp hg' with rfl | hg'
      · -- f itself: its depth is at most the state's depth after f, which is below g's
        have : nth2 g' ≤ (step1 ctx shade s g').2 := by
          rw [hstep]
          cases hs : shade g' with
          | none => exact absurd hs hne
          | some cf => simp only; split_ifs with h; exact le_refl _; exact not_lt.mp h
        exact le_of_lt (lt_of_le_of_lt this hlt)
      · exact hall g' hg' hne

/-- The final depth is the maximum of the initial depth and the depths of all shaded fragments. -/
theorem zbuf_depth_max (ctx : Ctx) (hz : ZBuf ctx) (shade : List K → Option C) (fs : List (List K)) (s : C × K) :
    (pixelFold ctx shade fs s).2 =
      ((fs.filter fun f => (shade f).isSome).map nth2).foldl max s.2 := by
  induction fs generalizing s with
  | nil => simp [pixelFold]
  | cons f rest ih =>
    simp only [pixelFold, List.foldl_cons] at *
    rw [ih]
    have hstep := zbuf_step ctx hz shade s f
    cases hs : shade f with
    | none => rw [hs] at hstep; simp [hstep, hs]
    | some cf =>
      rw [hs] at hstep
      simp only [List.filter_cons, hs, Option.isSome_some, if_true, List.map_cons, List.foldl_cons]
      congr 1
      rw [hstep]
      split_ifs with h
      · simp [max_eq_right h.le]
      · simp [max_eq_left (not_lt.mp h)]

/-! ### Spans update pixels independently -/

theorem span_pointwise (ctx : Ctx) (shade : List K → Option C) (fs : List (List K)) (cs : List C) (zs : List K)
    (i : Nat) (f : List K) (c : C) (z : K) (hf : fs[i]? = some f) (hc : cs[i]? = some c) (hz : zs[i]? = some z) :
    (shadeSpan ctx shade fs cs zs).1[i]? = some (shadeFrag ctx shade f c z).1 ∧
    (shadeSpan ctx shade fs cs zs).2.1[i]? = some (shadeFrag ctx shade f c z).2.1 := by
  induction fs generalizing cs zs i with
  | nil => simp at hf
  | cons f0 fs ih =>
    cases cs with
    | nil => simp at hc
    | cons c0 cs =>
      cases zs with
      | nil => simp at hz
      | cons z0 zs =>
        cases i with
        | zero =>
          simp only [List.getElem?_cons_zero, Option.some.injEq] at hf hc hz
          subst hf hc hz
          simp [shadeSpan]
        | succ i =>
          simp only [List.getElem?_cons_succ] at hf hc hz
          have := ih cs zs i hf hc hz
          simp only [shadeSpan, List.getElem?_cons_succ]
          exact this

/-! ### Depth sorting only permutes -/

theorem insertBy_perm (lt : Tri K → Tri K → Bool) (t : Tri K) (us : List (Tri K)) :
    (insertBy lt t us).Perm (t :: us) := by
  induction us with
  | nil => simp [insertBy]
  | cons u us ih =>
    simp only [insertBy]
    split
    · exact List.Perm.refl _
    · exact (List.Perm.cons u ih).trans (List.Perm.swap t u us)

/-- Whatever the `depth_sort` setting, the triangles drawn are a permutation of the clipped ones. -/
theorem depthSorted_perm (d : DepthSort) (ts : List (Tri K)) : (depthSorted d ts).Perm ts := by
  unfold depthSorted
  induction ts with
  | nil => simp
  | cons t ts ih =>
    simp only [List.foldr_cons]
    exact (insertBy_perm _ t _).trans (List.Perm.cons t ih)

/-! ### Painter's algorithm -/

/-- `depth_test: None`, both writes on. -/
def Painter (ctx : Ctx) : Prop := ctx.depthTest = none ∧ ctx.colorWrite = true ∧ ctx.depthWrite = true

theorem painter_step (ctx : Ctx) (hp : Painter ctx) (shade : List K → Option C) (s : C × K) (f : List K) :
    step1 ctx shade s f = match shade f with | some col => (col, nth2 f) | none => s := by
  obtain ⟨h1, h2, h3⟩ := hp
  unfold step1 shadeFrag depthTest
  cases hs : shade f <;> simp [h1, h2, h3]

/-- **Painter = z-buffer for back-to-front fragments.** If the fragments reaching a pixel arrive in
strictly increasing reciprocal depth, all above the pixel's initial depth, drawing them without a depth
test leaves exactly what the z-buffer leaves. -/
theorem painter_eq_zbuf (cp cz : Ctx) (hp : Painter cp) (hz : ZBuf cz) (shade : List K → Option C)
    (fs : List (List K)) (hsorted : fs.Pairwise (fun f g => nth2 f < nth2 g)) (s : C × K)
    (hinit : ∀ f ∈ fs, s.2 < nth2 f) : pixelFold cp shade fs s = pixelFold cz shade fs s := by
  induction fs generalizing s with
  | nil => rfl
  | cons f rest ih =>
    simp only [pixelFold, List.foldl_cons] at *
    have hlt : s.2 < nth2 f := hinit f (by simp)
    have e : step1 cp shade s f = step1 cz shade s f := by
      rw [painter_step cp hp, zbuf_step cz hz]
      cases shade f <;> simp [hlt]
    rw [e]
    apply ih (List.Pairwise.of_cons hsorted)
    intro g hg
    rw [zbuf_step cz hz]
    cases shade f with
    | none => exact hinit g (List.mem_cons_of_mem _ hg)
    | some cf =>
      simp only [hlt, if_true]
      exact List.rel_of_pairwise_cons hsorted hg

/-- **Painter = z-buffer, duplicates allowed.** As `painter_eq_zbuf`, but the same fragment may arrive more
than once (two clipped pieces of one triangle meeting at a pixel deliver the same fragment): fragments
arrive in non-decreasing depth and equal depth means equal fragment. -/
theorem painter_eq_zbuf_weak (cp cz : Ctx) (hp : Painter cp) (hz : ZBuf cz) (shade : List K → Option C)
    (fs : List (List K)) (hsorted : fs.Pairwise (fun f g => nth2 f < nth2 g ∨ f = g)) (s : C × K)
    (hinit : ∀ f ∈ fs, shade f = none ∨ s.2 < nth2 f ∨ (shade f = some s.1 ∧ nth2 f = s.2)) :
    pixelFold cp shade fs s = pixelFold cz shade fs s := by
  induction fs generalizing s with
  | nil => rfl
  | cons f rest ih =>
    simp only [pixelFold, List.foldl_cons] at *
    have hrest := List.Pairwise.of_cons hsorted
    rcases hinit f (by simp) with hn | hlt | ⟨hs, hd⟩
    · -- not shaded: both leave the pixel alone
      rw [painter_step cp hp, zbuf_step cz hz, hn]
      exact ih hrest s (fun g hg => hinit g (List.mem_cons_of_mem _ hg))
    · cases hs : shade f with
      | none =>
        rw [painter_step cp hp, zbuf_step cz hz, hs]
        exact ih hrest s (fun g hg => hinit g (List.mem_cons_of_mem _ hg))
      | some col =>
        rw [painter_step cp hp, zbuf_step cz hz, hs]
        simp only [hlt, if_true]
        apply ih hrest
        intro g hg
        rcases List.rel_of_pairwise_cons hsorted hg with h | h
        · exact Or.inr (Or.inl h)
        · subst h; exact Or.inr (Or.inr ⟨hs, rfl⟩)
    · -- the fragment the pixel already holds
      rw [painter_step cp hp, zbuf_step cz hz, hs]
      have hnlt : ¬ s.2 < nth2 f := by rw [hd]; exact lt_irrefl _
      simp only [hnlt, if_false]
      have e : (s.1, nth2 f) = s := by rw [hd]
      rw [e]
      exact ih hrest s (fun g hg => hinit g (List.mem_cons_of_mem _ hg))

/-! ### Non-vacuity -/

example : ZBuf ({} : Ctx) := ⟨rfl, rfl, rfl⟩
example : Painter ({ depthTest := none } : Ctx) := ⟨rfl, rfl, rfl⟩

end Retro.Props.C06
