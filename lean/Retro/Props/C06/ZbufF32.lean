/-
C06 in binary32 — the per-pixel z-buffer fold is order independent ON BIT PATTERNS, exactly.

The depth test of `Context::depth_test` (ctx.rs:73-77, `curr.partial_cmp(&new) == Some(Less)`) compares two
`f32` values and does no arithmetic, so the per-pixel part of C06 needs no tolerance in binary32.  The scalar
`B32` is a binary32 BIT PATTERN whose `<` is `F32.lt` (IEEE: false as soon as one side is NaN;
`Model/F32Ops.lean`).  `pixelFoldB` is the GENERIC per-fragment model function `Render.shadeFrag` — the one
`Render.shadeSpan` / `rasterize` / `drawTris` run, and the one `pixelFold` of `Props/C06/Pixel.lean` folds —
folded at `B32` (`pixelFoldG`, stated with exactly the instances `shadeFrag` uses; `pixelFold = pixelFoldG`
over every ordered field by `rfl`: `pixelFold_eq_pixelFoldG`.  `pixelFold` itself cannot be instantiated at
`B32`, its section carries `[Field K]`).

  * `lt_b32_strict_total`  `F32.lt` is irreflexive and transitive on ALL patterns (NaN included), and
                           `¬ a < b ∧ ¬ b < a ↔ a == b (IEEE) ∨ a is NaN ∨ b is NaN`; for non-NaN patterns
                           `a < b ↔ xval a < xval b` and `a == b ↔ xval a = xval b`, where `xval` is the value
                           in `ℚ ∪ {−∞, +∞}` (`toRat?`, ±0 ↦ 0) — a strict total order up to VALUE equality
  * `zbuf_perm_f32`        two permutations of a fragment list in which no two distinct shaded fragments have
                           IEEE-equal depths (`F32.feq`: equal values, so +0/−0 IS a tie; a NaN ties with nothing)
                           leave the same colour and the same depth BITS.  No NaN hypothesis: see below
  * `zbuf_nearest_f32`     after any fragment list the pixel is unchanged and no shaded fragment beats its depth,
                           or it holds the colour and depth bits of a shaded fragment that beat the initial depth
                           and that no shaded fragment beats; `zbuf_nearest_f32_val`: for non-NaN depths that is
                           `xval g ≤ xval f` for every shaded `g` — a fragment of MAXIMAL depth value
  * NaN                    the brief expected "a NaN depth makes the result order dependent".  That is FALSE for the
                           z-buffer configuration and the opposite is proved: `partial_cmp` with a NaN is `None`,
                           so a NaN-depth fragment is never written (`nan_fragment_dropped`) and a pixel whose
                           stored depth is NaN never changes again (`nan_depth_freezes_pixel`); both are no-ops
                           of the fold, which is why `zbuf_perm_f32` needs no NaN hypothesis.  What NaN breaks is
                           VISIBILITY, not order: `nan_fragment_invisible` (a shaded fragment in front of an empty
                           pixel is lost) — that is what `render_depth_poison_free` protects against
  * sharpness              `signed_zero_tie_breaks_order`: two shaded fragments of depths +0 and −0 (different
                           bits, equal values) leave different colours AND different depth bits in the two orders —
                           the tie hypothesis must be VALUE equality, bit inequality is not enough

NOT covered here: the lift to whole buffers at `B32`.  `drawTris_pix` / `rasterize_pix2` (`Props/C06/Buffer.lean`)
are stated over `[Field K] [LinearOrder K] [IsStrictOrderedRing K]` and their proofs use the field order in
`triFill`/`scanRows` (which pixel a fragment lands on), so they cannot be instantiated at `B32`; what is proved in
binary32 is the fold at one pixel, for WHATEVER fragments the (order-independent, per-triangle) rasterizer delivers
there.  `Ord3.equal` of the generic `depthTest` is not IEEE-faithful at a NaN (F32Render.lean, R2); only
`Some(Less)` is used here.
-/
import Retro.Props.C06.Pixel
import Retro.Model.F32Ops
import Retro.Lemmas.F32Round
import Mathlib.Order.WithBot

namespace Retro.Props.C06
open Retro Retro.F32 Retro.Raster Retro.Render

/-! ### The generic fold, with exactly the instances `shadeFrag` needs -/

section
variable {α : Type} [LT α] [DecidableLT α] [OfNat α 0] {C : Type}

/-- One fragment applied to a pixel's (colour, depth): `step1` of `Pixel.lean` without the field instances. -/
def step1G (ctx : Ctx) (shade : List α → Option C) (s : C × α) (f : List α) : C × α :=
  ((shadeFrag ctx shade f s.1 s.2).1, (shadeFrag ctx shade f s.1 s.2).2.1)

/-- All fragments that reach one pixel, in arrival order. -/
def pixelFoldG (ctx : Ctx) (shade : List α → Option C) (fs : List (List α)) (s : C × α) : C × α :=
  fs.foldl (step1G ctx shade) s

theorem zbuf_stepG (ctx : Ctx) (hz : ZBuf ctx) (shade : List α → Option C) (s : C × α) (f : List α) :
    step1G ctx shade s f =
      match shade f with
      | some col => if s.2 < nth2 f then (col, nth2 f) else s
      | none => s := by
  obtain ⟨h1, h2, h3⟩ := hz
  unfold step1G shadeFrag depthTest
  cases hs : shade f <;> by_cases hlt : s.2 < nth2 f <;> simp [h1, h2, h3, hlt]

end

/-- Over an ordered field the fold of `Pixel.lean` IS this fold (same definition, more instances in scope). -/
theorem pixelFold_eq_pixelFoldG {K : Type} [Field K] [LinearOrder K] {C : Type} (ctx : Ctx)
    (shade : List K → Option C) (fs : List (List K)) (s : C × K) :
    pixelFold ctx shade fs s = pixelFoldG ctx shade fs s := rfl

/-! ### Binary32 bit patterns as depth values -/

/-- A binary32 bit pattern; `<` is the Rust `f32` `<` (`F32.lt`). -/
structure B32 where
  bits : UInt32
  deriving DecidableEq

instance : LT B32 := ⟨fun a b => F32.lt a.bits b.bits = true⟩
instance : DecidableLT B32 := fun a b => inferInstanceAs (Decidable (F32.lt a.bits b.bits = true))
instance : OfNat B32 0 := ⟨⟨0⟩⟩

theorem b32_lt_def (a b : B32) : a < b ↔ F32.lt a.bits b.bits = true := Iff.rfl

/-- The per-pixel fold of the model at binary32 bit patterns. -/
abbrev pixelFoldB {C : Type} (ctx : Ctx) (shade : List B32 → Option C) (fs : List (List B32)) (s : C × B32) :
    C × B32 := pixelFoldG ctx shade fs s

/-- The value of a non-NaN pattern in `ℚ ∪ {−∞, +∞}` (±0 ↦ 0). (A NaN is sent to ±∞ by its sign bit; every
statement below that mentions `xval` excludes NaN.) -/
def xval (b : UInt32) : WithBot (WithTop ℚ) :=
  match toRat? b with
  | some x => ((x : WithTop ℚ) : WithBot (WithTop ℚ))
  | none => if signBit b then ⊥ else ((⊤ : WithTop ℚ) : WithBot (WithTop ℚ))

/-! ### `F32.lt` is a strict total order up to value equality -/

theorem lt_nonNaN {a b : UInt32} (h : F32.lt a b = true) : isNaN a = false ∧ isNaN b = false := by
  unfold F32.lt at h
  cases ha : isNaN a <;> cases hb : isNaN b <;> simp [ha, hb] at h ⊢

theorem lt_nan_left {a : UInt32} (b : UInt32) (h : isNaN a = true) : F32.lt a b = false := by
  unfold F32.lt; simp [h]

theorem lt_nan_right (a : UInt32) {b : UInt32} (h : isNaN b = true) : F32.lt a b = false := by
  unfold F32.lt; simp [h]

theorem lt_iff_xval {a b : UInt32} (ha : isNaN a = false) (hb : isNaN b = false) :
    F32.lt a b = true ↔ xval a < xval b := by
  unfold F32.lt xval
  simp only [ha, hb, Bool.or_self, Bool.false_eq_true, if_false]
  cases toRat? a <;> cases toRat? b <;> cases signBit a <;> cases signBit b <;> simp [lt_top_iff_ne_top]

theorem feq_iff_xval {a b : UInt32} (ha : isNaN a = false) (hb : isNaN b = false) :
    F32.feq a b = true ↔ xval a = xval b := by
  unfold F32.feq xval
  simp only [ha, hb, Bool.or_self, Bool.false_eq_true, if_false]
  cases toRat? a <;> cases toRat? b <;> cases signBit a <;> cases signBit b <;> simp

theorem feq_nonNaN {a b : UInt32} (h : F32.feq a b = true) : isNaN a = false ∧ isNaN b = false := by
  unfold F32.feq at h
  cases ha : isNaN a <;> cases hb : isNaN b <;> simp [ha, hb] at h ⊢

/-- On finite patterns value equality is `toRat?` equality. -/
theorem xval_eq_iff_toRat {a b : UInt32} {x : ℚ} (ha : toRat? a = some x) :
    xval a = xval b ↔ toRat? b = some x := by
  unfold xval
  rw [ha]
  cases toRat? b <;> cases signBit b <;> simp [eq_comm]

theorem lt_irrefl_f32 (a : UInt32) : F32.lt a a = false := by
  cases ha : isNaN a
  · have := (lt_iff_xval ha ha).not
    simpa using this
  · exact lt_nan_left a ha

theorem lt_trans_f32 {a b c : UInt32} (hab : F32.lt a b = true) (hbc : F32.lt b c = true) :
    F32.lt a c = true := by
  obtain ⟨ha, hb⟩ := lt_nonNaN hab
  obtain ⟨-, hc⟩ := lt_nonNaN hbc
  rw [lt_iff_xval ha hb] at hab
  rw [lt_iff_xval hb hc] at hbc
  rw [lt_iff_xval ha hc]
  exact lt_trans hab hbc

theorem lt_asymm_f32 {a b : UInt32} (hab : F32.lt a b = true) : F32.lt b a = false := by
  cases h : F32.lt b a
  · rfl
  · have := lt_trans_f32 hab h
    rw [lt_irrefl_f32] at this
    exact absurd this (by decide)

/-- **`F32.lt` is a strict total order up to value equality.**  Irreflexive and transitive on all patterns;
incomparable exactly when IEEE-equal or a NaN is involved; on non-NaN patterns it is the order of the values and
incomparable means equal VALUES (equal bits, or +0 and −0). -/
theorem lt_b32_strict_total :
    (∀ a : UInt32, F32.lt a a = false) ∧
    (∀ a b c : UInt32, F32.lt a b = true → F32.lt b c = true → F32.lt a c = true) ∧
    (∀ a b : UInt32, (F32.lt a b = false ∧ F32.lt b a = false) ↔
      (F32.feq a b = true ∨ isNaN a = true ∨ isNaN b = true)) ∧
    (∀ a b : UInt32, isNaN a = false → isNaN b = false →
      ((F32.lt a b = true ↔ xval a < xval b) ∧
       ((F32.lt a b = false ∧ F32.lt b a = false) ↔ xval a = xval b))) := by
  refine ⟨lt_irrefl_f32, fun a b c => lt_trans_f32, ?_, ?_⟩
  · intro a b
    cases ha : isNaN a
    · cases hb : isNaN b
      · have h1 := lt_iff_xval ha hb
        have h2 := lt_iff_xval hb ha
        have h3 := feq_iff_xval ha hb
        simp only [Bool.false_eq_true, or_false, h3]
        rw [← Bool.not_eq_true, ← Bool.not_eq_true, h1, h2]
        constructor
        · rintro ⟨h, h'⟩; exact le_antisymm (not_lt.mp h') (not_lt.mp h)
        · intro h; rw [h]; exact ⟨lt_irrefl _, lt_irrefl _⟩
      · simp [lt_nan_left a hb, lt_nan_right a hb]
    · simp [lt_nan_left b ha, lt_nan_right b ha]
  · intro a b ha hb
    refine ⟨lt_iff_xval ha hb, ?_⟩
    rw [← Bool.not_eq_true, ← Bool.not_eq_true, lt_iff_xval ha hb, lt_iff_xval hb ha]
    constructor
    · rintro ⟨h, h'⟩; exact le_antisymm (not_lt.mp h') (not_lt.mp h)
    · intro h; rw [h]; exact ⟨lt_irrefl _, lt_irrefl _⟩

/-- totality in the form the fold needs: two non-NaN patterns that are not IEEE-equal are strictly ordered -/
theorem lt_or_gt_of_not_feq {a b : UInt32} (ha : isNaN a = false) (hb : isNaN b = false)
    (h : F32.feq a b = false) : F32.lt a b = true ∨ F32.lt b a = true := by
  rw [lt_iff_xval ha hb, lt_iff_xval hb ha]
  have : xval a ≠ xval b := by
    intro hx
    rw [← feq_iff_xval ha hb, h] at hx
    exact absurd hx (by decide)
  exact lt_or_gt_of_ne this

/-! ### The same facts on `B32` -/

theorem b32_lt_irrefl (a : B32) : ¬ a < a := by
  rw [b32_lt_def, lt_irrefl_f32]; decide

theorem b32_lt_trans {a b c : B32} (h1 : a < b) (h2 : b < c) : a < c := lt_trans_f32 h1 h2

theorem b32_lt_asymm {a b : B32} (h : a < b) : ¬ b < a := by
  rw [b32_lt_def, lt_asymm_f32 h]; decide

/-! ### NaN depths are no-ops of the fold -/

/-- A fragment whose depth is NaN is never written (`partial_cmp` is `None`). -/
theorem nan_fragment_dropped {C : Type} (ctx : Ctx) (hz : ZBuf ctx) (shade : List B32 → Option C) (s : C × B32)
    (f : List B32) (hf : isNaN (nth2 f).bits = true) : step1G ctx shade s f = s := by
  rw [zbuf_stepG ctx hz shade]
  have : ¬ s.2 < nth2 f := by rw [b32_lt_def, lt_nan_right _ hf]; decide
  cases shade f <;> simp [this]

/-- A pixel whose stored depth is NaN is never written again. -/
theorem nan_depth_freezes_pixel {C : Type} (ctx : Ctx) (hz : ZBuf ctx) (shade : List B32 → Option C)
    (fs : List (List B32)) (s : C × B32) (hs : isNaN s.2.bits = true) : pixelFoldB ctx shade fs s = s := by
  induction fs with
  | nil => rfl
  | cons f rest ih =>
    have : step1G ctx shade s f = s := by
      rw [zbuf_stepG ctx hz shade]
      have : ¬ s.2 < nth2 f := by rw [b32_lt_def, lt_nan_left _ hs]; decide
      cases shade f <;> simp [this]
    simp only [pixelFoldB, pixelFoldG, List.foldl_cons, this] at ih ⊢
    exact ih

/-! ### Order independence at a pixel, in binary32 -/

/-- Two fragments commute unless both are shaded and their depths are IEEE-equal. -/
theorem zbuf_comm_f32 {C : Type} (ctx : Ctx) (hz : ZBuf ctx) (shade : List B32 → Option C) (s : C × B32)
    (f g : List B32)
    (h : shade f = none ∨ shade g = none ∨ F32.feq (nth2 f).bits (nth2 g).bits = false ∨ f = g) :
    step1G ctx shade (step1G ctx shade s f) g = step1G ctx shade (step1G ctx shade s g) f := by
  rcases h with h | h | h | h
  · simp [zbuf_stepG ctx hz shade, h]
  · simp [zbuf_stepG ctx hz shade, h]
  · cases hnf : isNaN (nth2 f).bits
    · cases hng : isNaN (nth2 g).bits
      · cases hf : shade f with
        | none => simp [zbuf_stepG ctx hz shade, hf]
        | some cf =>
          cases hg : shade g with
          | none => simp [zbuf_stepG ctx hz shade, hg]
          | some cg =>
            simp only [zbuf_stepG ctx hz shade, hf, hg]
            rcases lt_or_gt_of_not_feq hnf hng h with hlt | hgt
            · have hlt' : nth2 f < nth2 g := hlt
              have hng' : ¬ nth2 g < nth2 f := b32_lt_asymm hlt'
              by_cases h1 : s.2 < nth2 f <;> by_cases h2 : s.2 < nth2 g <;>
                simp [h1, h2, hlt', hng']
              exact absurd (b32_lt_trans h1 hlt') h2
            · have hgt' : nth2 g < nth2 f := hgt
              have hnf' : ¬ nth2 f < nth2 g := b32_lt_asymm hgt'
              by_cases h1 : s.2 < nth2 f <;> by_cases h2 : s.2 < nth2 g <;>
                simp [h1, h2, hgt', hnf']
              exact absurd (b32_lt_trans h2 hgt') h1
      · rw [nan_fragment_dropped ctx hz shade _ g hng, nan_fragment_dropped ctx hz shade _ g hng]
    · rw [nan_fragment_dropped ctx hz shade _ f hnf, nan_fragment_dropped ctx hz shade _ f hnf]
  · subst h; rfl

/-- **Order independence at a pixel, on binary32 bit patterns.**  If no two distinct shaded fragments have
IEEE-equal depths (equal VALUES: +0 and −0 are a tie; a NaN is equal to nothing), every permutation of the
fragments leaves the same colour and the same depth bits.  NaN depths are allowed: they are no-ops. -/
theorem zbuf_perm_f32 {C : Type} (ctx : Ctx) (hz : ZBuf ctx) (shade : List B32 → Option C)
    (l1 l2 : List (List B32)) (hp : l1.Perm l2)
    (hties : ∀ f ∈ l1, ∀ g ∈ l1, shade f ≠ none → shade g ≠ none →
      F32.feq (nth2 f).bits (nth2 g).bits = true → f = g)
    (s : C × B32) : pixelFoldB ctx shade l1 s = pixelFoldB ctx shade l2 s := by
  unfold pixelFoldB pixelFoldG
  apply List.Perm.foldl_eq' hp
  intro x hx y hy z
  apply zbuf_comm_f32 ctx hz shade z x y
  by_cases h1 : shade x = none
  · exact Or.inl h1
  · by_cases h2 : shade y = none
    · exact Or.inr (Or.inl h2)
    · cases h3 : F32.feq (nth2 x).bits (nth2 y).bits
      · exact Or.inr (Or.inr (Or.inl rfl))
      · exact Or.inr (Or.inr (Or.inr (hties x hx y hy h1 h2 h3)))

/-- The same with the tie hypothesis on VALUES, for non-NaN shaded depths (the form of `zbuf_perm`). -/
theorem zbuf_perm_f32_val {C : Type} (ctx : Ctx) (hz : ZBuf ctx) (shade : List B32 → Option C)
    (l1 l2 : List (List B32)) (hp : l1.Perm l2)
    (hties : ∀ f ∈ l1, ∀ g ∈ l1, shade f ≠ none → shade g ≠ none →
      xval (nth2 f).bits = xval (nth2 g).bits → f = g)
    (s : C × B32) : pixelFoldB ctx shade l1 s = pixelFoldB ctx shade l2 s := by
  apply zbuf_perm_f32 ctx hz shade l1 l2 hp _ s
  intro f hf g hg h1 h2 h3
  obtain ⟨hnf, hng⟩ := feq_nonNaN h3
  exact hties f hf g hg h1 h2 ((feq_iff_xval hnf hng).mp h3)

/-! ### The pixel ends with a fragment of maximal depth -/

/-- **The pixel ends with a nearest fragment, in binary32.**  Either it is unchanged and no shaded fragment beats
its depth, or it holds the colour and the depth bits of a shaded fragment `f` that beats the initial depth and
that no shaded fragment beats (`¬ f.z < g.z` in the `f32` order). No hypothesis on NaN. -/
theorem zbuf_nearest_f32 {C : Type} (ctx : Ctx) (hz : ZBuf ctx) (shade : List B32 → Option C)
    (fs : List (List B32)) (s : C × B32) :
    (pixelFoldB ctx shade fs s = s ∧ ∀ f ∈ fs, shade f ≠ none → ¬ s.2 < nth2 f) ∨
    (∃ f ∈ fs, ∃ col, shade f = some col ∧ pixelFoldB ctx shade fs s = (col, nth2 f) ∧ s.2 < nth2 f ∧
      ∀ g ∈ fs, shade g ≠ none → ¬ nth2 f < nth2 g) := by
  induction fs generalizing s with
  | nil => left; simp [pixelFoldB, pixelFoldG]
  | cons f rest ih =>
    have hstep := zbuf_stepG ctx hz shade s f
    simp only [pixelFoldB, pixelFoldG, List.foldl_cons] at *
    rcases ih (step1G ctx shade s f) with ⟨heq, hall⟩ | ⟨g, hg, col, hsg, heq, hlt, hall⟩
    · cases hs : shade f with
      | none =>
        rw [hs] at hstep; simp only at hstep
        left
        refine ⟨by rw [heq, hstep], ?_⟩
        intro g hg hne
        rcases List.mem_cons.mp hg with rfl | hg
        · exact absurd hs hne
        · have := hall g hg hne; rwa [hstep] at this
      | some cf =>
        rw [hs] at hstep; simp only at hstep
        by_cases hlt : s.2 < nth2 f
        · rw [if_pos hlt] at hstep
          right
          refine ⟨f, by simp, cf, hs, by rw [heq, hstep], hlt, ?_⟩
          intro g hg hne
          rcases List.mem_cons.mp hg with rfl | hg
          · exact b32_lt_irrefl _
          · have := hall g hg hne; rwa [hstep] at this
        · rw [if_neg hlt] at hstep
          left
          refine ⟨by rw [heq, hstep], ?_⟩
          intro g hg hne
          rcases List.mem_cons.mp hg with rfl | hg
          · exact hlt
          · have := hall g hg hne; rwa [hstep] at this
    · right
      -- the state after `f` is `s` or `f` itself having beaten `s`
      have hcases : step1G ctx shade s f = s ∨
          (shade f ≠ none ∧ s.2 < nth2 f ∧ (step1G ctx shade s f).2 = nth2 f) := by
        rw [hstep]
        cases hs : shade f with
        | none => left; rfl
        | some cf =>
          by_cases h : s.2 < nth2 f
          · right; simp [h]
          · left; simp [h]
      have hsg' : s.2 < nth2 g := by
        rcases hcases with h | ⟨-, h1, h2⟩
        · rwa [h] at hlt
        · rw [h2] at hlt; exact b32_lt_trans h1 hlt
      refine ⟨g, List.mem_cons_of_mem _ hg, col, hsg, heq, hsg', ?_⟩
      intro g' hg' hne
      rcases List.mem_cons.mp hg' with rfl | hg'
      · rcases hcases with h | ⟨-, -, h2⟩
        · -- `g'` did not beat `s`, `g` did: `g < g'` would give `s < g'`
          intro hgg
          have hns : ¬ s.2 < nth2 g' := by
            intro hsf
            have : step1G ctx shade s g' ≠ s := by
              rw [hstep]
              cases hs : shade g' with
              | none => exact absurd hs hne
              | some cf =>
                simp only [hsf, if_true]
                intro hcon
                have : nth2 g' = s.2 := by rw [← hcon]
                rw [this] at hsf
                exact b32_lt_irrefl _ hsf
            exact this h
          exact hns (b32_lt_trans hsg' hgg)
        · rw [h2] at hlt; exact b32_lt_asymm hlt
      · exact hall g' hg' hne

/-- **Maximal depth value.**  With non-NaN initial and shaded depths: the pixel is unchanged and every shaded
depth value is `≤` the initial one, or it holds a shaded fragment whose depth value is `>` the initial one and
`≥` that of every shaded fragment. -/
theorem zbuf_nearest_f32_val {C : Type} (ctx : Ctx) (hz : ZBuf ctx) (shade : List B32 → Option C)
    (fs : List (List B32)) (s : C × B32) (hs : isNaN s.2.bits = false)
    (hn : ∀ f ∈ fs, shade f ≠ none → isNaN (nth2 f).bits = false) :
    (pixelFoldB ctx shade fs s = s ∧ ∀ f ∈ fs, shade f ≠ none → xval (nth2 f).bits ≤ xval s.2.bits) ∨
    (∃ f ∈ fs, ∃ col, shade f = some col ∧ pixelFoldB ctx shade fs s = (col, nth2 f) ∧
      xval s.2.bits < xval (nth2 f).bits ∧
      ∀ g ∈ fs, shade g ≠ none → xval (nth2 g).bits ≤ xval (nth2 f).bits) := by
  rcases zbuf_nearest_f32 ctx hz shade fs s with ⟨heq, hall⟩ | ⟨f, hf, col, hsf, heq, hlt, hall⟩
  · left
    refine ⟨heq, fun f hf hne => ?_⟩
    have := hall f hf hne
    rw [b32_lt_def, lt_iff_xval hs (hn f hf hne)] at this
    exact not_lt.mp this
  · right
    have hnf : isNaN (nth2 f).bits = false := (lt_nonNaN hlt).2
    refine ⟨f, hf, col, hsf, heq, (lt_iff_xval hs hnf).mp hlt, fun g hg hne => ?_⟩
    have := hall g hg hne
    rw [b32_lt_def, lt_iff_xval hnf (hn g hg hne)] at this
    exact not_lt.mp this

/-! ### Witnesses (concrete bit patterns) -/

/-- A shader that returns attribute 3 of the fragment (its bit pattern) as the colour. -/
def colOf (f : List B32) : Option UInt32 :=
  match f with
  | _ :: _ :: _ :: c :: _ => some c.bits
  | _ => none

def fragB (z c : UInt32) : List B32 := [⟨0⟩, ⟨0⟩, ⟨z⟩, ⟨c⟩]

/-- `f32::NEG_INFINITY`, the depth a cleared pixel holds. -/
def negInf : UInt32 := 0xFF800000
def qNaN : UInt32 := 0x7FC00000
def negZero : UInt32 := 0x80000000

/-- **Sharpness of the tie hypothesis.**  Depths +0 and −0 have different bits and equal values: the two orders
leave different colours and different depth bits.  Bit inequality of depths is not enough. -/
theorem signed_zero_tie_breaks_order :
    pixelFoldB {} colOf [fragB 0 1, fragB negZero 2] (0, ⟨negInf⟩) = (1, ⟨0⟩) ∧
    pixelFoldB {} colOf [fragB negZero 2, fragB 0 1] (0, ⟨negInf⟩) = (2, ⟨negZero⟩) ∧
    F32.feq 0 negZero = true ∧ (0 : UInt32) ≠ negZero := by decide +kernel

/-- **What a NaN depth does.**  Not order dependence (both orders agree, as `zbuf_perm_f32` says) but lost
visibility: the NaN-depth fragment is shaded, lies on an empty pixel, and is not drawn; behind it the finite
fragment wins in either order. -/
theorem nan_fragment_invisible :
    pixelFoldB {} colOf [fragB qNaN 7] (0, ⟨negInf⟩) = (0, ⟨negInf⟩) ∧
    pixelFoldB {} colOf [fragB qNaN 7, fragB 0x3F800000 9] (0, ⟨negInf⟩) = (9, ⟨0x3F800000⟩) ∧
    pixelFoldB {} colOf [fragB 0x3F800000 9, fragB qNaN 7] (0, ⟨negInf⟩) = (9, ⟨0x3F800000⟩) ∧
    isNaN qNaN = true := by decide +kernel

/-- A pixel cleared to NaN stays empty whatever is drawn. -/
example : pixelFoldB {} colOf [fragB 0x3F800000 9, fragB 0x40000000 5] (0, ⟨qNaN⟩) = (0, ⟨qNaN⟩) :=
  nan_depth_freezes_pixel {} ⟨rfl, rfl, rfl⟩ colOf _ _ (by decide +kernel)

/-! ### Non-vacuity -/

/-- Three shaded fragments with depths 1.0, −0.0, +∞ and a NaN one: the hypotheses of `zbuf_perm_f32` hold. -/
example : pixelFoldB {} colOf [fragB 0x3F800000 1, fragB negZero 2, fragB 0x7F800000 3, fragB qNaN 4] (0, ⟨negInf⟩) =
    pixelFoldB {} colOf [fragB qNaN 4, fragB 0x7F800000 3, fragB negZero 2, fragB 0x3F800000 1] (0, ⟨negInf⟩) := by
  apply zbuf_perm_f32 {} ⟨rfl, rfl, rfl⟩ colOf
  · exact (List.reverse_perm _).symm
  · decide +kernel

example : pixelFoldB {} colOf [fragB 0x3F800000 1, fragB negZero 2, fragB 0x7F800000 3] (0, ⟨negInf⟩) =
    (3, ⟨0x7F800000⟩) := by decide +kernel

/-- hypotheses of `zbuf_nearest_f32_val` on that list -/
example : isNaN (⟨negInf⟩ : B32).bits = false ∧
    ∀ f ∈ [fragB 0x3F800000 1, fragB negZero 2, fragB 0x7F800000 3], colOf f ≠ none → isNaN (nth2 f).bits = false := by
  decide +kernel

example : xval 0 = xval negZero := by
  rw [← feq_iff_xval (by decide +kernel) (by decide +kernel)]; decide +kernel

end Retro.Props.C06
