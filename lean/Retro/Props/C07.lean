/-
C07 — Culling, write masks and statistics behave as configured.
  `Retro.Props.C07.Base`  : per-fragment and per-span write-mask lemmas, back-face predicate and cull
                            lemmas, counter bounds, `render_stats`
  `Retro.Props.C07.Masks` : the write masks lifted to whole framebuffers and `render` calls
                            (`drawTris_color_mask`, `drawTris_depth_mask`, `drawTris_discard_all`,
                            `render_color_mask`, `render_depth_mask`, `render_discard_all`, `drawTris_test_none`)
  `Retro.Props.C07.StatsExact` : the statistics equal what happened — prims.o, verts.o, frags.i, frags.o as
                            independently defined counts (`render_stats_exact`), additivity over calls
                            (`render_additive`, `render_additive_sorted`)
-/
import Retro.Props.C07.Base
import Retro.Props.C07.Masks
import Retro.Props.C07.Examples
import Retro.Props.C07.StatsExact
