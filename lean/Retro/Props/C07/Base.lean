/-
C07 — Culling, write masks and statistics behave as configured.

Theorems about the model functions of render/target.rs and render.rs that the correspondence
check runs against the real code (`shadeFrag`, `shadeSpan`, `rasterize`, `drawTris`, `render`).
All hold for every scalar type with the listed operations (no field axioms needed for the discrete
ones); the culling lemmas are over a linearly ordered field.

  write masks / predicates (per fragment and per span)
    `color_write_off`, `depth_write_off`, `depth_test_none_passes`, `shader_none_writes_nothing`,
    `depth_test_fail_writes_nothing`, `span_color_write_off`, `span_depth_write_off`,
    `span_count_le`
  culling
    `backface_swap`  (swapping two vertices flips `is_backface` when the screen area ≠ 0),
    `cull_exactly_one`, `cull_modes_opposite`, `cull_off_draws_both`
  statistics
    `render_stats`: after `render`, calls = 1, prims.i = |tris|, verts.i = |verts|,
    verts.o = 3·prims.o, frags.o ≤ frags.i
PARTIAL: that prims.o equals the number of post-clip triangles surviving the cull and frags.i the
number of covered pixels is true by construction of the model (`drawTris`) and is compared with the
implementation's counters case by case; culling of *clipped* triangles additionally relies on the
unproved winding preservation of the six-plane clip (C03).
-/
import Retro.Model.Render
import Mathlib.Tactic.Linarith
import Mathlib.Tactic.Ring
import Mathlib.Algebra.Order.Field.Basic
import Mathlib.Tactic.NormNum
import Mathlib.Algebra.Order.Ring.Rat

namespace Retro.Props.C07
open Retro Retro.Clip Retro.Raster Retro.Render

section Discrete
variable {α : Type} [Add α] [Sub α] [Mul α] [Div α] [Neg α] [LT α] [DecidableLT α]
  [OfNat α 0] [OfNat α 1] [OfNat α 2] [HasFloor α] [HasToNat α] {C : Type}

/-- Disabling colour writes: the colour is kept and nothing is counted as written. -/
theorem color_write_off (ctx : Ctx) (shade : List α → Option C) (f : List α) (c : C) (z : α)
    (h : ctx.colorWrite = false) :
    (shadeFrag ctx shade f c z).1 = c ∧ (shadeFrag ctx shade f c z).2.2 = 0 := by
  unfold shadeFrag
  by_cases hp : depthTest ctx (nth2 f) z = true
  · cases hs : shade f <;> simp [hp, h]
  · simp [hp]

/-- Disabling depth writes: the depth value is kept. -/
theorem depth_write_off (ctx : Ctx) (shade : List α → Option C) (f : List α) (c : C) (z : α)
    (h : ctx.depthWrite = false) : (shadeFrag ctx shade f c z).2.1 = z := by
  unfold shadeFrag
  by_cases hp : depthTest ctx (nth2 f) z = true
  · cases hs : shade f <;> simp [hp, h]
  · simp [hp]

/-- With the depth test disabled every fragment passes. -/
theorem depth_test_none_passes (ctx : Ctx) (new cur : α) (h : ctx.depthTest = none) :
    depthTest ctx new cur = true := by
  simp [depthTest, h]

/-- A fragment shader returning no colour writes nothing. -/
theorem shader_none_writes_nothing (ctx : Ctx) (shade : List α → Option C) (f : List α) (c : C) (z : α)
    (h : shade f = none) : shadeFrag ctx shade f c z = (c, z, 0) := by
  unfold shadeFrag
  by_cases hp : depthTest ctx (nth2 f) z = true <;> simp [hp, h]

/-- A fragment failing the depth test writes nothing (the shader's result is irrelevant). -/
theorem depth_test_fail_writes_nothing (ctx : Ctx) (shade : List α → Option C) (f : List α) (c : C) (z : α)
    (h : depthTest ctx (nth2 f) z = false) : shadeFrag ctx shade f c z = (c, z, 0) := by
  simp [shadeFrag, h]

/-- A passing, shaded fragment with both writes on replaces colour and depth and counts once. -/
theorem shaded_pass_writes (ctx : Ctx) (shade : List α → Option C) (f : List α) (c col : C) (z : α)
    (hp : depthTest ctx (nth2 f) z = true) (hs : shade f = some col)
    (hc : ctx.colorWrite = true) (hd : ctx.depthWrite = true) :
    shadeFrag ctx shade f c z = (col, nth2 f, 1) := by
  simp [shadeFrag, hp, hs, hc, hd]

theorem span_color_write_off (ctx : Ctx) (shade : List α → Option C) (h : ctx.colorWrite = false)
    (fs : List (List α)) (cs : List C) (zs : List α) :
    (shadeSpan ctx shade fs cs zs).1 = cs ∧ (shadeSpan ctx shade fs cs zs).2.2 = 0 := by
  induction fs generalizing cs zs with
  | nil => simp [shadeSpan]
  | cons f fs ih =>
    cases cs with
    | nil => simp [shadeSpan]
    | cons c cs =>
      cases zs with
      | nil => simp [shadeSpan]
      | cons z zs =>
        obtain ⟨h1, h2⟩ := color_write_off ctx shade f c z h
        obtain ⟨i1, i2⟩ := ih cs zs
        simp only [shadeSpan]
        constructor
        · simp [h1, i1]
        · simp [h2, i2]

theorem span_depth_write_off (ctx : Ctx) (shade : List α → Option C) (h : ctx.depthWrite = false)
    (fs : List (List α)) (cs : List C) (zs : List α) :
    (shadeSpan ctx shade fs cs zs).2.1 = zs := by
  induction fs generalizing cs zs with
  | nil => simp [shadeSpan]
  | cons f fs ih =>
    cases cs with
    | nil => simp [shadeSpan]
    | cons c cs =>
      cases zs with
      | nil => simp [shadeSpan]
      | cons z zs =>
        simp only [shadeSpan]
        simp [depth_write_off ctx shade f c z h, ih cs zs]

theorem shadeFrag_count_le (ctx : Ctx) (shade : List α → Option C) (f : List α) (c : C) (z : α) :
    (shadeFrag ctx shade f c z).2.2 ≤ 1 := by
  unfold shadeFrag
  by_cases hp : depthTest ctx (nth2 f) z = true
  · cases hs : shade f
    · simp [hp]
    · by_cases hc : ctx.colorWrite = true <;> simp [hp, hc]
  · simp [hp]

/-- The number of fragments written in a span never exceeds the span length. -/
theorem span_count_le (ctx : Ctx) (shade : List α → Option C) (fs : List (List α)) (cs : List C) (zs : List α) :
    (shadeSpan ctx shade fs cs zs).2.2 ≤ cs.length := by
  induction fs generalizing cs zs with
  | nil => simp [shadeSpan]
  | cons f fs ih =>
    cases cs with
    | nil => simp [shadeSpan]
    | cons c cs =>
      cases zs with
      | nil => simp [shadeSpan]
      | cons z zs =>
        have h1 := shadeFrag_count_le ctx shade f c z
        have h2 := ih cs zs
        rcases e1 : shadeFrag ctx shade f c z with ⟨c', z', o⟩
        rcases e2 : shadeSpan ctx shade fs cs zs with ⟨cs', zs', o'⟩
        rw [e1] at h1; rw [e2] at h2
        simp only [shadeSpan, e1, e2, List.length_cons]
        simp only at h1 h2
        omega

theorem spanColor_count_le (ctx : Ctx) (shade : List α → Option C) (fs : List (List α)) (cs : List C) :
    (shadeSpanColor ctx shade fs cs).2 ≤ cs.length := by
  induction fs generalizing cs with
  | nil => simp [shadeSpanColor]
  | cons f fs ih =>
    cases cs with
    | nil => simp [shadeSpanColor]
    | cons c cs =>
      simp only [shadeSpanColor, List.length_cons]
      have := ih cs
      split <;> (try split) <;> simp only <;> omega

end Discrete

/-! ### Culling -/

section Cull
variable {K : Type} [Field K] [LinearOrder K] [IsStrictOrderedRing K] [HasFloor K] [HasToNat K]

/-- twice the signed screen area used by `is_backface` -/
def area2 (a b c : List K) : K :=
  (nth0 b - nth0 a) * (nth1 c - nth1 a) - (nth1 b - nth1 a) * (nth0 c - nth0 a)

theorem isBackface_iff (a b c : List K) : isBackface a b c = true ↔ 0 < area2 a b c := by
  simp [isBackface, area2]

theorem area2_swap (a b c : List K) : area2 a c b = -area2 a b c := by
  unfold area2; ring

/-- Swapping two vertices flips the facing of a triangle of non-zero screen area. -/
theorem backface_swap (a b c : List K) (h : area2 a b c ≠ 0) : isBackface a c b = !isBackface a b c := by
  rcases lt_or_gt_of_ne h with hn | hp
  · have h1 : isBackface a b c = false := by
      rw [Bool.eq_false_iff, Ne, isBackface_iff]; exact not_lt.mpr hn.le
    have h2 : isBackface a c b = true := by rw [isBackface_iff, area2_swap]; linarith
    simp [h1, h2]
  · have h1 : isBackface a b c = true := (isBackface_iff a b c).mpr hp
    have h2 : isBackface a c b = false := by
      rw [Bool.eq_false_iff, Ne, isBackface_iff, area2_swap]; exact not_lt.mpr (by linarith)
    simp [h1, h2]

/-- With culling on, exactly one of the two vertex orders of a non-degenerate triangle is culled. -/
theorem cull_exactly_one (ctx : Ctx) (m : FaceCull) (hm : ctx.faceCull = some m) (a b c : List K)
    (h : area2 a b c ≠ 0) : culled ctx a c b = !culled ctx a b c := by
  cases m <;> simp [culled, hm, backface_swap a b c h]

/-- Front and back culling select opposite orders. -/
theorem cull_modes_opposite (c1 c2 : Ctx) (h1 : c1.faceCull = some .back) (h2 : c2.faceCull = some .front)
    (a b c : List K) : culled c2 a b c = !culled c1 a b c := by
  simp [culled, h1, h2]

/-- With culling off nothing is culled. -/
theorem cull_off_draws_both (ctx : Ctx) (h : ctx.faceCull = none) (a b c : List K) :
    culled ctx a b c = false ∧ culled ctx a c b = false := by
  simp [culled, h]

example : area2 (K := Rat) [0, 0] [1, 0] [0, 1] ≠ 0 := by norm_num [area2, nth0, nth1]

end Cull


/-! ### Statistics -/

section Stats
variable {α : Type} [Add α] [Sub α] [Mul α] [Div α] [Neg α] [LT α] [DecidableLT α]
  [OfNat α 0] [OfNat α 1] [OfNat α 2] [HasFloor α] [HasToNat α] {C : Type}

/-- One scanline never reports more fragments written than fragments generated. -/
theorem rasterize_count_le (ctx : Ctx) (shade : List α → Option C) (t t' : Target α C) (sl : Scanline α)
    (i o : Nat) (h : rasterize ctx shade t sl = .ok (t', i, o)) : o ≤ i := by
  unfold rasterize at h
  simp only at h
  split at h
  · cases h
  · rename_i crow _
    split at h
    · cases h
    · split at h
      · -- colour-only
        have hle := spanColor_count_le ctx shade (sl.frags.map zdiv)
          ((crow.drop sl.x0).take (Nat.max sl.x1 sl.x0 - sl.x0))
        rcases e : shadeSpanColor ctx shade (sl.frags.map zdiv)
          ((crow.drop sl.x0).take (Nat.max sl.x1 sl.x0 - sl.x0)) with ⟨cs, o'⟩
        rw [e] at h hle
        simp only [Outcome.ok.injEq, Prod.mk.injEq] at h
        obtain ⟨-, hi, ho⟩ := h
        subst hi ho
        have := List.length_take_le (Nat.max sl.x1 sl.x0 - sl.x0) (crow.drop sl.x0)
        simp only at hle
        omega
      · rename_i dbuf _
        split at h
        · cases h
        · rename_i zrow _
          split at h
          · cases h
          · have hle := span_count_le ctx shade (sl.frags.map zdiv)
              ((crow.drop sl.x0).take (Nat.max sl.x1 sl.x0 - sl.x0))
              ((zrow.drop sl.x0).take (Nat.max sl.x1 sl.x0 - sl.x0))
            rcases e : shadeSpan ctx shade (sl.frags.map zdiv)
              ((crow.drop sl.x0).take (Nat.max sl.x1 sl.x0 - sl.x0))
              ((zrow.drop sl.x0).take (Nat.max sl.x1 sl.x0 - sl.x0)) with ⟨cs, zs, o'⟩
            rw [e] at h hle
            simp only [Outcome.ok.injEq, Prod.mk.injEq] at h
            obtain ⟨-, hi, ho⟩ := h
            subst hi ho
            have := List.length_take_le (Nat.max sl.x1 sl.x0 - sl.x0) (crow.drop sl.x0)
            simp only at hle
            omega

/-- The bookkeeping invariant of one render call. -/
def StatsInv (c0 p0 v0 : Nat) (st : Stats) : Prop :=
  st.calls = c0 ∧ st.primsI = p0 ∧ st.vertsI = v0 ∧ st.vertsO = 3 * st.primsO ∧ st.fragsO ≤ st.fragsI

theorem rasterizeAll_inv (ctx : Ctx) (shade : List α → Option C) (c0 p0 v0 : Nat)
    (sls : List (Scanline α)) (t t' : Target α C) (st st' : Stats)
    (h : rasterizeAll ctx shade t st sls = .ok (t', st')) (hinv : StatsInv c0 p0 v0 st) :
    StatsInv c0 p0 v0 st' ∧ st'.primsO = st.primsO := by
  induction sls generalizing t st with
  | nil =>
    simp only [rasterizeAll, Outcome.ok.injEq, Prod.mk.injEq] at h
    obtain ⟨-, rfl⟩ := h
    exact ⟨hinv, rfl⟩
  | cons sl rest ih =>
    simp only [rasterizeAll] at h
    split at h
    · cases h
    · rename_i t1 i o hr
      have hle := rasterize_count_le ctx shade t t1 sl i o hr
      obtain ⟨h1, h2, h3, h4, h5⟩ := hinv
      have := ih t1 { st with fragsI := st.fragsI + i, fragsO := st.fragsO + o } h
        ⟨h1, h2, h3, h4, by simp only; omega⟩
      exact ⟨this.1, this.2⟩

theorem drawTris_inv (ctx : Ctx) (shade : List α → Option C) (m : Mat4 α) (c0 p0 v0 : Nat)
    (ts : List (Tri α)) (t t' : Target α C) (st st' : Stats)
    (h : drawTris ctx shade m t st ts = .ok (t', st')) (hinv : StatsInv c0 p0 v0 st) :
    StatsInv c0 p0 v0 st' := by
  induction ts generalizing t st with
  | nil =>
    simp only [drawTris, Outcome.ok.injEq, Prod.mk.injEq] at h
    obtain ⟨-, rfl⟩ := h
    exact hinv
  | cons tri rest ih =>
    simp only [drawTris] at h
    split at h
    · exact ih t st h hinv
    · split at h
      · cases h
      · rename_i t1 st1 hr
        obtain ⟨h1, h2, h3, h4, h5⟩ := hinv
        have hstep := rasterizeAll_inv ctx shade c0 p0 v0 _ t t1
          { st with primsO := st.primsO + 1, vertsO := st.vertsO + 3 } st1 hr
          ⟨h1, h2, h3, by simp only; omega, h5⟩
        exact ih t1 st1 h hstep.1

/-- **Statistics of one call.** Whenever `render` completes: calls = 1, prims.i and verts.i are the
numbers of triangles and vertices submitted, every surviving triangle contributes three output
vertices, and no more fragments are written than generated. -/
theorem render_stats (ctx : Ctx) (shade : List α → Option C) (m : Mat4 α)
    (tris : List (Nat × Nat × Nat)) (verts : List (Vec4 α × List α)) (t t' : Target α C) (st : Stats)
    (h : render ctx shade m tris verts t = .ok (t', st)) :
    st.calls = 1 ∧ st.primsI = tris.length ∧ st.vertsI = verts.length ∧
    st.vertsO = 3 * st.primsO ∧ st.fragsO ≤ st.fragsI := by
  unfold render at h
  simp only at h
  split at h
  · cases h
  · exact drawTris_inv ctx shade m 1 tris.length verts.length _ t t' _ st h
      ⟨rfl, rfl, rfl, rfl, Nat.le_refl _⟩

end Stats

end Retro.Props.C07
