/-
Non-vacuity: the two-triangle scene `NV` of `Retro.Props.C06.Buffer` meets every hypothesis of the
whole-`render` theorems of C02, C06 and C07 that had no instantiation of their own.
-/
import Retro.Props.C07.Masks
import Retro.Props.C02.ConfinedColor

namespace Retro.Props.C07.Examples
open Retro Retro.Clip Retro.Render Retro.Props.C06 Retro.Props.C06.NV Retro.Props.C02

theorem hv : ∀ v ∈ vs, v.1.z = (11 / 9 : Rat) * v.1.w + (-20 / 9) ∧ v.2.length = 1 := by
  intro v hv
  simp only [vs, List.mem_cons, List.mem_nil_iff, or_false] at hv
  rcases hv with rfl | rfl | rfl | rfl | rfl | rfl <;> refine ⟨?_, rfl⟩ <;> norm_num [pz]

theorem hw : WFD t0 4 4 := by
  refine ⟨⟨rfl, by decide, ?_⟩, rfl⟩
  intro d hd; cases hd; exact ⟨rfl, by decide⟩

/-- a colour-only 4×4 target -/
def tc : Target Rat Nat := ⟨List.replicate 4 (List.replicate 4 0), none⟩
theorem hwc : WFC tc 4 4 := by
  refine ⟨⟨rfl, by decide, ?_⟩, rfl⟩
  intro d hd; cases hd

theorem P : Retro.Props.C02.ClipInv (fun v : Vec4 Rat => v.z = (11 / 9 : Rat) * v.w + (-20 / 9)) := perspInv (11 / 9 : Rat) (-20 / 9) (by norm_num) (by norm_num)

-- C06 render_split: one call on both triangles = a call on the first, then a call on the second
example := render_split _ P c0 c0 c1 ⟨rfl, rfl, rfl⟩ ⟨rfl, rfl, rfl⟩ ⟨rfl, rfl, rfl⟩ rfl rfl
    sh 0 4 0 4 4 4 1 (by omega) (by omega) (by omega) (by omega) [(0, 1, 2)] [(3, 4, 5)] vs (by decide) hv t0 hw noTies
-- C02 render_viewport_confined through the sub-viewport (1,1)..(3,3)
example := render_viewport_confined _ P c0 sh 1 3 1 3 4 4 1 (by omega) (by omega) (by omega) (by omega)
    [(0, 1, 2), (3, 4, 5)] vs (by decide) hv t0 hw
-- C02 render_color_target on a colour-only target
example := render_color_target _ P c0 sh 1 3 1 3 4 4 1 (by omega) (by omega) (by omega) (by omega)
    [(0, 1, 2), (3, 4, 5)] vs (by decide) hv tc hwc
-- C07 masks, discard and depth-test-off
example := render_color_mask _ P { faceCull := none, colorWrite := false } rfl sh 0 4 0 4 4 4 1
    (by omega) (by omega) (by omega) (by omega) [(0, 1, 2), (3, 4, 5)] vs (by decide) hv t0 hw
example := render_depth_mask _ P { faceCull := none, depthWrite := false } rfl sh 0 4 0 4 4 4 1
    (by omega) (by omega) (by omega) (by omega) [(0, 1, 2), (3, 4, 5)] vs (by decide) hv t0 hw
example := render_discard_all _ P c0 (fun _ => (none : Option Nat)) (fun _ => rfl) 0 4 0 4 4 4 1
    (by omega) (by omega) (by omega) (by omega) [(0, 1, 2), (3, 4, 5)] vs (by decide) hv t0 hw
example := render_test_none _ P { faceCull := none, depthTest := none } ⟨rfl, rfl, rfl⟩ sh 0 4 0 4 4 4 1
    (by omega) (by omega) (by omega) (by omega) [(0, 1, 2), (3, 4, 5)] vs (by decide) hv t0 hw

end Retro.Props.C07.Examples
