/-
C07, write masks at the level of whole framebuffers and `render` calls (depth-buffered targets),
on top of the per-pixel semantics of `drawTris` (`Retro.Props.C06.drawTris_pix`).
-/
import Retro.Props.C07.Base
import Retro.Props.C06.Buffer

namespace Retro.Props.C07
open Retro Retro.Clip Retro.Raster Retro.Render Retro.Lemmas.Target Retro.Lemmas.Raster Retro.Lemmas.Clip
open Retro.Props.C02 Retro.Props.C06

variable {K : Type} [Field K] [LinearOrder K] [IsStrictOrderedRing K] [FloorRing K] {C : Type}
attribute [local instance] hasFloorK hasToNatK

/-- With colour writes off the fold of any fragment list keeps the pixel's colour. -/
theorem fold_color_off (ctx : Ctx) (h : ctx.colorWrite = false) (shade : List K → Option C)
    (fs : List (List K)) (s : C × K) : (pixelFold ctx shade fs s).1 = s.1 := by
  unfold pixelFold
  induction fs generalizing s with
  | nil => rfl
  | cons f fs ih =>
    simp only [List.foldl_cons]
    rw [ih]
    exact (color_write_off ctx shade f s.1 s.2 h).1

/-- With depth writes off the fold of any fragment list keeps the pixel's depth. -/
theorem fold_depth_off (ctx : Ctx) (h : ctx.depthWrite = false) (shade : List K → Option C)
    (fs : List (List K)) (s : C × K) : (pixelFold ctx shade fs s).2 = s.2 := by
  unfold pixelFold
  induction fs generalizing s with
  | nil => rfl
  | cons f fs ih =>
    simp only [List.foldl_cons]
    rw [ih]
    exact depth_write_off ctx shade f s.1 s.2 h

/-- A shader that discards every fragment leaves the pixel alone. -/
theorem fold_discard_all (ctx : Ctx) (shade : List K → Option C) (hs : ∀ f, shade f = none)
    (fs : List (List K)) (s : C × K) : pixelFold ctx shade fs s = s := by
  unfold pixelFold
  induction fs generalizing s with
  | nil => rfl
  | cons f fs ih =>
    simp only [List.foldl_cons]
    have : step1 ctx shade s f = s := by
      unfold step1
      rw [shader_none_writes_nothing ctx shade f s.1 s.2 (hs f)]
    rw [this]
    exact ih s

/-- Colour buffers of two `W`×`H` depth-buffered targets are equal when all in-bounds pixel colours are. -/
theorem color_ext (t1 t2 : Target K C) (W H : Nat) (w1 : WFD t1 W H) (w2 : WFD t2 W H)
    (h : ∀ x y, x < W → y < H → pixC t1 x y = pixC t2 x y) : t1.color = t2.color :=
  grid_ext W H _ _ w1.1.1 w2.1.1 w1.1.2.1 w2.1.2.1 h

theorem depth_ext (t1 t2 : Target K C) (W H : Nat) (w1 : WFD t1 W H) (w2 : WFD t2 W H)
    (h : ∀ x y, x < W → y < H → pixZ t1 x y = pixZ t2 x y) : t1.depth = t2.depth := by
  obtain ⟨⟨_, _, hdep1⟩, hds1⟩ := w1
  obtain ⟨⟨_, _, hdep2⟩, hds2⟩ := w2
  obtain ⟨d1, hd1⟩ := Option.isSome_iff_exists.mp hds1
  obtain ⟨d2, hd2⟩ := Option.isSome_iff_exists.mp hds2
  obtain ⟨hdl1, hdr1⟩ := hdep1 d1 hd1
  obtain ⟨hdl2, hdr2⟩ := hdep2 d2 hd2
  have ed : d1 = d2 := by
    apply grid_ext W H _ _ hdl1 hdl2 hdr1 hdr2
    intro x y hx hy
    have := h x y hx hy
    simpa only [pixZ, hd1, hd2, Option.bind_some] using this
  rw [hd1, hd2, ed]

/-- In-bounds, `pix` determines `pixC` and `pixZ`. -/
theorem pix_parts (t : Target K C) (W H : Nat) (w : WFD t W H) (x y : Nat) (hx : x < W) (hy : y < H) :
    ∃ c z, pixC t x y = some c ∧ pixZ t x y = some z ∧ pix t x y = some (c, z) := by
  obtain ⟨c, z, hc, hz⟩ := pix_inbounds t W H w x y hx hy
  exact ⟨c, z, hc, hz, by simp [pix, hc, hz]⟩

/-- **Colour mask, whole framebuffer.** With `color_write = false` a draw loop leaves the colour buffer
exactly as it was — whatever the triangles, shader, depth test and depth-write setting. -/
theorem drawTris_color_mask (ctx : Ctx) (h : ctx.colorWrite = false) (shade : List K → Option C) (m : Mat4 K)
    (W H : Nat) (ts : List (Tri K)) (hin : TrisInRect m W H ts) (t : Target K C) (st : Stats) (hwf : WFD t W H) :
    ∃ t' st', drawTris ctx shade m t st ts = .ok (t', st') ∧ t'.color = t.color := by
  obtain ⟨t', st', hr, hw', hp⟩ := drawTris_pix ctx shade m W H ts hin t st hwf
  refine ⟨t', st', hr, color_ext t' t W H hw' hwf ?_⟩
  intro x y hx hy
  obtain ⟨c, z, hc, _, hpx⟩ := pix_parts t W H hwf x y hx hy
  obtain ⟨c', z', hc', _, hpx'⟩ := pix_parts t' W H hw' x y hx hy
  have := hp x y
  rw [hpx, hpx', Option.map_some, Option.some.injEq] at this
  have e : c' = c := by
    have := congrArg Prod.fst this
    simpa [fold_color_off ctx h] using this
  rw [hc, hc', e]

/-- **Depth mask, whole framebuffer.** With `depth_write = false` the depth buffer is left exactly as it was. -/
theorem drawTris_depth_mask (ctx : Ctx) (h : ctx.depthWrite = false) (shade : List K → Option C) (m : Mat4 K)
    (W H : Nat) (ts : List (Tri K)) (hin : TrisInRect m W H ts) (t : Target K C) (st : Stats) (hwf : WFD t W H) :
    ∃ t' st', drawTris ctx shade m t st ts = .ok (t', st') ∧ t'.depth = t.depth := by
  obtain ⟨t', st', hr, hw', hp⟩ := drawTris_pix ctx shade m W H ts hin t st hwf
  refine ⟨t', st', hr, depth_ext t' t W H hw' hwf ?_⟩
  intro x y hx hy
  obtain ⟨c, z, _, hz, hpx⟩ := pix_parts t W H hwf x y hx hy
  obtain ⟨c', z', _, hz', hpx'⟩ := pix_parts t' W H hw' x y hx hy
  have := hp x y
  rw [hpx, hpx', Option.map_some, Option.some.injEq] at this
  have e : z' = z := by
    have := congrArg Prod.snd this
    simpa [fold_depth_off ctx h] using this
  rw [hz, hz', e]

/-- **A fragment shader that returns no colour writes nothing**: the whole target is unchanged. -/
theorem drawTris_discard_all (ctx : Ctx) (shade : List K → Option C) (hs : ∀ f, shade f = none) (m : Mat4 K)
    (W H : Nat) (ts : List (Tri K)) (hin : TrisInRect m W H ts) (t : Target K C) (st : Stats) (hwf : WFD t W H) :
    ∃ st', drawTris ctx shade m t st ts = .ok (t, st') := by
  obtain ⟨t', st', hr, hw', hp⟩ := drawTris_pix ctx shade m W H ts hin t st hwf
  have : t' = t := by
    apply target_ext t' t W H hw' hwf
    intro x y _ _
    rw [hp x y]
    cases pix t x y with
    | none => rfl
    | some s => simp [fold_discard_all ctx shade hs]
  subst this
  exact ⟨st', hr⟩

/-- **Depth test off: every shaded fragment is written**, so a pixel ends with the LAST shaded fragment
that reached it (or unchanged if none was shaded). -/
theorem fold_test_none (ctx : Ctx) (hp : Painter ctx) (shade : List K → Option C) (fs : List (List K)) (s : C × K) :
    pixelFold ctx shade fs s =
      match (fs.filter fun f => (shade f).isSome).getLast? with
      | none => s
      | some f => ((shade f).getD s.1, nth2 f) := by
  unfold pixelFold
  induction fs generalizing s with
  | nil => rfl
  | cons f fs ih =>
    simp only [List.foldl_cons]
    rw [ih, painter_step ctx hp]
    cases hs : shade f with
    | none => simp [hs]
    | some col =>
      simp only [List.filter_cons, hs, Option.isSome_some, if_true]
      cases hl : (fs.filter fun f => (shade f).isSome).getLast? with
      | none =>
        have : fs.filter (fun f => (shade f).isSome) = [] := by
          cases hfl : fs.filter (fun f => (shade f).isSome) with
          | nil => rfl
          | cons a as => rw [hfl] at hl; simp at hl
        simp [this, hs]
      | some g =>
        have hne : fs.filter (fun f => (shade f).isSome) ≠ [] := by
          intro h0; rw [h0] at hl; simp at hl
        rw [List.getLast?_cons_of_ne_nil hne, hl]
        have hg : (shade g).isSome := by
          have hmem : g ∈ fs.filter (fun f => (shade f).isSome) := List.mem_of_getLast? hl
          exact (List.mem_filter.mp hmem).2
        obtain ⟨cg, hcg⟩ := Option.isSome_iff_exists.mp hg
        simp [hcg]

/-! ### Whole `render` calls (library viewport matrix, clip-space input on a perspective or affine image) -/

/-- **`color_write = false`: `render` leaves the colour buffer untouched** (depth may change). -/
theorem render_color_mask (Q : Vec4 K → Prop) (hQ : ClipInv Q) (ctx : Ctx) (h : ctx.colorWrite = false)
    (shade : List K → Option C) (L R T B W H k : Nat) (hLR : L ≤ R) (hTB : T ≤ B) (hRW : R ≤ W) (hBH : B ≤ H)
    (tris : List (Nat × Nat × Nat)) (verts : List (Vec4 K × List K))
    (hidx : ∀ t ∈ tris, t.1 < verts.length ∧ t.2.1 < verts.length ∧ t.2.2 < verts.length)
    (hverts : ∀ v ∈ verts, Q v.1 ∧ v.2.length = k) (t : Target K C) (hwf : WFD t W H) :
    ∃ t' st, render ctx shade (viewportMat L R T B) tris verts t = .ok (t', st) ∧ t'.color = t.color := by
  obtain ⟨e, hin⟩ := render_eq_drawTris Q hQ ctx shade L R T B W H k hLR hTB hRW hBH tris verts hidx hverts t
  rw [e]
  exact drawTris_color_mask ctx h shade _ W H _ hin t _ hwf

/-- **`depth_write = false`: `render` leaves the depth buffer untouched.** -/
theorem render_depth_mask (Q : Vec4 K → Prop) (hQ : ClipInv Q) (ctx : Ctx) (h : ctx.depthWrite = false)
    (shade : List K → Option C) (L R T B W H k : Nat) (hLR : L ≤ R) (hTB : T ≤ B) (hRW : R ≤ W) (hBH : B ≤ H)
    (tris : List (Nat × Nat × Nat)) (verts : List (Vec4 K × List K))
    (hidx : ∀ t ∈ tris, t.1 < verts.length ∧ t.2.1 < verts.length ∧ t.2.2 < verts.length)
    (hverts : ∀ v ∈ verts, Q v.1 ∧ v.2.length = k) (t : Target K C) (hwf : WFD t W H) :
    ∃ t' st, render ctx shade (viewportMat L R T B) tris verts t = .ok (t', st) ∧ t'.depth = t.depth := by
  obtain ⟨e, hin⟩ := render_eq_drawTris Q hQ ctx shade L R T B W H k hLR hTB hRW hBH tris verts hidx hverts t
  rw [e]
  exact drawTris_depth_mask ctx h shade _ W H _ hin t _ hwf

/-- **A fragment shader returning no colour: `render` returns the target unchanged.** -/
theorem render_discard_all (Q : Vec4 K → Prop) (hQ : ClipInv Q) (ctx : Ctx)
    (shade : List K → Option C) (hs : ∀ f, shade f = none)
    (L R T B W H k : Nat) (hLR : L ≤ R) (hTB : T ≤ B) (hRW : R ≤ W) (hBH : B ≤ H)
    (tris : List (Nat × Nat × Nat)) (verts : List (Vec4 K × List K))
    (hidx : ∀ t ∈ tris, t.1 < verts.length ∧ t.2.1 < verts.length ∧ t.2.2 < verts.length)
    (hverts : ∀ v ∈ verts, Q v.1 ∧ v.2.length = k) (t : Target K C) (hwf : WFD t W H) :
    ∃ st, render ctx shade (viewportMat L R T B) tris verts t = .ok (t, st) := by
  obtain ⟨e, hin⟩ := render_eq_drawTris Q hQ ctx shade L R T B W H k hLR hTB hRW hBH tris verts hidx hverts t
  rw [e]
  exact drawTris_discard_all ctx shade hs _ W H _ hin t _ hwf

/-- **Depth test disabled: every pixel ends with the last shaded fragment that reached it**, in the
order `render` draws (`renderList`), or is unchanged if no shaded fragment reached it. -/
theorem render_test_none (Q : Vec4 K → Prop) (hQ : ClipInv Q) (ctx : Ctx) (hp : Painter ctx)
    (shade : List K → Option C) (L R T B W H k : Nat) (hLR : L ≤ R) (hTB : T ≤ B) (hRW : R ≤ W) (hBH : B ≤ H)
    (tris : List (Nat × Nat × Nat)) (verts : List (Vec4 K × List K))
    (hidx : ∀ t ∈ tris, t.1 < verts.length ∧ t.2.1 < verts.length ∧ t.2.2 < verts.length)
    (hverts : ∀ v ∈ verts, Q v.1 ∧ v.2.length = k) (t : Target K C) (hwf : WFD t W H) :
    ∃ t' st, render ctx shade (viewportMat L R T B) tris verts t = .ok (t', st) ∧
      ∀ x y, pix t' x y = (pix t x y).map fun s =>
        match ((triFrags ctx (viewportMat L R T B) (renderList ctx verts tris) x y).filter
            fun f => (shade f).isSome).getLast? with
        | none => s
        | some f => ((shade f).getD s.1, nth2 f) := by
  obtain ⟨e, hin⟩ := render_eq_drawTris Q hQ ctx shade L R T B W H k hLR hTB hRW hBH tris verts hidx hverts t
  rw [e]
  obtain ⟨t', st', hr, _, hpx⟩ := drawTris_pix ctx shade _ W H _ hin t
    { calls := 1, primsI := tris.length, vertsI := verts.length } hwf
  refine ⟨t', st', hr, fun x y => ?_⟩
  rw [hpx x y]
  congr 1
  funext s
  exact fold_test_none ctx hp shade _ s

end Retro.Props.C07
