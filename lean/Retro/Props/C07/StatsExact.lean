/-
C07 `stats_exact` — the statistics of one `render` call equal what happened.

`Retro.Props.C07.Base.render_stats` proves the bookkeeping invariants (calls = 1, prims.i, verts.i,
verts.o = 3·prims.o, frags.o ≤ frags.i). This file says what prims.o, frags.i and frags.o ARE, by
counting over objects that are defined here without the model's counters:

  * `drawn ctx m ts`          the triangles of `ts` that are not `culled` on screen
  * `spanLen sl`              `max x1 x0 − x0`, the pixels of one span
  * `gridSum W H f`           Σ over the pixels (x, y), x < W, y < H
  * `pixelWins ctx shade fs z` how many fragments of the per-pixel sequence `fs`, taken in draw order,
                              pass the depth test against the depth value current at that moment
                              (starting from `z`, advanced by `zAfter` when depth writes are on) AND
                              are given a colour by the fragment shader
  * `shadedCount shade fs`    how many fragments of `fs` are given a colour (colour-only targets)

  generic in the scalar, no hypotheses beyond "the call returned":
    `render_primsO`      prims.o = |drawn (clipTris (lookup tris))|, depth sort or not
    `render_primsO_cull_off`, `render_primsO_all_culled`
    `render_fragsI`      frags.i = Σ drawn triangles Σ scanlines `spanLen`
    `render_vertsO`      verts.o = 3·|drawn …|
    `render_additive` (= `stats_additive`), `render_additive_conv`
                         same Context without depth sort: a call on `tris1 ++ tris2` returns iff the call
                         on `tris1` and then the call on `tris2` (into the target the first one left) return,
                         the final targets are equal and EVERY counter of the single call is the sum of the
                         two calls' counters (except `calls`: 1 against 1 + 1)
    `render_additive_sorted` ANY three depth-sort settings: prims.o, verts.o and frags.i of the single call are
                         the sums of the two calls' (they are permutation invariant)
  over a linearly ordered field with floor, for a scene satisfying the hypotheses of C02's `render_ok_of`:
    `render_fragsI_pixels`  frags.i = number of (drawn triangle, pixel) pairs whose pixel centre passes the
                            edge-function coverage test `Inside` of C04 — "fragments generated"
    `render_fragsO`         depth-buffered target: frags.o = (colour writes on ? Σ pixels `pixelWins` of the
                            pixel's fragment sequence `triFrags` from the pixel's initial depth : 0)
    `render_fragsO_color`   colour-only target: frags.o = (colour writes on ? Σ pixels `shadedCount` : 0)
    `render_stats_exact`    the conjunction, for both target kinds (hypothesis `WFT`, exactly as `render_ok_of`)
  frags.o is NOT additive across different depth-sort settings (the number of depth-test wins depends on
  the order although the final buffers do not): `StatsNV.fragsO_not_additive_sorted` is a concrete witness.
-/
import Retro.Props.C07.Masks
import Retro.Props.C07.Examples
import Retro.Props.C02.ConfinedColor
import Retro.Props.C01.IdealFrag

namespace Retro.Props.C07
open Retro Retro.Clip Retro.Raster Retro.Render

set_option linter.unusedSectionVars false

/-! ### Sums over pixel grids -/

/-- `f 0 + … + f (n-1)` -/
def sumTo : Nat → (Nat → Nat) → Nat
  | 0, _ => 0
  | n + 1, f => sumTo n f + f n

/-- Σ over the pixels of a `W`×`H` buffer. -/
def gridSum (W H : Nat) (f : Nat → Nat → Nat) : Nat := sumTo H fun y => sumTo W fun x => f x y

theorem sumTo_congr {n : Nat} {f g : Nat → Nat} (h : ∀ i, i < n → f i = g i) : sumTo n f = sumTo n g := by
  induction n with
  | zero => rfl
  | succ n ih =>
    simp only [sumTo]
    rw [ih (fun i hi => h i (by omega)), h n (by omega)]

theorem sumTo_zero (n : Nat) : sumTo n (fun _ => 0) = 0 := by
  induction n with
  | zero => rfl
  | succ n ih => simp [sumTo, ih]

theorem sumTo_add (n : Nat) (f g : Nat → Nat) : sumTo n (fun i => f i + g i) = sumTo n f + sumTo n g := by
  induction n with
  | zero => rfl
  | succ n ih => simp only [sumTo, ih]; omega

theorem sumTo_succ_front (n : Nat) (f : Nat → Nat) : sumTo (n + 1) f = f 0 + sumTo n (fun i => f (i + 1)) := by
  induction n with
  | zero => simp [sumTo]
  | succ n ih =>
    rw [sumTo, ih]
    simp only [sumTo]
    omega

theorem sumTo_single (n : Nat) (f : Nat → Nat) (i0 : Nat) (hi : i0 < n) (h : ∀ i, i < n → i ≠ i0 → f i = 0) :
    sumTo n f = f i0 := by
  induction n with
  | zero => omega
  | succ n ih =>
    simp only [sumTo]
    by_cases e : i0 = n
    · subst e
      rw [sumTo_congr (g := fun _ => 0) (fun i hi' => h i (by omega) (by omega)), sumTo_zero]
      omega
    · rw [ih (by omega) (fun i hi' hne => h i (by omega) hne), h n (by omega) (fun hh => e hh.symm)]
      omega

/-- A window `x0 ≤ x < x1` of a row, re-indexed from 0. -/
theorem sumTo_window (W x0 x1 : Nat) (g : Nat → Nat) (h01 : x0 ≤ x1) (h1W : x1 ≤ W) :
    sumTo W (fun x => if x0 ≤ x ∧ x < x1 then g (x - x0) else 0) = sumTo (x1 - x0) g := by
  induction W generalizing x1 with
  | zero =>
    have : x1 - x0 = 0 := by omega
    rw [this]; rfl
  | succ W ih =>
    simp only [sumTo]
    by_cases hle : x1 ≤ W
    · rw [ih x1 h01 hle, if_neg (by omega)]
      omega
    · have hx1 : x1 = W + 1 := by omega
      subst hx1
      by_cases hx0 : x0 = W + 1
      · subst hx0
        rw [sumTo_congr (g := fun _ => 0) (fun i hi => if_neg (by omega)), sumTo_zero, if_neg (by omega)]
        simp [sumTo]
      · have e : sumTo W (fun x => if x0 ≤ x ∧ x < W + 1 then g (x - x0) else 0) =
            sumTo W (fun x => if x0 ≤ x ∧ x < W then g (x - x0) else 0) := by
          apply sumTo_congr
          intro i hi
          by_cases hc : x0 ≤ i
          · rw [if_pos ⟨hc, by omega⟩, if_pos ⟨hc, hi⟩]
          · rw [if_neg (fun hh => hc hh.1), if_neg (fun hh => hc hh.1)]
        rw [e, ih W (by omega) (Nat.le_refl _), if_pos ⟨by omega, by omega⟩]
        have : W + 1 - x0 = (W - x0) + 1 := by omega
        rw [this]
        rfl

theorem gridSum_congr {W H : Nat} {f g : Nat → Nat → Nat} (h : ∀ x y, x < W → y < H → f x y = g x y) :
    gridSum W H f = gridSum W H g :=
  sumTo_congr fun y hy => sumTo_congr fun x hx => h x y hx hy

theorem gridSum_zero (W H : Nat) : gridSum W H (fun _ _ => 0) = 0 := by
  unfold gridSum
  rw [sumTo_congr (g := fun _ => 0) (fun y _ => sumTo_zero W), sumTo_zero]

theorem gridSum_add (W H : Nat) (f g : Nat → Nat → Nat) :
    gridSum W H (fun x y => f x y + g x y) = gridSum W H f + gridSum W H g := by
  unfold gridSum
  rw [← sumTo_add]
  exact sumTo_congr fun y _ => sumTo_add W _ _

/-- A function supported on the window `x0 ≤ x < x1` of row `y0`. -/
theorem gridSum_window (W H y0 x0 x1 : Nat) (g : Nat → Nat) (hy : y0 < H) (h01 : x0 ≤ x1) (h1W : x1 ≤ W) :
    gridSum W H (fun x y => if y = y0 ∧ x0 ≤ x ∧ x < x1 then g (x - x0) else 0) = sumTo (x1 - x0) g := by
  unfold gridSum
  rw [sumTo_single H _ y0 hy]
  · rw [← sumTo_window W x0 x1 g h01 h1W]
    apply sumTo_congr
    intro x _
    show (if y0 = y0 ∧ x0 ≤ x ∧ x < x1 then g (x - x0) else 0) = _
    by_cases hc : x0 ≤ x ∧ x < x1
    · rw [if_pos ⟨rfl, hc⟩, if_pos hc]
    · rw [if_neg (fun hh => hc hh.2), if_neg hc]
  · intro y _ hne
    rw [sumTo_congr (g := fun _ => 0) (fun x _ => if_neg (fun hh => hne hh.1)), sumTo_zero]

/-! ### The right-hand sides: what is counted (generic scalar) -/

section Generic
variable {α : Type} [Add α] [Sub α] [Mul α] [Div α] [Neg α] [LT α] [DecidableLT α]
  [OfNat α 0] [OfNat α 1] [OfNat α 2] [HasFloor α] [HasToNat α] {C : Type}

/-- The triangles of a (post-clip) list that survive face culling on screen — the ones drawn. -/
def drawn (ctx : Ctx) (m : Mat4 α) (ts : List (Tri α)) : List (Tri α) :=
  ts.filter fun tri => !culled ctx (toScreen m tri.a) (toScreen m tri.b) (toScreen m tri.c)

/-- Number of pixels of one span, as target.rs computes it: `max x1 x0 − x0`. -/
def spanLen (sl : Scanline α) : Nat := Nat.max sl.x1 sl.x0 - sl.x0

/-- Pixels of all spans of one screen triangle. -/
def triSpans (m : Mat4 α) (tri : Tri α) : Nat :=
  ((triFill (toScreen m tri.a) (toScreen m tri.b) (toScreen m tri.c)).map spanLen).sum

/-- Σ over drawn triangles Σ over their scanlines of the span length. -/
def spanTotal (ctx : Ctx) (m : Mat4 α) (ts : List (Tri α)) : Nat := ((drawn ctx m ts).map (triSpans m)).sum

/-- The order in which `render` draws the clipped triangles. -/
def drawOrder (ctx : Ctx) (ts : List (Tri α)) : List (Tri α) :=
  match ctx.depthSort with
  | some d => depthSorted d ts
  | none => ts

/-- Fragment `f` is written over a pixel holding depth `z`: it passes the depth test and is shaded. -/
def fragWin (ctx : Ctx) (shade : List α → Option C) (f : List α) (z : α) : Bool :=
  depthTest ctx (nth2 f) z && (shade f).isSome

/-- The depth a pixel holds after fragment `f` arrived. -/
def zAfter (ctx : Ctx) (shade : List α → Option C) (z : α) (f : List α) : α :=
  if fragWin ctx shade f z && ctx.depthWrite then nth2 f else z

/-- **How many fragments of a per-pixel sequence are written**, in arrival order, each tested against
the depth value current at that moment. -/
def pixelWins (ctx : Ctx) (shade : List α → Option C) : List (List α) → α → Nat
  | [], _ => 0
  | f :: fs, z => (if fragWin ctx shade f z then 1 else 0) + pixelWins ctx shade fs (zAfter ctx shade z f)

/-- `pixelWins` from the (colour, depth) a pixel holds; nothing outside the buffers. -/
def pixW (ctx : Ctx) (shade : List α → Option C) (fs : List (List α)) : Option (C × α) → Nat
  | some s => pixelWins ctx shade fs s.2
  | none => 0

/-- How many fragments of a sequence the shader gives a colour (colour-only targets: no depth test). -/
def shadedCount (shade : List α → Option C) (fs : List (List α)) : Nat := fs.countP fun f => (shade f).isSome

/-- `n` when colour writes are on, else 0 (target.rs counts a fragment as written only then). -/
def cwMul (ctx : Ctx) (n : Nat) : Nat := if ctx.colorWrite then n else 0

theorem cwMul_add (ctx : Ctx) (a b : Nat) : cwMul ctx (a + b) = cwMul ctx a + cwMul ctx b := by
  unfold cwMul; split <;> rfl

theorem cwMul_zero (ctx : Ctx) : cwMul ctx 0 = 0 := by unfold cwMul; split <;> rfl

/-! ### Per fragment and per span -/

theorem shadeFrag_count (ctx : Ctx) (shade : List α → Option C) (f : List α) (c : C) (z : α) :
    (shadeFrag ctx shade f c z).2.2 = cwMul ctx (if fragWin ctx shade f z then 1 else 0) := by
  unfold shadeFrag fragWin cwMul
  by_cases hp : depthTest ctx (nth2 f) z = true
  · cases hs : shade f with
    | none => simp [hp]
    | some col => by_cases hc : ctx.colorWrite = true <;> simp [hp, hc]
  · simp [hp]

theorem shadeFrag_depth (ctx : Ctx) (shade : List α → Option C) (f : List α) (c : C) (z : α) :
    (shadeFrag ctx shade f c z).2.1 = zAfter ctx shade z f := by
  unfold shadeFrag zAfter fragWin
  by_cases hp : depthTest ctx (nth2 f) z = true
  · cases hs : shade f with
    | none => simp [hp]
    | some col => by_cases hd : ctx.depthWrite = true <;> simp [hp, hd]
  · simp [hp]

/-- What position `i` of a span contributes to the written count. -/
def optWin (ctx : Ctx) (shade : List α → Option C) : Option (List α) → Option α → Nat
  | some f, some z => if fragWin ctx shade f z then 1 else 0
  | _, _ => 0

/-- The span loop's counter, position by position. -/
theorem shadeSpan_count (ctx : Ctx) (shade : List α → Option C) (fs : List (List α)) (cs : List C) (zs : List α)
    (hl : cs.length = zs.length) (n : Nat) (hn : zs.length ≤ n) :
    (shadeSpan ctx shade fs cs zs).2.2 = cwMul ctx (sumTo n fun i => optWin ctx shade fs[i]? zs[i]?) := by
  induction fs generalizing cs zs n with
  | nil =>
    simp only [shadeSpan, List.getElem?_nil, optWin]
    rw [sumTo_zero, cwMul_zero]
  | cons f fs ih =>
    cases cs with
    | nil =>
      have : zs = [] := List.length_eq_zero_iff.mp hl.symm
      subst this
      simp only [shadeSpan, List.getElem?_nil]
      rw [sumTo_congr (g := fun _ => 0) (fun i _ => by cases (f :: fs)[i]? <;> rfl), sumTo_zero, cwMul_zero]
    | cons c cs =>
      cases zs with
      | nil => simp at hl
      | cons z zs =>
        cases n with
        | zero => simp at hn
        | succ n =>
          simp only [List.length_cons, Nat.add_right_cancel_iff] at hl
          simp only [List.length_cons, Nat.add_le_add_iff_right] at hn
          rw [sumTo_succ_front, cwMul_add]
          simp only [shadeSpan, List.getElem?_cons_zero, List.getElem?_cons_succ]
          rw [ih cs zs hl n hn, shadeFrag_count]
          rfl

/-- What position `i` of a span contributes on a colour-only target. -/
def optShaded (shade : List α → Option C) : Option (List α) → Option C → Nat
  | some f, some _ => if (shade f).isSome then 1 else 0
  | _, _ => 0

theorem shadeSpanColor_count (ctx : Ctx) (shade : List α → Option C) (fs : List (List α)) (cs : List C)
    (n : Nat) (hn : cs.length ≤ n) :
    (shadeSpanColor ctx shade fs cs).2 = cwMul ctx (sumTo n fun i => optShaded shade fs[i]? cs[i]?) := by
  induction fs generalizing cs n with
  | nil =>
    simp only [shadeSpanColor, List.getElem?_nil, optShaded]
    rw [sumTo_zero, cwMul_zero]
  | cons f fs ih =>
    cases cs with
    | nil =>
      simp only [shadeSpanColor, List.getElem?_nil]
      rw [sumTo_congr (g := fun _ => 0) (fun i _ => by cases (f :: fs)[i]? <;> rfl), sumTo_zero, cwMul_zero]
    | cons c cs =>
      cases n with
      | zero => simp at hn
      | succ n =>
        simp only [List.length_cons, Nat.add_le_add_iff_right] at hn
        rw [sumTo_succ_front, cwMul_add]
        simp only [List.getElem?_cons_zero, List.getElem?_cons_succ]
        rw [← ih cs n hn]
        simp only [shadeSpanColor, optShaded]
        unfold cwMul
        cases hs : shade f with
        | none => simp
        | some col =>
          by_cases hc : ctx.colorWrite = true
          · simp [hc]; omega
          · simp [hc]

/-! ### The counters are pure accumulations (generic scalar, no hypotheses) -/

/-- `fragments generated` of one scanline is its span length, whatever the target holds. -/
theorem rasterize_fragsI (ctx : Ctx) (shade : List α → Option C) (t t' : Target α C) (sl : Scanline α)
    (i o : Nat) (h : rasterize ctx shade t sl = .ok (t', i, o)) : i = spanLen sl := by
  unfold rasterize at h
  simp only at h
  split at h
  · cases h
  · split at h
    · cases h
    · split at h
      · simp only [Outcome.ok.injEq, Prod.mk.injEq] at h
        exact h.2.1.symm
      · split at h
        · cases h
        · split at h
          · cases h
          · simp only [Outcome.ok.injEq, Prod.mk.injEq] at h
            exact h.2.1.symm

/-- Add `p` surviving triangles, `i` generated and `o` written fragments to the counters. -/
def bump (st : Stats) (p i o : Nat) : Stats :=
  { st with primsO := st.primsO + p, vertsO := st.vertsO + 3 * p, fragsI := st.fragsI + i, fragsO := st.fragsO + o }

theorem bump_bump (st : Stats) (p i o p' i' o' : Nat) :
    bump (bump st p i o) p' i' o' = bump st (p + p') (i + i') (o + o') := by
  simp only [bump, Stats.mk.injEq, true_and]
  refine ⟨?_, ?_, ?_, ?_⟩ <;> omega

/-- The scanline loop adds to the fragment counters amounts that do not depend on the counters, and
`frags.i` grows by the span lengths. -/
theorem rasterizeAll_delta (ctx : Ctx) (shade : List α → Option C) (sls : List (Scanline α))
    (t t' : Target α C) (st st' : Stats) (h : rasterizeAll ctx shade t st sls = .ok (t', st')) :
    ∃ o, ∀ st2, rasterizeAll ctx shade t st2 sls = .ok (t', bump st2 0 (sls.map spanLen).sum o) := by
  induction sls generalizing t st with
  | nil =>
    simp only [rasterizeAll, Outcome.ok.injEq, Prod.mk.injEq] at h
    obtain ⟨rfl, -⟩ := h
    exact ⟨0, fun st2 => by simp [rasterizeAll, bump]⟩
  | cons sl rest ih =>
    simp only [rasterizeAll] at h
    split at h
    · cases h
    · rename_i t1 i o hr
      obtain ⟨o', ho'⟩ := ih t1 _ h
      have hi := rasterize_fragsI ctx shade t t1 sl i o hr
      refine ⟨o + o', fun st2 => ?_⟩
      simp only [rasterizeAll, hr, ho']
      congr 2
      simp only [bump, hi, List.map_cons, List.sum_cons, Stats.mk.injEq, true_and]
      refine ⟨?_, ?_⟩ <;> omega

/-- **The draw loop adds to the counters amounts that do not depend on the counters**: the number of
drawn triangles (three vertices each), their span lengths, and some number of written fragments. -/
theorem drawTris_delta (ctx : Ctx) (shade : List α → Option C) (m : Mat4 α) (ts : List (Tri α))
    (t t' : Target α C) (st st' : Stats) (h : drawTris ctx shade m t st ts = .ok (t', st')) :
    ∃ o, ∀ st2, drawTris ctx shade m t st2 ts =
      .ok (t', bump st2 (drawn ctx m ts).length (spanTotal ctx m ts) o) := by
  induction ts generalizing t st with
  | nil =>
    simp only [drawTris, Outcome.ok.injEq, Prod.mk.injEq] at h
    obtain ⟨rfl, -⟩ := h
    exact ⟨0, fun st2 => by simp [drawTris, bump, drawn, spanTotal]⟩
  | cons tri rest ih =>
    simp only [drawTris] at h
    by_cases hc : culled ctx (toScreen m tri.a) (toScreen m tri.b) (toScreen m tri.c) = true
    · rw [if_pos hc] at h
      obtain ⟨o, ho⟩ := ih t st h
      refine ⟨o, fun st2 => ?_⟩
      simp only [drawTris, if_pos hc, ho]
      simp [drawn, spanTotal, hc]
    · rw [if_neg hc] at h
      split at h
      · cases h
      · rename_i t1 st1 hr
        obtain ⟨o1, ho1⟩ := rasterizeAll_delta ctx shade _ t t1 _ st1 hr
        obtain ⟨o2, ho2⟩ := ih t1 st1 h
        refine ⟨o1 + o2, fun st2 => ?_⟩
        simp only [drawTris, if_neg hc, ho1, ho2]
        congr 2
        have e : ({ st2 with primsO := st2.primsO + 1, vertsO := st2.vertsO + 3 } : Stats) = bump st2 1 0 0 := by
          simp [bump]
        rw [e, bump_bump, bump_bump]
        have hd : drawn ctx m (tri :: rest) = tri :: drawn ctx m rest := by
          simp [drawn, hc]
        simp only [spanTotal, hd, List.length_cons, List.map_cons, List.sum_cons, triSpans]
        congr 1 <;> omega

/-- Closed form of the counters after the draw loop. -/
theorem drawTris_counts (ctx : Ctx) (shade : List α → Option C) (m : Mat4 α) (ts : List (Tri α))
    (t t' : Target α C) (st st' : Stats) (h : drawTris ctx shade m t st ts = .ok (t', st')) :
    st'.calls = st.calls ∧ st'.primsI = st.primsI ∧ st'.vertsI = st.vertsI ∧
    st'.primsO = st.primsO + (drawn ctx m ts).length ∧ st'.vertsO = st.vertsO + 3 * (drawn ctx m ts).length ∧
    st'.fragsI = st.fragsI + spanTotal ctx m ts := by
  obtain ⟨o, ho⟩ := drawTris_delta ctx shade m ts t t' st st' h
  have := ho st
  rw [h] at this
  simp only [Outcome.ok.injEq, Prod.mk.injEq, true_and] at this
  subst this
  simp [bump]

/-! ### Depth sorting only permutes (generic scalar) -/

theorem insertBy_perm' (lt : Tri α → Tri α → Bool) (t : Tri α) (us : List (Tri α)) :
    (insertBy lt t us).Perm (t :: us) := by
  induction us with
  | nil => simp [insertBy]
  | cons u us ih =>
    simp only [insertBy]
    split
    · exact List.Perm.refl _
    · exact (List.Perm.cons u ih).trans (List.Perm.swap t u us)

theorem drawOrder_perm (ctx : Ctx) (ts : List (Tri α)) : (drawOrder ctx ts).Perm ts := by
  unfold drawOrder
  cases ctx.depthSort with
  | none => exact List.Perm.refl _
  | some d =>
    simp only [depthSorted]
    induction ts with
    | nil => simp
    | cons t ts ih =>
      simp only [List.foldr_cons]
      exact (insertBy_perm' _ t _).trans (List.Perm.cons t ih)

theorem drawn_perm (ctx : Ctx) (m : Mat4 α) {l1 l2 : List (Tri α)} (h : l1.Perm l2) :
    (drawn ctx m l1).Perm (drawn ctx m l2) := List.Perm.filter _ h

theorem drawn_length_perm (ctx : Ctx) (m : Mat4 α) {l1 l2 : List (Tri α)} (h : l1.Perm l2) :
    (drawn ctx m l1).length = (drawn ctx m l2).length := (drawn_perm ctx m h).length_eq

theorem spanTotal_perm (ctx : Ctx) (m : Mat4 α) {l1 l2 : List (Tri α)} (h : l1.Perm l2) :
    spanTotal ctx m l1 = spanTotal ctx m l2 :=
  List.Perm.sum_nat (List.Perm.map _ (drawn_perm ctx m h))

theorem drawn_append (ctx : Ctx) (m : Mat4 α) (l1 l2 : List (Tri α)) :
    drawn ctx m (l1 ++ l2) = drawn ctx m l1 ++ drawn ctx m l2 := by simp [drawn]

theorem spanTotal_append (ctx : Ctx) (m : Mat4 α) (l1 l2 : List (Tri α)) :
    spanTotal ctx m (l1 ++ l2) = spanTotal ctx m l1 + spanTotal ctx m l2 := by
  simp [spanTotal, drawn_append]

/-! ### `render`: prims.o, verts.o, frags.i -/

/-- The clip-space vertices `render` builds from its input. -/
def cverts (verts : List (Vec4 α × List α)) : List (ClipVert α) := verts.map fun (p, a) => mkVert p a

/-- `render` is the draw loop over the clipped, optionally depth-sorted triangles it looked up. -/
theorem render_eq (ctx : Ctx) (shade : List α → Option C) (m : Mat4 α)
    (tris : List (Nat × Nat × Nat)) (verts : List (Vec4 α × List α)) (t : Target α C) :
    render ctx shade m tris verts t =
      match lookupTris (cverts verts) tris with
      | .panic msg => .panic msg
      | .ok ts => drawTris ctx shade m t { calls := 1, primsI := tris.length, vertsI := verts.length }
          (drawOrder ctx (clipTris ts)) := by
  unfold render cverts drawOrder
  simp only
  cases lookupTris (List.map (fun x => match x with | (p, a) => mkVert p a) verts) tris with
  | panic msg => rfl
  | ok ts => cases ctx.depthSort <;> rfl

theorem render_lookup (ctx : Ctx) (shade : List α → Option C) (m : Mat4 α)
    (tris : List (Nat × Nat × Nat)) (verts : List (Vec4 α × List α)) (t t' : Target α C) (st : Stats)
    (h : render ctx shade m tris verts t = .ok (t', st)) :
    ∃ ts, lookupTris (cverts verts) tris = .ok ts ∧
      drawTris ctx shade m t { calls := 1, primsI := tris.length, vertsI := verts.length }
        (drawOrder ctx (clipTris ts)) = .ok (t', st) := by
  rw [render_eq] at h
  cases hl : lookupTris (cverts verts) tris with
  | panic msg => rw [hl] at h; cases h
  | ok ts => rw [hl] at h; exact ⟨ts, rfl, h⟩

/-- **prims.o = number of clipped triangles that are not culled on screen** (the optional depth sort is a
permutation, so the count is that of the clipped list), whenever `render` returns. -/
theorem render_primsO (ctx : Ctx) (shade : List α → Option C) (m : Mat4 α)
    (tris : List (Nat × Nat × Nat)) (verts : List (Vec4 α × List α)) (t t' : Target α C) (st : Stats)
    (h : render ctx shade m tris verts t = .ok (t', st)) :
    ∃ ts, lookupTris (cverts verts) tris = .ok ts ∧ st.primsO = (drawn ctx m (clipTris ts)).length := by
  obtain ⟨ts, hl, hd⟩ := render_lookup ctx shade m tris verts t t' st h
  refine ⟨ts, hl, ?_⟩
  obtain ⟨-, -, -, hp, -, -⟩ := drawTris_counts ctx shade m _ t t' _ st hd
  rw [hp, drawn_length_perm ctx m (drawOrder_perm ctx _)]
  simp

/-- **verts.o = three per surviving triangle.** -/
theorem render_vertsO (ctx : Ctx) (shade : List α → Option C) (m : Mat4 α)
    (tris : List (Nat × Nat × Nat)) (verts : List (Vec4 α × List α)) (t t' : Target α C) (st : Stats)
    (h : render ctx shade m tris verts t = .ok (t', st)) :
    ∃ ts, lookupTris (cverts verts) tris = .ok ts ∧ st.vertsO = 3 * (drawn ctx m (clipTris ts)).length := by
  obtain ⟨ts, hl, hd⟩ := render_lookup ctx shade m tris verts t t' st h
  refine ⟨ts, hl, ?_⟩
  obtain ⟨-, -, -, -, hv, -⟩ := drawTris_counts ctx shade m _ t t' _ st hd
  rw [hv, drawn_length_perm ctx m (drawOrder_perm ctx _)]
  simp

/-- **frags.i = Σ over drawn triangles Σ over their scanlines of `max x1 x0 − x0`**, whenever `render`
returns (whatever the depth sort: the sum is permutation invariant). -/
theorem render_fragsI (ctx : Ctx) (shade : List α → Option C) (m : Mat4 α)
    (tris : List (Nat × Nat × Nat)) (verts : List (Vec4 α × List α)) (t t' : Target α C) (st : Stats)
    (h : render ctx shade m tris verts t = .ok (t', st)) :
    ∃ ts, lookupTris (cverts verts) tris = .ok ts ∧ st.fragsI = spanTotal ctx m (clipTris ts) := by
  obtain ⟨ts, hl, hd⟩ := render_lookup ctx shade m tris verts t t' st h
  refine ⟨ts, hl, ?_⟩
  obtain ⟨-, -, -, -, -, hf⟩ := drawTris_counts ctx shade m _ t t' _ st hd
  rw [hf, spanTotal_perm ctx m (drawOrder_perm ctx _)]
  simp

/-- Culling off: every clipped triangle is counted. -/
theorem render_primsO_cull_off (ctx : Ctx) (hc : ctx.faceCull = none) (shade : List α → Option C) (m : Mat4 α)
    (tris : List (Nat × Nat × Nat)) (verts : List (Vec4 α × List α)) (t t' : Target α C) (st : Stats)
    (h : render ctx shade m tris verts t = .ok (t', st)) :
    ∃ ts, lookupTris (cverts verts) tris = .ok ts ∧ st.primsO = (clipTris ts).length := by
  obtain ⟨ts, hl, hp⟩ := render_primsO ctx shade m tris verts t t' st h
  refine ⟨ts, hl, ?_⟩
  rw [hp]
  simp [drawn, culled, hc]

/-- Everything hidden (nothing survives clipping) or every clipped triangle culled: prims.o = 0. -/
theorem render_primsO_all_culled (ctx : Ctx) (shade : List α → Option C) (m : Mat4 α)
    (tris : List (Nat × Nat × Nat)) (verts : List (Vec4 α × List α)) (t t' : Target α C) (st : Stats)
    (h : render ctx shade m tris verts t = .ok (t', st)) :
    ∃ ts, lookupTris (cverts verts) tris = .ok ts ∧
      ((∀ tri ∈ clipTris ts, culled ctx (toScreen m tri.a) (toScreen m tri.b) (toScreen m tri.c) = true) →
        st.primsO = 0 ∧ st.fragsI = 0) := by
  obtain ⟨ts, hl, hp⟩ := render_primsO ctx shade m tris verts t t' st h
  obtain ⟨ts', hl', hf⟩ := render_fragsI ctx shade m tris verts t t' st h
  rw [hl] at hl'
  cases hl'
  refine ⟨ts, hl, fun hall => ?_⟩
  have : drawn ctx m (clipTris ts) = [] := by
    simp only [drawn, List.filter_eq_nil_iff]
    intro tri htri
    simp [hall tri htri]
  rw [hp, hf, spanTotal, this]
  simp

/-! ### Two calls accumulate -/

theorem lookupTris_cons_ok (verts : List (ClipVert α)) (i j k : Nat) (rest : List (Nat × Nat × Nat))
    (ts : List (Tri α)) :
    lookupTris verts ((i, j, k) :: rest) = .ok ts ↔
      ∃ a b c ts', verts[i]? = some a ∧ verts[j]? = some b ∧ verts[k]? = some c ∧
        lookupTris verts rest = .ok ts' ∧ ts = ⟨a, b, c⟩ :: ts' := by
  cases h1 : verts[i]? <;> cases h2 : verts[j]? <;> cases h3 : verts[k]? <;>
    cases h4 : lookupTris verts rest <;> simp [lookupTris, h1, h2, h3, h4, eq_comm]

theorem lookupTris_append (verts : List (ClipVert α)) (l1 l2 : List (Nat × Nat × Nat)) (ts : List (Tri α)) :
    lookupTris verts (l1 ++ l2) = .ok ts ↔
      ∃ ts1 ts2, lookupTris verts l1 = .ok ts1 ∧ lookupTris verts l2 = .ok ts2 ∧ ts = ts1 ++ ts2 := by
  induction l1 generalizing ts with
  | nil =>
    constructor
    · intro h; exact ⟨[], ts, rfl, h, rfl⟩
    · rintro ⟨ts1, ts2, h1, h2, rfl⟩
      simp only [lookupTris, Outcome.ok.injEq] at h1
      subst h1
      exact h2
  | cons hd tl ih =>
    obtain ⟨i, j, k⟩ := hd
    rw [List.cons_append, lookupTris_cons_ok]
    constructor
    · rintro ⟨a, b, c, ts', ha, hb, hc, hl, rfl⟩
      obtain ⟨ts1, ts2, h1, h2, rfl⟩ := (ih ts').mp hl
      exact ⟨⟨a, b, c⟩ :: ts1, ts2, (lookupTris_cons_ok _ _ _ _ _ _).mpr ⟨a, b, c, ts1, ha, hb, hc, h1, rfl⟩, h2, rfl⟩
    · rintro ⟨ts1, ts2, h1, h2, rfl⟩
      obtain ⟨a, b, c, ts', ha, hb, hc, hl, rfl⟩ := (lookupTris_cons_ok _ _ _ _ _ _).mp h1
      exact ⟨a, b, c, ts' ++ ts2, ha, hb, hc, (ih _).mpr ⟨ts', ts2, hl, h2, rfl⟩, rfl⟩

theorem drawTris_append' (ctx : Ctx) (shade : List α → Option C) (m : Mat4 α) (l1 l2 : List (Tri α))
    (t : Target α C) (st : Stats) :
    drawTris ctx shade m t st (l1 ++ l2) =
      match drawTris ctx shade m t st l1 with
      | .panic msg => .panic msg
      | .ok (t1, st1) => drawTris ctx shade m t1 st1 l2 := by
  induction l1 generalizing t st with
  | nil => simp [drawTris]
  | cons tri rest ih =>
    simp only [List.cons_append, drawTris]
    split
    · exact ih t st
    · cases hr : rasterizeAll ctx shade t { st with primsO := st.primsO + 1, vertsO := st.vertsO + 3 }
          (triFill (toScreen m tri.a) (toScreen m tri.b) (toScreen m tri.c)) with
      | panic msg => simp
      | ok r => obtain ⟨t1, st1⟩ := r; simp only; exact ih t1 st1

theorem clipTris_append (l1 l2 : List (Tri α)) : clipTris (l1 ++ l2) = clipTris l1 ++ clipTris l2 := by
  simp [clipTris]

/-- The counters a call adds, as sums of two calls' counters. -/
def StatsSum (s0 s1 s2 : Stats) : Prop :=
  s0.primsI = s1.primsI + s2.primsI ∧ s0.primsO = s1.primsO + s2.primsO ∧ s0.vertsO = s1.vertsO + s2.vertsO ∧
  s0.fragsI = s1.fragsI + s2.fragsI ∧ s0.fragsO = s1.fragsO + s2.fragsO

/-- **Two calls accumulate.** With one Context (no depth sort, so that the draw order of the single call is
the concatenation of the two calls' orders): if `render` of `tris1 ++ tris2` returns, then so do `render` of
`tris1` and, into the target that call left, `render` of `tris2`; the final target is the same, and prims.i,
prims.o, verts.o, frags.i AND frags.o of the single call are the sums of the two calls' counters — which is
what `ctx.stats += stats` accumulates. (`calls` is 1 against 1 + 1 and each call counts every vertex of the
shared vertex list in verts.i: `render_stats`.) Any scalar, any target kind, any flags. -/
theorem render_additive (ctx : Ctx) (hs : ctx.depthSort = none) (shade : List α → Option C) (m : Mat4 α)
    (tris1 tris2 : List (Nat × Nat × Nat)) (verts : List (Vec4 α × List α)) (t t' : Target α C) (s0 : Stats)
    (h : render ctx shade m (tris1 ++ tris2) verts t = .ok (t', s0)) :
    ∃ ta s1 s2, render ctx shade m tris1 verts t = .ok (ta, s1) ∧ render ctx shade m tris2 verts ta = .ok (t', s2) ∧
      StatsSum s0 s1 s2 := by
  obtain ⟨ts, hl, hd⟩ := render_lookup ctx shade m _ verts t t' s0 h
  obtain ⟨ts1, ts2, hl1, hl2, rfl⟩ := (lookupTris_append _ _ _ _).mp hl
  have hso : ∀ l : List (Tri α), drawOrder ctx l = l := fun l => by simp [drawOrder, hs]
  rw [hso, clipTris_append, drawTris_append'] at hd
  cases hd1 : drawTris ctx shade m t { calls := 1, primsI := (tris1 ++ tris2).length, vertsI := verts.length }
      (clipTris ts1) with
  | panic msg => rw [hd1] at hd; cases hd
  | ok r =>
    obtain ⟨ta, sa⟩ := r
    rw [hd1] at hd
    simp only at hd
    obtain ⟨o1, ho1⟩ := drawTris_delta ctx shade m _ t ta _ sa hd1
    obtain ⟨o2, ho2⟩ := drawTris_delta ctx shade m _ ta t' _ s0 hd
    refine ⟨ta, bump { calls := 1, primsI := tris1.length, vertsI := verts.length }
        (drawn ctx m (clipTris ts1)).length (spanTotal ctx m (clipTris ts1)) o1,
      bump { calls := 1, primsI := tris2.length, vertsI := verts.length }
        (drawn ctx m (clipTris ts2)).length (spanTotal ctx m (clipTris ts2)) o2, ?_, ?_, ?_⟩
    · rw [render_eq, hl1]; simp only; rw [hso]; exact ho1 _
    · rw [render_eq, hl2]; simp only; rw [hso]; exact ho2 _
    · have e0 := ho2 sa
      rw [hd] at e0
      have e1 := ho1 { calls := 1, primsI := (tris1 ++ tris2).length, vertsI := verts.length }
      rw [hd1] at e1
      simp only [Outcome.ok.injEq, Prod.mk.injEq, true_and] at e0 e1
      subst e1
      subst e0
      simp only [StatsSum, bump, List.length_append]
      refine ⟨trivial, ?_, ?_, ?_, ?_⟩ <;> omega

/-- `render_additive` under the name used in the plan (DESIGN.md section 7, C07). -/
theorem stats_additive (ctx : Ctx) (hs : ctx.depthSort = none) (shade : List α → Option C) (m : Mat4 α)
    (tris1 tris2 : List (Nat × Nat × Nat)) (verts : List (Vec4 α × List α)) (t t' : Target α C) (s0 : Stats)
    (h : render ctx shade m (tris1 ++ tris2) verts t = .ok (t', s0)) :
    ∃ ta s1 s2, render ctx shade m tris1 verts t = .ok (ta, s1) ∧ render ctx shade m tris2 verts ta = .ok (t', s2) ∧
      StatsSum s0 s1 s2 :=
  render_additive ctx hs shade m tris1 tris2 verts t t' s0 h

/-- The converse: two successive calls that return are one call on the concatenated list. -/
theorem render_additive_conv (ctx : Ctx) (hs : ctx.depthSort = none) (shade : List α → Option C) (m : Mat4 α)
    (tris1 tris2 : List (Nat × Nat × Nat)) (verts : List (Vec4 α × List α)) (t ta t' : Target α C) (s1 s2 : Stats)
    (h1 : render ctx shade m tris1 verts t = .ok (ta, s1)) (h2 : render ctx shade m tris2 verts ta = .ok (t', s2)) :
    ∃ s0, render ctx shade m (tris1 ++ tris2) verts t = .ok (t', s0) ∧ StatsSum s0 s1 s2 := by
  obtain ⟨ts1, hl1, hd1⟩ := render_lookup ctx shade m _ verts t ta s1 h1
  obtain ⟨ts2, hl2, hd2⟩ := render_lookup ctx shade m _ verts ta t' s2 h2
  have hl : lookupTris (cverts verts) (tris1 ++ tris2) = .ok (ts1 ++ ts2) :=
    (lookupTris_append _ _ _ _).mpr ⟨ts1, ts2, hl1, hl2, rfl⟩
  have hso : ∀ l : List (Tri α), drawOrder ctx l = l := fun l => by simp [drawOrder, hs]
  rw [hso] at hd1 hd2
  obtain ⟨o1, ho1⟩ := drawTris_delta ctx shade m _ t ta _ s1 hd1
  obtain ⟨o2, ho2⟩ := drawTris_delta ctx shade m _ ta t' _ s2 hd2
  refine ⟨bump (bump { calls := 1, primsI := (tris1 ++ tris2).length, vertsI := verts.length }
      (drawn ctx m (clipTris ts1)).length (spanTotal ctx m (clipTris ts1)) o1)
      (drawn ctx m (clipTris ts2)).length (spanTotal ctx m (clipTris ts2)) o2, ?_, ?_⟩
  · rw [render_eq, hl]
    simp only
    rw [hso, clipTris_append, drawTris_append', ho1]
    simp only
    exact ho2 _
  · have e1 := ho1 { calls := 1, primsI := tris1.length, vertsI := verts.length }
    have e2 := ho2 { calls := 1, primsI := tris2.length, vertsI := verts.length }
    rw [hd1] at e1
    rw [hd2] at e2
    simp only [Outcome.ok.injEq, Prod.mk.injEq, true_and] at e1 e2
    subst e1
    subst e2
    simp only [StatsSum, bump, List.length_append]
    refine ⟨trivial, ?_, ?_, ?_, ?_⟩ <;> omega

/-- Which triangles are drawn depends on the Context only through `face_cull`. -/
theorem drawn_ctx (c1 c2 : Ctx) (h : c1.faceCull = c2.faceCull) (m : Mat4 α) (ts : List (Tri α)) :
    drawn c1 m ts = drawn c2 m ts := by
  unfold drawn culled
  rw [h]

theorem spanTotal_ctx (c1 c2 : Ctx) (h : c1.faceCull = c2.faceCull) (m : Mat4 α) (ts : List (Tri α)) :
    spanTotal c1 m ts = spanTotal c2 m ts := by
  unfold spanTotal
  rw [drawn_ctx c1 c2 h]

/-- **prims.o, verts.o and frags.i are additive whatever the depth-sort settings** (and whatever the shaders,
targets, depth tests and write masks of the three calls): they are permutation-invariant counts over the
clipped triangles. -/
theorem render_additive_sorted (c0 c1 c2 : Ctx) (hfc1 : c0.faceCull = c1.faceCull) (hfc2 : c0.faceCull = c2.faceCull)
    (sh0 sh1 sh2 : List α → Option C) (m : Mat4 α) (tris1 tris2 : List (Nat × Nat × Nat))
    (verts : List (Vec4 α × List α)) (t0 t1 t2 t0' t1' t2' : Target α C) (s0 s1 s2 : Stats)
    (h0 : render c0 sh0 m (tris1 ++ tris2) verts t0 = .ok (t0', s0))
    (h1 : render c1 sh1 m tris1 verts t1 = .ok (t1', s1))
    (h2 : render c2 sh2 m tris2 verts t2 = .ok (t2', s2)) :
    s0.primsO = s1.primsO + s2.primsO ∧ s0.vertsO = s1.vertsO + s2.vertsO ∧ s0.fragsI = s1.fragsI + s2.fragsI := by
  obtain ⟨ts0, hl0, hp0⟩ := render_primsO c0 sh0 m _ verts t0 t0' s0 h0
  obtain ⟨ts1, hl1, hp1⟩ := render_primsO c1 sh1 m _ verts t1 t1' s1 h1
  obtain ⟨ts2, hl2, hp2⟩ := render_primsO c2 sh2 m _ verts t2 t2' s2 h2
  obtain ⟨_, hl0', hv0⟩ := render_vertsO c0 sh0 m _ verts t0 t0' s0 h0
  obtain ⟨_, hl1', hv1⟩ := render_vertsO c1 sh1 m _ verts t1 t1' s1 h1
  obtain ⟨_, hl2', hv2⟩ := render_vertsO c2 sh2 m _ verts t2 t2' s2 h2
  obtain ⟨_, hl0'', hf0⟩ := render_fragsI c0 sh0 m _ verts t0 t0' s0 h0
  obtain ⟨_, hl1'', hf1⟩ := render_fragsI c1 sh1 m _ verts t1 t1' s1 h1
  obtain ⟨_, hl2'', hf2⟩ := render_fragsI c2 sh2 m _ verts t2 t2' s2 h2
  rw [hl0] at hl0' hl0''; rw [hl1] at hl1' hl1''; rw [hl2] at hl2' hl2''
  cases hl0'; cases hl0''; cases hl1'; cases hl1''; cases hl2'; cases hl2''
  obtain ⟨u1, u2, hu1, hu2, rfl⟩ := (lookupTris_append _ _ _ _).mp hl0
  rw [hl1] at hu1; rw [hl2] at hu2
  cases hu1; cases hu2
  rw [hp0, hp1, hp2, hv0, hv1, hv2, hf0, hf1, hf2, clipTris_append, drawn_append, spanTotal_append,
    ← drawn_ctx c0 c1 hfc1, ← drawn_ctx c0 c2 hfc2, ← spanTotal_ctx c0 c1 hfc1, ← spanTotal_ctx c0 c2 hfc2,
    List.length_append]
  refine ⟨rfl, by omega, rfl⟩

end Generic

/-! ### Per-pixel counting lemmas (generic scalar) -/

section Generic
variable {α : Type} [Add α] [Sub α] [Mul α] [Div α] [Neg α] [LT α] [DecidableLT α]
  [OfNat α 0] [OfNat α 1] [OfNat α 2] [HasFloor α] [HasToNat α] {C : Type}

/-- The depth a pixel holds after a fragment sequence arrived. -/
def depthAfter (ctx : Ctx) (shade : List α → Option C) (fs : List (List α)) (z : α) : α :=
  fs.foldl (zAfter ctx shade) z

theorem pixelWins_append (ctx : Ctx) (shade : List α → Option C) (l1 l2 : List (List α)) (z : α) :
    pixelWins ctx shade (l1 ++ l2) z = pixelWins ctx shade l1 z + pixelWins ctx shade l2 (depthAfter ctx shade l1 z) := by
  induction l1 generalizing z with
  | nil => simp [pixelWins, depthAfter]
  | cons f fs ih =>
    simp only [List.cons_append, pixelWins, ih, depthAfter, List.foldl_cons]
    omega

theorem shadedCount_append (shade : List α → Option C) (l1 l2 : List (List α)) :
    shadedCount shade (l1 ++ l2) = shadedCount shade l1 + shadedCount shade l2 := by
  simp [shadedCount]

end Generic

/-! ### Whole framebuffers: fragments written -/

section Field
open Retro.Lemmas.Target Retro.Lemmas.Raster Retro.Lemmas.Clip Retro.Lemmas.TargetColor
open Retro.Props.C02 Retro.Props.C06

variable {K : Type} [Field K] [LinearOrder K] [IsStrictOrderedRing K] [FloorRing K] {C : Type}
attribute [local instance] hasFloorK hasToNatK

theorem pixelFold_depth (ctx : Ctx) (shade : List K → Option C) (fs : List (List K)) (s : C × K) :
    (pixelFold ctx shade fs s).2 = depthAfter ctx shade fs s.2 := by
  unfold pixelFold depthAfter
  induction fs generalizing s with
  | nil => rfl
  | cons f fs ih =>
    simp only [List.foldl_cons]
    rw [ih]
    simp only [step1, shadeFrag_depth]

theorem pixW_append (ctx : Ctx) (shade : List K → Option C) (l1 l2 : List (List K)) (s : Option (C × K)) :
    pixW ctx shade (l1 ++ l2) s = pixW ctx shade l1 s + pixW ctx shade l2 (s.map (pixelFold ctx shade l1)) := by
  cases s with
  | none => rfl
  | some s => simp only [pixW, Option.map_some, pixelWins_append, pixelFold_depth]

theorem pixW_nil (ctx : Ctx) (shade : List K → Option C) (s : Option (C × K)) : pixW ctx shade [] s = 0 := by
  cases s <;> rfl

/-- **One scanline on a depth-buffered target**: the reported `frags.o` is the number of pixels of the span
whose fragment wins against the depth the pixel held. -/
theorem rasterize_countD (ctx : Ctx) (shade : List K → Option C) (t : Target K C) (W H : Nat) (sl : Scanline K)
    (hwf : WFD t W H) (hy : sl.y < H) (hx : Nat.max sl.x1 sl.x0 ≤ W) :
    ∃ t' o, rasterize ctx shade t sl = .ok (t', spanLen sl, o) ∧
      o = cwMul ctx (gridSum W H fun x y => pixW ctx shade (slFrag sl x y).toList (pix t x y)) := by
  have hwf' := hwf
  obtain ⟨⟨hc, hcr, hdep⟩, hds⟩ := hwf
  obtain ⟨dbuf, hd⟩ := Option.isSome_iff_exists.mp hds
  obtain ⟨hdl, hdr⟩ := hdep dbuf hd
  have hcy : sl.y < t.color.length := by omega
  have hdy : sl.y < dbuf.length := by omega
  have hcl : (t.color[sl.y]).length = W := hcr _ (List.getElem_mem hcy)
  have hzl : (dbuf[sl.y]).length = W := hdr _ (List.getElem_mem hdy)
  unfold rasterize
  simp only [hd]
  rw [List.getElem?_eq_getElem hcy]
  simp only
  rw [if_neg (by omega)]
  rw [List.getElem?_eq_getElem hdy]
  simp only
  rw [if_neg (by omega)]
  refine ⟨_, _, rfl, ?_⟩
  set crow := t.color[sl.y] with hcrow
  set zrow := dbuf[sl.y] with hzrow
  set x1 := Nat.max sl.x1 sl.x0 with hx1
  have hx01 : sl.x0 ≤ x1 := by rw [hx1]; exact Nat.le_max_right _ _
  set cspan := (crow.drop sl.x0).take (x1 - sl.x0) with hcspan
  set zspan := (zrow.drop sl.x0).take (x1 - sl.x0) with hzspan
  have hcsl : cspan.length = x1 - sl.x0 := by rw [hcspan, List.length_take, List.length_drop, hcl]; omega
  have hzsl : zspan.length = x1 - sl.x0 := by rw [hzspan, List.length_take, List.length_drop, hzl]; omega
  rw [shadeSpan_count ctx shade _ cspan zspan (by rw [hcsl, hzsl]) (x1 - sl.x0) (by rw [hzsl])]
  congr 1
  rw [← gridSum_window W H sl.y sl.x0 x1 _ hy hx01 hx]
  apply gridSum_congr
  intro x y hxW hyH
  unfold slFrag
  by_cases hcond : y = sl.y ∧ sl.x0 ≤ x ∧ x < x1
  · rw [if_pos hcond, if_pos hcond]
    obtain ⟨rfl, hx0, hxx1⟩ := hcond
    obtain ⟨c, z, hpc, hpz⟩ := pix_inbounds t W H hwf' x sl.y hxW hy
    have hz : zspan[x - sl.x0]? = some z := by
      rw [hzspan, List.getElem?_take, if_pos (by omega), List.getElem?_drop]
      have : sl.x0 + (x - sl.x0) = x := by omega
      rw [this]
      simpa only [pixZ, hd, Option.bind_some, List.getElem?_eq_getElem hdy] using hpz
    simp only [pix, hpc, hpz, hz]
    cases (List.map zdiv sl.frags)[x - sl.x0]? with
    | none => rfl
    | some f => simp [pixW, pixelWins, optWin]
  · rw [if_neg hcond, if_neg hcond]
    exact (pixW_nil ctx shade _).symm

/-- **One scanline on a colour-only target**: `frags.o` is the number of pixels of the span whose fragment
the shader gives a colour. -/
theorem rasterize_countC (ctx : Ctx) (shade : List K → Option C) (t : Target K C) (W H : Nat) (sl : Scanline K)
    (hwf : WFC t W H) (hy : sl.y < H) (hx : Nat.max sl.x1 sl.x0 ≤ W) :
    ∃ t' o, rasterize ctx shade t sl = .ok (t', spanLen sl, o) ∧
      o = cwMul ctx (gridSum W H fun x y => shadedCount shade (slFrag sl x y).toList) := by
  obtain ⟨⟨hc, hcr, -⟩, hd⟩ := hwf
  have hcy : sl.y < t.color.length := by omega
  have hcl : (t.color[sl.y]).length = W := hcr _ (List.getElem_mem hcy)
  unfold rasterize
  simp only [hd]
  rw [List.getElem?_eq_getElem hcy]
  simp only
  rw [if_neg (by omega)]
  refine ⟨_, _, rfl, ?_⟩
  set crow := t.color[sl.y] with hcrow
  set x1 := Nat.max sl.x1 sl.x0 with hx1
  have hx01 : sl.x0 ≤ x1 := by rw [hx1]; exact Nat.le_max_right _ _
  set cspan := (crow.drop sl.x0).take (x1 - sl.x0) with hcspan
  have hcsl : cspan.length = x1 - sl.x0 := by rw [hcspan, List.length_take, List.length_drop, hcl]; omega
  rw [shadeSpanColor_count ctx shade _ cspan (x1 - sl.x0) (by rw [hcsl])]
  congr 1
  rw [← gridSum_window W H sl.y sl.x0 x1 _ hy hx01 hx]
  apply gridSum_congr
  intro x y hxW hyH
  unfold slFrag
  by_cases hcond : y = sl.y ∧ sl.x0 ≤ x ∧ x < x1
  · rw [if_pos hcond, if_pos hcond]
    obtain ⟨rfl, hx0, hxx1⟩ := hcond
    have hcs : ∃ c, cspan[x - sl.x0]? = some c := by
      have : x - sl.x0 < cspan.length := by rw [hcsl]; omega
      exact ⟨_, List.getElem?_eq_getElem this⟩
    obtain ⟨c, hcs⟩ := hcs
    rw [hcs]
    cases (List.map zdiv sl.frags)[x - sl.x0]? with
    | none => rfl
    | some f => simp [shadedCount, optShaded]
  · rw [if_neg hcond, if_neg hcond]
    rfl

/-- **A scanline list on a depth-buffered target**: `frags.o` grows by Σ over pixels of the number of wins
in the fold of the fragments `fragsAt` delivers to the pixel. -/
theorem rasterizeAll_countD (ctx : Ctx) (shade : List K → Option C) (W H : Nat) (sls : List (Scanline K))
    (hin : ∀ sl ∈ sls, sl.y < H ∧ Nat.max sl.x1 sl.x0 ≤ W) (t : Target K C) (st : Stats) (hwf : WFD t W H) :
    ∃ t' st', rasterizeAll ctx shade t st sls = .ok (t', st') ∧ WFD t' W H ∧
      (∀ x y, pix t' x y = (pix t x y).map (pixelFold ctx shade (fragsAt sls x y))) ∧
      st'.fragsO = st.fragsO +
        cwMul ctx (gridSum W H fun x y => pixW ctx shade (fragsAt sls x y) (pix t x y)) := by
  induction sls generalizing t st with
  | nil =>
    refine ⟨t, st, rfl, hwf, fun x y => ?_, ?_⟩
    · cases pix t x y <;> simp [fragsAt, pixelFold]
    · simp only [fragsAt, List.flatMap_nil, pixW_nil, gridSum_zero, cwMul_zero, Nat.add_zero]
  | cons sl rest ih =>
    obtain ⟨hy, hx⟩ := hin sl (by simp)
    obtain ⟨t1, i, o, hr, hwf1, hp1⟩ := rasterize_pix2 ctx shade t W H sl hwf hy hx
    obtain ⟨t1', o', hr', ho'⟩ := rasterize_countD ctx shade t W H sl hwf hy hx
    rw [hr] at hr'
    simp only [Outcome.ok.injEq, Prod.mk.injEq] at hr'
    obtain ⟨-, -, rfl⟩ := hr'
    simp only [rasterizeAll, hr]
    obtain ⟨t2, st2, hr2, hwf2, hp2, hc2⟩ := ih (fun s hs => hin s (List.mem_cons_of_mem _ hs)) t1
      { st with fragsI := st.fragsI + i, fragsO := st.fragsO + o } hwf1
    refine ⟨t2, st2, hr2, hwf2, fun x y => ?_, ?_⟩
    · rw [hp2 x y, hp1 x y, Option.map_map]
      congr 1
      funext s
      simp only [Function.comp, fragsAt, List.flatMap_cons]
      rw [fold_append]
    · rw [hc2, ho']
      simp only
      rw [Nat.add_assoc, ← cwMul_add, ← gridSum_add]
      congr 2
      apply gridSum_congr
      intro x y _ _
      rw [hp1 x y]
      simp only [fragsAt, List.flatMap_cons]
      rw [pixW_append]

theorem rasterizeAll_countC (ctx : Ctx) (shade : List K → Option C) (W H : Nat) (sls : List (Scanline K))
    (hin : ∀ sl ∈ sls, sl.y < H ∧ Nat.max sl.x1 sl.x0 ≤ W) (t : Target K C) (st : Stats) (hwf : WFC t W H) :
    ∃ t' st', rasterizeAll ctx shade t st sls = .ok (t', st') ∧ WFC t' W H ∧
      st'.fragsO = st.fragsO + cwMul ctx (gridSum W H fun x y => shadedCount shade (fragsAt sls x y)) := by
  induction sls generalizing t st with
  | nil =>
    refine ⟨t, st, rfl, hwf, ?_⟩
    simp only [fragsAt, List.flatMap_nil, shadedCount, List.countP_nil, gridSum_zero, cwMul_zero, Nat.add_zero]
  | cons sl rest ih =>
    obtain ⟨hy, hx⟩ := hin sl (by simp)
    obtain ⟨t1, i, o, hr, hwf1, -⟩ := rasterize_pixC2 ctx shade t W H sl hwf hy hx
    obtain ⟨t1', o', hr', ho'⟩ := rasterize_countC ctx shade t W H sl hwf hy hx
    rw [hr] at hr'
    simp only [Outcome.ok.injEq, Prod.mk.injEq] at hr'
    obtain ⟨-, -, rfl⟩ := hr'
    simp only [rasterizeAll, hr]
    obtain ⟨t2, st2, hr2, hwf2, hc2⟩ := ih (fun s hs => hin s (List.mem_cons_of_mem _ hs)) t1
      { st with fragsI := st.fragsI + i, fragsO := st.fragsO + o } hwf1
    refine ⟨t2, st2, hr2, hwf2, ?_⟩
    rw [hc2, ho']
    simp only
    rw [Nat.add_assoc, ← cwMul_add, ← gridSum_add]
    congr 2
    apply gridSum_congr
    intro x y _ _
    simp only [fragsAt, List.flatMap_cons]
    rw [shadedCount_append]

/-- **The draw loop on a depth-buffered target**: besides being the per-pixel fold (`drawTris_pix`), it adds
to `frags.o` the number of wins, pixel by pixel, in the fold of the fragment sequence `triFrags`. -/
theorem drawTris_countD (ctx : Ctx) (shade : List K → Option C) (m : Mat4 K) (W H : Nat) (ts : List (Tri K))
    (hin : TrisInRect m W H ts) (t : Target K C) (st : Stats) (hwf : WFD t W H) :
    ∃ t' st', drawTris ctx shade m t st ts = .ok (t', st') ∧ WFD t' W H ∧
      (∀ x y, pix t' x y = (pix t x y).map (pixelFold ctx shade (triFrags ctx m ts x y))) ∧
      st'.fragsO = st.fragsO +
        cwMul ctx (gridSum W H fun x y => pixW ctx shade (triFrags ctx m ts x y) (pix t x y)) := by
  induction ts generalizing t st with
  | nil =>
    refine ⟨t, st, rfl, hwf, fun x y => ?_, ?_⟩
    · cases pix t x y <;> simp [triFrags, pixelFold]
    · simp only [triFrags, List.flatMap_nil, pixW_nil, gridSum_zero, cwMul_zero, Nat.add_zero]
  | cons tri rest ih =>
    have hrest : TrisInRect m W H rest := fun t ht => hin t (List.mem_cons_of_mem _ ht)
    simp only [drawTris]
    by_cases hcull : culled ctx (toScreen m tri.a) (toScreen m tri.b) (toScreen m tri.c) = true
    · rw [if_pos hcull]
      obtain ⟨t2, st2, hr2, hwf2, hp2, hc2⟩ := ih hrest t st hwf
      refine ⟨t2, st2, hr2, hwf2, fun x y => ?_, ?_⟩
      · rw [hp2 x y]
        simp only [triFrags, List.flatMap_cons, if_pos hcull, List.nil_append]
      · rw [hc2]
        simp only [triFrags, List.flatMap_cons, if_pos hcull, List.nil_append]
    · rw [if_neg hcull]
      obtain ⟨t1, st1, hr, hwf1, hp1, hc1⟩ := rasterizeAll_countD ctx shade W H _ (hin tri (by simp)) t
        { st with primsO := st.primsO + 1, vertsO := st.vertsO + 3 } hwf
      simp only [hr]
      obtain ⟨t2, st2, hr2, hwf2, hp2, hc2⟩ := ih hrest t1 st1 hwf1
      refine ⟨t2, st2, hr2, hwf2, fun x y => ?_, ?_⟩
      · rw [hp2 x y, hp1 x y, Option.map_map]
        congr 1
        funext s
        simp only [Function.comp, triFrags, List.flatMap_cons, if_neg hcull]
        rw [fold_append]
      · rw [hc2, hc1]
        simp only
        rw [Nat.add_assoc, ← cwMul_add, ← gridSum_add]
        congr 2
        apply gridSum_congr
        intro x y _ _
        rw [hp1 x y]
        simp only [triFrags, List.flatMap_cons, if_neg hcull]
        rw [pixW_append]

theorem drawTris_countC (ctx : Ctx) (shade : List K → Option C) (m : Mat4 K) (W H : Nat) (ts : List (Tri K))
    (hin : TrisInRect m W H ts) (t : Target K C) (st : Stats) (hwf : WFC t W H) :
    ∃ t' st', drawTris ctx shade m t st ts = .ok (t', st') ∧ WFC t' W H ∧
      st'.fragsO = st.fragsO + cwMul ctx (gridSum W H fun x y => shadedCount shade (triFrags ctx m ts x y)) := by
  induction ts generalizing t st with
  | nil =>
    refine ⟨t, st, rfl, hwf, ?_⟩
    simp only [triFrags, List.flatMap_nil, shadedCount, List.countP_nil, gridSum_zero, cwMul_zero, Nat.add_zero]
  | cons tri rest ih =>
    have hrest : TrisInRect m W H rest := fun t ht => hin t (List.mem_cons_of_mem _ ht)
    simp only [drawTris]
    by_cases hcull : culled ctx (toScreen m tri.a) (toScreen m tri.b) (toScreen m tri.c) = true
    · rw [if_pos hcull]
      obtain ⟨t2, st2, hr2, hwf2, hc2⟩ := ih hrest t st hwf
      refine ⟨t2, st2, hr2, hwf2, ?_⟩
      rw [hc2]
      simp only [triFrags, List.flatMap_cons, if_pos hcull, List.nil_append]
    · rw [if_neg hcull]
      obtain ⟨t1, st1, hr, hwf1, hc1⟩ := rasterizeAll_countC ctx shade W H _ (hin tri (by simp)) t
        { st with primsO := st.primsO + 1, vertsO := st.vertsO + 3 } hwf
      simp only [hr]
      obtain ⟨t2, st2, hr2, hwf2, hc2⟩ := ih hrest t1 st1 hwf1
      refine ⟨t2, st2, hr2, hwf2, ?_⟩
      rw [hc2, hc1]
      simp only
      rw [Nat.add_assoc, ← cwMul_add, ← gridSum_add]
      congr 2
      apply gridSum_congr
      intro x y _ _
      simp only [triFrags, List.flatMap_cons, if_neg hcull]
      rw [shadedCount_append]

/-! ### frags.i as a number of covered pixel centres -/

open Retro.Props.C04 Retro.Props.C01

theorem sumTo_one (n : Nat) : sumTo n (fun _ => 1) = n := by
  induction n with
  | zero => rfl
  | succ n ih => simp [sumTo, ih]

/-- A scanline inside the buffer whose fragment sequence covers its span delivers exactly one fragment to
each pixel of the span: `max x1 x0 − x0` fragments in all. -/
theorem slFrag_gridSum (W H : Nat) (sl : Scanline K) (hy : sl.y < H) (hx : Nat.max sl.x1 sl.x0 ≤ W)
    (hl : sl.x1 - sl.x0 ≤ sl.frags.length) :
    gridSum W H (fun x y => (slFrag sl x y).toList.length) = spanLen sl := by
  have hx01 : sl.x0 ≤ Nat.max sl.x1 sl.x0 := Nat.le_max_right _ _
  have hmax : Nat.max sl.x1 sl.x0 - sl.x0 = sl.x1 - sl.x0 := by
    have : Nat.max sl.x1 sl.x0 = max sl.x1 sl.x0 := rfl
    omega
  unfold spanLen
  rw [← sumTo_one (Nat.max sl.x1 sl.x0 - sl.x0), ← gridSum_window W H sl.y sl.x0 _ (fun _ => 1) hy hx01 hx]
  apply gridSum_congr
  intro x y _ _
  unfold slFrag
  by_cases hcond : y = sl.y ∧ sl.x0 ≤ x ∧ x < Nat.max sl.x1 sl.x0
  · rw [if_pos hcond, if_pos hcond]
    have : x - sl.x0 < (List.map zdiv sl.frags).length := by rw [List.length_map]; omega
    rw [List.getElem?_eq_getElem this]
    rfl
  · rw [if_neg hcond, if_neg hcond]
    rfl

theorem fragsAt_gridSum (W H : Nat) (sls : List (Scanline K))
    (hin : ∀ sl ∈ sls, sl.y < H ∧ Nat.max sl.x1 sl.x0 ≤ W) (hl : ∀ sl ∈ sls, sl.x1 - sl.x0 ≤ sl.frags.length) :
    gridSum W H (fun x y => (fragsAt sls x y).length) = (sls.map spanLen).sum := by
  induction sls with
  | nil => simp [fragsAt, gridSum_zero]
  | cons sl rest ih =>
    simp only [fragsAt, List.flatMap_cons, List.length_append, List.map_cons, List.sum_cons]
    rw [gridSum_add, slFrag_gridSum W H sl (hin sl (by simp)).1 (hin sl (by simp)).2 (hl sl (by simp))]
    congr 1
    exact ih (fun s hs => hin s (List.mem_cons_of_mem _ hs)) (fun s hs => hl s (List.mem_cons_of_mem _ hs))

/-- Every scanline of every triangle of the list carries at least as many fragments as its span is long. -/
def SpansFilled (m : Mat4 K) (ts : List (Tri K)) : Prop :=
  ∀ tri ∈ ts, ∀ sl ∈ triFill (toScreen m tri.a) (toScreen m tri.b) (toScreen m tri.c), sl.x1 - sl.x0 ≤ sl.frags.length

/-- Σ of span lengths = number of fragments delivered to pixels, summed over the pixels. -/
theorem triFrags_gridSum (ctx : Ctx) (m : Mat4 K) (W H : Nat) (ts : List (Tri K))
    (hin : TrisInRect m W H ts) (hl : SpansFilled m ts) :
    gridSum W H (fun x y => (triFrags ctx m ts x y).length) = spanTotal ctx m ts := by
  induction ts with
  | nil => simp [triFrags, gridSum_zero, spanTotal, drawn]
  | cons tri rest ih =>
    have ih' := ih (fun t ht => hin t (List.mem_cons_of_mem _ ht)) (fun t ht => hl t (List.mem_cons_of_mem _ ht))
    by_cases hcull : culled ctx (toScreen m tri.a) (toScreen m tri.b) (toScreen m tri.c) = true
    · have hd : drawn ctx m (tri :: rest) = drawn ctx m rest := by simp [drawn, hcull]
      simp only [triFrags, List.flatMap_cons, if_pos hcull, List.nil_append, spanTotal, hd]
      exact ih'
    · have hd : drawn ctx m (tri :: rest) = tri :: drawn ctx m rest := by simp [drawn, hcull]
      simp only [triFrags, List.flatMap_cons, if_neg hcull, List.length_append, spanTotal, hd, List.map_cons,
        List.sum_cons]
      rw [gridSum_add, fragsAt_gridSum W H _ (hin tri (by simp)) (hl tri (by simp))]
      congr 1

open Classical in
/-- **Number of drawn triangles covering pixel (x, y)**: the triangles of the list that are not culled and
whose screen triangle contains the pixel centre by the edge-function test `Inside` of C04 (top-left rule). -/
noncomputable def coverCount (ctx : Ctx) (m : Mat4 K) (ts : List (Tri K)) (x y : Nat) : Nat :=
  ((drawn ctx m ts).filter fun tri =>
    decide (Inside (pt (toScreen m tri.a)) (pt (toScreen m tri.b)) (pt (toScreen m tri.c)) (centre x y))).length

theorem coverCount_perm (ctx : Ctx) (m : Mat4 K) {l1 l2 : List (Tri K)} (h : l1.Perm l2) (x y : Nat) :
    coverCount ctx m l1 x y = coverCount ctx m l2 x y :=
  (List.Perm.filter _ (drawn_perm ctx m h)).length_eq

/-- What `TriNear` (C02: tuples of a common length ≥ 2 within half a pixel of the viewport rectangle) gives
about one triangle's scan conversion. -/
theorem triNear_scan (L R T B k : Nat) (m : Mat4 K) (tri : Tri K) (h : TriNear L R T B m k tri) :
    (∀ sl ∈ triFill (toScreen m tri.a) (toScreen m tri.b) (toScreen m tri.c), sl.x1 - sl.x0 ≤ sl.frags.length) ∧
    ∀ x y, (fragsAt (triFill (toScreen m tri.a) (toScreen m tri.b) (toScreen m tri.c)) x y).length =
      if Inside (pt (toScreen m tri.a)) (pt (toScreen m tri.b)) (pt (toScreen m tri.c)) (centre x y) then 1 else 0 := by
  obtain ⟨hlen, na, nb, nc⟩ := h
  have ha := hlen tri.a (by simp)
  have hb := hlen tri.b (by simp)
  have hc := hlen tri.c (by simp)
  have hT : (0 : K) ≤ (T : K) := Nat.cast_nonneg T
  have hy : ∀ v ∈ [toScreen m tri.a, toScreen m tri.b, toScreen m tri.c], -(1 / 2) ≤ nth1 v := by
    intro v hv
    simp only [List.mem_cons, List.mem_nil_iff, or_false] at hv
    rcases hv with rfl | rfl | rfl
    · have := na.2.1; linarith
    · have := nb.2.1; linarith
    · have := nc.2.1; linarith
  refine ⟨(trifill_sorted _ _ _ (3 + k) (by omega) ha hb hc hy).2, fun x y => ?_⟩
  obtain ⟨h0, h1⟩ := fragsAt_trifill _ _ _ (3 + k) (by omega) ha hb hc hy x y
  have hiff : Covers (triFill (toScreen m tri.a) (toScreen m tri.b) (toScreen m tri.c)) x y ↔
      Inside (pt (toScreen m tri.a)) (pt (toScreen m tri.b)) (pt (toScreen m tri.c)) (centre x y) :=
    trifill_covers_iff_inside _ _ _ (3 + k) (by omega) ha hb hc hy x y
  by_cases hcov : Covers (triFill (toScreen m tri.a) (toScreen m tri.b) (toScreen m tri.c)) x y
  · obtain ⟨_, _, f, _, _, _, _, _, hfr⟩ := h1 hcov
    rw [hfr, if_pos (hiff.mp hcov)]
    rfl
  · rw [h0 hcov, if_neg (fun hh => hcov (hiff.mpr hh))]
    rfl

/-- **Fragments delivered to a pixel = drawn triangles whose coverage test the pixel centre passes.** -/
theorem triFrags_length_cover (ctx : Ctx) (L R T B k : Nat) (m : Mat4 K) (ts : List (Tri K))
    (hn : ∀ tri ∈ ts, TriNear L R T B m k tri) (x y : Nat) :
    (triFrags ctx m ts x y).length = coverCount ctx m ts x y := by
  induction ts with
  | nil => simp [triFrags, coverCount, drawn]
  | cons tri rest ih =>
    have ih' := ih (fun t ht => hn t (List.mem_cons_of_mem _ ht))
    unfold coverCount at ih' ⊢
    by_cases hcull : culled ctx (toScreen m tri.a) (toScreen m tri.b) (toScreen m tri.c) = true
    · have hd : drawn ctx m (tri :: rest) = drawn ctx m rest := by simp [drawn, hcull]
      simp only [triFrags, List.flatMap_cons, if_pos hcull, List.nil_append, hd]
      exact ih'
    · have hd : drawn ctx m (tri :: rest) = tri :: drawn ctx m rest := by simp [drawn, hcull]
      simp only [triFrags, List.flatMap_cons, if_neg hcull, List.length_append, hd, List.filter_cons]
      rw [(triNear_scan L R T B k m tri (hn tri (by simp))).2 x y]
      simp only [triFrags] at ih'
      rw [ih']
      by_cases hin : Inside (pt (toScreen m tri.a)) (pt (toScreen m tri.b)) (pt (toScreen m tri.c)) (centre x y)
      · simp [hin]; omega
      · simp [hin]

/-! ### Whole `render` calls -/

/-- The post-clip triangle list of a `render` call (before the optional depth sort). -/
def clipped (verts : List (Vec4 K × List K)) (tris : List (Nat × Nat × Nat)) : List (Tri K) :=
  clipTris (tris.filterMap (mkTri (cverts verts)))

theorem renderList_eq (ctx : Ctx) (verts : List (Vec4 K × List K)) (tris : List (Nat × Nat × Nat)) :
    renderList ctx verts tris = drawOrder ctx (clipped verts tris) := by
  unfold renderList drawOrder clipped cverts
  cases ctx.depthSort <;> rfl

/-- Every triangle `render` draws projects to within half a pixel of the viewport rectangle (C02). -/
theorem renderList_near (Q : Vec4 K → Prop) (hQ : ClipInv Q) (ctx : Ctx) (L R T B k : Nat)
    (hLR : L ≤ R) (hTB : T ≤ B) (tris : List (Nat × Nat × Nat)) (verts : List (Vec4 K × List K))
    (hverts : ∀ v ∈ verts, Q v.1 ∧ v.2.length = k) :
    ∀ tri ∈ renderList ctx verts tris, TriNear L R T B (viewportMat L R T B) k tri := by
  have hcv : ∀ v ∈ cverts verts, WF v ∧ Q v.pos ∧ v.attr.length = k := by
    intro v hv
    obtain ⟨pa, hpa, rfl⟩ := List.mem_map.mp hv
    obtain ⟨q1, q2⟩ := hverts pa hpa
    exact ⟨Retro.Lemmas.Clip.mkVert_wf _ _, q1, q2⟩
  have hclip : ∀ tri ∈ clipped verts tris, TriNear L R T B (viewportMat L R T B) k tri := by
    intro tri htri
    obtain ⟨t0, ht0, htri0⟩ := List.mem_flatMap.mp htri
    obtain ⟨ijk, _, hmk⟩ := List.mem_filterMap.mp ht0
    have hv0 := fun v hv => hcv v (mkTri_mem _ ijk t0 hmk v hv)
    have hwf0 : Retro.Props.C03.TriWF t0 := ⟨(hv0 _ (by simp)).1, (hv0 _ (by simp)).1, (hv0 _ (by simp)).1⟩
    have hin := Retro.Props.C03.clip_inside t0 hwf0 tri htri0
    have hq := clip_keeps_inv Q hQ t0 (hv0 _ (by simp)).2.1 (hv0 _ (by simp)).2.1 (hv0 _ (by simp)).2.1 tri htri0
    have hlen := clip_attr_length k t0 (hv0 _ (by simp)).2.2 (hv0 _ (by simp)).2.2 (hv0 _ (by simp)).2.2 tri htri0
    have near : ∀ v ∈ Retro.Props.C03.triVerts tri, NearRect L R T B (toScreen (viewportMat L R T B) v) :=
      fun v hv => survivor_near_rect L R T B hLR hTB Q hQ v (hin v hv) (hq v hv)
    refine ⟨?_, near _ (by simp [Retro.Props.C03.triVerts]), near _ (by simp [Retro.Props.C03.triVerts]),
      near _ (by simp [Retro.Props.C03.triVerts])⟩
    intro v hv
    rw [toScreen_length, hlen v (by simpa [Retro.Props.C03.triVerts] using hv)]
  intro tri htri
  rw [renderList_eq] at htri
  exact hclip tri ((drawOrder_perm ctx _).subset htri)

theorem near_inRect (L R T B W H k : Nat) (hRW : R ≤ W) (hBH : B ≤ H) (m : Mat4 K) (ts : List (Tri K))
    (hn : ∀ tri ∈ ts, TriNear L R T B m k tri) : TrisInRect m W H ts := by
  intro tri htri sl hsl
  obtain ⟨hlen, na, nb, nc⟩ := hn tri htri
  obtain ⟨_, h2, _, h4, h5⟩ := trifill_rows_in_rect L R T B _ _ _ (3 + k) (by omega)
    (hlen _ (by simp)) (hlen _ (by simp)) (hlen _ (by simp)) na nb nc sl hsl
  exact ⟨by omega, by rw [Nat.max_le]; omega⟩

theorem near_filled (L R T B k : Nat) (m : Mat4 K) (ts : List (Tri K))
    (hn : ∀ tri ∈ ts, TriNear L R T B m k tri) : SpansFilled m ts :=
  fun tri htri => (triNear_scan L R T B k m tri (hn tri htri)).1

/-- **frags.i = number of (drawn triangle, pixel) pairs whose pixel centre passes the coverage test** —
"fragments generated" — for a scene satisfying the hypotheses of `render_ok_of`. -/
theorem render_fragsI_pixels (Q : Vec4 K → Prop) (hQ : ClipInv Q) (ctx : Ctx) (shade : List K → Option C)
    (L R T B W H k : Nat) (hLR : L ≤ R) (hTB : T ≤ B) (hRW : R ≤ W) (hBH : B ≤ H)
    (tris : List (Nat × Nat × Nat)) (verts : List (Vec4 K × List K))
    (hidx : ∀ t ∈ tris, t.1 < verts.length ∧ t.2.1 < verts.length ∧ t.2.2 < verts.length)
    (hverts : ∀ v ∈ verts, Q v.1 ∧ v.2.length = k) (t : Target K C) (hwf : WFT t W H) :
    ∃ t' st, render ctx shade (viewportMat L R T B) tris verts t = .ok (t', st) ∧
      st.fragsI = spanTotal ctx (viewportMat L R T B) (clipped verts tris) ∧
      st.fragsI = gridSum W H (coverCount ctx (viewportMat L R T B) (clipped verts tris)) := by
  obtain ⟨t', st, hr, -⟩ := render_ok_of Q hQ ctx shade L R T B W H k hLR hTB hRW hBH tris verts hidx hverts t hwf
  refine ⟨t', st, hr, ?_⟩
  obtain ⟨ts, hl, hf⟩ := render_fragsI ctx shade _ tris verts t t' st hr
  have hlk := lookupTris_eq (cverts verts) tris (by rw [cverts, List.length_map]; exact hidx)
  rw [hlk] at hl
  cases hl
  have hnear := renderList_near Q hQ { ctx with depthSort := none } L R T B k hLR hTB tris verts hverts
  have hrl : renderList { ctx with depthSort := none } verts tris = clipped verts tris := renderList_eq _ _ _
  rw [hrl] at hnear
  change st.fragsI = spanTotal ctx (viewportMat L R T B) (clipped verts tris) at hf
  refine ⟨hf, ?_⟩
  rw [hf, ← triFrags_gridSum ctx _ W H _ (near_inRect L R T B W H k hRW hBH _ _ hnear) (near_filled L R T B k _ _ hnear)]
  apply gridSum_congr
  intro x y _ _
  exact triFrags_length_cover ctx L R T B k _ _ hnear x y

/-- **frags.o on a depth-buffered target** = (colour writes on ?) Σ over pixels of the number of fragments of the
pixel's sequence `triFrags … (renderList …)`, in draw order, that pass the depth test against the depth
current at that moment and are shaded — starting from the depth the target held. -/
theorem render_fragsO (Q : Vec4 K → Prop) (hQ : ClipInv Q) (ctx : Ctx) (shade : List K → Option C)
    (L R T B W H k : Nat) (hLR : L ≤ R) (hTB : T ≤ B) (hRW : R ≤ W) (hBH : B ≤ H)
    (tris : List (Nat × Nat × Nat)) (verts : List (Vec4 K × List K))
    (hidx : ∀ t ∈ tris, t.1 < verts.length ∧ t.2.1 < verts.length ∧ t.2.2 < verts.length)
    (hverts : ∀ v ∈ verts, Q v.1 ∧ v.2.length = k) (t : Target K C) (hwf : WFD t W H) :
    ∃ t' st, render ctx shade (viewportMat L R T B) tris verts t = .ok (t', st) ∧
      st.fragsO = cwMul ctx (gridSum W H fun x y =>
        pixW ctx shade (triFrags ctx (viewportMat L R T B) (renderList ctx verts tris) x y) (pix t x y)) := by
  obtain ⟨e, hin⟩ := render_eq_drawTris Q hQ ctx shade L R T B W H k hLR hTB hRW hBH tris verts hidx hverts t
  rw [e]
  obtain ⟨t', st', hr, -, -, hc⟩ := drawTris_countD ctx shade _ W H _ hin t
    { calls := 1, primsI := tris.length, vertsI := verts.length } hwf
  exact ⟨t', st', hr, by simpa using hc⟩

/-- **frags.o on a colour-only target** = (colour writes on ?) number of delivered fragments the shader gives a
colour (there is no depth test). -/
theorem render_fragsO_color (Q : Vec4 K → Prop) (hQ : ClipInv Q) (ctx : Ctx) (shade : List K → Option C)
    (L R T B W H k : Nat) (hLR : L ≤ R) (hTB : T ≤ B) (hRW : R ≤ W) (hBH : B ≤ H)
    (tris : List (Nat × Nat × Nat)) (verts : List (Vec4 K × List K))
    (hidx : ∀ t ∈ tris, t.1 < verts.length ∧ t.2.1 < verts.length ∧ t.2.2 < verts.length)
    (hverts : ∀ v ∈ verts, Q v.1 ∧ v.2.length = k) (t : Target K C) (hwf : WFC t W H) :
    ∃ t' st, render ctx shade (viewportMat L R T B) tris verts t = .ok (t', st) ∧
      st.fragsO = cwMul ctx (gridSum W H fun x y =>
        shadedCount shade (triFrags ctx (viewportMat L R T B) (renderList ctx verts tris) x y)) := by
  obtain ⟨e, hin⟩ := render_eq_drawTris Q hQ ctx shade L R T B W H k hLR hTB hRW hBH tris verts hidx hverts t
  rw [e]
  obtain ⟨t', st', hr, -, hc⟩ := drawTris_countC ctx shade _ W H _ hin t
    { calls := 1, primsI := tris.length, vertsI := verts.length } hwf
  exact ⟨t', st', hr, by simpa using hc⟩

/-- "Fragments written", for either kind of target: with a depth buffer the per-pixel number of depth-test
wins among shaded fragments, without one the per-pixel number of shaded fragments; 0 with colour writes off. -/
def fragsWritten (ctx : Ctx) (shade : List K → Option C) (t : Target K C) (W H : Nat)
    (frs : Nat → Nat → List (List K)) : Nat :=
  cwMul ctx (gridSum W H fun x y =>
    match t.depth with
    | some _ => pixW ctx shade (frs x y) (pix t x y)
    | none => shadedCount shade (frs x y))

/-- **The statistics equal what happened.** Scene as in C02's `render_ok_of` (valid indices, clip-space
positions on a perspective or affine image, attribute tuples of one length, the library's viewport matrix
for a rectangle inside the `W`×`H` target of either kind), any Context, any fragment shader. `render`
returns, and the `Stats` it adds to `ctx.stats` are:
calls = 1; prims.i = triangles submitted; verts.i = vertices submitted;
prims.o = clipped triangles not culled on screen; verts.o = three per such triangle;
frags.i = Σ of their span lengths = number of (drawn triangle, pixel) pairs whose pixel centre passes the
coverage test; frags.o = `fragsWritten` over the per-pixel fragment sequences in draw order. -/
theorem render_stats_exact (Q : Vec4 K → Prop) (hQ : ClipInv Q) (ctx : Ctx) (shade : List K → Option C)
    (L R T B W H k : Nat) (hLR : L ≤ R) (hTB : T ≤ B) (hRW : R ≤ W) (hBH : B ≤ H)
    (tris : List (Nat × Nat × Nat)) (verts : List (Vec4 K × List K))
    (hidx : ∀ t ∈ tris, t.1 < verts.length ∧ t.2.1 < verts.length ∧ t.2.2 < verts.length)
    (hverts : ∀ v ∈ verts, Q v.1 ∧ v.2.length = k) (t : Target K C) (hwf : WFT t W H) :
    ∃ t' st, render ctx shade (viewportMat L R T B) tris verts t = .ok (t', st) ∧
      st.calls = 1 ∧ st.primsI = tris.length ∧ st.vertsI = verts.length ∧
      st.primsO = (drawn ctx (viewportMat L R T B) (clipped verts tris)).length ∧
      st.vertsO = 3 * (drawn ctx (viewportMat L R T B) (clipped verts tris)).length ∧
      st.fragsI = spanTotal ctx (viewportMat L R T B) (clipped verts tris) ∧
      st.fragsI = gridSum W H (coverCount ctx (viewportMat L R T B) (clipped verts tris)) ∧
      st.fragsO = fragsWritten ctx shade t W H
        (triFrags ctx (viewportMat L R T B) (renderList ctx verts tris)) := by
  obtain ⟨t', st, hr, hfi, hfp⟩ := render_fragsI_pixels Q hQ ctx shade L R T B W H k hLR hTB hRW hBH tris verts
    hidx hverts t hwf
  obtain ⟨h1, h2, h3, -, -⟩ := render_stats ctx shade _ tris verts t t' st hr
  obtain ⟨ts, hl, hp⟩ := render_primsO ctx shade _ tris verts t t' st hr
  obtain ⟨ts', hl', hv⟩ := render_vertsO ctx shade _ tris verts t t' st hr
  have hlk := lookupTris_eq (cverts verts) tris (by rw [cverts, List.length_map]; exact hidx)
  rw [hlk] at hl hl'
  cases hl; cases hl'
  refine ⟨t', st, hr, h1, h2, h3, hp, hv, hfi, hfp, ?_⟩
  unfold fragsWritten
  cases hd : t.depth with
  | none =>
    obtain ⟨t2, st2, hr2, hc⟩ := render_fragsO_color Q hQ ctx shade L R T B W H k hLR hTB hRW hBH tris verts
      hidx hverts t ⟨hwf, hd⟩
    rw [hr] at hr2
    cases hr2
    exact hc
  | some d =>
    obtain ⟨t2, st2, hr2, hc⟩ := render_fragsO Q hQ ctx shade L R T B W H k hLR hTB hRW hBH tris verts
      hidx hverts t ⟨hwf, by simp [hd]⟩
    rw [hr] at hr2
    cases hr2
    exact hc

end Field

/-! ### Non-vacuity: a concrete scene at ℚ with non-trivial counters

The 4×4 scene `NV` of `Retro.Props.C06.Buffer` (two overlapping triangles at w = 2 and w = 4 on the image of
`perspective(_, _, 1.0..10.0)`), default Context (back-face culling, depth test `Less`, both writes on):
triangle (0,2,1) is front-facing and drawn, triangle (3,4,5) is back-facing and culled; the target's depth
buffer already holds the nearer value 1 in its top row, so the drawn triangle's four top-row fragments fail
the depth test; the shader discards the fragment of pixel (0,1). -/

namespace StatsNV
open Retro.Props.C06 Retro.Props.C06.NV Retro.Props.C02 Retro.Props.C07.Examples

/-- `NV.sh`, discarding the fragment whose centre is (½, 1½). -/
def shd : List Rat → Option Nat := fun f => if nth0 f = 1 / 2 ∧ nth1 f = 3 / 2 then none else sh f

/-- A 4×4 framebuffer whose depth buffer holds 1 (nearer than anything drawn) in row 0 and 0 elsewhere. -/
def t1 : Target Rat Nat :=
  ⟨List.replicate 4 (List.replicate 4 0), some ([1, 1, 1, 1] :: List.replicate 3 (List.replicate 4 0))⟩

theorem hw1 : WFT t1 4 4 := by
  refine ⟨rfl, by decide, ?_⟩
  intro d hd; cases hd; exact ⟨rfl, by decide⟩

def scene : List (Nat × Nat × Nat) := [(0, 2, 1), (3, 4, 5)]

/-- The counters of a returned call (`none` for a panic). -/
def counters (r : Outcome (Target Rat Nat × Stats)) : Option (List Nat) :=
  match r with
  | .ok (_, st) => some [st.calls, st.primsI, st.primsO, st.vertsI, st.vertsO, st.fragsI, st.fragsO]
  | .panic _ => none

/-- The model, run: 2 triangles in, 1 out (3 vertices), 10 fragments generated, 5 written. -/
example : counters (render {} shd (viewportMat 0 4 0 4) scene vs t1) = some [1, 2, 1, 6, 3, 10, 5] := by
  decide +kernel

/-- The independently defined right-hand sides, evaluated: both clipped triangles survive clipping, one is not
culled; its spans are 10 pixels long in all; of its 10 fragments 4 fail the depth test and 1 is discarded. -/
example : (clipped vs scene).length = 2 ∧
    (drawn {} (viewportMat 0 4 0 4) (clipped vs scene)).length = 1 ∧
    spanTotal {} (viewportMat 0 4 0 4) (clipped vs scene) = 10 ∧
    fragsWritten {} shd t1 4 4 (triFrags {} (viewportMat 0 4 0 4) (renderList {} vs scene)) = 5 ∧
    fragsWritten {} sh t1 4 4 (triFrags {} (viewportMat 0 4 0 4) (renderList {} vs scene)) = 6 ∧
    fragsWritten {} shd t0 4 4 (triFrags {} (viewportMat 0 4 0 4) (renderList {} vs scene)) = 9 := by
  decide +kernel

/-- The hypotheses of `render_stats_exact` hold for this scene (depth-buffered target) … -/
example := render_stats_exact _ P {} shd 0 4 0 4 4 4 1 (by omega) (by omega) (by omega) (by omega)
    scene vs (by decide) hv t1 hw1
/-- … and for a colour-only target. -/
example := render_stats_exact _ P {} shd 0 4 0 4 4 4 1 (by omega) (by omega) (by omega) (by omega)
    scene vs (by decide) hv tc hwc.1

/-- Colour-only target: no depth test, so 9 of the 10 fragments are written (one discarded). -/
example : counters (render {} shd (viewportMat 0 4 0 4) scene vs tc) = some [1, 2, 1, 6, 3, 10, 9] ∧
    fragsWritten {} shd tc 4 4 (triFrags {} (viewportMat 0 4 0 4) (renderList {} vs scene)) = 9 := by
  decide +kernel

/-- Both triangles drawn (culling off) into the cleared framebuffer `t0`: 20 fragments generated, 6 of the farther
triangle's rejected by the depth test. -/
example : counters (render c0 sh (viewportMat 0 4 0 4) [(0, 1, 2), (3, 4, 5)] vs t0) = some [1, 2, 2, 6, 6, 20, 14] ∧
    fragsWritten c0 sh t0 4 4 (triFrags c0 (viewportMat 0 4 0 4) (renderList c0 vs [(0, 1, 2), (3, 4, 5)])) = 14 := by
  decide +kernel

/-- `render_additive` applies: one call on both triangles = the two single-triangle calls, counter by counter. -/
example := render_additive c0 rfl sh (viewportMat 0 4 0 4) [(0, 1, 2)] [(3, 4, 5)] vs t0

/-! #### frags.o is NOT additive across depth-sort settings

One back-to-front sorted call on both triangles writes all 20 fragments (the farther triangle first, then the
nearer one over it); the unsorted call on the nearer triangle followed by the unsorted call on the farther one
writes 10 + 4. The final colour and depth buffers are nevertheless equal (`render_split`). So the
depth-sort-independent part of additivity is exactly `render_additive_sorted` (prims.o, verts.o, frags.i). -/

def cSorted : Ctx := { faceCull := none, depthSort := some .backToFront }

def oneCall : Option (List (List Nat) × Option (List (List Rat)) × Nat) :=
  match render cSorted sh (viewportMat 0 4 0 4) [(0, 1, 2), (3, 4, 5)] vs t0 with
  | .ok (t', s0) => some (t'.color, t'.depth, s0.fragsO)
  | .panic _ => none

def twoCalls : Option (List (List Nat) × Option (List (List Rat)) × Nat) :=
  match render c0 sh (viewportMat 0 4 0 4) [(0, 1, 2)] vs t0 with
  | .ok (ta, s1) =>
    match render c0 sh (viewportMat 0 4 0 4) [(3, 4, 5)] vs ta with
    | .ok (t', s2) => some (t'.color, t'.depth, s1.fragsO + s2.fragsO)
    | .panic _ => none
  | .panic _ => none

theorem fragsO_not_additive_sorted :
    oneCall.map (fun r => (r.1, r.2.1)) = twoCalls.map (fun r => (r.1, r.2.1)) ∧
    oneCall.map (·.2.2) = some 20 ∧ twoCalls.map (·.2.2) = some 14 := by
  decide +kernel

end StatsNV

end Retro.Props.C07
