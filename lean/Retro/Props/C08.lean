/-
C08 — Projection, viewport and camera map points where geometry says.

Property theorems about the executable models `Retro.Model.Mat` (perspective / orthographic / viewport),
`Retro.Model.Rect` and `Retro.Model.Cam`; split over sub-modules, all in `namespace Retro.Props.C08`:

* `Proj`  persp_inside_iff, persp_near_far, persp_depth_mono, ortho_inside_iff, ortho_corners,
          viewport_corners, viewport_affine, invalid parameters panic
* `Rect`  rect_intersect_contains (all bounded/unbounded combinations), emptiness
* `Cam`   camera_viewport_confined, cam_project_pinhole; D16/D17 counterexamples and what does hold
* `Fp`    fp_rigid, fp_preserves_distance, fp_origin, fp_lookat_axis, fp_translate, fp_total
-/
import Retro.Props.C08.Proj
import Retro.Props.C08.Rect
import Retro.Props.C08.Cam
import Retro.Props.C08.Fp

namespace Retro.Props.C08
open Retro Retro.Mat Retro.Rect Retro.Cam

/-- A rendered vertex of a camera with a confined viewport stays inside `requested ∩ frame` as long as
its clip coordinates are inside the clip volume: composition of `persp_inside_iff`-style clip bounds with
`camera_viewport_confined` (stated for the NDC point after perspective division). -/
theorem camera_draws_inside {K : Type} [Field K] [LinearOrder K] [IsStrictOrderedRing K]
    (w h : Nat) (req : Rect) (l t r b : Nat)
    (hi : intersect req (frame w h) = ⟨some l, some t, some r, some b⟩) (hlr : l < r) (htb : t < b)
    (c : Camera K) (hc : (Camera.new w h : Camera K).setViewport req = .ok c)
    (clip : V4 K) (hw : 0 < clip.w) (hx : -clip.w ≤ clip.x ∧ clip.x ≤ clip.w) (hy : -clip.w ≤ clip.y ∧ clip.y ≤ clip.w)
    (s : V3 K) (hs : toScreen c.viewport clip = .ok s) :
    (l : K) ≤ s.x ∧ s.x ≤ (r : K) ∧ (t : K) ≤ s.y ∧ s.y ≤ (b : K) ∧ (r : K) ≤ (w : K) ∧ (b : K) ≤ (h : K) := by
  obtain ⟨c', hc', _, _, hin, hrw, hbh⟩ := camera_viewport_confined (K := K) w h req l t r b hi hlr htb
  rw [hc] at hc'
  injection hc' with hc'
  subst hc'
  unfold toScreen at hs
  rw [if_neg hw.ne'] at hs
  injection hs with hs
  subst hs
  have h1 : -1 ≤ clip.x / clip.w := by rw [le_div_iff₀ hw]; linarith [hx.1]
  have h2 : clip.x / clip.w ≤ 1 := by rw [div_le_iff₀ hw]; linarith [hx.2]
  have h3 : -1 ≤ clip.y / clip.w := by rw [le_div_iff₀ hw]; linarith [hy.1]
  have h4 : clip.y / clip.w ≤ 1 := by rw [div_le_iff₀ hw]; linarith [hy.2]
  obtain ⟨a1, a2, a3, a4⟩ := hin ⟨clip.x / clip.w, clip.y / clip.w, 1 / clip.w⟩ h1 h2 h3 h4
  exact ⟨a1, a2, a3, a4, by exact_mod_cast hrw, by exact_mod_cast hbh⟩

end Retro.Props.C08
