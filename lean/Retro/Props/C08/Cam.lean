/-
C08 — `Camera`: viewport confinement (and where it fails: D16, D17), pinhole projection.
-/
import Retro.Model.Cam
import Retro.Props.C08.Proj
import Retro.Props.C08.Rect
import Mathlib.Tactic.Ring
import Mathlib.Tactic.LinearCombination
import Mathlib.Tactic.Linarith
import Mathlib.Tactic.FieldSimp
import Mathlib.Tactic.NormNum
import Mathlib.Algebra.Order.Field.Basic
import Mathlib.Algebra.Order.Ring.Rat

set_option linter.unusedSectionVars false

namespace Retro.Props.C08
open Retro Retro.Mat Retro.Rect Retro.Cam

variable {K : Type} [Field K] [LinearOrder K] [IsStrictOrderedRing K]

def frame (w h : Nat) : Rect := ⟨some 0, some 0, some w, some h⟩

/-- Intersecting anything with a bounded frame is bounded, so `Camera::viewport` never reaches its
`unreachable!`; the intersection is `[max l 0, min r w) × [max t 0, min b h)`. -/
theorem intersect_frame (req : Rect) (w h : Nat) :
    intersect req (frame w h) =
      ⟨some (max (req.left.getD 0) 0), some (max (req.top.getD 0) 0),
       some (min (req.right.getD w) w), some (min (req.bottom.getD h) h)⟩ := by
  obtain ⟨l, t, r, b⟩ := req
  cases l <;> cases t <;> cases r <;> cases b <;> simp [intersect, frame, extremum]

/-- What `Camera::viewport` computes on *any* camera: the requested rect is intersected with
`(0..dims.0, 0..dims.1)`; the new viewport matrix spans `(l, t)..(r, b)` of that intersection and `dims`
becomes `(|r − l|, |b − t|)`. -/
theorem setViewport_eq (c : Camera K) (req : Rect) :
    c.setViewport req = .ok
      { c with
        dims := (absDiff (min (req.right.getD c.dims.1) c.dims.1) (max (req.left.getD 0) 0),
                 absDiff (min (req.bottom.getD c.dims.2) c.dims.2) (max (req.top.getD 0) 0))
        viewport := Mat.viewport ((max (req.left.getD 0) 0 : Nat) : K) ((max (req.top.getD 0) 0 : Nat) : K)
          ((min (req.right.getD c.dims.1) c.dims.1 : Nat) : K) ((min (req.bottom.getD c.dims.2) c.dims.2 : Nat) : K) } := by
  unfold Camera.setViewport
  have := intersect_frame req c.dims.1 c.dims.2
  unfold frame at this
  rw [this]

/-- **camera_viewport_confined.** On a fresh camera, when `requested ∩ frame = [l, r) × [t, b)` is
non-empty, the installed matrix maps the NDC corners onto the corners of that intersection, the
whole NDC square into it, and `dims` becomes its size. -/
theorem camera_viewport_confined (w h : Nat) (req : Rect) (l t r b : Nat)
    (hi : intersect req (frame w h) = ⟨some l, some t, some r, some b⟩) (hlr : l < r) (htb : t < b) :
    ∃ c : Camera K, (Camera.new w h : Camera K).setViewport req = .ok c ∧
      c.dims = (r - l, b - t) ∧
      (∀ z : K, c.viewport.applyPt ⟨-1, -1, z⟩ = ⟨(l : K), (t : K), z⟩ ∧ c.viewport.applyPt ⟨1, 1, z⟩ = ⟨(r : K), (b : K), z⟩) ∧
      (∀ p : V3 K, -1 ≤ p.x → p.x ≤ 1 → -1 ≤ p.y → p.y ≤ 1 →
        (l : K) ≤ (c.viewport.applyPt p).x ∧ (c.viewport.applyPt p).x ≤ (r : K) ∧
        (t : K) ≤ (c.viewport.applyPt p).y ∧ (c.viewport.applyPt p).y ≤ (b : K)) ∧
      r ≤ w ∧ b ≤ h := by
  have hfr := intersect_frame req w h
  rw [hi] at hfr
  simp only [Rect.mk.injEq, Option.some.injEq] at hfr
  obtain ⟨e1, e2, e3, e4⟩ := hfr
  refine ⟨_, setViewport_eq _ req, ?_, ?_, ?_, ?_, ?_⟩
  · show (absDiff _ _, absDiff _ _) = _
    simp only [Camera.new]
    rw [e1, e2, e3, e4]
    simp only [absDiff]
    rw [if_neg (by omega), if_neg (by omega)]
  · intro z
    simp only [Camera.new, ← e1, ← e2, ← e3, ← e4]
    exact viewport_corners _ _ _ _ z
  · intro p h1 h2 h3 h4
    simp only [Camera.new, ← e1, ← e2, ← e3, ← e4]
    have hlr' : (l : K) < (r : K) := by exact_mod_cast hlr
    have htb' : (t : K) < (b : K) := by exact_mod_cast htb
    exact (viewport_affine (l : K) (t : K) (r : K) (b : K) hlr' htb' p).mp ⟨h1, h2, h3, h4⟩
  · omega
  · omega

example : intersect ⟨some 10, some 10, some 630, some 470⟩ (frame 640 480) = ⟨some 10, some 10, some 630, some 470⟩ := by
  decide
/-- … including a viewport partly outside the frame. -/
example : intersect ⟨some 12, some 2, some 21, some 36⟩ (frame 20 10) = ⟨some 12, some 2, some 20, some 10⟩ := by
  decide

/-- The pixels of the confined viewport are exactly those in both the requested rect and the frame. -/
theorem camera_viewport_pixels (w h : Nat) (req : Rect) (x y : Nat) :
    contains (intersect req (frame w h)) x y = (contains req x y && (decide (x < w) && decide (y < h))) := by
  rw [rect_intersect_contains]
  simp [contains, frame, inExtent]

/-! ### D16 — a viewport wholly outside the frame is *not* empty

Full statement that would make "restricts drawing to the intersection" true when the intersection is
empty:

    theorem camera_viewport_empty_draws_nothing :
      isEmpty (intersect req (frame w h)) → (Camera.new w h).setViewport req = .ok c →
      the NDC square has an image of zero area (or the camera refuses to draw)

It is false of the code: `abs_diff` turns the reversed extent into a positive size and the matrix maps the
NDC square onto the *mirrored* rectangle `[r, l] × [t, b]`, which lies outside the frame. -/
theorem camera_viewport_disjoint_counterexample :
    ∃ c : Camera ℚ, (Camera.new 20 10 : Camera ℚ).setViewport ⟨some 30, some 2, some 40, some 8⟩ = .ok c ∧
      isEmpty (intersect ⟨some 30, some 2, some 40, some 8⟩ (frame 20 10)) = true ∧
      c.dims = (10, 6) ∧
      c.viewport.applyPt ⟨-1, -1, 0⟩ = ⟨30, 2, 0⟩ ∧ c.viewport.applyPt ⟨1, 1, 0⟩ = ⟨20, 8, 0⟩ := by
  refine ⟨_, setViewport_eq _ _, by decide, by decide, ?_, ?_⟩ <;>
    (simp only [Camera.new, Mat.viewport, M4.applyPt, dot4, half]; norm_num)

/-- What the code does in general when the intersection is empty along x (`r ≤ l`): the image of the NDC
square spans `[r, l]`, of width `l − r`; it has no area only in the boundary case `l = r`. -/
theorem camera_viewport_empty_image (w h : Nat) (req : Rect) (l t r b : Nat)
    (hi : intersect req (frame w h) = ⟨some l, some t, some r, some b⟩) :
    ∃ c : Camera K, (Camera.new w h : Camera K).setViewport req = .ok c ∧
      c.dims = (absDiff r l, absDiff b t) ∧
      ∀ z : K, c.viewport.applyPt ⟨-1, -1, z⟩ = ⟨(l : K), (t : K), z⟩ ∧ c.viewport.applyPt ⟨1, 1, z⟩ = ⟨(r : K), (b : K), z⟩ := by
  have hfr := intersect_frame req w h
  rw [hi] at hfr
  simp only [Rect.mk.injEq, Option.some.injEq] at hfr
  obtain ⟨e1, e2, e3, e4⟩ := hfr
  refine ⟨_, setViewport_eq _ req, ?_, ?_⟩
  · simp only [Camera.new, ← e1, ← e2, ← e3, ← e4]
  · intro z
    simp only [Camera.new, ← e1, ← e2, ← e3, ← e4]
    exact viewport_corners _ _ _ _ z

/-! ### D17 — a second `viewport()` call intersects with the first viewport's size, not the frame

Full statement: `camera_viewport_frame_preserved`: after `new(w,h).viewport(r1).viewport(r2)` the NDC square
is mapped onto `r2 ∩ (0..w, 0..h)`. False of the code: -/
theorem camera_viewport_second_call_counterexample :
    ∃ c1 c2 : Camera ℚ,
      (Camera.new 100 100 : Camera ℚ).setViewport ⟨some 50, none, some 100, none⟩ = .ok c1 ∧
      c1.setViewport ⟨some 0, none, some 100, none⟩ = .ok c2 ∧
      intersect ⟨some 0, none, some 100, none⟩ (frame 100 100) = ⟨some 0, some 0, some 100, some 100⟩ ∧
      c2.viewport.applyPt ⟨-1, -1, 0⟩ = ⟨0, 0, 0⟩ ∧ c2.viewport.applyPt ⟨1, 1, 0⟩ = ⟨50, 100, 0⟩ := by
  refine ⟨_, _, setViewport_eq _ _, setViewport_eq _ _, by decide, ?_, ?_⟩ <;>
    (simp only [Camera.new, Mat.viewport, M4.applyPt, dot4, half, absDiff]; norm_num)

/-- What does hold for the second call: it is confined to `r2 ∩ (0..dims₁)` where `dims₁` is the size of the
first viewport — the frame is preserved exactly when the first viewport started at the origin and … -/
theorem camera_viewport_second_call (c : Camera K) (req : Rect) :
    ∃ c2 : Camera K, c.setViewport req = .ok c2 ∧
      ∀ z : K, c2.viewport.applyPt ⟨-1, -1, z⟩ = ⟨((max (req.left.getD 0) 0 : Nat) : K), ((max (req.top.getD 0) 0 : Nat) : K), z⟩ ∧
        c2.viewport.applyPt ⟨1, 1, z⟩ =
          ⟨((min (req.right.getD c.dims.1) c.dims.1 : Nat) : K), ((min (req.bottom.getD c.dims.2) c.dims.2 : Nat) : K), z⟩ :=
  ⟨_, setViewport_eq c req, fun z => viewport_corners _ _ _ _ z⟩

/-- … so it *is* preserved when the first call did not shrink `dims` (full-frame first viewport). -/
theorem camera_viewport_frame_preserved_partial (w h : Nat) (r1 req : Rect) (c1 : Camera K)
    (_h1 : (Camera.new w h : Camera K).setViewport r1 = .ok c1) (hd : c1.dims = (w, h)) :
    ∃ c2 : Camera K, c1.setViewport req = .ok c2 ∧
      ∀ z : K, c2.viewport.applyPt ⟨1, 1, z⟩ =
          ⟨((min (req.right.getD w) w : Nat) : K), ((min (req.bottom.getD h) h : Nat) : K), z⟩ := by
  obtain ⟨c2, hc2, hz⟩ := camera_viewport_second_call c1 req
  refine ⟨c2, hc2, fun z => ?_⟩
  rw [(hz z).2, hd]

example : (Camera.new 64 48 : Camera ℚ).setViewport ⟨none, none, none, none⟩ = .ok (Camera.new 64 48) := by
  rw [setViewport_eq]; simp [Camera.new, absDiff]

/-- The guard under which `Camera.perspective` is modelled as a value: a non-zero height. With `dims.1 = 0` the
f32 code computes an infinite (or NaN) aspect ratio and returns a matrix with `e11 = inf` (or panics); the model has
the explicit outcomes `nonfinite: …` / panic there and never `.ok`. -/
theorem camera_perspective_ok_height_pos (c c' : Camera K) (f n fa : K) (h : c.perspective f n fa = .ok c') :
    c.dims.2 ≠ 0 := by
  intro h0
  unfold Camera.perspective at h
  rw [if_pos h0] at h
  split_ifs at h

example : ((Camera.new 4 3 : Camera ℚ).perspective 1 (1 / 10) 100).isOk = true := by decide +kernel

/-- … and with a positive height it is `perspective()` with aspect ratio `dims.0 / dims.1`. -/
theorem camera_perspective_eq (c : Camera K) (f n fa : K) (h : c.dims.2 ≠ 0) :
    (∀ p, Mat.perspective f ((c.dims.1 : K) / (c.dims.2 : K)) n fa = .ok p →
      c.perspective f n fa = .ok { c with project := p }) ∧
    (∀ m, Mat.perspective f ((c.dims.1 : K) / (c.dims.2 : K)) n fa = .panic m →
      c.perspective f n fa = .panic m) := by
  unfold Camera.perspective
  rw [if_neg h]
  exact ⟨fun p hp => by rw [hp], fun m hm => by rw [hm]⟩

/-! ### pinhole projection through the whole camera -/

/-- **cam_project_pinhole.** With a perspective projection of focal ratio `f` and aspect ratio `a`, a
viewport matrix spanning `(l, t)..(r, b)` and an affine view matrix, a world point whose view-space
coordinates are `q = view · p` (`q.z ≠ 0`) lands on the pixel
`(l + (r−l)/2·(1 + f·qx/qz), t + (b−t)/2·(1 + f·a·qy/qz))` with screen depth `1/qz`. -/
theorem cam_project_pinhole (f a n fa : K) (hf : 0 < f) (ha : 0 < a) (hn : 0 < n) (hnf : n < fa)
    (pm : M4 K) (hp : perspective f a n fa = .ok pm) (l t r b : K) (dims : Nat × Nat)
    (view : M4 K) (hv : view.r3 = ⟨0, 0, 0, 1⟩) (p : V3 K) (hz : (view.applyPt p).z ≠ 0) :
    (⟨dims, pm, Mat.viewport l t r b⟩ : Camera K).projectPoint view p =
      .ok ⟨l + (r - l) / 2 * (1 + f * (view.applyPt p).x / (view.applyPt p).z),
           t + (b - t) / 2 * (1 + f * a * (view.applyPt p).y / (view.applyPt p).z),
           1 / (view.applyPt p).z⟩ := by
  rw [perspective_ok f a n fa hf ha hn hnf] at hp
  injection hp with hp
  subst hp
  obtain ⟨⟨a00, a01, a02, a03⟩, ⟨a10, a11, a12, a13⟩, ⟨a20, a21, a22, a23⟩, r3⟩ := view
  simp only at hv
  subst hv
  obtain ⟨x, y, z⟩ := p
  simp only [M4.applyPt, dot4] at hz ⊢
  generalize hqx : (0 + a00 * x + a01 * y + a02 * z + a03 * 1) = qx
  generalize hqy : (0 + a10 * x + a11 * y + a12 * z + a13 * 1) = qy
  generalize hqz : (0 + a20 * x + a21 * y + a22 * z + a23 * 1) = qz at hz ⊢
  have hd : fa - n ≠ 0 := by linarith
  have hd' : n - fa ≠ 0 := by linarith
  have hclip : ((⟨dims, ⟨⟨f, 0, 0, 0⟩, ⟨0, f * a, 0, 0⟩, ⟨0, 0, (fa + n) / (fa - n), 2 * fa * n / (n - fa)⟩, ⟨0, 0, 1, 0⟩⟩,
      Mat.viewport l t r b⟩ : Camera K).worldToProject
        ⟨⟨a00, a01, a02, a03⟩, ⟨a10, a11, a12, a13⟩, ⟨a20, a21, a22, a23⟩, ⟨0, 0, 0, 1⟩⟩).applyProj ⟨x, y, z⟩ =
      ⟨f * qx, f * a * qy, (fa + n) / (fa - n) * qz + 2 * fa * n / (n - fa), qz⟩ := by
    simp only [Camera.worldToProject, M4.andThen, M4.compose, composeRow4, M4.col, V4.get, M4.applyProj, dot4,
      V4.mk.injEq, ← hqx, ← hqy, ← hqz]
    refine ⟨?_, ?_, ?_, ?_⟩ <;> ring
  unfold Camera.projectPoint
  rw [hclip]
  simp only [toScreen, if_neg hz, Mat.viewport, M4.apply, dot4, half_eq, Outcome.ok.injEq, V3.mk.injEq]
  refine ⟨?_, ?_, ?_⟩
  · field_simp; ring
  · field_simp; ring
  · field_simp; ring

example : (translate (⟨0, 0, 5⟩ : V3 ℚ)).r3 = ⟨0, 0, 0, 1⟩ ∧ ((translate (⟨0, 0, 5⟩ : V3 ℚ)).applyPt ⟨1, 2, 3⟩).z ≠ 0 := by
  constructor
  · rfl
  · simp only [translate, M4.applyPt, dot4]; norm_num

end Retro.Props.C08
