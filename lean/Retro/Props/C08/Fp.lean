/-
C08 — the first-person camera: its view transform is rigid, takes the camera position to the origin and
the heading onto the positive depth axis; `translate` moves along the horizontal heading, right and up.
The trigonometric values of the heading are parameters `(caz, saz)`, `(calt, salt)` with `c² + s² = 1`,
including `calt = 0` (looking straight up or down).
-/
import Retro.Model.Cam
import Retro.Props.C09
import Mathlib.Tactic.Ring
import Mathlib.Tactic.LinearCombination
import Mathlib.Tactic.Linarith
import Mathlib.Tactic.FieldSimp
import Mathlib.Tactic.NormNum
import Mathlib.Algebra.Order.Field.Basic
import Mathlib.Algebra.Order.Ring.Rat
import Mathlib.Algebra.Order.AbsoluteValue.Basic
import Mathlib.Algebra.Order.Ring.Abs
import Mathlib.Algebra.Order.Floor.Ring

set_option linter.unusedSectionVars false

namespace Retro.Props.C08
open Retro Retro.Mat Retro.Cam

variable {K : Type} [Field K] [LinearOrder K] [IsStrictOrderedRing K]

/-- The horizontal heading and the right axis in closed form. -/
theorem fp_axes (fp : FirstPerson K) :
    fp.fwdMove = ⟨fp.caz, 0, fp.saz⟩ ∧ fp.right = ⟨fp.saz, 0, -fp.caz⟩ := by
  simp only [FirstPerson.fwdMove, FirstPerson.right, toCart, V3.smul, cross, V3.mk.injEq]
  refine ⟨⟨?_, ?_, ?_⟩, ⟨?_, ?_, ?_⟩⟩ <;> ring

/-- For a unit heading the vector `fwd × right` that `orient_z` normalises has length exactly 1 — also when
the camera looks straight up or down (`calt = 0`), because `right` is built from the azimuth alone. -/
theorem fp_cross_unit (fp : FirstPerson K) (hr : fp.r = 1)
    (haz : fp.caz * fp.caz + fp.saz * fp.saz = 1) (halt : fp.calt * fp.calt + fp.salt * fp.salt = 1) :
    fp.fwd.lenSqr = 1 ∧ dot3 fp.fwd fp.right = 0 ∧ fp.right.lenSqr = 1 ∧ (cross fp.fwd fp.right).lenSqr = 1 := by
  obtain ⟨pos, r, ca, sa, cb, sb⟩ := fp
  simp only at hr haz halt
  subst hr
  simp only [FirstPerson.fwd, FirstPerson.fwdMove, FirstPerson.right, toCart, V3.smul, cross, V3.lenSqr, dot3]
  refine ⟨?_, ?_, ?_, ?_⟩
  · linear_combination (cb * cb) * haz + halt
  · ring
  · linear_combination haz
  · linear_combination (sb * sb + cb * cb * (ca * ca + sa * sa + 1)) * haz + halt

/-- Hypotheses shared by the theorems below: unit heading; `rho` the exact positive reciprocal length that
`normalize` approximates. -/
structure FpOk (rho : K) (fp : FirstPerson K) : Prop where
  hr : fp.r = 1
  haz : fp.caz * fp.caz + fp.saz * fp.saz = 1
  halt : fp.calt * fp.calt + fp.salt * fp.salt = 1
  hrho : rho * rho * (cross fp.fwd fp.right).lenSqr = 1
  hpos : 0 < rho

/-- The hypotheses are satisfiable, also straight up (`calt = 0`, `salt = 1`). -/
example : FpOk (1 : ℚ) ⟨⟨1, 2, 3⟩, 1, 3 / 5, 4 / 5, 0, 1⟩ :=
  ⟨rfl, by norm_num, by norm_num, by
    simp only [FirstPerson.fwd, FirstPerson.fwdMove, FirstPerson.right, toCart, V3.smul, cross, V3.lenSqr, dot3]
    norm_num, by norm_num⟩

/-- … and the view matrix then exists (no assert of `orient` fires) for the crate's `approx_eq` epsilon. -/
example : ((⟨⟨1, 2, 3⟩, 1, 3 / 5, 4 / 5, 0, 1⟩ : FirstPerson ℚ).worldToView (1 / 1000000) 1).isOk = true := by
  decide +kernel

theorem FpOk.rho_one {rho : K} {fp : FirstPerson K} (ok : FpOk rho fp) : rho = 1 := by
  have h := (fp_cross_unit fp ok.hr ok.haz ok.halt).2.2.2
  have h2 : rho * rho = 1 := by have := ok.hrho; rw [h, mul_one] at this; exact this
  have h3 : (rho - 1) * (rho + 1) = 0 := by linear_combination h2
  rcases mul_eq_zero.mp h3 with h4 | h4
  · linarith
  · have := ok.hpos; linarith

/-- The camera's own axes in world space: `y = (fwd × right)·rho`, `z = fwd`, `x = y × z`. -/
def fpY (rho : K) (fp : FirstPerson K) : V3 K := (cross fp.fwd fp.right).smul rho
def fpX (rho : K) (fp : FirstPerson K) : V3 K := cross (fpY rho fp) fp.fwd

/-- The view transform in closed form: the coordinates of `p − pos` along the camera's axes. -/
theorem fp_view_apply (eps rho : K) (fp : FirstPerson K) (m : M4 K) (h : fp.worldToView eps rho = .ok m) (p : V3 K) :
    m.applyPt p = ⟨dot3 (fpX rho fp) (p.sub fp.pos), dot3 (fpY rho fp) (p.sub fp.pos), dot3 fp.fwd (p.sub fp.pos)⟩ ∧
    m.r3 = ⟨0, 0, 0, 1⟩ := by
  unfold FirstPerson.worldToView at h
  cases ho : orientZ eps rho fp.fwd fp.right with
  | panic msg => rw [ho] at h; cases h
  | ok o =>
    rw [ho] at h
    injection h with h
    subst h
    unfold orientZ normalize at ho
    split_ifs at ho with h0
    simp only [orient] at ho
    split_ifs at ho with g1 g2
    injection ho with ho
    subst ho
    have hy' : (cross fp.fwd fp.right).smul rho = fpY rho fp := rfl
    simp only [fpX]
    rw [hy']
    generalize fpY rho fp = y
    generalize fp.fwd = z
    obtain ⟨px, py, pz⟩ := p
    obtain ⟨z0, z1, z2⟩ := z
    obtain ⟨y0, y1, y2⟩ := y
    generalize fp.pos = q
    obtain ⟨q0, q1, q2⟩ := q
    simp only [M4.andThen, M4.compose, composeRow4, dot4, M4.col, V4.get, M4.transpose, fromBasis, translate,
      M4.applyPt, V3.neg, V3.sub, dot3, cross, V3.mk.injEq, V4.mk.injEq]
    refine ⟨⟨?_, ?_, ?_⟩, ⟨?_, ?_, ?_, ?_⟩⟩ <;> ring

/-- Under `FpOk` the camera axes are orthonormal, and the x axis is the `right` vector. -/
theorem fp_basis (rho : K) (fp : FirstPerson K) (ok : FpOk rho fp) :
    dot3 (fpY rho fp) (fpY rho fp) = 1 ∧ dot3 fp.fwd fp.fwd = 1 ∧ dot3 (fpY rho fp) fp.fwd = 0 ∧
    fpX rho fp = fp.right := by
  obtain ⟨h1, h2, h3, h4⟩ := fp_cross_unit fp ok.hr ok.haz ok.halt
  have hrho := ok.rho_one
  subst hrho
  simp only [fpX, fpY]
  generalize fp.fwd = z at *
  generalize fp.right = r at *
  obtain ⟨z0, z1, z2⟩ := z
  obtain ⟨r0, r1, r2⟩ := r
  simp only [cross, V3.smul, dot3, V3.lenSqr, V3.mk.injEq] at *
  refine ⟨?_, ?_, ?_, ?_, ?_, ?_⟩
  · linear_combination h4
  · linear_combination h1
  · ring
  · linear_combination r0 * h1 - z0 * h2
  · linear_combination r1 * h1 - z1 * h2
  · linear_combination r2 * h1 - z2 * h2

/-- **fp_origin.** The camera position is sent to the origin (needs no hypothesis on the heading). -/
theorem fp_origin (eps rho : K) (fp : FirstPerson K) (m : M4 K) (h : fp.worldToView eps rho = .ok m) :
    m.applyPt fp.pos = ⟨0, 0, 0⟩ := by
  rw [(fp_view_apply eps rho fp m h fp.pos).1]
  simp only [V3.sub, sub_self, dot3, mul_zero, add_zero]

/-- **fp_lookat_axis.** The point at distance `d` along the heading is sent to `(0, 0, d)`: the look-at target
lands on the positive depth axis. -/
theorem fp_lookat_axis (eps rho : K) (fp : FirstPerson K) (ok : FpOk rho fp) (m : M4 K)
    (h : fp.worldToView eps rho = .ok m) (d : K) :
    m.applyPt (fp.pos.add (fp.fwd.smul d)) = ⟨0, 0, d⟩ := by
  rw [(fp_view_apply eps rho fp m h _).1]
  obtain ⟨hyy, hzz, hyz, hx⟩ := fp_basis rho fp ok
  have hxz : dot3 (fpX rho fp) fp.fwd = 0 := by
    simp only [fpX, cross, dot3]; ring
  clear hx
  generalize fpX rho fp = x at *
  generalize fpY rho fp = y at *
  generalize fp.fwd = z at *
  generalize fp.pos = q
  obtain ⟨x0, x1, x2⟩ := x
  obtain ⟨y0, y1, y2⟩ := y
  obtain ⟨z0, z1, z2⟩ := z
  obtain ⟨q0, q1, q2⟩ := q
  simp only [dot3, V3.add, V3.sub, V3.smul, V3.mk.injEq] at *
  refine ⟨?_, ?_, ?_⟩
  · linear_combination d * hxz
  · linear_combination d * hyz
  · linear_combination d * hzz

/-- **fp_rigid (distances).** The view transform preserves the distance between any two points. -/
theorem fp_preserves_distance (eps rho : K) (fp : FirstPerson K) (ok : FpOk rho fp) (m : M4 K)
    (h : fp.worldToView eps rho = .ok m) (p q : V3 K) :
    ((m.applyPt p).sub (m.applyPt q)).lenSqr = (p.sub q).lenSqr := by
  rw [(fp_view_apply eps rho fp m h p).1, (fp_view_apply eps rho fp m h q).1]
  obtain ⟨hyy, hzz, hyz, -⟩ := fp_basis rho fp ok
  simp only [fpX]
  generalize fpY rho fp = y at *
  generalize fp.fwd = z at *
  generalize fp.pos = c
  obtain ⟨y0, y1, y2⟩ := y
  obtain ⟨z0, z1, z2⟩ := z
  obtain ⟨c0, c1, c2⟩ := c
  obtain ⟨p0, p1, p2⟩ := p
  obtain ⟨q0, q1, q2⟩ := q
  simp only [dot3, V3.sub, V3.lenSqr, cross] at *
  -- Gram identity: (d·(y×z))² = |d|²(|y|²|z|² − (y·z)²) − (d·y)²|z|² + 2(d·y)(d·z)(y·z) − (d·z)²|y|²
  linear_combination
    (((p0 - q0) * (p0 - q0) + (p1 - q1) * (p1 - q1) + (p2 - q2) * (p2 - q2)) * (z0 * z0 + z1 * z1 + z2 * z2)
        - ((p0 - q0) * z0 + (p1 - q1) * z1 + (p2 - q2) * z2) * ((p0 - q0) * z0 + (p1 - q1) * z1 + (p2 - q2) * z2)) * hyy
    + (((p0 - q0) * (p0 - q0) + (p1 - q1) * (p1 - q1) + (p2 - q2) * (p2 - q2))
        - ((p0 - q0) * y0 + (p1 - q1) * y1 + (p2 - q2) * y2) * ((p0 - q0) * y0 + (p1 - q1) * y1 + (p2 - q2) * y2)) * hzz
    + (-((p0 - q0) * (p0 - q0) + (p1 - q1) * (p1 - q1) + (p2 - q2) * (p2 - q2)) * (y0 * z0 + y1 * z1 + y2 * z2)
        + 2 * ((p0 - q0) * y0 + (p1 - q1) * y1 + (p2 - q2) * y2) * ((p0 - q0) * z0 + (p1 - q1) * z1 + (p2 - q2) * z2)) * hyz

/-- **fp_rigid (matrix form).** `world_to_view` is `translate(−pos)` followed by the transpose of a rotation `o`:
`oᵀ·o = o·oᵀ = I`, `det o = 1`; its last row is `0 0 0 1` and its determinant 1 (handedness preserved). -/
theorem fp_rigid (eps rho : K) (fp : FirstPerson K) (ok : FpOk rho fp) (m : M4 K)
    (h : fp.worldToView eps rho = .ok m) :
    ∃ o : M4 K, m = (translate fp.pos.neg).andThen o.transpose ∧
      o.transpose.compose o = M4.identity ∧ o.compose o.transpose = M4.identity ∧ o.det = 1 ∧
      m.r3 = ⟨0, 0, 0, 1⟩ ∧ m.det = 1 := by
  obtain ⟨h1, _, _, _⟩ := fp_cross_unit fp ok.hr ok.haz ok.halt
  have haff := (fp_view_apply eps rho fp m h ⟨0, 0, 0⟩).2
  unfold FirstPerson.worldToView at h
  cases ho : orientZ eps rho fp.fwd fp.right with
  | panic msg => rw [ho] at h; cases h
  | ok o =>
    rw [ho] at h
    injection h with h
    obtain ⟨r1, r2⟩ := C09.orient_z_rotation eps rho fp.fwd fp.right o ho h1 ok.hrho
    have r3 := C09.Inverse.right_inverse_of_left_inverse o o.transpose r1
    refine ⟨o, h.symm, r1, r3, r2, haff, ?_⟩
    rw [← h, M4.andThen, C09.det_mul, C09.det_transpose, r2, C09.det_translate, one_mul]

/-- **fp_translate.** `translate(δ)` moves the position by `δx·right + δy·up + δz·fwd_horizontal`, where
`right = (saz, 0, −caz)` is the camera's x axis (previous theorem), `up = (0, 1, 0)` and
`fwd_horizontal = (caz, 0, saz)` the heading projected to the ground plane; the heading is unchanged. -/
theorem fp_translate (fp : FirstPerson K) (d : V3 K) :
    (fp.translate d).pos =
      fp.pos.add (((fp.right.smul d.x).add ((⟨0, 1, 0⟩ : V3 K).smul d.y)).add (fp.fwdMove.smul d.z)) ∧
    (fp.translate d).caz = fp.caz ∧ (fp.translate d).saz = fp.saz ∧
    (fp.translate d).calt = fp.calt ∧ (fp.translate d).salt = fp.salt := by
  refine ⟨?_, rfl, rfl, rfl, rfl⟩
  simp only [FirstPerson.translate, FirstPerson.right]
  generalize fp.fwdMove = f
  generalize fp.pos = q
  obtain ⟨f0, f1, f2⟩ := f
  obtain ⟨q0, q1, q2⟩ := q
  obtain ⟨d0, d1, d2⟩ := d
  simp only [fromBasis, M4.apply, dot4, cross, V3.add, V3.smul, V3.mk.injEq]
  refine ⟨?_, ?_, ?_⟩ <;> ring

/-- In view space the displacement is exactly `δ` when the camera is level (`salt = 0`, `calt = 1`):
moving by `δ` shifts every view-space coordinate by `−δ`. -/
theorem fp_translate_view_level (eps rho : K) (fp : FirstPerson K) (ok : FpOk rho fp) (hl : fp.salt = 0) (hc : fp.calt = 1)
    (m m' : M4 K) (h : fp.worldToView eps rho = .ok m) (d : V3 K) (h' : (fp.translate d).worldToView eps rho = .ok m')
    (p : V3 K) : m'.applyPt p = (m.applyPt p).sub d := by
  have e1 := (fp_view_apply eps rho fp m h p).1
  have e2 := (fp_view_apply eps rho (fp.translate d) m' h' p).1
  rw [e1, e2]
  have hrho := ok.rho_one
  have haz := ok.haz
  have hr := ok.hr
  obtain ⟨pos, r, ca, sa, cb, sb⟩ := fp
  simp only at hl hc hr haz
  subst hl hc hr hrho
  obtain ⟨q0, q1, q2⟩ := pos
  obtain ⟨d0, d1, d2⟩ := d
  obtain ⟨p0, p1, p2⟩ := p
  simp only [fpX, fpY, FirstPerson.translate, FirstPerson.fwd, FirstPerson.fwdMove, FirstPerson.right, toCart, fromBasis,
    M4.apply, dot4, cross, V3.smul, V3.add, V3.sub, dot3, V3.mk.injEq]
  refine ⟨?_, ?_, ?_⟩
  · linear_combination (-d0 * (ca * ca + sa * sa + 1)) * haz
  · linear_combination (-d1) * haz
  · linear_combination (-d2) * haz


/-! ### `world_to_view` never panics on a unit heading -/

theorem absS_eq_abs' (x : K) : absS x = |x| := by
  unfold absS
  split_ifs with h
  · exact (abs_of_neg h).symm
  · exact (abs_of_nonneg (not_lt.mp h)).symm

/-- A component that passes `approx_eq(·, 0)` with `eps < 1/2` has square at most `1/4`. -/
theorem approxEq_zero_small (eps x : K) (h0 : 0 ≤ eps) (h1 : eps < 1 / 2) (h : approxEq eps x 0 = true) : x * x ≤ 1 / 4 := by
  simp only [approxEq, Bool.not_eq_true', decide_eq_false_iff_not, not_lt, sub_zero, absS_eq_abs', maxS] at h
  have hx := abs_nonneg x
  have hsq : x * x = |x| * |x| := (abs_mul_abs_self x).symm
  split_ifs at h with hc
  · -- |x| < 1: |x| ≤ eps
    have : |x| ≤ 1 / 2 := by linarith
    rw [hsq]; nlinarith
  · -- |x| ≥ 1: |x| ≤ eps·|x| is impossible
    have h1' : (1 : K) ≤ |x| := not_lt.mp hc
    exfalso
    nlinarith

theorem unit_not_approxZero (eps : K) (v : V3 K) (h0 : 0 ≤ eps) (h1 : eps < 1 / 2) (hv : v.lenSqr = 1) :
    approxZero3 eps v = false := by
  by_contra hc
  rw [Bool.not_eq_false] at hc
  simp only [approxZero3, Bool.and_eq_true] at hc
  obtain ⟨⟨hx, hy⟩, hz⟩ := hc
  have a := approxEq_zero_small eps v.x h0 h1 hx
  have b := approxEq_zero_small eps v.y h0 h1 hy
  have c := approxEq_zero_small eps v.z h0 h1 hz
  simp only [V3.lenSqr, dot3] at hv
  linarith

/-- **fp_total.** For every unit heading — straight up and down included — and every `approx_eq` epsilon
below 1/2 (the crate uses 1e-6, or 5e-3 without a float backend), `world_to_view` returns a matrix: neither
`normalize`'s zero-length assert nor `orient`'s two asserts can fire. -/
theorem fp_total (eps rho : K) (fp : FirstPerson K) (ok : FpOk rho fp) (h0 : 0 ≤ eps) (h1 : eps < 1 / 2) :
    ∃ m, fp.worldToView eps rho = .ok m := by
  obtain ⟨e1, _, _, e4⟩ := fp_cross_unit fp ok.hr ok.haz ok.halt
  have hrho := ok.rho_one
  subst hrho
  have hy : ((cross fp.fwd fp.right).smul 1).lenSqr = 1 := by
    have : (cross fp.fwd fp.right).smul 1 = cross fp.fwd fp.right := by
      simp only [V3.smul, mul_one]
    rw [this]; exact e4
  have n0 : ¬ (cross fp.fwd fp.right).lenSqr = 0 := by rw [e4]; exact one_ne_zero
  have g1 := unit_not_approxZero eps _ h0 h1 hy
  have g2 := unit_not_approxZero eps _ h0 h1 e1
  simp only [FirstPerson.worldToView, orientZ, normalize, if_neg n0, orient, g1, g2, Bool.false_eq_true, if_false]
  exact ⟨_, rfl⟩


/-! ### fresh state and relative rotation -/

/-- `FirstPerson::new()` (and `default()`): at the origin, heading along the positive x axis, level; it satisfies
`FpOk`, so the rigidity / look-at theorems apply to a fresh camera. -/
theorem fp_new_state :
    (FirstPerson.new : FirstPerson K).pos = ⟨0, 0, 0⟩ ∧ (FirstPerson.new : FirstPerson K).fwd = ⟨1, 0, 0⟩ ∧
    (FirstPerson.new : FirstPerson K).right = ⟨0, 0, -1⟩ ∧ FpOk (1 : K) FirstPerson.new := by
  refine ⟨rfl, ?_, ?_, ⟨rfl, ?_, ?_, ?_, one_pos⟩⟩
  · simp [FirstPerson.new, FirstPerson.fwd, toCart, V3.smul]
  · simp [FirstPerson.new, FirstPerson.right, FirstPerson.fwdMove, toCart, V3.smul, cross]
  · simp [FirstPerson.new]
  · simp [FirstPerson.new]
  · simp [FirstPerson.new, FirstPerson.fwd, FirstPerson.right, FirstPerson.fwdMove, toCart, V3.smul, cross, V3.lenSqr, dot3]

section Angles
variable [FloorRing K]

/-- The floor the exact model uses at an ordered field with floor. -/
local instance : HasFloor K := ⟨fun x => ((⌊x⌋ : ℤ) : K)⟩

theorem remEuclid_range (x m : K) (hm : 0 < m) : 0 ≤ remEuclid x m ∧ remEuclid x m < m := by
  unfold remEuclid
  show 0 ≤ x - m * ((⌊x / m⌋ : ℤ) : K) ∧ x - m * ((⌊x / m⌋ : ℤ) : K) < m
  have h1 : ((⌊x / m⌋ : ℤ) : K) ≤ x / m := Int.floor_le _
  have h2 : x / m < ((⌊x / m⌋ : ℤ) : K) + 1 := Int.lt_floor_add_one _
  rw [le_div_iff₀ hm] at h1
  rw [div_lt_iff₀ hm] at h2
  constructor <;> nlinarith

/-- **fp_rotate.** A relative rotation is `rotate_to` of the sums (definitionally); the new azimuth lies in
`[-half, half)` and differs from `az + d_az` by a whole number of turns (so the seam at ±half a turn is crossed
correctly); the new altitude is `alt + d_alt` clamped to `[-quarter, quarter]`. -/
theorem fp_rotate (half quarter : K) (hh : 0 < half) (hq : 0 ≤ quarter) (az alt daz dalt : K) :
    rotateBy half quarter (az, alt) daz dalt = rotateTo half quarter (az + daz) (alt + dalt) ∧
    -half ≤ (rotateBy half quarter (az, alt) daz dalt).1 ∧ (rotateBy half quarter (az, alt) daz dalt).1 < half ∧
    (∃ k : ℤ, (rotateBy half quarter (az, alt) daz dalt).1 = az + daz + (k : K) * (2 * half)) ∧
    -quarter ≤ (rotateBy half quarter (az, alt) daz dalt).2 ∧ (rotateBy half quarter (az, alt) daz dalt).2 ≤ quarter ∧
    (-quarter ≤ alt + dalt → alt + dalt ≤ quarter → (rotateBy half quarter (az, alt) daz dalt).2 = alt + dalt) := by
  have hm : 0 < half - -half := by linarith
  obtain ⟨r1, r2⟩ := remEuclid_range (az + daz - -half) (half - -half) hm
  refine ⟨rfl, ?_, ?_, ?_, ?_, ?_, ?_⟩
  · simp only [rotateBy, rotateTo, wrapAngle]; linarith
  · simp only [rotateBy, rotateTo, wrapAngle]; linarith
  · refine ⟨-⌊(az + daz - -half) / (half - -half)⌋, ?_⟩
    simp only [rotateBy, rotateTo, wrapAngle, remEuclid]
    show -half + (az + daz - -half - (half - -half) * ((⌊(az + daz - -half) / (half - -half)⌋ : ℤ) : K)) = _
    push_cast
    ring
  · simp only [rotateBy, rotateTo, clampS]; split_ifs <;> linarith
  · simp only [rotateBy, rotateTo, clampS]; split_ifs <;> linarith
  · intro h1 h2
    simp only [rotateBy, rotateTo, clampS]
    rw [if_neg (not_lt.mpr h1), if_neg (not_lt.mpr h2)]

example : (0 : ℚ) < 355 / 113 ∧ (0 : ℚ) ≤ 355 / 226 := by norm_num

end Angles

end Retro.Props.C08
