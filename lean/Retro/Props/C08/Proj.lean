/-
C08 — perspective / orthographic / viewport matrices map points where geometry says.
-/
import Retro.Model.Mat
import Mathlib.Tactic.Ring
import Mathlib.Tactic.Linarith
import Mathlib.Tactic.FieldSimp
import Mathlib.Tactic.Positivity
import Mathlib.Algebra.Order.Field.Basic
import Mathlib.Algebra.Order.AbsoluteValue.Basic

set_option linter.unusedSectionVars false

namespace Retro.Props.C08
open Retro Retro.Mat

variable {K : Type} [Field K] [LinearOrder K] [IsStrictOrderedRing K]

/-- With valid parameters `perspective` does not panic and is this matrix. -/
theorem perspective_ok (f a n fa : K) (hf : 0 < f) (ha : 0 < a) (hn : 0 < n) (hnf : n < fa) :
    perspective f a n fa =
      .ok ⟨⟨f, 0, 0, 0⟩, ⟨0, f * a, 0, 0⟩, ⟨0, 0, (fa + n) / (fa - n), 2 * fa * n / (n - fa)⟩, ⟨0, 0, 1, 0⟩⟩ := by
  simp [perspective, hf, ha, hn, hnf]

/-- Every invalid parameter is a panic (the four asserts of mat.rs:606-609), never a matrix. -/
theorem perspective_invalid_panics (f a n fa : K) (h : ¬ (0 < f ∧ 0 < a ∧ 0 < n ∧ n < fa)) :
    ∃ m, perspective f a n fa = .panic m := by
  unfold perspective
  by_cases hf : 0 < f
  · by_cases ha : 0 < a
    · by_cases hn : 0 < n
      · by_cases hnf : n < fa
        · exact absurd ⟨hf, ha, hn, hnf⟩ h
        · exact ⟨"far must be greater than near", by simp [hf, ha, hn, hnf]⟩
      · exact ⟨"near must be positive", by simp [hf, ha, hn]⟩
    · exact ⟨"aspect ratio must be positive", by simp [hf, ha]⟩
  · exact ⟨"focal ratio must be positive", by simp [hf]⟩

example : ¬ ((0 : ℚ) < 1 ∧ (0 : ℚ) < 1 ∧ (0 : ℚ) < 5 ∧ (5 : ℚ) < 5) := by norm_num

/-- The clip-space image of a view-space point under the perspective matrix. -/
theorem perspective_apply (f a n fa : K) (hf : 0 < f) (ha : 0 < a) (hn : 0 < n) (hnf : n < fa)
    (m : M4 K) (hm : perspective f a n fa = .ok m) (p : V3 K) :
    m.applyProj p = ⟨f * p.x, f * a * p.y, ((fa + n) * p.z - 2 * fa * n) / (fa - n), p.z⟩ := by
  rw [perspective_ok f a n fa hf ha hn hnf] at hm
  injection hm with hm
  subst hm
  have hd : fa - n ≠ 0 := by linarith
  have hd' : n - fa ≠ 0 := by linarith
  simp only [M4.applyProj, dot4, V4.mk.injEq]
  refine ⟨by ring, by ring, ?_, by ring⟩
  field_simp
  ring

/-- **persp_inside_iff.** A view-space point lies in the frustum
`near ≤ z ≤ far, |x|·f ≤ z, |y|·f·a ≤ z` exactly when its image lies in the clip volume
`w > 0 ∧ −w ≤ x, y, z ≤ w`. -/
theorem persp_inside_iff (f a n fa : K) (hf : 0 < f) (ha : 0 < a) (hn : 0 < n) (hnf : n < fa)
    (m : M4 K) (hm : perspective f a n fa = .ok m) (p : V3 K) :
    (n ≤ p.z ∧ p.z ≤ fa ∧ |p.x| * f ≤ p.z ∧ |p.y| * f * a ≤ p.z) ↔
    (0 < (m.applyProj p).w ∧
      -(m.applyProj p).w ≤ (m.applyProj p).x ∧ (m.applyProj p).x ≤ (m.applyProj p).w ∧
      -(m.applyProj p).w ≤ (m.applyProj p).y ∧ (m.applyProj p).y ≤ (m.applyProj p).w ∧
      -(m.applyProj p).w ≤ (m.applyProj p).z ∧ (m.applyProj p).z ≤ (m.applyProj p).w) := by
  rw [perspective_apply f a n fa hf ha hn hnf m hm p]
  obtain ⟨x, y, z⟩ := p
  simp only
  have hd : 0 < fa - n := by linarith
  have hfa : 0 < fa := by linarith
  -- the two depth conditions
  have hz1 : ((fa + n) * z - 2 * fa * n) / (fa - n) ≤ z ↔ z ≤ fa := by
    rw [div_le_iff₀ hd]
    constructor
    · intro h
      have : n * z ≤ n * fa := by nlinarith
      exact le_of_mul_le_mul_left this hn
    · intro h
      have : n * z ≤ n * fa := mul_le_mul_of_nonneg_left h hn.le
      nlinarith
  have hz2 : -z ≤ ((fa + n) * z - 2 * fa * n) / (fa - n) ↔ n ≤ z := by
    rw [le_div_iff₀ hd]
    constructor
    · intro h
      have : fa * n ≤ fa * z := by nlinarith
      exact le_of_mul_le_mul_left this hfa
    · intro h
      have : fa * n ≤ fa * z := mul_le_mul_of_nonneg_left h hfa.le
      nlinarith
  have hx : |x| * f ≤ z ↔ (-z ≤ f * x ∧ f * x ≤ z) := by
    rw [← abs_le, abs_mul, abs_of_pos hf, mul_comm]
  have hy : |y| * f * a ≤ z ↔ (-z ≤ f * a * y ∧ f * a * y ≤ z) := by
    have hfa' : 0 < f * a := mul_pos hf ha
    rw [← abs_le, abs_mul, abs_of_pos hfa', mul_assoc, mul_comm]
  rw [hz1, hz2, hx, hy]
  constructor
  · rintro ⟨h1, h2, ⟨h3, h4⟩, h5, h6⟩
    exact ⟨by linarith, h3, h4, h5, h6, h1, h2⟩
  · rintro ⟨_, h3, h4, h5, h6, h1, h2⟩
    exact ⟨h1, h2, ⟨h3, h4⟩, h5, h6⟩

example : (0 : ℚ) < 4 / 5 ∧ (0 : ℚ) < 2 ∧ (0 : ℚ) < 1 / 10 ∧ (1 / 10 : ℚ) < 100 := by norm_num

/-- **persp_near_far.** The near plane goes to NDC depth −1 and the far plane to +1. -/
theorem persp_near_far (f a n fa : K) (hf : 0 < f) (ha : 0 < a) (hn : 0 < n) (hnf : n < fa)
    (m : M4 K) (hm : perspective f a n fa = .ok m) (x y : K) :
    (m.applyProj ⟨x, y, n⟩).z / (m.applyProj ⟨x, y, n⟩).w = -1 ∧
    (m.applyProj ⟨x, y, fa⟩).z / (m.applyProj ⟨x, y, fa⟩).w = 1 := by
  rw [perspective_apply f a n fa hf ha hn hnf m hm, perspective_apply f a n fa hf ha hn hnf m hm]
  have hd : fa - n ≠ 0 := by linarith
  have hn' : n ≠ 0 := hn.ne'
  have hfa : fa ≠ 0 := by linarith
  constructor
  · simp only; field_simp; ring
  · simp only; field_simp; ring

/-- **persp_depth_mono.** In front of the eye NDC depth is strictly increasing in view depth. -/
theorem persp_depth_mono (f a n fa : K) (hf : 0 < f) (ha : 0 < a) (hn : 0 < n) (hnf : n < fa)
    (m : M4 K) (hm : perspective f a n fa = .ok m) (x1 y1 z1 x2 y2 z2 : K) (h1 : 0 < z1) (h12 : z1 < z2) :
    (m.applyProj ⟨x1, y1, z1⟩).z / (m.applyProj ⟨x1, y1, z1⟩).w <
    (m.applyProj ⟨x2, y2, z2⟩).z / (m.applyProj ⟨x2, y2, z2⟩).w := by
  rw [perspective_apply f a n fa hf ha hn hnf m hm, perspective_apply f a n fa hf ha hn hnf m hm]
  simp only
  have hd : 0 < fa - n := by linarith
  have h2 : 0 < z2 := by linarith
  have hfa : 0 < fa := by linarith
  rw [div_div, div_div, div_lt_div_iff₀ (mul_pos hd h1) (mul_pos hd h2)]
  have hfn : 0 < fa * n := mul_pos hfa hn
  nlinarith [mul_pos hd hfn, mul_pos (mul_pos hd hfn) (sub_pos.mpr h12)]

/-! ### orthographic -/

theorem half_eq (x : K) : half x = x / 2 := by unfold half; ring

/-- A proper box (every extent non-zero) gives this matrix; a zero extent is the non-finite outcome. -/
theorem orthographic_apply (l r : V3 K) (hx : l.x ≠ r.x) (hy : l.y ≠ r.y) (hz : l.z ≠ r.z) :
    ∃ m, orthographic l r = .ok m ∧ ∀ p : V3 K, m.applyProj p =
      ⟨(2 * p.x - (l.x + r.x)) / (r.x - l.x), (2 * p.y - (l.y + r.y)) / (r.y - l.y),
       (2 * p.z - (l.z + r.z)) / (r.z - l.z), 1⟩ := by
  have hx' : r.x - l.x ≠ 0 := sub_ne_zero.mpr (Ne.symm hx)
  have hy' : r.y - l.y ≠ 0 := sub_ne_zero.mpr (Ne.symm hy)
  have hz' : r.z - l.z ≠ 0 := sub_ne_zero.mpr (Ne.symm hz)
  have h2 : (2 : K) ≠ 0 := two_ne_zero
  have e : ¬ (half (r.x - l.x) = 0 ∨ half (r.y - l.y) = 0 ∨ half (r.z - l.z) = 0) := by
    simp only [half_eq, div_eq_zero_iff, hx', hy', hz', h2, or_self, not_false_eq_true]
  simp only [orthographic, if_neg e]
  refine ⟨_, rfl, ?_⟩
  intro p
  simp only [M4.applyProj, dot4, V3.add, half_eq, V4.mk.injEq]
  refine ⟨?_, ?_, ?_, by ring⟩ <;> (field_simp; ring)

theorem orthographic_degenerate (l r : V3 K) (h : l.x = r.x ∨ l.y = r.y ∨ l.z = r.z) :
    ∃ msg, orthographic l r = .panic msg := by
  have e : half (r.x - l.x) = 0 ∨ half (r.y - l.y) = 0 ∨ half (r.z - l.z) = 0 := by
    simp only [half_eq]
    rcases h with h | h | h
    · left; rw [h]; simp
    · right; left; rw [h]; simp
    · right; right; rw [h]; simp
  exact ⟨"nonfinite: orthographic box has a zero extent", by simp only [orthographic, if_pos e]⟩

private theorem axis_iff (l r x : K) (h : l < r) :
    (l ≤ x ∧ x ≤ r) ↔ (-1 ≤ (2 * x - (l + r)) / (r - l) ∧ (2 * x - (l + r)) / (r - l) ≤ 1) := by
  have hd : 0 < r - l := by linarith
  rw [le_div_iff₀ hd, div_le_iff₀ hd]
  constructor
  · rintro ⟨h1, h2⟩; constructor <;> linarith
  · rintro ⟨h1, h2⟩; constructor <;> linarith

/-- **ortho_inside_iff.** A point is in the box `[lbn, rtf]` exactly when its image is in the clip
volume (`w = 1`, `−1 ≤ x, y, z ≤ 1`). -/
theorem ortho_inside_iff (l r : V3 K) (hx : l.x < r.x) (hy : l.y < r.y) (hz : l.z < r.z)
    (m : M4 K) (hm : orthographic l r = .ok m) (p : V3 K) :
    (l.x ≤ p.x ∧ p.x ≤ r.x ∧ l.y ≤ p.y ∧ p.y ≤ r.y ∧ l.z ≤ p.z ∧ p.z ≤ r.z) ↔
    (0 < (m.applyProj p).w ∧
      -(m.applyProj p).w ≤ (m.applyProj p).x ∧ (m.applyProj p).x ≤ (m.applyProj p).w ∧
      -(m.applyProj p).w ≤ (m.applyProj p).y ∧ (m.applyProj p).y ≤ (m.applyProj p).w ∧
      -(m.applyProj p).w ≤ (m.applyProj p).z ∧ (m.applyProj p).z ≤ (m.applyProj p).w) := by
  obtain ⟨m', hm', hap⟩ := orthographic_apply l r hx.ne hy.ne hz.ne
  rw [hm] at hm'
  injection hm' with hm'
  subst hm'
  rw [hap p]
  simp only
  have ax := axis_iff l.x r.x p.x hx
  have ay := axis_iff l.y r.y p.y hy
  have az := axis_iff l.z r.z p.z hz
  constructor
  · rintro ⟨h1, h2, h3, h4, h5, h6⟩
    obtain ⟨a1, a2⟩ := ax.mp ⟨h1, h2⟩
    obtain ⟨b1, b2⟩ := ay.mp ⟨h3, h4⟩
    obtain ⟨c1, c2⟩ := az.mp ⟨h5, h6⟩
    exact ⟨one_pos, a1, a2, b1, b2, c1, c2⟩
  · rintro ⟨_, a1, a2, b1, b2, c1, c2⟩
    obtain ⟨h1, h2⟩ := ax.mpr ⟨a1, a2⟩
    obtain ⟨h3, h4⟩ := ay.mpr ⟨b1, b2⟩
    obtain ⟨h5, h6⟩ := az.mpr ⟨c1, c2⟩
    exact ⟨h1, h2, h3, h4, h5, h6⟩

example : ((-20 : ℚ) < 100) ∧ ((0 : ℚ) < 50) ∧ ((1 / 100 : ℚ) < 100) := by norm_num

/-- **ortho_corners.** `lbn ↦ (−1, −1, −1, 1)` and `rtf ↦ (1, 1, 1, 1)`. -/
theorem ortho_corners (l r : V3 K) (hx : l.x ≠ r.x) (hy : l.y ≠ r.y) (hz : l.z ≠ r.z)
    (m : M4 K) (hm : orthographic l r = .ok m) :
    m.applyProj l = ⟨-1, -1, -1, 1⟩ ∧ m.applyProj r = ⟨1, 1, 1, 1⟩ := by
  obtain ⟨m', hm', hap⟩ := orthographic_apply l r hx hy hz
  rw [hm] at hm'
  injection hm' with hm'
  subst hm'
  have hx' : r.x - l.x ≠ 0 := sub_ne_zero.mpr (Ne.symm hx)
  have hy' : r.y - l.y ≠ 0 := sub_ne_zero.mpr (Ne.symm hy)
  have hz' : r.z - l.z ≠ 0 := sub_ne_zero.mpr (Ne.symm hz)
  rw [hap, hap]
  simp only [V4.mk.injEq]
  refine ⟨⟨?_, ?_, ?_, trivial⟩, ⟨?_, ?_, ?_, trivial⟩⟩ <;> (field_simp; ring)

/-! ### viewport -/

/-- **viewport_corners.** NDC `(−1, −1, z) ↦ (l, t, z)` and `(1, 1, z) ↦ (r, b, z)`. -/
theorem viewport_corners (l t r b z : K) :
    (viewport l t r b).applyPt ⟨-1, -1, z⟩ = ⟨l, t, z⟩ ∧ (viewport l t r b).applyPt ⟨1, 1, z⟩ = ⟨r, b, z⟩ := by
  simp only [viewport, M4.applyPt, dot4, half_eq, V3.mk.injEq]
  refine ⟨⟨?_, ?_, ?_⟩, ⟨?_, ?_, ?_⟩⟩ <;> ring

/-- The viewport map in closed form: affine interpolation between the corners, depth untouched. -/
theorem viewport_apply (l t r b : K) (p : V3 K) :
    (viewport l t r b).applyPt p = ⟨l + (r - l) * (p.x + 1) / 2, t + (b - t) * (p.y + 1) / 2, p.z⟩ := by
  simp only [viewport, M4.applyPt, dot4, half_eq, V3.mk.injEq]
  refine ⟨?_, ?_, ?_⟩ <;> ring

/-- **viewport_affine.** For a proper rectangle (`l < r`, `t < b`) a point is in the NDC square
exactly when its image is in the pixel rectangle. -/
theorem viewport_affine (l t r b : K) (hlr : l < r) (htb : t < b) (p : V3 K) :
    (-1 ≤ p.x ∧ p.x ≤ 1 ∧ -1 ≤ p.y ∧ p.y ≤ 1) ↔
    (l ≤ ((viewport l t r b).applyPt p).x ∧ ((viewport l t r b).applyPt p).x ≤ r ∧
     t ≤ ((viewport l t r b).applyPt p).y ∧ ((viewport l t r b).applyPt p).y ≤ b) := by
  rw [viewport_apply]
  simp only
  have hd : 0 < r - l := by linarith
  have he : 0 < b - t := by linarith
  constructor
  · rintro ⟨h1, h2, h3, h4⟩
    refine ⟨?_, ?_, ?_, ?_⟩ <;> nlinarith
  · rintro ⟨h1, h2, h3, h4⟩
    refine ⟨?_, ?_, ?_, ?_⟩
    · by_contra hc; rw [not_le] at hc; nlinarith
    · by_contra hc; rw [not_le] at hc; nlinarith
    · by_contra hc; rw [not_le] at hc; nlinarith
    · by_contra hc; rw [not_le] at hc; nlinarith

example : ((20 : ℚ) < 620) ∧ ((10 : ℚ) < 470) := by norm_num

end Retro.Props.C08
