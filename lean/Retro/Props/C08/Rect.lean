/-
C08 — `Rect`: intersection is set intersection for every bounded/unbounded combination.
-/
import Retro.Model.Rect
import Mathlib.Tactic.Linarith

namespace Retro.Props.C08
open Retro Retro.Rect

theorem inExtent_extremum (la lb ha hb : Option Nat) (x : Nat) :
    inExtent (extremum la lb max) (extremum ha hb min) x = (inExtent la ha x && inExtent lb hb x) := by
  cases la <;> cases lb <;> cases ha <;> cases hb <;>
    simp only [inExtent, extremum, Bool.true_and, Bool.and_true, Bool.and_self] <;>
    (rw [Bool.eq_iff_iff]; simp only [Bool.and_eq_true, decide_eq_true_eq]; omega)

/-- **rect_intersect_contains.** `(a ∩ b).contains(x, y) ⇔ a.contains(x, y) ∧ b.contains(x, y)`, whatever sides
are unbounded. -/
theorem rect_intersect_contains (a b : Rect) (x y : Nat) :
    contains (intersect a b) x y = (contains a x y && contains b x y) := by
  simp only [contains, intersect, inExtent_extremum]
  cases inExtent a.left a.right x <;> cases inExtent b.left b.right x <;>
    cases inExtent a.top a.bottom y <;> cases inExtent b.top b.bottom y <;> rfl

theorem extentEmpty_inExtent (lo hi : Option Nat) (x : Nat) (h : extentEmpty lo hi = true) :
    inExtent lo hi x = false := by
  cases lo with
  | none => simp [extentEmpty] at h
  | some l =>
    cases hi with
    | none => simp [extentEmpty] at h
    | some r =>
      simp only [extentEmpty, decide_eq_true_eq] at h
      simp only [inExtent, Bool.and_eq_false_iff, decide_eq_false_iff_not]
      omega

/-- `is_empty()` rects contain nothing. -/
theorem rect_empty_contains (r : Rect) (x y : Nat) (h : isEmpty r = true) : contains r x y = false := by
  simp only [isEmpty, Bool.or_eq_true] at h
  simp only [contains]
  rcases h with h | h
  · rw [extentEmpty_inExtent _ _ x h, Bool.false_and]
  · rw [extentEmpty_inExtent _ _ y h, Bool.and_false]

example : isEmpty ⟨some 30, some 2, some 20, some 8⟩ = true := by decide

theorem inExtent_witness (lo hi : Option Nat) (h : extentEmpty lo hi = false) (h0 : hi ≠ some 0) :
    ∃ x, inExtent lo hi x = true := by
  cases lo with
  | none =>
    cases hi with
    | none => exact ⟨0, rfl⟩
    | some r =>
      refine ⟨0, ?_⟩
      simp only [inExtent, Bool.true_and, decide_eq_true_eq]
      cases r with
      | zero => exact absurd rfl h0
      | succ n => omega
  | some l =>
    cases hi with
    | none => exact ⟨l, by simp [inExtent]⟩
    | some r =>
      simp only [extentEmpty, decide_eq_false_iff_not] at h
      exact ⟨l, by simp only [inExtent, Bool.and_eq_true, decide_eq_true_eq]; omega⟩

/-- Conversely a rect that is not `is_empty()` contains a point — provided no *unbounded-start* extent
ends at 0. Full statement (`¬ is_empty ⇒ contains some point`) is false for `u32`: see below.
Named `_partial` for that reason. -/
theorem rect_nonempty_contains_partial (r : Rect) (h : isEmpty r = false)
    (hr : r.right ≠ some 0) (hb : r.bottom ≠ some 0) : ∃ x y, contains r x y = true := by
  simp only [isEmpty, Bool.or_eq_false_iff] at h
  obtain ⟨x, hx⟩ := inExtent_witness _ _ h.1 hr
  obtain ⟨y, hy⟩ := inExtent_witness _ _ h.2 hb
  exact ⟨x, y, by simp only [contains, hx, hy, Bool.and_self]⟩

example : isEmpty ⟨some 2, none, some 5, some 7⟩ = false := by decide

/-- `Rect::from((..0, ..))` is not `is_empty()` yet contains no `u32` point (harmless for the camera:
`Camera::viewport` intersects with a bounded frame first). -/
theorem rect_is_empty_not_exact :
    isEmpty ⟨none, none, some 0, none⟩ = false ∧ ∀ x y, contains ⟨none, none, some 0, none⟩ x y = false := by
  refine ⟨rfl, fun x y => ?_⟩
  simp [contains, inExtent]

/-- `width`/`height` clamp at zero and agree with the extent. -/
theorem rect_width (l t r b : Nat) :
    width ⟨some l, some t, some r, some b⟩ = some (r - l) ∧ height ⟨some l, some t, some r, some b⟩ = some (b - t) := by
  simp only [width, height, Option.some.injEq]
  omega

/-- Range conversions: `a..b` is `[a, b)`, `a..=b` is `[a, b+1)`, with the overflow of `b + 1` a panic. -/
theorem ofBounds_range (a b c d : Nat) :
    ofBounds (.incl a) (.excl b) (.incl c) (.excl d) = .ok ⟨some a, some c, some b, some d⟩ ∨
    ∃ m, ofBounds (.incl a) (.excl b) (.incl c) (.excl d) = .panic m := by
  by_cases h : a ≤ u32Max ∧ b ≤ u32Max ∧ c ≤ u32Max ∧ d ≤ u32Max
  · left
    obtain ⟨h1, h2, h3, h4⟩ := h
    simp only [ofBounds, resolve, Nat.add_zero]
    rw [if_neg (by omega), if_neg (by omega), if_neg (by omega), if_neg (by omega)]
  · right
    simp only [ofBounds, resolve, Nat.add_zero]
    by_cases h1 : a > u32Max
    · exact ⟨_, by rw [if_pos h1]⟩
    · rw [if_neg h1]
      by_cases h3 : c > u32Max
      · exact ⟨_, by rw [if_pos h3]⟩
      · rw [if_neg h3]
        by_cases h2 : b > u32Max
        · exact ⟨_, by rw [if_pos h2]⟩
        · rw [if_neg h2]
          by_cases h4 : d > u32Max
          · exact ⟨_, by rw [if_pos h4]⟩
          · exact absurd ⟨by omega, by omega, by omega, by omega⟩ h

theorem ofBounds_inclusive_overflow (a c d : Nat) (ha : a ≤ u32Max) (hc : c ≤ u32Max) :
    ∃ m, ofBounds (.incl a) (.incl u32Max) (.incl c) (.excl d) = .panic m := by
  refine ⟨"attempt to add with overflow", ?_⟩
  simp only [ofBounds, resolve, Nat.add_zero]
  rw [if_neg (by omega), if_neg (by omega), if_pos (by simp [u32Max])]

end Retro.Props.C08
