/-
C09 — Transform algebra: compose, apply, invert, determinant.

Theorems about the executable model `Retro.Model.Mat` (the definitions the driver runs),
over an arbitrary commutative ring / ordered field. The Gauss–Jordan theorems live in
`Retro/Props/C09/Inverse.lean`.
-/
import Retro.Model.Mat
import Retro.Spec.Mat
import Retro.Props.C09.Inverse
import Mathlib.Tactic.Ring
import Mathlib.Tactic.LinearCombination
import Mathlib.Tactic.FinCases
import Mathlib.Algebra.Order.Field.Basic
import Mathlib.Algebra.BigOperators.Group.List.Basic

set_option linter.unusedSectionVars false

namespace Retro.Props.C09
open Retro Retro.Mat

section Ring
variable {R : Type} [CommRing R]

/-! ### compose / then / apply -/

/-- `a.then(b)` is `b.compose(a)` (mat.rs:191), 4×4 and 3×3. -/
theorem then_eq (a b : M4 R) : a.andThen b = b.compose a := rfl
theorem then_eq3 (a b : M3 R) : a.andThen b = b.compose a := rfl

/-- Applying a composed transform to a point equals applying the parts in order. The exact
hypothesis the code needs: the *inner* matrix keeps the homogeneous coordinate at 1
(last row `0 0 0 1`), which every `RealToReal<3>` constructor satisfies (`*_affine` below).
The outer matrix is arbitrary (its last row is never read by `apply_pt`). -/
theorem apply_compose (m n : M4 R) (h : n.r3 = ⟨0, 0, 0, 1⟩) (p : V3 R) :
    (m.compose n).applyPt p = m.applyPt (n.applyPt p) := by
  obtain ⟨⟨a00, a01, a02, a03⟩, ⟨a10, a11, a12, a13⟩, ⟨a20, a21, a22, a23⟩, ⟨a30, a31, a32, a33⟩⟩ := m
  obtain ⟨⟨b00, b01, b02, b03⟩, ⟨b10, b11, b12, b13⟩, ⟨b20, b21, b22, b23⟩, r3⟩ := n
  obtain ⟨x, y, z⟩ := p
  simp only at h
  subst h
  simp only [M4.compose, composeRow4, M4.applyPt, dot4, M4.col, V4.get, V3.mk.injEq]
  refine ⟨?_, ?_, ?_⟩ <;> ring

example : (translate (⟨1, 2, 3⟩ : V3 Int)).r3 = ⟨0, 0, 0, 1⟩ := rfl

/-- Same for `apply` on vectors — which in this code base also carries the implicit 1. -/
theorem apply_compose_vec (m n : M4 R) (h : n.r3 = ⟨0, 0, 0, 1⟩) (v : V3 R) :
    (m.compose n).apply v = m.apply (n.apply v) := apply_compose m n h v

/-- `then` chains: `(a.then b).apply_pt p = b.apply_pt (a.apply_pt p)`. -/
theorem apply_then (a b : M4 R) (h : a.r3 = ⟨0, 0, 0, 1⟩) (p : V3 R) :
    (a.andThen b).applyPt p = b.applyPt (a.applyPt p) := apply_compose b a h p

/-- Without the hypothesis the statement is false: a projective inner matrix. -/
theorem apply_compose_needs_affine :
    ∃ (m n : M4 Int) (p : V3 Int), (m.compose n).applyPt p ≠ m.applyPt (n.applyPt p) :=
  ⟨translate ⟨1, 0, 0⟩, ⟨⟨1, 0, 0, 0⟩, ⟨0, 1, 0, 0⟩, ⟨0, 0, 1, 0⟩, ⟨0, 0, 0, 2⟩⟩, ⟨0, 0, 0⟩, by decide⟩

/-- 3×3: inner matrix with last row `0 0 1`. -/
theorem apply_compose3 (m n : M3 R) (h : n.r2 = ⟨0, 0, 1⟩) (p : V2 R) :
    (m.compose n).applyPt p = m.applyPt (n.applyPt p) := by
  obtain ⟨⟨a00, a01, a02⟩, ⟨a10, a11, a12⟩, ⟨a20, a21, a22⟩⟩ := m
  obtain ⟨⟨b00, b01, b02⟩, ⟨b10, b11, b12⟩, r2⟩ := n
  obtain ⟨x, y⟩ := p
  simp only at h
  subst h
  simp only [M3.compose, composeRow3, M3.applyPt, dot3, M3.col, V3.get, V2.mk.injEq]
  refine ⟨?_, ?_⟩ <;> ring

example : (⟨⟨1, 0, 2⟩, ⟨0, 1, -3⟩, ⟨0, 0, 1⟩⟩ : M3 Int).r2 = ⟨0, 0, 1⟩ := rfl

theorem apply_compose3_vec (m n : M3 R) (h : n.r2 = ⟨0, 0, 1⟩) (v : V2 R) :
    (m.compose n).apply v = m.apply (n.apply v) := apply_compose3 m n h v

/-- The composite of affine matrices is affine, so chains of any length satisfy the
hypothesis of `apply_compose`. -/
theorem compose_affine (m n : M4 R) (hm : m.r3 = ⟨0, 0, 0, 1⟩) (hn : n.r3 = ⟨0, 0, 0, 1⟩) :
    (m.compose n).r3 = ⟨0, 0, 0, 1⟩ := by
  obtain ⟨m0, m1, m2, m3⟩ := m
  obtain ⟨⟨b00, b01, b02, b03⟩, ⟨b10, b11, b12, b13⟩, ⟨b20, b21, b22, b23⟩, n3⟩ := n
  simp only at hm hn
  subst hm hn
  simp only [M4.compose, composeRow4, dot4, M4.col, V4.get, V4.mk.injEq]
  refine ⟨?_, ?_, ?_, ?_⟩ <;> ring

/-- `compose` is the matrix product of the specification (Σₖ aᵢₖ bₖⱼ). -/
theorem compose_eq_spec (a b : M4 R) : a.compose b = Spec.Mat.mul4 a b := by
  obtain ⟨⟨a00, a01, a02, a03⟩, ⟨a10, a11, a12, a13⟩, ⟨a20, a21, a22, a23⟩, ⟨a30, a31, a32, a33⟩⟩ := a
  obtain ⟨⟨b00, b01, b02, b03⟩, ⟨b10, b11, b12, b13⟩, ⟨b20, b21, b22, b23⟩, ⟨b30, b31, b32, b33⟩⟩ := b
  simp only [M4.compose, composeRow4, dot4, M4.col, V4.get, Spec.Mat.mul4, Spec.Mat.ofFn, Spec.Mat.e,
    M4.mk.injEq, V4.mk.injEq]
  refine ⟨⟨?_, ?_, ?_, ?_⟩, ⟨?_, ?_, ?_, ?_⟩, ⟨?_, ?_, ?_, ?_⟩, ⟨?_, ?_, ?_, ?_⟩⟩ <;> ring

theorem compose_assoc (a b c : M4 R) : (a.compose b).compose c = a.compose (b.compose c) :=
  Inverse.compose_assoc a b c

theorem compose_identity_left (a : M4 R) : M4.identity.compose a = a := Inverse.identity_compose a
theorem compose_identity_right (a : M4 R) : a.compose M4.identity = a := Inverse.compose_identity a

/-! ### products of any length -/

theorem identity_affine : (M4.identity : M4 R).r3 = ⟨0, 0, 0, 1⟩ := rfl

private theorem foldl_then_affine (ms : List (M4 R)) (acc : M4 R) (ha : acc.r3 = ⟨0, 0, 0, 1⟩)
    (h : ∀ m ∈ ms, m.r3 = ⟨0, 0, 0, 1⟩) :
    (ms.foldl (fun acc c => acc.andThen c) acc).r3 = ⟨0, 0, 0, 1⟩ ∧
    ∀ p, (ms.foldl (fun acc c => acc.andThen c) acc).applyPt p = applyPtSeq ms (acc.applyPt p) := by
  induction ms generalizing acc with
  | nil => exact ⟨ha, fun p => rfl⟩
  | cons c cs ih =>
    have hc : c.r3 = ⟨0, 0, 0, 1⟩ := h c (List.mem_cons_self)
    have hacc : (acc.andThen c).r3 = ⟨0, 0, 0, 1⟩ := compose_affine c acc hc ha
    obtain ⟨i1, i2⟩ := ih (acc.andThen c) hacc (fun m hm => h m (List.mem_cons_of_mem _ hm))
    refine ⟨i1, fun p => ?_⟩
    simp only [List.foldl, applyPtSeq] at i2 ⊢
    rw [i2 p, apply_then acc c ha p]

/-- **Chains of any length.** For affine parts (last row `0 0 0 1`, which every constructor has), applying the
product `c₁.then(c₂)…then(cₙ)` to a point equals applying `c₁, c₂, …, cₙ` one after the other; and the product
is affine again. -/
theorem chain_apply (ms : List (M4 R)) (h : ∀ m ∈ ms, m.r3 = ⟨0, 0, 0, 1⟩) (p : V3 R) :
    (M4.chain ms).applyPt p = applyPtSeq ms p ∧ (M4.chain ms).r3 = ⟨0, 0, 0, 1⟩ := by
  cases ms with
  | nil =>
    refine ⟨?_, rfl⟩
    obtain ⟨x, y, z⟩ := p
    simp only [M4.chain, applyPtSeq, List.foldl, M4.identity, M4.applyPt, dot4, V3.mk.injEq]
    refine ⟨?_, ?_, ?_⟩ <;> ring
  | cons m ms =>
    obtain ⟨i1, i2⟩ := foldl_then_affine ms m (h m (List.mem_cons_self)) (fun c hc => h c (List.mem_cons_of_mem _ hc))
    exact ⟨by simp only [M4.chain, applyPtSeq, List.foldl]; exact i2 p, i1⟩

example : ∀ m ∈ [translate (⟨1, 2, 3⟩ : V3 Int), scale ⟨2, 2, 2⟩, rotateZ 1 0], m.r3 = ⟨0, 0, 0, 1⟩ := by
  intro m hm
  simp only [List.mem_cons, List.not_mem_nil, or_false] at hm
  rcases hm with rfl | rfl | rfl <;> rfl

private theorem foldl_then_det (ms : List (M4 R)) (acc : M4 R) :
    (ms.foldl (fun acc c => acc.andThen c) acc).det = acc.det * (ms.map M4.det).prod := by
  induction ms generalizing acc with
  | nil => simp
  | cons c cs ih =>
    simp only [List.foldl, List.map_cons, List.prod_cons]
    rw [ih, M4.andThen, Inverse.det_mul]
    ring

/-- The determinant of a chain is the product of the determinants of its parts. -/
theorem chain_det (ms : List (M4 R)) : (M4.chain ms).det = (ms.map M4.det).prod := by
  cases ms with
  | nil => simp only [M4.chain, List.map_nil, List.prod_nil]; exact Inverse.det_identity
  | cons m ms => simp only [M4.chain, List.map_cons, List.prod_cons]; exact foldl_then_det ms m

/-! ### transpose -/

theorem transpose_involutive (m : M4 R) : m.transpose.transpose = m := by
  obtain ⟨⟨a00, a01, a02, a03⟩, ⟨a10, a11, a12, a13⟩, ⟨a20, a21, a22, a23⟩, ⟨a30, a31, a32, a33⟩⟩ := m
  rfl
theorem transpose_involutive3 (m : M3 R) : m.transpose.transpose = m := by
  obtain ⟨⟨a00, a01, a02⟩, ⟨a10, a11, a12⟩, ⟨a20, a21, a22⟩⟩ := m
  rfl
theorem transpose_get (m : M4 R) (i j : Fin 4) : m.transpose.get i j = m.get j i := by
  obtain ⟨⟨a00, a01, a02, a03⟩, ⟨a10, a11, a12, a13⟩, ⟨a20, a21, a22, a23⟩, ⟨a30, a31, a32, a33⟩⟩ := m
  match i, j with
  | 0, 0 => rfl | 0, 1 => rfl | 0, 2 => rfl | 0, 3 => rfl
  | 1, 0 => rfl | 1, 1 => rfl | 1, 2 => rfl | 1, 3 => rfl
  | 2, 0 => rfl | 2, 1 => rfl | 2, 2 => rfl | 2, 3 => rfl
  | 3, 0 => rfl | 3, 1 => rfl | 3, 2 => rfl | 3, 3 => rfl
theorem transpose_compose (a b : M4 R) : (a.compose b).transpose = b.transpose.compose a.transpose := by
  obtain ⟨⟨a00, a01, a02, a03⟩, ⟨a10, a11, a12, a13⟩, ⟨a20, a21, a22, a23⟩, ⟨a30, a31, a32, a33⟩⟩ := a
  obtain ⟨⟨b00, b01, b02, b03⟩, ⟨b10, b11, b12, b13⟩, ⟨b20, b21, b22, b23⟩, ⟨b30, b31, b32, b33⟩⟩ := b
  simp only [M4.compose, composeRow4, dot4, M4.col, V4.get, M4.transpose, M4.mk.injEq, V4.mk.injEq]
  refine ⟨⟨?_, ?_, ?_, ?_⟩, ⟨?_, ?_, ?_, ?_⟩, ⟨?_, ?_, ?_, ?_⟩, ⟨?_, ?_, ?_, ?_⟩⟩ <;> ring

/-! ### determinant -/

/-- The cofactor determinant of mat.rs:266 is multiplicative. -/
theorem det_mul (a b : M4 R) : (a.compose b).det = a.det * b.det := Inverse.det_mul a b

theorem det_identity : (M4.identity : M4 R).det = 1 := by
  simp only [M4.identity, M4.det, V4.get]; ring

/-- … and agrees with the Laplace expansion used by the oracle. -/
theorem det_eq_spec (m : M4 R) : m.det = Spec.Mat.det4 m := by
  obtain ⟨⟨a00, a01, a02, a03⟩, ⟨a10, a11, a12, a13⟩, ⟨a20, a21, a22, a23⟩, ⟨a30, a31, a32, a33⟩⟩ := m
  simp only [M4.det, V4.get, Spec.Mat.det4, Spec.Mat.e]; ring

theorem det_transpose (m : M4 R) : m.transpose.det = m.det := by
  obtain ⟨⟨a00, a01, a02, a03⟩, ⟨a10, a11, a12, a13⟩, ⟨a20, a21, a22, a23⟩, ⟨a30, a31, a32, a33⟩⟩ := m
  simp only [M4.det, V4.get, M4.transpose, M4.col]; ring

theorem det_scale (s : V3 R) : (scale s).det = s.x * s.y * s.z := by
  simp only [scale, M4.det, V4.get]; ring
theorem det_translate (t : V3 R) : (translate t).det = 1 := by
  simp only [translate, M4.det, V4.get]; ring

/-! ### constructors: defining effect on points, linear part on vectors -/

theorem translate_affine (t : V3 R) : (translate t).r3 = ⟨0, 0, 0, 1⟩ := rfl
theorem scale_affine (s : V3 R) : (scale s).r3 = ⟨0, 0, 0, 1⟩ := rfl
theorem from_basis_affine (i j k : V3 R) : (fromBasis i j k).r3 = ⟨0, 0, 0, 1⟩ := rfl
theorem rotate_affine (s c : R) :
    (rotateX s c).r3 = ⟨0, 0, 0, 1⟩ ∧ (rotateY s c).r3 = ⟨0, 0, 0, 1⟩ ∧ (rotateZ s c).r3 = ⟨0, 0, 0, 1⟩ :=
  ⟨rfl, rfl, rfl⟩

theorem translate_pt (t p : V3 R) : (translate t).applyPt p = p.add t := by
  obtain ⟨x, y, z⟩ := p
  simp only [translate, M4.applyPt, dot4, V3.add, V3.mk.injEq]
  refine ⟨?_, ?_, ?_⟩ <;> ring

theorem scale_pt (s p : V3 R) : (scale s).applyPt p = ⟨s.x * p.x, s.y * p.y, s.z * p.z⟩ := by
  simp only [scale, M4.applyPt, dot4, V3.mk.injEq]
  refine ⟨?_, ?_, ?_⟩ <;> ring
theorem scale_vec (s v : V3 R) : (scale s).apply v = ⟨s.x * v.x, s.y * v.y, s.z * v.z⟩ := scale_pt s v

/-- `from_basis(i, j, k)` sends `(x, y, z)` to `x·i + y·j + z·k`; in particular the axes to
`i`, `j`, `k` (the basis vectors are the columns). -/
theorem from_basis_pt (i j k p : V3 R) :
    (fromBasis i j k).applyPt p = ((i.smul p.x).add (j.smul p.y)).add (k.smul p.z) := by
  simp only [fromBasis, M4.applyPt, dot4, V3.add, V3.smul, V3.mk.injEq]
  refine ⟨?_, ?_, ?_⟩ <;> ring
theorem from_basis_cols (i j k : V3 R) :
    (fromBasis i j k).apply ⟨1, 0, 0⟩ = i ∧ (fromBasis i j k).apply ⟨0, 1, 0⟩ = j ∧
    (fromBasis i j k).apply ⟨0, 0, 1⟩ = k := by
  obtain ⟨ix, iy, iz⟩ := i; obtain ⟨jx, jy, jz⟩ := j; obtain ⟨kx, ky, kz⟩ := k
  simp only [fromBasis, M4.apply, dot4, V3.mk.injEq]
  refine ⟨⟨?_, ?_, ?_⟩, ⟨?_, ?_, ?_⟩, ⟨?_, ?_, ?_⟩⟩ <;> ring

/-- The rotation constructors turn the coordinate plane by the `(sin, cos)` pair they are given
and leave the axis fixed; the sense is the one pinned by the crate's tests
(`rotate_x(90°)` sends z to y, `rotate_y(90°)` x to z, `rotate_z(90°)` y to x). -/
theorem rotate_x_effect (s c : R) (p : V3 R) :
    (rotateX s c).applyPt p = ⟨p.x, c * p.y + s * p.z, -s * p.y + c * p.z⟩ := by
  simp only [rotateX, M4.applyPt, dot4, V3.mk.injEq]
  refine ⟨?_, ?_, ?_⟩ <;> ring
theorem rotate_y_effect (s c : R) (p : V3 R) :
    (rotateY s c).applyPt p = ⟨c * p.x - s * p.z, p.y, s * p.x + c * p.z⟩ := by
  simp only [rotateY, M4.applyPt, dot4, V3.mk.injEq]
  refine ⟨?_, ?_, ?_⟩ <;> ring
theorem rotate_z_effect (s c : R) (p : V3 R) :
    (rotateZ s c).applyPt p = ⟨c * p.x + s * p.y, -s * p.x + c * p.y, p.z⟩ := by
  simp only [rotateZ, M4.applyPt, dot4, V3.mk.injEq]
  refine ⟨?_, ?_, ?_⟩ <;> ring

/-- Rotations preserve handedness: determinant 1 whenever `sin² + cos² = 1`. -/
theorem rotate_det_one (s c : R) (h : c * c + s * s = 1) :
    (rotateX s c).det = 1 ∧ (rotateY s c).det = 1 ∧ (rotateZ s c).det = 1 := by
  simp only [rotateX, rotateY, rotateZ, M4.det, V4.get]
  refine ⟨?_, ?_, ?_⟩ <;> linear_combination h

example : ((3 : ℚ) / 5) * (3 / 5) + (4 / 5) * (4 / 5) = 1 := by norm_num

/-- … and their transpose is their inverse (both orders). -/
theorem rotate_transpose_inv (s c : R) (h : c * c + s * s = 1) :
    ((rotateX s c).transpose.compose (rotateX s c) = M4.identity ∧
      (rotateX s c).compose (rotateX s c).transpose = M4.identity) ∧
    ((rotateY s c).transpose.compose (rotateY s c) = M4.identity ∧
      (rotateY s c).compose (rotateY s c).transpose = M4.identity) ∧
    ((rotateZ s c).transpose.compose (rotateZ s c) = M4.identity ∧
      (rotateZ s c).compose (rotateZ s c).transpose = M4.identity) := by
  simp only [rotateX, rotateY, rotateZ, M4.transpose, M4.col, V4.get, M4.compose, composeRow4, dot4,
    M4.identity, M4.mk.injEq, V4.mk.injEq]
  refine ⟨⟨⟨⟨?_, ?_, ?_, ?_⟩, ⟨?_, ?_, ?_, ?_⟩, ⟨?_, ?_, ?_, ?_⟩, ⟨?_, ?_, ?_, ?_⟩⟩,
            ⟨⟨?_, ?_, ?_, ?_⟩, ⟨?_, ?_, ?_, ?_⟩, ⟨?_, ?_, ?_, ?_⟩, ⟨?_, ?_, ?_, ?_⟩⟩⟩,
           ⟨⟨⟨?_, ?_, ?_, ?_⟩, ⟨?_, ?_, ?_, ?_⟩, ⟨?_, ?_, ?_, ?_⟩, ⟨?_, ?_, ?_, ?_⟩⟩,
            ⟨⟨?_, ?_, ?_, ?_⟩, ⟨?_, ?_, ?_, ?_⟩, ⟨?_, ?_, ?_, ?_⟩, ⟨?_, ?_, ?_, ?_⟩⟩⟩,
           ⟨⟨⟨?_, ?_, ?_, ?_⟩, ⟨?_, ?_, ?_, ?_⟩, ⟨?_, ?_, ?_, ?_⟩, ⟨?_, ?_, ?_, ?_⟩⟩,
            ⟨⟨?_, ?_, ?_, ?_⟩, ⟨?_, ?_, ?_, ?_⟩, ⟨?_, ?_, ?_, ?_⟩, ⟨?_, ?_, ?_, ?_⟩⟩⟩⟩ <;>
    first | ring1 | linear_combination h

/-- Rotations preserve lengths (of vectors: the translation column is zero). -/
theorem rotate_preserves_len (s c : R) (h : c * c + s * s = 1) (v : V3 R) :
    ((rotateX s c).apply v).lenSqr = v.lenSqr ∧ ((rotateY s c).apply v).lenSqr = v.lenSqr ∧
    ((rotateZ s c).apply v).lenSqr = v.lenSqr := by
  obtain ⟨x, y, z⟩ := v
  simp only [rotateX, rotateY, rotateZ, M4.apply, dot4, V3.lenSqr, dot3]
  refine ⟨?_, ?_, ?_⟩
  · linear_combination (y * y + z * z) * h
  · linear_combination (x * x + z * z) * h
  · linear_combination (x * x + y * y) * h

/-- … and more generally dot products, hence angles. -/
theorem rotate_preserves_dot (s c : R) (h : c * c + s * s = 1) (u v : V3 R) :
    dot3 ((rotateX s c).apply u) ((rotateX s c).apply v) = dot3 u v ∧
    dot3 ((rotateY s c).apply u) ((rotateY s c).apply v) = dot3 u v ∧
    dot3 ((rotateZ s c).apply u) ((rotateZ s c).apply v) = dot3 u v := by
  obtain ⟨x, y, z⟩ := v
  obtain ⟨a, b, d⟩ := u
  simp only [rotateX, rotateY, rotateZ, M4.apply, dot4, dot3]
  refine ⟨?_, ?_, ?_⟩
  · linear_combination (b * y + d * z) * h
  · linear_combination (a * x + d * z) * h
  · linear_combination (a * x + b * y) * h

/-! ### vectors: the linear part, and the known finding D12 -/

/-- On a matrix whose translation column is zero, `apply` on a vector is the linear part. -/
theorem apply_vec_linear (m : M4 R) (h : m.r0.w = 0 ∧ m.r1.w = 0 ∧ m.r2.w = 0) (v : V3 R) :
    m.apply v = m.linearPart v := by
  obtain ⟨⟨a00, a01, a02, a03⟩, ⟨a10, a11, a12, a13⟩, ⟨a20, a21, a22, a23⟩, r3⟩ := m
  obtain ⟨h0, h1, h2⟩ := h
  simp only at h0 h1 h2
  subst h0 h1 h2
  simp only [M4.apply, M4.linearPart, dot4, V3.mk.injEq]
  refine ⟨?_, ?_, ?_⟩ <;> ring

example : (rotateZ (1 : Int) 0).r0.w = 0 ∧ (rotateZ (1 : Int) 0).r1.w = 0 ∧ (rotateZ (1 : Int) 0).r2.w = 0 :=
  ⟨rfl, rfl, rfl⟩

/-- In general `apply` on a vector adds the translation column (`// TODO w=0.0`, mat.rs:238). -/
theorem apply_vec_eq (m : M4 R) (v : V3 R) :
    m.apply v = (m.linearPart v).add ⟨m.r0.w, m.r1.w, m.r2.w⟩ := by
  obtain ⟨⟨a00, a01, a02, a03⟩, ⟨a10, a11, a12, a13⟩, ⟨a20, a21, a22, a23⟩, r3⟩ := m
  simp only [M4.apply, M4.linearPart, dot4, V3.add, V3.mk.injEq]
  refine ⟨?_, ?_, ?_⟩ <;> ring

/-- D12 (known finding `translate-applied-to-vector`): `translate(t).apply(v) = v + t`,
whereas the linear part of a translation is the identity. The full-strength statement
"constructors have their linear part on vectors" is therefore false of the code. -/
theorem apply_vec_translate (t v : V3 R) : (translate t).apply v = v.add t := translate_pt t v

theorem apply_vec_translate_counterexample :
    ∃ (t v : V3 Int), (translate t).apply v ≠ (translate t).linearPart v :=
  ⟨⟨1, 2, 3⟩, ⟨0, 5, -3⟩, by decide⟩

/-- The crate's own test `translation` (mat.rs:802) pins exactly this behaviour. -/
example : (translate (⟨1, 2, 3⟩ : V3 Int)).apply ⟨0, 5, -3⟩ = ⟨1, 7, 0⟩ := by decide

end Ring

/-! ### orient_y / orient_z -/

section Orient
variable {K : Type} [Field K] [LinearOrder K] [IsStrictOrderedRing K]

/-- `orient_y(new_y, x)`: when it does not panic, the y axis is sent to `new_y` (exactly), the z axis to
`(x × new_y)·rho` and the x axis to their cross product; no translation. -/
theorem orient_y_effect (eps rho : K) (newY x : V3 K) (m : M4 K) (h : orientY eps rho newY x = .ok m) :
    m.apply ⟨0, 1, 0⟩ = newY ∧ m.apply ⟨0, 0, 1⟩ = (cross x newY).smul rho ∧
    m.apply ⟨1, 0, 0⟩ = cross newY ((cross x newY).smul rho) ∧ m.r3 = ⟨0, 0, 0, 1⟩ := by
  unfold orientY normalize at h
  split_ifs at h with h0
  simp only [orient] at h
  split_ifs at h with h1 h2
  injection h with h
  subst h
  obtain ⟨nx, ny, nz⟩ := newY
  obtain ⟨x0, x1, x2⟩ := x
  simp only [fromBasis, M4.apply, dot4, cross, V3.smul, V3.mk.injEq]
  refine ⟨⟨?_, ?_, ?_⟩, ⟨?_, ?_, ?_⟩, ⟨?_, ?_, ?_⟩, trivial⟩ <;> ring

theorem orient_z_effect (eps rho : K) (newZ x : V3 K) (m : M4 K) (h : orientZ eps rho newZ x = .ok m) :
    m.apply ⟨0, 0, 1⟩ = newZ ∧ m.apply ⟨0, 1, 0⟩ = (cross newZ x).smul rho ∧
    m.apply ⟨1, 0, 0⟩ = cross ((cross newZ x).smul rho) newZ ∧ m.r3 = ⟨0, 0, 0, 1⟩ := by
  unfold orientZ normalize at h
  split_ifs at h with h0
  simp only [orient] at h
  split_ifs at h with h1 h2
  injection h with h
  subst h
  obtain ⟨nx, ny, nz⟩ := newZ
  obtain ⟨x0, x1, x2⟩ := x
  simp only [fromBasis, M4.apply, dot4, cross, V3.smul, V3.mk.injEq]
  refine ⟨⟨?_, ?_, ?_⟩, ⟨?_, ?_, ?_⟩, ⟨?_, ?_, ?_⟩, trivial⟩ <;> ring

/-- The hypotheses of the two theorems above are satisfiable (the crate's `orientation_y_to_z`). -/
example : orientY (1 / 1000000 : ℚ) 1 ⟨0, 0, 1⟩ ⟨1, 0, 0⟩ =
    .ok ⟨⟨1, 0, 0, 0⟩, ⟨0, 0, -1, 0⟩, ⟨0, 1, 0, 0⟩, ⟨0, 0, 0, 1⟩⟩ := by decide +kernel
example : orientZ (1 / 1000000 : ℚ) 1 ⟨0, 1, 0⟩ ⟨1, 0, 0⟩ =
    .ok ⟨⟨1, 0, 0, 0⟩, ⟨0, 0, 1, 0⟩, ⟨0, -1, 0, 0⟩, ⟨0, 0, 0, 1⟩⟩ := by decide +kernel

/-- With a unit `new_z` and `rho` the exact reciprocal length of `new_z × x`, `orient_z` returns a rotation:
transpose = inverse and determinant 1 ("if `new_z` and `x` are unit vectors, the result is orthonormal",
mat.rs:528). Neither orthogonality of `new_z` and `x` nor unit length of `x` is needed: `x` only enters through the
normalised cross product. -/
theorem orient_z_rotation (eps rho : K) (newZ x : V3 K) (m : M4 K) (h : orientZ eps rho newZ x = .ok m)
    (hz : newZ.lenSqr = 1)
    (hr : rho * rho * (cross newZ x).lenSqr = 1) :
    m.transpose.compose m = M4.identity ∧ m.det = 1 := by
  unfold orientZ normalize at h
  split_ifs at h with h0
  simp only [orient] at h
  split_ifs at h with h1 h2
  injection h with h
  subst h
  obtain ⟨a, b, c⟩ := newZ
  obtain ⟨x0, x1, x2⟩ := x
  simp only [V3.lenSqr, dot3, cross] at hz hr
  simp only [fromBasis, cross, V3.smul, M4.transpose, M4.col, V4.get, M4.compose, composeRow4, dot4,
    M4.identity, M4.det, M4.mk.injEq, V4.mk.injEq]
  -- y = (newZ × x)·rho is a unit vector orthogonal to newZ
  have hyy : (b * x2 - c * x1) * rho * ((b * x2 - c * x1) * rho) + (c * x0 - a * x2) * rho * ((c * x0 - a * x2) * rho)
      + (a * x1 - b * x0) * rho * ((a * x1 - b * x0) * rho) = 1 := by linear_combination hr
  have hyz : (b * x2 - c * x1) * rho * a + (c * x0 - a * x2) * rho * b + (a * x1 - b * x0) * rho * c = 0 := by ring
  generalize (b * x2 - c * x1) * rho = y0 at *
  generalize (c * x0 - a * x2) * rho = y1 at *
  generalize (a * x1 - b * x0) * rho = y2 at *
  refine ⟨⟨⟨?_, ?_, ?_, ?_⟩, ⟨?_, ?_, ?_, ?_⟩, ⟨?_, ?_, ?_, ?_⟩, ⟨?_, ?_, ?_, ?_⟩⟩, ?_⟩
  all_goals first
    | ring1
    | linear_combination hyy
    | linear_combination hyz
    | linear_combination hz
    | linear_combination (a * a + b * b + c * c) * hyy + hz - (y0 * a + y1 * b + y2 * c) * hyz

/-- Satisfiable with an auxiliary axis that is neither orthogonal to `new_z` nor of unit length. -/
example : (⟨0, 1, 0⟩ : V3 ℚ).lenSqr = 1 ∧ dot3 (⟨0, 1, 0⟩ : V3 ℚ) ⟨3, 7, 4⟩ ≠ 0 ∧
    (1 / 5 : ℚ) * (1 / 5) * (cross (⟨0, 1, 0⟩ : V3 ℚ) ⟨3, 7, 4⟩).lenSqr = 1 := by decide +kernel

/-- Same for `orient_y`: `new_y` unit and `rho` the exact reciprocal length of `x × new_y` suffice (no condition on the
angle between `x` and `new_y` or on the length of `x`). -/
theorem orient_y_rotation (eps rho : K) (newY x : V3 K) (m : M4 K) (h : orientY eps rho newY x = .ok m)
    (hy : newY.lenSqr = 1) (hr : rho * rho * (cross x newY).lenSqr = 1) :
    m.transpose.compose m = M4.identity ∧ m.det = 1 := by
  unfold orientY normalize at h
  split_ifs at h with h0
  simp only [orient] at h
  split_ifs at h with h1 h2
  injection h with h
  subst h
  obtain ⟨a, b, c⟩ := newY
  obtain ⟨x0, x1, x2⟩ := x
  simp only [V3.lenSqr, dot3, cross] at hy hr
  simp only [fromBasis, cross, V3.smul, M4.transpose, M4.col, V4.get, M4.compose, composeRow4, dot4,
    M4.identity, M4.det, M4.mk.injEq, V4.mk.injEq]
  -- z = (x × newY)·rho is a unit vector orthogonal to newY
  have hzz : (x1 * c - x2 * b) * rho * ((x1 * c - x2 * b) * rho) + (x2 * a - x0 * c) * rho * ((x2 * a - x0 * c) * rho)
      + (x0 * b - x1 * a) * rho * ((x0 * b - x1 * a) * rho) = 1 := by linear_combination hr
  have hzy : (x1 * c - x2 * b) * rho * a + (x2 * a - x0 * c) * rho * b + (x0 * b - x1 * a) * rho * c = 0 := by ring
  generalize (x1 * c - x2 * b) * rho = z0 at *
  generalize (x2 * a - x0 * c) * rho = z1 at *
  generalize (x0 * b - x1 * a) * rho = z2 at *
  refine ⟨⟨⟨?_, ?_, ?_, ?_⟩, ⟨?_, ?_, ?_, ?_⟩, ⟨?_, ?_, ?_, ?_⟩, ⟨?_, ?_, ?_, ?_⟩⟩, ?_⟩
  all_goals first
    | ring1
    | linear_combination hzz
    | linear_combination hzy
    | linear_combination hy
    | linear_combination (a * a + b * b + c * c) * hzz + hy - (z0 * a + z1 * b + z2 * c) * hzy

example : (⟨0, 0, 1⟩ : V3 ℚ).lenSqr = 1 ∧
    (1 : ℚ) * 1 * (cross (⟨1, 0, 0⟩ : V3 ℚ) ⟨0, 0, 1⟩).lenSqr = 1 := by decide +kernel

/-- Rotations returned by `orient_*` under these hypotheses also satisfy `m · mᵀ = I`. -/
theorem orient_z_rotation_right (eps rho : K) (newZ x : V3 K) (m : M4 K) (h : orientZ eps rho newZ x = .ok m)
    (hz : newZ.lenSqr = 1) (hr : rho * rho * (cross newZ x).lenSqr = 1) :
    m.compose m.transpose = M4.identity :=
  Inverse.right_inverse_of_left_inverse m m.transpose (orient_z_rotation eps rho newZ x m h hz hr).1

/-! ### Gauss–Jordan inverse: the headline statements (proved in `Retro.Props.C09.Inverse`) -/

/-- Throughout elimination `this = inv · A`, for every pivot sequence. -/
theorem inverse_invariant (eps : K) (a : M4 K) (s : GJ K) (h : inverseGJ eps a = .ok s) :
    s.this = s.inv.compose a := Inverse.inverse_invariant eps a s h

/-- Guard passed (`det² > ε²·Π|rowᵢ|²`, mat.rs:303-315) ⇒ `inverse` returns a two-sided inverse, whatever row
exchanges are needed. -/
theorem inverse_correct (eps : K) (a : M4 K) (hg : Inverse.GuardOk eps a) :
    ∃ b, inverse eps a = .ok b ∧ b.compose a = M4.identity ∧ a.compose b = M4.identity :=
  Inverse.inverse_correct eps a hg

/-- Guard failed ⇒ panic (debug profile), never a wrong matrix. -/
theorem inverse_singular_panics (eps : K) (a : M4 K) (h : ¬ Inverse.GuardOk eps a) :
    ∃ m, inverse eps a = .panic m := Inverse.inverse_singular_panics eps a h

theorem inverse_ok_iff (eps : K) (a : M4 K) : (∃ b, inverse eps a = .ok b) ↔ Inverse.GuardOk eps a :=
  Inverse.inverse_ok_iff eps a

/-- D18 (`inverse-det-guard-rejects-well-conditioned`, fixed in /repo d46db54): with the scale-relative guard a
uniform scaling by *any* non-zero factor is inverted; in particular the old witness `scale(0.004)`. -/
theorem inverse_accepts_uniform_scale (eps s : K) (he : eps * eps < 1) (hs : s ≠ 0) :
    ∃ b, inverse eps (scale ⟨s, s, s⟩) = .ok b ∧ b.compose (scale ⟨s, s, s⟩) = M4.identity ∧
      (scale ⟨s, s, s⟩).compose b = M4.identity :=
  Inverse.inverse_accepts_uniform_scale eps s he hs

theorem inverse_accepts_small_scale_witness :
    inverse (1 / 8388608 : ℚ) (scale ⟨1 / 250, 1 / 250, 1 / 250⟩) = .ok (scale ⟨250, 250, 250⟩) := by
  decide +kernel

end Orient

end Retro.Props.C09
