/-
C09 — Gauss–Jordan `inverse` (mat.rs:300-376): the elimination invariant and its consequences.
-/
import Retro.Model.Mat
import Retro.Spec.Mat
import Mathlib.Tactic.Ring
import Mathlib.Tactic.LinearCombination
import Mathlib.Tactic.FinCases
import Mathlib.Tactic.FieldSimp
import Mathlib.Algebra.Order.Field.Basic
import Mathlib.Tactic.Linarith
import Mathlib.Tactic.NormNum
import Mathlib.Tactic.Positivity
import Mathlib.Algebra.Order.AbsoluteValue.Basic
import Mathlib.Algebra.Order.Ring.Abs

set_option linter.unusedSectionVars false
set_option linter.unusedSimpArgs false

namespace Retro.Props.C09.Inverse
open Retro Retro.Mat

section Ring
variable {R : Type} [CommRing R]

theorem det_mul (a b : M4 R) : (a.compose b).det = a.det * b.det := by
  obtain ⟨⟨a00, a01, a02, a03⟩, ⟨a10, a11, a12, a13⟩, ⟨a20, a21, a22, a23⟩, ⟨a30, a31, a32, a33⟩⟩ := a
  obtain ⟨⟨b00, b01, b02, b03⟩, ⟨b10, b11, b12, b13⟩, ⟨b20, b21, b22, b23⟩, ⟨b30, b31, b32, b33⟩⟩ := b
  simp only [M4.compose, composeRow4, M4.det, dot4, M4.col, V4.get]
  ring

theorem compose_assoc (a b c : M4 R) : (a.compose b).compose c = a.compose (b.compose c) := by
  obtain ⟨⟨a00, a01, a02, a03⟩, ⟨a10, a11, a12, a13⟩, ⟨a20, a21, a22, a23⟩, ⟨a30, a31, a32, a33⟩⟩ := a
  obtain ⟨⟨b00, b01, b02, b03⟩, ⟨b10, b11, b12, b13⟩, ⟨b20, b21, b22, b23⟩, ⟨b30, b31, b32, b33⟩⟩ := b
  obtain ⟨⟨c00, c01, c02, c03⟩, ⟨c10, c11, c12, c13⟩, ⟨c20, c21, c22, c23⟩, ⟨c30, c31, c32, c33⟩⟩ := c
  simp only [M4.compose, composeRow4, dot4, M4.col, V4.get, M4.mk.injEq, V4.mk.injEq]
  refine ⟨⟨?_, ?_, ?_, ?_⟩, ⟨?_, ?_, ?_, ?_⟩, ⟨?_, ?_, ?_, ?_⟩, ⟨?_, ?_, ?_, ?_⟩⟩ <;> ring

theorem identity_compose (a : M4 R) : M4.identity.compose a = a := by
  obtain ⟨⟨a00, a01, a02, a03⟩, ⟨a10, a11, a12, a13⟩, ⟨a20, a21, a22, a23⟩, ⟨a30, a31, a32, a33⟩⟩ := a
  simp only [M4.compose, composeRow4, dot4, M4.col, V4.get, M4.identity, M4.mk.injEq, V4.mk.injEq]
  refine ⟨⟨?_, ?_, ?_, ?_⟩, ⟨?_, ?_, ?_, ?_⟩, ⟨?_, ?_, ?_, ?_⟩, ⟨?_, ?_, ?_, ?_⟩⟩ <;> ring

theorem compose_identity (a : M4 R) : a.compose M4.identity = a := by
  obtain ⟨⟨a00, a01, a02, a03⟩, ⟨a10, a11, a12, a13⟩, ⟨a20, a21, a22, a23⟩, ⟨a30, a31, a32, a33⟩⟩ := a
  simp only [M4.compose, composeRow4, dot4, M4.col, V4.get, M4.identity, M4.mk.injEq, V4.mk.injEq]
  refine ⟨⟨?_, ?_, ?_, ?_⟩, ⟨?_, ?_, ?_, ?_⟩, ⟨?_, ?_, ?_, ?_⟩, ⟨?_, ?_, ?_, ?_⟩⟩ <;> ring


theorem det_identity : (M4.identity : M4 R).det = 1 := by
  simp only [M4.identity, M4.det, V4.get]; ring

/-- Scalar multiple of a matrix (proof-side helper). -/
def smulM (k : R) (m : M4 R) : M4 R :=
  ⟨⟨k * m.r0.x, k * m.r0.y, k * m.r0.z, k * m.r0.w⟩, ⟨k * m.r1.x, k * m.r1.y, k * m.r1.z, k * m.r1.w⟩,
   ⟨k * m.r2.x, k * m.r2.y, k * m.r2.z, k * m.r2.w⟩, ⟨k * m.r3.x, k * m.r3.y, k * m.r3.z, k * m.r3.w⟩⟩

/-- `A · adj(A) = det(A) · I` for the cofactor determinant of mat.rs and the classical adjugate. -/
theorem compose_adj (a : M4 R) : a.compose (Spec.Mat.adj4 a) = smulM a.det M4.identity := by
  obtain ⟨⟨a00, a01, a02, a03⟩, ⟨a10, a11, a12, a13⟩, ⟨a20, a21, a22, a23⟩, ⟨a30, a31, a32, a33⟩⟩ := a
  simp only [M4.compose, composeRow4, dot4, M4.col, V4.get, Spec.Mat.adj4, Spec.Mat.ofFn, Spec.Mat.minor, Spec.Mat.e,
    smulM, M4.identity, M4.det, M4.mk.injEq, V4.mk.injEq]
  norm_num [Spec.Mat.skip]
  refine ⟨⟨?_, ?_, ?_, ?_⟩, ⟨?_, ?_, ?_, ?_⟩, ⟨?_, ?_, ?_, ?_⟩, ⟨?_, ?_, ?_, ?_⟩⟩ <;> ring

theorem compose_smulM (a b : M4 R) (k : R) : a.compose (smulM k b) = smulM k (a.compose b) := by
  obtain ⟨⟨a00, a01, a02, a03⟩, ⟨a10, a11, a12, a13⟩, ⟨a20, a21, a22, a23⟩, ⟨a30, a31, a32, a33⟩⟩ := a
  obtain ⟨⟨b00, b01, b02, b03⟩, ⟨b10, b11, b12, b13⟩, ⟨b20, b21, b22, b23⟩, ⟨b30, b31, b32, b33⟩⟩ := b
  simp only [M4.compose, composeRow4, dot4, M4.col, V4.get, smulM, M4.mk.injEq, V4.mk.injEq]
  refine ⟨⟨?_, ?_, ?_, ?_⟩, ⟨?_, ?_, ?_, ?_⟩, ⟨?_, ?_, ?_, ?_⟩, ⟨?_, ?_, ?_, ?_⟩⟩ <;> ring

theorem smulM_smulM (k l : R) (m : M4 R) : smulM k (smulM l m) = smulM (k * l) m := by
  obtain ⟨⟨a00, a01, a02, a03⟩, ⟨a10, a11, a12, a13⟩, ⟨a20, a21, a22, a23⟩, ⟨a30, a31, a32, a33⟩⟩ := m
  simp only [smulM, M4.mk.injEq, V4.mk.injEq]
  refine ⟨⟨?_, ?_, ?_, ?_⟩, ⟨?_, ?_, ?_, ?_⟩, ⟨?_, ?_, ?_, ?_⟩, ⟨?_, ?_, ?_, ?_⟩⟩ <;> ring

theorem smulM_one (m : M4 R) : smulM 1 m = m := by
  obtain ⟨⟨a00, a01, a02, a03⟩, ⟨a10, a11, a12, a13⟩, ⟨a20, a21, a22, a23⟩, ⟨a30, a31, a32, a33⟩⟩ := m
  simp only [smulM, one_mul]

/-! ### rows of a product: `compose` acts on each row of its left operand separately -/

theorem composeRow4_sub_smul (r s : V4 R) (c : R) (a : M4 R) :
    composeRow4 (r.sub (s.smul c)) a = (composeRow4 r a).sub ((composeRow4 s a).smul c) := by
  obtain ⟨r0, r1, r2, r3⟩ := r
  obtain ⟨s0, s1, s2, s3⟩ := s
  simp only [composeRow4, dot4, V4.sub, V4.smul, V4.mk.injEq]
  refine ⟨?_, ?_, ?_, ?_⟩ <;> ring

theorem composeRow4_smul (r : V4 R) (c : R) (a : M4 R) :
    composeRow4 (r.smul c) a = (composeRow4 r a).smul c := by
  obtain ⟨r0, r1, r2, r3⟩ := r
  simp only [composeRow4, dot4, V4.smul, V4.mk.injEq]
  refine ⟨?_, ?_, ?_, ?_⟩ <;> ring

theorem compose_row (x a : M4 R) (i : Fin 4) : (x.compose a).row i = composeRow4 (x.row i) a :=
  match i with
  | 0 => rfl | 1 => rfl | 2 => rfl | 3 => rfl

theorem compose_setRow (x a : M4 R) (i : Fin 4) (v : V4 R) :
    (x.setRow i v).compose a = (x.compose a).setRow i (composeRow4 v a) :=
  match i with
  | 0 => rfl | 1 => rfl | 2 => rfl | 3 => rfl

end Ring

section Field
variable {K : Type} [Field K] [LinearOrder K] [IsStrictOrderedRing K]

/-- Every elementary row operation commutes with multiplication on the right:
`op(X · A) = op(X) · A` (a row operation is a multiplication on the left). -/
theorem rowop_compose (op : RowOp K) (x a : M4 K) : op.apply (x.compose a) = (op.apply x).compose a := by
  cases op with
  | swap r s => simp only [RowOp.apply, compose_setRow, compose_row]
  | sub src dst c => simp only [RowOp.apply, compose_setRow, compose_row, composeRow4_sub_smul]
  | scale r c => simp only [RowOp.apply, compose_setRow, compose_row, composeRow4_smul]

/-- The invariant of the elimination: `this = inv · A`. -/
def Inv (a : M4 K) (s : GJ K) : Prop := s.this = s.inv.compose a

def InvO (a : M4 K) : Outcome (GJ K) → Prop
  | .ok s => Inv a s
  | .panic _ => True

theorem inv_init (a : M4 K) : Inv a ⟨a, M4.identity⟩ := (identity_compose a).symm

theorem inv_both (a : M4 K) (s : GJ K) (op : RowOp K) (h : Inv a s) : Inv a (s.both op) := by
  unfold Inv GJ.both at *
  simp only
  rw [h, rowop_compose]

theorem foldl_preserves {σ ι : Type} (P : σ → Prop) (f : σ → ι → σ) (hf : ∀ s i, P s → P (f s i))
    (l : List ι) (s : σ) (h : P s) : P (l.foldl f s) := by
  induction l generalizing s with
  | nil => exact h
  | cons x xs ih => exact ih _ (hf s x h)

theorem inv_elimBelow (a : M4 K) (idx : Fin 4) (div : K) (s : GJ K) (r : Fin 4) (h : Inv a s) :
    Inv a (elimBelow idx div s r) := by
  unfold elimBelow
  split_ifs
  · exact inv_both a s _ h
  · exact h

theorem inv_fwdStep (a : M4 K) (s : GJ K) (idx : Fin 4) (h : Inv a s) : Inv a (fwdStep s idx) := by
  unfold fwdStep
  simp only
  split_ifs
  · exact h
  · exact foldl_preserves (Inv a) _ (fun s r hs => inv_elimBelow a idx _ s r hs) _ _ (inv_both a s _ h)

theorem inv_backRow (a : M4 K) (idx : Fin 4) (diag : K) (s : GJ K) (r : Fin 4) (h : Inv a s) :
    Inv a (backRow idx diag s r) := by
  unfold backRow
  split_ifs
  · exact inv_both a s _ h
  · exact h

theorem inv_backStep (a : M4 K) (s : Outcome (GJ K)) (idx : Fin 4) (h : InvO a s) : InvO a (backStep s idx) := by
  cases s with
  | panic m => trivial
  | ok s =>
    simp only [backStep]
    split_ifs
    · trivial
    · exact foldl_preserves (Inv a) _ (fun s r hs => inv_backRow a idx _ s r hs) _ _ h

theorem inv_normStep (a : M4 K) (s : Outcome (GJ K)) (r : Fin 4) (h : InvO a s) : InvO a (normStep s r) := by
  cases s with
  | panic m => trivial
  | ok s =>
    simp only [normStep]
    split_ifs
    · trivial
    · exact inv_both a s _ h

/-- **inverse_invariant.** Whatever pivots are chosen and whatever row exchanges happen, the pair
`(this, inv)` returned by the elimination satisfies `this = inv · A`. -/
theorem inverse_invariant (eps : K) (a : M4 K) (s : GJ K) (h : inverseGJ eps a = .ok s) :
    s.this = s.inv.compose a := by
  have key : InvO a (inverseGJ eps a) := by
    unfold inverseGJ
    split_ifs
    · simp only
      apply foldl_preserves (InvO a) _ (inv_normStep a)
      apply foldl_preserves (InvO a) _ (inv_backStep a)
      exact foldl_preserves (Inv a) _ (inv_fwdStep a) _ _ (inv_init a)
    · trivial
  rw [h] at key
  exact key

/-- A matrix that needs a row exchange at the very first step (zero diagonal: rotation by 90°). -/
example : (inverseGJ (1 / 8388608 : ℚ) (rotateZ 1 0)).isOk = true := by decide +kernel
example : exchangeCount (rotateZ (1 : ℚ) 0) = 1 := by decide +kernel

/-- Hence: if elimination ends with `this` reduced to the identity, the returned matrix is a
left inverse of the input. -/
theorem inverse_left_of_reduced (eps : K) (a : M4 K) (s : GJ K) (h : inverseGJ eps a = .ok s)
    (hid : s.this = M4.identity) : s.inv.compose a = M4.identity := by
  rw [← inverse_invariant eps a s h, hid]

/-- The guard predicate of mat.rs:303-315 (as of d46db54): `det² > ε² · Π|rowᵢ|²`. -/
def GuardOk (eps : K) (a : M4 K) : Prop := eps * eps * a.scaleSqr < a.det * a.det

/-- A matrix that fails the guard is a panic (debug profile), never a value. -/
theorem inverse_singular_panics (eps : K) (a : M4 K) (h : ¬ GuardOk eps a) :
    ∃ m, inverse eps a = .panic m := by
  refine ⟨"inverse: singular or near-singular", ?_⟩
  unfold GuardOk at h
  simp only [inverse, inverseGJ, if_neg h]

example : ¬ GuardOk (1 / 8388608 : ℚ) (scale (⟨1, 0, 1⟩ : V3 ℚ)) := by unfold GuardOk; decide +kernel

/-- `Π|rowᵢ|²` is non-negative, so the guard can only pass when `det ≠ 0` — for *every* `eps`. -/
theorem scaleSqr_nonneg (a : M4 K) : 0 ≤ a.scaleSqr := by
  have h (v : V4 K) : 0 ≤ dot4 v v := by
    simp only [dot4]
    nlinarith [mul_self_nonneg v.x, mul_self_nonneg v.y, mul_self_nonneg v.z, mul_self_nonneg v.w]
  unfold M4.scaleSqr
  have := h a.r0; have := h a.r1; have := h a.r2; have := h a.r3
  positivity

theorem guard_det_ne_zero (eps : K) (a : M4 K) (hg : GuardOk eps a) : a.det ≠ 0 := by
  intro h0
  unfold GuardOk at hg
  rw [h0, mul_zero] at hg
  have := mul_nonneg (mul_self_nonneg eps) (scaleSqr_nonneg a)
  exact absurd hg (not_lt.mpr this)

/-! ### a left inverse of a square matrix is a right inverse -/

theorem right_inverse_of_left_inverse (a b : M4 K) (h : b.compose a = M4.identity) :
    a.compose b = M4.identity := by
  have hdet : b.det * a.det = 1 := by rw [← det_mul, h, det_identity]
  have ha : a.det ≠ 0 := right_ne_zero_of_mul_eq_one hdet
  have hac : a.compose (smulM (1 / a.det) (Spec.Mat.adj4 a)) = M4.identity := by
    rw [compose_smulM, compose_adj, smulM_smulM, one_div, inv_mul_cancel₀ ha, smulM_one]
  calc a.compose b = (a.compose b).compose M4.identity := (compose_identity _).symm
    _ = (a.compose b).compose (a.compose (smulM (1 / a.det) (Spec.Mat.adj4 a))) := by rw [hac]
    _ = a.compose ((b.compose a).compose (smulM (1 / a.det) (Spec.Mat.adj4 a))) := by
        simp only [compose_assoc]
    _ = a.compose (smulM (1 / a.det) (Spec.Mat.adj4 a)) := by rw [h, identity_compose]
    _ = M4.identity := hac

/-! ### elimination reduces every non-singular matrix to the identity -/

theorem absS_eq_abs (x : K) : absS x = |x| := by
  unfold absS
  split_ifs with h
  · exact (abs_of_neg h).symm
  · exact (abs_of_nonneg (not_lt.mp h)).symm

def pstep (m : M4 K) (idx : Fin 4) (best r : Fin 4) : Fin 4 :=
  if idx < r then (if absS (m.get r idx) < absS (m.get best idx) then best else r) else best

theorem pivot_fold (m : M4 K) (idx : Fin 4) (l : List (Fin 4)) (b : Fin 4) (hb : idx ≤ b) :
    idx ≤ l.foldl (pstep m idx) b ∧
    |m.get b idx| ≤ |m.get (l.foldl (pstep m idx) b) idx| ∧
    ∀ r ∈ l, idx < r → |m.get r idx| ≤ |m.get (l.foldl (pstep m idx) b) idx| := by
  induction l generalizing b with
  | nil => exact ⟨hb, le_refl _, fun r hr => absurd hr (List.not_mem_nil)⟩
  | cons x xs ih =>
    simp only [List.foldl]
    have hb' : idx ≤ pstep m idx b x := by
      unfold pstep; split_ifs with h1 h2
      · exact hb
      · exact Fin.le_of_lt h1
      · exact hb
    have hbx : |m.get b idx| ≤ |m.get (pstep m idx b x) idx| := by
      unfold pstep; split_ifs with h1 h2
      · exact le_refl _
      · rw [absS_eq_abs, absS_eq_abs] at h2; exact not_lt.mp h2
      · exact le_refl _
    have hxx : idx < x → |m.get x idx| ≤ |m.get (pstep m idx b x) idx| := by
      intro hx
      unfold pstep; rw [if_pos hx]; split_ifs with h2
      · rw [absS_eq_abs, absS_eq_abs] at h2; exact le_of_lt h2
      · exact le_refl _
    obtain ⟨i1, i2, i3⟩ := ih (pstep m idx b x) hb'
    refine ⟨i1, le_trans hbx i2, ?_⟩
    intro r hr hlt
    rcases List.mem_cons.mp hr with rfl | hr
    · exact le_trans (hxx hlt) i2
    · exact i3 r hr hlt

theorem pivotRow_spec (m : M4 K) (idx : Fin 4) :
    idx ≤ pivotRow m idx ∧ ∀ r : Fin 4, idx ≤ r → |m.get r idx| ≤ |m.get (pivotRow m idx) idx| := by
  have h := pivot_fold m idx allIdx idx (Fin.le_refl _)
  have e : pivotRow m idx = allIdx.foldl (pstep m idx) idx := rfl
  rw [e]
  refine ⟨h.1, fun r hr => ?_⟩
  by_cases hlt : idx < r
  · have hmem : r ∈ allIdx := by
      unfold allIdx
      match r with
      | 0 => simp
      | 1 => simp
      | 2 => simp
      | 3 => simp
    exact h.2.2 r hmem hlt
  · have : r = idx := by omega
    rw [this]; exact h.2.1

theorem pivot_zero (m : M4 K) (idx : Fin 4) (h : m.get (pivotRow m idx) idx = 0) :
    ∀ r : Fin 4, idx ≤ r → m.get r idx = 0 := by
  intro r hr
  have := (pivotRow_spec m idx).2 r hr
  rw [h, abs_zero] at this
  exact abs_eq_zero.mp (le_antisymm this (abs_nonneg _))

theorem fin4_cases {P : Fin 4 → Prop} (h0 : P 0) (h1 : P 1) (h2 : P 2) (h3 : P 3) (i : Fin 4) : P i :=
  match i with
  | 0 => h0 | 1 => h1 | 2 => h2 | 3 => h3

theorem det_sub (m : M4 K) (s d : Fin 4) (c : K) (h : s ≠ d) : ((RowOp.sub s d c).apply m).det = m.det := by
  obtain ⟨⟨a00, a01, a02, a03⟩, ⟨a10, a11, a12, a13⟩, ⟨a20, a21, a22, a23⟩, ⟨a30, a31, a32, a33⟩⟩ := m
  induction s using fin4_cases <;> induction d using fin4_cases <;>
    first
    | exact absurd rfl h
    | (simp only [RowOp.apply, M4.setRow, M4.row, V4.sub, V4.smul, M4.det, V4.get]; ring)

theorem det_swap (m : M4 K) (i j : Fin 4) :
    ((RowOp.swap i j).apply m).det = if i = j then m.det else -m.det := by
  obtain ⟨⟨a00, a01, a02, a03⟩, ⟨a10, a11, a12, a13⟩, ⟨a20, a21, a22, a23⟩, ⟨a30, a31, a32, a33⟩⟩ := m
  induction i using fin4_cases <;> induction j using fin4_cases <;>
    (simp only [RowOp.apply, M4.setRow, M4.row, M4.det, V4.get, Fin.isValue, Fin.reduceEq, if_true, if_false, ite_true, ite_false]; try ring)


theorem det_elim_fold (idx : Fin 4) (div : K) (l : List (Fin 4)) (s : GJ K) :
    (l.foldl (elimBelow idx div) s).this.det = s.this.det := by
  induction l generalizing s with
  | nil => rfl
  | cons x xs ih =>
    simp only [List.foldl]
    rw [ih]
    unfold elimBelow
    split_ifs with h
    · exact det_sub _ _ _ _ (by omega)
    · rfl

theorem det_fwdStep_ne (s : GJ K) (idx : Fin 4) (h : s.this.det ≠ 0) : (fwdStep s idx).this.det ≠ 0 := by
  unfold fwdStep
  simp only
  split_ifs with h0
  · exact h
  · rw [det_elim_fold]
    simp only [GJ.both, det_swap]
    split_ifs
    · exact h
    · exact neg_ne_zero.mpr h

theorem stage0 (s : GJ K) (h : s.this.det ≠ 0) :
    (fwdStep s 0).this.r0.x ≠ 0 ∧ (fwdStep s 0).this.r1.x = 0 ∧ (fwdStep s 0).this.r2.x = 0 ∧
    (fwdStep s 0).this.r3.x = 0 := by
  obtain ⟨m, n⟩ := s
  have hz := pivot_zero m 0
  have hle := (pivotRow_spec m 0).1
  simp only [fwdStep]
  generalize pivotRow m 0 = p at *
  obtain ⟨⟨a00, a01, a02, a03⟩, ⟨a10, a11, a12, a13⟩, ⟨a20, a21, a22, a23⟩, ⟨a30, a31, a32, a33⟩⟩ := m
  split_ifs with h0
  · exfalso
    apply h
    have z0 := hz h0 0 (by omega); have z1 := hz h0 1 (by omega); have z2 := hz h0 2 (by omega); have z3 := hz h0 3 (by omega)
    simp only [M4.get, M4.row, V4.get] at z0 z1 z2 z3
    subst z0 z1 z2 z3
    simp only [M4.det, V4.get]; ring
  · clear hz h
    induction p using fin4_cases <;>
    · simp only [M4.get, M4.row, V4.get] at h0
      simp only [GJ.both, RowOp.apply, M4.setRow, M4.row, M4.get, V4.get, allIdx, List.foldl, elimBelow, V4.sub, V4.smul,
        Fin.isValue, Fin.reduceLT, if_true, if_false, lt_self_iff_false]
      refine ⟨h0, ?_, ?_, ?_⟩ <;> (field_simp; try ring)


theorem M4.ext16 {α : Type} {a b : M4 α} (h0x : a.r0.x = b.r0.x) (h0y : a.r0.y = b.r0.y) (h0z : a.r0.z = b.r0.z) (h0w : a.r0.w = b.r0.w) (h1x : a.r1.x = b.r1.x) (h1y : a.r1.y = b.r1.y) (h1z : a.r1.z = b.r1.z) (h1w : a.r1.w = b.r1.w) (h2x : a.r2.x = b.r2.x) (h2y : a.r2.y = b.r2.y) (h2z : a.r2.z = b.r2.z) (h2w : a.r2.w = b.r2.w) (h3x : a.r3.x = b.r3.x) (h3y : a.r3.y = b.r3.y) (h3z : a.r3.z = b.r3.z) (h3w : a.r3.w = b.r3.w) : a = b := by
  obtain ⟨⟨a00, a01, a02, a03⟩, ⟨a10, a11, a12, a13⟩, ⟨a20, a21, a22, a23⟩, ⟨a30, a31, a32, a33⟩⟩ := a
  obtain ⟨⟨b00, b01, b02, b03⟩, ⟨b10, b11, b12, b13⟩, ⟨b20, b21, b22, b23⟩, ⟨b30, b31, b32, b33⟩⟩ := b
  simp only at *
  subst_vars
  rfl

macro "close_entry" : tactic =>
  `(tactic| first | trivial | rfl | ring1 | (field_simp; done) | (field_simp; ring1))

macro "m4_field" : tactic =>
  `(tactic| (apply M4.ext16 <;> simp only [] <;> first | rfl | (field_simp; done) | (field_simp; ring)))

theorem back3 (n : M4 K) (a00 a01 a02 a03 a11 a12 a13 a22 a23 a33 : K) (h3 : a33 ≠ 0) :
    ∃ s', backStep (.ok ⟨⟨⟨a00, a01, a02, a03⟩, ⟨0, a11, a12, a13⟩, ⟨0, 0, a22, a23⟩, ⟨0, 0, 0, a33⟩⟩, n⟩) 3 = .ok s' ∧
      s'.this = ⟨⟨a00, a01, a02, 0⟩, ⟨0, a11, a12, 0⟩, ⟨0, 0, a22, 0⟩, ⟨0, 0, 0, a33⟩⟩ := by
  simp only [backStep, M4.get, M4.row, V4.get, h3, ↓reduceIte]
  refine ⟨_, rfl, ?_⟩
  simp only [allIdx, List.foldl, backRow, GJ.both, RowOp.apply, M4.setRow, M4.row, M4.get, V4.get, V4.sub, V4.smul,
    Fin.isValue, Fin.reduceLT, if_true, if_false, lt_self_iff_false]
  m4_field

theorem back2 (n : M4 K) (a00 a01 a02 a11 a12 a22 a33 : K) (h2 : a22 ≠ 0) :
    ∃ s', backStep (.ok ⟨⟨⟨a00, a01, a02, 0⟩, ⟨0, a11, a12, 0⟩, ⟨0, 0, a22, 0⟩, ⟨0, 0, 0, a33⟩⟩, n⟩) 2 = .ok s' ∧
      s'.this = ⟨⟨a00, a01, 0, 0⟩, ⟨0, a11, 0, 0⟩, ⟨0, 0, a22, 0⟩, ⟨0, 0, 0, a33⟩⟩ := by
  simp only [backStep, M4.get, M4.row, V4.get, h2, ↓reduceIte]
  refine ⟨_, rfl, ?_⟩
  simp only [allIdx, List.foldl, backRow, GJ.both, RowOp.apply, M4.setRow, M4.row, M4.get, V4.get, V4.sub, V4.smul,
    Fin.isValue, Fin.reduceLT, if_true, if_false, lt_self_iff_false]
  m4_field

theorem back1 (n : M4 K) (a00 a01 a11 a22 a33 : K) (h1 : a11 ≠ 0) :
    ∃ s', backStep (.ok ⟨⟨⟨a00, a01, 0, 0⟩, ⟨0, a11, 0, 0⟩, ⟨0, 0, a22, 0⟩, ⟨0, 0, 0, a33⟩⟩, n⟩) 1 = .ok s' ∧
      s'.this = ⟨⟨a00, 0, 0, 0⟩, ⟨0, a11, 0, 0⟩, ⟨0, 0, a22, 0⟩, ⟨0, 0, 0, a33⟩⟩ := by
  simp only [backStep, M4.get, M4.row, V4.get, h1, ↓reduceIte]
  refine ⟨_, rfl, ?_⟩
  simp only [allIdx, List.foldl, backRow, GJ.both, RowOp.apply, M4.setRow, M4.row, M4.get, V4.get, V4.sub, V4.smul,
    Fin.isValue, Fin.reduceLT, if_true, if_false, lt_self_iff_false]
  m4_field

theorem norm_all (n : M4 K) (a00 a11 a22 a33 : K) (h0 : a00 ≠ 0) (h1 : a11 ≠ 0) (h2 : a22 ≠ 0) (h3 : a33 ≠ 0) :
    ∃ s', allIdx.foldl normStep (.ok ⟨⟨⟨a00, 0, 0, 0⟩, ⟨0, a11, 0, 0⟩, ⟨0, 0, a22, 0⟩, ⟨0, 0, 0, a33⟩⟩, n⟩) = .ok s' ∧
      s'.this = M4.identity := by
  simp only [allIdx, List.foldl, normStep, GJ.both, RowOp.apply, M4.setRow, M4.row, M4.get, V4.get, V4.smul,
    h0, h1, h2, h3, ↓reduceIte]
  refine ⟨_, rfl, ?_⟩
  simp only [M4.identity]
  m4_field


theorem stage1 (s : GJ K) (h : s.this.det ≠ 0)
    (c0 : s.this.r0.x ≠ 0) (c10 : s.this.r1.x = 0) (c20 : s.this.r2.x = 0) (c30 : s.this.r3.x = 0) :
    (fwdStep s 1).this.r0.x ≠ 0 ∧ (fwdStep s 1).this.r1.x = 0 ∧ (fwdStep s 1).this.r2.x = 0 ∧
    (fwdStep s 1).this.r3.x = 0 ∧
    (fwdStep s 1).this.r1.y ≠ 0 ∧ (fwdStep s 1).this.r2.y = 0 ∧ (fwdStep s 1).this.r3.y = 0 := by
  obtain ⟨m, n⟩ := s
  have hz := pivot_zero m 1
  have hle := (pivotRow_spec m 1).1
  simp only [fwdStep]
  generalize pivotRow m 1 = p at *
  obtain ⟨⟨a00, a01, a02, a03⟩, ⟨a10, a11, a12, a13⟩, ⟨a20, a21, a22, a23⟩, ⟨a30, a31, a32, a33⟩⟩ := m
  simp only at c0 c10 c20 c30
  subst c10 c20 c30
  split_ifs with h0
  · exfalso
    apply h
    have z1 := hz h0 1 (by omega); have z2 := hz h0 2 (by omega); have z3 := hz h0 3 (by omega)
    simp only [M4.get, M4.row, V4.get] at z1 z2 z3
    subst z1 z2 z3
    simp only [M4.det, V4.get]; ring
  · clear hz h
    induction p using fin4_cases
    · omega
    all_goals
      simp only [M4.get, M4.row, V4.get] at h0
      simp only [GJ.both, RowOp.apply, M4.setRow, M4.row, M4.get, V4.get, allIdx, List.foldl, elimBelow, V4.sub, V4.smul,
        Fin.isValue, Fin.reduceLT, if_true, if_false, lt_self_iff_false]
      refine ⟨c0, ?_, ?_, ?_, h0, ?_, ?_⟩ <;> close_entry

theorem stage2 (s : GJ K) (h : s.this.det ≠ 0)
    (c0 : s.this.r0.x ≠ 0) (c10 : s.this.r1.x = 0) (c20 : s.this.r2.x = 0) (c30 : s.this.r3.x = 0)
    (c1 : s.this.r1.y ≠ 0) (c21 : s.this.r2.y = 0) (c31 : s.this.r3.y = 0) :
    (fwdStep s 2).this.r0.x ≠ 0 ∧ (fwdStep s 2).this.r1.x = 0 ∧ (fwdStep s 2).this.r2.x = 0 ∧
    (fwdStep s 2).this.r3.x = 0 ∧
    (fwdStep s 2).this.r1.y ≠ 0 ∧ (fwdStep s 2).this.r2.y = 0 ∧ (fwdStep s 2).this.r3.y = 0 ∧
    (fwdStep s 2).this.r2.z ≠ 0 ∧ (fwdStep s 2).this.r3.z = 0 := by
  obtain ⟨m, n⟩ := s
  have hz := pivot_zero m 2
  have hle := (pivotRow_spec m 2).1
  simp only [fwdStep]
  generalize pivotRow m 2 = p at *
  obtain ⟨⟨a00, a01, a02, a03⟩, ⟨a10, a11, a12, a13⟩, ⟨a20, a21, a22, a23⟩, ⟨a30, a31, a32, a33⟩⟩ := m
  simp only at c0 c10 c20 c30 c1 c21 c31
  subst c10 c20 c30 c21 c31
  split_ifs with h0
  · exfalso
    apply h
    have z2 := hz h0 2 (by omega); have z3 := hz h0 3 (by omega)
    simp only [M4.get, M4.row, V4.get] at z2 z3
    subst z2 z3
    simp only [M4.det, V4.get]; ring
  · clear hz h
    induction p using fin4_cases
    · omega
    · omega
    all_goals
      simp only [M4.get, M4.row, V4.get] at h0
      simp only [GJ.both, RowOp.apply, M4.setRow, M4.row, M4.get, V4.get, allIdx, List.foldl, elimBelow, V4.sub, V4.smul,
        Fin.isValue, Fin.reduceLT, if_true, if_false, lt_self_iff_false]
      refine ⟨c0, ?_, ?_, ?_, c1, ?_, ?_, h0, ?_⟩ <;> close_entry

theorem stage3 (s : GJ K) (h : s.this.det ≠ 0)
    (c0 : s.this.r0.x ≠ 0) (c10 : s.this.r1.x = 0) (c20 : s.this.r2.x = 0) (c30 : s.this.r3.x = 0)
    (c1 : s.this.r1.y ≠ 0) (c21 : s.this.r2.y = 0) (c31 : s.this.r3.y = 0)
    (c2 : s.this.r2.z ≠ 0) (c32 : s.this.r3.z = 0) :
    (fwdStep s 3).this.r0.x ≠ 0 ∧ (fwdStep s 3).this.r1.x = 0 ∧ (fwdStep s 3).this.r2.x = 0 ∧
    (fwdStep s 3).this.r3.x = 0 ∧
    (fwdStep s 3).this.r1.y ≠ 0 ∧ (fwdStep s 3).this.r2.y = 0 ∧ (fwdStep s 3).this.r3.y = 0 ∧
    (fwdStep s 3).this.r2.z ≠ 0 ∧ (fwdStep s 3).this.r3.z = 0 ∧ (fwdStep s 3).this.r3.w ≠ 0 := by
  obtain ⟨m, n⟩ := s
  have hz := pivot_zero m 3
  have hle := (pivotRow_spec m 3).1
  simp only [fwdStep]
  generalize pivotRow m 3 = p at *
  obtain ⟨⟨a00, a01, a02, a03⟩, ⟨a10, a11, a12, a13⟩, ⟨a20, a21, a22, a23⟩, ⟨a30, a31, a32, a33⟩⟩ := m
  simp only at c0 c10 c20 c30 c1 c21 c31 c2 c32
  subst c10 c20 c30 c21 c31 c32
  split_ifs with h0
  · exfalso
    apply h
    have z3 := hz h0 3 (by omega)
    simp only [M4.get, M4.row, V4.get] at z3
    subst z3
    simp only [M4.det, V4.get]; ring
  · clear hz h
    induction p using fin4_cases
    · omega
    · omega
    · omega
    simp only [M4.get, M4.row, V4.get] at h0
    simp only [GJ.both, RowOp.apply, M4.setRow, M4.row, M4.get, V4.get, allIdx, List.foldl, elimBelow, V4.sub, V4.smul,
      Fin.isValue, Fin.reduceLT, if_true, if_false, lt_self_iff_false]
    refine ⟨c0, ?_, ?_, ?_, c1, ?_, ?_, c2, ?_, h0⟩ <;> close_entry


/-- After the four forward steps `this` is upper triangular with a non-zero diagonal,
and elimination then reduces it to the identity without ever dividing by zero. -/
theorem reduces (a n : M4 K) (hd : a.det ≠ 0) :
    ∃ s', allIdx.foldl normStep (([3, 2, 1] : List (Fin 4)).foldl backStep (.ok (allIdx.foldl fwdStep ⟨a, n⟩))) = .ok s' ∧
      s'.this = M4.identity := by
  have e : allIdx.foldl fwdStep ⟨a, n⟩ = fwdStep (fwdStep (fwdStep (fwdStep ⟨a, n⟩ 0) 1) 2) 3 := rfl
  rw [e]
  set s0 : GJ K := ⟨a, n⟩ with hs0
  have d0 : s0.this.det ≠ 0 := hd
  obtain ⟨p0, p10, p20, p30⟩ := stage0 s0 d0
  have d1 := det_fwdStep_ne s0 0 d0
  set s1 := fwdStep s0 0
  obtain ⟨q0, q10, q20, q30, q1, q21, q31⟩ := stage1 s1 d1 p0 p10 p20 p30
  have d2 := det_fwdStep_ne s1 1 d1
  set s2 := fwdStep s1 1
  obtain ⟨r0, r10, r20, r30, r1, r21, r31, r2, r32⟩ := stage2 s2 d2 q0 q10 q20 q30 q1 q21 q31
  have d3 := det_fwdStep_ne s2 2 d2
  set s3 := fwdStep s2 2
  obtain ⟨t0, t10, t20, t30, t1, t21, t31, t2, t32, t3⟩ := stage3 s3 d3 r0 r10 r20 r30 r1 r21 r31 r2 r32
  generalize fwdStep s3 3 = s4 at *
  obtain ⟨⟨⟨a00, a01, a02, a03⟩, ⟨a10, a11, a12, a13⟩, ⟨a20, a21, a22, a23⟩, ⟨a30, a31, a32, a33⟩⟩, n4⟩ := s4
  simp only at t0 t10 t20 t30 t1 t21 t31 t2 t32 t3
  subst t10 t20 t30 t21 t31 t32
  simp only [List.foldl]
  obtain ⟨u3, hu3, hu3'⟩ := back3 n4 a00 a01 a02 a03 a11 a12 a13 a22 a23 a33 t3
  rw [hu3]
  obtain ⟨m3, k3⟩ := u3
  simp only at hu3'
  subst hu3'
  obtain ⟨u2, hu2, hu2'⟩ := back2 k3 a00 a01 a02 a11 a12 a22 a33 t2
  rw [hu2]
  obtain ⟨m2, k2⟩ := u2
  simp only at hu2'
  subst hu2'
  obtain ⟨u1, hu1, hu1'⟩ := back1 k2 a00 a01 a11 a22 a33 t1
  rw [hu1]
  obtain ⟨m1, k1⟩ := u1
  simp only at hu1'
  subst hu1'
  exact norm_all k1 a00 a11 a22 a33 t0 t1 t2 t3


/-- **inverse_correct.** For every matrix that passes the guard `det² > ε²·Π|rowᵢ|²` (any `ε`), and for
every pivot sequence partial pivoting may choose (ties broken towards the last row, any number of row
exchanges), `inverse` returns — without panicking — a matrix that composed with the original is the
identity in both orders. -/
theorem inverse_correct (eps : K) (a : M4 K) (hg : GuardOk eps a) :
    ∃ b, inverse eps a = .ok b ∧ b.compose a = M4.identity ∧ a.compose b = M4.identity := by
  have hd : a.det ≠ 0 := guard_det_ne_zero eps a hg
  obtain ⟨s, hs, hid⟩ := reduces a M4.identity hd
  have hgj : inverseGJ eps a = .ok s := by
    unfold GuardOk at hg
    simp only [inverseGJ, if_pos hg]
    exact hs
  have hleft := inverse_left_of_reduced eps a s hgj hid
  exact ⟨s.inv, by simp only [inverse, hgj], hleft, right_inverse_of_left_inverse a s.inv hleft⟩

example : GuardOk (1 / 8388608 : ℚ) (rotateZ (1 : ℚ) 0) := by unfold GuardOk; decide +kernel

/-- The outcome of `inverse` is decided by the guard alone: a value (the inverse) when it passes,
a panic otherwise — never a wrong matrix and never a non-finite one. -/
theorem inverse_ok_iff (eps : K) (a : M4 K) :
    (∃ b, inverse eps a = .ok b) ↔ GuardOk eps a := by
  constructor
  · rintro ⟨b, hb⟩
    by_contra hg
    obtain ⟨m, hm⟩ := inverse_singular_panics eps a hg
    rw [hm] at hb
    cases hb
  · intro hg
    obtain ⟨b, hb, _⟩ := inverse_correct eps a hg
    exact ⟨b, hb⟩

/-- The inverse is the classical one: `adj(A) / det(A)`. -/
theorem inverse_eq_adjugate (eps : K) (a b : M4 K) (h : inverse eps a = .ok b) :
    b = smulM (1 / a.det) (Spec.Mat.adj4 a) := by
  have hg : GuardOk eps a := (inverse_ok_iff eps a).mp ⟨b, h⟩
  obtain ⟨b', hb', hl, _⟩ := inverse_correct eps a hg
  rw [h] at hb'
  injection hb' with hb'
  subst hb'
  have hd : a.det ≠ 0 := guard_det_ne_zero eps a hg
  have hac : a.compose (smulM (1 / a.det) (Spec.Mat.adj4 a)) = M4.identity := by
    rw [compose_smulM, compose_adj, smulM_smulM, one_div, inv_mul_cancel₀ hd, smulM_one]
  calc b = b.compose M4.identity := (compose_identity b).symm
    _ = b.compose (a.compose (smulM (1 / a.det) (Spec.Mat.adj4 a))) := by rw [hac]
    _ = (b.compose a).compose (smulM (1 / a.det) (Spec.Mat.adj4 a)) := (compose_assoc _ _ _).symm
    _ = smulM (1 / a.det) (Spec.Mat.adj4 a) := by rw [hl, identity_compose]

/-- The guard is scale invariant where it matters (D18, fixed in d46db54): a uniform scaling by any `s ≠ 0`,
however small, passes it as soon as `ε² < 1`, and is therefore inverted. (The guard before the fix,
`|det| > ε`, refused `scale(0.004)`: witness in corpus/C09.) -/
theorem guard_accepts_uniform_scale (eps s : K) (he : eps * eps < 1) (hs : s ≠ 0) :
    GuardOk eps (scale ⟨s, s, s⟩) := by
  unfold GuardOk
  simp only [scale, M4.scaleSqr, M4.det, dot4, V4.get]
  have h6 : 0 < s * s * s * (s * s * s) := mul_self_pos.mpr (mul_ne_zero (mul_ne_zero hs hs) hs)
  nlinarith [h6]

theorem inverse_accepts_uniform_scale (eps s : K) (he : eps * eps < 1) (hs : s ≠ 0) :
    ∃ b, inverse eps (scale ⟨s, s, s⟩) = .ok b ∧ b.compose (scale ⟨s, s, s⟩) = M4.identity ∧
      (scale ⟨s, s, s⟩).compose b = M4.identity :=
  inverse_correct eps _ (guard_accepts_uniform_scale eps s he hs)

example : (1 / 8388608 : ℚ) * (1 / 8388608) < 1 ∧ (1 / 250 : ℚ) ≠ 0 := by norm_num

/-- More generally the guard is invariant under rescaling the whole linear part and under permuting rows:
it only sees the ratio `|det| / Π|rowᵢ|` (Hadamard ratio), which is 1 for every matrix with orthogonal rows. -/
theorem guard_orthogonal_rows (eps : K) (a : M4 K) (he : eps * eps < 1)
    (h01 : dot4 a.r0 a.r1 = 0) (h02 : dot4 a.r0 a.r2 = 0) (h03 : dot4 a.r0 a.r3 = 0)
    (h12 : dot4 a.r1 a.r2 = 0) (h13 : dot4 a.r1 a.r3 = 0) (h23 : dot4 a.r2 a.r3 = 0)
    (hd : a.det ≠ 0) : GuardOk eps a := by
  -- det² = det(A·Aᵀ) = Π|rowᵢ|² when the rows are orthogonal (Gram determinant of a diagonal matrix)
  have hgram : a.det * a.det = a.scaleSqr := by
    have e1 : (a.compose a.transpose).det = a.det * a.det := by
      rw [det_mul]
      congr 1
      obtain ⟨⟨a00, a01, a02, a03⟩, ⟨a10, a11, a12, a13⟩, ⟨a20, a21, a22, a23⟩, ⟨a30, a31, a32, a33⟩⟩ := a
      simp only [M4.det, V4.get, M4.transpose, M4.col]; ring
    rw [← e1]
    obtain ⟨⟨a00, a01, a02, a03⟩, ⟨a10, a11, a12, a13⟩, ⟨a20, a21, a22, a23⟩, ⟨a30, a31, a32, a33⟩⟩ := a
    simp only [dot4] at h01 h02 h03 h12 h13 h23
    simp only [M4.compose, composeRow4, dot4, M4.col, V4.get, M4.transpose, M4.det, M4.scaleSqr]
    have g01 : 0 + a00 * a10 + a01 * a11 + a02 * a12 + a03 * a13 = 0 := h01
    have g10 : 0 + a10 * a00 + a11 * a01 + a12 * a02 + a13 * a03 = 0 := by linear_combination h01
    have g20 : 0 + a20 * a00 + a21 * a01 + a22 * a02 + a23 * a03 = 0 := by linear_combination h02
    have g30 : 0 + a30 * a00 + a31 * a01 + a32 * a02 + a33 * a03 = 0 := by linear_combination h03
    have g21 : 0 + a20 * a10 + a21 * a11 + a22 * a12 + a23 * a13 = 0 := by linear_combination h12
    have g31 : 0 + a30 * a10 + a31 * a11 + a32 * a12 + a33 * a13 = 0 := by linear_combination h13
    have g32 : 0 + a30 * a20 + a31 * a21 + a32 * a22 + a33 * a23 = 0 := by linear_combination h23
    rw [h01, h02, h03, h12, h13, h23, g10, g20, g30, g21, g31, g32]
    ring
  unfold GuardOk
  rw [hgram]
  have hpos : 0 < a.scaleSqr := by
    rw [← hgram]; exact mul_self_pos.mpr hd
  nlinarith

end Field

end Retro.Props.C09.Inverse
