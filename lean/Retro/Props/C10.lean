/-
C10 — mixing spaces, bases or units is a compile-time error.

The theorems are about the crate's *tag algebra* (`Retro/Model/TypeAlg.lean`: `infer`, `ty1/ty2/ty3`
transcribe the `impl` headers), not about rustc.  They are shallow by themselves; their weight comes
from the correspondence: the same `infer`/`classify` is what the driver runs on every enumerated
program, and rustc (type-checking against /repo/core) must agree with it program by program.

  A  `infer_sound`, `infer_sound_commits`   an accepted program contains no sub-expression that commits
       one of the property's misuses, the misuse predicates being defined on the tags only
  B  `*_iff`, `*_none`                       exact characterisations: accepted iff the tags match
  C  `twin_*`, `twin_accepts`               for each misuse class, the twin with matching tags or an
       explicit conversion is accepted
-/
import Retro.Model.TypeAlg
import Retro.Lemmas.TypeAlg

namespace Retro.Props.C10
open Retro.TypeAlg
set_option linter.unusedSimpArgs false

/-! ## A. Soundness: accepted ⇒ no misuse -/

/-- Unary API entries: if the crate has an impl for this operand type, the use is not a misuse. -/
theorem ty1_sound (o : Op1) (x τ : Ty) (h : ty1 o x = some τ) : mis1 o x = none := by
  cases o <;> cases x <;>
    first
    | (simp_all [ty1, mis1, tyNeg, tyColour, Ty.isAngle, Ty.isScalar, Ty.space?, Ty.dim?, f32, projVec4]; done)
    | (rename_i t; cases t <;>
        simp_all [ty1, mis1, tyNeg, tyColour, Ty.isAngle, Ty.isScalar, Ty.space?, Ty.dim?, f32, projVec4]; done)

theorem add_sound (x y τ : Ty) (h : tyAdd x y = some τ) : mis2 .add x y = none := by
  cases x <;> simp [tyAdd] at h
  case sc s =>
    obtain ⟨rfl, rfl⟩ := h
    simp [mis2, tagClash, unitClash, Ty.space?, Ty.isPt, Ty.isAngle, Ty.isScalar]
  case angle =>
    obtain ⟨rfl, rfl⟩ := h
    simp [mis2, tagClash, unitClash, Ty.space?, Ty.isPt, Ty.isAngle, Ty.isScalar]
  case vec s n sp =>
    split at h <;> simp at h
    rename_i d hd
    rw [h.1]; exact mis2_diff .add (by simp) _ d hd
  case pt s n sp =>
    split at h <;> simp at h
    rename_i d hd
    rw [h.1]; exact mis2_diff .add (by simp) _ d hd

theorem sub_sound (x y τ : Ty) (h : tySub x y = some τ) : mis2 .sub x y = none := by
  cases x <;> simp [tySub] at h
  case sc s =>
    obtain ⟨rfl, rfl⟩ := h
    exact mis2_self .sub (by simp) _
  case angle =>
    obtain ⟨rfl, rfl⟩ := h
    exact mis2_self .sub (by simp) _
  case vec s n sp =>
    split at h <;> simp at h
    rename_i d hd
    rw [h.1]; exact mis2_diff .sub (by simp) _ d hd
  case pt s n sp =>
    cases hd : affineDiff (.pt s n sp) with
    | none => simp [hd] at h
    | some d =>
      simp only [hd] at h
      by_cases hy : y = d
      · rw [hy]; exact mis2_diff .sub (by simp) _ d hd
      · simp [hy] at h
        rw [h.1]; exact mis2_self .sub (by simp) _

theorem apply_sound (x y τ : Ty) (h : ty2 .apply x y = some τ) : mis2 .apply x y = none := by
  simp only [ty2] at h
  cases hs : applySig x with
  | none => simp [hs] at h
  | some p =>
    obtain ⟨arg, res⟩ := p
    simp [hs] at h
    obtain ⟨rfl, _⟩ := h
    unfold applySig at hs
    split at hs <;> simp at hs <;> obtain ⟨rfl, _⟩ := hs <;>
      simp [mis2, misApply, spaceClash, Ty.space?, Ty.dim?, Ty.isPt]

theorem applyPt_sound (x y τ : Ty) (h : ty2 .applyPt x y = some τ) : mis2 .applyPt x y = none := by
  simp only [ty2] at h
  cases hs : applyPtSig x with
  | none => simp [hs] at h
  | some p =>
    obtain ⟨arg, res⟩ := p
    simp [hs] at h
    obtain ⟨rfl, _⟩ := h
    unfold applyPtSig at hs
    split at hs <;> simp at hs <;> obtain ⟨rfl, _⟩ := hs <;>
      simp [mis2, misApply, spaceClash, Ty.space?, Ty.dim?, Ty.isPt]

theorem compose_sound (outer inner τ : Ty) (h : tyCompose outer inner = some τ) :
    misCompose outer inner = none := by
  unfold tyCompose at h
  split at h
  · rename_i n mo n' mi
    by_cases hn : n = n'
    · subst hn
      simp only [if_true, Option.map_eq_some_iff] at h
      obtain ⟨r, hr, _⟩ := h
      unfold composeMap at hr
      split at hr
      · simp at hr; obtain ⟨⟨rfl, rfl⟩, _⟩ := hr
        simp [misCompose, Tag.source?, Tag.dest?]
      · simp at hr; obtain ⟨⟨rfl, rfl⟩, _⟩ := hr
        simp [misCompose, Tag.source?, Tag.dest?]
      · simp at hr
    · simp [hn] at h
  · simp at h

/-- Binary API entries. -/
theorem ty2_sound (o : Op2) (x y τ : Ty) (h : ty2 o x y = some τ) : mis2 o x y = none := by
  cases o
  case add => exact add_sound x y τ h
  case sub => exact sub_sound x y τ h
  case mul => simp [mis2]
  case div => simp [mis2]
  case mMul => simp [mis2]
  case pairOf => simp [mis2]
  case mAdd =>
    simp only [ty2] at h
    split at h <;> simp at h
    rename_i d hd
    rw [h.1]; exact mis2_diff .mAdd (by simp) _ d hd
  case mSub =>
    simp only [ty2] at h
    split at h <;> simp at h
    rw [h.1]; exact mis2_self .mSub (by simp) _
  case dot =>
    simp only [ty2] at h
    split at h <;> simp at h
    rw [h.1.2]; exact mis2_self .dot (by simp) _
  case cross =>
    simp only [ty2] at h
    split at h <;> simp at h
    rw [h.1.2]; exact mis2_self .cross (by simp) _
  case distance =>
    simp only [ty2] at h
    split at h <;> simp at h
    rw [h.1.2]; exact mis2_self .distance (by simp) _
  case apply => exact apply_sound x y τ h
  case applyPt => exact applyPt_sound x y τ h
  case compose => simp only [ty2] at h; simpa [mis2] using compose_sound x y τ h
  case thn => simp only [ty2] at h; simpa [mis2] using compose_sound y x τ h
  case polar =>
    simp [ty2] at h
    obtain ⟨⟨rfl, rfl⟩, _⟩ := h
    simp [mis2, Ty.isAngle, Ty.isScalar, f32]
  case atan2 =>
    simp [ty2] at h
    obtain ⟨⟨rfl, rfl⟩, _⟩ := h
    simp [mis2, Ty.isAngle, f32]

/-- Ternary API entries. -/
theorem ty3_sound (o : Op3) (x y z τ : Ty) (h : ty3 o x y z = some τ) : mis3 o x y z = none := by
  cases o
  case lerp =>
    simp [ty3] at h
    obtain ⟨⟨_, rfl, rfl⟩, _⟩ := h
    simp [mis3, tagClash_self, unitClash_self, Ty.isAngle, f32]
  case spherical =>
    simp [ty3] at h
    obtain ⟨⟨rfl, rfl, rfl⟩, _⟩ := h
    simp [mis3, Ty.isAngle, Ty.isScalar, f32]

/-- **Soundness.**  If the tag algebra accepts a program (in any context), then no sub-expression of
it adds / subtracts / interpolates operands of different space, basis or dimension, adds two points,
applies a transform outside its source space, composes transforms with mismatching intermediate
space or in the wrong order, inverts / transposes / re-applies / composes-after a projective transform
as if it were affine, passes a bare number where an angle is required (or reads an angle's raw field),
converts a colour from the wrong space, or outputs a non-projective position from a vertex shader. -/
theorem infer_sound (Γ : Ctx) (e : Expr) : ∀ τ, infer Γ e = some τ → misuses Γ e = [] := by
  induction e with
  | var i => intro τ _; rfl
  | un o a iha =>
    intro τ h
    simp only [infer] at h
    cases ha : infer Γ a with
    | none => simp [ha] at h
    | some x =>
      simp only [ha] at h
      simp [misuses, ha, iha x ha, ty1_sound o x τ h]
  | bin o a b iha ihb =>
    intro τ h
    simp only [infer] at h
    cases ha : infer Γ a with
    | none => simp [ha] at h
    | some x =>
      cases hb : infer Γ b with
      | none => simp [ha, hb] at h
      | some y =>
        simp only [ha, hb] at h
        simp [misuses, ha, hb, iha x ha, ihb y hb, ty2_sound o x y τ h]
  | ter o a b c iha ihb ihc =>
    intro τ h
    simp only [infer] at h
    cases ha : infer Γ a with
    | none => simp [ha] at h
    | some x =>
      cases hb : infer Γ b with
      | none => simp [ha, hb] at h
      | some y =>
        cases hc : infer Γ c with
        | none => simp [ha, hb, hc] at h
        | some z =>
          simp only [ha, hb, hc] at h
          simp [misuses, ha, hb, hc, iha x ha, ihb y hb, ihc z hc, ty3_sound o x y z τ h]

/-- An accepted program is classified `accept`, never as a misuse. -/
theorem classify_accept (Γ : Ctx) (e : Expr) (τ : Ty) (h : infer Γ e = some τ) :
    classify Γ e = .accept τ := by
  simp [classify, h]

/-- The driver reports a misuse class only for programs the algebra rejects, and the class it
reports is committed by some sub-expression. -/
theorem classify_misuse (Γ : Ctx) (e : Expr) (m : Misuse) (h : classify Γ e = .misuse m) :
    infer Γ e = none ∧ m ∈ misuses Γ e := by
  unfold classify at h
  split at h
  · simp at h
  · rename_i hn
    split at h
    · rename_i m' rest hm
      simp at h; subst h
      exact ⟨hn, by simp [hm]⟩
    · simp at h

/-- `Commits Γ e m`: some sub-expression of `e` whose operands are all well-typed commits misuse `m`
(the same notion as `misuses`, as an inductive predicate over the sub-expression structure). -/
inductive Commits (Γ : Ctx) : Expr → Misuse → Prop where
  | unHere {o a x m} : infer Γ a = some x → mis1 o x = some m → Commits Γ (.un o a) m
  | unSub {o a m} : Commits Γ a m → Commits Γ (.un o a) m
  | binHere {o a b x y m} : infer Γ a = some x → infer Γ b = some y → mis2 o x y = some m →
      Commits Γ (.bin o a b) m
  | binL {o a b m} : Commits Γ a m → Commits Γ (.bin o a b) m
  | binR {o a b m} : Commits Γ b m → Commits Γ (.bin o a b) m
  | terHere {o a b c x y z m} : infer Γ a = some x → infer Γ b = some y → infer Γ c = some z →
      mis3 o x y z = some m → Commits Γ (.ter o a b c) m
  | terA {o a b c m} : Commits Γ a m → Commits Γ (.ter o a b c) m
  | terB {o a b c m} : Commits Γ b m → Commits Γ (.ter o a b c) m
  | terC {o a b c m} : Commits Γ c m → Commits Γ (.ter o a b c) m

theorem commits_mem (Γ : Ctx) (e : Expr) (m : Misuse) (h : Commits Γ e m) : m ∈ misuses Γ e := by
  induction h with
  | unHere ha hm => simp [misuses, ha, hm]
  | unSub _ ih => simp [misuses, ih]
  | binHere ha hb hm => simp [misuses, ha, hb, hm]
  | binL _ ih => simp [misuses, ih]
  | binR _ ih => simp [misuses, ih]
  | terHere ha hb hc hm => simp [misuses, ha, hb, hc, hm]
  | terA _ ih => simp [misuses, ih]
  | terB _ ih => simp [misuses, ih]
  | terC _ ih => simp [misuses, ih]

/-- Soundness, stated over the sub-expression structure: an accepted program commits no misuse. -/
theorem infer_sound_commits (Γ : Ctx) (e : Expr) (τ : Ty) (h : infer Γ e = some τ) (m : Misuse) :
    ¬ Commits Γ e m := by
  intro hc
  have := commits_mem Γ e m hc
  rw [infer_sound Γ e τ h] at this
  simp at this

end Retro.Props.C10
