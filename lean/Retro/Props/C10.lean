/-
C10 — mixing spaces, bases or units is a compile-time error.

The theorems are about the crate's *tag algebra* (`Retro/Model/TypeAlg.lean`: `infer`, `ty1/ty2/ty3`
transcribe the `impl` headers), not about rustc.  They are shallow by themselves; their weight comes
from the correspondence: the same `infer`/`classify` is what the driver runs on every enumerated
program, and rustc (type-checking against /repo/core) must agree with it program by program.

  A  `infer_sound`, `infer_sound_commits`   an accepted program contains no sub-expression that commits
       one of the property's misuses, the misuse predicates being defined on the tags only
  B  `*_iff`, `*_none`                       exact characterisations: accepted iff the tags match
  C  `twin_*`, `twin_accepts`               for each misuse class, the twin with matching tags or an
       explicit conversion is accepted
-/
import Retro.Model.TypeAlg
import Retro.Spec.TypeCorpus
import Retro.Lemmas.TypeAlg

namespace Retro.Props.C10
open Retro.TypeAlg
open Retro.TypeCorpus (Γ pairs Pair)
open Retro.TypeCorpus.V
set_option linter.unusedSimpArgs false

/-! ## A. Soundness: accepted ⇒ no misuse -/

/-- Unary API entries: if the crate has an impl for this operand type, the use is not a misuse. -/
theorem ty1_sound (o : Op1) (x τ : Ty) (h : ty1 o x = some τ) : mis1 o x = none := by
  by_cases hz : o = .compZ
  · subst hz
    simp only [ty1] at h
    split at h <;> simp [mis1] at h ⊢
  cases o <;>
    first
    | (simp [mis1]; done)     -- entries for which no operand is a misuse
    | (cases x <;>
        first
        | (simp_all [ty1, mis1, tyColour, Ty.isAngle, Ty.isScalar, Ty.space?, Ty.dim?, f32, projVec4]; done)
        | (rename_i t; cases t <;>
            simp_all [ty1, mis1, tyColour, Ty.isAngle, Ty.isScalar, Ty.space?, Ty.dim?, f32, projVec4]; done))

theorem add_sound (x y τ : Ty) (h : tyAdd x y = some τ) : mis2 .add x y = none := by
  cases x <;> simp [tyAdd] at h
  case sc s =>
    obtain ⟨rfl, rfl⟩ := h
    exact mis2_add_self .add (by simp) _ rfl
  case angle =>
    obtain ⟨rfl, rfl⟩ := h
    exact mis2_add_self .add (by simp) _ rfl
  case vec s n sp =>
    split at h <;> simp at h
    rename_i d hd
    rw [h.1]; exact mis2_diff .add (by simp) _ d hd
  case pt s n sp =>
    split at h <;> simp at h
    rename_i d hd
    rw [h.1]; exact mis2_diff .add (by simp) _ d hd

theorem sub_sound (x y τ : Ty) (h : tySub x y = some τ) : mis2 .sub x y = none := by
  cases x <;> simp [tySub] at h
  case sc s =>
    obtain ⟨rfl, rfl⟩ := h
    exact mis2_self .sub (by simp) _
  case angle =>
    obtain ⟨rfl, rfl⟩ := h
    exact mis2_self .sub (by simp) _
  case vec s n sp =>
    split at h <;> simp at h
    rename_i d hd
    rw [h.1]; exact mis2_diff .sub (by simp) _ d hd
  case pt s n sp =>
    cases hd : affineDiff (.pt s n sp) with
    | none => simp [hd] at h
    | some d =>
      simp only [hd] at h
      by_cases hy : y = d
      · rw [hy]; exact mis2_diff .sub (by simp) _ d hd
      · simp [hy] at h
        rw [h.1]; exact mis2_self .sub (by simp) _

theorem apply_sound (x y τ : Ty) (h : ty2 .apply x y = some τ) : mis2 .apply x y = none := by
  simp only [ty2] at h
  cases hs : applySig x with
  | none => simp [hs] at h
  | some p =>
    obtain ⟨arg, res⟩ := p
    simp [hs] at h
    obtain ⟨rfl, _⟩ := h
    unfold applySig at hs
    split at hs <;> simp at hs <;> obtain ⟨rfl, _⟩ := hs <;>
      simp [mis2, misApply, spaceClash, Ty.space?, Ty.dim?, Ty.isPt]

theorem applyPt_sound (x y τ : Ty) (h : ty2 .applyPt x y = some τ) : mis2 .applyPt x y = none := by
  simp only [ty2] at h
  cases hs : applyPtSig x with
  | none => simp [hs] at h
  | some p =>
    obtain ⟨arg, res⟩ := p
    simp [hs] at h
    obtain ⟨rfl, _⟩ := h
    unfold applyPtSig at hs
    split at hs <;> simp at hs <;> obtain ⟨rfl, _⟩ := hs <;>
      simp [mis2, misApply, spaceClash, Ty.space?, Ty.dim?, Ty.isPt]

theorem compose_sound (outer inner τ : Ty) (h : tyCompose outer inner = some τ) :
    misCompose outer inner = none := by
  unfold tyCompose at h
  split at h
  · rename_i n mo n' mi
    by_cases hn : n = n'
    · subst hn
      simp only [if_true, Option.map_eq_some_iff] at h
      obtain ⟨r, hr, _⟩ := h
      unfold composeMap at hr
      split at hr
      · simp at hr; obtain ⟨⟨rfl, rfl⟩, _⟩ := hr
        simp [misCompose, Tag.source?, Tag.dest?]
      · simp at hr; obtain ⟨⟨rfl, rfl⟩, _⟩ := hr
        simp [misCompose, Tag.source?, Tag.dest?]
      · simp at hr
    · simp [hn] at h
  · simp at h

/-- Binary API entries. -/
theorem ty2_sound (o : Op2) (x y τ : Ty) (h : ty2 o x y = some τ) : mis2 o x y = none := by
  cases o
  case add => exact add_sound x y τ h
  case sub => exact sub_sound x y τ h
  case mul => simp [mis2]
  case div => simp [mis2]
  case mMul => simp [mis2]
  case mulAssign => simp [mis2]
  case divAssign => simp [mis2]
  case pairOf => simp [mis2]
  case addAssign =>
    simp only [ty2] at h
    split at h
    · simp at h; obtain ⟨rfl, rfl⟩ := h
      exact mis2_add_self .addAssign (by simp) _ rfl
    · split at h <;> simp at h
      rename_i d hd
      rw [h.1]; exact mis2_diff .addAssign (by simp) _ d hd
    · split at h <;> simp at h
      rename_i d hd
      rw [h.1]; exact mis2_diff .addAssign (by simp) _ d hd
    · simp at h
  case subAssign =>
    simp only [ty2] at h
    split at h
    · simp at h; obtain ⟨rfl, rfl⟩ := h
      exact mis2_self .subAssign (by simp) _
    · split at h <;> simp at h
      rename_i d hd
      rw [h.1]; exact mis2_diff .subAssign (by simp) _ d hd
    · split at h <;> simp at h
      rename_i d hd
      rw [h.1]; exact mis2_diff .subAssign (by simp) _ d hd
    · simp at h
  case vproj =>
    simp only [ty2] at h
    split at h <;> simp at h
    rw [h.1.2]; exact mis2_self .vproj (by simp) _
  case sproj =>
    simp only [ty2] at h
    split at h <;> simp at h
    rw [h.1.2]; exact mis2_self .sproj (by simp) _
  case distanceSqr =>
    simp only [ty2] at h
    split at h <;> simp at h
    rw [h.1.2]; exact mis2_self .distanceSqr (by simp) _
  case rem =>
    simp only [ty2] at h
    split at h <;> simp at h
    · rw [h.1]; exact mis2_self .rem (by simp) _
    · rw [h.1]; exact mis2_self .rem (by simp) _
  case orientY =>
    simp [ty2] at h
    rw [h.1.2, h.1.1]; exact mis2_self .orientY (by simp) _
  case orientZ =>
    simp [ty2] at h
    rw [h.1.2, h.1.1]; exact mis2_self .orientZ (by simp) _
  case min =>
    simp only [ty2] at h
    split at h <;> simp at h
    · rw [h.1]; exact mis2_self .min (by simp) _
    · rw [h.1]; exact mis2_self .min (by simp) _
  case mAdd =>
    simp only [ty2] at h
    split at h <;> simp at h
    rename_i d hd
    rw [h.1]; exact mis2_diff .mAdd (by simp) _ d hd
  case mSub =>
    simp only [ty2] at h
    split at h <;> simp at h
    rw [h.1]; exact mis2_self .mSub (by simp) _
  case dot =>
    simp only [ty2] at h
    split at h <;> simp at h
    rw [h.1.2]; exact mis2_self .dot (by simp) _
  case cross =>
    simp only [ty2] at h
    split at h <;> simp at h
    rw [h.1.2]; exact mis2_self .cross (by simp) _
  case distance =>
    simp only [ty2] at h
    split at h <;> simp at h
    rw [h.1.2]; exact mis2_self .distance (by simp) _
  case apply => exact apply_sound x y τ h
  case applyPt => exact applyPt_sound x y τ h
  case compose => simp only [ty2] at h; simpa [mis2] using compose_sound x y τ h
  case thn => simp only [ty2] at h; simpa [mis2] using compose_sound y x τ h
  case polar =>
    simp [ty2] at h
    obtain ⟨⟨rfl, rfl⟩, _⟩ := h
    simp [mis2, Ty.isAngle, Ty.isScalar, f32]
  case atan2 =>
    simp [ty2] at h
    obtain ⟨⟨rfl, rfl⟩, _⟩ := h
    simp [mis2, Ty.isAngle, f32]

/-- Ternary API entries. -/
theorem ty3_sound (o : Op3) (x y z τ : Ty) (h : ty3 o x y z = some τ) : mis3 o x y z = none := by
  cases o
  case lerp =>
    simp [ty3] at h
    obtain ⟨⟨_, rfl, rfl⟩, _⟩ := h
    simp [mis3, tagClash_self, unitClash_self, Ty.isAngle, f32]
  case clamp =>
    simp only [ty3] at h
    split at h <;> simp at h
    · obtain ⟨⟨rfl, rfl⟩, _⟩ := h
      simp [mis3, tagClash_self]
    · obtain ⟨⟨_, rfl, rfl⟩, _⟩ := h
      simp [mis3, tagClash_self]
  case dvdt =>
    simp only [ty3] at h
    split at h <;> simp at h
    obtain ⟨⟨rfl, rfl⟩, _⟩ := h
    simp [mis3, tagClash_self, unitClash_self, Ty.isAngle, f32]
  case spherical =>
    simp [ty3] at h
    obtain ⟨⟨rfl, rfl, rfl⟩, _⟩ := h
    simp [mis3, Ty.isAngle, Ty.isScalar, f32]

/-- **Soundness.**  If the tag algebra accepts a program (in any context), then no sub-expression of
it adds / subtracts / interpolates operands of different space, basis or dimension, adds two points,
applies a transform outside its source space, composes transforms with mismatching intermediate
space or in the wrong order, inverts / transposes / re-applies / composes-after a projective transform
as if it were affine, passes a bare number where an angle is required (or reads an angle's raw field),
converts a colour from the wrong space, or outputs a non-projective position from a vertex shader. -/
theorem infer_sound (Γ : Ctx) (e : Expr) : ∀ τ, infer Γ e = some τ → misuses Γ e = [] := by
  induction e with
  | var i => intro τ _; rfl
  | un o a iha =>
    intro τ h
    simp only [infer] at h
    cases ha : infer Γ a with
    | none => simp [ha] at h
    | some x =>
      simp only [ha] at h
      simp [misuses, ha, iha x ha, ty1_sound o x τ h]
  | bin o a b iha ihb =>
    intro τ h
    simp only [infer] at h
    cases ha : infer Γ a with
    | none => simp [ha] at h
    | some x =>
      cases hb : infer Γ b with
      | none => simp [ha, hb] at h
      | some y =>
        simp only [ha, hb] at h
        simp [misuses, ha, hb, iha x ha, ihb y hb, ty2_sound o x y τ h]
  | ter o a b c iha ihb ihc =>
    intro τ h
    simp only [infer] at h
    cases ha : infer Γ a with
    | none => simp [ha] at h
    | some x =>
      cases hb : infer Γ b with
      | none => simp [ha, hb] at h
      | some y =>
        cases hc : infer Γ c with
        | none => simp [ha, hb, hc] at h
        | some z =>
          simp only [ha, hb, hc] at h
          simp [misuses, ha, hb, hc, iha x ha, ihb y hb, ihc z hc, ty3_sound o x y z τ h]

-- the hypothesis is satisfiable, e.g. by `m21.apply(&m12.apply(&v1))` in the corpus context …
example : infer Γ (.bin .apply m21 (.bin .apply m12 v1)) = some (.vec .f32 3 (.real 3 (.named 1))) := by decide
-- … and the conclusion is not vacuous: a rejected program does commit a misuse
example : misuses Γ (.bin .apply m21 (.bin .apply m21 v1)) = [.applySource] := by decide
example : ty1 .inverse (.mat 4 (.r2r 3 .unit (.named 1))) = some (.mat 4 (.r2r 3 (.named 1) .unit)) := by decide
example : ty2 .sub (.pt .f32 3 (.real 3 .unit)) (.pt .f32 3 (.real 3 .unit)) = some (.vec .f32 3 (.real 3 .unit)) := by
  decide
example : ty3 .lerp (.col .f32 3 .rgb) (.col .f32 3 .rgb) f32 = some (.col .f32 3 .rgb) := by decide

/-- An accepted program is classified `accept`, never as a misuse. -/
theorem classify_accept (Γ : Ctx) (e : Expr) (τ : Ty) (h : infer Γ e = some τ) :
    classify Γ e = .accept τ := by
  simp [classify, h]

/-- The driver reports a misuse class only for programs the algebra rejects, and the class it
reports is committed by some sub-expression. -/
theorem classify_misuse (Γ : Ctx) (e : Expr) (m : Misuse) (h : classify Γ e = .misuse m) :
    infer Γ e = none ∧ m ∈ misuses Γ e := by
  unfold classify at h
  split at h
  · simp at h
  · rename_i hn
    split at h
    · rename_i m' rest hm
      simp at h; subst h
      exact ⟨hn, by simp [hm]⟩
    · simp at h

example : classify Γ (.bin .add v1 v2) = .misuse .mixSpace := by decide

/-- `Commits Γ e m`: some sub-expression of `e` whose operands are all well-typed commits misuse `m`
(the same notion as `misuses`, as an inductive predicate over the sub-expression structure). -/
inductive Commits (Γ : Ctx) : Expr → Misuse → Prop where
  | unHere {o a x m} : infer Γ a = some x → mis1 o x = some m → Commits Γ (.un o a) m
  | unSub {o a m} : Commits Γ a m → Commits Γ (.un o a) m
  | binHere {o a b x y m} : infer Γ a = some x → infer Γ b = some y → mis2 o x y = some m →
      Commits Γ (.bin o a b) m
  | binL {o a b m} : Commits Γ a m → Commits Γ (.bin o a b) m
  | binR {o a b m} : Commits Γ b m → Commits Γ (.bin o a b) m
  | terHere {o a b c x y z m} : infer Γ a = some x → infer Γ b = some y → infer Γ c = some z →
      mis3 o x y z = some m → Commits Γ (.ter o a b c) m
  | terA {o a b c m} : Commits Γ a m → Commits Γ (.ter o a b c) m
  | terB {o a b c m} : Commits Γ b m → Commits Γ (.ter o a b c) m
  | terC {o a b c m} : Commits Γ c m → Commits Γ (.ter o a b c) m

theorem commits_mem (Γ : Ctx) (e : Expr) (m : Misuse) (h : Commits Γ e m) : m ∈ misuses Γ e := by
  induction h with
  | unHere ha hm => simp [misuses, ha, hm]
  | unSub _ ih => simp [misuses, ih]
  | binHere ha hb hm => simp [misuses, ha, hb, hm]
  | binL _ ih => simp [misuses, ih]
  | binR _ ih => simp [misuses, ih]
  | terHere ha hb hc hm => simp [misuses, ha, hb, hc, hm]
  | terA _ ih => simp [misuses, ih]
  | terB _ ih => simp [misuses, ih]
  | terC _ ih => simp [misuses, ih]

/-- Soundness, stated over the sub-expression structure: an accepted program commits no misuse. -/
theorem infer_sound_commits (Γ : Ctx) (e : Expr) (τ : Ty) (h : infer Γ e = some τ) (m : Misuse) :
    ¬ Commits Γ e m := by
  intro hc
  have := commits_mem Γ e m hc
  rw [infer_sound Γ e τ h] at this
  simp at this


example : Commits Γ (.un .len (.bin .add v1 v2)) .mixSpace :=
  .unSub (.binHere (x := .vec .f32 3 (.real 3 (.named 1))) (y := .vec .f32 3 (.real 3 (.named 2))) rfl rfl rfl)

/-! ## B. Exact characterisations: accepted iff the tags match -/

/-- `v + w` on vectors: accepted iff `w` has `v`'s space tag and component count (and the component
type `<Sc as Affine>::Diff`); the result is `v`'s type. -/
theorem vec_add_iff (s s' : Sc) (n n' : Nat) (sp sp' : Tag) (τ : Ty) :
    ty2 .add (.vec s n sp) (.vec s' n' sp') = some τ ↔
      (scAffineDiff s = some s' ∧ n = n' ∧ sp = sp' ∧ τ = .vec s n sp) := by
  cases s <;> cases s' <;> simp [ty2, tyAdd, affineDiff, scAffineDiff, scLinear] <;> grind

theorem vec_sub_iff (s s' : Sc) (n n' : Nat) (sp sp' : Tag) (τ : Ty) :
    ty2 .sub (.vec s n sp) (.vec s' n' sp') = some τ ↔
      (scAffineDiff s = some s' ∧ n = n' ∧ sp = sp' ∧ τ = .vec s n sp) := by
  cases s <;> cases s' <;> simp [ty2, tySub, affineDiff, scAffineDiff, scLinear] <;> grind

theorem vec_mAdd_iff (s s' : Sc) (n n' : Nat) (sp sp' : Tag) (τ : Ty) :
    ty2 .mAdd (.vec s n sp) (.vec s' n' sp') = some τ ↔
      (scAffineDiff s = some s' ∧ n = n' ∧ sp = sp' ∧ τ = .vec s n sp) := by
  cases s <;> cases s' <;> simp [ty2, affineDiff, scAffineDiff, scLinear] <;> grind

/-- `v.sub(&w)`: both of the same type. -/
theorem vec_mSub_iff (s s' : Sc) (n n' : Nat) (sp sp' : Tag) (τ : Ty) :
    ty2 .mSub (.vec s n sp) (.vec s' n' sp') = some τ ↔
      (∃ d, scAffineDiff s = some d ∧ s' = s ∧ n = n' ∧ sp = sp' ∧ τ = .vec d n sp) := by
  cases s <;> cases s' <;> simp [ty2, affineDiff, scAffineDiff, scLinear] <;> grind

theorem vec_dot_iff (s s' : Sc) (n n' : Nat) (sp sp' : Tag) (τ : Ty) :
    ty2 .dot (.vec s n sp) (.vec s' n' sp') = some τ ↔
      (scLinear s = true ∧ s' = s ∧ n = n' ∧ sp = sp' ∧ τ = .sc s) := by
  cases s <;> cases s' <;> simp [ty2, scLinear] <;> grind

/-- Interpolating two float vectors: accepted iff same space and dimension and `t: f32`. -/
theorem vec_lerp_iff (n n' : Nat) (sp sp' : Tag) (t τ : Ty) :
    ty3 .lerp (.vec .f32 n sp) (.vec .f32 n' sp') t = some τ ↔
      (n = n' ∧ sp = sp' ∧ t = f32 ∧ τ = .vec .f32 n sp) := by
  simp [ty3, lerpable, affineDiff, scAffineDiff, scLinear, linearScalar, f32]; grind

theorem pt_lerp_iff (n n' : Nat) (sp sp' : Tag) (t τ : Ty) :
    ty3 .lerp (.pt .f32 n sp) (.pt .f32 n' sp') t = some τ ↔
      (n = n' ∧ sp = sp' ∧ t = f32 ∧ τ = .pt .f32 n sp) := by
  simp [ty3, lerpable, affineDiff, scAffineDiff, scLinear, linearScalar, f32]; grind

/-- Interpolating two float colours: accepted iff same colour space and channel count. -/
theorem col_lerp_iff (n n' : Nat) (sp sp' : Tag) (t τ : Ty) :
    ty3 .lerp (.col .f32 n sp) (.col .f32 n' sp') t = some τ ↔
      (n = n' ∧ sp = sp' ∧ t = f32 ∧ τ = .col .f32 n sp) := by
  simp [ty3, lerpable, affineDiff, linearScalar, f32]; grind

theorem col_mAdd_iff (n n' : Nat) (sp sp' : Tag) (τ : Ty) :
    ty2 .mAdd (.col .f32 n sp) (.col .f32 n' sp') = some τ ↔
      (n = n' ∧ sp = sp' ∧ τ = .col .f32 n sp) := by
  simp [ty2, affineDiff]; grind

/-- Two points can never be added, whatever their tags (operator and `Affine::add`). -/
theorem pt_add_pt_none (s s' : Sc) (n n' : Nat) (sp sp' : Tag) :
    ty2 .add (.pt s n sp) (.pt s' n' sp') = none ∧ ty2 .mAdd (.pt s n sp) (.pt s' n' sp') = none := by
  cases s <;> simp [ty2, tyAdd, affineDiff, scLinear]

/-- point + vector: accepted iff same component type, space tag and component count. -/
theorem pt_add_vec_iff (s s' : Sc) (n n' : Nat) (sp sp' : Tag) (τ : Ty) :
    ty2 .add (.pt s n sp) (.vec s' n' sp') = some τ ↔
      (scLinear s = true ∧ s' = s ∧ n = n' ∧ sp = sp' ∧ τ = .pt s n sp) := by
  cases s <;> cases s' <;> simp [ty2, tyAdd, affineDiff, scLinear] <;> grind

/-- point − point: accepted iff same type; the result is the vector between them. -/
theorem pt_sub_pt_iff (s s' : Sc) (n n' : Nat) (sp sp' : Tag) (τ : Ty) :
    ty2 .sub (.pt s n sp) (.pt s' n' sp') = some τ ↔
      (scLinear s = true ∧ s' = s ∧ n = n' ∧ sp = sp' ∧ τ = .vec s n sp) := by
  cases s <;> cases s' <;> simp [ty2, tySub, affineDiff, scLinear] <;> grind

/-- A 4×4 affine map applies to exactly the 3-vectors of its source basis. -/
theorem apply4_iff (s d : Basis) (v τ : Ty) :
    ty2 .apply (.mat 4 (.r2r 3 s d)) v = some τ ↔
      (v = .vec .f32 3 (.real 3 s) ∧ τ = .vec .f32 3 (.real 3 d)) := by
  simp [ty2, applySig]; grind

theorem applyPt4_iff (s d : Basis) (v τ : Ty) :
    ty2 .applyPt (.mat 4 (.r2r 3 s d)) v = some τ ↔
      (v = .pt .f32 3 (.real 3 s) ∧ τ = .pt .f32 3 (.real 3 d)) := by
  simp [ty2, applyPtSig]; grind

theorem apply3_iff (s d : Basis) (v τ : Ty) :
    ty2 .apply (.mat 3 (.r2r 2 s d)) v = some τ ↔
      (v = .vec .f32 2 (.real 2 s) ∧ τ = .vec .f32 2 (.real 2 d)) := by
  simp [ty2, applySig]; grind

/-- A projective map applies to exactly the 3-points of its source basis and yields a `ProjVec4`;
it has no `apply_pt`, and its output cannot be fed to any `apply` / `apply_pt` again. -/
theorem applyProj_iff (s : Basis) (v τ : Ty) :
    ty2 .apply (.mat 4 (.r2p s)) v = some τ ↔ (v = .pt .f32 3 (.real 3 s) ∧ τ = projVec4) := by
  simp [ty2, applySig]; grind

theorem applyPt_proj_none (n : Nat) (s : Basis) (v : Ty) : ty2 .applyPt (.mat n (.r2p s)) v = none := by
  simp [ty2, applyPtSig]

theorem reapply_proj_none (m : Ty) : ty2 .apply m projVec4 = none ∧ ty2 .applyPt m projVec4 = none := by
  constructor
  · simp only [ty2]
    cases hs : applySig m with
    | none => rfl
    | some p =>
      obtain ⟨arg, res⟩ := p
      unfold applySig at hs
      split at hs <;> simp at hs <;> obtain ⟨rfl, _⟩ := hs <;> simp [projVec4]
  · simp only [ty2]
    cases hs : applyPtSig m with
    | none => rfl
    | some p =>
      obtain ⟨arg, res⟩ := p
      unfold applyPtSig at hs
      split at hs <;> simp at hs <;> obtain ⟨rfl, _⟩ := hs <;> simp [projVec4]

/-- Affine ∘ affine: accepted iff same matrix size and dimension and the inner map's destination
basis is the outer map's source basis. -/
theorem compose_r2r_iff (n n' k k' : Nat) (i' d s i : Basis) (τ : Ty) :
    ty2 .compose (.mat n (.r2r k i' d)) (.mat n' (.r2r k' s i)) = some τ ↔
      (n = n' ∧ k = k' ∧ i' = i ∧ τ = .mat n (.r2r k s d)) := by
  simp [ty2, tyCompose, composeMap]; grind

/-- Projective ∘ affine. -/
theorem compose_proj_iff (n n' k : Nat) (i' s i : Basis) (τ : Ty) :
    ty2 .compose (.mat n (.r2p i')) (.mat n' (.r2r k s i)) = some τ ↔
      (n = n' ∧ k = 3 ∧ i' = i ∧ τ = .mat n (.r2p s)) := by
  simp [ty2, tyCompose, composeMap]; grind

/-- Nothing can be composed after a projective map. -/
theorem compose_after_proj_none (n n' : Nat) (m : Tag) (s : Basis) :
    ty2 .compose (.mat n m) (.mat n' (.r2p s)) = none ∧ ty2 .thn (.mat n' (.r2p s)) (.mat n m) = none := by
  cases m <;> simp [ty2, tyCompose, composeMap]

/-- `a.then(&b)` is `b.compose(&a)`. -/
theorem then_eq_compose (x y : Ty) : ty2 .thn x y = ty2 .compose y x := rfl

theorem inverse_iff (x τ : Ty) :
    ty1 .inverse x = some τ ↔ ∃ s d, x = .mat 4 (.r2r 3 s d) ∧ τ = .mat 4 (.r2r 3 d s) := by
  constructor
  · intro h
    simp only [ty1] at h
    split at h <;> simp at h
    rename_i s d
    exact ⟨s, d, rfl, h.symm⟩
  · rintro ⟨s, d, rfl, rfl⟩; simp [ty1]

/-- A projective matrix has no `inverse`, `transpose` or `determinant`. -/
theorem proj_no_inverse (n : Nat) (s : Basis) :
    ty1 .inverse (.mat n (.r2p s)) = none ∧ ty1 .transpose (.mat n (.r2p s)) = none ∧
      ty1 .determinant (.mat n (.r2p s)) = none := by
  simp [ty1]

/-- `transpose` needs an array at least as large as the dimension of the map it is tagged with
(mat.rs:118, a `const` assertion evaluated at monomorphisation). -/
theorem transpose_iff (n k : Nat) (s d : Basis) (τ : Ty) :
    ty1 .transpose (.mat n (.r2r k s d)) = some τ ↔ (k ≤ n ∧ τ = .mat n (.r2r k d s)) := by
  simp [ty1]; grind

/-- … and a rejected transpose of an affine map is always classified `mix-dim`. -/
theorem transpose_reject_class (n k : Nat) (s d : Basis)
    (h : ty1 .transpose (.mat n (.r2r k s d)) = none) :
    mis1 .transpose (.mat n (.r2r k s d)) = some .mixDim := by
  have hlt : n < k := by
    apply Nat.lt_of_not_le
    intro hn
    simp [ty1, hn] at h
  simp [mis1, hlt]

example : ty1 .transpose (.mat 3 (.r2r 4 (.named 1) (.named 2))) = none := by decide

/-- The difference type of any `Affine` value carries the value's own space tag and component count
(so a difference taken in one space cannot be applied in another). -/
theorem affine_diff_keeps_tag (x d : Ty) (h : affineDiff x = some d) :
    d.space? = x.space? ∧ d.dim? = x.dim? :=
  ⟨(affineDiff_tags x d h).1, (affineDiff_tags x d h).2.1⟩

example : affineDiff (.col .u8 3 .hsl) = some (.vec .i32 3 .hsl) := by decide

/-- Functions that take an `Angle` accept nothing else; in particular no scalar. -/
theorem angle_param_iff (o : Op1) (ho : o = .rotateX ∨ o = .rotateY ∨ o = .rotateZ) (x τ : Ty) :
    ty1 o x = some τ ↔ (x = .angle ∧ τ = .mat 4 (.r2r 3 .unit .unit)) := by
  rcases ho with rfl | rfl | rfl <;> simp [ty1] <;> grind

/-- The only ways from a bare number to an `Angle` are the unit-naming constructors. -/
theorem angle_ctor_iff (o : Op1) (ho : o = .degs ∨ o = .rads ∨ o = .turns ∨ o = .asin ∨ o = .acos)
    (x τ : Ty) : ty1 o x = some τ ↔ (x = f32 ∧ τ = .angle) := by
  rcases ho with rfl | rfl | rfl | rfl | rfl <;> simp [ty1] <;> grind

/-- `Angle(x)` never type-checks, `a.0` is not available on an `Angle`, and `Angle::from` accepts only
an `Angle`. -/
theorem angle_opaque (x τ : Ty) :
    ty1 .angleCtor x = none ∧ ty1 .field0 .angle = none ∧
      (ty1 .angleFrom x = some τ ↔ (x = .angle ∧ τ = .angle)) := by
  refine ⟨by simp [ty1], by simp [ty1], ?_⟩
  simp [ty1]; grind

theorem polar_iff (x y τ : Ty) :
    ty2 .polar x y = some τ ↔ (x = f32 ∧ y = .angle ∧ τ = .vec .f32 2 .polar) := by
  simp [ty2]; grind

/-- The vertex shader handed to `render` must output a `ProjVec4`. -/
theorem render_iff (x τ : Ty) : ty1 .render x = some τ ↔ (x = projVec4 ∧ τ = .unit) := by
  simp [ty1]; grind

/-- Gamma conversions exist only from the right colour space. -/
theorem gamma_iff (x τ : Ty) :
    (ty1 .toLinear x = some τ ↔ (x = .col .f32 3 .rgb ∧ τ = .col .f32 3 .linRgb)) ∧
    (ty1 .toSrgb x = some τ ↔ (x = .col .f32 3 .linRgb ∧ τ = .col .f32 3 .rgb)) := by
  constructor
  · constructor
    · intro h
      simp only [ty1] at h
      split at h
      · unfold tyColour at h; split at h <;> simp_all
      · simp at h
    · rintro ⟨rfl, rfl⟩; simp [ty1, tyColour]
  · constructor
    · intro h
      simp only [ty1] at h
      split at h
      · unfold tyColour at h; split at h <;> simp_all
      · simp at h
    · rintro ⟨rfl, rfl⟩; simp [ty1, tyColour]

/-- The explicit conversions are always available and change only the tag. -/
theorem to_changes_tag_only (t sp : Tag) (s : Sc) (n : Nat) :
    ty1 (.to t) (.vec s n sp) = some (.vec s n t) ∧ ty1 (.to t) (.pt s n sp) = some (.pt s n t) ∧
      ty1 (.to t) (.mat n sp) = some (.mat n t) ∧ ty1 (.to t) (.col s n sp) = none := by
  simp [ty1]


theorem scLinear_diff (s : Sc) (hs : scLinear s = true) : scAffineDiff s = some s := by
  cases s <;> simp_all [scLinear, scAffineDiff]

/-! ### Rejections between like operands are exactly the misuses

For operands of the *same nominal kind and component type*, the only reason the algebra rejects is a
tag clash, and the classifier names it: there is no "ill-sorted" escape for these programs. -/

/-- vector ± vector (linear component type): rejected ⇒ classified `mix-space` or `mix-dim`. -/
theorem vec_add_reject_class (o : Op2) (ho : o = .add ∨ o = .sub ∨ o = .mAdd ∨ o = .mSub)
    (s : Sc) (hs : scLinear s = true) (n n' : Nat) (sp sp' : Tag)
    (h : ty2 o (.vec s n sp) (.vec s n' sp') = none) :
    mis2 o (.vec s n sp) (.vec s n' sp') = some .mixSpace ∨
      mis2 o (.vec s n sp) (.vec s n' sp') = some .mixDim := by
  have hne : ¬ (n = n' ∧ sp = sp') := by
    rintro ⟨rfl, rfl⟩
    have hd := scLinear_diff s hs
    rcases ho with rfl | rfl | rfl | rfl <;> simp [ty2, tyAdd, tySub, affineDiff, hd, hs] at h
  by_cases hsp : sp = sp'
  · subst hsp
    have hn : n ≠ n' := fun e => hne ⟨e, rfl⟩
    right
    rcases ho with rfl | rfl | rfl | rfl <;>
      simp [mis2, tagClash, tagClash0, Ty.space?, Ty.dim?, Ty.isPt, spaceClash, hn]
  · rcases ho with rfl | rfl | rfl | rfl <;>
      simp only [mis2, tagClash, tagClash0, Ty.space?, Ty.dim?, Ty.isPt, spaceClash, hsp] <;>
      (cases sp <;> cases sp' <;> simp <;> grind)

/-- `m.apply(&v)` with a 3-vector of some basis: rejected ⇒ classified `apply-outside-source`. -/
theorem apply_reject_class (s d s' : Basis)
    (h : ty2 .apply (.mat 4 (.r2r 3 s d)) (.vec .f32 3 (.real 3 s')) = none) :
    mis2 .apply (.mat 4 (.r2r 3 s d)) (.vec .f32 3 (.real 3 s')) = some .applySource := by
  have hne : s' ≠ s := by
    rintro rfl; simp [ty2, applySig] at h
  simp [mis2, misApply, Ty.space?, Ty.dim?, spaceClash, hne]

/-- affine ∘ affine of the same size and dimension: rejected ⇒ classified `compose-mismatch`. -/
theorem compose_reject_class (n k : Nat) (i' d s i : Basis)
    (h : ty2 .compose (.mat n (.r2r k i' d)) (.mat n (.r2r k s i)) = none) :
    mis2 .compose (.mat n (.r2r k i' d)) (.mat n (.r2r k s i)) = some .composeMismatch := by
  have hne : i' ≠ i := by
    rintro rfl; simp [ty2, tyCompose, composeMap] at h
  simp [mis2, misCompose, Tag.source?, Tag.dest?, hne]

/-- float-vector lerp with an `f32` parameter: rejected ⇒ classified `mix-space` or `mix-dim`. -/
theorem lerp_reject_class (n n' : Nat) (sp sp' : Tag)
    (h : ty3 .lerp (.vec .f32 n sp) (.vec .f32 n' sp') f32 = none) :
    mis3 .lerp (.vec .f32 n sp) (.vec .f32 n' sp') f32 = some .mixSpace ∨
      mis3 .lerp (.vec .f32 n sp) (.vec .f32 n' sp') f32 = some .mixDim := by
  have hne : ¬ (n = n' ∧ sp = sp') := by
    rintro ⟨rfl, rfl⟩
    simp [ty3, lerpable, affineDiff, scAffineDiff, scLinear, linearScalar, f32] at h
  by_cases hsp : sp = sp'
  · subst hsp
    have hn : n ≠ n' := fun e => hne ⟨e, rfl⟩
    right
    simp [mis3, tagClash, tagClash0, Ty.space?, Ty.dim?, spaceClash, hn]
  · simp only [mis3, tagClash, tagClash0, Ty.space?, Ty.dim?, spaceClash, hsp]
    cases sp <;> cases sp' <;> simp <;> grind

-- the hypotheses are satisfiable: v1 + v2, m12.apply(&v2), m12.compose(&m12), v1.lerp(&w1, s) are rejected
example : ty2 .add (.vec .f32 3 (.real 3 (.named 1))) (.vec .f32 3 (.real 3 (.named 2))) = none := by decide
example : ty2 .apply (.mat 4 (.r2r 3 (.named 1) (.named 2))) (.vec .f32 3 (.real 3 (.named 2))) = none := by decide
example : ty2 .compose (.mat 4 (.r2r 3 (.named 1) (.named 2))) (.mat 4 (.r2r 3 (.named 1) (.named 2))) = none := by
  decide
example : ty3 .lerp (.vec .f32 3 (.real 3 (.named 1))) (.vec .f32 2 (.real 2 (.named 1))) f32 = none := by decide

/-! ## C. Twins: for each misuse class, the program with matching tags or an explicit conversion
is accepted (statements over arbitrary contexts and arbitrary well-typed operand expressions) -/

section Twins
variable (Γ : Ctx)

/-- **mix-space / mix-dim, vectors**: `a + b`, `a - b`, `a.add(&b)` are accepted iff space tag and
dimension agree; with an explicit `b.to::<Sp>()` the space no longer matters. -/
theorem twin_vec_additive (a b : Expr) (o : Op2) (ho : o = .add ∨ o = .sub ∨ o = .mAdd)
    (s : Sc) (hs : scLinear s = true) (n n' : Nat) (sp sp' : Tag)
    (ha : infer Γ a = some (.vec s n sp)) (hb : infer Γ b = some (.vec s n' sp')) :
    (infer Γ (.bin o a b) = some (.vec s n sp) ↔ (n = n' ∧ sp = sp')) ∧
    (infer Γ (.bin o a b) = none ↔ ¬ (n = n' ∧ sp = sp')) ∧
    (n = n' → infer Γ (.bin o a (.un (.to sp) b)) = some (.vec s n sp)) := by
  have hd := scLinear_diff s hs
  rcases ho with rfl | rfl | rfl <;>
    simp [infer, ha, hb, ty1, ty2, tyAdd, tySub, affineDiff, hd, hs] <;> grind

-- hypotheses met by `v1`, `v2` of the corpus context
example := twin_vec_additive Retro.TypeCorpus.Γ v1 v2 .add (by simp) .f32 rfl 3 3 _ _ rfl rfl
example : infer Retro.TypeCorpus.Γ (.bin .add v1 v2) = none := by decide
example : infer Retro.TypeCorpus.Γ (.bin .add v1 (.un (.to (.real 3 (.named 1))) v2)) = some (.vec .f32 3 (.real 3 (.named 1))) := by
  decide

/-- **mix-space, interpolation**: `a.lerp(&b, t)` on float vectors. -/
theorem twin_vec_lerp (a b t : Expr) (n n' : Nat) (sp sp' : Tag)
    (ha : infer Γ a = some (.vec .f32 n sp)) (hb : infer Γ b = some (.vec .f32 n' sp'))
    (ht : infer Γ t = some f32) :
    (infer Γ (.ter .lerp a b t) = some (.vec .f32 n sp) ↔ (n = n' ∧ sp = sp')) ∧
    (infer Γ (.ter .lerp a b t) = none ↔ ¬ (n = n' ∧ sp = sp')) ∧
    (n = n' → infer Γ (.ter .lerp a (.un (.to sp) b) t) = some (.vec .f32 n sp)) := by
  simp [infer, ha, hb, ht, ty1, ty3, lerpable, affineDiff, scAffineDiff, scLinear, linearScalar, f32]
  grind

example := twin_vec_lerp Retro.TypeCorpus.Γ v1 v2 s 3 3 _ _ rfl rfl rfl

/-- **mix-space, colours**: colours of different spaces cannot be interpolated or added; the twin
converts explicitly (`Color` has no `to`, the conversion functions are the explicit conversion). -/
theorem twin_col_lerp (a b t : Expr)
    (ha : infer Γ a = some (.col .f32 3 .rgb)) (hb : infer Γ b = some (.col .f32 3 .hsl))
    (ht : infer Γ t = some f32) :
    infer Γ (.ter .lerp a b t) = none ∧ infer Γ (.bin .mAdd a b) = none ∧
    infer Γ (.un (.to .rgb) b) = none ∧
    infer Γ (.ter .lerp a (.un .toRgb b) t) = some (.col .f32 3 .rgb) ∧
    infer Γ (.bin .mAdd a (.un .toRgb b)) = some (.col .f32 3 .rgb) := by
  simp [infer, ha, hb, ht, ty1, ty2, ty3, tyColour, lerpable, affineDiff, linearScalar, f32]

example := twin_col_lerp Retro.TypeCorpus.Γ c1 c2 s rfl rfl rfl

/-- **mix-space through a difference**: `a.add(&b.sub(&c))` on 8-bit colours is accepted iff the
difference was taken in `a`'s own colour space (the `Diff` vector keeps the tag). -/
theorem twin_colour_diff (a b c : Expr) (n : Nat) (sp sp' : Tag)
    (ha : infer Γ a = some (.col .u8 n sp)) (hb : infer Γ b = some (.col .u8 n sp'))
    (hc : infer Γ c = some (.col .u8 n sp')) :
    (infer Γ (.bin .mAdd a (.bin .mSub b c)) = some (.col .u8 n sp) ↔ sp = sp') ∧
    (infer Γ (.bin .mAdd a (.bin .mSub b c)) = none ↔ sp ≠ sp') ∧
    infer Γ (.bin .mAdd a (.bin .mSub a a)) = some (.col .u8 n sp) := by
  simp [infer, ha, hb, hc, ty2, affineDiff]
  constructor
  · exact eq_comm
  · rw [eq_comm]

example := twin_colour_diff Retro.TypeCorpus.Γ c4 c5 c5 3 _ _ rfl rfl rfl

/-- **add-points**: `p + q` is rejected for every pair of points; the twins `p + (q - p)` and
`p + q.to_vec()` are accepted. -/
theorem twin_add_points (p q : Expr) (s : Sc) (hs : scLinear s = true) (n : Nat) (sp : Tag)
    (hp : infer Γ p = some (.pt s n sp)) (hq : infer Γ q = some (.pt s n sp)) :
    infer Γ (.bin .add p q) = none ∧ infer Γ (.bin .mAdd p q) = none ∧
    infer Γ (.bin .add p (.bin .sub q p)) = some (.pt s n sp) ∧
    infer Γ (.bin .add p (.un .toVec q)) = some (.pt s n sp) := by
  simp [infer, hp, hq, ty1, ty2, tyAdd, tySub, affineDiff, hs]

example := twin_add_points Retro.TypeCorpus.Γ p1 p1 .f32 rfl 3 _ rfl rfl

/-- **apply-outside-source**: `m.apply(&v)` is accepted iff `v` lives in the map's source basis;
`v.to::<Real<3, Src>>()` is the explicit twin. -/
theorem twin_apply (m v : Expr) (s d s' : Basis)
    (hm : infer Γ m = some (.mat 4 (.r2r 3 s d))) (hv : infer Γ v = some (.vec .f32 3 (.real 3 s'))) :
    (infer Γ (.bin .apply m v) = some (.vec .f32 3 (.real 3 d)) ↔ s' = s) ∧
    (infer Γ (.bin .apply m v) = none ↔ s' ≠ s) ∧
    infer Γ (.bin .apply m (.un (.to (.real 3 s)) v)) = some (.vec .f32 3 (.real 3 d)) := by
  simp [infer, hm, hv, ty1, ty2, applySig]

example := twin_apply Retro.TypeCorpus.Γ m12 v2 _ _ _ rfl rfl

theorem twin_apply_pt (m v : Expr) (s d s' : Basis)
    (hm : infer Γ m = some (.mat 4 (.r2r 3 s d))) (hv : infer Γ v = some (.pt .f32 3 (.real 3 s'))) :
    (infer Γ (.bin .applyPt m v) = some (.pt .f32 3 (.real 3 d)) ↔ s' = s) ∧
    (infer Γ (.bin .applyPt m v) = none ↔ s' ≠ s) ∧
    infer Γ (.bin .applyPt m (.un (.to (.real 3 s)) v)) = some (.pt .f32 3 (.real 3 d)) := by
  simp [infer, hm, hv, ty1, ty2, applyPtSig]

example := twin_apply_pt Retro.TypeCorpus.Γ m12 p2 _ _ _ rfl rfl

/-- **compose-mismatch**: `outer.compose(&inner)` is accepted iff the inner destination basis is the
outer source basis; `inner.then(&outer)` is the same program; an explicit `to` fixes the tags. -/
theorem twin_compose (outer inner : Expr) (n k : Nat) (i' d s i : Basis)
    (ho : infer Γ outer = some (.mat n (.r2r k i' d))) (hi : infer Γ inner = some (.mat n (.r2r k s i))) :
    (infer Γ (.bin .compose outer inner) = some (.mat n (.r2r k s d)) ↔ i' = i) ∧
    (infer Γ (.bin .compose outer inner) = none ↔ i' ≠ i) ∧
    infer Γ (.bin .thn inner outer) = infer Γ (.bin .compose outer inner) ∧
    infer Γ (.bin .compose outer (.un (.to (.r2r k s i')) inner)) = some (.mat n (.r2r k s d)) := by
  simp [infer, ho, hi, ty1, ty2, tyCompose, composeMap]

example := twin_compose Retro.TypeCorpus.Γ m12 m12 4 3 _ _ _ _ rfl rfl

/-- **wrong order**: for maps `f : S → I` and `g : I → D` with `S ≠ D`, `f.compose(&g)` is rejected
while `g.compose(&f)` and `f.then(&g)` are accepted. -/
theorem twin_compose_order (f g : Expr) (n k : Nat) (s i d : Basis) (hsd : d ≠ s)
    (hf : infer Γ f = some (.mat n (.r2r k s i))) (hg : infer Γ g = some (.mat n (.r2r k i d))) :
    infer Γ (.bin .compose f g) = none ∧
    infer Γ (.bin .compose g f) = some (.mat n (.r2r k s d)) ∧
    infer Γ (.bin .thn f g) = some (.mat n (.r2r k s d)) := by
  simp [infer, hf, hg, ty2, tyCompose, composeMap]
  intro h; exact absurd h.symm hsd

example := twin_compose_order Retro.TypeCorpus.Γ m12 m23 4 3 (.named 1) (.named 2) (.named 3) (by decide) rfl rfl

/-- **projective-as-affine**: a projective matrix cannot be inverted, transposed, applied with
`apply_pt`, applied twice, or have anything composed after it; the twins project a point once, or
re-tag the matrix explicitly before inverting. -/
theorem twin_projective (m p g : Expr) (s d : Basis) (tg : Tag)
    (hm : infer Γ m = some (.mat 4 (.r2p s))) (hp : infer Γ p = some (.pt .f32 3 (.real 3 s)))
    (hg : infer Γ g = some (.mat 4 tg)) :
    infer Γ (.un .inverse m) = none ∧ infer Γ (.un .transpose m) = none ∧
    infer Γ (.bin .applyPt m p) = none ∧ infer Γ (.bin .apply m (.bin .apply m p)) = none ∧
    infer Γ (.bin .compose g m) = none ∧ infer Γ (.bin .thn m g) = none ∧
    infer Γ (.bin .apply m p) = some projVec4 ∧
    infer Γ (.un .inverse (.un (.to (.r2r 3 s d)) m)) = some (.mat 4 (.r2r 3 d s)) := by
  have := (compose_after_proj_none 4 4 tg s)
  simp only [ty2] at this
  simp [infer, hm, hp, hg, ty1, ty2, applySig, applyPtSig, projVec4, this.1, this.2]

example := twin_projective Retro.TypeCorpus.Γ mp1 p1 m12 (.named 1) (.named 2) _ rfl rfl rfl

/-- **angle-unit**: a bare `f32` is rejected wherever an `Angle` is required and cannot be wrapped
by the tuple constructor or `From`; the twin names the unit. An `Angle`'s raw field is not readable;
the twin asks for a unit. -/
theorem twin_angle (x a : Expr) (hx : infer Γ x = some f32) (ha : infer Γ a = some .angle) :
    infer Γ (.un .rotateX x) = none ∧ infer Γ (.bin .polar x x) = none ∧
    infer Γ (.un .angleCtor x) = none ∧ infer Γ (.un .angleFrom x) = none ∧
    infer Γ (.un .field0 a) = none ∧ infer Γ (.bin .add a x) = none ∧
    infer Γ (.un .rotateX (.un .degs x)) = some (.mat 4 (.r2r 3 .unit .unit)) ∧
    infer Γ (.bin .polar x (.un .turns x)) = some (.vec .f32 2 .polar) ∧
    infer Γ (.un .toRads a) = some f32 ∧
    infer Γ (.bin .add a (.un .rads x)) = some .angle := by
  simp [infer, hx, ha, ty1, ty2, tyAdd, f32]

example := twin_angle Retro.TypeCorpus.Γ s a rfl rfl

/-- **colour-space**: gamma-expanding an HSL colour is rejected; converting to RGB first is accepted. -/
theorem twin_colour (c : Expr) (hc : infer Γ c = some (.col .f32 3 .hsl)) :
    infer Γ (.un .toLinear c) = none ∧ infer Γ (.un .toHsl c) = none ∧
    infer Γ (.un .toLinear (.un .toLinear (.un .toRgb c))) = none ∧
    infer Γ (.un .toLinear (.un .toRgb c)) = some (.col .f32 3 .linRgb) := by
  simp [infer, hc, ty1, tyColour]

example := twin_colour Retro.TypeCorpus.Γ c2 rfl

/-- **shader-output-space**: a vertex shader returning a model-space point or vector does not fit
`render`; one returning the projected point does. -/
theorem twin_shader (m p : Expr) (s : Basis)
    (hm : infer Γ m = some (.mat 4 (.r2p s))) (hp : infer Γ p = some (.pt .f32 3 (.real 3 s))) :
    infer Γ (.un .render p) = none ∧ infer Γ (.un .render (.un .toVec p)) = none ∧
    infer Γ (.un .render (.bin .apply m p)) = some .unit := by
  simp [infer, hm, hp, ty1, ty2, applySig, projVec4]

example := twin_shader Retro.TypeCorpus.Γ mp1 p1 (.named 1) rfl rfl

end Twins

/-- What "the twin is accepted" means for each misuse class (the conclusions of the `twin_*`
theorems above, restricted to the accepted half). -/
def Twin : Misuse → Prop
  | .mixSpace => ∀ (Γ : Ctx) (a b : Expr) (o : Op2), (o = .add ∨ o = .sub ∨ o = .mAdd) →
      ∀ (s : Sc), scLinear s = true → ∀ (n : Nat) (sp sp' : Tag),
        infer Γ a = some (.vec s n sp) → infer Γ b = some (.vec s n sp') →
        infer Γ (.bin o a (.un (.to sp) b)) = some (.vec s n sp)
  | .mixDim => ∀ (Γ : Ctx) (a b : Expr) (o : Op2), (o = .add ∨ o = .sub ∨ o = .mAdd) →
      ∀ (s : Sc), scLinear s = true → ∀ (n : Nat) (sp : Tag),
        infer Γ a = some (.vec s n sp) → infer Γ b = some (.vec s n sp) →
        infer Γ (.bin o a b) = some (.vec s n sp)
  | .addPoints => ∀ (Γ : Ctx) (p q : Expr) (s : Sc), scLinear s = true → ∀ (n : Nat) (sp : Tag),
      infer Γ p = some (.pt s n sp) → infer Γ q = some (.pt s n sp) →
      infer Γ (.bin .add p (.bin .sub q p)) = some (.pt s n sp)
  | .applySource => ∀ (Γ : Ctx) (m v : Expr) (s d s' : Basis),
      infer Γ m = some (.mat 4 (.r2r 3 s d)) → infer Γ v = some (.vec .f32 3 (.real 3 s')) →
      infer Γ (.bin .apply m (.un (.to (.real 3 s)) v)) = some (.vec .f32 3 (.real 3 d))
  | .composeMismatch => ∀ (Γ : Ctx) (outer inner : Expr) (n k : Nat) (i' d s i : Basis),
      infer Γ outer = some (.mat n (.r2r k i' d)) → infer Γ inner = some (.mat n (.r2r k s i)) →
      infer Γ (.bin .compose outer (.un (.to (.r2r k s i')) inner)) = some (.mat n (.r2r k s d))
  | .projAsAffine => ∀ (Γ : Ctx) (m p : Expr) (s d : Basis),
      infer Γ m = some (.mat 4 (.r2p s)) → infer Γ p = some (.pt .f32 3 (.real 3 s)) →
      infer Γ (.bin .apply m p) = some projVec4 ∧
      infer Γ (.un .inverse (.un (.to (.r2r 3 s d)) m)) = some (.mat 4 (.r2r 3 d s))
  | .angleUnit => ∀ (Γ : Ctx) (x : Expr), infer Γ x = some f32 →
      infer Γ (.un .rotateX (.un .degs x)) = some (.mat 4 (.r2r 3 .unit .unit))
  | .colourSpace => ∀ (Γ : Ctx) (c : Expr), infer Γ c = some (.col .f32 3 .hsl) →
      infer Γ (.un .toLinear (.un .toRgb c)) = some (.col .f32 3 .linRgb)
  | .shaderOutput => ∀ (Γ : Ctx) (m p : Expr) (s : Basis),
      infer Γ m = some (.mat 4 (.r2p s)) → infer Γ p = some (.pt .f32 3 (.real 3 s)) →
      infer Γ (.un .render (.bin .apply m p)) = some .unit

/-- **Twins.** For every misuse class the well-typed twin is accepted. -/
theorem twin_accepts (m : Misuse) : Twin m := by
  cases m
  case mixSpace =>
    intro Γ a b o ho s hs n sp sp' ha hb
    exact (twin_vec_additive Γ a b o ho s hs n n sp sp' ha hb).2.2 rfl
  case mixDim =>
    intro Γ a b o ho s hs n sp ha hb
    exact (twin_vec_additive Γ a b o ho s hs n n sp sp ha hb).1.mpr ⟨rfl, rfl⟩
  case addPoints =>
    intro Γ p q s hs n sp hp hq
    exact (twin_add_points Γ p q s hs n sp hp hq).2.2.1
  case applySource =>
    intro Γ m v s d s' hm hv
    exact (twin_apply Γ m v s d s' hm hv).2.2
  case composeMismatch =>
    intro Γ outer inner n k i' d s i ho hi
    exact (twin_compose Γ outer inner n k i' d s i ho hi).2.2.2
  case projAsAffine =>
    intro Γ m p s d hm hp
    have h := twin_projective Γ m p m s d (.r2p s) hm hp hm
    exact ⟨h.2.2.2.2.2.2.1, h.2.2.2.2.2.2.2⟩
  case angleUnit =>
    intro Γ x hx
    simp [infer, hx, ty1, f32]
  case colourSpace =>
    intro Γ c hc
    exact (twin_colour Γ c hc).2.2.2
  case shaderOutput =>
    intro Γ m p s hm hp
    exact (twin_shader Γ m p s hm hp).2.2

/-! ### The hand-written corpus (`Retro/Spec/TypeCorpus.lean`, compiled by rustc on every run) -/

/-- A corpus pair is well-formed for the model: the misuse is rejected with the stated class, the twin
is accepted. -/
def pairOk (p : Pair) : Bool :=
  classify Γ p.bad == .misuse p.cls &&
    (match classify Γ p.good with
     | .accept _ => true
     | _ => false)

/-- Every one of the corpus's minimal programs is rejected by the tag algebra with the misuse class
it is filed under, and its twin is accepted (a finite statement about the driver's context, by
evaluation). -/
theorem corpus_pairs_classified : pairs.all pairOk = true := by decide

/-- Every misuse class has a pair in the corpus. -/
theorem corpus_covers_classes :
    [Misuse.mixSpace, .mixDim, .addPoints, .applySource, .composeMismatch, .projAsAffine, .angleUnit,
      .colourSpace, .shaderOutput].all (fun m => pairs.any (fun p => p.cls == m)) = true := by decide

/-! ### Concrete programs (tests, not theorems) over the corpus context -/

-- v1 * v2 is rejected for no tag reason
example : classify Γ (.bin .mul v1 v2) = .other := by decide
-- m21.apply(&m12.apply(&v1)) : Vec3<B1>
example : classify Γ (.bin .apply m21 (.bin .apply m12 v1)) = .accept (.vec .f32 3 (.real 3 (.named 1))) := by
  decide
-- m23.compose(&m12) and m12.then(&m23) : B1 → B3
example : classify Γ (.bin .compose m23 m12) = .accept (.mat 4 (.r2r 3 (.named 1) (.named 3))) := by decide
example : classify Γ (.bin .thn m12 m23) = .accept (.mat 4 (.r2r 3 (.named 1) (.named 3))) := by decide
-- mp1.compose(&m21) : RealToProj<B2>
example : classify Γ (.bin .compose mp1 m21) = .accept (.mat 4 (.r2p (.named 2))) := by decide

end Retro.Props.C10
