/-
C11 — 2D buffers and views act as windows onto a plain 2D array.

Property theorems about `Retro.Model.Buf` (the definitions the driver `drv_c11` executes).
Helper lemmas: `Retro/Lemmas/Buf.lean`.  Sizes, strides, nesting depth are unbounded: everything is
by arithmetic / induction, nothing by enumeration.

Notation: a view `v = {w h stride off len}` over a root storage `root : List α`; its cell `(x, y)`
is the root element `off + y·stride + x`.
-/
import Retro.Model.Buf
import Retro.Spec.Grid
import Retro.Lemmas.Buf
import Retro.Lemmas.Grid
import Mathlib.Tactic.Linarith
import Mathlib.Tactic.SplitIfs

namespace Retro.Props.C11
open Retro Retro.Buf

/-! ## Constructors reject exactly the dimensions the data cannot hold -/

/-- `Inner::new` succeeds iff rows do not overlap (`w ≤ stride`) and the last row ends inside the
data: `h = 0 ∨ (h−1)·stride + w ≤ len`. The two middle assertions (`stride ≤ len`, `h ≤ len`) are
implied. The size is computed in `usize` (since 7b7718a), so there is no representability condition
and the statement holds in the release profile as well as with overflow checks. -/
theorem ctor_rejects (w h stride len : Nat) :
    innerNew w h stride len = .ok () ↔ Fits w h stride len := innerNew_ok_iff w h stride len

/-- … and otherwise it panics (never returns a view). -/
theorem ctor_rejects_panics (w h stride len : Nat) (hn : ¬ Fits w h stride len) :
    ∃ m, innerNew w h stride len = .panic m := by
  rcases innerNew_cases w h stride len with h | h
  · exact absurd ((innerNew_ok_iff _ _ _ _).mp h) hn
  · exact h

/-- The independent statement of "the data can hold the dimensions" used by the oracle
(`Spec.Grid.holds`) coincides with the model's acceptance — for all arguments. -/
theorem ctor_matches_spec (w h stride len : Nat) :
    innerNew w h stride len = .ok () ↔ Spec.Grid.holds w h stride len = true := by
  rw [innerNew_ok_iff]
  unfold Fits Spec.Grid.holds
  simp only [Bool.and_eq_true, Bool.or_eq_true, decide_eq_true_eq, beq_iff_eq]

/-- The release-build witness of the former `u32` size computation: a 1×65537 view with stride 65536
needs 65536·65536 + 1 elements; over 65537 elements it is rejected (the wrapped size was 1). -/
example : ¬ Fits 1 65537 65536 65537 ∧ (innerNew 1 65537 65536 65537).isOk = false := by decide

example : Fits 2 2 3 5 ∧ ¬ Fits 2 2 3 4 ∧ ¬ Fits 4 4 3 16 ∧ Fits 0 5 0 0 := by decide

/-- `Slice2::new` / `MutSlice2::new`: the view is the whole slice with the requested geometry. -/
theorem sliceNew_ok_iff (w h stride n : Nat) (v : View) :
    sliceNew w h stride n = .ok v ↔
      Fits w h stride n ∧ v = { w := w, h := h, stride := stride, off := 0, len := n } := by
  unfold sliceNew
  rcases innerNew_cases w h stride n with hk | ⟨m, hk⟩
  · have := (innerNew_ok_iff _ _ _ _).mp hk
    rw [hk]; simp [this, eq_comm]
  · have : ¬ Fits w h stride n := fun hf => by
      rw [(innerNew_ok_iff _ _ _ _).mpr hf] at hk; cases hk
    rw [hk]; simp [this]

/-- `Buf2::new((w, h))` never panics when `w·h` fits `u32`; it yields `w·h` default elements,
stride `w`. -/
theorem buf2New_ok {α : Type} (w h : Nat) (d : α) (hwh : w * h < 4294967296) :
    buf2New w h d = .ok ({ w := w, h := h, stride := w, off := 0, len := w * h }, List.replicate (w * h) d) := by
  have hf : Fits w h w (w * h) := by
    refine ⟨Nat.le_refl _, ?_⟩
    rcases Nat.eq_zero_or_pos h with h0 | hp
    · exact Or.inl h0
    · right
      have : (h - 1) * w + w = w * h := by
        have : h = (h - 1) + 1 := by omega
        conv_rhs => rw [this]
        rw [Nat.mul_succ, Nat.mul_comm]
      omega
  simp [buf2New, mulU32, hwh, (innerNew_ok_iff _ _ _ _).mpr hf]

/-- `Buf2::new` panics (multiplication overflow) rather than building a wrong buffer otherwise. -/
theorem buf2New_overflow_panics {α : Type} (w h : Nat) (d : α) (hwh : ¬ w * h < 4294967296) :
    ∃ m, buf2New w h d = .panic m := ⟨_, by simp [buf2New, mulU32, hwh]; rfl⟩

/-! ## Reads refine the plain array: cell `(x, y)` of a view is root element `off + y·stride + x` -/

section Reads
variable {α : Type}

/-- `to_index_checked` on a valid view: in-bounds coordinates give the linear index, without overflow. -/
theorem toIndexChecked_inside {v : View} (hf : Fits v.w v.h v.stride v.len) {x y : Nat}
    (hx : x < v.w) (hy : y < v.h) : toIndexChecked v x y = .ok (some (y * v.stride + x)) := by
  simp [toIndexChecked, hx, hy, (toIndex_inside hf hx hy).1]

theorem toIndexChecked_outside (v : View) {x y : Nat} (h : ¬ (x < v.w ∧ y < v.h)) :
    toIndexChecked v x y = .ok none := by
  simp [toIndexChecked, h]

/-- The root element a cell denotes exists. -/
theorem cell_exists (root : List α) (v : View) (hv : ViewInv root.length v) {x y : Nat}
    (hx : x < v.w) (hy : y < v.h) : ∃ a, root[v.off + (y * v.stride + x)]? = some a := by
  have := (toIndex_inside hv.1 hx hy).2
  have hlt : v.off + (y * v.stride + x) < root.length := by have := hv.2; omega
  exact ⟨root[v.off + (y * v.stride + x)], List.getElem?_eq_getElem hlt⟩

theorem dataAt_inside (root : List α) (v : View) {i : Nat} (hi : i < v.len)
    {a : α} (ha : root[v.off + i]? = some a) : dataAt root v i = .ok a := by
  simp [dataAt, viewData_getElem? root v i hi, ha]

/-- **get_refines.** `get` inside the bounds returns the root element `off + y·stride + x`. -/
theorem get_refines (root : List α) (v : View) (hv : ViewInv root.length v) {x y : Nat}
    (hx : x < v.w) (hy : y < v.h) :
    ∃ a, root[v.off + (y * v.stride + x)]? = some a ∧ Buf.get root v x y = .ok (some a) := by
  obtain ⟨a, ha⟩ := cell_exists root v hv hx hy
  refine ⟨a, ha, ?_⟩
  simp [Buf.get, toIndexChecked_inside hv.1 hx hy, dataAt_inside root v (toIndex_inside hv.1 hx hy).2 ha]

/-- `get` outside the bounds is `None` — for every view, valid or not. -/
theorem get_oob_none (root : List α) (v : View) {x y : Nat} (h : ¬ (x < v.w ∧ y < v.h)) :
    Buf.get root v x y = .ok none := by
  simp [Buf.get, toIndexChecked_outside v h]

/-- **index_refines.** `view[(x, y)]` inside the bounds returns the same root element. -/
theorem index_refines (root : List α) (v : View) (hv : ViewInv root.length v) {x y : Nat}
    (hx : x < v.w) (hy : y < v.h) :
    ∃ a, root[v.off + (y * v.stride + x)]? = some a ∧ indexPt root v x y = .ok a := by
  obtain ⟨a, ha⟩ := cell_exists root v hv hx hy
  refine ⟨a, ha, ?_⟩
  simp [indexPt, toIndexStrict, toIndexChecked_inside hv.1 hx hy,
    dataAt_inside root v (toIndex_inside hv.1 hx hy).2 ha]

/-- `view[(x, y)]` outside the bounds panics — for every view. -/
theorem index_oob_panics (root : List α) (v : View) {x y : Nat} (h : ¬ (x < v.w ∧ y < v.h)) :
    indexPt root v x y = .panic "position out of bounds" := by
  simp [indexPt, toIndexStrict, toIndexChecked_outside v h]

example : ViewInv 9 { w := 2, h := 2, stride := 3, off := 1, len := 5 } := by decide

/-- Row `y` of a view as a window of the root storage. -/
def rowOf (root : List α) (v : View) (y : Nat) : List α := (root.drop (v.off + y * v.stride)).take v.w

theorem rowOf_length (root : List α) (v : View) (hv : ViewInv root.length v) {y : Nat} (hy : y < v.h) :
    (rowOf root v y).length = v.w := by
  rcases Nat.eq_zero_or_pos v.w with h0 | hp
  · simp [rowOf, h0]
  · have := (toIndex_inside hv.1 (x := v.w - 1) (by omega) hy).2
    have := hv.2
    simp [rowOf]; omega

/-- Element `x` of row `y` is cell `(x, y)`. -/
theorem rowOf_getElem? (root : List α) (v : View) (x y : Nat) (hx : x < v.w) :
    (rowOf root v y)[x]? = root[v.off + (y * v.stride + x)]? := by
  simp [rowOf, hx, Nat.add_assoc]

theorem readRange_inside (root : List α) (v : View) (hv : ViewInv root.length v) {start n : Nat}
    (h : start + n ≤ v.len) : readRange root v start n = .ok ((root.drop (v.off + start)).take n) := by
  have := hv.2
  simp only [readRange, viewData_window root v start n h]
  rw [if_pos]
  simp; omega

/-- **row_refines.** `view[y]` for `y < height` (non-zero width) is row `y`: the `w` root elements
starting at `off + y·stride`. (`hh`: the height is a `u32`, so every `y < height` survives
`u32::try_from`.) -/
theorem row_refines (root : List α) (v : View) (hv : ViewInv root.length v) (hw : 0 < v.w)
    (hh : v.h < 4294967296) {y : Nat}
    (hy : y < v.h) : rowIndex root v y = .ok (rowOf root v y) ∧ (rowOf root v y).length = v.w := by
  refine ⟨?_, rowOf_length root v hv hy⟩
  have hy32 : y < 4294967296 := by omega
  have hi := toIndex_inside hv.1 (x := v.w - 1) (by omega) hy
  have h0 := toIndexChecked_inside hv.1 hw hy
  have hle : y * v.stride + v.w ≤ v.len := by omega
  have c1 : ¬ (y * v.stride > v.len) := by omega
  have c2 : ¬ (v.w > v.len - y * v.stride) := by omega
  simp only [rowIndex, rowWindow, hy32, if_true, toIndexStrict, h0, Nat.add_zero, c1, c2, if_false]
  exact readRange_inside root v hv hle

/-- A row index `≥ height` panics — including indices beyond `u32` (no truncation). `h < 2^32`
holds of every Rust value of the field. -/
theorem row_oob_panics (root : List α) (v : View) (hh : v.h < 4294967296) {i : Nat} (hi : v.h ≤ i) :
    rowIndex root v i = .panic "position out of bounds" := by
  have : ¬ (0 < v.w ∧ (if i < 4294967296 then i else 4294967295) < v.h) := by
    split_ifs <;> omega
  simp [rowIndex, rowWindow, toIndexStrict, toIndexChecked_outside v this]

/-- Zero-width views: row indexing panics for *every* row (`to_index_strict(0, y)` needs `0 < w`).
The property carves zero-width views out of "agrees with row indexing"; recorded, not a finding. -/
theorem row_zero_width_panics (root : List α) (v : View) (hw : v.w = 0) (i : Nat) :
    rowIndex root v i = .panic "position out of bounds" := by
  have : ¬ (0 < v.w ∧ (if i < 4294967296 then i else 4294967295) < v.h) := by omega
  simp [rowIndex, rowWindow, toIndexStrict, toIndexChecked_outside v this]

end Reads

/-! ## Slicing: absolute window arithmetic, totality inside the bounds, panics outside -/

/-- Left, top, right, bottom of a `Rect` on a view (unbounded sides default to the view's edges). -/
def rcL (rc : Rect) : Nat := rc.left.getD 0
def rcT (rc : Rect) : Nat := rc.top.getD 0
def rcR (rc : Rect) (v : View) : Nat := rc.right.getD v.w
def rcB (rc : Rect) (v : View) : Nat := rc.bottom.getD v.h

/-- The rectangle lies inside the view: `l ≤ r ≤ w` and `t ≤ b ≤ h` (empty rectangles at the far
edges included, exactly as for `&s[a..b]`). -/
def Inside (rc : Rect) (v : View) : Prop :=
  rcL rc ≤ rcR rc v ∧ rcR rc v ≤ v.w ∧ rcT rc ≤ rcB rc v ∧ rcB rc v ≤ v.h

instance (rc : Rect) (v : View) : Decidable (Inside rc v) := by unfold Inside; infer_instance

/-- The view `slice` returns for a rectangle inside the bounds. -/
def childOf (v : View) (rc : Rect) : View :=
  if rcB rc v = rcT rc then
    { w := rcR rc v - rcL rc, h := 0, stride := v.stride, off := v.off, len := 0 }
  else
    { w := rcR rc v - rcL rc, h := rcB rc v - rcT rc, stride := v.stride,
      off := v.off + (rcT rc * v.stride + rcL rc),
      len := ((rcB rc v - 1) * v.stride + rcR rc v) - (rcT rc * v.stride + rcL rc) }

/-- **slice_total + view_inv preservation.** On a valid view every rectangle inside the bounds
slices without panic; the result is the absolute window `childOf` and is again valid
(for the same root storage). Holds for `slice` and `slice_mut` (same model function). -/
theorem slice_total (n : Nat) (v : View) (hv : ViewInv n v) (rc : Rect) (hin : Inside rc v) :
    Buf.slice v rc = .ok (childOf v rc) ∧ ViewInv n (childOf v rc) := by
  obtain ⟨⟨hws, hsz⟩, hroot⟩ := hv
  obtain ⟨hlr, hrw, htb, hbh⟩ := hin
  simp only [rcL, rcT, rcR, rcB] at hlr hrw htb hbh
  by_cases hbt : rc.bottom.getD v.h = rc.top.getD 0
  · -- zero height: early return, empty data
    have hf : Fits (rc.right.getD v.w - rc.left.getD 0) 0 v.stride 0 := ⟨by omega, Or.inl rfl⟩
    have e : childOf v rc = { w := rc.right.getD v.w - rc.left.getD 0, h := 0, stride := v.stride, off := v.off, len := 0 } := by
      simp [childOf, rcL, rcT, rcR, rcB, hbt]
    rw [e]
    refine ⟨?_, hf, by simpa using (by omega : v.off ≤ n)⟩
    have hth : ¬ v.h < rc.top.getD 0 := by omega
    simp [Buf.slice, resolveBounds, hlr, hrw, htb, hbh, hbt, hth, sliceRangeCheck, (innerNew_ok_iff _ _ _ _).mpr hf]
  · generalize hl : rc.left.getD 0 = l at *
    generalize ht : rc.top.getD 0 = t at *
    generalize hr : rc.right.getD v.w = r at *
    generalize hb : rc.bottom.getD v.h = b at *
    have hh0 : v.h ≠ 0 := by omega
    have hlen : (v.h - 1) * v.stride + v.w ≤ v.len := by
      rcases hsz with h0 | h; exact absurd h0 hh0; exact h
    have mA : t * v.stride ≤ (b - 1) * v.stride := Nat.mul_le_mul_right _ (by omega)
    have mB : (b - 1) * v.stride ≤ (v.h - 1) * v.stride := Nat.mul_le_mul_right _ (by omega)
    have mC : (b - t - 1) * v.stride = (b - 1) * v.stride - t * v.stride := by
      rw [show b - t - 1 = b - 1 - t by omega, Nat.sub_mul]
    have hstart : toIndex v l t = .ok (t * v.stride + l) := rfl
    have hstop : toIndex v r (b - 1) = .ok ((b - 1) * v.stride + r) := rfl
    have hf : Fits (r - l) (b - t) v.stride ((b - 1) * v.stride + r - (t * v.stride + l)) :=
      ⟨by omega, Or.inr (by omega)⟩
    have e : childOf v rc = ⟨r - l, b - t, v.stride, v.off + (t * v.stride + l), (b - 1) * v.stride + r - (t * v.stride + l)⟩ := by
      simp [childOf, rcL, rcT, rcR, rcB, hl, ht, hr, hb, hbt]
    rw [e]
    refine ⟨?_, hf, by simp only; omega⟩
    have c1 : ¬ (t * v.stride + l > v.len) := by omega
    have c2 : ¬ ((b - 1) * v.stride + r > v.len) := by omega
    have c3 : ¬ (t * v.stride + l > (b - 1) * v.stride + r) := by omega
    simp [Buf.slice, resolveBounds, hl, ht, hr, hb, hlr, hrw, htb, hbh, hbt, hstart, hstop, sliceRangeCheck,
      c1, c2, c3, (innerNew_ok_iff _ _ _ _).mpr hf]

example : Inside (Rect.ofCorners 1 0 3 2) { w := 3, h := 2, stride := 3, off := 0, len := 6 } := by decide

/-- A rectangle that is not inside the bounds makes `slice`/`slice_mut` panic — for every view. -/
theorem slice_outside_panics (v : View) (rc : Rect) (hout : ¬ Inside rc v) :
    ∃ m, Buf.slice v rc = .panic m := by
  unfold Inside rcL rcT rcR rcB at hout
  simp only [Buf.slice, resolveBounds]
  split_ifs <;> first | exact ⟨_, rfl⟩ | (exfalso; omega)

/-- Hence on valid views: `slice` succeeds exactly on the rectangles inside the bounds. -/
theorem slice_ok_iff (n : Nat) (v : View) (hv : ViewInv n v) (rc : Rect) :
    (∃ c, Buf.slice v rc = .ok c) ↔ Inside rc v := by
  constructor
  · rintro ⟨c, hc⟩
    by_contra hout
    obtain ⟨m, hm⟩ := slice_outside_panics v rc hout
    rw [hm] at hc; cases hc
  · intro hin; exact ⟨_, (slice_total n v hv rc hin).1⟩

/-! ### Range forms (rect.rs): every spelling denotes the half-open rectangle one expects -/

/-- Inclusive lower end of a start bound / exclusive upper end of an end bound, in unbounded arithmetic. -/
def lowerOf : Bound → Option Nat
  | .incl x => some x
  | .excl x => some (x + 1)
  | .unb => none
def upperOf : Bound → Option Nat
  | .incl x => some (x + 1)
  | .excl x => some x
  | .unb => none

/-- A bound is a `u32` and its resolved value is representable. -/
def BoundOk (b : Option Nat) : Prop := ∀ x, b = some x → x < 4294967296

/-- `Rect::from((h, v))` for any pair of `RangeBounds<u32>` (`a..b`, `a..=b`, `a..`, `..b`, `..=b`,
`..`, and `(Bound, Bound)` pairs): `left/top` are the inclusive starts, `right/bottom` the exclusive
ends — provided `x + 1` does not overflow (`..=u32::MAX` panics, see `ofBounds_overflow_panics`). -/
theorem ofBounds_spec (hs he vs ve : Bound)
    (h1 : BoundOk (lowerOf hs)) (h2 : BoundOk (lowerOf vs)) (h3 : BoundOk (upperOf he)) (h4 : BoundOk (upperOf ve)) :
    Rect.ofBounds hs he vs ve =
      .ok { left := lowerOf hs, top := lowerOf vs, right := upperOf he, bottom := upperOf ve } := by
  have lo : ∀ b, BoundOk (lowerOf b) → resolveBound b 0 1 = .ok (lowerOf b) := by
    intro b hb
    cases b with
    | incl x => have := hb x rfl; simp [resolveBound, addU32, lowerOf, this]
    | excl x => have := hb (x + 1) rfl; simp [resolveBound, addU32, lowerOf, this]
    | unb => rfl
  have up : ∀ b, BoundOk (upperOf b) → resolveBound b 1 0 = .ok (upperOf b) := by
    intro b hb
    cases b with
    | incl x => have := hb (x + 1) rfl; simp [resolveBound, addU32, upperOf, this]
    | excl x => have := hb x rfl; simp [resolveBound, addU32, upperOf, this]
    | unb => rfl
  simp [Rect.ofBounds, lo hs h1, lo vs h2, up he h3, up ve h4]

example : BoundOk (lowerOf (.excl 3)) ∧ BoundOk (upperOf (.incl 7)) ∧ BoundOk (upperOf .unb) := by
  refine ⟨?_, ?_, ?_⟩ <;> intro x hx <;> simp [lowerOf, upperOf] at hx <;> omega

/-- `..=u32::MAX` (or an excluded start at `u32::MAX`) panics on the `+ 1` instead of wrapping to 0. -/
theorem ofBounds_overflow_panics (he vs ve : Bound) :
    ∃ m, Rect.ofBounds (.excl 4294967295) he vs ve = .panic m :=
  ⟨"attempt to add with overflow", by simp [Rect.ofBounds, resolveBound, addU32]⟩

/-! ## The invariant holds of every view the API can produce (any nesting depth) -/

/-- Views obtainable over a root storage of `n` elements: `Slice2::new`/`MutSlice2::new` on the
storage (this is also what `Buf2::new*` call, see `buf2New_reachable`), then any number of
successful `slice`/`slice_mut`/`as_slice2`/`as_mut_slice2`. -/
inductive Reachable (n : Nat) : View → Prop
  | root {w h s : Nat} {v : View} : sliceNew w h s n = .ok v → Reachable n v
  | slice {v c : View} {rc : Rect} : Reachable n v → Buf.slice v rc = .ok c → Reachable n c
  | asSlice {v c : View} : Reachable n v → asSlice v = .ok c → Reachable n c

/-- **view_inv.** Every reachable view satisfies the invariant: rows do not overlap, the last row
ends inside the view's data, and the data lies inside the root storage. -/
theorem reachable_inv {n : Nat} {v : View} (hr : Reachable n v) : ViewInv n v := by
  induction hr with
  | root h =>
    obtain ⟨hf, rfl⟩ := (sliceNew_ok_iff _ _ _ _ _).mp h
    exact ⟨hf, by simp⟩
  | @slice v c rc _ hs ih =>
    have hin : Inside rc v := (slice_ok_iff n v ih rc).mp ⟨c, hs⟩
    obtain ⟨h1, h2⟩ := slice_total n v ih rc hin
    rw [h1] at hs
    cases hs
    exact h2
  | @asSlice v c _ hs ih =>
    unfold asSlice at hs
    rw [(innerNew_ok_iff _ _ _ _).mpr ih.1] at hs
    cases hs
    exact ih

/-- `as_slice2`/`as_mut_slice2` of a valid view is the same window. -/
theorem asSlice_id {n : Nat} {v : View} (hv : ViewInv n v) : asSlice v = .ok v := by
  simp [asSlice, (innerNew_ok_iff _ _ _ _).mpr hv.1]

/-- The view of `Buf2::new((w, h))` is reachable over its own vector. -/
theorem buf2New_reachable {α : Type} {w h : Nat} {d : α} {v : View} {root : List α}
    (hb : buf2New w h d = .ok (v, root)) : Reachable root.length v := by
  by_cases hwh : w * h < 4294967296
  · rw [buf2New_ok w h d hwh] at hb
    cases hb
    refine Reachable.root (w := w) (h := h) (s := w) ?_
    have := buf2New_ok w h d hwh
    simp only [buf2New, mulU32, hwh, if_true] at this
    cases hi : innerNew w h w (w * h) with
    | ok u => simp [sliceNew, hi]
    | panic m => rw [hi] at this; cases this
  · obtain ⟨m, hm⟩ := buf2New_overflow_panics w h d hwh
    rw [hm] at hb; cases hb

/-- `Buf2::new_from((w, h), init)` succeeds iff the iterator has at least `w·h` items (and the count
is representable); the buffer holds exactly the first `w·h` of them, stride `w`. -/
theorem buf2NewFrom_ok_iff {α : Type} (w h : Nat) (init : List α) (hwh : w * h < 4294967296) (v : View) (root : List α) :
    buf2NewFrom w h init = .ok (v, root) ↔
      w * h ≤ init.length ∧ root = init.take (w * h) ∧ v = { w := w, h := h, stride := w, off := 0, len := w * h } := by
  have hf : Fits w h w (w * h) := by
    have := buf2New_ok w h (0 : Nat) hwh
    simp only [buf2New, mulU32, hwh, if_true] at this
    cases hi : innerNew w h w (w * h) with
    | ok u => exact (innerNew_ok_iff _ _ _ _).mp hi
    | panic m => rw [hi] at this; cases this
  have hsz : ¬ w * h > isizeMax := by unfold isizeMax; omega
  by_cases hl : w * h ≤ init.length
  · have hlen : (init.take (w * h)).length = w * h := by simp; omega
    simp [buf2NewFrom, hsz, hlen, (innerNew_ok_iff _ _ _ _).mpr hf, hl, eq_comm]
    tauto
  · have hlen : (init.take (w * h)).length ≠ w * h := by simp; omega
    simp [buf2NewFrom, hsz, hlen, hl]

/-- `Buf2::new_with((w, h), f)`: element `k` of the backing vector is `f(k mod w, k div w)` — the
closure's `(x, y)` counters walk the cells in row-major order — stride `w`, no panic when `w·h` fits `u32`. -/
theorem buf2NewWith_spec {α : Type} (w h : Nat) (f : Nat → Nat → α) (hwh : w * h < 4294967296) :
    buf2NewWith w h f = .ok ({ w := w, h := h, stride := w, off := 0, len := w * h },
      (List.range (w * h)).map (fun k => f (k % w) (k / w))) := by
  have hsz : ¬ w * h > isizeMax := by unfold isizeMax; omega
  have hseq : newWithSeq w f (w * h) 0 0 = (List.range (w * h)).map (fun k => f (k % w) (k / w)) := by
    rcases Nat.eq_zero_or_pos w with h0 | hp
    · subst h0; simp [newWithSeq]
    · rw [newWithSeq_spec w hp f (w * h) 0 0 hp]
      simp
  simp only [buf2NewWith, hsz, if_false, hseq]
  exact (buf2NewFrom_ok_iff w h _ hwh _ _).mpr ⟨by simp, (List.take_of_length_le (by simp)).symm, rfl⟩

theorem buf2NewFrom_reachable {α : Type} {w h : Nat} {init : List α} {v : View} {root : List α}
    (hwh : w * h < 4294967296) (hb : buf2NewFrom w h init = .ok (v, root)) : Reachable root.length v := by
  obtain ⟨hl, rfl, rfl⟩ := (buf2NewFrom_ok_iff w h init hwh v root).mp hb
  have hlen : (init.take (w * h)).length = w * h := by simp; omega
  refine Reachable.root (w := w) (h := h) (s := w) ?_
  rw [hlen]
  have := buf2New_ok w h (0 : Nat) hwh
  simp only [buf2New, mulU32, hwh, if_true] at this
  cases hi : innerNew w h w (w * h) with
  | ok u => simp [sliceNew, hi]
  | panic m => rw [hi] at this; cases this

/-! ## rows() / iter(): exactly `height` rows of `width` elements, agreeing with row indexing -/

section Rows
variable {α : Type}

/-- What a view denotes: the plain 2D array of its `h` rows. -/
def denote (root : List α) (v : View) : List (List α) := (List.range v.h).map (rowOf root v)

theorem denote_length (root : List α) (v : View) : (denote root v).length = v.h := by simp [denote]

theorem denote_getElem? (root : List α) (v : View) {y : Nat} (hy : y < v.h) :
    (denote root v)[y]? = some (rowOf root v y) := by simp [denote, hy]

theorem readRows_inside (root : List α) (v : View) (hv : ViewInv root.length v) (starts : List Nat)
    (h : ∀ s ∈ starts, s + v.w ≤ v.len) :
    readRows root v starts = .ok (starts.map fun s => (root.drop (v.off + s)).take v.w) := by
  induction starts with
  | nil => rfl
  | cons s ss ih =>
    simp [readRows, readRange_inside root v hv (h s (by simp)), ih (fun q hq => h q (by simp [hq]))]

/-- **rows_spec** (non-zero width). `rows()` of a valid view yields exactly `height()` rows, row `y`
being the `width()` root elements from `off + y·stride`: the view's denotation. -/
theorem rows_spec (root : List α) (v : View) (hv : ViewInv root.length v) (hw : 0 < v.w) :
    Buf.rows root v = .ok (denote root v) ∧ (denote root v).length = v.h ∧
      ∀ r ∈ denote root v, r.length = v.w := by
  refine ⟨?_, denote_length root v, ?_⟩
  · have hrow : ∀ s ∈ (List.range v.h).map (· * v.stride), s + v.w ≤ v.len := by
      intro s hs
      obtain ⟨y, hy, rfl⟩ := List.mem_map.mp hs
      have := (toIndex_inside hv.1 (x := v.w - 1) (by omega) (List.mem_range.mp hy)).2
      omega
    simp only [Buf.rows, rowWindows_pos hv.1 hw, readRows_inside root v hv _ hrow, denote, List.map_map]
    rfl
  · intro r hr
    obtain ⟨y, hy, rfl⟩ := List.mem_map.mp hr
    exact rowOf_length root v hv (List.mem_range.mp hy)

/-- `rows()` agrees with row indexing: the `y`-th yielded row is `view[y]`. -/
theorem rows_agree_with_row_index (root : List α) (v : View) (hv : ViewInv root.length v) (hw : 0 < v.w)
    (hh : v.h < 4294967296) {y : Nat} (hy : y < v.h) :
    ∃ rs r, Buf.rows root v = .ok rs ∧ rowIndex root v y = .ok r ∧ rs[y]? = some r :=
  ⟨_, _, (rows_spec root v hv hw).1, (row_refines root v hv hw hh hy).1, denote_getElem? root v hy⟩

/-- **rows_spec** (zero width). At most `height()` rows, all empty; no panic. -/
theorem rows_zero_width (root : List α) (v : View) (hv : ViewInv root.length v) (hw : v.w = 0) :
    ∃ rs, Buf.rows root v = .ok rs ∧ rs.length ≤ v.h ∧ ∀ r ∈ rs, r = [] := by
  obtain ⟨starts, hs, hl⟩ := rowWindows_zero_width hw
  have : ∀ (ss : List Nat), readRows root v ss = .ok (ss.map fun _ => []) := by
    intro ss
    induction ss with
    | nil => rfl
    | cons s ss ih => simp [readRows, readRange, hw, ih]
  refine ⟨starts.map fun _ => [], by simp [Buf.rows, hs, this], by simpa using hl, ?_⟩
  intro r hr
  obtain ⟨_, _, rfl⟩ := List.mem_map.mp hr
  rfl

/-- `iter()` is the row-major concatenation of the denotation; it has `w·h` elements. -/
theorem iter_spec (root : List α) (v : View) (hv : ViewInv root.length v) (hw : 0 < v.w) :
    Buf.iter root v = .ok (denote root v).flatten ∧ (denote root v).flatten.length = v.w * v.h := by
  obtain ⟨h1, h2, h3⟩ := rows_spec root v hv hw
  refine ⟨by simp [Buf.iter, h1], ?_⟩
  rw [List.length_flatten]
  have : (denote root v).map List.length = List.replicate v.h v.w := by
    apply List.eq_replicate_iff.mpr
    refine ⟨by simp [h2], ?_⟩
    intro n hn
    obtain ⟨r, hr, rfl⟩ := List.mem_map.mp hn
    exact h3 r hr
  rw [this]; simp [Nat.mul_comm]

end Rows

/-! ## Writes change exactly the addressed root cell (frame), at any nesting depth -/

section Writes
variable {α : Type}

/-- What "exactly one cell changed" means for the root storage. -/
theorem set_frame (root : List α) (k : Nat) (a : α) (hk : k < root.length) :
    (root.set k a).length = root.length ∧ (root.set k a)[k]? = some a ∧
      ∀ j, j ≠ k → (root.set k a)[j]? = root[j]? :=
  ⟨List.length_set, List.getElem?_set_self hk, fun _ hj => List.getElem?_set_ne (Ne.symm hj)⟩

theorem dataSet_inside (root : List α) (v : View) (hv : ViewInv root.length v) {i : Nat} (hi : i < v.len) (a : α) :
    dataSet root v i a = .ok (root.set (v.off + i) a) := by
  have := hv.2
  have : v.off + i < root.length := by omega
  simp [dataSet, hi, this]

/-- **write_frame.** `view[(x, y)] = a` inside the bounds stores `a` at root index
`off + y·stride + x` and nowhere else (`set_frame`); the index is inside the storage. -/
theorem write_frame (root : List α) (v : View) (hv : ViewInv root.length v) {x y : Nat}
    (hx : x < v.w) (hy : y < v.h) (a : α) :
    setPoint root v x y a = .ok (root.set (v.off + (y * v.stride + x)) a) ∧
      v.off + (y * v.stride + x) < root.length := by
  have hi := (toIndex_inside hv.1 hx hy).2
  have := hv.2
  refine ⟨?_, by omega⟩
  simp [setPoint, toIndexStrict, toIndexChecked_inside hv.1 hx hy, dataSet_inside root v hv hi]

/-- A write outside the bounds panics and stores nothing — for every view. -/
theorem write_oob_panics (root : List α) (v : View) {x y : Nat} (h : ¬ (x < v.w ∧ y < v.h)) (a : α) :
    setPoint root v x y a = .panic "position out of bounds" := by
  simp [setPoint, toIndexStrict, toIndexChecked_outside v h]

/-- `get_mut` + store: same cell inside the bounds, `None` (nothing stored) outside. -/
theorem getMut_frame (root : List α) (v : View) (hv : ViewInv root.length v) {x y : Nat}
    (hx : x < v.w) (hy : y < v.h) (a : α) :
    getMutSet root v x y a = .ok (some (root.set (v.off + (y * v.stride + x)) a)) := by
  have hi := (toIndex_inside hv.1 hx hy).2
  simp [getMutSet, toIndexChecked_inside hv.1 hx hy, dataSet_inside root v hv hi]

theorem getMut_oob_none (root : List α) (v : View) {x y : Nat} (h : ¬ (x < v.w ∧ y < v.h)) (a : α) :
    getMutSet root v x y a = .ok none := by
  simp [getMutSet, toIndexChecked_outside v h]

/-- `view[y][x] = a` through mutable row indexing: the same cell. -/
theorem rowSet_frame (root : List α) (v : View) (hv : ViewInv root.length v) (hh : v.h < 4294967296)
    {x y : Nat} (hx : x < v.w) (hy : y < v.h) (a : α) :
    rowSet root v y x a = .ok (root.set (v.off + (y * v.stride + x)) a) := by
  have hw : 0 < v.w := by omega
  have hy32 : y < 4294967296 := by omega
  have hi := toIndex_inside hv.1 (x := v.w - 1) (by omega) hy
  have hi' := (toIndex_inside hv.1 hx hy).2
  have h0 := toIndexChecked_inside hv.1 hw hy
  have c1 : ¬ (y * v.stride > v.len) := by omega
  have c2 : ¬ (v.w > v.len - y * v.stride) := by omega
  simp only [rowSet, rowWindow, hy32, if_true, toIndexStrict, h0, Nat.add_zero, c1, c2, if_false, hx]
  exact dataSet_inside root v hv hi' a

/-! ### Nesting -/

/-- A chain of rectangles, each inside the view the previous one produced. -/
def ValidPath : View → List Rect → Prop
  | _, [] => True
  | v, rc :: rcs => Inside rc v ∧ ValidPath (childOf v rc) rcs

/-- The view at the end of the chain. -/
def descend : View → List Rect → View
  | v, [] => v
  | v, rc :: rcs => descend (childOf v rc) rcs

/-- Position of the innermost view's corner inside the outermost one: coordinates simply add up. -/
def origin : View → List Rect → Nat × Nat
  | _, [] => (0, 0)
  | v, rc :: rcs => (rcL rc + (origin (childOf v rc) rcs).1, rcT rc + (origin (childOf v rc) rcs).2)

/-- One level: cell `(x, y)` of the child is cell `(l + x, t + y)` of the parent — the same root index. -/
theorem child_cell (v : View) (rc : Rect) (hin : Inside rc v) {x y : Nat}
    (hx : x < (childOf v rc).w) (hy : y < (childOf v rc).h) :
    rcL rc + x < v.w ∧ rcT rc + y < v.h ∧
      (childOf v rc).off + (y * (childOf v rc).stride + x) =
        v.off + ((rcT rc + y) * v.stride + (rcL rc + x)) := by
  obtain ⟨hlr, hrw, htb, hbh⟩ := hin
  unfold childOf at hx hy ⊢
  split_ifs at hx hy ⊢ with hbt
  · simp at hy
  · simp only at hx hy ⊢
    refine ⟨by omega, by omega, ?_⟩
    rw [Nat.add_mul]; omega

/-- **slice_compose, any depth.** Along any valid chain of slices the innermost view is valid, lies
inside the outermost one at `origin`, and its cell `(x, y)` is the outermost view's cell
`(ox + x, oy + y)`: the very same root index. -/
theorem path_cell (n : Nat) (v : View) (hv : ViewInv n v) (rcs : List Rect) (hp : ValidPath v rcs) :
    ViewInv n (descend v rcs) ∧
    ∀ x y, x < (descend v rcs).w → y < (descend v rcs).h →
      (origin v rcs).1 + x < v.w ∧ (origin v rcs).2 + y < v.h ∧
      (descend v rcs).off + (y * (descend v rcs).stride + x) =
        v.off + (((origin v rcs).2 + y) * v.stride + ((origin v rcs).1 + x)) := by
  induction rcs generalizing v with
  | nil => exact ⟨hv, fun x y hx hy => ⟨by simpa [origin, descend] using hx, by simpa [origin, descend] using hy, by simp [descend, origin]⟩⟩
  | cons rc rcs ih =>
    obtain ⟨hin, hrest⟩ := hp
    have hc := (slice_total n v hv rc hin).2
    obtain ⟨h1, h2⟩ := ih (childOf v rc) hc hrest
    refine ⟨h1, ?_⟩
    intro x y hx hy
    obtain ⟨a1, a2, a3⟩ := h2 x y hx hy
    obtain ⟨b1, b2, b3⟩ := child_cell v rc hin a1 a2
    refine ⟨?_, ?_, ?_⟩
    · show rcL rc + (origin (childOf v rc) rcs).1 + x < v.w
      omega
    · show rcT rc + (origin (childOf v rc) rcs).2 + y < v.h
      omega
    · show (descend (childOf v rc) rcs).off + (y * (descend (childOf v rc) rcs).stride + x) =
        v.off + ((rcT rc + (origin (childOf v rc) rcs).2 + y) * v.stride + (rcL rc + (origin (childOf v rc) rcs).1 + x))
      rw [a3, b3]
      simp only [Nat.add_assoc]

/-- **slice_compose.** Slicing a slice is slicing the parent by the translated rectangle: same
width, height and stride, and — whenever the result has any row — the same offset, hence the very
same cells. (With zero rows the two offsets may differ; such views address no element.) -/
theorem slice_compose (v : View) (rc1 rc2 : Rect) (h1 : Inside rc1 v) (h2 : Inside rc2 (childOf v rc1)) :
    let c := childOf (childOf v rc1) rc2
    let d := childOf v (Rect.ofCorners (rcL rc1 + rcL rc2) (rcT rc1 + rcT rc2)
      (rcL rc1 + rcR rc2 (childOf v rc1)) (rcT rc1 + rcB rc2 (childOf v rc1)))
    c.w = d.w ∧ c.h = d.h ∧ c.stride = d.stride ∧ (0 < c.h → c.off = d.off) := by
  obtain ⟨a1, a2, a3, a4⟩ := h1
  obtain ⟨b1, b2, b3, b4⟩ := h2
  simp only [childOf, rcL, rcT, rcR, rcB, Rect.ofCorners, Option.getD_some] at *
  by_cases e1 : rc1.bottom.getD v.h = rc1.top.getD 0
  · simp only [e1, if_true] at b1 b2 b3 b4 ⊢
    have : rc2.bottom.getD 0 = rc2.top.getD 0 := by omega
    split_ifs <;> simp_all <;> omega
  · simp only [e1, if_false] at b1 b2 b3 b4 ⊢
    by_cases e2 : rc2.bottom.getD (rc1.bottom.getD v.h - rc1.top.getD 0) = rc2.top.getD 0
    · simp only [e2, if_true]
      exact ⟨by omega, trivial, trivial, fun h => absurd h (by omega)⟩
    · simp only [e2, if_false]
      have e3 : ¬ (rc1.top.getD 0 + rc2.bottom.getD (rc1.bottom.getD v.h - rc1.top.getD 0) = rc1.top.getD 0 + rc2.top.getD 0) := by omega
      simp only [e3, if_false]
      refine ⟨by omega, by omega, trivial, fun _ => ?_⟩
      rw [Nat.add_mul]; omega

/-- The slices along a valid chain all succeed and produce `descend` (so the chain is what the
code computes, not just a specification device). -/
theorem path_slices (n : Nat) (v : View) (hv : ViewInv n v) (rc : Rect) (hin : Inside rc v) :
    Buf.slice v rc = .ok (descend v [rc]) := (slice_total n v hv rc hin).1

/-- **Aliasing.** A write through an arbitrarily deeply nested view is the write of the translated
cell of the outermost view: same resulting storage. -/
theorem write_through_path (root : List α) (v : View) (hv : ViewInv root.length v) (rcs : List Rect)
    (hp : ValidPath v rcs) {x y : Nat} (hx : x < (descend v rcs).w) (hy : y < (descend v rcs).h) (a : α) :
    setPoint root (descend v rcs) x y a =
      setPoint root v ((origin v rcs).1 + x) ((origin v rcs).2 + y) a := by
  obtain ⟨hd, hc⟩ := path_cell root.length v hv rcs hp
  obtain ⟨c1, c2, c3⟩ := hc x y hx hy
  rw [(write_frame root _ hd hx hy a).1, (write_frame root v hv c1 c2 a).1, c3]

/-- … and a read through the nested view sees the outermost view's translated cell. -/
theorem read_through_path (root : List α) (v : View) (hv : ViewInv root.length v) (rcs : List Rect)
    (hp : ValidPath v rcs) {x y : Nat} (hx : x < (descend v rcs).w) (hy : y < (descend v rcs).h) :
    Buf.get root (descend v rcs) x y = Buf.get root v ((origin v rcs).1 + x) ((origin v rcs).2 + y) := by
  obtain ⟨hd, hc⟩ := path_cell root.length v hv rcs hp
  obtain ⟨c1, c2, c3⟩ := hc x y hx hy
  obtain ⟨a, ha, hg⟩ := get_refines root _ hd hx hy
  obtain ⟨b, hb, hg'⟩ := get_refines root v hv c1 c2
  rw [hg, hg']
  rw [c3] at ha
  rw [ha] at hb
  cases hb; rfl

/-- Distinct cells of a valid view are distinct root elements (rows do not overlap), so a write to
one cell is invisible through every other cell of the same view. -/
theorem cell_injective {v : View} (hws : v.w ≤ v.stride) {x y x' y' : Nat} (hx : x < v.w) (hx' : x' < v.w)
    (he : v.off + (y * v.stride + x) = v.off + (y' * v.stride + x')) : x = x' ∧ y = y' := by
  have hs : 0 < v.stride := by omega
  have e : y * v.stride + x = y' * v.stride + x' := by omega
  have hy : y = y' := by
    have h1 := congrArg (· / v.stride) e
    simp only [Nat.mul_comm y, Nat.mul_comm y'] at h1
    rw [Nat.mul_add_div hs, Nat.mul_add_div hs, Nat.div_eq_of_lt (by omega), Nat.div_eq_of_lt (by omega)] at h1
    simpa using h1
  subst hy
  exact ⟨by omega, rfl⟩

/-- Read-after-write through one view: the written cell reads back `a`, every other cell is unchanged. -/
theorem get_after_write (root : List α) (v : View) (hv : ViewInv root.length v) {x y x' y' : Nat}
    (hx : x < v.w) (hy : y < v.h) (hx' : x' < v.w) (hy' : y' < v.h) (a : α) :
    ∃ root', setPoint root v x y a = .ok root' ∧ root'.length = root.length ∧
      Buf.get root' v x' y' = if x' = x ∧ y' = y then .ok (some a) else Buf.get root v x' y' := by
  obtain ⟨hw, hk⟩ := write_frame root v hv hx hy a
  obtain ⟨f1, f2, f3⟩ := set_frame root _ a hk
  refine ⟨_, hw, f1, ?_⟩
  have hv' : ViewInv (root.set (v.off + (y * v.stride + x)) a).length v := by rw [f1]; exact hv
  obtain ⟨b, hb, hg⟩ := get_refines _ v hv' hx' hy'
  rw [hg]
  split_ifs with hc
  · obtain ⟨rfl, rfl⟩ := hc
    rw [f2] at hb; cases hb; rfl
  · obtain ⟨c, hc', hg'⟩ := get_refines root v hv hx' hy'
    rw [hg']
    have hne : v.off + (y' * v.stride + x') ≠ v.off + (y * v.stride + x) := by
      intro he
      obtain ⟨e1, e2⟩ := cell_injective hv.1.1 hx' hx he
      exact hc ⟨e1, e2⟩
    rw [f3 _ hne, hc'] at hb
    cases hb; rfl

/-! ### Bulk writes: fill, fill_with, copy_from, rows_mut, iter_mut -/

/-- Root index `j` is a cell of the view. -/
def InView (v : View) (j : Nat) : Prop := ∃ x y, x < v.w ∧ y < v.h ∧ j = v.off + (y * v.stride + x)

theorem viewFits_of_inv (root : List α) (v : View) (hv : ViewInv root.length v) : viewFits root v = true := by
  simp [viewFits, hv.2]

/-- Row-wise stores through the rows of a valid view: every cell `(x, y)` receives `rowsVals[y][x]`,
every root element that is not a cell of the view keeps its value, the length is unchanged. -/
theorem writeRows_view_frame (root : List α) (v : View) (hv : ViewInv root.length v) (hw : 0 < v.w)
    (rowsVals : List (List α)) (hl : rowsVals.length = v.h) (hrw : ∀ r ∈ rowsVals, r.length = v.w) :
    (writeRows root v.off ((List.range v.h).map (· * v.stride)) rowsVals).length = root.length ∧
    (∀ x y, x < v.w → y < v.h →
      (writeRows root v.off ((List.range v.h).map (· * v.stride)) rowsVals)[v.off + (y * v.stride + x)]? =
        (rowsVals[y]?).bind (·[x]?)) ∧
    (∀ j, ¬ InView v j →
      (writeRows root v.off ((List.range v.h).map (· * v.stride)) rowsVals)[j]? = root[j]?) := by
  have hfit : 0 < v.h → v.off + 0 + (v.h - 1) * v.stride + v.w ≤ root.length := by
    intro hh
    have := (toIndex_inside hv.1 (x := v.w - 1) (y := v.h - 1) (by omega) (by omega)).2
    have := hv.2
    omega
  have e : (List.range v.h).map (· * v.stride) = (List.range v.h).map (fun i => 0 + i * v.stride) := by simp
  rw [e]
  obtain ⟨f1, f2, f3⟩ := writeRows_frame v.off v.stride v.w hv.1.1 v.h root 0 rowsVals hl hrw hfit
  refine ⟨f1, ?_, ?_⟩
  · intro x y hx hy
    have := f2 y x hy hx
    rw [show v.off + (y * v.stride + x) = v.off + 0 + y * v.stride + x by omega]
    exact this
  · intro j hj
    apply f3
    intro y x hy hx he
    exact hj ⟨x, y, hx, hy, by omega⟩

/-- **rows_mut frame.** Whatever is stored through `rows_mut()` (row `y` receiving `vals y`) lands in
exactly the view's cells. -/
theorem rowsMut_frame (root : List α) (v : View) (hv : ViewInv root.length v) (vals : Nat → List α)
    (hvals : ∀ y, y < v.h → (vals y).length = v.w) :
    ∃ root', rowsMutWrite root v vals = .ok root' ∧ root'.length = root.length ∧
      (∀ x y, x < v.w → y < v.h → root'[v.off + (y * v.stride + x)]? = (vals y)[x]?) ∧
      (∀ j, ¬ InView v j → root'[j]? = root[j]?) := by
  rcases Nat.eq_zero_or_pos v.w with hw | hw
  · obtain ⟨starts, hs, hl⟩ := rowWindows_zero_width hw
    have hnil : ∀ r ∈ (List.range starts.length).map vals, r = [] := by
      intro r hr
      obtain ⟨y, hy, rfl⟩ := List.mem_map.mp hr
      have := hvals y (by have := List.mem_range.mp hy; omega)
      exact List.length_eq_zero_iff.mp (by omega)
    refine ⟨root, ?_, rfl, fun x y hx => by omega, fun _ _ => rfl⟩
    simp [rowsMutWrite, viewFits_of_inv root v hv, hs, writeRows_nil_rows _ _ _ _ hnil]
  · have hrw : ∀ r ∈ (List.range v.h).map vals, r.length = v.w := by
      intro r hr
      obtain ⟨y, hy, rfl⟩ := List.mem_map.mp hr
      exact hvals y (List.mem_range.mp hy)
    obtain ⟨f1, f2, f3⟩ := writeRows_view_frame root v hv hw ((List.range v.h).map vals) (by simp) hrw
    refine ⟨_, ?_, f1, ?_, f3⟩
    · simp [rowsMutWrite, viewFits_of_inv root v hv, rowWindows_pos hv.1 hw]
    · intro x y hx hy
      rw [f2 x y hx hy]
      simp [hy]

/-- **fill_with frame.** `fill_with(f)` stores `f(x, y)` in cell `(x, y)` for every cell of the view
and changes nothing else. -/
theorem fillWith_frame (root : List α) (v : View) (hv : ViewInv root.length v) (f : Nat → Nat → α) :
    ∃ root', fillWith root v f = .ok root' ∧ root'.length = root.length ∧
      (∀ x y, x < v.w → y < v.h → root'[v.off + (y * v.stride + x)]? = some (f x y)) ∧
      (∀ j, ¬ InView v j → root'[j]? = root[j]?) := by
  obtain ⟨root', h1, h2, h3, h4⟩ := rowsMut_frame root v hv (fun y => (List.range v.w).map (fun x => f x y))
    (fun y _ => by simp)
  refine ⟨root', h1, h2, ?_, h4⟩
  intro x y hx hy
  rw [h3 x y hx hy]
  simp [hx]

/-- Contiguous views: the cells are exactly the root indices `[off, off + w·h)`. -/
theorem inView_contiguous (v : View) (hc : isContiguous v = true) (j : Nat) :
    InView v j ↔ v.off ≤ j ∧ j < v.off + v.w * v.h := by
  simp only [isContiguous, Bool.or_eq_true, beq_iff_eq, decide_eq_true_eq] at hc
  constructor
  · rintro ⟨x, y, hx, hy, rfl⟩
    refine ⟨by omega, ?_⟩
    rcases hc with (hs | hh) | hw0
    · rw [hs]
      have := cell_lt (s := v.w) hx hy
      have e : (v.h - 1) * v.w + v.w = v.w * v.h := by
        conv_rhs => rw [show v.h = (v.h - 1) + 1 by omega]
        rw [Nat.mul_succ, Nat.mul_comm]
      omega
    · have : y = 0 := by omega
      have : v.h = 1 := by omega
      subst_vars
      simp_all
    · omega
  · rintro ⟨h1, h2⟩
    rcases hc with (hs | hh) | hw0
    · have hw : 0 < v.w := by
        rcases Nat.eq_zero_or_pos v.w with h0 | hp
        · rw [h0] at h2; simp at h2; omega
        · exact hp
      refine ⟨(j - v.off) % v.w, (j - v.off) / v.w, Nat.mod_lt _ hw, ?_, ?_⟩
      · exact (Nat.div_lt_iff_lt_mul hw).mpr (by rw [Nat.mul_comm]; omega)
      · rw [hs, Nat.mul_comm, Nat.div_add_mod]; omega
    · have hh1 : v.h = 1 := by
        rcases Nat.eq_zero_or_pos v.h with h0 | hp
        · rw [h0] at h2; simp at h2; omega
        · omega
      rw [hh1] at h2
      exact ⟨j - v.off, 0, by omega, by omega, by omega⟩
    · rw [hw0] at h2; simp at h2; omega

/-- **fill_frame.** `fill(a)` — on the contiguous fast path and on the row-by-row path alike — stores `a`
in every cell of the view and changes nothing else: in particular neither the gaps between the rows
of a strided view nor surplus elements of the backing slice behind the last row. -/
theorem fill_frame (root : List α) (v : View) (hv : ViewInv root.length v) (a : α) :
    ∃ root', Buf.fill root v a = .ok root' ∧ root'.length = root.length ∧
      (∀ x y, x < v.w → y < v.h → root'[v.off + (y * v.stride + x)]? = some a) ∧
      (∀ j, ¬ InView v j → root'[j]? = root[j]?) := by
  by_cases hc : isContiguous v = true
  · -- one `slice::fill` over `data[..w*h]`
    have hlen : v.w * v.h ≤ v.len := by
      rcases Nat.eq_zero_or_pos (v.w * v.h) with h0 | hp
      · omega
      · have hw : 0 < v.w := Nat.pos_of_mul_pos_right hp
        have hh : 0 < v.h := Nat.pos_of_mul_pos_left hp
        have hin : InView v (v.off + ((v.h - 1) * v.stride + (v.w - 1))) := ⟨v.w - 1, v.h - 1, by omega, by omega, rfl⟩
        have := ((inView_contiguous v hc _).mp hin).2
        have := (toIndex_inside hv.1 (x := v.w - 1) (y := v.h - 1) (by omega) (by omega)).2
        have := (inView_contiguous v hc (v.off + v.w * v.h - 1)).mpr ⟨by omega, by omega⟩
        obtain ⟨x, y, hx, hy, he⟩ := this
        have := (toIndex_inside hv.1 hx hy).2
        omega
    have hroot := hv.2
    refine ⟨setRun root v.off (List.replicate (v.w * v.h) a), ?_, setRun_length _ _ _, ?_, ?_⟩
    · simp [Buf.fill, hc, viewFits_of_inv root v hv, hlen]
    · intro x y hx hy
      have hin := (inView_contiguous v hc _).mp ⟨x, y, hx, hy, rfl⟩
      have hi : y * v.stride + x < v.w * v.h := by have := hin.2; omega
      rw [setRun_getElem?_inside _ _ _ _ (by simpa using hi) (by omega)]
      simp [hi]
    · intro j hj
      apply setRun_getElem?_outside
      have := (inView_contiguous v hc j).not.mp hj
      simp only [List.length_replicate]
      omega
  · obtain ⟨root', h1, h2, h3, h4⟩ := rowsMut_frame root v hv (fun _ => List.replicate v.w a) (fun y _ => by simp)
    refine ⟨root', by simpa [Buf.fill, hc] using h1, h2, ?_, h4⟩
    intro x y hx hy
    rw [h3 x y hx hy]
    simp [hx]

/-- **copy_from frame.** With equal dimensions, `copy_from(src)` stores the source's cell `(x, y)` in
the destination's cell `(x, y)` (whatever the two strides and offsets are) and changes nothing else;
with different dimensions it panics before storing anything. -/
theorem copyFrom_frame (root : List α) (v : View) (hv : ViewInv root.length v)
    (srcRoot : List α) (src : View) (hs : ViewInv srcRoot.length src) (hd : v.w = src.w ∧ v.h = src.h) :
    ∃ root', copyFrom root v srcRoot src = .ok root' ∧ root'.length = root.length ∧
      (∀ x y, x < v.w → y < v.h →
        root'[v.off + (y * v.stride + x)]? = srcRoot[src.off + (y * src.stride + x)]?) ∧
      (∀ j, ¬ InView v j → root'[j]? = root[j]?) := by
  rcases Nat.eq_zero_or_pos v.w with hw | hw
  · obtain ⟨starts, hst, _⟩ := rowWindows_zero_width hw
    obtain ⟨rs, hr, _, hnil⟩ := rows_zero_width srcRoot src hs (by omega)
    refine ⟨root, ?_, rfl, fun x y hx => by omega, fun _ _ => rfl⟩
    simp [copyFrom, asSlice_id hs, hd, viewFits_of_inv root v hv, hst, hr, writeRows_nil_rows _ _ _ _ hnil]
  · have hsw : 0 < src.w := by omega
    obtain ⟨r1, r2, r3⟩ := rows_spec srcRoot src hs hsw
    obtain ⟨f1, f2, f3⟩ := writeRows_view_frame root v hv hw (denote srcRoot src) (by omega)
      (fun r hr => by rw [r3 r hr]; omega)
    refine ⟨_, ?_, f1, ?_, f3⟩
    · simp [copyFrom, asSlice_id hs, hd, viewFits_of_inv root v hv, rowWindows_pos hv.1 hw, r1]
    · intro x y hx hy
      rw [f2 x y hx hy, denote_getElem? srcRoot src (by omega)]
      simp only [Option.bind_some]
      exact rowOf_getElem? srcRoot src x y (by omega)

theorem copyFrom_mismatch_panics (root : List α) (v : View) (srcRoot : List α) (src : View)
    (hs : ViewInv srcRoot.length src) (hd : ¬ (v.w = src.w ∧ v.h = src.h)) :
    copyFrom root v srcRoot src = .panic "dimension mismatch" := by
  simp [copyFrom, asSlice_id hs, hd]

end Writes

/-! ## The plain 2D array: model views are windows of `Spec.Grid`

`Spec.Grid` arranges the root storage once as rows of `S` cells and knows only `(row, column)`
addressing; a window is `(x0, y0, w, h)` and sub-windows add coordinates.  A model view *tracks* a
window when it has the same size, pitch `S`, and starts at the window's corner. -/

section Grid
open Retro.Spec.Grid
variable {α : Type}

/-- View `v` is the window `p` of the grid of pitch `S`. -/
structure Tracks (v : View) (p : Win) (S : Nat) : Prop where
  stride : v.stride = S
  w : v.w = p.w
  h : v.h = p.h
  inRow : p.x0 + p.w ≤ S
  off : v.h = 0 ∨ v.off = p.y0 * S + p.x0

/-- The root view of `Slice2::new((w, h), S, data)` (hence of `Buf2::new*` with `S = w`) is the
window at the origin. -/
theorem tracks_root {w h S n : Nat} {v : View} (hs : sliceNew w h S n = .ok v) :
    Tracks v { x0 := 0, y0 := 0, w := w, h := h } S := by
  obtain ⟨hf, rfl⟩ := (sliceNew_ok_iff _ _ _ _ _).mp hs
  exact ⟨rfl, rfl, rfl, by simpa using hf.1, Or.inr (by simp)⟩

/-- Slicing a view by a rectangle inside its bounds is taking the sub-window with added coordinates —
the oracle's `Win.sub`; the oracle's `validRect` is the model's `Inside`. -/
theorem tracks_slice {v : View} {p : Win} {S : Nat} (ht : Tracks v p S) (rc : Rect) (hin : Inside rc v) :
    Tracks (childOf v rc) (p.sub (rcL rc) (rcT rc) (rcR rc v) (rcB rc v)) S ∧
      p.validRect (rcL rc) (rcT rc) (rcR rc v) (rcB rc v) = true := by
  obtain ⟨hlr, hrw, htb, hbh⟩ := hin
  obtain ⟨t1, t2, t3, t4, t5⟩ := ht
  refine ⟨?_, by simp [Win.validRect, ← t2, ← t3, hlr, hrw, htb, hbh]⟩
  unfold childOf
  split_ifs with hbt
  · exact ⟨t1, rfl, by simp [Win.sub, hbt], by simp only [Win.sub]; omega, Or.inl rfl⟩
  · refine ⟨t1, rfl, rfl, by simp only [Win.sub]; omega, Or.inr ?_⟩
    have hh : v.h ≠ 0 := by omega
    have ho : v.off = p.y0 * S + p.x0 := by rcases t5 with h | h; exact absurd h hh; exact h
    simp only [Win.sub, ho, t1, Nat.add_mul]; omega

/-- Linear addressing of the row arrangement is injective on `cx < S`. -/
theorem grid_index_injective {S cx cy cx' cy' : Nat} (hcx : cx < S) (hcx' : cx' < S)
    (he : cy * S + cx = cy' * S + cx') : cx = cx' ∧ cy = cy' :=
  cell_injective (v := { w := S, h := 0, stride := S, off := 0, len := 0 }) (Nat.le_refl _) hcx hcx' (by simpa using he)

/-- **get refines the grid.** For every coordinate pair, `get` through the view returns what the
plain 2D array holds at the window position (and `None` outside the window). -/
theorem get_refines_grid (root : List α) (v : View) (hv : ViewInv root.length v) (p : Win) (S : Nat)
    (ht : Tracks v p S) (x y : Nat) :
    Buf.get root v x y = .ok (readCell (ofFlat S root) p x y) := by
  obtain ⟨t1, t2, t3, t4, t5⟩ := ht
  by_cases hin : x < v.w ∧ y < v.h
  · obtain ⟨hx, hy⟩ := hin
    obtain ⟨a, ha, hg⟩ := get_refines root v hv hx hy
    have hS : 0 < S := by omega
    have ho : v.off = p.y0 * S + p.x0 := by rcases t5 with h | h; omega; exact h
    have hins : p.inside x y = true := by simp [Win.inside, ← t2, ← t3, hx, hy]
    rw [hg, readCell, if_pos hins, cell?_ofFlat S hS root _ _ (by omega), ← ha, ho, t1, Nat.add_mul]
    congr 2; omega
  · have hins : p.inside x y = false := by
      simp only [Win.inside, ← t2, ← t3, Bool.and_eq_false_iff, decide_eq_false_iff_not]
      by_cases hx : x < v.w
      · exact Or.inr (fun hy => hin ⟨hx, hy⟩)
      · exact Or.inl hx
    simp [get_oob_none root v hin, readCell, hins]

/-- **write refines the grid.** A store through the view (at any nesting depth, by `tracks_slice`)
updates the plain 2D array at exactly the window position: afterwards every cell of the array holds
what `Spec.Grid.writeCell` says. -/
theorem write_refines_grid (root : List α) (v : View) (hv : ViewInv root.length v) (p : Win) (S : Nat)
    (ht : Tracks v p S) {x y : Nat} (hx : x < v.w) (hy : y < v.h) (a : α) :
    ∃ root', setPoint root v x y a = .ok root' ∧ root'.length = root.length ∧
      ∀ cx cy, cx < S → cell? (ofFlat S root') cx cy = cell? (writeCell (ofFlat S root) p x y a) cx cy := by
  obtain ⟨t1, t2, t3, t4, t5⟩ := ht
  obtain ⟨hw, hk⟩ := write_frame root v hv hx hy a
  obtain ⟨f1, f2, f3⟩ := set_frame root _ a hk
  refine ⟨_, hw, f1, ?_⟩
  intro cx cy hcx
  have hS : 0 < S := by omega
  have ho : v.off = p.y0 * S + p.x0 := by rcases t5 with h | h; omega; exact h
  have hk' : v.off + (y * v.stride + x) = (p.y0 + y) * S + (p.x0 + x) := by rw [ho, t1, Nat.add_mul]; omega
  rw [cell?_ofFlat S hS _ _ _ hcx, writeCell, cell?_setCell, cell?_ofFlat S hS root _ _ hcx,
    cell?_ofFlat S hS root _ _ (by omega : p.x0 + x < S)]
  by_cases hc : cx = p.x0 + x ∧ cy = p.y0 + y
  · obtain ⟨rfl, rfl⟩ := hc
    rw [← hk', f2]
    simp [List.getElem?_eq_getElem hk]
  · have hne : cy * S + cx ≠ v.off + (y * v.stride + x) := by
      rw [hk']
      intro he
      exact hc (grid_index_injective hcx (by omega) he)
    rw [f3 _ hne]
    simp [hc]

/-- The denotation of a view is the window of the grid, cell by cell. -/
theorem denote_refines_grid (root : List α) (v : View) (p : Win) (S : Nat) (ht : Tracks v p S)
    {x y : Nat} (hx : x < v.w) (hy : y < v.h) :
    ((denote root v)[y]?).bind (·[x]?) = cell? (ofFlat S root) (p.x0 + x) (p.y0 + y) := by
  obtain ⟨t1, t2, t3, t4, t5⟩ := ht
  have hS : 0 < S := by omega
  have ho : v.off = p.y0 * S + p.x0 := by rcases t5 with h | h; omega; exact h
  rw [denote_getElem? root v hy, Option.bind_some, rowOf_getElem? root v x y hx,
    cell?_ofFlat S hS root _ _ (by omega), ho, t1, Nat.add_mul]
  congr 1; omega

end Grid

/-! ## Bulk writers as equations with the grid oracle's `writeAll`

The storage after `fill` / `fill_with` / `copy_from` / a pass over `rows_mut()` / `iter_mut()`, read
back as a grid (rows of `S` cells), *equals* `Spec.Grid.writeAll` applied to the old grid and the
view's window.  That cells outside the window keep their value (gaps between the rows of a strided
view, surplus backing data) is a consequence of the equation: `writeAll` only ever calls
`writeCell` on window cells. -/

section BulkGrid
open Retro.Spec.Grid
variable {α : Type}

/-! ### `writeAll`, cell by cell -/

theorem setCell_length (g : Grid α) (X Y : Nat) (a : α) : (setCell g X Y a).length = g.length := by
  unfold setCell
  split <;> simp

theorem foldl_length_inv {β : Type} (step : Grid α → β → Grid α)
    (h : ∀ g b, (step g b).length = g.length) (l : List β) (g : Grid α) :
    (l.foldl step g).length = g.length := by
  induction l generalizing g with
  | nil => rfl
  | cons b bs ih => rw [List.foldl_cons, ih, h]

theorem writeAll_length (g : Grid α) (p : Win) (f : Nat → Nat → α) : (writeAll g p f).length = g.length := by
  unfold writeAll
  apply foldl_length_inv
  intro g y
  apply foldl_length_inv
  intro g x
  exact setCell_length _ _ _ _

/-- One row of `writeAll`: the first `n` cells of window row `y`. -/
theorem cell?_rowWrite (g : Grid α) (p : Win) (y : Nat) (f : Nat → Nat → α) (n cx cy : Nat) :
    cell? ((List.range n).foldl (fun g x => writeCell g p x y (f x y)) g) cx cy =
      if cy = p.y0 + y ∧ p.x0 ≤ cx ∧ cx < p.x0 + n then (cell? g cx cy).map (fun _ => f (cx - p.x0) y)
      else cell? g cx cy := by
  induction n with
  | zero =>
    rw [if_neg (by omega)]
    simp only [List.range_zero, List.foldl_nil]
  | succ n ih =>
    rw [List.range_succ, List.foldl_append, List.foldl_cons, List.foldl_nil, writeCell, cell?_setCell]
    by_cases hc : cx = p.x0 + n ∧ cy = p.y0 + y
    · obtain ⟨rfl, rfl⟩ := hc
      rw [if_pos ⟨rfl, rfl⟩, ih, if_neg (by omega), if_pos (by omega)]
      simp
    · rw [if_neg hc, ih]
      by_cases h1 : cy = p.y0 + y ∧ p.x0 ≤ cx ∧ cx < p.x0 + n
      · rw [if_pos h1, if_pos (by omega)]
      · rw [if_neg h1, if_neg (by omega)]

/-- The first `m` rows of `writeAll`. -/
theorem cell?_rowsWrite (g : Grid α) (p : Win) (f : Nat → Nat → α) (m cx cy : Nat) :
    cell? ((List.range m).foldl
        (fun g y => (List.range p.w).foldl (fun g x => writeCell g p x y (f x y)) g) g) cx cy =
      if p.x0 ≤ cx ∧ cx < p.x0 + p.w ∧ p.y0 ≤ cy ∧ cy < p.y0 + m
      then (cell? g cx cy).map (fun _ => f (cx - p.x0) (cy - p.y0)) else cell? g cx cy := by
  induction m with
  | zero =>
    rw [if_neg (by omega)]
    simp only [List.range_zero, List.foldl_nil]
  | succ m ih =>
    rw [List.range_succ, List.foldl_append, List.foldl_cons, List.foldl_nil, cell?_rowWrite, ih]
    by_cases h1 : cy = p.y0 + m ∧ p.x0 ≤ cx ∧ cx < p.x0 + p.w
    · rw [if_pos h1, if_neg (by omega), if_pos (by omega)]
      obtain ⟨rfl, _, _⟩ := h1
      simp
    · rw [if_neg h1]
      by_cases h2 : p.x0 ≤ cx ∧ cx < p.x0 + p.w ∧ p.y0 ≤ cy ∧ cy < p.y0 + m
      · rw [if_pos h2, if_pos (by omega)]
      · rw [if_neg h2, if_neg (by omega)]

/-- **What `writeAll` means, cell by cell**: a cell of the window that exists in the grid receives
`f` of its window coordinates, every other cell is untouched. -/
theorem cell?_writeAll (g : Grid α) (p : Win) (f : Nat → Nat → α) (cx cy : Nat) :
    cell? (writeAll g p f) cx cy =
      if p.x0 ≤ cx ∧ cx < p.x0 + p.w ∧ p.y0 ≤ cy ∧ cy < p.y0 + p.h
      then (cell? g cx cy).map (fun _ => f (cx - p.x0) (cy - p.y0)) else cell? g cx cy :=
  cell?_rowsWrite g p f p.h cx cy

/-- Grids with the same number of rows and the same cells are equal. -/
theorem grid_ext {g1 g2 : Grid α} (hl : g1.length = g2.length)
    (hc : ∀ x y, cell? g1 x y = cell? g2 x y) : g1 = g2 := by
  apply List.ext_getElem hl
  intro y h1 h2
  apply List.ext_getElem?
  intro x
  have := hc x y
  simpa [cell?, List.getElem?_eq_getElem h1, List.getElem?_eq_getElem h2] using this

theorem ofFlatAux_length_congr (pitch : Nat) : ∀ (fuel : Nat) (l1 l2 : List α), l1.length = l2.length →
    (ofFlatAux pitch fuel l1).length = (ofFlatAux pitch fuel l2).length := by
  intro fuel
  induction fuel with
  | zero => intro l1 l2 _; rfl
  | succ fuel ih =>
    intro l1 l2 h
    by_cases he : l1 = []
    · have he2 : l2 = [] := List.length_eq_zero_iff.mp (by rw [← h, he]; rfl)
      subst he he2; rfl
    · have he2 : l2 ≠ [] := fun h2 => he (List.length_eq_zero_iff.mp (by rw [h, h2]; rfl))
      have e1 : l1.isEmpty = false := by simp [he]
      have e2 : l2.isEmpty = false := by simp [he2]
      simp only [ofFlatAux, e1, e2, Bool.false_eq_true, if_false, List.length_cons]
      rw [ih (l1.drop pitch) (l2.drop pitch) (by simp [h])]

/-- The shape of the row arrangement depends only on the number of elements. -/
theorem ofFlat_length_congr (S : Nat) (l1 l2 : List α) (h : l1.length = l2.length) :
    (ofFlat S l1).length = (ofFlat S l2).length := by
  unfold ofFlat
  rw [h]
  exact ofFlatAux_length_congr _ _ _ _ h

/-- Columns `≥ S` do not exist in the row arrangement. -/
theorem cell?_ofFlat_ge (S : Nat) (hS : 0 < S) (root : List α) (cx cy : Nat) (hcx : S ≤ cx) :
    cell? (ofFlat S root) cx cy = none := by
  have hm : max S 1 = S := by omega
  simp only [cell?, ofFlat, hm, ofFlatAux_getElem? S hS _ root cy (Nat.le_refl _)]
  by_cases h : cy * S < root.length
  · simp only [h, if_true]
    rw [List.getElem?_eq_none]
    simp only [List.length_take]
    omega
  · simp only [h, if_false]

theorem toFlat_ofFlatAux (pitch : Nat) : ∀ (fuel : Nat) (l : List α), l.length ≤ fuel → 0 < pitch →
    toFlat (ofFlatAux pitch fuel l) = l := by
  intro fuel
  induction fuel with
  | zero =>
    intro l h _
    have : l = [] := List.length_eq_zero_iff.mp (by omega)
    subst this; rfl
  | succ fuel ih =>
    intro l h hp
    by_cases he : l = []
    · subst he; rfl
    · have hl : 0 < l.length := List.length_pos_iff.mpr he
      have e1 : l.isEmpty = false := by simp [he]
      simp only [ofFlatAux, e1, Bool.false_eq_true, if_false, toFlat, List.flatten_cons]
      have := ih (l.drop pitch) (by simp; omega) hp
      simp only [toFlat] at this
      rw [this, List.take_append_drop]

/-- Arranging flat storage as a grid loses nothing: `toFlat` reads the storage back. -/
theorem toFlat_ofFlat (S : Nat) (l : List α) : toFlat (ofFlat S l) = l :=
  toFlat_ofFlatAux _ _ _ (Nat.le_refl _) (by omega)

/-! ### From a frame statement on the root storage to the grid equation -/

/-- If every cell `(x, y)` of a valid view tracking window `p` holds `f x y` afterwards and every
root element that is not a cell of the view is unchanged, then the storage read back as a grid is
`writeAll` of the old grid. -/
theorem frame_eq_writeAll (root root' : List α) (v : View) (hv : ViewInv root.length v) (p : Win) (S : Nat)
    (ht : Tracks v p S) (f : Nat → Nat → α) (hlen : root'.length = root.length)
    (hin : ∀ x y, x < v.w → y < v.h → root'[v.off + (y * v.stride + x)]? = some (f x y))
    (hout : ∀ j, ¬ InView v j → root'[j]? = root[j]?) :
    ofFlat S root' = writeAll (ofFlat S root) p f := by
  obtain ⟨t1, t2, t3, t4, t5⟩ := ht
  apply grid_ext
  · rw [writeAll_length]; exact ofFlat_length_congr S _ _ hlen
  · intro cx cy
    rw [cell?_writeAll]
    rcases Nat.eq_zero_or_pos S with hS0 | hS
    · -- pitch 0: the window has no columns, nothing is written
      have hw0 : v.w = 0 := by omega
      have : root' = root := by
        apply List.ext_getElem?
        intro j
        apply hout
        rintro ⟨x, y, hx, _, _⟩
        omega
      subst this
      rw [if_neg (by omega)]
    · by_cases hwin : p.x0 ≤ cx ∧ cx < p.x0 + p.w ∧ p.y0 ≤ cy ∧ cy < p.y0 + p.h
      · rw [if_pos hwin]
        obtain ⟨a1, a2, a3, a4⟩ := hwin
        have hcx : cx < S := by omega
        have hx : cx - p.x0 < v.w := by omega
        have hy : cy - p.y0 < v.h := by omega
        have ho : v.off = p.y0 * S + p.x0 := by rcases t5 with h | h; omega; exact h
        have hmul : cy * S = p.y0 * S + (cy - p.y0) * S := by
          rw [← Nat.add_mul]; congr 1; omega
        have hk : v.off + ((cy - p.y0) * v.stride + (cx - p.x0)) = cy * S + cx := by
          rw [ho, t1]; omega
        obtain ⟨a, ha⟩ := cell_exists root v hv hx hy
        rw [cell?_ofFlat S hS _ _ _ hcx, cell?_ofFlat S hS _ _ _ hcx, ← hk, hin _ _ hx hy, ha]
        rfl
      · rw [if_neg hwin]
        by_cases hcx : cx < S
        · rw [cell?_ofFlat S hS _ _ _ hcx, cell?_ofFlat S hS _ _ _ hcx]
          apply hout
          rintro ⟨x, y, hx, hy, he⟩
          have ho : v.off = p.y0 * S + p.x0 := by rcases t5 with h | h; omega; exact h
          have he' : cy * S + cx = (p.y0 + y) * S + (p.x0 + x) := by
            rw [he, ho, t1, Nat.add_mul]; omega
          obtain ⟨e1, e2⟩ := grid_index_injective hcx (by omega) he'
          omega
        · rw [cell?_ofFlat_ge S hS _ _ _ (by omega), cell?_ofFlat_ge S hS _ _ _ (by omega)]

/-- The grid equation determines the new storage completely. -/
theorem eq_toFlat_of_grid_eq {S : Nat} {root' : List α} {g : Grid α} (h : ofFlat S root' = g) :
    root' = toFlat g := by rw [← h, toFlat_ofFlat]

/-! ### The bulk writers -/

/-- **fill = writeAll.** On every valid view (the window `p` of the grid of pitch `S`), on the
contiguous fast path and on the row-by-row path alike: the storage after `fill(a)`, read back as a
grid, is the old grid with every cell of the window overwritten by `a`. -/
theorem fill_eq_writeAll (root : List α) (v : View) (hv : ViewInv root.length v) (p : Win) (S : Nat)
    (ht : Tracks v p S) (a : α) :
    ∃ root', Buf.fill root v a = .ok root' ∧
      ofFlat S root' = writeAll (ofFlat S root) p (fun _ _ => a) := by
  obtain ⟨root', h1, h2, h3, h4⟩ := fill_frame root v hv a
  exact ⟨root', h1, frame_eq_writeAll root root' v hv p S ht _ h2 h3 h4⟩

/-- … as a closed equation for the new storage itself. -/
theorem fill_eq_toFlat_writeAll (root : List α) (v : View) (hv : ViewInv root.length v) (p : Win) (S : Nat)
    (ht : Tracks v p S) (a : α) :
    Buf.fill root v a = .ok (toFlat (writeAll (ofFlat S root) p (fun _ _ => a))) := by
  obtain ⟨root', h1, h2⟩ := fill_eq_writeAll root v hv p S ht a
  rw [h1, eq_toFlat_of_grid_eq h2]

/-- **rows_mut = writeAll.** A pass over `rows_mut()` that stores `g x y` in element `x` of the
`y`-th yielded row is `writeAll g` on the window. -/
theorem rows_mut_write_eq (root : List α) (v : View) (hv : ViewInv root.length v) (p : Win) (S : Nat)
    (ht : Tracks v p S) (g : Nat → Nat → α) :
    ∃ root', rowsMutWrite root v (fun y => (List.range v.w).map (fun x => g x y)) = .ok root' ∧
      ofFlat S root' = writeAll (ofFlat S root) p g := by
  obtain ⟨root', h1, h2, h3, h4⟩ := rowsMut_frame root v hv (fun y => (List.range v.w).map (fun x => g x y))
    (fun y _ => by simp)
  refine ⟨root', h1, frame_eq_writeAll root root' v hv p S ht _ h2 ?_ h4⟩
  intro x y hx hy
  rw [h3 x y hx hy]
  simp [hx]

/-- **fill_with = writeAll.** `fill_with(f)` is `writeAll f` on the window (the closure receives
window coordinates `(x, y)`, column first). -/
theorem fill_with_eq_writeAll (root : List α) (v : View) (hv : ViewInv root.length v) (p : Win) (S : Nat)
    (ht : Tracks v p S) (f : Nat → Nat → α) :
    ∃ root', fillWith root v f = .ok root' ∧ ofFlat S root' = writeAll (ofFlat S root) p f :=
  rows_mut_write_eq root v hv p S ht f

theorem fill_with_eq_toFlat_writeAll (root : List α) (v : View) (hv : ViewInv root.length v) (p : Win) (S : Nat)
    (ht : Tracks v p S) (f : Nat → Nat → α) :
    fillWith root v f = .ok (toFlat (writeAll (ofFlat S root) p f)) := by
  obtain ⟨root', h1, h2⟩ := fill_with_eq_writeAll root v hv p S ht f
  rw [h1, eq_toFlat_of_grid_eq h2]

/-- **iter_mut = writeAll.** A pass over `iter_mut()` that stores `seq k` in the `k`-th yielded
element puts `seq (y·w + x)` in window cell `(x, y)`: `iter_mut()` walks the window row-major. (This
is the model function the driver runs for the `iterm`/`rowsm` operations.) -/
theorem iter_mut_write_eq (root : List α) (v : View) (hv : ViewInv root.length v) (p : Win) (S : Nat)
    (ht : Tracks v p S) (seq : Nat → α) :
    ∃ root', rowsMutWrite root v (fun y => (List.range v.w).map (fun x => seq (y * v.w + x))) = .ok root' ∧
      ofFlat S root' = writeAll (ofFlat S root) p (fun x y => seq (y * v.w + x)) :=
  rows_mut_write_eq root v hv p S ht (fun x y => seq (y * v.w + x))

/-- **copy_from = writeAll.** With equal dimensions, `copy_from(src)` is `writeAll s` on the
destination window, where `s x y` is what the *source's own view* shows at `(x, y)` — whatever the two
strides, offsets and root storages are. -/
theorem copy_from_eq_writeAll (root : List α) (v : View) (hv : ViewInv root.length v) (p : Win) (S : Nat)
    (ht : Tracks v p S) (srcRoot : List α) (src : View) (hs : ViewInv srcRoot.length src)
    (hd : v.w = src.w ∧ v.h = src.h) (s : Nat → Nat → α)
    (hsrc : ∀ x y, x < src.w → y < src.h → Buf.get srcRoot src x y = .ok (some (s x y))) :
    ∃ root', copyFrom root v srcRoot src = .ok root' ∧ ofFlat S root' = writeAll (ofFlat S root) p s := by
  obtain ⟨root', h1, h2, h3, h4⟩ := copyFrom_frame root v hv srcRoot src hs hd
  refine ⟨root', h1, frame_eq_writeAll root root' v hv p S ht _ h2 ?_ h4⟩
  intro x y hx hy
  obtain ⟨a, ha, hg⟩ := get_refines srcRoot src hs (x := x) (y := y) (by omega) (by omega)
  rw [h3 x y hx hy, ha]
  have := hsrc x y (by omega) (by omega)
  rw [hg] at this
  cases this
  rfl

/-- … with the source, too, read through the grid oracle: the destination grid afterwards is
`writeAll` of the source grid's window cells. Pure oracle vocabulary on the right-hand side. -/
theorem copy_from_eq_writeAll_grid (root : List α) (v : View) (hv : ViewInv root.length v) (p : Win) (S : Nat)
    (ht : Tracks v p S) (srcRoot : List α) (src : View) (hs : ViewInv srcRoot.length src) (q : Win) (T : Nat)
    (hq : Tracks src q T) (hd : v.w = src.w ∧ v.h = src.h) (s : Nat → Nat → α)
    (hsrc : ∀ x y, x < q.w → y < q.h → readCell (ofFlat T srcRoot) q x y = some (s x y)) :
    ∃ root', copyFrom root v srcRoot src = .ok root' ∧ ofFlat S root' = writeAll (ofFlat S root) p s := by
  apply copy_from_eq_writeAll root v hv p S ht srcRoot src hs hd s
  intro x y hx hy
  rw [get_refines_grid srcRoot src hs q T hq x y, hsrc x y (by rw [← hq.w]; exact hx) (by rw [← hq.h]; exact hy)]

/-- **Fast path = general path.** On every valid view `fill` computes what the row-by-row loop
computes — also when it takes the single `slice::fill` over `data[..w·h]` (`is_contiguous`). -/
theorem fill_fast_eq_general (root : List α) (v : View) (hv : ViewInv root.length v) (a : α) :
    Buf.fill root v a = rowsMutWrite root v (fun _ => List.replicate v.w a) := by
  obtain ⟨r1, e1, l1, i1, o1⟩ := fill_frame root v hv a
  obtain ⟨r2, e2, l2, i2, o2⟩ := rowsMut_frame root v hv (fun _ => List.replicate v.w a) (fun y _ => by simp)
  rw [e1, e2]
  congr 1
  apply List.ext_getElem?
  intro j
  by_cases hj : InView v j
  · obtain ⟨x, y, hx, hy, rfl⟩ := hj
    rw [i1 x y hx hy, i2 x y hx hy]
    simp [hx]
  · rw [o1 j hj, o2 j hj]

/-- The fast path in its own terms: for a contiguous valid view the single run of `w·h` stores from
`off` is the row-by-row result. -/
theorem fill_contiguous_run (root : List α) (v : View) (hv : ViewInv root.length v)
    (hc : isContiguous v = true) (a : α) :
    rowsMutWrite root v (fun _ => List.replicate v.w a) =
      .ok (setRun root v.off (List.replicate (v.w * v.h) a)) := by
  rw [← fill_fast_eq_general root v hv a]
  obtain ⟨r1, e1, _⟩ := fill_frame root v hv a
  have hfit := viewFits_of_inv root v hv
  rw [e1]
  simp only [Buf.fill, hc, if_true, hfit, not_true_eq_false, if_false] at e1
  split_ifs at e1 with hlen
  · rw [← e1]

/-! ### Order of the stores (= order of the closure calls of `fill_with`) -/

/-- The stores of `setRun`, in program order, as `(root index, value)`. -/
def runTrace (start : Nat) : List α → List (Nat × α)
  | [] => []
  | a :: as => (start, a) :: runTrace (start + 1) as

/-- The stores of `writeRows`, in program order. -/
def rowsTrace (off : Nat) : List Nat → List (List α) → List (Nat × α)
  | s :: ss, r :: rs => runTrace (off + s) r ++ rowsTrace off ss rs
  | _, _ => []

/-- Perform a sequence of single-element stores, first to last. -/
def replay (root : List α) (tr : List (Nat × α)) : List α := tr.foldl (fun r p => r.set p.1 p.2) root

theorem setRun_eq_replay (root : List α) (s : Nat) (vals : List α) :
    setRun root s vals = replay root (runTrace s vals) := by
  induction vals generalizing root s with
  | nil => rfl
  | cons a as ih => simp only [setRun, runTrace, replay, List.foldl_cons]; exact ih _ _

theorem writeRows_eq_replay (root : List α) (off : Nat) (starts : List Nat) (rows : List (List α)) :
    writeRows root off starts rows = replay root (rowsTrace off starts rows) := by
  induction starts generalizing root rows with
  | nil => cases rows <;> rfl
  | cons s ss ih =>
    cases rows with
    | nil => rfl
    | cons r rs =>
      simp only [writeRows, rowsTrace, replay, List.foldl_append]
      rw [ih, setRun_eq_replay]
      rfl

theorem runTrace_map_range (s n : Nat) (g : Nat → α) :
    runTrace s ((List.range n).map g) = (List.range n).map (fun x => (s + x, g x)) := by
  induction n generalizing s g with
  | zero => rfl
  | succ n ih =>
    rw [List.range_succ_eq_map, List.map_cons, List.map_map, runTrace, ih, List.map_cons, List.map_map]
    congr 1
    apply List.map_congr_left
    intro x _
    simp only [Function.comp, Nat.succ_eq_add_one]
    congr 1
    omega

theorem rowsTrace_map (off : Nat) {ι : Type} (l : List ι) (g1 : ι → Nat) (g2 : ι → List α) :
    rowsTrace off (l.map g1) (l.map g2) = (l.map (fun i => runTrace (off + g1 i) (g2 i))).flatten := by
  induction l with
  | nil => rfl
  | cons i is ih => simp only [List.map_cons, rowsTrace, ih, List.flatten_cons]

/-- Row-major enumeration: the rows `y = 0 … h−1` of `G · y` over `x = 0 … w−1`, concatenated, list
`G (k mod w) (k div w)` for `k = 0 … w·h − 1`. -/
theorem rowMajor_flatten {β : Type} (w h : Nat) (G : Nat → Nat → β) :
    ((List.range h).map (fun y => (List.range w).map (fun x => G x y))).flatten =
      (List.range (w * h)).map (fun k => G (k % w) (k / w)) := by
  rcases Nat.eq_zero_or_pos w with hw | hw
  · subst hw; simp
  · induction h with
    | zero => simp
    | succ h ih =>
      rw [List.range_succ, List.map_append, List.flatten_append, ih, Nat.mul_succ, List.range_add,
        List.map_append, List.map_map]
      congr 1
      simp only [List.map_cons, List.map_nil, List.flatten_cons, List.flatten_nil, List.append_nil]
      apply List.map_congr_left
      intro x hx
      have hx := List.mem_range.mp hx
      simp only [Function.comp]
      rw [Nat.mul_add_mod, Nat.mod_eq_of_lt hx, Nat.mul_add_div hw, Nat.div_eq_of_lt hx, Nat.add_zero]

/-- **Store order of everything that goes through `rows_mut()`.** On a valid view the `k`-th store
(`k = 0 … w·h − 1`) goes to cell `(k mod w, k div w)` — root index `off + (k div w)·stride + k mod w` —
and stores `g (k mod w) (k div w)`; there are no other stores. -/
theorem rowsMut_store_order (root : List α) (v : View) (hv : ViewInv root.length v) (g : Nat → Nat → α) :
    rowsMutWrite root v (fun y => (List.range v.w).map (fun x => g x y)) =
      .ok (replay root ((List.range (v.w * v.h)).map
        (fun k => (v.off + ((k / v.w) * v.stride + k % v.w), g (k % v.w) (k / v.w))))) := by
  rcases Nat.eq_zero_or_pos v.w with hw | hw
  · obtain ⟨starts, hs, _⟩ := rowWindows_zero_width hw
    have hnil : ∀ r ∈ (List.range starts.length).map (fun y => (List.range v.w).map (fun x => g x y)), r = [] := by
      intro r hr
      obtain ⟨y, _, rfl⟩ := List.mem_map.mp hr
      simp [hw]
    simp only [rowsMutWrite, viewFits_of_inv root v hv, hs, not_true_eq_false, if_false]
    rw [writeRows_nil_rows _ _ _ _ hnil, hw, Nat.zero_mul]
    rfl
  · simp only [rowsMutWrite, viewFits_of_inv root v hv, rowWindows_pos hv.1 hw, List.length_map,
      List.length_range, not_true_eq_false, if_false]
    rw [writeRows_eq_replay, rowsTrace_map]
    congr 2
    rw [← rowMajor_flatten v.w v.h (fun x y => (v.off + (y * v.stride + x), g x y))]
    congr 1
    apply List.map_congr_left
    intro y _
    rw [runTrace_map_range]
    apply List.map_congr_left
    intro x _
    simp only [Nat.add_assoc]

/-- **fill_with: row-major evaluation order.** The `k`-th call of the closure is `f(k mod w, k div w)`
and its result is stored in cell `(k mod w, k div w)` before the next call: `fill_with` is this
sequence of `w·h` single stores. -/
theorem fill_with_call_order (root : List α) (v : View) (hv : ViewInv root.length v) (f : Nat → Nat → α) :
    fillWith root v f =
      .ok (replay root ((List.range (v.w * v.h)).map
        (fun k => (v.off + ((k / v.w) * v.stride + k % v.w), f (k % v.w) (k / v.w))))) :=
  rowsMut_store_order root v hv f

/-- **iter_mut: row-major order.** The `k`-th element `iter_mut()` yields is cell `(k mod w, k div w)`:
storing `seq k` in the `k`-th yielded element is this sequence of single stores. -/
theorem iter_mut_store_order (root : List α) (v : View) (hv : ViewInv root.length v) (seq : Nat → α) :
    rowsMutWrite root v (fun y => (List.range v.w).map (fun x => seq (y * v.w + x))) =
      .ok (replay root ((List.range (v.w * v.h)).map
        (fun k => (v.off + ((k / v.w) * v.stride + k % v.w), seq k)))) := by
  rw [rowsMut_store_order root v hv (fun x y => seq (y * v.w + x))]
  congr 2
  apply List.map_congr_left
  intro k _
  congr 2
  rw [Nat.mul_comm]
  exact Nat.div_add_mod k v.w

/-! ### Every view the API can produce is a window of the grid of its root stride -/

theorem childOf_stride (v : View) (rc : Rect) : (childOf v rc).stride = v.stride := by
  unfold childOf
  split_ifs <;> rfl

/-- Every reachable view tracks some window of the grid whose pitch is the view's stride, so the
equations above apply to every view obtainable through the API (with `reachable_inv`). -/
theorem reachable_tracks {n : Nat} {v : View} (hr : Reachable n v) : ∃ p, Tracks v p v.stride := by
  induction hr with
  | @root w h s v hs =>
    have ht := tracks_root hs
    obtain ⟨_, e⟩ := (sliceNew_ok_iff _ _ _ _ _).mp hs
    have : v.stride = s := by rw [e]
    rw [this]
    exact ⟨_, ht⟩
  | @slice v c rc hrv hs ih =>
    obtain ⟨p, hp⟩ := ih
    have hv := reachable_inv hrv
    have hin : Inside rc v := (slice_ok_iff n v hv rc).mp ⟨c, hs⟩
    rw [(slice_total n v hv rc hin).1] at hs
    cases hs
    rw [childOf_stride]
    exact ⟨_, (tracks_slice hp rc hin).1⟩
  | @asSlice v c hrv hs ih =>
    rw [asSlice_id (reachable_inv hrv)] at hs
    cases hs
    exact ih

end BulkGrid

/-! ## Non-vacuity: concrete values meeting the hypotheses above, and the former defect witnesses -/

section Examples

/-- A 2×2 view with stride 3 over 8 elements (surplus data), as `Slice2::new((2,2), 3, &[0..8])`. -/
def exV : View := { w := 2, h := 2, stride := 3, off := 0, len := 8 }
def exRoot : List Nat := [10, 11, 12, 13, 14, 15, 16, 17]

example : sliceNew 2 2 3 8 = .ok exV := by decide
example : Reachable 8 exV := Reachable.root (w := 2) (h := 2) (s := 3) (by decide)
example : ViewInv exRoot.length exV := by decide
example : Inside (Rect.ofCorners 1 0 2 2) exV := by decide
example : ValidPath exV [Rect.ofCorners 0 0 2 2, Rect.ofCorners 1 1 2 2] := by
  refine ⟨by decide, by decide, trivial⟩
example : descend exV [Rect.ofCorners 0 0 2 2, Rect.ofCorners 1 1 2 2] =
    { w := 1, h := 1, stride := 3, off := 4, len := 1 } := by decide
example : origin exV [Rect.ofCorners 0 0 2 2, Rect.ofCorners 1 1 2 2] = (1, 1) := by decide
example : Tracks exV { x0 := 0, y0 := 0, w := 2, h := 2 } 3 := tracks_root (n := 8) (by decide)
-- D1: exactly two rows although the data would allow a third chunk
example : Buf.rows exRoot exV = .ok [[10, 11], [13, 14]] := by decide
-- D2: fill on a contiguous view with surplus leaves the surplus alone
example : Buf.fill [0, 0, 0, 0, 7, 7] { w := 2, h := 2, stride := 2, off := 0, len := 6 } 1 = .ok [1, 1, 1, 1, 7, 7] := by
  decide
-- D3/D4: the 0x0 and 0x5 buffers exist and have no rows / at most 5 empty rows
example : (buf2New 0 0 (0 : Nat)).isOk = true ∧ (buf2New 0 5 (0 : Nat)).isOk = true := by decide
example : Buf.rows ([] : List Nat) { w := 0, h := 5, stride := 0, off := 0, len := 0 } = .ok [] := by decide
-- empty row range at the bottom edge of a 4x5 buffer (fixed by 5f2ee11): a 4x0 view, no panic
example : Buf.slice { w := 4, h := 5, stride := 4, off := 0, len := 20 } (Rect.ofCorners 0 5 4 5) =
    .ok { w := 4, h := 0, stride := 4, off := 0, len := 0 } := by decide
-- row index 2^32 + 1 of a 2x2 buffer (fixed by b7ab254): out of bounds, not row 1
example : rowIndex [1, 2, 3, 4] { w := 2, h := 2, stride := 2, off := 0, len := 4 } 4294967297 =
    .panic "position out of bounds" := by decide


/-! ### Bulk writers = `writeAll`: a strided 3×2 window at (1, 1) of a 5×4 storage -/

/-- `Slice2::new((5, 4), 5, &[0..20])`, then `.slice((1..4, 1..3))`. -/
def exRoot5 : List Nat := List.range 20
def exV5 : View := { w := 5, h := 4, stride := 5, off := 0, len := 20 }
def exW : View := { w := 3, h := 2, stride := 5, off := 6, len := 8 }
def exP : Retro.Spec.Grid.Win := { x0 := 1, y0 := 1, w := 3, h := 2 }

example : sliceNew 5 4 5 20 = .ok exV5 ∧ Buf.slice exV5 (Rect.ofCorners 1 1 4 3) = .ok exW := by decide
example : Reachable 20 exW :=
  Reachable.slice (v := exV5) (rc := Rect.ofCorners 1 1 4 3)
    (Reachable.root (w := 5) (h := 4) (s := 5) (v := exV5) (by decide)) (by decide)
example : ViewInv exRoot5.length exW ∧ isContiguous exW = false := by decide
example : Tracks exW exP 5 := ⟨rfl, rfl, rfl, by decide, Or.inr (by decide)⟩
-- the window is what `tracks_root` + `tracks_slice` compute
example : (Retro.Spec.Grid.Win.mk 0 0 5 4).sub 1 1 4 3 = exP := by decide
-- fill: the equation, evaluated
example : Buf.fill exRoot5 exW 99 = .ok [0, 1, 2, 3, 4, 5, 99, 99, 99, 9, 10, 99, 99, 99, 14, 15, 16, 17, 18, 19] := by decide
example : Retro.Spec.Grid.writeAll (Retro.Spec.Grid.ofFlat 5 exRoot5) exP (fun _ _ => 99) =
    [[0, 1, 2, 3, 4], [5, 99, 99, 99, 9], [10, 99, 99, 99, 14], [15, 16, 17, 18, 19]] := by decide
example : Retro.Spec.Grid.ofFlat 5 [0, 1, 2, 3, 4, 5, 99, 99, 99, 9, 10, 99, 99, 99, 14, 15, 16, 17, 18, 19] =
    Retro.Spec.Grid.writeAll (Retro.Spec.Grid.ofFlat 5 exRoot5) exP (fun _ _ => 99) := by decide
-- fill_with: `f x y = 100·y + x`, window coordinates
example : fillWith exRoot5 exW (fun x y => 100 * y + x) =
    .ok (Retro.Spec.Grid.toFlat (Retro.Spec.Grid.writeAll (Retro.Spec.Grid.ofFlat 5 exRoot5) exP (fun x y => 100 * y + x))) := by
  decide
example : fillWith exRoot5 exW (fun x y => 100 * y + x) =
    .ok [0, 1, 2, 3, 4, 5, 0, 1, 2, 9, 10, 100, 101, 102, 14, 15, 16, 17, 18, 19] := by decide
-- … and its store order: the k-th store goes to cell (k mod 3, k div 3)
example : (List.range (exW.w * exW.h)).map (fun k => (exW.off + ((k / exW.w) * exW.stride + k % exW.w), k % exW.w, k / exW.w)) =
    [(6, 0, 0), (7, 1, 0), (8, 2, 0), (11, 0, 1), (12, 1, 1), (13, 2, 1)] := by decide
-- copy_from a strided 3×2 source (stride 4, offset 1 of 12 elements)
example : ViewInv 12 { w := 3, h := 2, stride := 4, off := 1, len := 7 } := by decide
example : copyFrom exRoot5 exW ((List.range 12).map (· + 500)) { w := 3, h := 2, stride := 4, off := 1, len := 7 } =
    .ok [0, 1, 2, 3, 4, 5, 501, 502, 503, 9, 10, 505, 506, 507, 14, 15, 16, 17, 18, 19] := by decide
example : ∀ x, x < 3 → ∀ y, y < 2 →
    Buf.get ((List.range 12).map (· + 500)) { w := 3, h := 2, stride := 4, off := 1, len := 7 } x y =
      .ok (some (501 + 4 * y + x)) := by decide
-- fast path = general path on a contiguous view with surplus data (2×2, stride 2, 6 elements)
example : isContiguous { w := 2, h := 2, stride := 2, off := 0, len := 6 } = true ∧
    Buf.fill [0, 0, 0, 0, 7, 7] { w := 2, h := 2, stride := 2, off := 0, len := 6 } 1 =
      rowsMutWrite [0, 0, 0, 0, 7, 7] { w := 2, h := 2, stride := 2, off := 0, len := 6 } (fun _ => List.replicate 2 1) := by
  decide

end Examples

end Retro.Props.C11
