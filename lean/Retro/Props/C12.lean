/-
C12 — texture samplers address the right texel and never go out of bounds.

Every theorem is about the model functions of `Retro.Model.Tex` that the driver `drv_c12` runs, and
quantifies over *all* `f32` bit patterns of the coordinate (`x : UInt32`), reasoning on the decoded
exact value `toRat? x`, never by enumeration.  Helper lemmas: `Retro.Lemmas.F32Ops`, `…F32Round`.
-/
import Retro.Model.Tex
import Retro.Spec.Tex
import Retro.Lemmas.F32Ops
import Retro.Lemmas.F32Nearest

namespace Retro.Props.C12
open Retro Retro.F32 Retro.Tex

/-! ### Repeating sampler, one axis -/

/-- `… & (2^k − 1)` is below `2^k` for every bit pattern: NaN, ±∞, huge values included. -/
theorem repeat_in_bounds (k : ℕ) (x : UInt32) : repeatAxis (2 ^ k - 1) x < 2 ^ k := by
  unfold repeatAxis repeatAxisF
  have h : i32ToU32 (toI32Sat (floor x)) &&& (2 ^ k - 1) ≤ 2 ^ k - 1 := Nat.and_le_right
  have : 0 < 2 ^ k := Nat.two_pow_pos k
  omega

theorem floor_i32_of_small {x : UInt32} {q : ℚ} (hx : toRat? x = some q) (hq : |q| < 2 ^ 31) :
    toI32Sat (floor x) = ⌊q⌋ := by
  have hb := abs_lt.1 hq
  have hlo : -(2 ^ 31 : ℤ) ≤ ⌊q⌋ := by
    apply Int.le_floor.2; push_cast; exact le_of_lt hb.1
  have hhi : ⌊q⌋ < 2 ^ 31 := by
    apply Int.floor_lt.2; exact_mod_cast hb.2
  unfold toI32Sat
  apply toIntSat_int (floor_value hx) <;> unfold pow31 <;> omega

/-- Two's-complement reinterpretation followed by the mask is the Euclidean remainder. -/
theorem wrap_mask_eq_emod (z : ℤ) (k : ℕ) (hk : k ≤ 32) :
    ((i32ToU32 z &&& (2 ^ k - 1) : ℕ) : ℤ) = z % 2 ^ k := by
  unfold i32ToU32 pow32
  rw [Nat.and_two_pow_sub_one_eq_mod]
  have hnn : 0 ≤ z % 4294967296 := Int.emod_nonneg _ (by norm_num)
  rw [Int.natCast_mod, Int.toNat_of_nonneg hnn]
  push_cast
  have hd : (2 : ℤ) ^ k ∣ 4294967296 := by
    have : (4294967296 : ℤ) = 2 ^ 32 := by norm_num
    rw [this]; exact pow_dvd_pow 2 hk
  exact Int.emod_emod_of_dvd z hd

/-- **repeat_index.** For every coordinate below `2^31` in magnitude the repeating sampler addresses
`⌊x⌋ mod 2^k` (Euclidean remainder – negative coordinates wrap from the far edge). -/
theorem repeat_index (k : ℕ) (hk : k ≤ 32) {x : UInt32} {q : ℚ} (hx : toRat? x = some q)
    (hq : |q| < 2 ^ 31) : ((repeatAxis (2 ^ k - 1) x : ℕ) : ℤ) = ⌊q⌋ % 2 ^ k := by
  unfold repeatAxis repeatAxisF
  rw [floor_i32_of_small hx hq]
  exact wrap_mask_eq_emod _ k hk

/-- The model index agrees with the independent spec function `Spec.Tex.repeatIdx`. -/
theorem repeat_index_spec (k : ℕ) (hk : k ≤ 32) {x : UInt32} {q : ℚ} (hx : toRat? x = some q)
    (hq : |q| < 2 ^ 31) : repeatAxis (2 ^ k - 1) x = Spec.Tex.repeatIdx (2 ^ k) q := by
  have h := repeat_index k hk hx hq
  unfold Spec.Tex.repeatIdx
  have : (q.floor : ℤ) = ⌊q⌋ := rfl
  rw [this]; push_cast
  omega

-- hypotheses are satisfiable: x = -2.5 (0xC0200000) on a 4-wide texture addresses texel 1
example : toRat? 0xC0200000 = some (-5/2) ∧ repeatAxis (2 ^ 2 - 1) 0xC0200000 = 1 := by decide +kernel

/-- NaN addresses texel 0. -/
theorem repeat_nan (mask : ℕ) {x : UInt32} (h : isNaN x = true) : repeatAxis mask x = 0 := by
  unfold repeatAxis repeatAxisF toI32Sat
  rw [toIntSat_nan (by rw [floor_isNaN]; exact h)]
  simp [i32ToU32]

example : isNaN 0x7FC00001 = true := by decide +kernel

/-! ### Saturating and truncating casts used by the other samplers -/

/-- `x as u32` of a value in `[0, 2^32)` is its integer part. -/
theorem toU32Sat_of_nonneg {x : UInt32} {q : ℚ} (hx : toRat? x = some q) (h0 : 0 ≤ q)
    (h1 : q < 2 ^ 32) : toU32Sat x = ⌊q⌋.toNat := by
  unfold toU32Sat
  rw [toIntSat_finite hx, ratTrunc_nonneg h0]
  have hf0 : 0 ≤ ⌊q⌋ := Int.floor_nonneg.2 h0
  have hf1 : ⌊q⌋ < 2 ^ 32 := by apply Int.floor_lt.2; exact_mod_cast h1
  unfold pow32
  rw [if_neg (by omega), if_neg (by omega)]

/-- `x as u32` of a non-positive value is 0. -/
theorem toU32Sat_of_nonpos {x : UInt32} {q : ℚ} (hx : toRat? x = some q) (h0 : q ≤ 0) :
    toU32Sat x = 0 := by
  unfold toU32Sat
  rw [toIntSat_finite hx]
  have : ratTrunc q ≤ 0 := by
    rcases lt_or_eq_of_le h0 with h | h
    · rw [ratTrunc_neg h]
      have : 0 ≤ ⌊-q⌋ := Int.floor_nonneg.2 (by linarith)
      omega
    · rw [h]; have := ratTrunc_intCast 0; simp at this; rw [this]
  unfold pow32
  split
  · rfl
  · split
    · omega
    · omega

/-- **once_index.** In-range coordinates: the unchecked sampler addresses `⌊x⌋`. -/
theorem once_index {x : UInt32} {q : ℚ} (hx : toRat? x = some q) (h0 : 0 ≤ q) (h1 : q < 2 ^ 32) :
    onceAxis x = ⌊q⌋.toNat := toU32Sat_of_nonneg hx h0 h1

/-! ### Clamping sampler, one axis -/

/-- The clamp to `[0, hi]` of a finite coordinate, as exact value. -/
theorem clamp_finite {x hi : UInt32} {q h : ℚ} (hx : toRat? x = some q) (hhi : toRat? hi = some h)
    (h0 : 0 ≤ h) : ∃ c, clamp x 0 hi = .ok c ∧ toRat? c = some (max 0 (min q h)) := by
  unfold clamp
  rw [le_finite toRat?_zero hhi, gt, lt_finite hx toRat?_zero, lt_finite hhi hx]
  simp only [h0, decide_true, Bool.not_true, Bool.false_eq_true, ↓reduceIte]
  by_cases hq0 : q < 0
  · refine ⟨0, by simp [hq0], ?_⟩
    rw [toRat?_zero, max_eq_left]
    exact le_trans (min_le_left _ _) (le_of_lt hq0)
  · by_cases hqh : h < q
    · refine ⟨hi, by simp [hq0, hqh], ?_⟩
      rw [hhi, min_eq_right (le_of_lt hqh), max_eq_right h0]
    · refine ⟨x, by simp [hq0, hqh], ?_⟩
      rw [hx, min_eq_left (not_lt.1 hqh), max_eq_right (not_lt.1 hq0)]

/-- **clamp_index.** For a finite upper bound `hi = h ≥ 0` (below `2^32`) and a finite coordinate
the clamping sampler addresses `⌊clamp(x, 0, h)⌋`. -/
theorem clamp_index {x hi : UInt32} {q h : ℚ} (hx : toRat? x = some q) (hhi : toRat? hi = some h)
    (h0 : 0 ≤ h) (h1 : h < 2 ^ 32) :
    clampAxisHi hi x = .ok (⌊max 0 (min q h)⌋.toNat) := by
  obtain ⟨c, hc, hv⟩ := clamp_finite hx hhi h0
  unfold clampAxisHi clampAxisHiF
  rw [hc]; dsimp only
  have hm0 : 0 ≤ max 0 (min q h) := le_max_left _ _
  have hmh : max 0 (min q h) ≤ h := max_le h0 (min_le_right _ _)
  have hfv := floor_value hv
  have hfl0 : (0 : ℚ) ≤ ((⌊max 0 (min q h)⌋ : ℤ) : ℚ) := by
    exact_mod_cast Int.floor_nonneg.2 hm0
  have hfl1 : ((⌊max 0 (min q h)⌋ : ℤ) : ℚ) < 2 ^ 32 :=
    lt_of_le_of_lt (Int.floor_le _) (lt_of_le_of_lt hmh h1)
  rw [toU32Sat_of_nonneg hfv hfl0 hfl1, Int.floor_intCast]

-- satisfiable: x = 3.7 clamped into a 3-wide axis (bound 2.0) addresses texel 2
example : toRat? 0x40000000 = some 2 ∧ clampAxisHi 0x40000000 0x406CCCCD = .ok 2 := by decide +kernel

/-- The model index agrees with the independent spec function when `h = w − 1`. -/
theorem clamp_index_spec {x hi : UInt32} {q : ℚ} {w : ℕ} (hw : 1 ≤ w) (hw' : w ≤ 2 ^ 32)
    (hx : toRat? x = some q) (hhi : toRat? hi = some ((w : ℚ) - 1)) :
    clampAxisHi hi x = .ok (Spec.Tex.clampIdx w q) := by
  have hw1 : (1 : ℚ) ≤ w := by exact_mod_cast hw
  have hw2 : (w : ℚ) ≤ 2 ^ 32 := by exact_mod_cast hw'
  rw [clamp_index hx hhi (by linarith) (by linarith)]
  congr 1
  unfold Spec.Tex.clampIdx
  by_cases hq0 : q ≤ 0
  · rw [if_pos hq0, max_eq_left (le_trans (min_le_left _ _) hq0)]; simp
  · rw [if_neg hq0]
    by_cases hqw : q ≥ (w : ℚ) - 1
    · rw [if_pos hqw, min_eq_right hqw, max_eq_right (by linarith)]
      have : ((w : ℚ) - 1) = (((w : ℤ) - 1 : ℤ) : ℚ) := by push_cast; ring
      rw [this, Int.floor_intCast]; omega
    · rw [if_neg hqw, min_eq_left (le_of_lt (not_le.1 hqw)), max_eq_right (le_of_lt (not_le.1 hq0))]
      rfl

/-- NaN: `clamp` keeps it, `floor` keeps it, `as u32` gives texel 0. -/
theorem clamp_nan {x hi : UInt32} {h : ℚ} (hx : isNaN x = true) (hhi : toRat? hi = some h)
    (h0 : 0 ≤ h) : clampAxisHi hi x = .ok 0 := by
  unfold clampAxisHi clampAxisHiF clamp
  rw [le_finite toRat?_zero hhi, gt, lt_nan_left hx, lt_nan_right hx]
  simp only [h0, decide_true, Bool.not_true, Bool.false_eq_true, ↓reduceIte]
  unfold toU32Sat
  rw [toIntSat_nan (by rw [floor_isNaN]; exact hx)]; rfl

/-- **clamp_in_bounds.** For *every* bit pattern of the coordinate (NaN, ±∞ included) the clamping
sampler returns an index, and it is at most `⌊h⌋`. -/
theorem clamp_in_bounds {hi : UInt32} {h : ℚ} (hhi : toRat? hi = some h) (h0 : 0 ≤ h)
    (h1 : h < 2 ^ 32) (x : UInt32) : ∃ u, clampAxisHi hi x = .ok u ∧ u ≤ ⌊h⌋.toNat := by
  cases hx : toRat? x with
  | some q =>
    refine ⟨_, clamp_index hx hhi h0 h1, ?_⟩
    apply Int.toNat_le_toNat
    exact Int.floor_le_floor (max_le h0 (min_le_right _ _))
  | none =>
    by_cases hn : isNaN x = true
    · exact ⟨0, clamp_nan hn hhi h0, Nat.zero_le _⟩
    · -- ±∞
      have hn' : isNaN x = false := by simpa using hn
      have hi_nn : isNaN hi = false := isNaN_eq_false_of_some hhi
      unfold clampAxisHi clampAxisHiF clamp
      rw [le_finite toRat?_zero hhi]
      simp only [h0, decide_true, Bool.not_true, Bool.false_eq_true, ↓reduceIte]
      have hlt0 : lt x 0 = signBit x := by
        unfold lt; rw [hn', hx, toRat?_zero]; simp [isNaN_eq_false_of_some toRat?_zero]
      have hgt : gt x hi = !signBit x := by
        unfold gt lt; rw [hn', hi_nn, hx, hhi]; simp
      rw [hlt0, hgt]
      cases hs : signBit x
      · -- +∞ ↦ hi
        simp only [Bool.false_eq_true, ↓reduceIte, Bool.not_false]
        have hfv := floor_value hhi
        have hfl0 : (0 : ℚ) ≤ ((⌊h⌋ : ℤ) : ℚ) := by exact_mod_cast Int.floor_nonneg.2 h0
        have hfl1 : ((⌊h⌋ : ℤ) : ℚ) < 2 ^ 32 := lt_of_le_of_lt (Int.floor_le _) h1
        refine ⟨_, rfl, ?_⟩
        rw [toU32Sat_of_nonneg hfv hfl0 hfl1, Int.floor_intCast]
      · -- −∞ ↦ 0
        simp only [↓reduceIte]
        refine ⟨_, rfl, ?_⟩
        have : toRat? (floor 0) = some ((⌊(0 : ℚ)⌋ : ℤ) : ℚ) := floor_value toRat?_zero
        rw [toU32Sat_of_nonpos this (by simp)]; exact Nat.zero_le _

/-- The upper clamp bound `tex.w - 1.0` is exact for every width up to `2^24`. -/
theorem clamp_hi_exact {w : ℕ} (hw : 1 ≤ w) (hw' : w ≤ 2 ^ 24) :
    toRat? (sub (intToF32 (w : ℤ)) one) = some ((w : ℚ) - 1) := by
  have h1 : toRat? (intToF32 (w : ℤ)) = some ((w : ℤ) : ℚ) :=
    toRat?_intToF32 (by rw [abs_of_nonneg (by omega)]; exact_mod_cast hw')
  have h2 : Rep (((w : ℤ) : ℚ) - 1) := by
    have : (((w : ℤ) : ℚ) - 1) = (((w : ℤ) - 1 : ℤ) : ℚ) := by push_cast; ring
    rw [this]; apply rep_int
    rw [abs_of_nonneg (by omega)]
    have : (w : ℤ) ≤ 2 ^ 24 := by exact_mod_cast hw'
    omega
  have := sub_one_exact h1 h2
  rw [this]; push_cast; rfl

/-- **clamp_axis_in_bounds.** With the real bound `tex.w − 1.0`, for every texture width
`1 ≤ w ≤ 2^24` and every coordinate bit pattern, the index is below `w`. -/
theorem clamp_axis_in_bounds {w : ℕ} (hw : 1 ≤ w) (hw' : w ≤ 2 ^ 24) (x : UInt32) :
    ∃ u, clampAxis (intToF32 (w : ℤ)) x = .ok u ∧ u < w := by
  have hw1 : (1 : ℚ) ≤ w := by exact_mod_cast hw
  have hw2 : (w : ℚ) ≤ 2 ^ 24 := by exact_mod_cast hw'
  obtain ⟨u, hu, hle⟩ := clamp_in_bounds (clamp_hi_exact hw hw') (by linarith)
    (by linarith) x
  refine ⟨u, hu, ?_⟩
  have : ((w : ℚ) - 1) = (((w : ℤ) - 1 : ℤ) : ℚ) := by push_cast; ring
  rw [this, Int.floor_intCast] at hle
  omega

example : clampAxis (intToF32 (5 : ℕ)) 0x41200000 = .ok 4 := by decide +kernel   -- x = 10.0

/-! ### The unchecked sampler agrees with both others on in-range coordinates -/

/-- **once_agrees (clamp).** `0 ≤ x < w`: same index as the clamping sampler. -/
theorem once_agrees_clamp {x hi : UInt32} {q : ℚ} {w : ℕ} (hw' : w ≤ 2 ^ 32)
    (hx : toRat? x = some q) (hhi : toRat? hi = some ((w : ℚ) - 1)) (h0 : 0 ≤ q) (h1 : q < w) :
    clampAxisHi hi x = .ok (onceAxis x) := by
  have hw2 : (w : ℚ) ≤ 2 ^ 32 := by exact_mod_cast hw'
  have hwpos : (0 : ℚ) < w := lt_of_le_of_lt h0 h1
  have hw : 1 ≤ w := by
    have : (0 : ℕ) < w := by exact_mod_cast hwpos
    omega
  have hw1 : (1 : ℚ) ≤ w := by exact_mod_cast hw
  rw [clamp_index hx hhi (by linarith) (by linarith), once_index hx h0 (by linarith)]
  congr 2
  rw [max_eq_right (le_min h0 (by linarith))]
  by_cases hqw : q ≤ (w : ℚ) - 1
  · rw [min_eq_left hqw]
  · -- w − 1 < q < w: both floors are w − 1
    rw [min_eq_right (le_of_lt (not_le.1 hqw))]
    have e : ((w : ℚ) - 1) = (((w : ℤ) - 1 : ℤ) : ℚ) := by push_cast; ring
    rw [e, Int.floor_intCast]
    symm; rw [Int.floor_eq_iff]
    constructor
    · rw [← e]; exact le_of_lt (not_le.1 hqw)
    · rw [← e]; linarith

/-- **once_agrees (repeat).** `0 ≤ x < 2^k`: same index as the repeating sampler. -/
theorem once_agrees_repeat (k : ℕ) (hk : k ≤ 31) {x : UInt32} {q : ℚ} (hx : toRat? x = some q)
    (h0 : 0 ≤ q) (h1 : q < 2 ^ k) : repeatAxis (2 ^ k - 1) x = onceAxis x := by
  have hk' : (2 : ℚ) ^ k ≤ 2 ^ 31 := pow_le_pow_right₀ (by norm_num) hk
  have habs : |q| < 2 ^ 31 := by rw [abs_of_nonneg h0]; linarith
  have h := repeat_index k (by omega) hx habs
  rw [once_index hx h0 (by linarith)]
  have hf0 : 0 ≤ ⌊q⌋ := Int.floor_nonneg.2 h0
  have hf1 : ⌊q⌋ < 2 ^ k := by apply Int.floor_lt.2; exact_mod_cast h1
  rw [Int.emod_eq_of_lt hf0 hf1] at h
  omega

example : toRat? 0x40600000 = some (7/2) ∧ repeatAxis (2 ^ 2 - 1) 0x40600000 = onceAxis 0x40600000 := by
  decide +kernel

/-! ### Relative-coordinate entry points -/

/-- **sample_rel_eq_abs_scaled.** `sample(tc) = sample_abs(w·u, h·v)` with the `f32` products. -/
theorem repeat_sample_rel_eq_abs_scaled (s : RepeatPot) (t : Texture) (u v : UInt32) :
    repeatSample s t u v = repeatSampleAbs s t (mul t.w u) (mul t.h v) := rfl
theorem clamp_sample_rel_eq_abs_scaled (t : Texture) (u v : UInt32) :
    clampSample t u v = clampSampleAbs t (mul u t.w) (mul v t.h) := rfl
theorem once_sample_rel_eq_abs_scaled (t : Texture) (u v : UInt32) :
    onceSample t u v = onceSampleAbs t (mul t.w u) (mul t.h v) := rfl

/-- Scaling by a power-of-two texture size is exact (no rounding) for every coordinate below
`2^100` in magnitude: `tex.width() * tc.u()` *is* `2^k · u`. -/
theorem mul_two_pow_exact {k : ℕ} (hk : k ≤ 24) {u : UInt32} {q : ℚ} (hu : toRat? u = some q)
    (hq : |q| < 2 ^ 100) :
    toRat? (mul (intToF32 ((2 ^ k : ℕ) : ℤ)) u) = some (2 ^ k * q) := by
  have hw := toRat?_intToF32_two_pow (k := k) (by omega)
  unfold mul
  rw [isNaN_eq_false_of_some hw, isNaN_eq_false_of_some hu, hw, hu]
  simp only [Bool.or_self, Bool.false_eq_true, ↓reduceIte]
  by_cases h0 : q = 0
  · have : ((2 : ℚ) ^ k * q == 0) = true := by simp [h0]
    rw [this, h0]; simp [toRat?_zeroS]
  · have hne : (2 : ℚ) ^ k * q ≠ 0 := mul_ne_zero (by positivity) h0
    have : ((2 : ℚ) ^ k * q == 0) = false := by simpa using hne
    rw [this]
    simp only [Bool.false_eq_true, ↓reduceIte]
    apply toRat?_ofRat
    -- representability of 2^k · q from the normal form of q
    obtain ⟨E, R, hE, hR, hv⟩ := rep_normalize (rep_of_toRat? hu) h0
    have habs : |(2 : ℚ) ^ k * q| = (2 : ℚ) ^ k * |q| := by
      rw [abs_mul, abs_of_pos (by positivity)]
    unfold magOf at hv
    by_cases hE0 : E = 0
    · rw [if_pos hE0] at hv
      refine ⟨R, (-149 : ℤ) + k, by omega, by omega, by omega, ?_⟩
      rw [habs, hv, zpow_add₀ (by norm_num : (2 : ℚ) ≠ 0), zpow_natCast]; ring
    · rw [if_neg hE0] at hv
      -- |q| ≥ 2^(E-127) and |q| < 2^100 give E < 227
      have hElt : E < 227 := by
        by_contra hge
        have hge' : (227 : ℤ) ≤ E := by omega
        have h1 : (2 : ℚ) ^ (77 : ℤ) ≤ (2 : ℚ) ^ ((E : ℤ) - 150) :=
          zpow_le_zpow_right₀ (by norm_num) (by omega)
        have h2 : (2 : ℚ) ^ 23 ≤ ((R + 2 ^ 23 : ℕ) : ℚ) := by push_cast; linarith [Nat.cast_nonneg (α := ℚ) R]
        have h3 : (2 : ℚ) ^ 23 * (2 : ℚ) ^ (77 : ℤ) ≤ |q| := by
          rw [hv]; apply mul_le_mul h2 h1 (by positivity) (by positivity)
        have : (2 : ℚ) ^ 23 * (2 : ℚ) ^ (77 : ℤ) = 2 ^ 100 := by norm_num
        rw [this] at h3; linarith
      refine ⟨R + 2 ^ 23, (E : ℤ) - 150 + k, by omega, by omega, by omega, ?_⟩
      rw [habs, hv, zpow_add₀ (by norm_num : (2 : ℚ) ≠ 0), zpow_natCast]; ring

/-- **Relative repeating sampler.** On a `2^j`-wide texture (`j ≤ 24`) the relative coordinate `u`
addresses column `⌊2^j·u⌋ mod 2^j` – no rounding is involved – whenever `|2^j·u| < 2^31`. -/
theorem repeat_sample_index {j : ℕ} (hj : j ≤ 24) {u : UInt32} {q : ℚ} (hu : toRat? u = some q)
    (hq : |(2 : ℚ) ^ j * q| < 2 ^ 31) :
    ((repeatAxis (2 ^ j - 1) (mul (intToF32 ((2 ^ j : ℕ) : ℤ)) u) : ℕ) : ℤ) = ⌊(2 : ℚ) ^ j * q⌋ % 2 ^ j := by
  have hq' : |q| < 2 ^ 100 := by
    have h1 : |q| ≤ |(2 : ℚ) ^ j * q| := by
      rw [abs_mul, abs_of_pos (by positivity : (0 : ℚ) < 2 ^ j)]
      have : (1 : ℚ) ≤ 2 ^ j := one_le_pow₀ (by norm_num)
      nlinarith [abs_nonneg q]
    have : (2 : ℚ) ^ 31 < 2 ^ 100 := by norm_num
    linarith
  exact repeat_index j (by omega) (mul_two_pow_exact hj hu hq') hq

example : repeatAxis (2 ^ 1 - 1) (mul (intToF32 ((2 ^ 1 : ℕ) : ℤ)) 0xBDCCCCCD) = 1 := by
  decide +kernel   -- tex.rs's own test: u = −0.1 on a 2-wide texture addresses column 1

/-! ### Whole samplers on a texture built from a buffer or sub-region of given dimensions -/

theorem isPow2_two_pow (k : ℕ) : isPow2 (2 ^ k) = true := by
  unfold isPow2
  have h1 : (2 ^ k != 0) = true := by simp
  have h2 : (2 ^ k &&& (2 ^ k - 1)) = 0 := by
    rw [Nat.and_two_pow_sub_one_eq_mod]; exact Nat.mod_self _
  rw [h1, h2]; rfl

theorem toU32Sat_two_pow {k : ℕ} (hk : k ≤ 31) : toU32Sat (intToF32 ((2 ^ k : ℕ) : ℤ)) = 2 ^ k := by
  have h := toRat?_intToF32_two_pow (k := k) (by omega)
  have hlt : (2 : ℚ) ^ k < 2 ^ 32 := pow_lt_pow_right₀ (by norm_num) (by omega)
  rw [toU32Sat_of_nonneg h (by positivity) hlt]
  have : ((2 : ℚ) ^ k) = (((2 ^ k : ℕ) : ℤ) : ℚ) := by push_cast; rfl
  rw [this, Int.floor_intCast, Int.toNat_natCast]

/-- `u32::is_power_of_two` of the model is "is `2^k` for some `k`". -/
theorem isPow2_iff (n : ℕ) : isPow2 n = true ↔ ∃ k, n = 2 ^ k := by
  constructor
  · intro h
    unfold isPow2 at h
    simp only [Bool.and_eq_true, bne_iff_ne, ne_eq, beq_iff_eq] at h
    exact (Nat.and_sub_one_eq_zero_iff_isPowerOfTwo h.1).1 h.2
  · rintro ⟨k, rfl⟩; exact isPow2_two_pow k

/-- `SamplerRepeatPot::new` accepts every power-of-two texture and computes the masks `2^j − 1`,
`2^k − 1` (the test is on the integer dimensions since fix 597c789, so no size limit is involved). -/
theorem repeat_new_ok (j k : ℕ) :
    RepeatPot.new (Texture.ofDims (2 ^ j) (2 ^ k)) = .ok ⟨2 ^ j - 1, 2 ^ k - 1⟩ := by
  unfold RepeatPot.new Texture.ofDims
  simp only [isPow2_two_pow]
  rfl

/-- **repeat_new_rejects_non_pot.** `SamplerRepeatPot::new` succeeds *exactly* when both integer
dimensions are powers of two – of any magnitude; every other size (empty textures included) panics,
never a sampler with a wrong mask. -/
theorem repeat_new_rejects_non_pot (w h : ℕ) :
    (∃ s, RepeatPot.new (Texture.ofDims w h) = .ok s) ↔ ((∃ j, w = 2 ^ j) ∧ ∃ k, h = 2 ^ k) := by
  rw [← isPow2_iff, ← isPow2_iff]
  unfold RepeatPot.new Texture.ofDims
  by_cases hw : isPow2 w = true
  · by_cases hh : isPow2 h = true
    · simp [hw, hh]
    · simp [hw, hh]
  · simp [hw]

example : RepeatPot.new (Texture.ofDims 33554431 1) = .panic "width must be 2^n" := by decide +kernel

/-- The repaired defect (597c789): the old test on the rounded `f32` width accepted the
non-power-of-two width 33554431 (= 2^25 − 1, which rounds to 2^25) with mask 33554431 = width, so that
`sample_abs` at `u = −1.0` indexed column 33554431, outside the texture. -/
theorem repeat_new_old_accepts_non_pot :
    RepeatPot.newViaF32 (Texture.ofDims 33554431 1) = .ok ⟨33554431, 0⟩ ∧
    repeatSampleAbs ⟨33554431, 0⟩ (Texture.ofDims 33554431 1) 0xBF800000 0 = .panic "position out of bounds" ∧
    isPow2 33554431 = false := by
  decide +kernel

/-- **repeat_never_panics.** On every power-of-two texture, for every pair of coordinate bit
patterns, the repeating sampler returns a texel inside the texture. -/
theorem repeat_never_panics (j k : ℕ) (u v : UInt32) :
    ∃ s iu iv, RepeatPot.new (Texture.ofDims (2 ^ j) (2 ^ k)) = .ok s ∧
      repeatSampleAbs s (Texture.ofDims (2 ^ j) (2 ^ k)) u v = .ok (iu, iv) ∧
      iu < 2 ^ j ∧ iv < 2 ^ k ∧ iu = repeatAxis (2 ^ j - 1) u ∧ iv = repeatAxis (2 ^ k - 1) v := by
  refine ⟨_, _, _, repeat_new_ok j k, ?_, repeat_in_bounds j u, repeat_in_bounds k v, rfl, rfl⟩
  have h1 := repeat_in_bounds j u
  have h2 := repeat_in_bounds k v
  unfold repeatAxis at h1 h2
  unfold repeatSampleAbs repeatSampleAbsF index Texture.ofDims repeatAxis
  simp [h1, h2]

/-! ### The clamping sampler on textures of *any* size (after fix 5063a3c)

`tex.w = width as f32` and the bound `tex.w - 1.0` are both rounded beyond 2^24, so the float clamp
alone can leave the texture; the integer guard `u.min(width - 1)` keeps it inside. -/

/-- `width as f32` of any `u32` width `1 ≤ w ≤ 2^32` is a finite value in `[1, 2^32]`. -/
theorem width_as_f32 {w : ℕ} (hw : 1 ≤ w) (hw' : w ≤ 2 ^ 32) :
    ∃ wf : ℚ, toRat? (intToF32 (w : ℤ)) = some wf ∧ 1 ≤ wf ∧ wf ≤ 2 ^ 32 := by
  unfold intToF32
  have h1 : Rep (1 : ℚ) := by simpa using rep_two_pow (k := 0) (by norm_num)
  have h2 : Rep ((2 : ℚ) ^ 32) := rep_two_pow (by norm_num)
  exact ofRat_between h1 h2 (by exact_mod_cast hw) (by exact_mod_cast hw')

/-- The clamp bound `tex.w - 1.0` is a finite non-negative value for every non-empty texture, so
`clamp(0.0, tex.w - 1.0)` never panics. -/
theorem clamp_bound_nonneg {w : ℕ} (hw : 1 ≤ w) (hw' : w ≤ 2 ^ 32) :
    ∃ h : ℚ, toRat? (sub (intToF32 (w : ℤ)) one) = some h ∧ 0 ≤ h := by
  obtain ⟨wf, hwf, h1, h2⟩ := width_as_f32 hw hw'
  unfold sub add
  rw [isNaN_eq_false_of_some hwf, isNaN_eq_false_of_some toRat?_neg_one, hwf, toRat?_neg_one]
  simp only [Bool.or_self, Bool.false_eq_true, ↓reduceIte]
  split
  · split
    · exact ⟨0, toRat?_zeroS _, le_refl _⟩
    · exact ⟨0, toRat?_zero, le_refl _⟩
  · have hb : Rep ((2 : ℚ) ^ 32) := rep_two_pow (by norm_num)
    obtain ⟨v, hv, hv0, -⟩ := ofRat_between (q := wf + -1) Rep.zero hb (by linarith) (by linarith)
    exact ⟨v, hv, hv0⟩

/-- With a finite non-negative bound the clamp axis returns an index for every bit pattern. -/
theorem clamp_axis_total {hi : UInt32} {h : ℚ} (hhi : toRat? hi = some h) (h0 : 0 ≤ h) (x : UInt32) :
    ∃ u, clampAxisHi hi x = .ok u := by
  unfold clampAxisHi clampAxisHiF clamp
  rw [le_finite toRat?_zero hhi]
  simp only [h0, decide_true, Bool.not_true, Bool.false_eq_true, ↓reduceIte]
  by_cases h1 : lt x 0 = true
  · simp only [h1, ↓reduceIte]; exact ⟨_, rfl⟩
  · by_cases h2 : gt x hi = true
    · simp only [h1, h2, ↓reduceIte]; exact ⟨_, rfl⟩
    · simp only [h1, h2, ↓reduceIte]; exact ⟨_, rfl⟩

/-- **clamp_never_panics.** On every non-empty texture of *any* `u32` size, for every pair of
coordinate bit patterns, the clamping sampler returns a texel inside the texture. -/
theorem clamp_never_panics {w h : ℕ} (hw : 1 ≤ w) (hw' : w ≤ 2 ^ 32) (hh : 1 ≤ h) (hh' : h ≤ 2 ^ 32)
    (u v : UInt32) :
    ∃ iu iv, clampSampleAbs (Texture.ofDims w h) u v = .ok (iu, iv) ∧ iu < w ∧ iv < h := by
  obtain ⟨bw, hbw, hbw0⟩ := clamp_bound_nonneg hw hw'
  obtain ⟨bh, hbh, hbh0⟩ := clamp_bound_nonneg hh hh'
  obtain ⟨iu, hu⟩ := clamp_axis_total hbw hbw0 u
  obtain ⟨iv, hv⟩ := clamp_axis_total hbh hbh0 v
  have hul : min iu (w - 1) < w := by omega
  have hvl : min iv (h - 1) < h := by omega
  refine ⟨min iu (w - 1), min iv (h - 1), ?_, hul, hvl⟩
  unfold clampAxisHi at hu hv
  unfold clampSampleAbs clampSampleAbsF clampAxisF Texture.ofDims
  simp only [hu, hv]
  unfold index; simp [hul, hvl]

/-- **clamp_sample_index.** Up to `2^24` per side the guard is inactive and the sampler addresses
exactly the clamped floor of each coordinate (`Spec.Tex.clampIdx`), for finite coordinates. -/
theorem clamp_sample_index {w h : ℕ} (hw : 1 ≤ w) (hw' : w ≤ 2 ^ 24) (hh : 1 ≤ h) (hh' : h ≤ 2 ^ 24)
    {u v : UInt32} {qu qv : ℚ} (hu : toRat? u = some qu) (hv : toRat? v = some qv) :
    clampSampleAbs (Texture.ofDims w h) u v = .ok (Spec.Tex.clampIdx w qu, Spec.Tex.clampIdx h qv) := by
  have cu := clamp_index_spec hw (by omega : w ≤ 2 ^ 32) hu (clamp_hi_exact hw hw')
  have cv := clamp_index_spec hh (by omega : h ≤ 2 ^ 32) hv (clamp_hi_exact hh hh')
  obtain ⟨iu, hiu, hul⟩ := clamp_axis_in_bounds hw hw' u
  obtain ⟨iv, hiv, hvl⟩ := clamp_axis_in_bounds hh hh' v
  unfold clampAxis clampAxisF at hiu hiv
  unfold clampAxisHi at cu cv
  have eu : iu = Spec.Tex.clampIdx w qu := by rw [hiu] at cu; exact Outcome.ok.inj cu
  have ev : iv = Spec.Tex.clampIdx h qv := by rw [hiv] at cv; exact Outcome.ok.inj cv
  unfold clampSampleAbs clampSampleAbsF clampAxisF Texture.ofDims
  simp only [hiu, hiv]
  have m1 : min iu (w - 1) = iu := by omega
  have m2 : min iv (h - 1) = iv := by omega
  rw [m1, m2, ← eu, ← ev]
  unfold index; simp [hul, hvl]

/-- An empty texture is rejected by the clamp itself (`0.0.clamp(0.0, -1.0)` panics) – the error
branch the property excludes by "non-empty". -/
theorem clamp_empty_panics (h : ℕ) (u v : UInt32) :
    ∃ m, clampSampleAbs (Texture.ofDims 0 h) u v = .panic m := by
  have hhi : toRat? (sub (intToF32 (0 : ℕ)) one) = some (-1) := by decide +kernel
  have : clampAxisF F32.floor (intToF32 ((0 : ℕ) : ℤ)) u = .panic "clamp: min > max, or either was NaN" := by
    unfold clampAxisF clampAxisHiF clamp
    rw [le_finite toRat?_zero hhi]
    simp
  exact ⟨"clamp: min > max, or either was NaN", by
    unfold clampSampleAbs clampSampleAbsF Texture.ofDims; simp only [this]⟩

/-- **once_agrees (whole sampler).** For in-range coordinates the unchecked sampler returns the same
texel `(⌊u⌋, ⌊v⌋)` as the clamping sampler, and neither panics. -/
theorem once_agrees {w h : ℕ} (hw' : w ≤ 2 ^ 24) (hh' : h ≤ 2 ^ 24) {u v : UInt32} {qu qv : ℚ}
    (hu : toRat? u = some qu) (hv : toRat? v = some qv)
    (hu0 : 0 ≤ qu) (hu1 : qu < w) (hv0 : 0 ≤ qv) (hv1 : qv < h) :
    onceSampleAbs (Texture.ofDims w h) u v = .ok (⌊qu⌋.toNat, ⌊qv⌋.toNat) ∧
    clampSampleAbs (Texture.ofDims w h) u v = .ok (⌊qu⌋.toNat, ⌊qv⌋.toNat) := by
  have hwq : (w : ℚ) ≤ 2 ^ 24 := by exact_mod_cast hw'
  have hhq : (h : ℚ) ≤ 2 ^ 24 := by exact_mod_cast hh'
  have hw : 1 ≤ w := by
    have : (0 : ℚ) < w := lt_of_le_of_lt hu0 hu1
    have : (0 : ℕ) < w := by exact_mod_cast this
    omega
  have hh : 1 ≤ h := by
    have : (0 : ℚ) < h := lt_of_le_of_lt hv0 hv1
    have : (0 : ℕ) < h := by exact_mod_cast this
    omega
  have iu := once_index hu hu0 (by linarith)
  have iv := once_index hv hv0 (by linarith)
  have hul : ⌊qu⌋.toNat < w := by
    have : ⌊qu⌋ < (w : ℤ) := by apply Int.floor_lt.2; exact_mod_cast hu1
    have := Int.floor_nonneg.2 hu0
    omega
  have hvl : ⌊qv⌋.toNat < h := by
    have : ⌊qv⌋ < (h : ℤ) := by apply Int.floor_lt.2; exact_mod_cast hv1
    have := Int.floor_nonneg.2 hv0
    omega
  have cu := once_agrees_clamp (by omega : w ≤ 2 ^ 32) hu (clamp_hi_exact hw hw') hu0 hu1
  have cv := once_agrees_clamp (by omega : h ≤ 2 ^ 32) hv (clamp_hi_exact hh hh') hv0 hv1
  constructor
  · unfold onceSampleAbs index Texture.ofDims
    simp only [iu, iv]
    simp [hul, hvl]
  · unfold clampAxisHi at cu cv
    unfold clampSampleAbs clampSampleAbsF clampAxisF Texture.ofDims
    simp only [cu, cv, iu, iv]
    have m1 : min ⌊qu⌋.toNat (w - 1) = ⌊qu⌋.toNat := by omega
    have m2 : min ⌊qv⌋.toNat (h - 1) = ⌊qv⌋.toNat := by omega
    rw [m1, m2]
    unfold index; simp [hul, hvl]

example : toRat? 0x40200000 = some (5/2) ∧
    onceSampleAbs (Texture.ofDims 3 5) 0x40200000 0x40200000 = .ok (2, 2) := by decide +kernel

/-! ### Why the guard is needed: the unguarded formula (the code before fix 5063a3c) -/

/-- `SamplerClamp::sample_abs` as it was before 5063a3c: the float clamp only. -/
def clampSampleAbsUnguarded (t : Texture) (u v : UInt32) : Outcome (Nat × Nat) :=
  match clampAxis t.w u with
  | .panic s => .panic s
  | .ok iu =>
    match clampAxis t.h v with
    | .panic s => .panic s
    | .ok iv => index t iu iv

/-- On a 16777219-texel-wide texture the unguarded formula clamps the coordinate `1e9` to
`16777220.0`, outside the texture, and the index panics (the fixed defect `clamp-wide-texture`);
the guarded sampler returns the last texel. -/
theorem clamp_wide_texture_out_of_bounds :
    clampSampleAbsUnguarded (Texture.ofDims 16777219 1) 0x4E6E6B28 0 = .panic "position out of bounds" ∧
    clampSampleAbs (Texture.ofDims 16777219 1) 0x4E6E6B28 0 = .ok (16777218, 0) := by
  decide +kernel

/-- What remains beyond 2^24 is coordinate resolution, not safety: on a 16777217-wide texture the
bound `tex.w - 1.0` is `16777215.0`, so the coordinate `16777216.0` (and everything above) addresses
texel 16777215, one short of the last column – within one ulp (2.0) of the coordinate itself. -/
theorem clamp_wide_texture_last_column :
    clampSampleAbs (Texture.ofDims 16777217 1) 0x4B800000 0 = .ok (16777215, 0) := by
  decide +kernel

end Retro.Props.C12
