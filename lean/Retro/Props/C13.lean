/-
C13 — PNM codec: lossless round trip and total decoding.

Property theorems about `Retro.Model.Pnm` (the definitions `drv_c13` executes), building on the
C11 model of `Buf2` / `rows()`.  Helper lemmas: `Retro/Lemmas/Pnm.lean`.
-/
import Retro.Model.Pnm
import Retro.Lemmas.Pnm
import Retro.Props.C11
import Mathlib.Tactic.Linarith
import Mathlib.Tactic.SplitIfs

namespace Retro.Props.C13
open Retro Retro.Pnm Retro.Buf

/-- The buffer `parse_pnm` returns for dimensions `w × h`: owned, contiguous. -/
def imageView (w h : Nat) : View := { w := w, h := h, stride := w, off := 0, len := w * h }

/-! ## Total decoding -/

/-- `Buf2::new_from` cannot panic on what `parse_pnm` hands it: `w·h` fits `u32` and the data has at
least that many pixels. -/
theorem newFrom_of_enough (w h : Nat) (data : List Pixel) (hwh : ¬ w * h > u32Max) (hlen : ¬ data.length < w * h) :
    buf2NewFrom w h data = .ok (imageView w h, data.take (w * h)) := by
  have h1 : w * h < 4294967296 := by unfold u32Max at hwh; omega
  exact (C11.buf2NewFrom_ok_iff w h data h1 _ _).mpr ⟨by omega, rfl, rfl⟩

/-- **parse_total.** For every byte string `parse_pnm` returns an image or an error; it never panics. -/
theorem parse_total (input : List UInt8) : ∃ r, parsePnm input = .ok r := by
  unfold parsePnm
  rcases hh : parseHeader input with ⟨hd | hd, rest⟩
  · exact ⟨_, rfl⟩
  · simp only
    split_ifs with hwh
    · exact ⟨_, rfl⟩
    · rcases hp : pixelData hd.format (hd.w * hd.h) rest with e | data
      · exact ⟨_, rfl⟩
      · simp only
        split_ifs with hlen
        · exact ⟨_, rfl⟩
        · rw [newFrom_of_enough _ _ _ hwh hlen]
          exact ⟨_, rfl⟩

/-- **parse_dims.** Whenever `parse_pnm` returns an image, its dimensions are the ones the header
announces, it holds exactly `w·h` pixels (contiguously, stride `w`), and `w·h` fits `u32`. -/
theorem parse_dims (input : List UInt8) (v : View) (px : List Pixel) (hok : parsePnm input = .ok (.ok (v, px))) :
    ∃ hd rest, parseHeader input = (.ok hd, rest) ∧ v = imageView hd.w hd.h ∧ px.length = hd.w * hd.h ∧
      hd.w * hd.h ≤ u32Max := by
  unfold parsePnm at hok
  rcases hh : parseHeader input with ⟨hd | hd, rest⟩
  · rw [hh] at hok; simp at hok
  · rw [hh] at hok
    simp only at hok
    split_ifs at hok with hwh
    · simp at hok
    · rcases hp : pixelData hd.format (hd.w * hd.h) rest with e | data
      · rw [hp] at hok; simp at hok
      · rw [hp] at hok
        simp only at hok
        split_ifs at hok with hlen
        · simp at hok
        · rw [newFrom_of_enough _ _ _ hwh hlen] at hok
          simp only [Outcome.ok.injEq, Except.ok.injEq, Prod.mk.injEq] at hok
          obtain ⟨rfl, rfl⟩ := hok
          exact ⟨hd, rest, rfl, rfl, by simp; omega, by omega⟩

/-- The image `parse_pnm` returns is a valid C11 view over its own pixel vector. -/
theorem parse_view_valid (input : List UInt8) (v : View) (px : List Pixel) (hok : parsePnm input = .ok (.ok (v, px))) :
    ViewInv px.length v := by
  obtain ⟨hd, rest, _, rfl, hl, hu⟩ := parse_dims input v px hok
  have h1 : hd.w * hd.h < 4294967296 := by unfold u32Max at hu; omega
  have := C11.buf2New_ok hd.w hd.h (0 : Nat) h1
  have hr := C11.reachable_inv (C11.buf2New_reachable this)
  simp only [List.length_replicate] at hr
  rw [hl]; exact hr

/-! ## Binary PPM round trip -/

/-- Reading back the header `write_ppm` prints: format P6, the same two dimensions, max 255, and the
input is left exactly at the first pixel byte (one delimiter consumed, not more — so pixel bytes
that look like whitespace, `#` or digits are not eaten). -/
theorem header_roundtrip (w h : Nat) (hw : w ≤ u32Max) (hh : h ≤ u32Max) (data : List UInt8) :
    parseHeader (ppmHeader w h ++ data) = (.ok { format := .p6, w := w, h := h, max := 255 }, data) := by
  have e : ppmHeader w h ++ data =
      80 :: 54 :: ([32] ++ decimal w ++ 32 :: ([] ++ decimal h ++ 32 :: ([] ++ [50, 53, 53] ++ 10 :: data))) := by
    simp [ppmHeader]
  obtain ⟨w1, w2, _, _⟩ := decimal_spec w
  obtain ⟨h1, h2, _, _⟩ := decimal_spec h
  have g1 : Gap [32] := Gap.ws (by decide) Gap.nil
  have d32 : Delim 32 := by decide
  have d10 : Delim 10 := by decide
  have n1 := parseNum_item u32Max g1 (decimal w) w2 (fun b hb => (w1 b hb).1) 32 d32
    ([] ++ decimal h ++ 32 :: ([] ++ [50, 53, 53] ++ 10 :: data))
  have n2 := parseNum_item u32Max Gap.nil (decimal h) h2 (fun b hb => (h1 b hb).1) 32 d32
    ([] ++ [50, 53, 53] ++ 10 :: data)
  have n3 := parseNum_item u16Max Gap.nil [50, 53, 53] (by simp) (by decide) 10 d10 data
  have p3 : parseUnsigned u16Max [50, 53, 53] = .ok 255 := by decide
  have f : formatOf 80 54 = .ok .p6 := by decide
  rw [e]
  simp only [parseHeader, f, n1, n2, n3, parseUnsigned_decimal _ _ hw, parseUnsigned_decimal _ _ hh, p3]

/-- The cells of a valid view fit in its data: `w·h ≤ len`. (Since `Inner::new` computes sizes in
`usize`, views with `2^32` or more cells exist; `parse_pnm` refuses such images, see
`ppm_too_large_is_error`, so the round trip carries the hypothesis `w·h ≤ u32::MAX`.) -/
theorem cells_le_len {v : View} (hf : Fits v.w v.h v.stride v.len) : v.w * v.h ≤ v.len := by
  obtain ⟨h1, h2⟩ := hf
  rcases Nat.eq_zero_or_pos v.h with h0 | hpos
  · rw [h0]; simp
  · have h4 : (v.h - 1) * v.stride + v.w ≤ v.len := by
      rcases h2 with h0 | h; omega; exact h
    have e1 : v.w * v.h = (v.h - 1) * v.w + v.w := by
      conv_lhs => rw [show v.h = (v.h - 1) + 1 by omega]
      rw [Nat.mul_succ, Nat.mul_comm]
    have e2 : (v.h - 1) * v.w ≤ (v.h - 1) * v.stride := Nat.mul_le_mul_left _ h1
    omega

/-- What `rows().flatten()` of a valid view yields: the row-major content, `w·h` pixels. -/
theorem rows_flatten {α : Type} (root : List α) (v : View) (hv : ViewInv root.length v) :
    ∃ rs, Buf.rows root v = .ok rs ∧ rs.flatten = (C11.denote root v).flatten ∧
      (C11.denote root v).flatten.length = v.w * v.h := by
  rcases Nat.eq_zero_or_pos v.w with hw | hw
  · obtain ⟨rs, h1, _, h3⟩ := C11.rows_zero_width root v hv hw
    have e1 : rs.flatten = [] := by
      rw [List.flatten_eq_nil_iff]; exact h3
    have e2 : (C11.denote root v).flatten = [] := by
      rw [List.flatten_eq_nil_iff]
      intro r hr
      obtain ⟨y, _, rfl⟩ := List.mem_map.mp hr
      simp [C11.rowOf, hw]
    exact ⟨rs, h1, by rw [e1, e2], by rw [e2, hw]; simp⟩
  · obtain ⟨h1, h2⟩ := C11.iter_spec root v hv hw
    exact ⟨_, (C11.rows_spec root v hv hw).1, rfl, h2⟩

/-- **ppm_roundtrip.** For every valid view — owned buffer or strided sub-view at any offset, any
stride, including empty ones — and arbitrary pixel bytes: `write_ppm` succeeds and `parse_pnm` of
its output is an owned `w × h` image holding exactly the view's pixels in row-major order. -/
theorem ppm_roundtrip (root : List Pixel) (v : View) (hv : ViewInv root.length v)
    (hw : v.w ≤ u32Max) (hh : v.h ≤ u32Max) (hcells : v.w * v.h ≤ u32Max) :
    ∃ bytes, writePpm root v = .ok bytes ∧
      parsePnm bytes = .ok (.ok (imageView v.w v.h, (C11.denote root v).flatten)) := by
  obtain ⟨rs, hr, hfl, hlen⟩ := rows_flatten root v hv
  refine ⟨ppmHeader v.w v.h ++ (C11.denote root v).flatten.flatMap pixelBytes, ?_, ?_⟩
  · simp [writePpm, C11.asSlice_id hv, hr, hfl]
  · have hcnt : ¬ v.w * v.h > u32Max := by omega
    have htr : (triples ((C11.denote root v).flatten.flatMap pixelBytes)).take (v.w * v.h) =
        (C11.denote root v).flatten := by
      have := triples_pixelBytes (C11.denote root v).flatten [] (by simp)
      rw [List.append_nil] at this
      rw [this, List.take_of_length_le (by omega)]
    have hl2 : ¬ ((C11.denote root v).flatten.length < v.w * v.h) := by omega
    simp only [parsePnm, header_roundtrip v.w v.h hw hh, hcnt, if_false, pixelData, htr, hl2]
    rw [newFrom_of_enough _ _ _ hcnt hl2, List.take_of_length_le (by omega)]

/-- A contiguous image is the concatenation of its rows. -/
theorem flatten_rows_contiguous {α : Type} (w : Nat) :
    ∀ (h : Nat) (px : List α), px.length = w * h →
      ((List.range h).map (fun y => (px.drop (y * w)).take w)).flatten = px := by
  intro h
  induction h with
  | zero => intro px hl; simp at hl; simp [hl]
  | succ h ih =>
    intro px hl
    rw [List.range_succ_eq_map, List.map_cons, List.map_map, List.flatten_cons]
    have hd : (px.drop w).length = w * h := by rw [List.length_drop, hl, Nat.mul_succ]; omega
    have := ih (px.drop w) hd
    simp only [Nat.zero_mul, List.drop_zero]
    have e : (List.range h).map ((fun y => (px.drop (y * w)).take w) ∘ Nat.succ) =
        (List.range h).map (fun y => ((px.drop w).drop (y * w)).take w) := by
      apply List.map_congr_left
      intro y _
      simp only [Function.comp, List.drop_drop, Nat.succ_mul]
      congr 2; omega
    rw [e, this, List.take_append_drop]

/-- The denotation of an owned image, flattened, is its pixel vector. -/
theorem denote_image {α : Type} (px : List α) (w h : Nat) (hl : px.length = w * h) :
    (C11.denote px (imageView w h)).flatten = px := by
  have e : C11.denote px (imageView w h) = (List.range h).map (fun y => (px.drop (y * w)).take w) := by
    simp [C11.denote, C11.rowOf, imageView]
  rw [e]
  exact flatten_rows_contiguous w h px hl

/-- The limit of the round trip: an image of more than `u32::MAX` pixels is written without complaint,
but `parse_pnm` rejects what was written (`checked_mul` → `InvalidNumber`) — an error, not a panic
and not a wrong image. Such views need ≥ 12 GiB of pixels; outside the property's "moderate size". -/
theorem ppm_too_large_is_error (root : List Pixel) (v : View) (hv : ViewInv root.length v)
    (hw : v.w ≤ u32Max) (hh : v.h ≤ u32Max) (hbig : v.w * v.h > u32Max) :
    ∃ bytes, writePpm root v = .ok bytes ∧ parsePnm bytes = .ok (.error .invalidNumber) := by
  obtain ⟨rs, hr, hfl, _⟩ := rows_flatten root v hv
  refine ⟨ppmHeader v.w v.h ++ (C11.denote root v).flatten.flatMap pixelBytes, ?_, ?_⟩
  · simp [writePpm, C11.asSlice_id hv, hr, hfl]
  · simp [parsePnm, header_roundtrip v.w v.h hw hh, hbig]

/-- Round trip, cell by cell: the decoded image shows at `(x, y)` the pixel the view shows there. -/
theorem ppm_roundtrip_cells (root : List Pixel) (v : View) (hv : ViewInv root.length v)
    (hw : v.w ≤ u32Max) (hh : v.h ≤ u32Max) (hcells : v.w * v.h ≤ u32Max) :
    ∃ bytes v' px, writePpm root v = .ok bytes ∧ parsePnm bytes = .ok (.ok (v', px)) ∧
      v'.w = v.w ∧ v'.h = v.h ∧ Buf.iter px v' = Buf.iter root v := by
  obtain ⟨bytes, h1, h2⟩ := ppm_roundtrip root v hv hw hh hcells
  have hvalid := parse_view_valid bytes _ _ h2
  refine ⟨bytes, _, _, h1, h2, rfl, rfl, ?_⟩
  obtain ⟨rs, hr, hfl, hlen⟩ := rows_flatten root v hv
  obtain ⟨rs', hr', hfl', _⟩ := rows_flatten _ _ hvalid
  simp only [Buf.iter, hr, hr', hfl, hfl']
  congr 1
  -- the image is contiguous: its denotation, flattened, is its own pixel vector
  exact denote_image _ _ _ hlen

example : ViewInv 8 { w := 2, h := 2, stride := 3, off := 1, len := 5 } := by decide

/-! ## Text and binary encodings decode to the same image, under every layout

A *field* is written as: a gap `(whitespace | '#' … '\n')*`, a spelling of the number (any token
`str::parse` accepts: leading zeros, a leading `+`), and one delimiter byte.  Between the magic number
and the width the gap may even be empty (the code accepts `P61 2 255`). -/

structure Item where
  gap : List UInt8
  tok : List UInt8
  delim : UInt8

/-- The item spells `n` for a target type with maximum `M`. -/
def Item.Spells (it : Item) (M n : Nat) : Prop :=
  Gap it.gap ∧ it.tok ≠ [] ∧ (∀ b ∈ it.tok, TokenChar b) ∧ Delim it.delim ∧ parseUnsigned M it.tok = .ok n

def Item.render (it : Item) : List UInt8 := it.gap ++ it.tok ++ [it.delim]

theorem parseNum_render (it : Item) (M n : Nat) (h : it.Spells M n) (rest : List UInt8) :
    parseNum M (it.render ++ rest) = (.ok n, rest) := by
  obtain ⟨h1, h2, h3, h4, h5⟩ := h
  have := parseNum_item M h1 it.tok h2 h3 it.delim h4 rest
  simp only [Item.render, List.append_assoc, List.singleton_append] at this ⊢
  rw [this, h5]

/-- A comment after whitespace, `+`, leading zeros: a legitimate spelling of 7 as a `u8`. -/
example : (Item.mk [32, 35, 104, 105, 10, 9] [43, 48, 48, 55] 13).Spells u8Max 7 :=
  ⟨Gap.ws (by decide) (Gap.comment (c := [104, 105]) (by decide) (Gap.ws (by decide) Gap.nil)),
   by simp, by decide, by decide, by decide⟩

/-- Header fields in any valid layout (formats with a maxval field). -/
theorem header_layout (a b : UInt8) (fmt : Format) (hf : formatOf a b = .ok fmt) (hp4 : fmt ≠ .p4)
    (iw ih im : Item) (w h m : Nat) (sw : iw.Spells u32Max w) (sh : ih.Spells u32Max h) (sm : im.Spells u16Max m)
    (body : List UInt8) :
    parseHeader (a :: b :: (iw.render ++ ih.render ++ im.render ++ body)) =
      (.ok { format := fmt, w := w, h := h, max := m }, body) := by
  have n1 := parseNum_render iw u32Max w sw (ih.render ++ im.render ++ body)
  have n2 := parseNum_render ih u32Max h sh (im.render ++ body)
  have n3 := parseNum_render im u16Max m sm body
  simp only [List.append_assoc] at n1 n2 ⊢
  cases fmt <;> simp_all [parseHeader]

/-- Text samples of a pixmap: three fields per pixel. -/
def TripleSpells (t : Item × Item × Item) (p : Pixel) : Prop :=
  t.1.Spells u8Max p.1.toNat ∧ t.2.1.Spells u8Max p.2.1.toNat ∧ t.2.2.Spells u8Max p.2.2.toNat

def renderTriple (t : Item × Item × Item) : List UInt8 := t.1.render ++ t.2.1.render ++ t.2.2.render

theorem textPixmap_layout (ts : List (Item × Item × Item)) (px : List Pixel)
    (h : List.Forall₂ TripleSpells ts px) (tail : List UInt8) :
    textPixmap px.length (ts.flatMap renderTriple ++ tail) = .ok px := by
  induction h with
  | nil => rfl
  | @cons t p ts' px' hp _ ih =>
    obtain ⟨s1, s2, s3⟩ := hp
    obtain ⟨r, g, b⟩ := p
    have n1 := parseNum_render t.1 u8Max _ s1 (t.2.1.render ++ t.2.2.render ++ (ts'.flatMap renderTriple ++ tail))
    have n2 := parseNum_render t.2.1 u8Max _ s2 (t.2.2.render ++ (ts'.flatMap renderTriple ++ tail))
    have n3 := parseNum_render t.2.2 u8Max _ s3 (ts'.flatMap renderTriple ++ tail)
    simp only [List.append_assoc] at n1 n2
    simp only [List.flatMap_cons, renderTriple, List.append_assoc, List.length_cons, textPixmap, n1, n2, n3, ih]
    simp

/-- Text samples of a graymap: one field per pixel. -/
theorem textGraymap_layout (its : List Item) (cs : List UInt8)
    (h : List.Forall₂ (fun it c => it.Spells u8Max c.toNat) its cs) (tail : List UInt8) :
    textGraymap cs.length (its.flatMap Item.render ++ tail) = .ok (cs.map gray) := by
  induction h with
  | nil => rfl
  | @cons it c its' cs' hp _ ih =>
    have n1 := parseNum_render it u8Max _ hp (its'.flatMap Item.render ++ tail)
    simp only [List.flatMap_cons, List.append_assoc, List.length_cons, textGraymap, n1, ih]
    simp

/-- **P4 bit order.** Each byte yields eight pixels, most significant bit first; a set bit is black
(0), a clear bit white (255). Checked by the kernel over all 256 bytes × 8 positions (the whole domain). -/
theorem bitsOf_spec : ∀ n, n < 256 → ∀ i, i < 8 →
    (bitsOf (UInt8.ofNat n))[i]? = some (gray (if n.testBit (7 - i) then 0 else 255)) := by
  decide +kernel

/-- The image both encodings must decode to. -/
def decoded (w h : Nat) (px : List Pixel) : Outcome (Except Err (View × List Pixel)) :=
  .ok (.ok (imageView w h, px))

theorem finish_decode (w h : Nat) (data : List Pixel) (px : List Pixel) (hwh : w * h ≤ u32Max)
    (hl : px.length = w * h) (hd : data.take (w * h) = px) (hlen : w * h ≤ data.length) :
    (if data.length < w * h then (Outcome.ok (Except.error Err.unexpectedEnd) : Outcome (Except Err (View × List Pixel)))
     else match buf2NewFrom w h data with
       | .panic m => .panic m
       | .ok r => .ok (.ok r)) = decoded w h px := by
  have c1 : ¬ w * h > u32Max := by omega
  have c2 : ¬ data.length < w * h := by omega
  rw [if_neg c2, newFrom_of_enough w h data c1 c2, hd]
  rfl

/-- **Binary pixmap (P6), any header layout**, trailing bytes allowed. -/
theorem p6_layout (iw ih im : Item) (w h m : Nat) (sw : iw.Spells u32Max w) (sh : ih.Spells u32Max h)
    (sm : im.Spells u16Max m) (px : List Pixel) (hl : px.length = w * h) (hwh : w * h ≤ u32Max) (tail : List UInt8) :
    parsePnm (80 :: 54 :: (iw.render ++ ih.render ++ im.render ++ (px.flatMap pixelBytes ++ tail))) = decoded w h px := by
  have hh := header_layout 80 54 .p6 (by decide) (by decide) iw ih im w h m sw sh sm (px.flatMap pixelBytes ++ tail)
  have c1 : ¬ w * h > u32Max := by omega
  have ht : (triples (px.flatMap pixelBytes ++ tail)).take (w * h) = px := by rw [← hl]; exact triples_take px tail
  simp only [parsePnm, hh, c1, if_false, pixelData]
  exact finish_decode w h _ px hwh hl (by rw [ht, List.take_of_length_le (by omega)]) (by rw [ht]; omega)

/-- **Text pixmap (P3), any header and sample layout**, trailing bytes allowed. -/
theorem p3_layout (iw ih im : Item) (w h m : Nat) (sw : iw.Spells u32Max w) (sh : ih.Spells u32Max h)
    (sm : im.Spells u16Max m) (ts : List (Item × Item × Item)) (px : List Pixel)
    (hs : List.Forall₂ TripleSpells ts px) (hl : px.length = w * h) (hwh : w * h ≤ u32Max) (tail : List UInt8) :
    parsePnm (80 :: 51 :: (iw.render ++ ih.render ++ im.render ++ (ts.flatMap renderTriple ++ tail))) = decoded w h px := by
  have hh := header_layout 80 51 .p3 (by decide) (by decide) iw ih im w h m sw sh sm (ts.flatMap renderTriple ++ tail)
  have c1 : ¬ w * h > u32Max := by omega
  have ht := textPixmap_layout ts px hs tail
  rw [hl] at ht
  simp only [parsePnm, hh, c1, if_false, pixelData, ht]
  exact finish_decode w h px px hwh hl (by rw [List.take_of_length_le (by omega)]) (by omega)

/-- The last field of a text file may end at the end of the input, without a delimiter. -/
def Item.renderEof (it : Item) : List UInt8 := it.gap ++ it.tok

theorem parseNum_renderEof (it : Item) (M n : Nat) (h : it.Spells M n) :
    parseNum M it.renderEof = (.ok n, []) := by
  obtain ⟨h1, h2, h3, _, h5⟩ := h
  rw [Item.renderEof, parseNum_item_eof M h1 it.tok h2 h3, h5]

/-- Text pixmap whose last sample ends at EOF. -/
theorem textPixmap_layout_eof (ts : List (Item × Item × Item)) (px : List Pixel)
    (h : List.Forall₂ TripleSpells ts px) (t : Item × Item × Item) (p : Pixel) (hp : TripleSpells t p) :
    textPixmap (px.length + 1) (ts.flatMap renderTriple ++ (t.1.render ++ t.2.1.render ++ t.2.2.renderEof)) =
      .ok (px ++ [p]) := by
  induction h with
  | nil =>
    obtain ⟨s1, s2, s3⟩ := hp
    obtain ⟨r, g, b⟩ := p
    have n1 := parseNum_render t.1 u8Max _ s1 (t.2.1.render ++ t.2.2.renderEof)
    have n2 := parseNum_render t.2.1 u8Max _ s2 t.2.2.renderEof
    have n3 := parseNum_renderEof t.2.2 u8Max _ s3
    simp only [List.append_assoc] at n1
    simp [textPixmap, n1, n2, n3]
  | @cons t' p' ts' px' hp' _ ih =>
    obtain ⟨s1, s2, s3⟩ := hp'
    obtain ⟨r, g, b⟩ := p'
    have n1 := parseNum_render t'.1 u8Max _ s1 (t'.2.1.render ++ t'.2.2.render ++ (ts'.flatMap renderTriple ++ (t.1.render ++ t.2.1.render ++ t.2.2.renderEof)))
    have n2 := parseNum_render t'.2.1 u8Max _ s2 (t'.2.2.render ++ (ts'.flatMap renderTriple ++ (t.1.render ++ t.2.1.render ++ t.2.2.renderEof)))
    have n3 := parseNum_render t'.2.2 u8Max _ s3 (ts'.flatMap renderTriple ++ (t.1.render ++ t.2.1.render ++ t.2.2.renderEof))
    simp only [List.append_assoc] at n1 n2 n3 ih
    simp only [List.flatMap_cons, renderTriple, List.append_assoc, List.length_cons, textPixmap, n1, n2, n3, ih]
    simp

/-- **P3 whose last sample ends at EOF** decodes to the same image as with a trailing delimiter. -/
theorem p3_layout_eof (iw ih im : Item) (w h m : Nat) (sw : iw.Spells u32Max w) (sh : ih.Spells u32Max h)
    (sm : im.Spells u16Max m) (ts : List (Item × Item × Item)) (px : List Pixel)
    (hs : List.Forall₂ TripleSpells ts px) (t : Item × Item × Item) (p : Pixel) (hp : TripleSpells t p)
    (hl : px.length + 1 = w * h) (hwh : w * h ≤ u32Max) :
    parsePnm (80 :: 51 :: (iw.render ++ ih.render ++ im.render ++
        (ts.flatMap renderTriple ++ (t.1.render ++ t.2.1.render ++ t.2.2.renderEof)))) = decoded w h (px ++ [p]) := by
  have hh := header_layout 80 51 .p3 (by decide) (by decide) iw ih im w h m sw sh sm
    (ts.flatMap renderTriple ++ (t.1.render ++ t.2.1.render ++ t.2.2.renderEof))
  have c1 : ¬ w * h > u32Max := by omega
  have ht := textPixmap_layout_eof ts px hs t p hp
  rw [hl] at ht
  simp only [parsePnm, hh, c1, if_false, pixelData, ht]
  exact finish_decode w h _ (px ++ [p]) hwh (by simp; omega) (by rw [List.take_of_length_le (by simp; omega)]) (by simp; omega)

/-- **text_bin_equiv (P3 ≡ P6).** The text and the binary encoding of the same pixels decode to the
same image, whatever whitespace, whitespace-preceded comments and number spellings separate the
fields of either file (the two files may use different layouts). -/
theorem text_bin_equiv_ppm (iw ih im iw' ih' im' : Item) (w h m m' : Nat)
    (sw : iw.Spells u32Max w) (sh : ih.Spells u32Max h) (sm : im.Spells u16Max m)
    (sw' : iw'.Spells u32Max w) (sh' : ih'.Spells u32Max h) (sm' : im'.Spells u16Max m')
    (ts : List (Item × Item × Item)) (px : List Pixel) (hs : List.Forall₂ TripleSpells ts px)
    (hl : px.length = w * h) (hwh : w * h ≤ u32Max) (tail tail' : List UInt8) :
    parsePnm (80 :: 51 :: (iw.render ++ ih.render ++ im.render ++ (ts.flatMap renderTriple ++ tail))) =
    parsePnm (80 :: 54 :: (iw'.render ++ ih'.render ++ im'.render ++ (px.flatMap pixelBytes ++ tail'))) := by
  rw [p3_layout iw ih im w h m sw sh sm ts px hs hl hwh tail, p6_layout iw' ih' im' w h m' sw' sh' sm' px hl hwh tail']

/-- **Binary graymap (P5).** -/
theorem p5_layout (iw ih im : Item) (w h m : Nat) (sw : iw.Spells u32Max w) (sh : ih.Spells u32Max h)
    (sm : im.Spells u16Max m) (cs : List UInt8) (hl : cs.length = w * h) (hwh : w * h ≤ u32Max) (tail : List UInt8) :
    parsePnm (80 :: 53 :: (iw.render ++ ih.render ++ im.render ++ (cs ++ tail))) = decoded w h (cs.map gray) := by
  have hh := header_layout 80 53 .p5 (by decide) (by decide) iw ih im w h m sw sh sm (cs ++ tail)
  have c1 : ¬ w * h > u32Max := by omega
  simp only [parsePnm, hh, c1, if_false, pixelData]
  refine finish_decode w h _ (cs.map gray) hwh (by simpa using hl) ?_ (by simp; omega)
  rw [List.map_append, List.take_append_of_le_length (by simp; omega), List.take_of_length_le (by simp; omega)]

/-- **Text graymap (P2).** -/
theorem p2_layout (iw ih im : Item) (w h m : Nat) (sw : iw.Spells u32Max w) (sh : ih.Spells u32Max h)
    (sm : im.Spells u16Max m) (its : List Item) (cs : List UInt8)
    (hs : List.Forall₂ (fun it c => it.Spells u8Max c.toNat) its cs)
    (hl : cs.length = w * h) (hwh : w * h ≤ u32Max) (tail : List UInt8) :
    parsePnm (80 :: 50 :: (iw.render ++ ih.render ++ im.render ++ (its.flatMap Item.render ++ tail))) =
      decoded w h (cs.map gray) := by
  have hh := header_layout 80 50 .p2 (by decide) (by decide) iw ih im w h m sw sh sm (its.flatMap Item.render ++ tail)
  have c1 : ¬ w * h > u32Max := by omega
  have ht := textGraymap_layout its cs hs tail
  rw [hl] at ht
  simp only [parsePnm, hh, c1, if_false, pixelData, ht]
  exact finish_decode w h _ (cs.map gray) hwh (by simpa using hl) (by rw [List.take_of_length_le (by simp; omega)]) (by simp; omega)

theorem flatMap_bitsOf_length (bytes : List UInt8) : (bytes.flatMap bitsOf).length = 8 * bytes.length := by
  induction bytes with
  | nil => rfl
  | cons b bs ih =>
    have : (bitsOf b).length = 8 := by simp [bitsOf]
    rw [List.flatMap_cons, List.length_append, ih, this, List.length_cons]; omega

/-- **Bitmap (P4).** No maxval field; the data bytes expand to `8·|bytes|` pixels, the first `w·h` of
which form the image (the code does not pad rows to byte boundaries). -/
theorem p4_layout (iw ih : Item) (w h : Nat) (sw : iw.Spells u32Max w) (sh : ih.Spells u32Max h)
    (bytes : List UInt8) (hwh : w * h ≤ u32Max) (hlen : w * h ≤ 8 * bytes.length) :
    parsePnm (80 :: 52 :: (iw.render ++ ih.render ++ bytes)) =
      decoded w h ((bytes.flatMap bitsOf).take (w * h)) := by
  have n1 := parseNum_render iw u32Max w sw (ih.render ++ bytes)
  have n2 := parseNum_render ih u32Max h sh bytes
  have hf : formatOf 80 52 = .ok .p4 := by decide
  have c1 : ¬ w * h > u32Max := by omega
  have hl8 := flatMap_bitsOf_length bytes
  simp only [List.append_assoc] at n1 ⊢
  simp only [parsePnm, parseHeader, hf, n1, n2, c1, if_false, pixelData]
  exact finish_decode w h _ _ hwh (by rw [List.length_take, hl8]; omega) rfl (by omega)

/-- **text_bin_equiv (P2 ≡ P5).** -/
theorem text_bin_equiv_pgm (iw ih im iw' ih' im' : Item) (w h m m' : Nat)
    (sw : iw.Spells u32Max w) (sh : ih.Spells u32Max h) (sm : im.Spells u16Max m)
    (sw' : iw'.Spells u32Max w) (sh' : ih'.Spells u32Max h) (sm' : im'.Spells u16Max m')
    (its : List Item) (cs : List UInt8) (hs : List.Forall₂ (fun it c => it.Spells u8Max c.toNat) its cs)
    (hl : cs.length = w * h) (hwh : w * h ≤ u32Max) (tail tail' : List UInt8) :
    parsePnm (80 :: 50 :: (iw.render ++ ih.render ++ im.render ++ (its.flatMap Item.render ++ tail))) =
    parsePnm (80 :: 53 :: (iw'.render ++ ih'.render ++ im'.render ++ (cs ++ tail'))) := by
  rw [p2_layout iw ih im w h m sw sh sm its cs hs hl hwh tail, p5_layout iw' ih' im' w h m' sw' sh' sm' cs hl hwh tail']

/-! ### The end-of-input variant for graymaps, and the headline over both endings -/

/-- Text graymap whose last sample ends at EOF (no delimiter after the last token). -/
theorem textGraymap_layout_eof (its : List Item) (cs : List UInt8)
    (h : List.Forall₂ (fun it c => it.Spells u8Max c.toNat) its cs) (it : Item) (c : UInt8)
    (hp : it.Spells u8Max c.toNat) :
    textGraymap (cs.length + 1) (its.flatMap Item.render ++ it.renderEof) = .ok ((cs ++ [c]).map gray) := by
  induction h with
  | nil =>
    have n1 := parseNum_renderEof it u8Max _ hp
    simp [textGraymap, n1]
  | @cons it' c' its' cs' hp' _ ih =>
    have n1 := parseNum_render it' u8Max _ hp' (its'.flatMap Item.render ++ it.renderEof)
    simp only [List.flatMap_cons, List.append_assoc, List.length_cons, textGraymap, n1, ih]
    simp

/-- **P2 whose last sample ends at EOF** decodes to the same image as with a trailing delimiter
(`p2_layout` with the item list `its ++ [it]`): the image of the gray pixels `cs ++ [c]`. -/
theorem p2_layout_eof (iw ih im : Item) (w h m : Nat) (sw : iw.Spells u32Max w) (sh : ih.Spells u32Max h)
    (sm : im.Spells u16Max m) (its : List Item) (cs : List UInt8)
    (hs : List.Forall₂ (fun it c => it.Spells u8Max c.toNat) its cs) (it : Item) (c : UInt8)
    (hp : it.Spells u8Max c.toNat) (hl : cs.length + 1 = w * h) (hwh : w * h ≤ u32Max) :
    parsePnm (80 :: 50 :: (iw.render ++ ih.render ++ im.render ++ (its.flatMap Item.render ++ it.renderEof))) =
      decoded w h ((cs ++ [c]).map gray) := by
  have hh := header_layout 80 50 .p2 (by decide) (by decide) iw ih im w h m sw sh sm
    (its.flatMap Item.render ++ it.renderEof)
  have c1 : ¬ w * h > u32Max := by omega
  have ht := textGraymap_layout_eof its cs hs it c hp
  rw [hl] at ht
  simp only [parsePnm, hh, c1, if_false, pixelData, ht]
  exact finish_decode w h _ ((cs ++ [c]).map gray) hwh (by simp; omega)
    (by rw [List.take_of_length_le (by simp; omega)]) (by simp; omega)

theorem forall₂_snoc {α β : Type} {R : α → β → Prop} {l₁ : List α} {l₂ : List β} {a : α} {b : β}
    (h : List.Forall₂ R l₁ l₂) (hab : R a b) : List.Forall₂ R (l₁ ++ [a]) (l₂ ++ [b]) := by
  induction h with
  | nil => exact List.Forall₂.cons hab List.Forall₂.nil
  | cons hxy _ ih => exact List.Forall₂.cons hxy ih

/-- How a text file continues after the token of its last sample: one delimiter byte and then
arbitrary trailing bytes, or the end of the input. -/
inductive Ending where
  | delim (tail : List UInt8)
  | eof

/-- The last sample of a text file under either ending. -/
def Item.renderLast (it : Item) : Ending → List UInt8
  | .delim tail => it.render ++ tail
  | .eof => it.renderEof

/-- **Text graymap (P2), non-empty image, either ending.** -/
theorem p2_layout_ending (iw ih im : Item) (w h m : Nat) (sw : iw.Spells u32Max w) (sh : ih.Spells u32Max h)
    (sm : im.Spells u16Max m) (its : List Item) (cs : List UInt8)
    (hs : List.Forall₂ (fun it c => it.Spells u8Max c.toNat) its cs) (it : Item) (c : UInt8)
    (hp : it.Spells u8Max c.toNat) (hl : cs.length + 1 = w * h) (hwh : w * h ≤ u32Max) (e : Ending) :
    parsePnm (80 :: 50 :: (iw.render ++ ih.render ++ im.render ++ (its.flatMap Item.render ++ it.renderLast e))) =
      decoded w h ((cs ++ [c]).map gray) := by
  cases e with
  | eof => exact p2_layout_eof iw ih im w h m sw sh sm its cs hs it c hp hl hwh
  | delim tail =>
    have hs' : List.Forall₂ (fun it c => it.Spells u8Max c.toNat) (its ++ [it]) (cs ++ [c]) :=
      forall₂_snoc hs hp
    have := p2_layout iw ih im w h m sw sh sm (its ++ [it]) (cs ++ [c]) hs' (by simp; omega) hwh tail
    simpa [Item.renderLast, List.flatMap_append] using this

/-- **Text pixmap (P3), non-empty image, either ending.** -/
theorem p3_layout_ending (iw ih im : Item) (w h m : Nat) (sw : iw.Spells u32Max w) (sh : ih.Spells u32Max h)
    (sm : im.Spells u16Max m) (ts : List (Item × Item × Item)) (px : List Pixel)
    (hs : List.Forall₂ TripleSpells ts px) (t : Item × Item × Item) (p : Pixel) (hp : TripleSpells t p)
    (hl : px.length + 1 = w * h) (hwh : w * h ≤ u32Max) (e : Ending) :
    parsePnm (80 :: 51 :: (iw.render ++ ih.render ++ im.render ++
        (ts.flatMap renderTriple ++ (t.1.render ++ t.2.1.render ++ t.2.2.renderLast e)))) = decoded w h (px ++ [p]) := by
  cases e with
  | eof => exact p3_layout_eof iw ih im w h m sw sh sm ts px hs t p hp hl hwh
  | delim tail =>
    have hs' : List.Forall₂ TripleSpells (ts ++ [t]) (px ++ [p]) :=
      forall₂_snoc hs hp
    have := p3_layout iw ih im w h m sw sh sm (ts ++ [t]) (px ++ [p]) hs' (by simp; omega) hwh tail
    simpa [Item.renderLast, List.flatMap_append, renderTriple] using this

/-- **text_bin_equiv, both format pairs, both endings.** For a non-empty image, the text encoding —
P3 or P2, its last sample followed by a delimiter and arbitrary bytes *or* by the end of the input —
and the binary encoding — P6 resp. P5 — of the same pixels decode to the same image, whatever
whitespace, whitespace-preceded comments and number spellings separate the fields of either file.
(Empty images have no last sample; `text_bin_equiv_ppm` / `text_bin_equiv_pgm` cover them.) -/
theorem text_bin_equiv (iw ih im iw' ih' im' : Item) (w h m m' : Nat)
    (sw : iw.Spells u32Max w) (sh : ih.Spells u32Max h) (sm : im.Spells u16Max m)
    (sw' : iw'.Spells u32Max w) (sh' : ih'.Spells u32Max h) (sm' : im'.Spells u16Max m')
    (hwh : w * h ≤ u32Max) (e : Ending) (tail' : List UInt8) :
    (∀ (ts : List (Item × Item × Item)) (px : List Pixel) (t : Item × Item × Item) (p : Pixel),
      List.Forall₂ TripleSpells ts px → TripleSpells t p → px.length + 1 = w * h →
      parsePnm (80 :: 51 :: (iw.render ++ ih.render ++ im.render ++
          (ts.flatMap renderTriple ++ (t.1.render ++ t.2.1.render ++ t.2.2.renderLast e)))) =
      parsePnm (80 :: 54 :: (iw'.render ++ ih'.render ++ im'.render ++ ((px ++ [p]).flatMap pixelBytes ++ tail')))) ∧
    (∀ (its : List Item) (cs : List UInt8) (it : Item) (c : UInt8),
      List.Forall₂ (fun it c => it.Spells u8Max c.toNat) its cs → it.Spells u8Max c.toNat → cs.length + 1 = w * h →
      parsePnm (80 :: 50 :: (iw.render ++ ih.render ++ im.render ++ (its.flatMap Item.render ++ it.renderLast e))) =
      parsePnm (80 :: 53 :: (iw'.render ++ ih'.render ++ im'.render ++ ((cs ++ [c]) ++ tail')))) := by
  refine ⟨?_, ?_⟩
  · intro ts px t p hs hp hl
    rw [p3_layout_ending iw ih im w h m sw sh sm ts px hs t p hp hl hwh e,
      p6_layout iw' ih' im' w h m' sw' sh' sm' (px ++ [p]) (by simp; omega) hwh tail']
  · intro its cs it c hs hp hl
    rw [p2_layout_ending iw ih im w h m sw sh sm its cs hs it c hp hl hwh e,
      p5_layout iw' ih' im' w h m' sw' sh' sm' (cs ++ [c]) (by simp; omega) hwh tail']

-- non-vacuity: "P2 2 1 255 7 9" (last sample ends at EOF) and "P5 2 1 255\n" ++ [7, 9] are the same image
example : parsePnm [80, 50, 32, 50, 32, 49, 32, 50, 53, 53, 10, 55, 32, 57] = .ok (.ok (imageView 2 1, [gray 7, gray 9])) := by
  decide
example : parsePnm [80, 53, 32, 50, 32, 49, 32, 50, 53, 53, 10, 7, 9] = .ok (.ok (imageView 2 1, [gray 7, gray 9])) := by
  decide
example : (Item.mk [] [55] 32).Spells u8Max (7 : UInt8).toNat ∧ (Item.mk [] [57] 32).Spells u8Max (9 : UInt8).toNat :=
  ⟨⟨Gap.nil, by simp, by decide, by decide, by decide⟩, ⟨Gap.nil, by simp, by decide, by decide, by decide⟩⟩
example : [55, 32, 57] = [Item.mk [] [55] 32].flatMap Item.render ++ (Item.mk [] [57] 32).renderLast .eof := by decide

/-! ## Error branches: malformed input is an error of the documented kind, not a panic or a wrong image -/

theorem triples_length (l : List UInt8) : (triples l).length = l.length / 3 := by
  induction l using triples.induct with
  | case1 r g b rest ih => simp [triples, ih]; omega
  | case2 l hne =>
    match l, hne with
    | [], _ => rfl
    | [_], _ => simp [triples]
    | [_, _], _ => simp [triples]
    | r :: g :: b :: rest, hne => exact absurd rfl (hne r g b rest)

/-- Dimensions whose product does not fit `u32` give `InvalidNumber` (never a panic, never an
allocation) — for every format and whatever follows the header. -/
theorem dims_product_overflow_is_error (input : List UInt8) (hd : Header) (rest : List UInt8)
    (hh : parseHeader input = (.ok hd, rest)) (hov : hd.w * hd.h > u32Max) :
    parsePnm input = .ok (.error .invalidNumber) := by
  simp [parsePnm, hh, hov]

/-- A binary pixmap with fewer than `3·w·h` data bytes gives `UnexpectedEnd`. -/
theorem truncated_p6_is_error (input : List UInt8) (hd : Header) (rest : List UInt8)
    (hh : parseHeader input = (.ok hd, rest)) (hf : hd.format = .p6) (hwh : hd.w * hd.h ≤ u32Max)
    (hshort : rest.length < 3 * (hd.w * hd.h)) :
    parsePnm input = .ok (.error .unexpectedEnd) := by
  have c1 : ¬ hd.w * hd.h > u32Max := by omega
  have hl : ((triples rest).take (hd.w * hd.h)).length < hd.w * hd.h := by
    rw [List.length_take, triples_length]; omega
  simp only [parsePnm, hh, hf, c1, if_false, pixelData, if_pos hl]

/-- Fewer than two bytes: `UnexpectedEnd`; an unknown magic number: `Unsupported(magic)`. -/
theorem short_input_is_error : parsePnm [] = .ok (.error .unexpectedEnd) ∧
    ∀ b, parsePnm [b] = .ok (.error .unexpectedEnd) := ⟨rfl, fun _ => rfl⟩

theorem bad_magic_is_error (a b : UInt8) (rest : List UInt8) (hm : ∀ f, formatOf a b ≠ .ok f) :
    parsePnm (a :: b :: rest) = .ok (.error (.unsupported a b)) := by
  have : formatOf a b = .error (.unsupported a b) := by
    unfold formatOf at hm ⊢
    split_ifs at hm ⊢ <;> first | rfl | exact absurd rfl (hm _)
  simp [parsePnm, parseHeader, this]

/-- The number grammar of `str::parse::<uN>`: exactly an optional `+` followed by one or more
decimal digits whose value is at most `M`. -/
theorem parseUnsigned_ok_iff (M : Nat) (tok : List UInt8) (n : Nat) :
    parseUnsigned M tok = .ok n ↔
      ∃ ds, (tok = ds ∨ tok = 43 :: ds) ∧ ds ≠ [] ∧ digitsValue ds 0 = some n ∧ n ≤ M := by
  constructor
  · intro h
    cases tok with
    | nil => simp [parseUnsigned] at h
    | cons b rest =>
      unfold parseUnsigned at h
      simp only at h
      generalize hdig : (if (b == 43) = true then rest else b :: rest) = digits at h
      cases hE : digits.isEmpty with
      | true => rw [hE] at h; simp at h
      | false =>
        rw [hE] at h
        simp only [Bool.false_eq_true, if_false] at h
        cases hv : digitsValue digits 0 with
        | none => rw [hv] at h; simp at h
        | some v =>
          rw [hv] at h
          simp only at h
          by_cases hle : v ≤ M
          · rw [if_pos hle] at h
            cases h
            refine ⟨digits, ?_, by simpa using hE, hv, hle⟩
            by_cases hb : (b == 43) = true
            · right; rw [if_pos hb] at hdig; rw [← hdig, show b = 43 by simpa using hb]
            · left; rw [if_neg hb] at hdig; exact hdig
          · rw [if_neg hle] at h; cases h
  · rintro ⟨ds, hor, hne, hv, hle⟩
    obtain ⟨d, ds', rfl⟩ := List.exists_cons_of_ne_nil hne
    have hd : (d == 43) = false := by
      cases hd : (d == 43)
      · rfl
      · have : d = 43 := by simpa using hd
        subst this
        simp [digitsValue, isDigit] at hv
    rcases hor with rfl | rfl
    · simp [parseUnsigned, hd, hv, hle]
    · simp [parseUnsigned, hv, hle]

example : parseUnsigned u8Max [43, 48, 48, 55] = .ok 7 ∧ parseUnsigned u8Max [50, 53, 54] = .error .invalidNumber ∧
    parseUnsigned u32Max [45, 49] = .error .invalidNumber ∧ parseUnsigned u32Max [43] = .error .invalidNumber ∧
    parseUnsigned u16Max [] = .error .unexpectedEnd := by decide

/-! ## Non-vacuity and former defect witnesses -/

-- the hypotheses of the layout theorems are satisfiable: "P3 2 1 255 1 2 3 4 5 6 " vs "P6 2 1 255\n…"
example : (Item.mk [32] [50] 32).Spells u32Max 2 ∧ (Item.mk [] [49] 32).Spells u32Max 1 ∧
    (Item.mk [] [50, 53, 53] 10).Spells u16Max 255 :=
  ⟨⟨Gap.ws (by decide) Gap.nil, by simp, by decide, by decide, by decide⟩,
   ⟨Gap.nil, by simp, by decide, by decide, by decide⟩,
   ⟨Gap.nil, by simp, by decide, by decide, by decide⟩⟩

-- D4: a zero-width image decodes (it used to panic in Buf2::new_from)
example : parsePnm [80, 54, 32, 48, 32, 53, 32, 50, 53, 53, 10] = .ok (.ok (imageView 0 5, [])) := by decide
-- D5: 65536 x 65536 is an error, not an overflow panic
example : parsePnm [80, 54, 32, 54, 53, 53, 51, 54, 32, 54, 53, 53, 51, 54, 32, 50, 53, 53, 10] =
    .ok (.error .invalidNumber) := by decide
-- pixel bytes that look like whitespace, '#', digits right after the header are data
example : parsePnm [80, 54, 32, 49, 32, 49, 32, 50, 53, 53, 10, 32, 35, 49] = .ok (.ok (imageView 1 1, [(32, 35, 49)])) := by
  decide
-- a comment glued to a number is *not* skipped (the '#' is consumed as the delimiter and the comment
-- text is parsed as the next field): outside the property's grammar, recorded here
example : parsePnm [80, 54, 32, 49, 35, 99, 10, 49, 32, 50, 53, 53, 10, 1, 2, 3] = .ok (.error .invalidNumber) := by
  decide

end Retro.Props.C13
