/-
C14 — OBJ parsing is total and faithful.
Property theorems only; helper lemmas live in Retro/Lemmas/Obj*.lean.

All theorems are about `Retro.Obj.parseObj`, the function the driver `drv_c14` runs against
`retrofire_geom::io::parse_obj`, and hold for **every** float-token parser `pf`
(`f32::from_str` is a parameter of the model).
-/
import Retro.Model.Obj
import Retro.Model.ParseF32
import Retro.Spec.Obj
import Retro.Lemmas.Obj
import Retro.Lemmas.ObjLex
import Retro.Lemmas.ObjPrint
import Retro.Lemmas.ObjCanon
import Retro.Spec.Decimal
import Retro.Lemmas.ParseF32

namespace Retro.Props.C14
open Retro Retro.Obj Retro.ObjSpec

/-! ### Totality -/

/-- `parse_obj` never panics, for every byte string and every float parser: neither the
`unreachable!` arm of the item dispatch (io.rs:162) nor `Mesh::new`'s assertion
(mesh.rs:83) can fire.  The result is `Ok(builder)` or `Err(e)`. -/
theorem obj_total (pf : List UInt8 → Option UInt32) (src : List UInt8) :
    ∃ r : Except Err Mesh, parseObj pf src = .ok r := by
  unfold parseObj
  split
  · rename_i st hfold
    have hinv : Inv st := foldLines_inv pf _ _ _ inv_init hfold
    unfold finish
    split
    · exact ⟨_, rfl⟩
    · rename_i hchk
      split
      · exact ⟨_, rfl⟩
      · split
        · exact ⟨_, rfl⟩
        · have hall := finish_faces_in_range st hinv hchk
          simp only [meshNew, hall, if_true]
          exact ⟨_, rfl⟩
  · exact ⟨_, rfl⟩
  · rename_i s hfold
    exact absurd hfold (foldLines_no_panic pf _ _ s)

/-- On `Ok`, every face index refers to an existing vertex … -/
theorem obj_indices_valid (pf : List UInt8 → Option UInt32) (src : List UInt8) (m : Mesh)
    (h : parseObj pf src = .ok (.ok m)) :
    ∀ f ∈ m.faces, f.1 < m.verts.length ∧ f.2.1 < m.verts.length ∧ f.2.2 < m.verts.length := by
  unfold parseObj at h
  split at h
  · rename_i st hfold
    have hinv : Inv st := foldLines_inv pf _ _ _ inv_init hfold
    unfold finish at h
    split at h
    · simp at h
    · rename_i hchk
      split at h
      · simp at h
      · split at h
        · simp at h
        · have hall := finish_faces_in_range st hinv hchk
          simp only [meshNew, hall, if_true] at h
          simp at h
          subst h
          intro f hf
          rw [List.all_eq_true] at hall
          exact (faceInRange_iff _ _).mp (hall f hf)
  · simp at h
  · simp at h

/-- … hence `Builder::build()` (which re-runs `Mesh::new`) succeeds and returns the same mesh. -/
theorem obj_build_succeeds (pf : List UInt8 → Option UInt32) (src : List UInt8) (m : Mesh)
    (h : parseObj pf src = .ok (.ok m)) : build m = .ok m := by
  have hv := obj_indices_valid pf src m h
  have hall : m.faces.all (faceInRange m.verts.length) = true := by
    rw [List.all_eq_true]
    intro f hf
    exact (faceInRange_iff _ _).mpr (hv f hf)
  simp [build, meshNew, hall]

-- the hypothesis of the two theorems above is satisfiable by a non-trivial file: "v 1 1 1\nf 1 1 1"
example : parseObj (fun _ => some 0x3F800000)
    [118, 32, 49, 32, 49, 32, 49, 10, 102, 32, 49, 32, 49, 32, 49]
    = .ok (.ok { faces := [(0, 0, 0)], verts := [(0x3F800000, 0x3F800000, 0x3F800000)] }) := by
  rfl

/-! ### The two repaired defects stay repaired (witnesses of corpus/C14) -/

/-- D6: "f 0 1 2\nv 0 0 0" is `Err(InvalidValue)`, not an underflow panic. -/
example : parseObj (fun _ => some 0)
    [102, 32, 48, 32, 49, 32, 50, 10, 118, 32, 48, 32, 48, 32, 48] = .ok (.error .invalidValue) := by
  rfl

/-- D7: "f 1 2 3" with no vertices is `Err(IndexOutOfBounds("vertex", 2))`. -/
example : parseObj (fun _ => none) [102, 32, 49, 32, 50, 32, 51]
    = .ok (.error (.indexOutOfBounds .vertex 2)) := by
  rfl

/-! ### Error classes of the index grammar (the inputs the reader rejects) -/

/-- `parse_index` accepts exactly `+?[0-9]+` with value in `1 ..= usize::MAX` and returns the
value minus one; everything else (0, a sign `-`, overflow, empty, junk) is `InvalidValue`,
never a panic or a wrapped value. -/
theorem parseIndex_spec (s : List UInt8) :
    (∃ n, parseUsize s = some (n + 1) ∧ parseIndex s = .ok n) ∨
    ((parseUsize s = none ∨ parseUsize s = some 0) ∧ parseIndex s = .error .invalidValue) := by
  unfold parseIndex
  cases h : parseUsize s with
  | none => right; exact ⟨Or.inl rfl, rfl⟩
  | some n =>
    cases n with
    | zero => right; exact ⟨Or.inr rfl, rfl⟩
    | succ n => left; exact ⟨n, rfl, rfl⟩

/-- Values accepted by `usize::from_str` fit in 64 bits. -/
theorem parseUsize_lt (s : List UInt8) (n : Nat) (h : parseUsize s = some n) : n < usizeBound := by
  unfold parseUsize parseUnsigned at h
  split at h
  · simp at h
  · split at h
    · split at h
      · simp at h; omega
      · simp at h
    · simp at h

example : parseUsize [43, 49, 50] = some 12 := by decide   -- "+12"

/-- An index past the last vertex is reported, whatever the order of faces and vertices. -/
example : parseObj (fun _ => some 0)
    [102, 32, 49, 32, 49, 32, 50, 10, 118, 32, 48, 32, 48, 32, 48]   -- "f 1 1 2\nv 0 0 0"
    = .ok (.error (.indexOutOfBounds .vertex 1)) := by rfl

/-! ### Faithfulness: parsing a printed document gives back the listed mesh -/

/-- **Parse ∘ print, every layout.**  For every float parser `pf` and every well-formed document
(`docOk`: arbitrary interleaving of blank lines, comments with arbitrary bytes, indented `v`/`vt`/`vn`/`f`
lines with arbitrary non-empty horizontal whitespace – space, tab, form feed, CR – between tokens and
any trailing whitespace, each face corner written as `a`, `a/b`, `a//c` or `a/b/c`, faces before or
after the vertices / texcoords / normals they refer to, every float token accepted by `pf`),
the reader returns exactly the listed vertices – `pf` of the written coordinate tokens, in file
order – and exactly the listed triangles with indices converted to zero-based. -/
theorem obj_parse_render (pf : List UInt8 → Option UInt32) (doc : List Item) (h : docOk pf doc) :
    parseObj pf (renderDoc doc) = .ok (.ok { faces := docFaces doc, verts := docVerts doc }) := by
  unfold parseObj
  rw [foldLines_renderDoc pf doc {} h.1]
  exact finish_doc pf doc h

/-- The same with every line terminated by `\n` (and so also `\r\n`: a trailing CR is whitespace). -/
theorem obj_parse_render_nl (pf : List UInt8 → Option UInt32) (doc : List Item) (h : docOk pf doc) :
    parseObj pf (renderDocNl doc) = .ok (.ok { faces := docFaces doc, verts := docVerts doc }) := by
  unfold parseObj
  rw [splitLines_renderDocNl pf doc h.1, foldLines_items pf doc {} h.1]
  exact finish_doc pf doc h

/-- **Parse ∘ print, canonical printer, every mesh.**  `printObj layout mesh` (vertex block and
face block in either order, optional comment and blank line, any indentation / separator /
line-end whitespace) parses back to exactly `mesh`, for every mesh whose face indices are valid
and every layout. -/
theorem obj_parse_print (pf : List UInt8 → Option UInt32) (lay : Layout) (m : TextMesh)
    (hl : layoutOk lay) (hm : textMeshOk pf m) :
    parseObj pf (renderDoc (printObj lay m)) = .ok (.ok { faces := m.faces, verts := m.vertVals }) := by
  have h := obj_parse_render pf (printObj lay m) (printObj_docOk lay pf m hl hm)
  obtain ⟨l1, l2, _, _⟩ := printObj_lists lay m
  rw [l1, l2] at h
  exact h

/-- **A dangling face is always rejected** (generalises the D7 witness).  If every line of a
document is well-formed but some face corner refers to a vertex that the file never defines,
the reader returns `Err(IndexOutOfBounds("vertex", m))` with `m` the largest position index of
the file (`m ≥` number of vertices) – wherever the face stands, and also when the file defines
no vertex at all.  It never returns a mesh and never panics. -/
theorem obj_dangling_face_rejected (pf : List UInt8 → Option UInt32) (doc : List Item)
    (hok : ∀ it ∈ doc, itemOk pf it)
    (hbad : ∃ f ∈ docFacesI doc, (docVerts doc).length ≤ f.1.pos ∨ (docVerts doc).length ≤ f.2.1.pos ∨
      (docVerts doc).length ≤ f.2.2.pos) :
    ∃ m, (docVerts doc).length ≤ m ∧
      parseObj pf (renderDoc doc) = .ok (.error (.indexOutOfBounds .vertex m)) := by
  obtain ⟨f, hf, hge⟩ := hbad
  have hfold := foldLines_renderDoc pf doc {} hok
  have hinv : Inv (doc.foldl applyItem {}) := foldLines_inv pf _ _ _ inv_init hfold
  have hfaces := foldl_faces doc {}
  have hverts := foldl_verts doc {}
  simp only [List.nil_append] at hfaces hverts
  have hmem : f ∈ (doc.foldl applyItem {}).faces := by rw [hfaces]; exact hf
  obtain ⟨h1, h2, h3⟩ := hinv f hmem
  refine ⟨(doc.foldl applyItem {}).maxI.pos, by omega, ?_⟩
  have hne : (doc.foldl applyItem {}).faces.isEmpty = false := by
    cases hfs : (doc.foldl applyItem {}).faces with
    | nil => rw [hfs] at hmem; simp at hmem
    | cons _ _ => rfl
  have hc : (!(doc.foldl applyItem {}).faces.isEmpty &&
      decide ((doc.foldl applyItem {}).maxI.pos ≥ (doc.foldl applyItem {}).verts.length)) = true := by
    rw [hne, hverts]; simp; omega
  have hfin : finish (doc.foldl applyItem {}) =
      .ok (.error (.indexOutOfBounds .vertex (doc.foldl applyItem {}).maxI.pos)) := by
    unfold finish; rw [if_pos hc]
  unfold parseObj
  rw [hfold]
  exact hfin

-- satisfiable: "f 1 2 3" alone
example : ∃ f ∈ docFacesI [Item.face [] [32] ⟨⟨0, none, none⟩, [32]⟩ ⟨⟨1, none, none⟩, [32]⟩ ⟨⟨2, none, none⟩, []⟩],
    (docVerts [Item.face [] [32] ⟨⟨0, none, none⟩, [32]⟩ ⟨⟨1, none, none⟩, [32]⟩ ⟨⟨2, none, none⟩, []⟩]).length ≤ f.1.pos :=
  ⟨_, List.mem_cons_self, Nat.le_refl _⟩

-- Non-vacuity of `docOk`: a document with a comment, CRLF line end, a face before its vertices in
-- the `a//c` and `a/b/c` forms, exponent notation; rendered and parsed by the concrete model.
def exampleDoc : List Item :=
  [ .comment [32] [32, 233, 35],                                                       -- " # é#"
    .face [] [32] ⟨⟨0, none, some 0⟩, [32]⟩ ⟨⟨0, some 0, some 0⟩, [9]⟩ ⟨⟨0, none, none⟩, [13]⟩,
    .blank [],
    .vertex [9] [32, 32] ⟨[49], 0x3F800000, [32]⟩ ⟨[50, 101, 48], 0x40000000, [32]⟩ ⟨[45, 46, 53], 0xBF000000, []⟩,
    .normal [] [32] ⟨[48], 0, [32]⟩ ⟨[48], 0, [32]⟩ ⟨[49], 0x3F800000, []⟩,
    .texcoord [] [32] ⟨[48], 0, [32]⟩ ⟨[49], 0x3F800000, []⟩ ]

/-- The float parser used in the non-vacuity example: three tokens, as `f32::from_str` reads them. -/
def examplePf (t : List UInt8) : Option UInt32 :=
  if t = [49] then some 0x3F800000            -- "1"
  else if t = [50, 101, 48] then some 0x40000000   -- "2e0"
  else if t = [45, 46, 53] then some 0xBF000000    -- "-.5"
  else if t = [48] then some 0                     -- "0"
  else none

example : docOk examplePf exampleDoc := by
  constructor
  · intro it hit
    simp only [exampleDoc, List.mem_cons, List.mem_nil_iff, or_false] at hit
    rcases hit with rfl | rfl | rfl | rfl | rfl | rfl <;>
      simp [itemOk, floatOk, cornerOk, hws, sepOk, tokOk, idxOk, usizeBound, examplePf, isHws, isWs]
  · intro it hit
    simp only [exampleDoc, List.mem_cons, List.mem_nil_iff, or_false] at hit
    rcases hit with rfl | rfl | rfl | rfl | rfl | rfl <;>
      simp [itemInRange, cornerInRange, exampleDoc, docVerts, docTexCount, docNormCount]

example : parseObj examplePf (renderDoc exampleDoc)
    = .ok (.ok { faces := [(0, 0, 0)], verts := [(0x3F800000, 0x40000000, 0xBF000000)] }) := by
  rfl

-- Non-vacuity of `layoutOk` / `textMeshOk`.
example : textMeshOk examplePf { verts := [(([49], 0x3F800000), ([48], 0), ([45, 46, 53], 0xBF000000))], faces := [(0, 0, 0)] } := by
  refine ⟨?_, ?_, by decide⟩
  · intro v hv
    simp only [List.mem_cons, List.mem_nil_iff, or_false] at hv
    subst hv
    simp [tokOk, examplePf, isWs]
  · intro f hf
    simp only [List.mem_cons, List.mem_nil_iff, or_false] at hf
    subst hf
    simp
example : layoutOk { facesFirst := true, indent := [32, 9], sep := [32], trail := [13], comment := some [104, 105], blankBetween := true } := by
  refine ⟨?_, ⟨by simp, ?_⟩, ?_, ?_⟩
  · intro b hb; simp at hb; rcases hb with rfl | rfl <;> decide
  · intro b hb; simp at hb; subst hb; decide
  · intro b hb; simp at hb; subst hb; decide
  · intro t ht; simp at ht; subst ht; decide

/-! ### The written coordinates: the driver's float parser on decimal literals

`f32::from_str` is a parameter of the theorems above.  The instance the driver runs,
`ParseF32.parseF32`, is characterised here on every literal of the OBJ float grammar
(`Retro.Decimal.Literal`: optional sign, digits, optional fraction, optional exponent with `e`/`E`
and optional sign); that this agrees with Rust's parser is checked differentially (op `f32`). -/

/-- Plain and exponent notation: the parser accepts every well-formed literal and returns the
sign bit together with `encodeMag mantissa exponent`, where `mantissa` is the number formed by all
written digits and `exponent` the written exponent minus the number of fraction digits. -/
theorem parseF32_decimal (l : Decimal.Literal) (h : Decimal.wf l) :
    ParseF32.parseF32 (Decimal.text l) =
      some (ParseF32.encodeMag (Decimal.mantissa l) (Decimal.exponent l) |||
        (if l.sign = some true then 0x80000000 else 0)) :=
  ParseF32.parseF32_text l h

/-- … and `encodeMag d e` is the exact rational `d · 10^e` rounded to nearest-even binary32
(`F32.ofRat`) whenever the decimal magnitude is not astronomically out of range (outside this
band the result is ∞ resp. 0 without building the power of ten). -/
theorem encodeMag_exact (d : Nat) (e : Int) (hd : d ≠ 0)
    (h1 : ((ParseF32.numDigits (d.log2 + 1) d : Nat) : Int) + e ≤ 41)
    (h2 : -50 ≤ ((ParseF32.numDigits (d.log2 + 1) d : Nat) : Int) + e) :
    ParseF32.encodeMag d e =
      F32.ofRat (if e ≥ 0 then ((d * ParseF32.pow10 e.toNat : Nat) : Rat)
                 else (d : Rat) / ((ParseF32.pow10 (-e).toNat : Nat) : Rat)) := by
  unfold ParseF32.encodeMag
  have hd' : (d == 0) = false := by simp [hd]
  simp only [hd', Bool.false_eq_true, if_false]
  rw [if_neg (by omega), if_neg (by omega)]

/-- A literal is a single token: non-empty and free of whitespace. -/
theorem decimal_text_tokOk (l : Decimal.Literal) (h : Decimal.wf l) : tokOk (Decimal.text l) := by
  constructor
  · intro hnil
    have := ParseF32.parseF32_text l h
    rw [hnil] at this
    simp [ParseF32.parseF32] at this
  · intro b hb
    have hc := ParseF32.text_litChar l h b hb
    rcases hc with hd | rfl | rfl | rfl | rfl | rfl
    · -- a digit is not whitespace
      simp only [ParseF32.isDigit, Bool.and_eq_true, decide_eq_true_eq] at hd
      have h20 : b ≠ 0x20 := by intro hb; subst hb; revert hd; decide
      have h09 : b ≠ 0x09 := by intro hb; subst hb; revert hd; decide
      have h0a : b ≠ 0x0A := by intro hb; subst hb; revert hd; decide
      have h0c : b ≠ 0x0C := by intro hb; subst hb; revert hd; decide
      have h0d : b ≠ 0x0D := by intro hb; subst hb; revert hd; decide
      simp [isWs, h20, h09, h0a, h0c, h0d]
    all_goals decide

/-- **End to end for the model the driver runs.**  A mesh whose coordinates are written as
arbitrary decimal literals (plain or exponent notation), printed by `printObj` in any layout and
read by `parseObj` with the driver's float parser, yields exactly the listed triangles and, for
every coordinate, the binary32 value `±encodeMag mantissa exponent` of its literal. -/
theorem obj_parse_print_decimal (lay : Layout)
    (verts : List (Decimal.Literal × Decimal.Literal × Decimal.Literal)) (faces : List (Nat × Nat × Nat))
    (hl : layoutOk lay)
    (hv : ∀ v ∈ verts, Decimal.wf v.1 ∧ Decimal.wf v.2.1 ∧ Decimal.wf v.2.2)
    (hf : ∀ f ∈ faces, f.1 < verts.length ∧ f.2.1 < verts.length ∧ f.2.2 < verts.length)
    (hlen : verts.length < usizeBound) :
    let enc := fun (l : Decimal.Literal) =>
      ParseF32.encodeMag (Decimal.mantissa l) (Decimal.exponent l) ||| (if l.sign = some true then 0x80000000 else 0)
    let m : TextMesh :=
      { verts := verts.map fun v => ((Decimal.text v.1, enc v.1), (Decimal.text v.2.1, enc v.2.1), (Decimal.text v.2.2, enc v.2.2))
        faces := faces }
    parseObj ParseF32.parseF32 (renderDoc (printObj lay m)) =
      .ok (.ok { faces := faces, verts := verts.map fun v => (enc v.1, enc v.2.1, enc v.2.2) }) := by
  intro enc m
  have hm : textMeshOk ParseF32.parseF32 m := by
    refine ⟨?_, ?_, ?_⟩
    · intro v hv'
      simp only [m, List.mem_map] at hv'
      obtain ⟨w, hw, rfl⟩ := hv'
      obtain ⟨h1, h2, h3⟩ := hv w hw
      exact ⟨⟨decimal_text_tokOk _ h1, parseF32_decimal _ h1⟩, ⟨decimal_text_tokOk _ h2, parseF32_decimal _ h2⟩,
        ⟨decimal_text_tokOk _ h3, parseF32_decimal _ h3⟩⟩
    · intro f hf'
      simp only [m, List.length_map]
      exact hf f hf'
    · simp only [m, List.length_map]; exact hlen
  have := obj_parse_print ParseF32.parseF32 lay m hl hm
  simp only [TextMesh.vertVals, m, List.map_map] at this
  exact this

-- hypotheses of `encodeMag_exact` for "3.0e-2" (mantissa 30, exponent −3)
example : (30 : Nat) ≠ 0 ∧ ((ParseF32.numDigits ((30 : Nat).log2 + 1) 30 : Nat) : Int) + (-3) ≤ 41 ∧
    -50 ≤ ((ParseF32.numDigits ((30 : Nat).log2 + 1) 30 : Nat) : Int) + (-3) := by decide

-- "-1.0e0", "0.2e1", "3.0e-2" of the repository's own test `exp_notation`, and "1.23e3":
example : ParseF32.parseF32 [45, 49, 46, 48, 101, 48] = some 0xBF800000 := by decide +kernel
example : ParseF32.parseF32 [48, 46, 50, 101, 49] = some 0x40000000 := by decide +kernel
example : ParseF32.parseF32 [51, 46, 48, 101, 45, 50] = some 0x3CF5C28F := by decide +kernel
example : ParseF32.parseF32 [49, 46, 50, 51, 101, 51] = some 0x4499C000 := by decide +kernel
example : Decimal.wf ⟨some true, [1], true, [0], some ⟨false, none, [0]⟩⟩ := by
  refine ⟨?_, ?_, by decide, by simp, ?_⟩
  · intro d hd; simp at hd; omega
  · intro d hd; simp at hd; omega
  · intro e he; simp at he; subst he; exact ⟨by intro d hd; simp at hd; omega, by simp⟩

end Retro.Props.C14
