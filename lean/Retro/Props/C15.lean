/-
C15 — generated solids are closed, consistently wound and carry unit normals.
Property theorems only; helper lemmas live in Retro/Lemmas/Lathe.lean.

Layer 1 (this file): theorems for *all* parameter values about the model of `Lathe::build`
(`Retro.Lathe`, Model/Lathe.lean) – the face list the driver compares with `mesh.faces` on every
run – and exact-field facts about the vertex rings.
Layer 2 (driver, Spec/Solid.lean): per-instance certificates evaluated on the real meshes.
-/
import Retro.Model.Lathe
import Retro.Model.Platonic
import Retro.Lemmas.Lathe
import Retro.Lemmas.LatheGrid
import Retro.Props.C15.GridSphere
import Retro.Props.C15.GridTorus
import Retro.Props.C15.GridCone
import Retro.Props.C15.GridCapsule
import Retro.Props.C15.Closed
import Retro.Props.C15.ClosedEuler
import Retro.Props.C15.ClosedPoles
import Retro.Props.C15.ClosedCones
import Retro.Props.C15.ClosedTorus
import Retro.Props.C15.ClosedEulerMore
import Retro.Props.C15.ClosedEulerCones
import Retro.Props.C15.CapOrient
import Mathlib.Tactic.Ring
import Mathlib.Tactic.LinearCombination
import Mathlib.Algebra.Field.Basic
import Mathlib.Algebra.Order.Field.Basic
import Mathlib.Tactic.Positivity
import Mathlib.Tactic.NormNum

namespace Retro.Props.C15
open Retro Retro.Lathe Retro.Surface

/-! ### Index arithmetic of `Lathe::build`, every `n_points`, `sectors`, capped or not -/

/-- Number of faces pushed: two per quad, `secs − 1` per cap fan. -/
theorem lathe_face_count (np secs : Nat) (capped : Bool) :
    (faces np secs capped).length =
      (np - 1) * (secs * 2) + (if hasCaps np capped then 2 * (secs - 1) else 0) := by
  unfold faces
  rw [List.length_append, length_sideFaces]
  split <;> simp [bottomCap, topCap]; omega

/-- Number of vertices: `secs + 1` per profile point, plus two duplicated rings for the caps. -/
theorem lathe_vert_count (np secs : Nat) (capped : Bool) :
    vertCount np secs capped = np * (secs + 1) + (if capped ∧ 0 < np then 2 * (secs + 1) else 0) := by
  unfold vertCount ringVertCount hasCaps
  cases capped <;> simp

/-- Every face index is below the vertex count – for **every** `n_points` and `sectors`
(including 0, 1, 2: `Lathe { .. }` can be built without `Lathe::new`'s `sectors ≥ 3` assertion),
capped or not.  Hence `Mesh::new`'s assertion in `b.build()` (lathe.rs:154) cannot fire. -/
theorem lathe_faces_valid (np secs : Nat) (capped : Bool) :
    ∀ f ∈ faces np secs capped,
      f.1 < vertCount np secs capped ∧ f.2.1 < vertCount np secs capped ∧
      f.2.2 < vertCount np secs capped := by
  intro f hf
  unfold faces at hf
  rw [List.mem_append] at hf
  rcases hf with hf | hf
  · rw [mem_sideFaces] at hf
    obtain ⟨j0, hj, i0, hi, hq⟩ := hf
    have := quad_index_bound hj hi hq
    unfold vertCount ringVertCount
    omega
  · split at hf
    · rename_i hc
      unfold vertCount
      rw [if_pos hc]
      rw [List.mem_append, mem_bottomCap, mem_topCap] at hf
      rcases hf with ⟨i0, hi, rfl⟩ | ⟨i0, hi, rfl⟩ <;> simp only <;> omega
    · simp at hf

example : faces 2 3 true =
    [(0, 5, 1), (0, 4, 5), (1, 6, 2), (1, 5, 6), (2, 7, 3), (2, 6, 7),
     (8, 9, 10), (8, 10, 11), (12, 14, 13), (12, 15, 14)] := by decide

/-- Orientation of neighbouring side faces, every `n`, `j`, `i ≥ 1`.  Writing quad `(j,i)` as
`[(p,s,q), (p,r,s)]`: the diagonal is traversed `p→s` by the first and `s→p` by the second
triangle; the edge shared with the next column, `s→q` here, is `p'→r'` there (`p' = q`, `r' = s`);
the edge shared with the next row, `r→s` here, is `q''→p''` there (`p'' = r`, `q'' = s`).
So every interior edge is used in opposite directions by its two faces. -/
theorem quad_neighbours_opposite (n j i : Nat) (hi : 1 ≤ i) :
    ∃ p q r s p' q' r' s' p'' q'' r'' s'',
      quadFaces n j i = [(p, s, q), (p, r, s)] ∧
      quadFaces n j (i + 1) = [(p', s', q'), (p', r', s')] ∧ p' = q ∧ r' = s ∧
      quadFaces n (j + 1) i = [(p'', s'', q''), (p'', r'', s'')] ∧ p'' = r ∧ q'' = s := by
  refine ⟨_, _, _, _, _, _, _, _, _, _, _, _, rfl, rfl, ?_, ?_, rfl, ?_, ?_⟩
  · omega
  · omega
  · simp only [Nat.add_sub_cancel]
  · simp only [Nat.add_sub_cancel]

/-! ### Vertex rings in exact arithmetic (any commutative ring; `ℚ` in the driver) -/

section Field
variable {K : Type} [CommRing K]

/-- One step of `rotate_y` with `c² + s² = 1` keeps the height and the distance from the axis. -/
theorem rotY_invariants (c s : K) (h : c * c + s * s = 1) (v : V3 K) :
    (rotY c s v).2.1 = v.2.1 ∧ radSq (rotY c s v) = radSq v ∧ lenSq (rotY c s v) = lenSq v := by
  obtain ⟨x, y, z⟩ := v
  refine ⟨rfl, ?_, ?_⟩
  · simp only [rotY, radSq]
    linear_combination (x * x + z * z) * h
  · simp only [rotY, lenSq]
    linear_combination (x * x + z * z) * h

/-- `ring_on_circle`: every vertex of a ring has the height of the ring's first vertex and lies on
the same circle around the y-axis (lathe.rs:109-113), for every number of pushes. -/
theorem ring_on_circle (c s : K) (h : c * c + s * s = 1) (k : Nat) (v : V3 K) :
    ∀ p ∈ ring c s k v, p.2.1 = v.2.1 ∧ radSq p = radSq v := by
  induction k generalizing v with
  | zero => intro p hp; simp [ring] at hp
  | succ k ih =>
    intro p hp
    simp only [ring, List.mem_cons] at hp
    rcases hp with rfl | hp
    · exact ⟨rfl, rfl⟩
    · obtain ⟨h1, h2⟩ := ih (rotY c s v) p hp
      obtain ⟨g1, g2, _⟩ := rotY_invariants c s h v
      exact ⟨h1.trans g1, h2.trans g2⟩

/-- `ring_normal_unit`: the normals of a ring, obtained by the same step rotation from a unit
normal, all have unit length. -/
theorem ring_normal_unit (c s : K) (h : c * c + s * s = 1) (k : Nat) (n : V3 K) (hn : lenSq n = 1) :
    ∀ m ∈ ring c s k n, lenSq m = 1 := by
  induction k generalizing n with
  | zero => intro m hm; simp [ring] at hm
  | succ k ih =>
    intro m hm
    simp only [ring, List.mem_cons] at hm
    rcases hm with rfl | hm
    · exact hn
    · exact ih (rotY c s n) ((rotY_invariants c s h n).2.2.trans hn) m hm

theorem ring_length (c s : K) (k : Nat) (v : V3 K) : (ring c s k v).length = k := by
  induction k generalizing v with
  | zero => rfl
  | succ k ih => simp [ring, ih]

/-- A ring is the profile point placed at successive azimuths. -/
theorem rotY_place (c s x y : K) (a : K × K) :
    rotY c s (place x y a) = place x y (stepAngle c s a) := by
  simp only [rotY, place, stepAngle]
  refine Prod.ext ?_ (Prod.ext rfl ?_) <;> simp only <;> ring

theorem stepAngle_unit (c s : K) (h : c * c + s * s = 1) (a : K × K) (ha : a.1 * a.1 + a.2 * a.2 = 1) :
    (stepAngle c s a).1 * (stepAngle c s a).1 + (stepAngle c s a).2 * (stepAngle c s a).2 = 1 := by
  simp only [stepAngle]
  linear_combination (a.1 * a.1 + a.2 * a.2) * h + ha

theorem ring_place (c s x y : K) (k : Nat) (a : K × K) :
    ring c s k (place x y a) = (angles c s k a).map (place x y) := by
  induction k generalizing a with
  | zero => rfl
  | succ k ih => simp only [ring, angles, List.map_cons, rotY_place, ih]

/-- **Every ring vertex of `Lathe::build`, every parameter.**  If `rs` inverts the square root on
the profile normals' squared lengths (`rs(l)²·l = 1`), the start azimuth and the step are unit
vectors, then each pushed vertex belongs to a profile point `pt`: it has `pt`'s height, lies at
distance `|pt.x|` from the axis, and its normal has unit length.  The number of vertices is
`n_points · (sectors + 1)`, the `ringVertCount` of the index model. -/
theorem ring_verts_on_profile (rs : K → K) (start : K × K) (c s : K) (secs : Nat)
    (profile : List (ProfilePoint K))
    (hstart : start.1 * start.1 + start.2 * start.2 = 1) (hstep : c * c + s * s = 1)
    (hrs : ∀ pt ∈ profile, rs (lenSq (place pt.nx pt.ny start)) * rs (lenSq (place pt.nx pt.ny start)) *
      lenSq (place pt.nx pt.ny start) = 1) :
    (ringVerts rs start c s secs profile).length = ringVertCount profile.length secs ∧
    ∀ v ∈ ringVerts rs start c s secs profile, ∃ pt ∈ profile,
      v.1.2.1 = pt.y ∧ radSq v.1 = pt.x * pt.x ∧ lenSq v.2 = 1 := by
  constructor
  · unfold ringVerts ringVertCount
    rw [length_flatMap_const _ _ (secs + 1)]
    intro pt
    rw [List.length_zip, ring_length, ring_length, Nat.min_self]
  · intro v hv
    unfold ringVerts at hv
    rw [List.mem_flatMap] at hv
    obtain ⟨pt, hpt, hz⟩ := hv
    refine ⟨pt, hpt, ?_⟩
    have h1 := List.of_mem_zip hz
    obtain ⟨hp, hn⟩ := h1
    obtain ⟨g1, g2⟩ := ring_on_circle c s hstep _ _ _ hp
    have hunit : lenSq (normalize rs (place pt.nx pt.ny start)) = 1 := by
      have := hrs pt hpt
      simp only [Lathe.normalize, scale3, lenSq, place] at this ⊢
      linear_combination this
    refine ⟨g1, ?_, ring_normal_unit c s hstep _ _ hunit _ hn⟩
    rw [g2]
    simp only [radSq, place]
    linear_combination (pt.x * pt.x) * hstart

-- hypotheses satisfiable over ℚ: start azimuth (1,0), 3-4-5 step, one profile point with normal (1,0), rs = id
example : ((1 : ℚ) * 1 + 0 * 0 = 1) ∧ ((3 : ℚ) / 5 * (3 / 5) + 4 / 5 * (4 / 5) = 1) ∧
    (∀ pt ∈ [({ x := 2, y := -1, nx := 1, ny := 0 } : ProfilePoint ℚ)],
      id (lenSq (place pt.nx pt.ny ((1 : ℚ), (0 : ℚ)))) * id (lenSq (place pt.nx pt.ny (1, 0))) *
        lenSq (place pt.nx pt.ny (1, 0)) = 1) := by
  refine ⟨by norm_num, by norm_num, ?_⟩
  intro pt hpt
  simp only [List.mem_cons, List.mem_nil_iff, or_false] at hpt
  subst hpt
  simp [lenSq, place]

/-- **Side faces, every parameter.**  Take two consecutive profile points `A = (xa, ya)`,
`B = (xb, yb)` and two consecutive azimuths `a`, `a' = step a` (`a` a unit vector; the step
`(c, s)` arbitrary).  With `p = A@a`, `q = A@a'`, `r = B@a`, `s' = B@a'` (lathe.rs:119-122) the
geometric normal of the first triangle `(p, s', q)` has, with the vertex normal obtained from
**any** profile normal `(nx, ny)` placed at azimuth `a` or `a'`, the dot product
`xa · s · (nx·(yb−ya) − ny·(xb−xa))`; for the second triangle `(p, r, s')` it is
`xb · s · (nx·(yb−ya) − ny·(xb−xa))`.

Hence a vertex normal lies on the side of the geometric normal of a side face exactly when
`x · sin(step) · ⟨n, (dy, −dx)⟩ > 0`: positive radius, step angle in (0, π) (always for
`sectors ≥ 3` and a full turn), and a profile normal on the right-hand side of the profile
direction – which is how `Cone::build` (`n = (dy, −dx)`, lathe.rs:208-209) and the circular
profiles define them.  The same sign for both triangles and all azimuths: consistent winding. -/
theorem side_face_dot (c s xa ya xb yb nx ny : K) (a : K × K) (ha : a.1 * a.1 + a.2 * a.2 = 1) :
    let a' := stepAngle c s a
    let p := place xa ya a; let q := place xa ya a'; let r := place xb yb a; let s' := place xb yb a'
    let w := nx * (yb - ya) - ny * (xb - xa)
    dot3 (faceNormal p s' q) (place nx ny a) = xa * s * w ∧
    dot3 (faceNormal p s' q) (place nx ny a') = xa * s * w ∧
    dot3 (faceNormal p r s') (place nx ny a) = xb * s * w ∧
    dot3 (faceNormal p r s') (place nx ny a') = xb * s * w := by
  obtain ⟨a1, a2⟩ := a
  simp only at ha
  simp only [place, stepAngle, faceNormal, cross3, sub3, dot3]
  refine ⟨?_, ?_, ?_, ?_⟩
  · linear_combination (xa * s * (nx * (yb - ya) - ny * (xb - xa))) * ha
  · linear_combination (xa * s * (nx * (yb - ya) - ny * (xb - xa))) * ha
  · linear_combination (xb * s * (nx * (yb - ya) - ny * (xb - xa))) * ha
  · linear_combination (xb * s * (nx * (yb - ya) - ny * (xb - xa))) * ha

/-- The cone/cylinder normal `n = (dy, −dx)` (lathe.rs:208-209) gives `⟨n, (dy, −dx)⟩ = |AB|²`. -/
theorem cone_normal_weight (xa ya xb yb : K) :
    (yb - ya) * (yb - ya) - (-(xb - xa)) * (xb - xa) = (xb - xa) * (xb - xa) + (yb - ya) * (yb - ya) := by
  ring

/-- Circular profiles (Sphere, Torus tube, Capsule caps: `polar(ρ, alt)` about a centre, normal = the
radius vector, lathe.rs:163-166, 175-178, 230-233): for two consecutive profile points at
altitudes `(ca, sa)`, `(cb, sb)` the weight `⟨n, (dy, −dx)⟩` of `side_face_dot` is
`ρ²·(ca·sb − sa·cb) = ρ²·sin(altitude step)` for the normal of either end point – positive for a
step in (0, π).  (The capsule's body uses the normal `(1, 0)` with `dy > 0`: weight `dy`.) -/
theorem circle_profile_weight (x0 y0 rho ca sa cb sb : K) :
    let xa := x0 + rho * ca; let ya := y0 + rho * sa
    let xb := x0 + rho * cb; let yb := y0 + rho * sb
    (rho * ca) * (yb - ya) - (rho * sa) * (xb - xa) = rho * rho * (ca * sb - sa * cb) ∧
    (rho * cb) * (yb - ya) - (rho * sb) * (xb - xa) = rho * rho * (ca * sb - sa * cb) := by
  constructor <;> ring

-- hypotheses satisfiable: the 3-4-5 rotation over ℚ
example : ((3 : ℚ) / 5) * (3 / 5) + (4 / 5) * (4 / 5) = 1 := by norm_num

end Field

section Ordered
variable {K : Type} [Field K] [LinearOrder K] [IsStrictOrderedRing K]

/-- In an ordered field: positive radii, a step angle with positive sine and a profile normal on
the right-hand side of the profile direction put the vertex normals of all four corners strictly
on the side of the geometric normals of both triangles of the quad. -/
theorem side_faces_same_side (c s xa ya xb yb nx ny : K) (a : K × K) (ha : a.1 * a.1 + a.2 * a.2 = 1)
    (hs : 0 < s) (hxa : 0 < xa) (hxb : 0 < xb) (hw : 0 < nx * (yb - ya) - ny * (xb - xa)) :
    let a' := stepAngle c s a
    let p := place xa ya a; let q := place xa ya a'; let r := place xb yb a; let s' := place xb yb a'
    0 < dot3 (faceNormal p s' q) (place nx ny a) ∧ 0 < dot3 (faceNormal p s' q) (place nx ny a') ∧
    0 < dot3 (faceNormal p r s') (place nx ny a) ∧ 0 < dot3 (faceNormal p r s') (place nx ny a') := by
  obtain ⟨h1, h2, h3, h4⟩ := side_face_dot c s xa ya xb yb nx ny a ha
  simp only at h1 h2 h3 h4 ⊢
  rw [h1, h2, h3, h4]
  exact ⟨by positivity, by positivity, by positivity, by positivity⟩

-- satisfiable: unit cylinder segment A = (1,−1), B = (1,1), Cone normal (dy, −dx) = (2, 0), 3-4-5 step
example : (0 : ℚ) < 4 / 5 ∧ (0 : ℚ) < 2 * (1 - (-1)) - 0 * (1 - 1) := by norm_num

end Ordered

-- the grid hypotheses are satisfiable, e.g. the smallest sphere, torus and capsule
example : (2 ≤ 2 ∧ 2 ≤ 12) ∧ (3 ≤ 3 ∧ 3 ≤ 12) ∧ (1 ≤ 1 ∧ 1 ≤ 3) ∧ (1 ≤ 1 ∧ 1 ≤ 4) := by omega

/-! ### The Platonic tables (platonic.rs) -/

/-- No table index is out of range (the model's `getD` defaults are never used; the Rust constant
indexing cannot panic). -/
theorem platonic_tables_in_range : Platonic.tablesInRange = true := by decide +kernel

/-- Tetrahedron `FACES` over its 4 coordinates: closed, consistently wound, χ = 2. -/
theorem tetra_closed : ClosedOriented (dirEdges Platonic.tetraFaces) ∧ eulerChar 4 Platonic.tetraFaces = 2 :=
  facesOK_sound _ _ _ (by decide +kernel)

/-- Octahedron `VERTS`/`FACES` over its 6 coordinates. -/
theorem octa_closed : ClosedOriented (dirEdges Platonic.octaFaces) ∧ eulerChar 6 Platonic.octaFaces = 2 :=
  facesOK_sound _ _ _ (by decide +kernel)

/-- Dodecahedron: the 12 pentagons, each triangulated as a fan, over the 20 coordinates. -/
theorem dodeca_closed : ClosedOriented (dirEdges Platonic.dodecaFaces) ∧ eulerChar 20 Platonic.dodecaFaces = 2 :=
  facesOK_sound _ _ _ (by decide +kernel)

/-- Icosahedron `FACES` over its 12 coordinates. -/
theorem icosa_closed : ClosedOriented (dirEdges Platonic.icosaFaces) ∧ eulerChar 12 Platonic.icosaFaces = 2 :=
  facesOK_sound _ _ _ (by decide +kernel)

/-- Box `FACES` through `VERTS` over the 8 corners. -/
theorem box_closed : ClosedOriented (dirEdges Platonic.boxCornerFaces) ∧ eulerChar 8 Platonic.boxCornerFaces = 2 :=
  facesOK_sound _ _ _ (by decide +kernel)

/-- The rational description `tetraQ` (axis radicals √2, 1, √6) is exactly the tetrahedron's
coordinate table. -/
theorem tetra_q_represents : Platonic.tetraQRepresents = true := by decide +kernel

/-- Tetrahedron (irrational coordinates, decided exactly through their rational coefficients):
the table normal `−coords[opposite vertex]` of every face is parallel to the geometric normal
`(b−a)×(c−a)`, on its side, and points away from the centre. -/
theorem tetra_normals_outward : Platonic.tetraNormalsOutward = true := by decide +kernel

/-- Octahedron: in exact arithmetic every face normal table entry `NORMS[i]` is parallel to the
geometric normal `(b−a)×(c−a)` of face `i`, on its side, and points away from the centre
(so the winding is counter-clockwise seen from outside). -/
theorem octa_normals_outward :
    Platonic.normalsOutward Platonic.octaCoords Platonic.octaFaces
      (fun k => Platonic.octaNorms.getD k default) true = true := by decide +kernel

/-- Icosahedron with the binary32 constant `PHI = 1.618034f32`: `NORMALS[i] = Dodecahedron::COORDS[i]`
is on the side of the geometric normal of face `i` and points outwards (not exactly parallel,
because `PHI` is not the golden ratio exactly and `R_PHI` is rounded). -/
theorem icosa_normals_outward :
    Platonic.normalsOutward Platonic.icosaCoords Platonic.icosaFaces
      (fun k => Platonic.dodecaCoords.getD k default) false = true := by decide +kernel

/-- Dodecahedron: all three fan triangles of pentagon `i` have `NORMALS[i] = Icosahedron::COORDS[i]`
on the side of their geometric normal, pointing outwards. -/
theorem dodeca_normals_outward :
    Platonic.normalsOutward Platonic.dodecaCoords Platonic.dodecaFaces
      (fun k => Platonic.icosaCoords.getD (k / 3) default) false = true := by decide +kernel

/-- Box: for the unit box the face normal table entry of each triangle's vertices is parallel to
its geometric normal and points outwards from the centre (½,½,½) – stated about the origin for
the box translated by −½. -/
theorem box_normals_outward :
    Platonic.normalsOutward (Platonic.boxCoords.map fun c => (c.1 - 1/2, c.2.1 - 1/2, c.2.2 - 1/2))
      Platonic.boxCornerFaces
      (fun k => Platonic.boxNorms.getD (Platonic.boxVerts.getD ((Platonic.boxFaces.getD k default).1) default).2 default)
      true = true := by decide +kernel

end Retro.Props.C15
