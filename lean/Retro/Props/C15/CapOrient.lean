/-
C15 — geometric orientation of the lathe's cap fans and side quads for EVERY sector count.

`Lathe::build` (/repo/geom/src/solids/lathe.rs:101-113) makes every ring by INCREMENTAL rotation:
`pos = rot.apply_pt(&pos)` with the one matrix `rot = rotate_y((end − start)/secs)`.  On the (x, z)
plane `rotate_y` (mat.rs:562-571: rows `[c,0,−s,0]`, `[0,1,0,0]`, `[s,0,c,0]`) acts as
`R = [[c, −s], [s, c]]`, which is the model's `stepAngle c s`; so the ring points are `pᵢ = Rⁱ p₀`.
For any `p`:  `det [p, R p] = s·|p|²`  and  `|R p|² = |p|²`  (given `c² + s² = 1`), hence every
step of every ring turns the same way, whatever the number of sectors – no ordering of azimuths
is needed for that.

The ACTUAL cap fan is `(p₀, pᵢ, pᵢ₊₁)` – it fans from the first ring vertex `l`, not from the axis
(lathe.rs:139-141, 150-152).  Its doubled signed area has the closed form

    det [pᵢ − p₀, pᵢ₊₁ − p₀] = |p₀|² · ( s·(1 − Cᵢ) + (1 − c)·Sᵢ )          (Cᵢ, Sᵢ) = Rⁱ (1, 0)
                             = |p₀|² · ( s·(1 − Cᵢ₊₁) − (1 − c)·Sᵢ₊₁ )

(`fan_area_closed`), so it is `≥ 0` as soon as `0 ≤ s` and (`0 ≤ Sᵢ` or `Sᵢ₊₁ ≤ 0`) – i.e. while
the fan has not gone past a full turn – and `> 0` unless the triangle is degenerate.  Over `ℝ` with
the true `cos`/`sin` of a step `θ ∈ (0, π)`, `(i+1)·θ ≤ 2π`, that hypothesis is discharged for every
count (`fan_convex_real`); over `ℚ` it is decidable (examples).
-/
import Retro.Model.Lathe
import Retro.Lemmas.Lathe
import Mathlib.Tactic.Ring
import Mathlib.Tactic.LinearCombination
import Mathlib.Tactic.Linarith
import Mathlib.Tactic.Positivity
import Mathlib.Tactic.NormNum
import Mathlib.Algebra.Order.Field.Basic
import Mathlib.Logic.Function.Iterate
import Mathlib.Analysis.SpecialFunctions.Trigonometric.Basic

namespace Retro.Props.C15
open Retro Retro.Lathe

/-! ### Plane notions (the (x, z) plane, seen from +y with x to the right and z up) -/

section Defs
variable {K : Type} [CommRing K]

/-- Projection of a vertex on the (x, z) plane. -/
def xz (v : V3 K) : K × K := (v.1, v.2.2)
def det2 (p q : K × K) : K := p.1 * q.2 - p.2 * q.1
def dot2 (p q : K × K) : K := p.1 * q.1 + p.2 * q.2
def normSq (p : K × K) : K := p.1 * p.1 + p.2 * p.2
def sub2 (p q : K × K) : K × K := (p.1 - q.1, p.2 - q.2)

/-- `(cos (k·step), sin (k·step))`: the `k`-th iterate of the step rotation on `(1, 0)`. -/
def mult (c s : K) (k : Nat) : K × K := (stepAngle c s)^[k] (1, 0)

/-- Doubled signed area (in the (x, z) plane) of the fan triangle `(p₀, pᵢ, pᵢ₊₁)` of the ring that
starts at `v`: `pₖ = Rᵏ (xz v)`. -/
def fanArea (c s : K) (v : V3 K) (i : Nat) : K :=
  det2 (sub2 ((stepAngle c s)^[i] (xz v)) (xz v)) (sub2 ((stepAngle c s)^[i + 1] (xz v)) (xz v))

end Defs

/-! ### Bridge: the model's 3-D step `rotY` is the plane rotation `stepAngle` on (x, z), identity on y -/

section Bridge
variable {K : Type} [CommRing K]

theorem xz_rotY (c s : K) (v : V3 K) : xz (rotY c s v) = stepAngle c s (xz v) := rfl

theorem xz_iterate_rotY (c s : K) (i : Nat) (v : V3 K) :
    xz ((rotY c s)^[i] v) = (stepAngle c s)^[i] (xz v) := by
  induction i generalizing v with
  | zero => rfl
  | succ i ih => rw [Function.iterate_succ_apply, Function.iterate_succ_apply, ih, xz_rotY]

theorem y_iterate_rotY (c s : K) (i : Nat) (v : V3 K) : ((rotY c s)^[i] v).2.1 = v.2.1 := by
  induction i generalizing v with
  | zero => rfl
  | succ i ih => rw [Function.iterate_succ_apply, ih]; rfl

/-- The `i`-th vertex pushed by the ring loop (lathe.rs:109-113) is `rotYⁱ v`. -/
theorem ring_getElem (c s : K) (k : Nat) (v : V3 K) (i : Nat) (hi : i < (ring c s k v).length) :
    (ring c s k v)[i] = (rotY c s)^[i] v := by
  induction k generalizing v i with
  | zero => simp [ring] at hi
  | succ k ih =>
    cases i with
    | zero => simp [ring]
    | succ i =>
      simp only [ring, List.getElem_cons_succ, Function.iterate_succ_apply]
      exact ih _ _ _

theorem ring_length' (c s : K) (k : Nat) (v : V3 K) : (ring c s k v).length = k := by
  induction k generalizing v with
  | zero => rfl
  | succ k ih => simp [ring, ih]

/-- `rotY` moves a placed profile point to the next azimuth. -/
theorem iterate_rotY_place (c s x y : K) (a : K × K) (i : Nat) :
    (rotY c s)^[i] (place x y a) = place x y ((stepAngle c s)^[i] a) := by
  induction i generalizing a with
  | zero => rfl
  | succ i ih =>
    rw [Function.iterate_succ_apply, Function.iterate_succ_apply, ← ih]
    congr 1
    simp only [rotY, place, stepAngle]
    refine Prod.ext ?_ (Prod.ext rfl ?_) <;> simp only <;> ring

/-- y component of the geometric normal `(b − a) × (c − a)` = minus the plane determinant. -/
theorem faceNormal_y (a b c : V3 K) :
    (faceNormal a b c).2.1 = - det2 (sub2 (xz b) (xz a)) (sub2 (xz c) (xz a)) := by
  simp only [faceNormal, cross3, sub3, det2, sub2, xz]; ring

/-- A face whose three corners have the same height has a geometric normal exactly along y. -/
theorem faceNormal_horizontal (a b c : V3 K) (hb : b.2.1 = a.2.1) (hc : c.2.1 = a.2.1) :
    (faceNormal a b c).1 = 0 ∧ (faceNormal a b c).2.2 = 0 := by
  simp only [faceNormal, cross3, sub3, hb, hc]; constructor <;> ring

end Bridge

/-! ### 1. One step: `det [p, R p] = s·|p|²`, `|R p|² = |p|²` -/

section Algebra
variable {K : Type} [CommRing K]

/-- **`det [p, R p] = s · |p|²`** – no hypothesis on `(c, s)` at all. -/
theorem rot_det (c s : K) (p : K × K) : det2 p (stepAngle c s p) = s * normSq p := by
  simp only [det2, stepAngle, normSq]; ring

theorem rot_normSq (c s : K) (h : c * c + s * s = 1) (p : K × K) :
    normSq (stepAngle c s p) = normSq p := by
  simp only [stepAngle, normSq]; linear_combination (p.1 * p.1 + p.2 * p.2) * h

theorem rot_det2 (c s : K) (h : c * c + s * s = 1) (p q : K × K) :
    det2 (stepAngle c s p) (stepAngle c s q) = det2 p q := by
  simp only [stepAngle, det2]; linear_combination (p.1 * q.2 - p.2 * q.1) * h

theorem rot_dot2 (c s : K) (h : c * c + s * s = 1) (p q : K × K) :
    dot2 (stepAngle c s p) (stepAngle c s q) = dot2 p q := by
  simp only [stepAngle, dot2]; linear_combination (p.1 * q.1 + p.2 * q.2) * h

theorem iter_rot_normSq (c s : K) (h : c * c + s * s = 1) (i : Nat) (p : K × K) :
    normSq ((stepAngle c s)^[i] p) = normSq p := by
  induction i with
  | zero => rfl
  | succ i ih => rw [Function.iterate_succ_apply', rot_normSq c s h, ih]

/-! ### 2. Every step of every ring turns the same way -/

/-- **`det [pᵢ, pᵢ₊₁] = s · |p₀|²` for every `i`** – the triangle (axis, `pᵢ`, `pᵢ₊₁`) has the
orientation `sign s` whatever the number of sectors. -/
theorem ring_step_orientation (c s : K) (h : c * c + s * s = 1) (p : K × K) (i : Nat) :
    det2 ((stepAngle c s)^[i] p) ((stepAngle c s)^[i + 1] p) = s * normSq p := by
  rw [Function.iterate_succ_apply', rot_det, iter_rot_normSq c s h]

/-- The same about the vertices the ring loop pushes: consecutive vertices `i`, `i+1` of
`ring c s k v`. -/
theorem ring_verts_step_orientation (c s : K) (h : c * c + s * s = 1) (k : Nat) (v : V3 K) (i : Nat)
    (hi : i + 1 < (ring c s k v).length) :
    det2 (xz ((ring c s k v)[i]'(by omega))) (xz ((ring c s k v)[i + 1])) = s * radSq v := by
  rw [ring_getElem, ring_getElem, xz_iterate_rotY, xz_iterate_rotY, ring_step_orientation c s h]
  rfl

/-- `(Cₖ, Sₖ)` is a unit vector. -/
theorem mult_unit (c s : K) (h : c * c + s * s = 1) (k : Nat) :
    (mult c s k).1 * (mult c s k).1 + (mult c s k).2 * (mult c s k).2 = 1 := by
  have := iter_rot_normSq c s h k (1, 0)
  simp only [normSq] at this
  unfold mult
  rw [this]; ring

theorem mult_succ (c s : K) (k : Nat) : mult c s (k + 1) = stepAngle c s (mult c s k) := by
  unfold mult; rw [Function.iterate_succ_apply']

/-- `p · Rᵏp = |p|²·Cₖ` and `det [p, Rᵏp] = |p|²·Sₖ`: the position of `pₖ` relative to `p₀` depends
on the profile point only through the factor `|p₀|²`. -/
theorem iterate_dot_det (c s : K) (p : K × K) (k : Nat) :
    dot2 p ((stepAngle c s)^[k] p) = normSq p * (mult c s k).1 ∧
    det2 p ((stepAngle c s)^[k] p) = normSq p * (mult c s k).2 := by
  induction k with
  | zero => simp only [Function.iterate_zero, id, mult, dot2, det2, normSq]; constructor <;> ring
  | succ k ih =>
    obtain ⟨h1, h2⟩ := ih
    rw [Function.iterate_succ_apply', mult_succ]
    generalize (stepAngle c s)^[k] p = q at h1 h2
    generalize mult c s k = m at h1 h2
    simp only [dot2, det2, stepAngle] at h1 h2 ⊢
    constructor
    · linear_combination c * h1 - s * h2
    · linear_combination s * h1 + c * h2

/-! ### 3. The actual cap fan `(p₀, pᵢ, pᵢ₊₁)` -/

/-- One-step form: for `q` on the circle of `p`,
`det [q − p, R q − p] = s·(|p|² − p·q) + (1 − c)·det [p, q] = s·(|p|² − p·Rq) − (1 − c)·det [p, Rq]`. -/
theorem fan_step (c s : K) (h : c * c + s * s = 1) (p q : K × K) (hq : normSq q = normSq p) :
    det2 (sub2 q p) (sub2 (stepAngle c s q) p) = s * (normSq p - dot2 p q) + (1 - c) * det2 p q ∧
    det2 (sub2 q p) (sub2 (stepAngle c s q) p) =
      s * (normSq p - dot2 p (stepAngle c s q)) - (1 - c) * det2 p (stepAngle c s q) := by
  simp only [det2, sub2, stepAngle, normSq, dot2] at hq ⊢
  constructor
  · linear_combination s * hq
  · linear_combination s * hq - (p.1 * q.2 - p.2 * q.1) * h

/-- **Closed form of the fan triangle's doubled signed area**, every `i`, every profile point:
`|p₀|²·(s·(1 − Cᵢ) + (1 − c)·Sᵢ) = |p₀|²·(s·(1 − Cᵢ₊₁) − (1 − c)·Sᵢ₊₁)`. -/
theorem fan_area_closed (c s : K) (h : c * c + s * s = 1) (v : V3 K) (i : Nat) :
    fanArea c s v i = radSq v * (s * (1 - (mult c s i).1) + (1 - c) * (mult c s i).2) ∧
    fanArea c s v i = radSq v * (s * (1 - (mult c s (i + 1)).1) - (1 - c) * (mult c s (i + 1)).2) := by
  obtain ⟨f1, f2⟩ := fan_step c s h (xz v) ((stepAngle c s)^[i] (xz v)) (iter_rot_normSq c s h i _)
  obtain ⟨d1, e1⟩ := iterate_dot_det c s (xz v) i
  obtain ⟨d2, e2⟩ := iterate_dot_det c s (xz v) (i + 1)
  rw [Function.iterate_succ_apply'] at d2 e2
  have hr : radSq v = normSq (xz v) := rfl
  unfold fanArea
  rw [Function.iterate_succ_apply', hr]
  constructor
  · rw [f1, d1, e1]; ring
  · rw [f2, d2, e2]; ring

/-- If the next ring point is the first one again (the seam vertex of a full turn), the fan
triangle is degenerate: this is the last triangle `(l, l+secs−1, l+secs)` of both cap loops. -/
theorem fan_area_seam (c s : K) (v : V3 K) (i : Nat)
    (hclose : (stepAngle c s)^[i + 1] (xz v) = xz v) : fanArea c s v i = 0 := by
  unfold fanArea; rw [hclose]; simp only [det2, sub2]; ring

end Algebra

/-! ### 3b. Sign of the fan triangles in an ordered ring -/

section Ordered
variable {K : Type} [CommRing K] [LinearOrder K] [IsStrictOrderedRing K]

theorem unit_fst_le_one (c s : K) (h : c * c + s * s = 1) : c ≤ 1 := by
  nlinarith [mul_self_nonneg s, mul_self_nonneg (c - 1)]

theorem radSq_nonneg (v : V3 K) : 0 ≤ radSq v := by
  unfold radSq; nlinarith [mul_self_nonneg v.1, mul_self_nonneg v.2.2]

/-- **Fan triangles are never wrongly oriented before a full turn.**  With `0 ≤ s` (step in
[0, π]) and the fan not past a full turn – `0 ≤ Sᵢ` (the fan has covered at most a half turn) or
`Sᵢ₊₁ ≤ 0` (between a half and a full turn) – the doubled signed area of `(p₀, pᵢ, pᵢ₊₁)` is `≥ 0`,
for every `i`, every profile point, every number of sectors. -/
theorem fan_area_nonneg (c s : K) (h : c * c + s * s = 1) (hs : 0 ≤ s) (v : V3 K) (i : Nat)
    (hconv : 0 ≤ (mult c s i).2 ∨ (mult c s (i + 1)).2 ≤ 0) : 0 ≤ fanArea c s v i := by
  obtain ⟨f1, f2⟩ := fan_area_closed c s h v i
  have hc := unit_fst_le_one c s h
  have hr := radSq_nonneg v
  rcases hconv with hS | hS
  · have hC := unit_fst_le_one _ _ (mult_unit c s h i)
    rw [f1]
    exact mul_nonneg hr (add_nonneg (mul_nonneg hs (by linarith)) (mul_nonneg (by linarith) hS))
  · have hC := unit_fst_le_one _ _ (mult_unit c s h (i + 1))
    rw [f2]
    have : 0 ≤ (1 - c) * -(mult c s (i + 1)).2 := mul_nonneg (by linarith) (by linarith)
    exact mul_nonneg hr (by nlinarith [mul_nonneg hs (show 0 ≤ 1 - (mult c s (i + 1)).1 by linarith)])

/-- **Strictly**: with `0 < s`, a profile point off the axis and neither `pᵢ` (first case) nor
`pᵢ₊₁` (second case) back at `p₀`, the fan triangle `(p₀, pᵢ, pᵢ₊₁)` is strictly positively
oriented in the (x, z) plane. -/
theorem fan_area_pos (c s : K) (h : c * c + s * s = 1) (hs : 0 < s) (v : V3 K) (hv : 0 < radSq v)
    (i : Nat)
    (hconv : (0 ≤ (mult c s i).2 ∧ (mult c s i).1 ≠ 1) ∨
             ((mult c s (i + 1)).2 ≤ 0 ∧ (mult c s (i + 1)).1 ≠ 1)) : 0 < fanArea c s v i := by
  obtain ⟨f1, f2⟩ := fan_area_closed c s h v i
  have hc := unit_fst_le_one c s h
  rcases hconv with ⟨hS, hne⟩ | ⟨hS, hne⟩
  · have hC := lt_of_le_of_ne (unit_fst_le_one _ _ (mult_unit c s h i)) hne
    rw [f1]
    have h1 : 0 < s * (1 - (mult c s i).1) := mul_pos hs (by linarith)
    have h2 : 0 ≤ (1 - c) * (mult c s i).2 := mul_nonneg (by linarith) hS
    exact mul_pos hv (by linarith)
  · have hC := lt_of_le_of_ne (unit_fst_le_one _ _ (mult_unit c s h (i + 1))) hne
    rw [f2]
    have h1 : 0 < s * (1 - (mult c s (i + 1)).1) := mul_pos hs (by linarith)
    have h2 : 0 ≤ (1 - c) * -(mult c s (i + 1)).2 := mul_nonneg (by linarith) (by linarith)
    exact mul_pos hv (by linarith)

/-- The converse direction of "exactly when `0 < s`": a step with `s ≤ 0` (reversed azimuth range)
gives fan triangles of the opposite orientation. -/
theorem fan_area_nonpos (c s : K) (h : c * c + s * s = 1) (hs : s ≤ 0) (v : V3 K) (i : Nat)
    (hconv : (mult c s i).2 ≤ 0 ∨ 0 ≤ (mult c s (i + 1)).2) : fanArea c s v i ≤ 0 := by
  obtain ⟨f1, f2⟩ := fan_area_closed c s h v i
  have hc := unit_fst_le_one c s h
  have hr := radSq_nonneg v
  rcases hconv with hS | hS
  · have hC := unit_fst_le_one _ _ (mult_unit c s h i)
    rw [f1]
    have h1 : 0 ≤ -s * (1 - (mult c s i).1) := mul_nonneg (by linarith) (by linarith)
    have h2 : 0 ≤ (1 - c) * -(mult c s i).2 := mul_nonneg (by linarith) (by linarith)
    exact mul_nonpos_of_nonneg_of_nonpos hr (by linarith)
  · have hC := unit_fst_le_one _ _ (mult_unit c s h (i + 1))
    rw [f2]
    have h1 : 0 ≤ -s * (1 - (mult c s (i + 1)).1) := mul_nonneg (by linarith) (by linarith)
    have h2 : 0 ≤ (1 - c) * (mult c s (i + 1)).2 := mul_nonneg (by linarith) hS
    exact mul_nonpos_of_nonneg_of_nonpos hr (by linarith)

end Ordered

/-! ### 3c. The cap faces of the model: geometric normal exactly along ∓y -/

section CapFaces
variable {K : Type} [CommRing K]

/-- The fan triangle on the iterates: `(v, rotYⁱ v, rotYⁱ⁺¹ v)` has the geometric normal
`(0, −Aᵢ, 0)`, the reversed triangle `(0, +Aᵢ, 0)` – exactly along the axis. -/
theorem fan_normal_iter (c s : K) (v : V3 K) (i : Nat) :
    faceNormal v ((rotY c s)^[i] v) ((rotY c s)^[i + 1] v) = (0, - fanArea c s v i, 0) ∧
    faceNormal v ((rotY c s)^[i + 1] v) ((rotY c s)^[i] v) = (0, fanArea c s v i, 0) := by
  have yi := y_iterate_rotY c s i v
  have yi1 := y_iterate_rotY c s (i + 1) v
  constructor
  · obtain ⟨hx, hz⟩ := faceNormal_horizontal v ((rotY c s)^[i] v) ((rotY c s)^[i + 1] v) yi yi1
    refine Prod.ext hx (Prod.ext ?_ hz)
    simp only [faceNormal_y, xz_iterate_rotY]; rfl
  · obtain ⟨hx, hz⟩ := faceNormal_horizontal v ((rotY c s)^[i + 1] v) ((rotY c s)^[i] v) yi1 yi
    refine Prod.ext hx (Prod.ext ?_ hz)
    simp only [faceNormal_y, xz_iterate_rotY, fanArea, det2]; ring

/-- **Cap fan faces, every sector count.**  Let `R = ring c s (secs+1) v` be the ring the cap copies
(lathe.rs:134-137, 145-148: positions copied unchanged).  The bottom-cap face
`(l, l+i, l+i+1)` (lathe.rs:140) has the geometric normal `(0, −Aᵢ, 0)` and the top-cap face
`(l, l+i+1, l+i)` (lathe.rs:151) has `(0, +Aᵢ, 0)`, where `Aᵢ = fanArea c s v i` – exactly along
the axis, with the closed form of `fan_area_closed`; so `N · (0, −1, 0) = Aᵢ` for the bottom cap's
vertex normal and `N · (0, 1, 0) = Aᵢ` for the top cap's. -/
theorem cap_fan_normal_y (c s : K) (secs : Nat) (v : V3 K) (i : Nat) (hi : i + 1 ≤ secs) :
    have hl : (ring c s (secs + 1) v).length = secs + 1 := ring_length' c s _ v
    faceNormal ((ring c s (secs + 1) v)[0]'(by omega)) ((ring c s (secs + 1) v)[i]'(by omega))
        ((ring c s (secs + 1) v)[i + 1]'(by omega)) = (0, - fanArea c s v i, 0) ∧
    faceNormal ((ring c s (secs + 1) v)[0]'(by omega)) ((ring c s (secs + 1) v)[i + 1]'(by omega))
        ((ring c s (secs + 1) v)[i]'(by omega)) = (0, fanArea c s v i, 0) := by
  intro hl
  simp only [ring_getElem, Function.iterate_zero, id]
  exact fan_normal_iter c s v i

end CapFaces

/-! ### 3d. Discharging the "not past a full turn" hypothesis with the true `cos`/`sin` -/

section Real
open Real

/-- With the true cosine and sine of the step, `(Cₖ, Sₖ) = (cos kθ, sin kθ)`. -/
theorem mult_real (θ : ℝ) (k : ℕ) : mult (cos θ) (sin θ) k = (cos (k * θ), sin (k * θ)) := by
  induction k with
  | zero => simp [mult]
  | succ k ih =>
    rw [mult_succ, ih]
    simp only [stepAngle]
    have : ((k + 1 : ℕ) : ℝ) * θ = θ + k * θ := by push_cast; ring
    rw [this, cos_add, sin_add]

/-- Ordering of the azimuths, once and for all counts: a fan that has not gone past a full turn
satisfies the algebraic convexity hypothesis of `fan_area_nonneg`. -/
theorem fan_convex_real (θ : ℝ) (hθ : 0 ≤ θ) (i : ℕ) (hfull : ((i + 1 : ℕ) : ℝ) * θ ≤ 2 * π) :
    0 ≤ (mult (cos θ) (sin θ) i).2 ∨ (mult (cos θ) (sin θ) (i + 1)).2 ≤ 0 := by
  rw [mult_real, mult_real]
  have h0 : 0 ≤ (i : ℝ) * θ := mul_nonneg (Nat.cast_nonneg i) hθ
  have h1 : ((i + 1 : ℕ) : ℝ) * θ = i * θ + θ := by push_cast; ring
  by_cases hle : (i : ℝ) * θ ≤ π
  · exact Or.inl (sin_nonneg_of_nonneg_of_le_pi h0 hle)
  · right
    have hx : sin (((i + 1 : ℕ) : ℝ) * θ) = sin (((i + 1 : ℕ) : ℝ) * θ - 2 * π) := (sin_sub_two_pi _).symm
    show sin (((i + 1 : ℕ) : ℝ) * θ) ≤ 0
    rw [hx]
    exact sin_nonpos_of_nonpos_of_neg_pi_le (by linarith) (by linarith)

/-- … and strictly inside a full turn neither `pᵢ` nor `pᵢ₊₁` is back at `p₀`. -/
theorem fan_strict_convex_real (θ : ℝ) (hθ : 0 < θ) (i : ℕ) (hi : 1 ≤ i)
    (hfull : ((i + 1 : ℕ) : ℝ) * θ < 2 * π) :
    (0 ≤ (mult (cos θ) (sin θ) i).2 ∧ (mult (cos θ) (sin θ) i).1 ≠ 1) ∨
    ((mult (cos θ) (sin θ) (i + 1)).2 ≤ 0 ∧ (mult (cos θ) (sin θ) (i + 1)).1 ≠ 1) := by
  have hi' : (1 : ℝ) ≤ i := by exact_mod_cast hi
  have h0 : 0 < (i : ℝ) * θ := mul_pos (by linarith) hθ
  have h1 : ((i + 1 : ℕ) : ℝ) * θ = i * θ + θ := by push_cast; ring
  have hpi := pi_pos
  have ne1 : ∀ x : ℝ, 0 < x → x < 2 * π → cos x ≠ 1 := by
    intro x hx0 hx2 hc
    have := (cos_eq_one_iff_of_lt_of_lt (by linarith) hx2).1 hc
    linarith
  rcases fan_convex_real θ hθ.le i hfull.le with hS | hS
  · exact Or.inl ⟨hS, by rw [mult_real]; exact ne1 _ h0 (by linarith)⟩
  · exact Or.inr ⟨hS, by rw [mult_real]; exact ne1 _ (by linarith) hfull⟩

/-- **Cap fans for ALL sector counts (true `cos`/`sin`, any azimuth range up to a full turn).**
Step `θ ∈ (0, π)`, `n` sectors with `n·θ ≤ 2π` (`θ = (end − start)/n`, lathe.rs:102; for the
default full turn `θ = 2π/n`, `n ≥ 3`).  Then for every fan index `1 ≤ i < n` (lathe.rs:139, 150)
the doubled signed area `Aᵢ` of the cap triangle `(p₀, pᵢ, pᵢ₊₁)` is `≥ 0`, and `> 0` whenever
`(i+1)·θ < 2π` and the ring is off the axis.  By `cap_fan_normal_y` the bottom faces have the
geometric normal `(0, −Aᵢ, 0)`, the top faces `(0, +Aᵢ, 0)`: outwards, for every count. -/
theorem cap_fans_real (θ : ℝ) (hθ : 0 < θ) (n : ℕ) (hn : (n : ℝ) * θ ≤ 2 * π) (v : V3 ℝ)
    (i : ℕ) (hin : i + 1 ≤ n) :
    0 ≤ fanArea (cos θ) (sin θ) v i ∧
    (1 ≤ i → ((i + 1 : ℕ) : ℝ) * θ < 2 * π → 0 < radSq v → 0 < fanArea (cos θ) (sin θ) v i) := by
  have hunit : cos θ * cos θ + sin θ * sin θ = 1 := by
    have := cos_sq_add_sin_sq θ; nlinarith
  have hle : ((i + 1 : ℕ) : ℝ) * θ ≤ 2 * π := by
    have : ((i + 1 : ℕ) : ℝ) ≤ n := by exact_mod_cast hin
    nlinarith
  have hn1 : (1 : ℝ) ≤ ((i + 1 : ℕ) : ℝ) := by push_cast; linarith [Nat.cast_nonneg (α := ℝ) i]
  have hθπ : θ ≤ 2 * π := by nlinarith
  -- sin θ ≥ 0 is only needed when some fan triangle exists past the first step
  by_cases hπ : θ ≤ π
  · have hs : 0 ≤ sin θ := sin_nonneg_of_nonneg_of_le_pi hθ.le hπ
    refine ⟨fan_area_nonneg _ _ hunit hs v i (fan_convex_real θ hθ.le i hle), ?_⟩
    intro hi hlt hv
    have hs' : 0 < sin θ := by
      apply sin_pos_of_pos_of_lt_pi hθ
      have : (2 : ℝ) ≤ ((i + 1 : ℕ) : ℝ) := by
        have : 2 ≤ i + 1 := by omega
        exact_mod_cast this
      nlinarith
    exact fan_area_pos _ _ hunit hs' v hv i (fan_strict_convex_real θ hθ i hi hlt)
  · -- θ > π and (i+1)·θ ≤ 2π force i = 0: the triangle (p₀, p₀, p₁) is degenerate
    have hi0 : i = 0 := by
      by_contra hne
      have : (2 : ℝ) ≤ ((i + 1 : ℕ) : ℝ) := by
        have : 2 ≤ i + 1 := by omega
        exact_mod_cast this
      nlinarith
    subst hi0
    refine ⟨?_, fun h => absurd h (by omega)⟩
    simp [fanArea, det2, sub2]

/-- **Full turn, every sector count `n ≥ 3`** (`Lathe::new`'s own precondition, lathe.rs:76):
with `θ = 2π/n`, `sin θ > 0`; the cap triangles `i = 1 … n−2` are strictly positively oriented and
the last one, `i = n−1` (its third corner is the seam vertex, a copy of `p₀`), is degenerate. -/
theorem cap_fans_full_turn (n : ℕ) (hn : 3 ≤ n) (v : V3 ℝ) (hv : 0 < radSq v) :
    let θ := 2 * π / n
    0 < sin θ ∧
    (∀ i, 1 ≤ i → i + 1 < n → 0 < fanArea (cos θ) (sin θ) v i) ∧
    fanArea (cos θ) (sin θ) v (n - 1) = 0 := by
  intro θ
  have hn0 : (0 : ℝ) < n := by exact_mod_cast (show 0 < n by omega)
  have hn3 : (3 : ℝ) ≤ n := by exact_mod_cast hn
  have hθ : 0 < θ := by positivity
  have hnθ : (n : ℝ) * θ = 2 * π := by
    show (n : ℝ) * (2 * π / n) = 2 * π
    field_simp
  have hπ := pi_pos
  have hθlt : θ < π := by
    have : 3 * θ ≤ 2 * π := by rw [← hnθ]; nlinarith
    linarith
  refine ⟨sin_pos_of_pos_of_lt_pi hθ hθlt, ?_, ?_⟩
  · intro i hi hin
    have hlt : ((i + 1 : ℕ) : ℝ) * θ < 2 * π := by
      have : ((i + 1 : ℕ) : ℝ) < n := by exact_mod_cast hin
      rw [← hnθ]; nlinarith
    exact (cap_fans_real θ hθ n hnθ.le v i (by omega)).2 hi hlt hv
  · have hunit : cos θ * cos θ + sin θ * sin θ = 1 := by
      have := cos_sq_add_sin_sq θ; nlinarith
    have hm : mult (cos θ) (sin θ) (n - 1 + 1) = (1, 0) := by
      rw [mult_real, show n - 1 + 1 = n by omega, hnθ, cos_two_pi, sin_two_pi]
    rw [(fan_area_closed _ _ hunit v (n - 1)).2, hm]
    ring

-- non-vacuity: a square cap (n = 4) and a triangle cap (n = 3) on the unit ring
example : (3 : ℕ) ≤ 4 ∧ 0 < radSq ((1 : ℝ), (0 : ℝ), (0 : ℝ)) := by
  refine ⟨by omega, ?_⟩; simp [radSq]

end Real

/-! ### 4. Side quads, every sector index -/

section SideQuads
variable {K : Type} [CommRing K]

/-- One quad, one step (the algebra of `side_face_dot`, restated here with `normSq`). -/
theorem quad_step_dot (c s xa ya xb yb nx ny : K) (a : K × K) (ha : normSq a = 1) :
    dot3 (faceNormal (place xa ya a) (place xb yb (stepAngle c s a)) (place xa ya (stepAngle c s a)))
        (place nx ny a) = xa * s * (nx * (yb - ya) - ny * (xb - xa)) ∧
    dot3 (faceNormal (place xa ya a) (place xb yb (stepAngle c s a)) (place xa ya (stepAngle c s a)))
        (place nx ny (stepAngle c s a)) = xa * s * (nx * (yb - ya) - ny * (xb - xa)) ∧
    dot3 (faceNormal (place xa ya a) (place xb yb a) (place xb yb (stepAngle c s a)))
        (place nx ny a) = xb * s * (nx * (yb - ya) - ny * (xb - xa)) ∧
    dot3 (faceNormal (place xa ya a) (place xb yb a) (place xb yb (stepAngle c s a)))
        (place nx ny (stepAngle c s a)) = xb * s * (nx * (yb - ya) - ny * (xb - xa)) := by
  obtain ⟨a1, a2⟩ := a
  simp only [normSq] at ha
  simp only [place, stepAngle, faceNormal, cross3, sub3, dot3]
  refine ⟨?_, ?_, ?_, ?_⟩
  · linear_combination (xa * s * (nx * (yb - ya) - ny * (xb - xa))) * ha
  · linear_combination (xa * s * (nx * (yb - ya) - ny * (xb - xa))) * ha
  · linear_combination (xb * s * (nx * (yb - ya) - ny * (xb - xa))) * ha
  · linear_combination (xb * s * (nx * (yb - ya) - ny * (xb - xa))) * ha

/-- **Side quads, every sector index, every sector count.**  Rings `RA`, `RB` of two consecutive
profile points `A = (xa, ya)`, `B = (xb, yb)`; for the quad of sector `i` (`p = RA[i]`, `q = RA[i+1]`,
`r = RB[i]`, `s' = RB[i+1]`, lathe.rs:119-124) and ANY direction `(nx, ny)` of the profile
half-plane placed at the azimuth of column `i` or `i+1`:
`(p, s', q)` has `N · place(nx, ny) = xa · s · (nx·dy − ny·dx)`, `(p, r, s')` has `xb · s · (…)`.
With `(nx, ny) = (1, 0)`: the radial component of both geometric normals is `x · s · dy`, with
`(0, 1)`: the axial one is `−x · s · dx` – the geometric normal is the positive multiple `x·s` of the
profile's right-hand normal `(dy, −dx)`, the same for every sector index `i`. -/
theorem side_quad_orientation (c s : K) (h : c * c + s * s = 1) (start : K × K)
    (hstart : normSq start = 1) (secs : Nat) (xa ya xb yb nx ny : K) (i : Nat) (hi : i < secs) :
    have hA : (ring c s (secs + 1) (place xa ya start)).length = secs + 1 := ring_length' c s _ _
    have hB : (ring c s (secs + 1) (place xb yb start)).length = secs + 1 := ring_length' c s _ _
    let p := (ring c s (secs + 1) (place xa ya start))[i]'(by omega)
    let q := (ring c s (secs + 1) (place xa ya start))[i + 1]'(by omega)
    let r := (ring c s (secs + 1) (place xb yb start))[i]'(by omega)
    let s' := (ring c s (secs + 1) (place xb yb start))[i + 1]'(by omega)
    let a := (stepAngle c s)^[i] start
    let a' := (stepAngle c s)^[i + 1] start
    let w := nx * (yb - ya) - ny * (xb - xa)
    dot3 (faceNormal p s' q) (place nx ny a) = xa * s * w ∧
    dot3 (faceNormal p s' q) (place nx ny a') = xa * s * w ∧
    dot3 (faceNormal p r s') (place nx ny a) = xb * s * w ∧
    dot3 (faceNormal p r s') (place nx ny a') = xb * s * w := by
  intro hA hB
  simp only [ring_getElem, iterate_rotY_place]
  simp only [Function.iterate_succ_apply']
  exact quad_step_dot c s xa ya xb yb nx ny _ ((iter_rot_normSq c s h i start).trans hstart)

end SideQuads

section SideQuadsOrdered
variable {K : Type} [CommRing K] [LinearOrder K] [IsStrictOrderedRing K]

/-- In an ordered ring: positive radii, `0 < s` and a direction on the right-hand side of the
profile put it strictly on the side of the geometric normals of both triangles of the quad of
EVERY sector `i` (with `side_faces_same_side`: this is the vertex normal of all four corners). -/
theorem side_quads_outward (c s : K) (h : c * c + s * s = 1) (start : K × K)
    (hstart : normSq start = 1) (secs : Nat) (xa ya xb yb nx ny : K)
    (hs : 0 < s) (hxa : 0 < xa) (hxb : 0 < xb) (hw : 0 < nx * (yb - ya) - ny * (xb - xa))
    (i : Nat) (hi : i < secs) :
    have hA : (ring c s (secs + 1) (place xa ya start)).length = secs + 1 := ring_length' c s _ _
    have hB : (ring c s (secs + 1) (place xb yb start)).length = secs + 1 := ring_length' c s _ _
    let p := (ring c s (secs + 1) (place xa ya start))[i]'(by omega)
    let q := (ring c s (secs + 1) (place xa ya start))[i + 1]'(by omega)
    let r := (ring c s (secs + 1) (place xb yb start))[i]'(by omega)
    let s' := (ring c s (secs + 1) (place xb yb start))[i + 1]'(by omega)
    let a := (stepAngle c s)^[i] start
    let a' := (stepAngle c s)^[i + 1] start
    0 < dot3 (faceNormal p s' q) (place nx ny a) ∧ 0 < dot3 (faceNormal p s' q) (place nx ny a') ∧
    0 < dot3 (faceNormal p r s') (place nx ny a) ∧ 0 < dot3 (faceNormal p r s') (place nx ny a') := by
  intro hA hB
  obtain ⟨h1, h2, h3, h4⟩ := side_quad_orientation c s h start hstart secs xa ya xb yb nx ny i hi
  simp only at h1 h2 h3 h4 ⊢
  rw [h1, h2, h3, h4]
  exact ⟨by positivity, by positivity, by positivity, by positivity⟩

-- satisfiable: 3-4-5 step, start azimuth (1, 0), cylinder segment A = (1,−1), B = (1,1), normal (2, 0)
example : ((3 : ℚ) / 5) * (3 / 5) + (4 / 5) * (4 / 5) = 1 ∧ normSq ((1 : ℚ), (0 : ℚ)) = 1 ∧
    (0 : ℚ) < 4 / 5 ∧ (0 : ℚ) < 2 * (1 - (-1)) - 0 * (1 - 1) := by
  refine ⟨by norm_num, by norm_num [normSq], by norm_num, by norm_num⟩

end SideQuadsOrdered

/-! ### 5. The whole capped lathe: every face is wound counter-clockwise seen from outside

`outDot pos yo f = N_f · (first corner of f − o)` with `N_f = (b − a) × (c − a)` and `o = (0, yo, 0)` a
point of the axis.  For a solid that is star-shaped about `o` (cylinder, cone, truncated cone: convex)
`N_f · (a − o) > 0` says that `f` is counter-clockwise seen from outside – "the same winding sense
relative to the outside" of the property; `= 0` only for degenerate faces. -/

section Solid
variable {K : Type} [CommRing K]

/-- Vertex layout of `Lathe::build` for a position function `pos` (index → position):
ring vertex `j·(secs+1)+i` is the `i`-th iterate of the step rotation on profile point `j` placed at
the start azimuth (lathe.rs:105-113); cap vertex `k` is a copy of `capSource k` (lathe.rs:134-149;
the driver checks the real cap vertices to be bit-exact copies on every run). -/
structure Layout (c s : K) (start : K × K) (np secs : Nat) (prof : Nat → K × K)
    (pos : Nat → V3 K) : Prop where
  ringPos : ∀ j, j < np → ∀ i, i ≤ secs →
    pos (j * (secs + 1) + i) = (rotY c s)^[i] (place (prof j).1 (prof j).2 start)
  capPos : ∀ k, k < 2 * (secs + 1) → pos (ringVertCount np secs + k) = pos (capSource np secs k)

def outDot (pos : Nat → V3 K) (yo : K) (f : Tri) : K :=
  dot3 (faceNormal (pos f.1) (pos f.2.1) (pos f.2.2)) (sub3 (pos f.1) (0, yo, 0))

/-- Twice the signed area of the triangle (`o`, `Pⱼ`, `Pⱼ₊₁`) in the profile half-plane. -/
def profWeight (prof : Nat → K × K) (yo : K) (j : Nat) : K :=
  (prof j).1 * ((prof (j + 1)).2 - (prof j).2) - ((prof j).2 - yo) * ((prof (j + 1)).1 - (prof j).1)

theorem sub3_place_axis (x y yo : K) (a : K × K) : sub3 (place x y a) (0, yo, 0) = place x (y - yo) a := by
  simp [sub3, place]

theorem radSq_place (x y : K) (a : K × K) (ha : normSq a = 1) : radSq (place x y a) = x * x := by
  simp only [normSq] at ha
  simp only [radSq, place]; linear_combination (x * x) * ha

/-- The two faces of side quad `(j0+1, i0+1)` (lathe.rs:119-124) in closed form, and their
`outDot`: `x_{j0}·s·W` and `x_{j0+1}·s·W`, `W = profWeight prof yo j0`, for EVERY sector `i0`. -/
theorem side_faces_outDot {c s : K} {start : K × K} {np secs : Nat} {prof : Nat → K × K}
    {pos : Nat → V3 K} (L : Layout c s start np secs prof pos) (h : c * c + s * s = 1)
    (hstart : normSq start = 1) (yo : K) (j0 i0 : Nat) (hj : j0 + 1 < np) (hi : i0 < secs) :
    quadFaces (secs + 1) (j0 + 1) (i0 + 1) =
      [(j0 * (secs + 1) + i0, (j0 + 1) * (secs + 1) + i0 + 1, j0 * (secs + 1) + i0 + 1),
       (j0 * (secs + 1) + i0, (j0 + 1) * (secs + 1) + i0, (j0 + 1) * (secs + 1) + i0 + 1)] ∧
    outDot pos yo (j0 * (secs + 1) + i0, (j0 + 1) * (secs + 1) + i0 + 1, j0 * (secs + 1) + i0 + 1) =
      (prof j0).1 * s * profWeight prof yo j0 ∧
    outDot pos yo (j0 * (secs + 1) + i0, (j0 + 1) * (secs + 1) + i0, (j0 + 1) * (secs + 1) + i0 + 1) =
      (prof (j0 + 1)).1 * s * profWeight prof yo j0 := by
  have hp := L.ringPos j0 (by omega) i0 (by omega)
  have hq := L.ringPos j0 (by omega) (i0 + 1) (by omega)
  have hr := L.ringPos (j0 + 1) (by omega) i0 (by omega)
  have hs' := L.ringPos (j0 + 1) (by omega) (i0 + 1) (by omega)
  rw [← Nat.add_assoc] at hq hs'
  rw [iterate_rotY_place] at hp hq hr hs'
  rw [Function.iterate_succ_apply'] at hq hs'
  have ha : normSq ((stepAngle c s)^[i0] start) = 1 := (iter_rot_normSq c s h i0 start).trans hstart
  obtain ⟨g1, _, g3, _⟩ := quad_step_dot c s (prof j0).1 (prof j0).2 (prof (j0 + 1)).1 (prof (j0 + 1)).2
    (prof j0).1 ((prof j0).2 - yo) _ ha
  refine ⟨?_, ?_, ?_⟩
  · simp only [quadFaces, Nat.add_sub_cancel, ← Nat.add_assoc]
  · simp only [outDot, hp, hq, hs', sub3_place_axis]
    rw [g1]; rfl
  · simp only [outDot, hp, hr, hs', sub3_place_axis]
    rw [g3]; rfl

theorem capSource_bottom (np secs k : Nat) (hk : k ≤ secs) : capSource np secs k = 0 * (secs + 1) + k := by
  unfold capSource; rw [if_pos (by omega)]; omega

theorem capSource_top (np secs k : Nat) :
    capSource np secs (secs + 1 + k) = (np - 1) * (secs + 1) + k := by
  unfold capSource ringVertCount
  rw [if_neg (by omega), Nat.sub_one_mul]
  omega

/-- Bottom-cap face `(l, l+i, l+i+1)` (lathe.rs:140): `outDot = Aᵢ · (yo − y₀)`. -/
theorem bottom_cap_outDot {c s : K} {start : K × K} {np secs : Nat} {prof : Nat → K × K}
    {pos : Nat → V3 K} (L : Layout c s start np secs prof pos) (hnp : 0 < np) (yo : K)
    (i : Nat) (hi : i + 1 ≤ secs) :
    outDot pos yo (ringVertCount np secs, ringVertCount np secs + i, ringVertCount np secs + i + 1) =
      fanArea c s (place (prof 0).1 (prof 0).2 start) i * (yo - (prof 0).2) := by
  have p0 : pos (ringVertCount np secs) = place (prof 0).1 (prof 0).2 start := by
    have := L.capPos 0 (by omega)
    rw [capSource_bottom np secs 0 (by omega), L.ringPos 0 hnp 0 (by omega)] at this
    exact this
  have pi : pos (ringVertCount np secs + i) = (rotY c s)^[i] (place (prof 0).1 (prof 0).2 start) := by
    rw [L.capPos i (by omega), capSource_bottom np secs i (by omega), L.ringPos 0 hnp i (by omega)]
  have pi1 : pos (ringVertCount np secs + i + 1) =
      (rotY c s)^[i + 1] (place (prof 0).1 (prof 0).2 start) := by
    rw [Nat.add_assoc, L.capPos (i + 1) (by omega), capSource_bottom np secs (i + 1) (by omega),
      L.ringPos 0 hnp (i + 1) (by omega)]
  simp only [outDot, p0, pi, pi1, (fan_normal_iter c s _ i).1, sub3_place_axis]
  simp only [dot3, place]; ring

/-- Top-cap face `(l, l+i+1, l+i)` (lathe.rs:151): `outDot = Aᵢ · (y_top − yo)`. -/
theorem top_cap_outDot {c s : K} {start : K × K} {np secs : Nat} {prof : Nat → K × K}
    {pos : Nat → V3 K} (L : Layout c s start np secs prof pos) (hnp : 0 < np) (yo : K)
    (i : Nat) (hi : i + 1 ≤ secs) :
    outDot pos yo (ringVertCount np secs + (secs + 1), ringVertCount np secs + (secs + 1) + i + 1,
        ringVertCount np secs + (secs + 1) + i) =
      fanArea c s (place (prof (np - 1)).1 (prof (np - 1)).2 start) i * ((prof (np - 1)).2 - yo) := by
  have hk : ∀ k, k ≤ secs → pos (ringVertCount np secs + (secs + 1) + k) =
      (rotY c s)^[k] (place (prof (np - 1)).1 (prof (np - 1)).2 start) := by
    intro k hk
    rw [Nat.add_assoc, L.capPos (secs + 1 + k) (by omega), capSource_top np secs k,
      L.ringPos (np - 1) (by omega) k hk]
  have p0 : pos (ringVertCount np secs + (secs + 1)) = place (prof (np - 1)).1 (prof (np - 1)).2 start :=
    hk 0 (by omega)
  have pi := hk i (by omega)
  have pi1 : pos (ringVertCount np secs + (secs + 1) + i + 1) = _ := hk (i + 1) (by omega)
  simp only [outDot, p0, pi, pi1, (fan_normal_iter c s _ i).2, sub3_place_axis]
  simp only [dot3, place]; ring

end Solid

section SolidOrdered
variable {K : Type} [CommRing K] [LinearOrder K] [IsStrictOrderedRing K]

/-- **Every face of a capped lathe is wound counter-clockwise seen from outside, every sector
count.**  Hypotheses: unit step with `0 ≤ s`; unit start azimuth; the `Lathe::build` vertex layout;
an axis point `o = (0, yo, 0)` between the bottom and the top ring; radii `≥ 0`; every profile
segment turns counter-clockwise about `o` (`profWeight ≥ 0`: the solid is star-shaped about `o`);
and no cap fan goes past a full turn (`hconv`, discharged for the true `cos`/`sin` by
`fan_convex_real`).  Then `N_f · (a_f − o) ≥ 0` for EVERY face of `faces np secs true` – side quads
and both cap fans. -/
theorem lathe_faces_outward (c s : K) (h : c * c + s * s = 1) (hs : 0 ≤ s) (start : K × K)
    (hstart : normSq start = 1) (np secs : Nat) (prof : Nat → K × K) (pos : Nat → V3 K)
    (L : Layout c s start np secs prof pos) (yo : K)
    (hbot : (prof 0).2 ≤ yo) (htop : yo ≤ (prof (np - 1)).2)
    (hx : ∀ j, j < np → 0 ≤ (prof j).1)
    (hw : ∀ j, j + 1 < np → 0 ≤ profWeight prof yo j)
    (hconv : ∀ i, 1 ≤ i → i + 1 ≤ secs → 0 ≤ (mult c s i).2 ∨ (mult c s (i + 1)).2 ≤ 0) :
    ∀ f ∈ faces np secs true, 0 ≤ outDot pos yo f := by
  intro f hf
  unfold faces at hf
  rw [List.mem_append] at hf
  rcases hf with hf | hf
  · rw [mem_sideFaces] at hf
    obtain ⟨j0, hj, i0, hi, hq⟩ := hf
    obtain ⟨e, d1, d2⟩ := side_faces_outDot L h hstart yo j0 i0 (by omega) hi
    rw [e] at hq
    simp only [List.mem_cons, List.mem_nil_iff, or_false] at hq
    have hW := hw j0 (by omega)
    rcases hq with rfl | rfl
    · rw [d1]; exact mul_nonneg (mul_nonneg (hx j0 (by omega)) hs) hW
    · rw [d2]; exact mul_nonneg (mul_nonneg (hx (j0 + 1) (by omega)) hs) hW
  · split at hf
    · rename_i hc
      have hnp : 0 < np := by simpa [hasCaps] using hc
      rw [List.mem_append, mem_bottomCap, mem_topCap] at hf
      rcases hf with ⟨i0, hi, rfl⟩ | ⟨i0, hi, rfl⟩
      · rw [bottom_cap_outDot L hnp yo (i0 + 1) (by omega)]
        exact mul_nonneg (fan_area_nonneg c s h hs _ _ (hconv (i0 + 1) (by omega) (by omega)))
          (by linarith)
      · rw [top_cap_outDot L hnp yo (i0 + 1) (by omega)]
        exact mul_nonneg (fan_area_nonneg c s h hs _ _ (hconv (i0 + 1) (by omega) (by omega)))
          (by linarith)
    · simp at hf

/-- **Strict version.**  With `0 < s`, positive radii, `o` strictly between the end rings, every
profile segment strictly counter-clockwise about `o`, and the fan strictly inside a full turn up to
index `secs − 2`: every face has `N_f · (a_f − o) > 0`, except possibly the LAST triangle of each cap
fan, `(l, l+secs−1, l+secs)`, whose third corner is the seam vertex (a copy of the first corner
after a full turn: a degenerate face, `fan_area_seam`); it is `≥ 0` by `lathe_faces_outward`. -/
theorem lathe_faces_outward_strict (c s : K) (h : c * c + s * s = 1) (hs : 0 < s) (start : K × K)
    (hstart : normSq start = 1) (np secs : Nat) (prof : Nat → K × K) (pos : Nat → V3 K)
    (L : Layout c s start np secs prof pos) (yo : K)
    (hbot : (prof 0).2 < yo) (htop : yo < (prof (np - 1)).2)
    (hx : ∀ j, j < np → 0 < (prof j).1)
    (hw : ∀ j, j + 1 < np → 0 < profWeight prof yo j)
    (hconv : ∀ i, 1 ≤ i → i + 1 < secs →
      (0 ≤ (mult c s i).2 ∧ (mult c s i).1 ≠ 1) ∨
      ((mult c s (i + 1)).2 ≤ 0 ∧ (mult c s (i + 1)).1 ≠ 1)) :
    ∀ f ∈ faces np secs true,
      0 < outDot pos yo f ∨
      f = (ringVertCount np secs, ringVertCount np secs + (secs - 1), ringVertCount np secs + (secs - 1) + 1) ∨
      f = (ringVertCount np secs + (secs + 1), ringVertCount np secs + (secs + 1) + (secs - 1) + 1,
            ringVertCount np secs + (secs + 1) + (secs - 1)) := by
  intro f hf
  unfold faces at hf
  rw [List.mem_append] at hf
  rcases hf with hf | hf
  · left
    rw [mem_sideFaces] at hf
    obtain ⟨j0, hj, i0, hi, hq⟩ := hf
    obtain ⟨e, d1, d2⟩ := side_faces_outDot L h hstart yo j0 i0 (by omega) hi
    rw [e] at hq
    simp only [List.mem_cons, List.mem_nil_iff, or_false] at hq
    have hW := hw j0 (by omega)
    rcases hq with rfl | rfl
    · rw [d1]; exact mul_pos (mul_pos (hx j0 (by omega)) hs) hW
    · rw [d2]; exact mul_pos (mul_pos (hx (j0 + 1) (by omega)) hs) hW
  · split at hf
    · rename_i hc
      have hnp : 0 < np := by simpa [hasCaps] using hc
      rw [List.mem_append, mem_bottomCap, mem_topCap] at hf
      rcases hf with ⟨i0, hi, rfl⟩ | ⟨i0, hi, rfl⟩
      · by_cases hlast : i0 + 1 = secs - 1
        · right; left; rw [hlast]
        · left
          rw [bottom_cap_outDot L hnp yo (i0 + 1) (by omega)]
          have hv : 0 < radSq (place (prof 0).1 (prof 0).2 start) := by
            rw [radSq_place _ _ _ hstart]; exact mul_pos (hx 0 hnp) (hx 0 hnp)
          exact mul_pos (fan_area_pos c s h hs _ hv _ (hconv (i0 + 1) (by omega) (by omega)))
            (by linarith)
      · by_cases hlast : i0 + 1 = secs - 1
        · right; right; rw [hlast]
        · left
          rw [top_cap_outDot L hnp yo (i0 + 1) (by omega)]
          have hv : 0 < radSq (place (prof (np - 1)).1 (prof (np - 1)).2 start) := by
            rw [radSq_place _ _ _ hstart]
            exact mul_pos (hx (np - 1) (by omega)) (hx (np - 1) (by omega))
          exact mul_pos (fan_area_pos c s h hs _ hv _ (hconv (i0 + 1) (by omega) (by omega)))
            (by linarith)
    · simp at hf

end SolidOrdered

/-! ### Non-vacuity of the layout hypothesis -/

section LayoutExists
variable {K : Type} [CommRing K]

/-- The position function the layout describes, written out: ring vertices by iterated rotation,
cap vertices through `capSource`. -/
def layoutPos (c s : K) (start : K × K) (np secs : Nat) (prof : Nat → K × K) (idx : Nat) : V3 K :=
  let src := if idx < ringVertCount np secs then idx else capSource np secs (idx - ringVertCount np secs)
  (rotY c s)^[src % (secs + 1)] (place (prof (src / (secs + 1))).1 (prof (src / (secs + 1))).2 start)

theorem capSource_lt (np secs k : Nat) (hnp : 0 < np) (hk : k < 2 * (secs + 1)) :
    capSource np secs k < ringVertCount np secs := by
  have : secs + 1 ≤ np * (secs + 1) := Nat.le_mul_of_pos_left _ hnp
  unfold capSource ringVertCount
  split <;> omega

/-- The layout hypothesis is satisfiable for every step, start, profile and count (`np > 0`). -/
theorem layout_exists (c s : K) (start : K × K) (np secs : Nat) (hnp : 0 < np) (prof : Nat → K × K) :
    Layout c s start np secs prof (layoutPos c s start np secs prof) := by
  constructor
  · intro j hj i hi
    have h1 : j * (secs + 1) + i < ringVertCount np secs := by
      unfold ringVertCount
      calc j * (secs + 1) + i < j * (secs + 1) + (secs + 1) := by omega
        _ = (j + 1) * (secs + 1) := by rw [Nat.add_mul, Nat.one_mul]
        _ ≤ np * (secs + 1) := Nat.mul_le_mul_right _ hj
    have hm : (j * (secs + 1) + i) % (secs + 1) = i := by
      rw [Nat.mul_comm, Nat.mul_add_mod, Nat.mod_eq_of_lt (by omega)]
    have hd : (j * (secs + 1) + i) / (secs + 1) = j := by
      rw [Nat.mul_comm, Nat.mul_add_div (by omega), Nat.div_eq_of_lt (by omega), Nat.add_zero]
    simp only [layoutPos, if_pos h1, hm, hd]
  · intro k hk
    have h1 := capSource_lt np secs k hnp hk
    simp only [layoutPos, if_neg (show ¬ ringVertCount np secs + k < ringVertCount np secs by omega),
      Nat.add_sub_cancel_left, if_pos h1]

end LayoutExists

/-! ### Capped cylinders and cones (`Cone::build`, lathe.rs:200-218; `Cylinder` = equal radii) -/

section Cones
variable {K : Type} [Field K] [LinearOrder K] [IsStrictOrderedRing K]

/-- Profile of `Cone::build` in exact arithmetic: `base_pt.vary_to(apex_pt, segments)` from
`(base, −1)` to `(apex, 1)`, `segments + 1` points. -/
def coneProf (base apex : K) (segs : Nat) (j : Nat) : K × K :=
  (base + (j : K) / segs * (apex - base), -1 + 2 * (j : K) / segs)

theorem coneProf_weight (base apex : K) (segs : Nat) (hsegs : 0 < segs) (j : Nat) :
    profWeight (coneProf base apex segs) 0 j = (base + apex) / segs := by
  have : (segs : K) ≠ 0 := by exact_mod_cast hsegs.ne'
  simp only [profWeight, coneProf]
  push_cast
  field_simp
  ring

theorem coneProf_x (base apex : K) (segs : Nat) (hsegs : 0 < segs) (j : Nat) (hj : j ≤ segs) :
    (coneProf base apex segs j).1 = (1 - (j : K) / segs) * base + (j : K) / segs * apex ∧
    0 ≤ (j : K) / segs ∧ (j : K) / segs ≤ 1 := by
  have h0 : (0 : K) < segs := by exact_mod_cast hsegs
  have hj' : (j : K) ≤ segs := by exact_mod_cast hj
  refine ⟨by simp only [coneProf]; ring, by positivity, ?_⟩
  rw [div_le_one h0]; exact hj'

theorem coneProf_ends (base apex : K) (segs : Nat) (hsegs : 0 < segs) :
    (coneProf base apex segs 0).2 = -1 ∧ (coneProf base apex segs segs).2 = 1 := by
  have : (segs : K) ≠ 0 := by exact_mod_cast hsegs.ne'
  constructor
  · simp [coneProf]
  · simp only [coneProf]; field_simp; ring

/-- **Capped cylinder / cone / truncated cone, any ordered field, every sector and segment count**:
every face of the mesh – side quads, bottom fan, top fan – satisfies `N_f · (a_f − centre) ≥ 0`,
i.e. all faces have the same winding sense relative to the outside (counter-clockwise seen from
outside); the uncapped variant's faces are the `sideFaces` prefix of the same list. -/
theorem cone_faces_outward (c s : K) (h : c * c + s * s = 1) (hs : 0 ≤ s) (start : K × K)
    (hstart : normSq start = 1) (secs segs : Nat) (hsegs : 0 < segs) (base apex : K)
    (hb : 0 ≤ base) (ha : 0 ≤ apex) (pos : Nat → V3 K)
    (L : Layout c s start (conePoints segs) secs (coneProf base apex segs) pos)
    (hconv : ∀ i, 1 ≤ i → i + 1 ≤ secs → 0 ≤ (mult c s i).2 ∨ (mult c s (i + 1)).2 ≤ 0) :
    ∀ f ∈ faces (conePoints segs) secs true, 0 ≤ outDot pos 0 f := by
  have h0 : (0 : K) < segs := by exact_mod_cast hsegs
  obtain ⟨e0, e1⟩ := coneProf_ends base apex segs hsegs
  apply lathe_faces_outward c s h hs start hstart _ secs _ pos L 0
  · rw [e0]; norm_num
  · show 0 ≤ (coneProf base apex segs (segs + 1 - 1)).2
    rw [Nat.add_sub_cancel, e1]; norm_num
  · intro j hj
    obtain ⟨ex, t0, t1⟩ := coneProf_x base apex segs hsegs j (by unfold conePoints at hj; omega)
    rw [ex]
    exact add_nonneg (mul_nonneg (by linarith) hb) (mul_nonneg t0 ha)
  · intro j _
    rw [coneProf_weight base apex segs hsegs]
    exact div_nonneg (by linarith) h0.le
  · exact hconv

/-- Strict version for positive radii: every face strictly counter-clockwise seen from outside,
except the degenerate last triangle of each cap fan (third corner = seam copy of the first). -/
theorem cone_faces_outward_strict (c s : K) (h : c * c + s * s = 1) (hs : 0 < s) (start : K × K)
    (hstart : normSq start = 1) (secs segs : Nat) (hsegs : 0 < segs) (base apex : K)
    (hb : 0 < base) (ha : 0 < apex) (pos : Nat → V3 K)
    (L : Layout c s start (conePoints segs) secs (coneProf base apex segs) pos)
    (hconv : ∀ i, 1 ≤ i → i + 1 < secs →
      (0 ≤ (mult c s i).2 ∧ (mult c s i).1 ≠ 1) ∨
      ((mult c s (i + 1)).2 ≤ 0 ∧ (mult c s (i + 1)).1 ≠ 1)) :
    ∀ f ∈ faces (conePoints segs) secs true,
      0 < outDot pos 0 f ∨
      f = (ringVertCount (conePoints segs) secs, ringVertCount (conePoints segs) secs + (secs - 1),
            ringVertCount (conePoints segs) secs + (secs - 1) + 1) ∨
      f = (ringVertCount (conePoints segs) secs + (secs + 1),
            ringVertCount (conePoints segs) secs + (secs + 1) + (secs - 1) + 1,
            ringVertCount (conePoints segs) secs + (secs + 1) + (secs - 1)) := by
  have h0 : (0 : K) < segs := by exact_mod_cast hsegs
  obtain ⟨e0, e1⟩ := coneProf_ends base apex segs hsegs
  apply lathe_faces_outward_strict c s h hs start hstart _ secs _ pos L 0
  · rw [e0]; norm_num
  · show 0 < (coneProf base apex segs (segs + 1 - 1)).2
    rw [Nat.add_sub_cancel, e1]; norm_num
  · intro j hj
    obtain ⟨ex, t0, t1⟩ := coneProf_x base apex segs hsegs j (by unfold conePoints at hj; omega)
    rw [ex]
    rcases t1.lt_or_eq with t1 | t1
    · exact add_pos_of_pos_of_nonneg (mul_pos (by linarith) hb) (mul_nonneg t0 ha.le)
    · rw [t1]; simpa using ha
  · intro j _
    rw [coneProf_weight base apex segs hsegs]
    exact div_pos (by linarith) h0
  · exact hconv

end Cones

/-! ### Headline: every sector count `≥ 3`, true `cos`/`sin` of `2π/sectors` -/

section Headline
open Real

/-- **Capped cylinders and cones of EVERY sector count `≥ 3` and every segment count `≥ 1`** (full
turn: `Lathe::new`'s default `az_range`, step `2π/sectors`, any start azimuth `α`): for every mesh
with the `Lathe::build` vertex layout, ALL faces – side quads, bottom fan, top fan – have
`N_f · (a_f − centre) ≥ 0`: the same winding sense relative to the outside.  With positive radii the
inequality is strict for every face except the last triangle of each cap fan, which is degenerate
(its third corner is the seam copy of its first). -/
theorem cone_faces_outward_all_counts (secs segs : ℕ) (hsecs : 3 ≤ secs) (hsegs : 1 ≤ segs)
    (base apex α : ℝ) (hb : 0 ≤ base) (ha : 0 ≤ apex) (pos : ℕ → V3 ℝ)
    (L : Layout (cos (2 * π / secs)) (sin (2 * π / secs)) (cos α, sin α) (conePoints segs) secs
      (coneProf base apex segs) pos) :
    (∀ f ∈ faces (conePoints segs) secs true, 0 ≤ outDot pos 0 f) ∧
    (0 < base → 0 < apex → ∀ f ∈ faces (conePoints segs) secs true,
      0 < outDot pos 0 f ∨
      f = (ringVertCount (conePoints segs) secs, ringVertCount (conePoints segs) secs + (secs - 1),
            ringVertCount (conePoints segs) secs + (secs - 1) + 1) ∨
      f = (ringVertCount (conePoints segs) secs + (secs + 1),
            ringVertCount (conePoints segs) secs + (secs + 1) + (secs - 1) + 1,
            ringVertCount (conePoints segs) secs + (secs + 1) + (secs - 1))) := by
  set θ : ℝ := 2 * π / secs with hθdef
  have hn0 : (0 : ℝ) < secs := by exact_mod_cast (show 0 < secs by omega)
  have hn3 : (3 : ℝ) ≤ secs := by exact_mod_cast hsecs
  have hπ := pi_pos
  have hθ : 0 < θ := by positivity
  have hnθ : (secs : ℝ) * θ = 2 * π := by rw [hθdef]; field_simp
  have hθlt : θ < π := by
    have : 3 * θ ≤ 2 * π := by rw [← hnθ]; nlinarith
    linarith
  have hs : 0 < sin θ := sin_pos_of_pos_of_lt_pi hθ hθlt
  have hunit : cos θ * cos θ + sin θ * sin θ = 1 := by
    have := cos_sq_add_sin_sq θ; nlinarith
  have hstart : normSq (cos α, sin α) = 1 := by
    have := cos_sq_add_sin_sq α; simp only [normSq]; nlinarith
  have hle : ∀ i : ℕ, i + 1 ≤ secs → ((i + 1 : ℕ) : ℝ) * θ ≤ 2 * π := by
    intro i hi
    have : ((i + 1 : ℕ) : ℝ) ≤ secs := by exact_mod_cast hi
    rw [← hnθ]; nlinarith
  have hlt : ∀ i : ℕ, i + 1 < secs → ((i + 1 : ℕ) : ℝ) * θ < 2 * π := by
    intro i hi
    have : ((i + 1 : ℕ) : ℝ) < secs := by exact_mod_cast hi
    rw [← hnθ]; nlinarith
  refine ⟨?_, fun hb' ha' => ?_⟩
  · exact cone_faces_outward _ _ hunit hs.le _ hstart secs segs hsegs base apex hb ha pos L
      (fun i _ hi => fan_convex_real θ hθ.le i (hle i hi))
  · exact cone_faces_outward_strict _ _ hunit hs _ hstart secs segs hsegs base apex hb' ha' pos L
      (fun i h1 hi => fan_strict_convex_real θ hθ i h1 (hlt i hi))

-- non-vacuity of the headline: the layout exists for every count (here the smallest: 3 sectors, 1 segment)
example : ∃ pos : ℕ → V3 ℝ, Layout (cos (2 * π / (3 : ℕ))) (sin (2 * π / (3 : ℕ))) (cos 0, sin 0)
    (conePoints 1) 3 (coneProf 1 1 1) pos :=
  ⟨_, layout_exists _ _ _ _ _ (by decide) _⟩

end Headline

/-! ### Instances over `ℚ` (decidable hypotheses; the driver's scalar) -/

section Instances

/-- Quarter-turn steps `c = 0, s = 1`, 4 sectors: the multiples are `(1,0), (0,1), (−1,0), (0,−1), (1,0)`. -/
example : mult (0 : ℚ) 1 1 = (0, 1) ∧ mult (0 : ℚ) 1 2 = (-1, 0) ∧ mult (0 : ℚ) 1 3 = (0, -1) ∧
    mult (0 : ℚ) 1 4 = (1, 0) := by
  simp [mult, stepAngle]

/-- … so the convexity hypothesis of `fan_area_nonneg` / `cone_faces_outward` holds for all fan
indices `1 ≤ i`, `i + 1 ≤ 4`, and the strict one for `i + 1 < 4`. -/
example : (∀ i, 1 ≤ i → i + 1 ≤ 4 → 0 ≤ (mult (0 : ℚ) 1 i).2 ∨ (mult (0 : ℚ) 1 (i + 1)).2 ≤ 0) ∧
    (∀ i, 1 ≤ i → i + 1 < 4 → (0 ≤ (mult (0 : ℚ) 1 i).2 ∧ (mult (0 : ℚ) 1 i).1 ≠ 1) ∨
      ((mult (0 : ℚ) 1 (i + 1)).2 ≤ 0 ∧ (mult (0 : ℚ) 1 (i + 1)).1 ≠ 1)) := by
  constructor
  · intro i h1 h2
    obtain rfl | rfl | rfl : i = 1 ∨ i = 2 ∨ i = 3 := by omega
    all_goals simp [mult, stepAngle]
  · intro i h1 h2
    obtain rfl | rfl : i = 1 ∨ i = 2 := by omega
    all_goals simp [mult, stepAngle]

/-- The square cap on the ring through `(1, −1, 0)`: doubled areas `2, 2` and the degenerate seam
triangle `0` – the bottom faces' geometric normals are `(0, −2, 0), (0, −2, 0), (0, 0, 0)`. -/
example : fanArea (0 : ℚ) 1 (1, -1, 0) 1 = 2 ∧ fanArea (0 : ℚ) 1 (1, -1, 0) 2 = 2 ∧
    fanArea (0 : ℚ) 1 (1, -1, 0) 3 = 0 := by
  simp [fanArea, det2, sub2, xz, stepAngle]; norm_num

/-- The 3-4-5 rotation `c = 3/5, s = 4/5` (step ≈ 53.13°; 6 steps ≈ 318.8° stay inside a full turn:
a partial-azimuth capped lathe with 6 sectors): unit, `0 < s`, convexity for all fan indices. -/
example : ((3 : ℚ) / 5) * (3 / 5) + (4 / 5) * (4 / 5) = 1 ∧ (0 : ℚ) < 4 / 5 ∧
    (∀ i, 1 ≤ i → i + 1 ≤ 6 →
      (0 ≤ (mult ((3 : ℚ) / 5) (4 / 5) i).2 ∧ (mult ((3 : ℚ) / 5) (4 / 5) i).1 ≠ 1) ∨
      ((mult ((3 : ℚ) / 5) (4 / 5) (i + 1)).2 ≤ 0 ∧ (mult ((3 : ℚ) / 5) (4 / 5) (i + 1)).1 ≠ 1)) := by
  refine ⟨by norm_num, by norm_num, ?_⟩
  intro i h1 h2
  obtain rfl | rfl | rfl | rfl | rfl : i = 1 ∨ i = 2 ∨ i = 3 ∨ i = 4 ∨ i = 5 := by omega
  all_goals norm_num [mult, stepAngle]

/-- … and the resulting strictly positive fan areas on the ring through `(1, −1, 0)`. -/
example : ∀ i, 1 ≤ i → i + 1 ≤ 6 → 0 < fanArea ((3 : ℚ) / 5) (4 / 5) (1, -1, 0) i := by
  intro i h1 h2
  obtain rfl | rfl | rfl | rfl | rfl : i = 1 ∨ i = 2 ∨ i = 3 ∨ i = 4 ∨ i = 5 := by omega
  all_goals norm_num [fanArea, det2, sub2, xz, stepAngle]

/-- A seventh 3-4-5 step would pass the full turn: the fan triangle `i = 6` is wrongly oriented –
the convexity hypothesis is not redundant. -/
example : fanArea ((3 : ℚ) / 5) (4 / 5) (1, -1, 0) 6 < 0 := by
  norm_num [fanArea, det2, sub2, xz, stepAngle]

end Instances

end Retro.Props.C15
