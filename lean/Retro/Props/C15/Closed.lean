/-
C15 — closedness of the lathe model for ALL counts (no grid): side surface with the seam
identified, cap fans, capped cylinder / truncated cone.  Proofs by explicit pairing in ring/column
coordinates (Retro/Lemmas/ClosedCyl.lean, ClosedFan.lean) and an exact bridge from the index model
`Retro.Lathe.mergedFaces` (Retro/Lemmas/ClosedBridge*.lean).
-/
import Retro.Lemmas.ClosedBridgeCap
import Retro.Lemmas.LatheGrid

namespace Retro.Props.C15
open Retro.Lathe Retro.Surface Retro.Cyl

/-- The directed edges of the model's side surface after the seam identification (`ident`,
column `secs` ↦ column 0), as index pairs. -/
def seamSideEdges (np secs : Nat) : List (Nat × Nat) :=
  dirEdges ((sideFaces np secs).map (mapTri (ident np secs {})))

/-- Both end points of the edge lie in ring `r` (indices `r(secs+1) .. r(secs+1)+secs`). -/
def inRing (secs r : Nat) (e : Nat × Nat) : Prop :=
  e.1 / (secs + 1) = r ∧ e.2 / (secs + 1) = r

/-- **`lathe_edges_paired` — the side surface is an oriented manifold with exactly two boundary
loops, for every `n_points ≥ 2` and every `sectors ≥ 3`.**  After identifying the seam column
with column 0: (1) no directed edge is used by two faces; (2) the reverse of a directed edge is
again an edge iff the edge does not lie inside the first or the last ring; (3) the boundary edges
are exactly `(0, i+1 mod secs) → (0, i)` in the first ring and `(R, i) → (R, i+1 mod secs)` in the
last ring `R = n_points − 1`, `i < secs` – each ring traversed once, consistently. -/
theorem lathe_edges_paired (np secs : Nat) (hn : 2 ≤ np) (hs : 3 ≤ secs) :
    (seamSideEdges np secs).Nodup ∧
    (∀ e ∈ seamSideEdges np secs,
      ((e.2, e.1) ∈ seamSideEdges np secs ↔ ¬ (inRing secs 0 e ∨ inRing secs (np - 1) e))) ∧
    (∀ e ∈ seamSideEdges np secs, inRing secs 0 e →
      ∃ i, i < secs ∧ e = (enc secs (0, sm secs i), enc secs (0, i))) ∧
    (∀ e ∈ seamSideEdges np secs, inRing secs (np - 1) e →
      ∃ i, i < secs ∧ e = (enc secs (np - 1, i), enc secs (np - 1, sm secs i))) := by
  obtain ⟨R, rfl⟩ : ∃ R, np = R + 1 := ⟨np - 1, by omega⟩
  have hE : seamSideEdges (R + 1) secs = mapEdges (enc secs) (sideEdges R secs) :=
    side_bridge (by omega)
  -- columns of side vertices are below secs + 1, so `enc` is injective on them and rows are recovered by division
  have hcol : ∀ e ∈ sideEdges R secs, e.1.2 < secs + 1 ∧ e.2.2 < secs + 1 := by
    intro e he
    exact cylEdges_cols (R := R) hs e (by unfold cylEdges; exact List.mem_append_left _ he)
  have hring : ∀ e ∈ sideEdges R secs, ∀ r,
      inRing secs r (enc secs e.1, enc secs e.2) ↔ onRing r e := by
    intro e he r
    obtain ⟨h1, h2⟩ := hcol e he
    simp only [inRing, enc, div_enc h1, div_enc h2, onRing]
  have hmem : ∀ e ∈ sideEdges R secs, ∀ e' : V × V, e'.1.2 < secs + 1 → e'.2.2 < secs + 1 →
      ((enc secs e'.1, enc secs e'.2) ∈ mapEdges (enc secs) (sideEdges R secs) ↔ e' ∈ sideEdges R secs) := by
    intro _ _ e' h1 h2
    unfold mapEdges
    rw [List.mem_map]
    constructor
    · rintro ⟨x, hx, hxe⟩
      simp only [Prod.mk.injEq] at hxe
      obtain ⟨c1, c2⟩ := hcol x hx
      have a1 := enc_inj secs x.1 e'.1 c1 h1 hxe.1
      have a2 := enc_inj secs x.2 e'.2 c2 h2 hxe.2
      have : x = e' := Prod.ext a1 a2
      rw [← this]; exact hx
    · intro h; exact ⟨e', h, rfl⟩
  rw [hE, Nat.add_sub_cancel]
  refine ⟨?_, ?_, ?_, ?_⟩
  · exact (closedG_map_nodup (enc secs) (fun v => v.2 < secs + 1) _ (fun x y => enc_inj secs x y) hcol
      (sideEdges_nodup R hs))
  · intro e he
    unfold mapEdges at he
    rw [List.mem_map] at he
    obtain ⟨e0, he0, rfl⟩ := he
    obtain ⟨c1, c2⟩ := hcol e0 he0
    rw [hmem e0 he0 (e0.2, e0.1) c2 c1, side_paired hs he0, hring e0 he0 0, hring e0 he0 R]
  · intro e he h0
    unfold mapEdges at he
    rw [List.mem_map] at he
    obtain ⟨e0, he0, rfl⟩ := he
    obtain ⟨i, hi, rfl⟩ := side_ring0 he0 ((hring e0 he0 0).mp h0)
    exact ⟨i, hi, rfl⟩
  · intro e he hR
    unfold mapEdges at he
    rw [List.mem_map] at he
    obtain ⟨e0, he0, rfl⟩ := he
    obtain ⟨i, hi, rfl⟩ := side_ringR he0 ((hring e0 he0 R).mp hR)
    exact ⟨i, hi, rfl⟩

/-- Directed edges of the model's bottom / top cap after `ident`, degenerate fan triangles dropped. -/
def bottomCapEdges (np secs : Nat) : List (Nat × Nat) :=
  dirEdges (((bottomCap (np * (secs + 1)) secs).map (mapTri (ident np secs {}))).filter nondegenerate)
def topCapEdges (np secs : Nat) : List (Nat × Nat) :=
  dirEdges (((topCap (np * (secs + 1) + (secs + 1)) secs).map (mapTri (ident np secs {}))).filter nondegenerate)

/-- **`cap_closes_ring` — every cap fan closes its ring, for every `sectors ≥ 3`.**  After `ident`
(cap vertices are copies of the first / last ring) the bottom fan has no repeated directed edge,
contains every edge `(0,i) → (0,i+1 mod secs)` – the reverses of the side surface's first boundary
loop – and each of its edges is one of those or an interior diagonal whose reverse is in the fan too;
the top fan likewise with the edges `(R,i+1 mod secs) → (R,i)` of the last ring `R = n_points − 1`. -/
theorem cap_closes_ring (np secs : Nat) (hn : 1 ≤ np) (hs : 3 ≤ secs) :
    (bottomCapEdges np secs).Nodup ∧ (topCapEdges np secs).Nodup ∧
    (∀ i, i < secs → (enc secs (0, i), enc secs (0, sm secs i)) ∈ bottomCapEdges np secs) ∧
    (∀ e ∈ bottomCapEdges np secs, (e.2, e.1) ∈ bottomCapEdges np secs ∨
      ∃ i, i < secs ∧ e = (enc secs (0, i), enc secs (0, sm secs i))) ∧
    (∀ i, i < secs → (enc secs (np - 1, sm secs i), enc secs (np - 1, i)) ∈ topCapEdges np secs) ∧
    (∀ e ∈ topCapEdges np secs, (e.2, e.1) ∈ topCapEdges np secs ∨
      ∃ i, i < secs ∧ e = (enc secs (np - 1, sm secs i), enc secs (np - 1, i))) := by
  have hB : bottomCapEdges np secs = mapEdges (enc secs) (fanFwd 0 secs) := bottom_bridge hs
  have hT : topCapEdges np secs = mapEdges (enc secs) (fanBwd (np - 1) secs) := top_bridge hs hn
  have cF := fanFwd_cols (r := 0) hs
  have cB := fanBwd_cols (r := np - 1) hs
  rw [hB, hT]
  refine ⟨?_, ?_, ?_, ?_, ?_, ?_⟩
  · exact closedG_map_nodup _ (fun v => v.2 < secs + 1) _ (fun x y => enc_inj secs x y) cF (fanFwd_nodup 0 secs)
  · exact closedG_map_nodup _ (fun v => v.2 < secs + 1) _ (fun x y => enc_inj secs x y) cB (fanBwd_nodup _ secs)
  · intro i hi
    have := sm_lt hi
    exact (mem_mapEdges_enc cF (a := (0, i)) (b := (0, sm secs i)) (by simp; omega) (by simp; omega)).mpr
      (fanFwd_boundary hs hi)
  · intro e he
    unfold mapEdges at he
    rw [List.mem_map] at he
    obtain ⟨e0, he0, rfl⟩ := he
    obtain ⟨c1, c2⟩ := cF e0 he0
    rcases fanFwd_paired he0 with h | ⟨i, hi, rfl⟩
    · exact Or.inl ((mem_mapEdges_enc cF c2 c1).mpr h)
    · exact Or.inr ⟨i, hi, rfl⟩
  · intro i hi
    have := sm_lt hi
    exact (mem_mapEdges_enc cB (a := (np - 1, sm secs i)) (b := (np - 1, i)) (by simp; omega) (by simp; omega)).mpr
      (mem_fanBwd.mpr (fanFwd_boundary hs hi))
  · intro e he
    unfold mapEdges at he
    rw [List.mem_map] at he
    obtain ⟨e0, he0, rfl⟩ := he
    obtain ⟨c1, c2⟩ := cB e0 he0
    rcases fanFwd_paired (mem_fanBwd.mp he0) with h | ⟨i, hi, h⟩
    · exact Or.inl ((mem_mapEdges_enc cB c2 c1).mpr (mem_fanBwd.mpr h))
    · simp only [Prod.mk.injEq] at h
      exact Or.inr ⟨i, hi, by rw [← h.1, ← h.2]⟩

/-- **Capped cylinder / truncated cone (both radii positive), ALL counts**: the statement of the grid
theorem `capped_closed` without the bounds – for every `n_points ≥ 2` (`segments ≥ 1`) and every
`sectors ≥ 3` the capped lathe, after `ident` and with degenerate faces dropped, is closed and
consistently wound. -/
theorem capped_closed_all (np secs : Nat) (hn : 2 ≤ np) (hs : 3 ≤ secs) :
    ClosedOriented (dirEdges (mergedFaces np secs true cappedClosure)) := by
  obtain ⟨R, rfl⟩ : ∃ R, np = R + 1 := ⟨np - 1, by omega⟩
  show ClosedOriented (dirEdges (mergedFaces (R + 1) secs true {}))
  rw [capped_bridge hs]
  exact closedG_nat (closedG_map (enc secs) (fun v => v.2 < secs + 1) _ (fun x y => enc_inj secs x y)
    (cylEdges_cols hs) (cyl_closed (by omega) hs))

end Retro.Props.C15
