/-
C15 — closedness of the capped cone with one end on the axis, for ALL counts.
-/
import Retro.Lemmas.ClosedBridgeCone
import Retro.Lemmas.LatheGrid

namespace Retro.Props.C15
open Retro.Lathe Retro.Surface Retro.Cyl

theorem closedG_swap_tail {α : Type} {B F T : List (α × α)} (h : ClosedG (B ++ (F ++ T))) :
    ClosedG (B ++ (T ++ F)) := by
  have hp : List.Perm (B ++ (T ++ F)) (B ++ (F ++ T)) := List.Perm.append_left B List.perm_append_comm
  exact ⟨hp.nodup_iff.mpr h.nodup, fun e he => hp.mem_iff.mpr (h.paired e (hp.mem_iff.mp he))⟩

/-- **Capped cone with `apex_radius = 0`, ALL counts** (`segments ≥ 1`, `sectors ≥ 3`): the top
ring and the whole top cap collapse to the apex; what remains is closed and consistently wound.
(Same predicate as the grid theorem `cone_apex_closed`.) -/
theorem cone_apex_closed_all (segs secs : Nat) (hs : 1 ≤ segs) (hk : 3 ≤ secs) :
    ClosedOriented (dirEdges (mergedFaces (conePoints segs) secs true coneApexClosure)) := by
  obtain ⟨m, rfl⟩ : ∃ m, segs = m + 1 := ⟨segs - 1, by omega⟩
  show ClosedOriented (dirEdges (mergedFaces (m + 2) secs true { poleTop := true }))
  rw [coneApex_bridge hk]
  apply closed_of_enc
  · intro e he
    simp only [List.mem_append] at he
    rcases he with he | he | he
    · exact band_cols hk e he
    · exact apexBwd_cols (by simp) e he
    · exact fanFwd_cols hk e he
  · have h := coneApex_closed (R := m + 1) (S := secs) (by omega) hk
    unfold coneApexEdges at h
    rw [Nat.add_sub_cancel] at h
    exact closedG_swap_tail h

/-- **Capped cone with `base_radius = 0`, ALL counts.**  (Same predicate as `cone_base_closed`.) -/
theorem cone_base_closed_all (segs secs : Nat) (hs : 1 ≤ segs) (hk : 3 ≤ secs) :
    ClosedOriented (dirEdges (mergedFaces (conePoints segs) secs true coneBaseClosure)) := by
  obtain ⟨m, rfl⟩ : ∃ m, segs = m + 1 := ⟨segs - 1, by omega⟩
  show ClosedOriented (dirEdges (mergedFaces (m + 2) secs true { poleBottom := true }))
  rw [coneBase_bridge hk]
  apply closed_of_enc
  · intro e he
    simp only [List.mem_append] at he
    rcases he with he | he | he
    · exact apexFwd_cols (by simp) e he
    · exact band_cols hk e he
    · exact fanBwd_cols hk e he
  · have h := coneBase_closed (R := m + 1) (S := secs) (by omega) hk
    unfold coneBaseEdges at h
    rw [Nat.add_sub_cancel] at h
    exact closedG_rotate h

end Retro.Props.C15
