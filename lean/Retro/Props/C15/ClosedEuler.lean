/-
C15 — Euler characteristic of the capped lathe for ALL counts, by counting vertices, edges and
faces in closed form.
-/
import Retro.Props.C15.Closed
import Retro.Lemmas.ClosedEuler
import Retro.Lemmas.ClosedCount

namespace Retro.Props.C15
open Retro.Lathe Retro.Surface Retro.Cyl

theorem length_dirEdges (fs : List Surface.Tri) : (dirEdges fs).length = 3 * fs.length := by
  induction fs with
  | nil => rfl
  | cons t ts ih =>
    have : dirEdges (t :: ts) = triEdges t ++ dirEdges ts := by simp [dirEdges]
    rw [this, List.length_append, ih]
    simp [triEdges]; omega

/-- Which indices are used by the merged faces of the capped lathe: exactly ring `j ≤ R`, column `i < secs`. -/
theorem capped_used (R secs k : Nat) (hR : 1 ≤ R) (hs : 3 ≤ secs) :
    (usedMask (mergedFaces (R + 1) secs true {})).testBit k =
      decide (k < (R + 1) * (secs + 1) ∧ k % (secs + 1) < secs) := by
  rw [Bool.eq_iff_iff, usedMask_testBit, capped_bridge hs, decide_eq_true_eq]
  constructor
  · rintro ⟨e, he, rfl⟩
    unfold mapEdges at he
    rw [List.mem_map] at he
    obtain ⟨e0, he0, rfl⟩ := he
    obtain ⟨⟨h1, h2⟩, _⟩ := cylEdges_bounds hs e0 he0
    simp only [enc]
    rw [mod_enc (by omega)]
    refine ⟨?_, h2⟩
    have : (e0.1.1 + 1) * (secs + 1) ≤ (R + 1) * (secs + 1) := Nat.mul_le_mul_right _ (by omega)
    rw [Nat.add_mul, Nat.one_mul] at this
    omega
  · rintro ⟨h1, h2⟩
    have hj : k / (secs + 1) ≤ R := by
      have : k / (secs + 1) < R + 1 := (Nat.div_lt_iff_lt_mul (by omega)).mpr h1
      omega
    obtain ⟨e, he, hsrc⟩ := cyl_source (S := secs) hR hj h2
    refine ⟨(enc secs e.1, enc secs e.2), ?_, ?_⟩
    · unfold mapEdges; rw [List.mem_map]; exact ⟨e, he, rfl⟩
    · simp only [hsrc, enc]
      exact Nat.div_add_mod' k (secs + 1)

/-- **Closed counting formulas, all counts** (`R = n_points − 1 ≥ 1`, `sectors ≥ 3`): the merged
capped lathe has `n_points · sectors` vertices, `2·R·sectors + 2(sectors − 2)` faces and three
directed edges per face. -/
theorem capped_counts_all (np secs : Nat) (hn : 2 ≤ np) (hs : 3 ≤ secs) :
    vertexCount (vertCount np secs true) (mergedFaces np secs true cappedClosure) = np * secs ∧
    (mergedFaces np secs true cappedClosure).length = 2 * ((np - 1) * secs) + 2 * (secs - 2) ∧
    (dirEdges (mergedFaces np secs true cappedClosure)).length =
      3 * (mergedFaces np secs true cappedClosure).length := by
  obtain ⟨R, rfl⟩ : ∃ R, np = R + 1 := ⟨np - 1, by omega⟩
  show vertexCount (vertCount (R + 1) secs true) (mergedFaces (R + 1) secs true {}) = _ ∧
    (mergedFaces (R + 1) secs true {}).length = _ ∧
    (dirEdges (mergedFaces (R + 1) secs true {})).length = 3 * (mergedFaces (R + 1) secs true {}).length
  have h3 := length_dirEdges (mergedFaces (R + 1) secs true {})
  refine ⟨?_, ?_, h3⟩
  · unfold vertexCount
    rw [List.filter_congr (fun k _ => capped_used R secs k (by omega) hs)]
    apply count_grid
    · omega
    · unfold vertCount ringVertCount; omega
  · have hl : (dirEdges (mergedFaces (R + 1) secs true {})).length = (cylEdges R secs).length := by
      rw [capped_bridge hs]; simp [mapEdges]
    rw [h3, length_cylEdges] at hl
    have e1 : R * (secs * 6) = 6 * (R * secs) := by rw [← Nat.mul_assoc, Nat.mul_comm]
    rw [Nat.add_sub_cancel]
    omega

/-- **`euler_closed` — V − E + F = 2 for the capped cylinder / truncated cone, ALL counts**, with
the same `eulerChar` the grid theorems evaluate. -/
theorem euler_closed (np secs : Nat) (hn : 2 ≤ np) (hs : 3 ≤ secs) :
    eulerChar (vertCount np secs true) (mergedFaces np secs true cappedClosure) = 2 := by
  obtain ⟨hv, hf, _⟩ := capped_counts_all np secs hn hs
  unfold eulerChar
  rw [hv, hf]
  obtain ⟨R, rfl⟩ : ∃ R, np = R + 1 := ⟨np - 1, by omega⟩
  rw [Nat.add_sub_cancel]
  have e : (R + 1) * secs = R * secs + secs := by rw [Nat.add_mul, Nat.one_mul]
  rw [e]
  omega

/-- The general theorems give exactly the predicate of the grid theorem `capped_closed`, now for
every `segments ≥ 1` and `sectors ≥ 3`: the `decide +kernel` rows are instances. -/
theorem capped_closed_general (segs secs : Nat) (hs : 1 ≤ segs) (hk : 3 ≤ secs) :
    ClosedOriented (dirEdges (mergedFaces (conePoints segs) secs true cappedClosure)) ∧
      eulerChar (vertCount (conePoints segs) secs true) (mergedFaces (conePoints segs) secs true cappedClosure) = 2 :=
  ⟨capped_closed_all _ _ (by unfold conePoints; omega) hk, euler_closed _ _ (by unfold conePoints; omega) hk⟩

end Retro.Props.C15
