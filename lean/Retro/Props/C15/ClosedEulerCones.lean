/-
C15 — Euler characteristic 2 of the capped cones with one end on the axis, for ALL counts.
-/
import Retro.Props.C15.ClosedEulerMore
import Retro.Props.C15.ClosedCones

namespace Retro.Props.C15
open Retro.Lathe Retro.Surface Retro.Cyl

theorem length_fanFwd (r S : Nat) : (fanFwd r S).length = (S - 2) * 3 := by
  unfold fanFwd
  rw [length_flatMap_const _ _ 3 (fun _ => rfl)]; simp

theorem length_fanBwd (r S : Nat) : (fanBwd r S).length = (S - 2) * 3 := by
  unfold fanBwd
  rw [length_flatMap_const _ _ 3 (fun _ => rfl)]; simp

/-- coordinate edge list of the capped cone with the apex on the axis (`m + 1` rows of quads) -/
def coneApexList (m S : Nat) : List (V × V) :=
  bandEdges 0 m S ++ (apexBwd (m + 1, 0) m S ++ fanFwd 0 S)

def coneApexWidth (m S : Nat) (j : Nat) : Nat := if j = m + 1 then 1 else S

theorem fanFwd_bounds {r S : Nat} {e : V × V} (he : e ∈ fanFwd r S) :
    (e.1.1 = r ∧ e.1.2 < S) ∧ (e.2.1 = r ∧ e.2.2 < S) := by
  obtain ⟨k, hk, h | h | h⟩ := mem_fanFwd.mp he <;> subst h <;> simp <;> omega

theorem coneApex_sources {m S j i : Nat} (hS : 3 ≤ S) :
    (∃ e ∈ coneApexList m S, e.1 = (j, i)) ↔ (j < m + 2 ∧ i < coneApexWidth m S j) := by
  unfold coneApexList coneApexWidth
  constructor
  · rintro ⟨e, he, hsrc⟩
    simp only [List.mem_append] at he
    rcases he with he | he | he
    · have hr := band_rows he
      have hc := band_bounds hS he
      rw [hsrc] at hr hc
      simp only at hr hc
      have : ¬ (j = m + 1) := by omega
      simp only [this, if_false]
      omega
    · obtain ⟨k, hk, h | h | h⟩ := mem_apexFwd.mp (mem_apexBwd.mp he) <;>
        simp only [Prod.mk.injEq] at h <;> obtain ⟨h1, h2⟩ := h <;>
        rw [hsrc] at h2 <;> simp only [Prod.mk.injEq] at h2 <;> obtain ⟨rfl, rfl⟩ := h2
      · simp; omega
      · have := sm_lt (S := S) hk; simp; omega
      · simp
    · have := fanFwd_bounds he
      rw [hsrc] at this
      simp only at this
      have h0 : ¬ (j = m + 1) := by omega
      simp only [h0, if_false]
      omega
  · rintro ⟨hj, hi⟩
    by_cases hT : j = m + 1
    · subst hT
      simp only [if_true] at hi
      have : i = 0 := by omega
      subst this
      refine ⟨((m + 1, 0), (m, sm S 0)), List.mem_append_right _ (List.mem_append_left _ ?_), rfl⟩
      exact mem_apexBwd.mpr (mem_apexFwd.mpr ⟨0, by omega, Or.inr (Or.inr rfl)⟩)
    · simp only [hT, if_false] at hi
      by_cases hm : j = m
      · subst hm
        refine ⟨((j, i), (j + 1, 0)), List.mem_append_right _ (List.mem_append_left _ ?_), rfl⟩
        exact mem_apexBwd.mpr (mem_apexFwd.mpr ⟨i, hi, Or.inl rfl⟩)
      · refine ⟨((j, i), (j + 1, sm S i)), List.mem_append_left _ ?_, rfl⟩
        rw [band_zero]
        exact quad_mem_side (j := j) (by omega) hi (by simp [quadEdges])

end Retro.Props.C15

namespace Retro.Props.C15
open Retro.Lathe Retro.Surface Retro.Cyl

/-- **Capped cone with apex on the axis: V = segments·sectors + 1, V − E + F = 2, ALL counts.** -/
theorem cone_apex_euler_all (segs secs : Nat) (hs : 1 ≤ segs) (hk : 3 ≤ secs) :
    vertexCount (vertCount (conePoints segs) secs true) (mergedFaces (conePoints segs) secs true coneApexClosure)
      = segs * secs + 1 ∧
    eulerChar (vertCount (conePoints segs) secs true) (mergedFaces (conePoints segs) secs true coneApexClosure) = 2 := by
  obtain ⟨m, rfl⟩ : ∃ m, segs = m + 1 := ⟨segs - 1, by omega⟩
  have hE : dirEdges (mergedFaces (m + 2) secs true { poleTop := true }) =
      mapEdges (enc secs) (coneApexList m secs) := coneApex_bridge hk
  have hcols : ∀ e ∈ coneApexList m secs, e.1.2 < secs + 1 ∧ e.2.2 < secs + 1 := by
    intro e he
    unfold coneApexList at he
    simp only [List.mem_append] at he
    rcases he with he | he | he
    · exact band_cols hk e he
    · exact apexBwd_cols (by simp) e he
    · exact fanFwd_cols hk e he
  have hv : vertexCount (vertCount (m + 2) secs true) (mergedFaces (m + 2) secs true { poleTop := true })
      = (m + 1) * secs + 1 := by
    rw [vertexCount_rows _ _ secs (m + 2) _ (coneApexWidth m secs) hE hcols
      (fun j i _ => coneApex_sources hk)
      (fun j _ => by unfold coneApexWidth; split <;> omega)
      (by unfold vertCount ringVertCount; omega)]
    rw [rowSum, rowSum_const secs _ (m + 1) (fun j hj => by
      unfold coneApexWidth; rw [if_neg (by omega)])]
    simp [coneApexWidth]
  have hf : (mergedFaces (m + 2) secs true { poleTop := true }).length =
      2 * (m * secs + secs - 1) := by
    have h3 := length_dirEdges (mergedFaces (m + 2) secs true { poleTop := true })
    rw [hE] at h3
    simp only [mapEdges, List.length_map, coneApexList, List.length_append, length_bandEdges,
      length_apexBwd, length_fanFwd] at h3
    have e1 : m * (secs * 6) = 6 * (m * secs) := by rw [← Nat.mul_assoc, Nat.mul_comm]
    omega
  refine ⟨hv, ?_⟩
  show eulerChar (vertCount (m + 2) secs true) (mergedFaces (m + 2) secs true { poleTop := true }) = 2
  unfold eulerChar
  rw [hv, hf]
  have e2 : (m + 1) * secs = m * secs + secs := by rw [Nat.add_mul, Nat.one_mul]
  rw [e2]
  omega

/-- The predicate of the grid theorem `cone_apex_closed`, for every `segments ≥ 1`, `sectors ≥ 3`. -/
theorem cone_apex_closed_general (segs secs : Nat) (hs : 1 ≤ segs) (hk : 3 ≤ secs) :
    ClosedOriented (dirEdges (mergedFaces (conePoints segs) secs true coneApexClosure)) ∧
      eulerChar (vertCount (conePoints segs) secs true) (mergedFaces (conePoints segs) secs true coneApexClosure) = 2 :=
  ⟨cone_apex_closed_all segs secs hs hk, (cone_apex_euler_all segs secs hs hk).2⟩

end Retro.Props.C15

namespace Retro.Props.C15
open Retro.Lathe Retro.Surface Retro.Cyl

def coneBaseList (m S : Nat) : List (V × V) :=
  apexFwd (0, 0) 1 S ++ (bandEdges 1 m S ++ fanBwd (m + 1) S)

def coneBaseWidth (S : Nat) (j : Nat) : Nat := if j = 0 then 1 else S

theorem coneBase_sources {m S j i : Nat} (hS : 3 ≤ S) :
    (∃ e ∈ coneBaseList m S, e.1 = (j, i)) ↔ (j < m + 2 ∧ i < coneBaseWidth S j) := by
  unfold coneBaseList coneBaseWidth
  constructor
  · rintro ⟨e, he, hsrc⟩
    simp only [List.mem_append] at he
    rcases he with he | he | he
    · obtain ⟨k, hk, h | h | h⟩ := mem_apexFwd.mp he <;> subst h <;>
        simp only [Prod.mk.injEq] at hsrc <;> obtain ⟨rfl, rfl⟩ := hsrc
      · simp
      · simp; omega
      · have := sm_lt (S := S) hk; simp; omega
    · have hr := band_rows he
      have hc := band_bounds hS he
      rw [hsrc] at hr hc
      simp only at hr hc
      have : ¬ (j = 0) := by omega
      simp only [this, if_false]
      omega
    · have := fanFwd_bounds (mem_fanBwd.mp he)
      rw [hsrc] at this
      simp only at this
      have h0 : ¬ (j = 0) := by omega
      simp only [h0, if_false]
      omega
  · rintro ⟨hj, hi⟩
    by_cases h0 : j = 0
    · subst h0
      simp only [if_true] at hi
      have : i = 0 := by omega
      subst this
      exact ⟨((0, 0), (1, 0)), List.mem_append_left _ (mem_apexFwd.mpr ⟨0, by omega, Or.inl rfl⟩), rfl⟩
    · simp only [h0, if_false] at hi
      by_cases h1 : j = 1
      · subst h1
        exact ⟨((1, i), (1, sm S i)),
          List.mem_append_left _ (mem_apexFwd.mpr ⟨i, hi, Or.inr (Or.inl rfl)⟩), rfl⟩
      · -- ring j ≥ 2 is the upper ring of band row j−1: edge c→d starts at (j, i)
        refine ⟨((j, i), (j, sm S i)), List.mem_append_right _ (List.mem_append_left _ ?_), rfl⟩
        refine mem_band.mpr ⟨((j - 1, i), (j - 1, sm S i)), quad_mem_side (j := j - 2) (by omega) hi ?_, ?_⟩
        · have : j - 2 + 1 = j - 1 := by omega
          simp [quadEdges, this]
        · have : j - 1 + 1 = j := by omega
          simp [shift, this]

theorem rowSum_head (S : Nat) (w : Nat → Nat) (h0 : w 0 = 1) :
    ∀ k, (∀ j, 1 ≤ j → j ≤ k → w j = S) → rowSum w (k + 1) = 1 + k * S := by
  intro k
  induction k with
  | zero => intro _; simp [rowSum, h0]
  | succ k ih =>
    intro h
    rw [rowSum, ih (fun j h1 h2 => h j h1 (by omega)), h (k + 1) (by omega) (by omega), Nat.add_mul,
      Nat.one_mul]
    omega

end Retro.Props.C15

namespace Retro.Props.C15
open Retro.Lathe Retro.Surface Retro.Cyl

/-- **Capped cone with base on the axis: V = segments·sectors + 1, V − E + F = 2, ALL counts.** -/
theorem cone_base_euler_all (segs secs : Nat) (hs : 1 ≤ segs) (hk : 3 ≤ secs) :
    vertexCount (vertCount (conePoints segs) secs true) (mergedFaces (conePoints segs) secs true coneBaseClosure)
      = segs * secs + 1 ∧
    eulerChar (vertCount (conePoints segs) secs true) (mergedFaces (conePoints segs) secs true coneBaseClosure) = 2 := by
  obtain ⟨m, rfl⟩ : ∃ m, segs = m + 1 := ⟨segs - 1, by omega⟩
  have hE : dirEdges (mergedFaces (m + 2) secs true { poleBottom := true }) =
      mapEdges (enc secs) (coneBaseList m secs) := coneBase_bridge hk
  have hcols : ∀ e ∈ coneBaseList m secs, e.1.2 < secs + 1 ∧ e.2.2 < secs + 1 := by
    intro e he
    unfold coneBaseList at he
    simp only [List.mem_append] at he
    rcases he with he | he | he
    · exact apexFwd_cols (by simp) e he
    · exact band_cols hk e he
    · exact fanBwd_cols hk e he
  have hv : vertexCount (vertCount (m + 2) secs true) (mergedFaces (m + 2) secs true { poleBottom := true })
      = (m + 1) * secs + 1 := by
    rw [vertexCount_rows _ _ secs (m + 2) _ (coneBaseWidth secs) hE hcols
      (fun j i _ => coneBase_sources hk)
      (fun j _ => by unfold coneBaseWidth; split <;> omega)
      (by unfold vertCount ringVertCount; omega)]
    rw [rowSum_head secs _ (by simp [coneBaseWidth]) (m + 1) (fun j h1 _ => by
      unfold coneBaseWidth; rw [if_neg (by omega)])]
    omega
  have hf : (mergedFaces (m + 2) secs true { poleBottom := true }).length =
      2 * (m * secs + secs - 1) := by
    have h3 := length_dirEdges (mergedFaces (m + 2) secs true { poleBottom := true })
    rw [hE] at h3
    simp only [mapEdges, List.length_map, coneBaseList, List.length_append, length_bandEdges,
      length_apexFwd, length_fanBwd] at h3
    have e1 : m * (secs * 6) = 6 * (m * secs) := by rw [← Nat.mul_assoc, Nat.mul_comm]
    omega
  refine ⟨hv, ?_⟩
  show eulerChar (vertCount (m + 2) secs true) (mergedFaces (m + 2) secs true { poleBottom := true }) = 2
  unfold eulerChar
  rw [hv, hf]
  have e2 : (m + 1) * secs = m * secs + secs := by rw [Nat.add_mul, Nat.one_mul]
  rw [e2]
  omega

/-- The predicate of the grid theorem `cone_base_closed`, for every `segments ≥ 1`, `sectors ≥ 3`. -/
theorem cone_base_closed_general (segs secs : Nat) (hs : 1 ≤ segs) (hk : 3 ≤ secs) :
    ClosedOriented (dirEdges (mergedFaces (conePoints segs) secs true coneBaseClosure)) ∧
      eulerChar (vertCount (conePoints segs) secs true) (mergedFaces (conePoints segs) secs true coneBaseClosure) = 2 :=
  ⟨cone_base_closed_all segs secs hs hk, (cone_base_euler_all segs secs hs hk).2⟩

end Retro.Props.C15
