/-
C15 — Euler characteristic for ALL counts of the torus (0) and of the lathe closed by two poles
(sphere, capsule: 2), by counting vertices, edges and faces in closed form.
-/
import Retro.Props.C15.ClosedEuler
import Retro.Props.C15.ClosedTorus
import Retro.Props.C15.ClosedPoles
import Retro.Lemmas.ClosedEulerBridge

namespace Retro.Props.C15
open Retro.Lathe Retro.Surface Retro.Cyl

theorem length_torusEdges (R S : Nat) : (torusEdges R S).length = R * (S * 6) := by
  unfold torusEdges trowEdges
  rw [length_flatMap_const _ _ (S * 6)]
  · simp
  · intro j
    rw [length_flatMap_const _ _ 6]
    · simp
    · intro _; rfl

theorem torus_sources {R S j i : Nat} :
    (∃ e ∈ torusEdges R S, e.1 = (j, i)) ↔ (j < R ∧ i < S) := by
  constructor
  · rintro ⟨e, he, hsrc⟩
    obtain ⟨j', hj', i', hi', hq⟩ := mem_torusEdges.mp he
    have := sm_lt (S := S) hi'
    have := sm_lt (S := R) hj'
    simp only [tquadEdges, List.mem_cons, List.mem_nil_iff, or_false] at hq
    rcases hq with rfl | rfl | rfl | rfl | rfl | rfl <;> simp only [Prod.mk.injEq] at hsrc <;> omega
  · rintro ⟨hj, hi⟩
    exact ⟨((j, i), (sm R j, sm S i)), tquad_mem hj hi (by simp [tquadEdges]), rfl⟩

/-- **Torus: V = minor·major, F = 2·minor·major, V − E + F = 0, ALL counts.** -/
theorem torus_euler_all (minor secs : Nat) (hm : 3 ≤ minor) (hk : 3 ≤ secs) :
    vertexCount (vertCount (torusPoints minor) secs false) (mergedFaces (torusPoints minor) secs false torusClosure)
      = minor * secs ∧
    (mergedFaces (torusPoints minor) secs false torusClosure).length = 2 * (minor * secs) ∧
    eulerChar (vertCount (torusPoints minor) secs false) (mergedFaces (torusPoints minor) secs false torusClosure) = 0 := by
  have hE : dirEdges (mergedFaces (minor + 1) secs false { wrap := true }) =
      mapEdges (enc secs) (torusEdges minor secs) := torus_bridge (by omega) (by omega)
  have hv : vertexCount (vertCount (minor + 1) secs false) (mergedFaces (minor + 1) secs false { wrap := true })
      = minor * secs := by
    rw [vertexCount_rows _ _ secs minor _ (fun _ => secs) hE torus_cols
      (fun j i _ => torus_sources) (fun _ _ => by omega)
      (by unfold vertCount ringVertCount hasCaps; simp; rw [Nat.add_mul]; omega)]
    exact rowSum_const secs _ minor (fun _ _ => rfl)
  have hf : (mergedFaces (minor + 1) secs false { wrap := true }).length = 2 * (minor * secs) := by
    have h3 := length_dirEdges (mergedFaces (minor + 1) secs false { wrap := true })
    rw [hE] at h3
    simp only [mapEdges, List.length_map, length_torusEdges] at h3
    have e1 : minor * (secs * 6) = 6 * (minor * secs) := by rw [← Nat.mul_assoc, Nat.mul_comm]
    omega
  refine ⟨hv, hf, ?_⟩
  show eulerChar (vertCount (minor + 1) secs false) (mergedFaces (minor + 1) secs false { wrap := true }) = 0
  unfold eulerChar
  rw [hv, hf]
  omega

end Retro.Props.C15

namespace Retro.Props.C15
open Retro.Lathe Retro.Surface Retro.Cyl

/-- coordinate edge list of the lathe closed by two poles (`m + 2` rows of quads) -/
def polesList (m S : Nat) : List (V × V) :=
  apexFwd (0, 0) 1 S ++ (bandEdges 1 m S ++ apexBwd (m + 2, 0) (m + 1) S)

/-- row widths: one vertex in each pole row, `S` in every other ring -/
def polesWidth (m S : Nat) (j : Nat) : Nat := if j = 0 ∨ j = m + 2 then 1 else S

theorem band_bounds {lo cnt S : Nat} (hS : 3 ≤ S) {e : V × V} (he : e ∈ bandEdges lo cnt S) :
    e.1.2 < S ∧ e.2.2 < S := by
  obtain ⟨e0, he0, rfl⟩ := mem_band.mp he
  have := cylEdges_bounds (R := cnt) hS e0 (by unfold cylEdges; exact List.mem_append_left _ he0)
  simp only [shift]
  omega

theorem poles_sources {m S j i : Nat} (hS : 3 ≤ S) :
    (∃ e ∈ polesList m S, e.1 = (j, i)) ↔ (j < m + 3 ∧ i < polesWidth m S j) := by
  unfold polesList polesWidth
  constructor
  · rintro ⟨e, he, hsrc⟩
    simp only [List.mem_append] at he
    rcases he with he | he | he
    · obtain ⟨k, hk, h | h | h⟩ := mem_apexFwd.mp he <;> subst h <;>
        simp only [Prod.mk.injEq] at hsrc <;> obtain ⟨rfl, rfl⟩ := hsrc
      · simp
      · simp; omega
      · have := sm_lt (S := S) hk; simp; omega
    · have hr := band_rows he
      have hc := band_bounds hS he
      rw [hsrc] at hr hc
      simp only at hr hc
      have : ¬ (j = 0 ∨ j = m + 2) := by omega
      simp only [this, if_false]
      omega
    · obtain ⟨k, hk, h | h | h⟩ := mem_apexFwd.mp (mem_apexBwd.mp he) <;>
        simp only [Prod.mk.injEq] at h <;> obtain ⟨h1, h2⟩ := h
      · rw [hsrc] at h2; simp only [Prod.mk.injEq] at h2; obtain ⟨rfl, rfl⟩ := h2
        have : ¬ (m + 1 = 0 ∨ m + 1 = m + 2) := by omega
        simp [this]; omega
      · rw [hsrc] at h2; simp only [Prod.mk.injEq] at h2; obtain ⟨rfl, rfl⟩ := h2
        have := sm_lt (S := S) hk
        have : ¬ (m + 1 = 0 ∨ m + 1 = m + 2) := by omega
        simp [this]; omega
      · rw [hsrc] at h2; simp only [Prod.mk.injEq] at h2; obtain ⟨rfl, rfl⟩ := h2
        simp
  · rintro ⟨hj, hi⟩
    by_cases h0 : j = 0
    · subst h0
      simp only [true_or, if_true] at hi
      have : i = 0 := by omega
      subst this
      exact ⟨((0, 0), (1, 0)), List.mem_append_left _ (mem_apexFwd.mpr ⟨0, by omega, Or.inl rfl⟩), rfl⟩
    · by_cases hT : j = m + 2
      · subst hT
        simp only [or_true, if_true] at hi
        have : i = 0 := by omega
        subst this
        refine ⟨((m + 2, 0), (m + 1, sm S 0)), List.mem_append_right _ (List.mem_append_right _ ?_), rfl⟩
        exact mem_apexBwd.mpr (mem_apexFwd.mpr ⟨0, by omega, Or.inr (Or.inr rfl)⟩)
      · have : ¬ (j = 0 ∨ j = m + 2) := by omega
        simp only [this, if_false] at hi
        by_cases hm : j = m + 1
        · subst hm
          refine ⟨((m + 1, i), (m + 2, 0)), List.mem_append_right _ (List.mem_append_right _ ?_), rfl⟩
          exact mem_apexBwd.mpr (mem_apexFwd.mpr ⟨i, hi, Or.inl rfl⟩)
        · refine ⟨((j, i), (j + 1, sm S i)), List.mem_append_right _ (List.mem_append_left _ ?_), rfl⟩
          refine mem_band.mpr ⟨((j - 1, i), (j, sm S i)), quad_mem_side (j := j - 1) (by omega) hi ?_, ?_⟩
          · have : j - 1 + 1 = j := by omega
            simp [quadEdges, this]
          · have : j - 1 + 1 = j := by omega
            simp [shift, this]

end Retro.Props.C15

namespace Retro.Props.C15
open Retro.Lathe Retro.Surface Retro.Cyl

theorem polesWidth_sum (m S : Nat) : ∀ k, k ≤ m + 1 → rowSum (polesWidth m S) (k + 1) = 1 + k * S := by
  intro k
  induction k with
  | zero => intro _; simp [rowSum, polesWidth]
  | succ k ih =>
    intro hk
    rw [rowSum, ih (by omega)]
    have : ¬ (k + 1 = 0 ∨ k + 1 = m + 2) := by omega
    simp only [polesWidth, this, if_false, Nat.add_mul, Nat.one_mul]
    omega

theorem length_apexFwd (P : V) (r S : Nat) : (apexFwd P r S).length = S * 3 := by
  unfold apexFwd
  rw [length_flatMap_const _ _ 3 (fun _ => rfl)]; simp

theorem length_apexBwd (P : V) (r S : Nat) : (apexBwd P r S).length = S * 3 := by
  unfold apexBwd
  rw [length_flatMap_const _ _ 3 (fun _ => rfl)]; simp

theorem length_sideEdges' (R S : Nat) : (sideEdges R S).length = R * (S * 6) := by
  unfold sideEdges rowEdges
  rw [length_flatMap_const _ _ (S * 6)]
  · simp
  · intro j
    rw [length_flatMap_const _ _ 6 (fun _ => rfl)]; simp

theorem length_bandEdges (lo cnt S : Nat) : (bandEdges lo cnt S).length = cnt * (S * 6) := by
  unfold bandEdges mapEdges
  rw [List.length_map, length_sideEdges']

theorem length_polesList (m S : Nat) : (polesList m S).length = S * 3 + (m * (S * 6) + S * 3) := by
  unfold polesList
  rw [List.length_append, List.length_append, length_apexFwd, length_apexBwd, length_bandEdges]

/-- **Lathe closed by two poles (sphere, capsule): V = (n_points − 2)·sectors + 2,
F = 2(n_points − 2)·sectors, V − E + F = 2, ALL counts** (`n_points ≥ 3`, `sectors ≥ 3`). -/
theorem poles_euler_all (np secs : Nat) (hn : 3 ≤ np) (hs : 3 ≤ secs) :
    vertexCount (vertCount np secs false) (mergedFaces np secs false sphereClosure) = (np - 2) * secs + 2 ∧
    (mergedFaces np secs false sphereClosure).length = 2 * ((np - 2) * secs) ∧
    eulerChar (vertCount np secs false) (mergedFaces np secs false sphereClosure) = 2 := by
  obtain ⟨m, rfl⟩ : ∃ m, np = m + 3 := ⟨np - 3, by omega⟩
  have hE : dirEdges (mergedFaces (m + 3) secs false { poleBottom := true, poleTop := true }) =
      mapEdges (enc secs) (polesList m secs) := sphere_bridge hs
  have hcols : ∀ e ∈ polesList m secs, e.1.2 < secs + 1 ∧ e.2.2 < secs + 1 := by
    intro e he
    unfold polesList at he
    simp only [List.mem_append] at he
    rcases he with he | he | he
    · exact apexFwd_cols (by simp) e he
    · exact band_cols hs e he
    · exact apexBwd_cols (by simp) e he
  have hv : vertexCount (vertCount (m + 3) secs false)
      (mergedFaces (m + 3) secs false { poleBottom := true, poleTop := true }) = (m + 1) * secs + 2 := by
    rw [vertexCount_rows _ _ secs (m + 3) _ (polesWidth m secs) hE hcols
      (fun j i _ => poles_sources hs)
      (fun j _ => by unfold polesWidth; split <;> omega)
      (by unfold vertCount ringVertCount hasCaps; simp)]
    rw [rowSum, polesWidth_sum m secs (m + 1) (by omega)]
    simp [polesWidth]; omega
  have hf : (mergedFaces (m + 3) secs false { poleBottom := true, poleTop := true }).length =
      2 * ((m + 1) * secs) := by
    have h3 := length_dirEdges (mergedFaces (m + 3) secs false { poleBottom := true, poleTop := true })
    rw [hE] at h3
    simp only [mapEdges, List.length_map, length_polesList] at h3
    have e1 : m * (secs * 6) = 6 * (m * secs) := by rw [← Nat.mul_assoc, Nat.mul_comm]
    have e2 : (m + 1) * secs = m * secs + secs := by rw [Nat.add_mul, Nat.one_mul]
    omega
  show vertexCount (vertCount (m + 3) secs false) (mergedFaces (m + 3) secs false { poleBottom := true, poleTop := true })
      = (m + 3 - 2) * secs + 2 ∧
    (mergedFaces (m + 3) secs false { poleBottom := true, poleTop := true }).length = 2 * ((m + 3 - 2) * secs) ∧
    eulerChar (vertCount (m + 3) secs false) (mergedFaces (m + 3) secs false { poleBottom := true, poleTop := true }) = 2
  rw [show m + 3 - 2 = m + 1 by omega]
  refine ⟨hv, hf, ?_⟩
  unfold eulerChar
  rw [hv, hf]
  omega

end Retro.Props.C15

namespace Retro.Props.C15
open Retro.Lathe Retro.Surface Retro.Cyl

/-- The predicate of the grid theorem `sphere_closed`, for every `segments ≥ 2`, `sectors ≥ 3`. -/
theorem sphere_closed_general (segs secs : Nat) (hs : 2 ≤ segs) (hk : 3 ≤ secs) :
    ClosedOriented (dirEdges (mergedFaces (spherePoints segs) secs false sphereClosure)) ∧
      eulerChar (vertCount (spherePoints segs) secs false) (mergedFaces (spherePoints segs) secs false sphereClosure) = 2 :=
  ⟨sphere_closed_all segs secs hs hk, (poles_euler_all _ _ (by unfold spherePoints; omega) hk).2.2⟩

/-- The predicate of the grid theorem `capsule_closed`, for every `body, cap ≥ 1`, `sectors ≥ 3`. -/
theorem capsule_closed_general (body cap secs : Nat) (hb : 1 ≤ body) (hc : 1 ≤ cap) (hk : 3 ≤ secs) :
    ClosedOriented (dirEdges (mergedFaces (capsulePoints body cap) secs false sphereClosure)) ∧
      eulerChar (vertCount (capsulePoints body cap) secs false)
        (mergedFaces (capsulePoints body cap) secs false sphereClosure) = 2 :=
  ⟨capsule_closed_all body cap secs hb hc hk, (poles_euler_all _ _ (by unfold capsulePoints; omega) hk).2.2⟩

/-- The predicate of the grid theorem `torus_closed`, for every `minor ≥ 3`, `major ≥ 3`. -/
theorem torus_closed_general (minor secs : Nat) (hm : 3 ≤ minor) (hk : 3 ≤ secs) :
    ClosedOriented (dirEdges (mergedFaces (torusPoints minor) secs false torusClosure)) ∧
      eulerChar (vertCount (torusPoints minor) secs false) (mergedFaces (torusPoints minor) secs false torusClosure) = 0 :=
  ⟨torus_closed_all minor secs hm hk, (torus_euler_all minor secs hm hk).2.2⟩

end Retro.Props.C15
