/-
C15 — closedness of the lathe model with poles for ALL counts: sphere and capsule (profile starts
and ends on the axis).
-/
import Retro.Lemmas.ClosedBridgePole
import Retro.Lemmas.LatheGrid

namespace Retro.Props.C15
open Retro.Lathe Retro.Surface Retro.Cyl

/-- **Lathe closed by two poles, ALL counts**: for every `n_points ≥ 3` and every `sectors ≥ 3`
the uncapped lathe whose first and last profile points lie on the axis is, after `ident` (seam and
both pole rings merged) and with the degenerate pole triangles dropped, closed and consistently
wound.  (Same predicate as the grid theorems `sphere_closed`, `capsule_closed`.) -/
theorem poles_closed_all (np secs : Nat) (hn : 3 ≤ np) (hs : 3 ≤ secs) :
    ClosedOriented (dirEdges (mergedFaces np secs false sphereClosure)) := by
  obtain ⟨m, rfl⟩ : ∃ m, np = m + 3 := ⟨np - 3, by omega⟩
  show ClosedOriented (dirEdges (mergedFaces (m + 3) secs false { poleBottom := true, poleTop := true }))
  rw [sphere_bridge hs]
  apply closed_of_enc
  · intro e he
    simp only [List.mem_append] at he
    rcases he with he | he | he
    · exact apexFwd_cols (by simp) e he
    · exact band_cols hs e he
    · exact apexBwd_cols (by simp) e he
  · have h := sphere_closed (R := m + 2) (S := secs) (by omega) hs
    unfold sphereEdges at h
    rw [show m + 2 - 2 = m by omega, show m + 2 - 1 = m + 1 by omega] at h
    exact closedG_rotate h

/-- Sphere { sectors, segments }: every `segments ≥ 2`, `sectors ≥ 3`. -/
theorem sphere_closed_all (segs secs : Nat) (hs : 2 ≤ segs) (hk : 3 ≤ secs) :
    ClosedOriented (dirEdges (mergedFaces (spherePoints segs) secs false sphereClosure)) :=
  poles_closed_all _ _ (by unfold spherePoints; omega) hk

/-- Capsule { sectors, body_segments, cap_segments }: every `body, cap ≥ 1`, `sectors ≥ 3`. -/
theorem capsule_closed_all (body cap secs : Nat) (_hb : 1 ≤ body) (hc : 1 ≤ cap) (hk : 3 ≤ secs) :
    ClosedOriented (dirEdges (mergedFaces (capsulePoints body cap) secs false sphereClosure)) :=
  poles_closed_all _ _ (by unfold capsulePoints; omega) hk

end Retro.Props.C15
