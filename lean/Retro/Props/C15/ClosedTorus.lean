/-
C15 — closedness of the torus (lathe with the wrap closure) for ALL counts.
-/
import Retro.Lemmas.ClosedBridgeTorus
import Retro.Lemmas.LatheGrid

namespace Retro.Props.C15
open Retro.Lathe Retro.Surface Retro.Cyl

/-- **Torus { major_sectors = secs, minor_sectors = minor }, ALL counts** (`minor ≥ 3`,
`major ≥ 3`): with the seam column merged with column 0 and the last profile ring with the first,
every directed edge occurs once and so does its reverse – a closed, consistently wound surface
without boundary.  (Same predicate as the grid theorem `torus_closed`.) -/
theorem torus_closed_all (minor secs : Nat) (hm : 3 ≤ minor) (hk : 3 ≤ secs) :
    ClosedOriented (dirEdges (mergedFaces (torusPoints minor) secs false torusClosure)) := by
  show ClosedOriented (dirEdges (mergedFaces (minor + 1) secs false { wrap := true }))
  rw [torus_bridge (by omega) (by omega)]
  exact closed_of_enc torus_cols (torus_closed hm hk)

end Retro.Props.C15
