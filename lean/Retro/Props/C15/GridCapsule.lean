/-
C15 — kernel-checked closedness certificates of the lathe model over a parameter grid
(generated text; one `decide +kernel` per sector count keeps every call short).
Capsule: closed by two poles; body 1..3 x cap 1..4 x sectors 3..12.
-/
import Retro.Lemmas.LatheGrid

namespace Retro.Props.C15
open Retro.Lathe Retro.Surface

set_option maxRecDepth 100000

theorem capsule_b1_row_3 : gridRow (capsulePoints 1) 1 4 3 false sphereClosure 2 = true := by decide +kernel
theorem capsule_b1_row_4 : gridRow (capsulePoints 1) 1 4 4 false sphereClosure 2 = true := by decide +kernel
theorem capsule_b1_row_5 : gridRow (capsulePoints 1) 1 4 5 false sphereClosure 2 = true := by decide +kernel
theorem capsule_b1_row_6 : gridRow (capsulePoints 1) 1 4 6 false sphereClosure 2 = true := by decide +kernel
theorem capsule_b1_row_7 : gridRow (capsulePoints 1) 1 4 7 false sphereClosure 2 = true := by decide +kernel
theorem capsule_b1_row_8 : gridRow (capsulePoints 1) 1 4 8 false sphereClosure 2 = true := by decide +kernel
theorem capsule_b1_row_9 : gridRow (capsulePoints 1) 1 4 9 false sphereClosure 2 = true := by decide +kernel
theorem capsule_b1_row_10 : gridRow (capsulePoints 1) 1 4 10 false sphereClosure 2 = true := by decide +kernel
theorem capsule_b1_row_11 : gridRow (capsulePoints 1) 1 4 11 false sphereClosure 2 = true := by decide +kernel
theorem capsule_b1_row_12 : gridRow (capsulePoints 1) 1 4 12 false sphereClosure 2 = true := by decide +kernel
theorem capsule_b2_row_3 : gridRow (capsulePoints 2) 1 4 3 false sphereClosure 2 = true := by decide +kernel
theorem capsule_b2_row_4 : gridRow (capsulePoints 2) 1 4 4 false sphereClosure 2 = true := by decide +kernel
theorem capsule_b2_row_5 : gridRow (capsulePoints 2) 1 4 5 false sphereClosure 2 = true := by decide +kernel
theorem capsule_b2_row_6 : gridRow (capsulePoints 2) 1 4 6 false sphereClosure 2 = true := by decide +kernel
theorem capsule_b2_row_7 : gridRow (capsulePoints 2) 1 4 7 false sphereClosure 2 = true := by decide +kernel
theorem capsule_b2_row_8 : gridRow (capsulePoints 2) 1 4 8 false sphereClosure 2 = true := by decide +kernel
theorem capsule_b2_row_9 : gridRow (capsulePoints 2) 1 4 9 false sphereClosure 2 = true := by decide +kernel
theorem capsule_b2_row_10 : gridRow (capsulePoints 2) 1 4 10 false sphereClosure 2 = true := by decide +kernel
theorem capsule_b2_row_11 : gridRow (capsulePoints 2) 1 4 11 false sphereClosure 2 = true := by decide +kernel
theorem capsule_b2_row_12 : gridRow (capsulePoints 2) 1 4 12 false sphereClosure 2 = true := by decide +kernel
theorem capsule_b3_row_3 : gridRow (capsulePoints 3) 1 4 3 false sphereClosure 2 = true := by decide +kernel
theorem capsule_b3_row_4 : gridRow (capsulePoints 3) 1 4 4 false sphereClosure 2 = true := by decide +kernel
theorem capsule_b3_row_5 : gridRow (capsulePoints 3) 1 4 5 false sphereClosure 2 = true := by decide +kernel
theorem capsule_b3_row_6 : gridRow (capsulePoints 3) 1 4 6 false sphereClosure 2 = true := by decide +kernel
theorem capsule_b3_row_7 : gridRow (capsulePoints 3) 1 4 7 false sphereClosure 2 = true := by decide +kernel
theorem capsule_b3_row_8 : gridRow (capsulePoints 3) 1 4 8 false sphereClosure 2 = true := by decide +kernel
theorem capsule_b3_row_9 : gridRow (capsulePoints 3) 1 4 9 false sphereClosure 2 = true := by decide +kernel
theorem capsule_b3_row_10 : gridRow (capsulePoints 3) 1 4 10 false sphereClosure 2 = true := by decide +kernel
theorem capsule_b3_row_11 : gridRow (capsulePoints 3) 1 4 11 false sphereClosure 2 = true := by decide +kernel
theorem capsule_b3_row_12 : gridRow (capsulePoints 3) 1 4 12 false sphereClosure 2 = true := by decide +kernel

/-- Capsule { sectors, body_segments, cap_segments }: closed by two poles; body segments 1..3,
cap segments 1..4, sectors 3..12: closed, consistently wound, V − E + F = 2. -/
theorem capsule_closed (body cap secs : Nat) (hb : 1 ≤ body ∧ body ≤ 3) (hs : 1 ≤ cap ∧ cap ≤ 4) (hk : 3 ≤ secs ∧ secs ≤ 12) :
    ClosedOriented (dirEdges (mergedFaces (capsulePoints body cap) secs false sphereClosure)) ∧
      eulerChar (vertCount (capsulePoints body cap) secs false) (mergedFaces (capsulePoints body cap) secs false sphereClosure) = 2 := by
  apply solidOK_sound
  have hc : secs = 3 ∨ secs = 4 ∨ secs = 5 ∨ secs = 6 ∨ secs = 7 ∨ secs = 8 ∨ secs = 9 ∨ secs = 10 ∨ secs = 11 ∨ secs = 12 := by omega
  have hbb : body = 1 ∨ body = 2 ∨ body = 3 := by omega
  rcases hbb with rfl | rfl | rfl <;> rcases hc with rfl | rfl | rfl | rfl | rfl | rfl | rfl | rfl | rfl | rfl
  · exact gridRow_elim capsule_b1_row_3 cap (by omega) (by omega)
  · exact gridRow_elim capsule_b1_row_4 cap (by omega) (by omega)
  · exact gridRow_elim capsule_b1_row_5 cap (by omega) (by omega)
  · exact gridRow_elim capsule_b1_row_6 cap (by omega) (by omega)
  · exact gridRow_elim capsule_b1_row_7 cap (by omega) (by omega)
  · exact gridRow_elim capsule_b1_row_8 cap (by omega) (by omega)
  · exact gridRow_elim capsule_b1_row_9 cap (by omega) (by omega)
  · exact gridRow_elim capsule_b1_row_10 cap (by omega) (by omega)
  · exact gridRow_elim capsule_b1_row_11 cap (by omega) (by omega)
  · exact gridRow_elim capsule_b1_row_12 cap (by omega) (by omega)
  · exact gridRow_elim capsule_b2_row_3 cap (by omega) (by omega)
  · exact gridRow_elim capsule_b2_row_4 cap (by omega) (by omega)
  · exact gridRow_elim capsule_b2_row_5 cap (by omega) (by omega)
  · exact gridRow_elim capsule_b2_row_6 cap (by omega) (by omega)
  · exact gridRow_elim capsule_b2_row_7 cap (by omega) (by omega)
  · exact gridRow_elim capsule_b2_row_8 cap (by omega) (by omega)
  · exact gridRow_elim capsule_b2_row_9 cap (by omega) (by omega)
  · exact gridRow_elim capsule_b2_row_10 cap (by omega) (by omega)
  · exact gridRow_elim capsule_b2_row_11 cap (by omega) (by omega)
  · exact gridRow_elim capsule_b2_row_12 cap (by omega) (by omega)
  · exact gridRow_elim capsule_b3_row_3 cap (by omega) (by omega)
  · exact gridRow_elim capsule_b3_row_4 cap (by omega) (by omega)
  · exact gridRow_elim capsule_b3_row_5 cap (by omega) (by omega)
  · exact gridRow_elim capsule_b3_row_6 cap (by omega) (by omega)
  · exact gridRow_elim capsule_b3_row_7 cap (by omega) (by omega)
  · exact gridRow_elim capsule_b3_row_8 cap (by omega) (by omega)
  · exact gridRow_elim capsule_b3_row_9 cap (by omega) (by omega)
  · exact gridRow_elim capsule_b3_row_10 cap (by omega) (by omega)
  · exact gridRow_elim capsule_b3_row_11 cap (by omega) (by omega)
  · exact gridRow_elim capsule_b3_row_12 cap (by omega) (by omega)

end Retro.Props.C15
