/-
C15 — kernel-checked closedness certificates of the lathe model over a parameter grid
(generated text; one `decide +kernel` per sector count keeps every call short).
Capped cylinder / cone: closed by the two cap fans; segments 1..12 x sectors 3..12; both radii positive, or apex radius 0, or base radius 0.
-/
import Retro.Lemmas.LatheGrid

namespace Retro.Props.C15
open Retro.Lathe Retro.Surface

set_option maxRecDepth 100000

theorem capped_row_3 : gridRow conePoints 1 12 3 true cappedClosure 2 = true := by decide +kernel
theorem capped_row_4 : gridRow conePoints 1 12 4 true cappedClosure 2 = true := by decide +kernel
theorem capped_row_5 : gridRow conePoints 1 12 5 true cappedClosure 2 = true := by decide +kernel
theorem capped_row_6 : gridRow conePoints 1 12 6 true cappedClosure 2 = true := by decide +kernel
theorem capped_row_7 : gridRow conePoints 1 12 7 true cappedClosure 2 = true := by decide +kernel
theorem capped_row_8 : gridRow conePoints 1 12 8 true cappedClosure 2 = true := by decide +kernel
theorem capped_row_9 : gridRow conePoints 1 12 9 true cappedClosure 2 = true := by decide +kernel
theorem capped_row_10 : gridRow conePoints 1 12 10 true cappedClosure 2 = true := by decide +kernel
theorem capped_row_11 : gridRow conePoints 1 12 11 true cappedClosure 2 = true := by decide +kernel
theorem capped_row_12 : gridRow conePoints 1 12 12 true cappedClosure 2 = true := by decide +kernel

/-- Capped Cylinder / Cone with both radii positive: cap rings merged with the rings they copy, seam merged; closed, consistently wound, V − E + F = 2 (the last fan triangle of each cap is degenerate and dropped). -/
theorem capped_closed (segs secs : Nat) (hs : 1 ≤ segs ∧ segs ≤ 12) (hk : 3 ≤ secs ∧ secs ≤ 12) :
    ClosedOriented (dirEdges (mergedFaces (conePoints segs) secs true cappedClosure)) ∧
      eulerChar (vertCount (conePoints segs) secs true) (mergedFaces (conePoints segs) secs true cappedClosure) = 2 := by
  apply solidOK_sound
  have hc : secs = 3 ∨ secs = 4 ∨ secs = 5 ∨ secs = 6 ∨ secs = 7 ∨ secs = 8 ∨ secs = 9 ∨ secs = 10 ∨ secs = 11 ∨ secs = 12 := by omega
  rcases hc with rfl | rfl | rfl | rfl | rfl | rfl | rfl | rfl | rfl | rfl
  · exact gridRow_elim capped_row_3 segs (by omega) (by omega)
  · exact gridRow_elim capped_row_4 segs (by omega) (by omega)
  · exact gridRow_elim capped_row_5 segs (by omega) (by omega)
  · exact gridRow_elim capped_row_6 segs (by omega) (by omega)
  · exact gridRow_elim capped_row_7 segs (by omega) (by omega)
  · exact gridRow_elim capped_row_8 segs (by omega) (by omega)
  · exact gridRow_elim capped_row_9 segs (by omega) (by omega)
  · exact gridRow_elim capped_row_10 segs (by omega) (by omega)
  · exact gridRow_elim capped_row_11 segs (by omega) (by omega)
  · exact gridRow_elim capped_row_12 segs (by omega) (by omega)

theorem cone_apex_row_3 : gridRow conePoints 1 12 3 true coneApexClosure 2 = true := by decide +kernel
theorem cone_apex_row_4 : gridRow conePoints 1 12 4 true coneApexClosure 2 = true := by decide +kernel
theorem cone_apex_row_5 : gridRow conePoints 1 12 5 true coneApexClosure 2 = true := by decide +kernel
theorem cone_apex_row_6 : gridRow conePoints 1 12 6 true coneApexClosure 2 = true := by decide +kernel
theorem cone_apex_row_7 : gridRow conePoints 1 12 7 true coneApexClosure 2 = true := by decide +kernel
theorem cone_apex_row_8 : gridRow conePoints 1 12 8 true coneApexClosure 2 = true := by decide +kernel
theorem cone_apex_row_9 : gridRow conePoints 1 12 9 true coneApexClosure 2 = true := by decide +kernel
theorem cone_apex_row_10 : gridRow conePoints 1 12 10 true coneApexClosure 2 = true := by decide +kernel
theorem cone_apex_row_11 : gridRow conePoints 1 12 11 true coneApexClosure 2 = true := by decide +kernel
theorem cone_apex_row_12 : gridRow conePoints 1 12 12 true coneApexClosure 2 = true := by decide +kernel

/-- Capped Cone with apex_radius = 0: the top ring and the whole top cap collapse to the apex point. -/
theorem cone_apex_closed (segs secs : Nat) (hs : 1 ≤ segs ∧ segs ≤ 12) (hk : 3 ≤ secs ∧ secs ≤ 12) :
    ClosedOriented (dirEdges (mergedFaces (conePoints segs) secs true coneApexClosure)) ∧
      eulerChar (vertCount (conePoints segs) secs true) (mergedFaces (conePoints segs) secs true coneApexClosure) = 2 := by
  apply solidOK_sound
  have hc : secs = 3 ∨ secs = 4 ∨ secs = 5 ∨ secs = 6 ∨ secs = 7 ∨ secs = 8 ∨ secs = 9 ∨ secs = 10 ∨ secs = 11 ∨ secs = 12 := by omega
  rcases hc with rfl | rfl | rfl | rfl | rfl | rfl | rfl | rfl | rfl | rfl
  · exact gridRow_elim cone_apex_row_3 segs (by omega) (by omega)
  · exact gridRow_elim cone_apex_row_4 segs (by omega) (by omega)
  · exact gridRow_elim cone_apex_row_5 segs (by omega) (by omega)
  · exact gridRow_elim cone_apex_row_6 segs (by omega) (by omega)
  · exact gridRow_elim cone_apex_row_7 segs (by omega) (by omega)
  · exact gridRow_elim cone_apex_row_8 segs (by omega) (by omega)
  · exact gridRow_elim cone_apex_row_9 segs (by omega) (by omega)
  · exact gridRow_elim cone_apex_row_10 segs (by omega) (by omega)
  · exact gridRow_elim cone_apex_row_11 segs (by omega) (by omega)
  · exact gridRow_elim cone_apex_row_12 segs (by omega) (by omega)

theorem cone_base_row_3 : gridRow conePoints 1 12 3 true coneBaseClosure 2 = true := by decide +kernel
theorem cone_base_row_4 : gridRow conePoints 1 12 4 true coneBaseClosure 2 = true := by decide +kernel
theorem cone_base_row_5 : gridRow conePoints 1 12 5 true coneBaseClosure 2 = true := by decide +kernel
theorem cone_base_row_6 : gridRow conePoints 1 12 6 true coneBaseClosure 2 = true := by decide +kernel
theorem cone_base_row_7 : gridRow conePoints 1 12 7 true coneBaseClosure 2 = true := by decide +kernel
theorem cone_base_row_8 : gridRow conePoints 1 12 8 true coneBaseClosure 2 = true := by decide +kernel
theorem cone_base_row_9 : gridRow conePoints 1 12 9 true coneBaseClosure 2 = true := by decide +kernel
theorem cone_base_row_10 : gridRow conePoints 1 12 10 true coneBaseClosure 2 = true := by decide +kernel
theorem cone_base_row_11 : gridRow conePoints 1 12 11 true coneBaseClosure 2 = true := by decide +kernel
theorem cone_base_row_12 : gridRow conePoints 1 12 12 true coneBaseClosure 2 = true := by decide +kernel

/-- Capped Cone with base_radius = 0 (inverted cone). -/
theorem cone_base_closed (segs secs : Nat) (hs : 1 ≤ segs ∧ segs ≤ 12) (hk : 3 ≤ secs ∧ secs ≤ 12) :
    ClosedOriented (dirEdges (mergedFaces (conePoints segs) secs true coneBaseClosure)) ∧
      eulerChar (vertCount (conePoints segs) secs true) (mergedFaces (conePoints segs) secs true coneBaseClosure) = 2 := by
  apply solidOK_sound
  have hc : secs = 3 ∨ secs = 4 ∨ secs = 5 ∨ secs = 6 ∨ secs = 7 ∨ secs = 8 ∨ secs = 9 ∨ secs = 10 ∨ secs = 11 ∨ secs = 12 := by omega
  rcases hc with rfl | rfl | rfl | rfl | rfl | rfl | rfl | rfl | rfl | rfl
  · exact gridRow_elim cone_base_row_3 segs (by omega) (by omega)
  · exact gridRow_elim cone_base_row_4 segs (by omega) (by omega)
  · exact gridRow_elim cone_base_row_5 segs (by omega) (by omega)
  · exact gridRow_elim cone_base_row_6 segs (by omega) (by omega)
  · exact gridRow_elim cone_base_row_7 segs (by omega) (by omega)
  · exact gridRow_elim cone_base_row_8 segs (by omega) (by omega)
  · exact gridRow_elim cone_base_row_9 segs (by omega) (by omega)
  · exact gridRow_elim cone_base_row_10 segs (by omega) (by omega)
  · exact gridRow_elim cone_base_row_11 segs (by omega) (by omega)
  · exact gridRow_elim cone_base_row_12 segs (by omega) (by omega)

end Retro.Props.C15
