/-
C15 — kernel-checked closedness certificates of the lathe model over a parameter grid
(generated text; one `decide +kernel` per sector count keeps every call short).
Sphere: profile closed by two poles; segments 2..12 x sectors 3..12.
-/
import Retro.Lemmas.LatheGrid

namespace Retro.Props.C15
open Retro.Lathe Retro.Surface

set_option maxRecDepth 100000

theorem sphere_row_3 : gridRow spherePoints 2 11 3 false sphereClosure 2 = true := by decide +kernel
theorem sphere_row_4 : gridRow spherePoints 2 11 4 false sphereClosure 2 = true := by decide +kernel
theorem sphere_row_5 : gridRow spherePoints 2 11 5 false sphereClosure 2 = true := by decide +kernel
theorem sphere_row_6 : gridRow spherePoints 2 11 6 false sphereClosure 2 = true := by decide +kernel
theorem sphere_row_7 : gridRow spherePoints 2 11 7 false sphereClosure 2 = true := by decide +kernel
theorem sphere_row_8 : gridRow spherePoints 2 11 8 false sphereClosure 2 = true := by decide +kernel
theorem sphere_row_9 : gridRow spherePoints 2 11 9 false sphereClosure 2 = true := by decide +kernel
theorem sphere_row_10 : gridRow spherePoints 2 11 10 false sphereClosure 2 = true := by decide +kernel
theorem sphere_row_11 : gridRow spherePoints 2 11 11 false sphereClosure 2 = true := by decide +kernel
theorem sphere_row_12 : gridRow spherePoints 2 11 12 false sphereClosure 2 = true := by decide +kernel

/-- Sphere { sectors, segments }: with the seam column and the two pole rings merged and the degenerate pole faces dropped, every directed edge occurs once and so does its reverse, and V − E + F = 2; for every segments in 2..12 and sectors in 3..12. -/
theorem sphere_closed (segs secs : Nat) (hs : 2 ≤ segs ∧ segs ≤ 12) (hk : 3 ≤ secs ∧ secs ≤ 12) :
    ClosedOriented (dirEdges (mergedFaces (spherePoints segs) secs false sphereClosure)) ∧
      eulerChar (vertCount (spherePoints segs) secs false) (mergedFaces (spherePoints segs) secs false sphereClosure) = 2 := by
  apply solidOK_sound
  have hc : secs = 3 ∨ secs = 4 ∨ secs = 5 ∨ secs = 6 ∨ secs = 7 ∨ secs = 8 ∨ secs = 9 ∨ secs = 10 ∨ secs = 11 ∨ secs = 12 := by omega
  rcases hc with rfl | rfl | rfl | rfl | rfl | rfl | rfl | rfl | rfl | rfl
  · exact gridRow_elim sphere_row_3 segs (by omega) (by omega)
  · exact gridRow_elim sphere_row_4 segs (by omega) (by omega)
  · exact gridRow_elim sphere_row_5 segs (by omega) (by omega)
  · exact gridRow_elim sphere_row_6 segs (by omega) (by omega)
  · exact gridRow_elim sphere_row_7 segs (by omega) (by omega)
  · exact gridRow_elim sphere_row_8 segs (by omega) (by omega)
  · exact gridRow_elim sphere_row_9 segs (by omega) (by omega)
  · exact gridRow_elim sphere_row_10 segs (by omega) (by omega)
  · exact gridRow_elim sphere_row_11 segs (by omega) (by omega)
  · exact gridRow_elim sphere_row_12 segs (by omega) (by omega)

end Retro.Props.C15
