/-
C15 — kernel-checked closedness certificates of the lathe model over a parameter grid
(generated text; one `decide +kernel` per sector count keeps every call short).
Torus: profile closed by wrap-around; minor sectors 3..12 x major sectors 3..12.
-/
import Retro.Lemmas.LatheGrid

namespace Retro.Props.C15
open Retro.Lathe Retro.Surface

set_option maxRecDepth 100000

theorem torus_row_3 : gridRow torusPoints 3 10 3 false torusClosure 0 = true := by decide +kernel
theorem torus_row_4 : gridRow torusPoints 3 10 4 false torusClosure 0 = true := by decide +kernel
theorem torus_row_5 : gridRow torusPoints 3 10 5 false torusClosure 0 = true := by decide +kernel
theorem torus_row_6 : gridRow torusPoints 3 10 6 false torusClosure 0 = true := by decide +kernel
theorem torus_row_7 : gridRow torusPoints 3 10 7 false torusClosure 0 = true := by decide +kernel
theorem torus_row_8 : gridRow torusPoints 3 10 8 false torusClosure 0 = true := by decide +kernel
theorem torus_row_9 : gridRow torusPoints 3 10 9 false torusClosure 0 = true := by decide +kernel
theorem torus_row_10 : gridRow torusPoints 3 10 10 false torusClosure 0 = true := by decide +kernel
theorem torus_row_11 : gridRow torusPoints 3 10 11 false torusClosure 0 = true := by decide +kernel
theorem torus_row_12 : gridRow torusPoints 3 10 12 false torusClosure 0 = true := by decide +kernel

/-- Torus { major_sectors = secs, minor_sectors = segs }: seam column merged with column 0 and the last profile ring with the first: closed, consistently wound, V − E + F = 0; minor and major sectors in 3..12. -/
theorem torus_closed (segs secs : Nat) (hs : 3 ≤ segs ∧ segs ≤ 12) (hk : 3 ≤ secs ∧ secs ≤ 12) :
    ClosedOriented (dirEdges (mergedFaces (torusPoints segs) secs false torusClosure)) ∧
      eulerChar (vertCount (torusPoints segs) secs false) (mergedFaces (torusPoints segs) secs false torusClosure) = 0 := by
  apply solidOK_sound
  have hc : secs = 3 ∨ secs = 4 ∨ secs = 5 ∨ secs = 6 ∨ secs = 7 ∨ secs = 8 ∨ secs = 9 ∨ secs = 10 ∨ secs = 11 ∨ secs = 12 := by omega
  rcases hc with rfl | rfl | rfl | rfl | rfl | rfl | rfl | rfl | rfl | rfl
  · exact gridRow_elim torus_row_3 segs (by omega) (by omega)
  · exact gridRow_elim torus_row_4 segs (by omega) (by omega)
  · exact gridRow_elim torus_row_5 segs (by omega) (by omega)
  · exact gridRow_elim torus_row_6 segs (by omega) (by omega)
  · exact gridRow_elim torus_row_7 segs (by omega) (by omega)
  · exact gridRow_elim torus_row_8 segs (by omega) (by omega)
  · exact gridRow_elim torus_row_9 segs (by omega) (by omega)
  · exact gridRow_elim torus_row_10 segs (by omega) (by omega)
  · exact gridRow_elim torus_row_11 segs (by omega) (by omega)
  · exact gridRow_elim torus_row_12 segs (by omega) (by omega)

end Retro.Props.C15
