/-
C16 — colour conversions are mutually inverse, total and in range.
Property theorems only, in sub-modules (all in `namespace Retro.Props.C16`):
  * `Props/C16/Int8.lean`       8-bit HSL <-> RGB in range / total (algebraic), grays, saturating add
  * `Props/C16/RoundTrip8.lean` 8-bit round trip within 8 over all 2^24 colours (enumeration)
  * `Props/C16/Pack.lean`       u32 packing byte order, RGB <-> RGBA, float -> 8-bit clamping
  * `Props/C16/Field.lean`      float conversions over an arbitrary ordered field: in range, grays, hue 1 = hue 0
  * `Props/C16/RoundTripF.lean` float round trip is exact over an arbitrary ordered field
  * `Props/C16/Inverse.lean`    HSL -> RGB -> HSL is the identity on canonical HSL colours (ordered field)
  * `Props/C16/Access.lean`     channel accessors, gray, Linear::zero, add(sub) cancels, gamma constants
  * `Props/C16/Reference.lean`  the sextant code equals the independent CSS closed form used by the oracle
-/
import Retro.Props.C16.Int8
import Retro.Props.C16.RoundTrip8
import Retro.Props.C16.Pack
import Retro.Props.C16.Field
import Retro.Props.C16.RoundTripF
import Retro.Props.C16.Reference
import Retro.Props.C16.Inverse
import Retro.Props.C16.Access
