/-
C16: channel accessors, `gray`, `Linear::zero`, `Affine::sub` of 8-bit colours and the gamma constants.
(`powf` itself is a parameter of the model: `to_linear`/`to_srgb` are judged on the real code by the
oracle — fix 0 and 1, monotone, mutually inverse within 1e-6 — not by theorem.)
-/
import Retro.Props.C16.Int8
import Mathlib.Tactic.NormNum

namespace Retro.Props.C16
open Retro Retro.Color Retro.Lemmas.Color

/-- the accessors return the documented channel: `r,g,b,a` (and `h,s,l,a`) are positions 0,1,2,3 -/
theorem accessors_rgba {β : Type} (x y z w : β) :
    channel [x, y, z, w] idxR = .ok x ∧ channel [x, y, z, w] idxG = .ok y ∧
    channel [x, y, z, w] idxB = .ok z ∧ channel [x, y, z, w] idxA = .ok w ∧
    channel [x, y, z, w] idxH = .ok x ∧ channel [x, y, z, w] idxS = .ok y ∧
    channel [x, y, z, w] idxL = .ok z :=
  ⟨rfl, rfl, rfl, rfl, rfl, rfl, rfl⟩

theorem accessors_rgb {β : Type} (x y z : β) :
    channel [x, y, z] idxR = .ok x ∧ channel [x, y, z] idxG = .ok y ∧ channel [x, y, z] idxB = .ok z ∧
    channel [x, y, z] idxH = .ok x ∧ channel [x, y, z] idxS = .ok y ∧ channel [x, y, z] idxL = .ok z :=
  ⟨rfl, rfl, rfl, rfl, rfl, rfl⟩

/-- a three-channel colour has no alpha: the model reports the index panic, not a default -/
theorem accessor_alpha_of_rgb_panics {β : Type} (x y z : β) :
    channel [x, y, z] idxA = .panic "index out of bounds" := rfl

/-- `gray(v)` has three equal channels -/
theorem gray_channels {β : Type} (v : β) :
    channel (grayC v) idxR = .ok v ∧ channel (grayC v) idxG = .ok v ∧ channel (grayC v) idxB = .ok v :=
  ⟨rfl, rfl, rfl⟩

/-- `Linear::zero()` has `dim` channels, all zero -/
theorem zero_color {β : Type} [OfNat β 0] (dim : Nat) :
    (zeroColor (β := β) dim).length = dim ∧ ∀ c ∈ zeroColor (β := β) dim, c = 0 := by
  unfold zeroColor
  exact ⟨List.length_replicate, fun c hc => (List.mem_replicate.mp hc).2⟩

/-- `sub` is the per-channel integer difference, in `-255..=255` for `u8` channels -/
theorem sub_color_cons (a b : Int) (as bs : List Int) :
    subColor (a :: as) (b :: bs) = (a - b) :: subColor as bs := rfl

/-- **Adding the difference back**: `c.add(&d.sub(&c)) = d` for all 8-bit colours of equal length
(no channel saturates, because `c + (d − c) = d` is itself a `u8`). -/
theorem add_sub_cancel_color (cs ds : List Int) (hlen : cs.length = ds.length)
    (hc : ∀ c ∈ cs, IsU8 c) (hd : ∀ d ∈ ds, IsU8 d) : addColor cs (subColor ds cs) = ds := by
  induction cs generalizing ds with
  | nil => cases ds with
    | nil => rfl
    | cons d ds => simp at hlen
  | cons c cs ih =>
    cases ds with
    | nil => simp at hlen
    | cons d ds =>
      have hcu : IsU8 c := hc c (by simp)
      have hdu : IsU8 d := hd d (by simp)
      have hrest := ih ds (by simpa using hlen) (fun x hx => hc x (by simp [hx])) (fun x hx => hd x (by simp [hx]))
      unfold IsU8 at hcu hdu
      have h1 : addSat c (d - c) = d := by
        have := sat_add c (d - c) hcu (by unfold i32Min i32Max; omega)
        rw [this]; omega
      show addSat c (d - c) :: addColor cs (subColor ds cs) = d :: ds
      rw [h1, hrest]

example : addColor [10, 200, 0] (subColor [255, 0, 7] [10, 200, 0]) = [255, 0, 7] := by decide

/-- the exact gamma exponents are reciprocal -/
theorem gamma_inv : gamma * invGamma = 1 := by unfold invGamma gamma; norm_num

end Retro.Props.C16
