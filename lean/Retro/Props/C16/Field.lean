/-
C16, floating-point part: the float HSL <-> RGB code of color.rs, read over an arbitrary ordered
field `K` with a floor function (exact arithmetic).  The model functions (`Retro.Color.toHslF`,
`toRgbF`, …) are the same generic definitions the driver runs at `Rat`; the scalar's `floor` and
`as i32` operations are tied to the field's floor by `FloorLaws`, which holds for the driver's
`Rat` instances (`ratLaws`).

What is *not* covered here: `f32` rounding.  The 1e-4 round-trip bound under rounding and the
absence of rounding-induced assertion failures are checked by the correspondence and the spec
oracle on the real code (see design/C16.md).
-/
import Retro.Lemmas.Color
import Mathlib.Algebra.Order.Field.Basic
import Mathlib.Algebra.Order.Floor.Ring
import Mathlib.Data.Rat.Floor
import Mathlib.Tactic.Ring
import Mathlib.Tactic.Linarith
import Mathlib.Tactic.FieldSimp
import Mathlib.Tactic.NormNum
import Mathlib.Tactic.Positivity

set_option linter.unusedSectionVars false

namespace Retro.Props.C16
open Retro Retro.Color Retro.Lemmas.Color

/-- The laws hold for the instances the compiled driver uses (`Retro/Basic.lean`, `Model/Color.lean`),
so every theorem below applies verbatim to the `Rat` model that is compared with the real code. -/
theorem ratLaws : FloorLaws ℚ where
  floor_eq _ := rfl
  trunc_eq _ := rfl

variable {K : Type} [Field K] [LinearOrder K] [IsStrictOrderedRing K] [FloorRing K]
  [HasFloor K] [HasTruncI K]


/-! ### HSL -> RGB: shape of the result -/

/-- **Every in-range HSL colour converts to an in-range RGB colour**: no `debug_assert!` fires, the
`unreachable!` arm is not taken (also at `h = 1`, where `(h as i32).min(5)` folds sextant 6 into 5). -/
theorem rgb_in_range (L : FloorLaws K) (h s l : K) (hh : InUnit h) (hs : InUnit s) (hl : InUnit l) :
    ∃ r g b, toRgbF h s l = .ok (r, g, b) ∧ InUnit r ∧ InUnit g ∧ InUnit b := by
  obtain ⟨hc0, hc1, hc2⟩ := chromaF_bounds hs hl
  have hH0 : 0 ≤ h * 6 := by have := hh.1; positivity
  have hH6 : h * 6 ≤ 6 := by linarith [hh.2]
  obtain ⟨hx0, hx1⟩ := second_factor_unit L hH0
  set c := chromaF s l with hc
  set m := offsetF c l with hm
  set x := secondF c (h * 6) with hx
  have hxc : 0 ≤ x ∧ x ≤ c := by
    rw [hx]; unfold secondF
    exact ⟨mul_nonneg hc0 hx0, by nlinarith⟩
  have hm0 : InUnit (0 + m) := by
    rw [hm]; unfold offsetF InUnit; constructor <;> linarith [hl.1, hl.2]
  have hmc : InUnit (c + m) := by
    rw [hm]; unfold offsetF InUnit; constructor <;> linarith [hl.1, hl.2]
  have hmx : InUnit (x + m) := by
    unfold InUnit at *; constructor <;> linarith [hxc.1, hxc.2]
  -- the sextant index
  have hk0 : 0 ≤ ⌊h * 6⌋ := Int.floor_nonneg.mpr hH0
  have hk : HasTruncI.truncI (h * 6) = ⌊h * 6⌋ := by
    rw [L.trunc_eq, if_neg (not_lt.mpr hH0)]
  have hk6 : ⌊h * 6⌋ ≤ 6 := by
    have : ⌊h * 6⌋ ≤ ⌊(6 : K)⌋ := Int.floor_le_floor hH6
    simpa using this
  have hcases : ∃ a1 a2 a3, sextantF (HasTruncI.truncI (h * 6)) c x = some (a1, a2, a3) ∧
      (a1 = 0 ∨ a1 = c ∨ a1 = x) ∧ (a2 = 0 ∨ a2 = c ∨ a2 = x) ∧ (a3 = 0 ∨ a3 = c ∨ a3 = x) := by
    rw [hk]
    generalize ⌊h * 6⌋ = k at hk0 hk6
    have : k = 0 ∨ k = 1 ∨ k = 2 ∨ k = 3 ∨ k = 4 ∨ k = 5 ∨ k = 6 := by omega
    rcases this with rfl | rfl | rfl | rfl | rfl | rfl | rfl <;> simp [sextantF]
  obtain ⟨a1, a2, a3, hsx, h1, h2, h3⟩ := hcases
  have u1 : InUnit (a1 + m) := by rcases h1 with rfl | rfl | rfl <;> assumption
  have u2 : InUnit (a2 + m) := by rcases h2 with rfl | rfl | rfl <;> assumption
  have u3 : InUnit (a3 + m) := by rcases h3 with rfl | rfl | rfl <;> assumption
  exact ⟨_, _, _, toRgbF_of_sextant hsx u1 u2 u3, u1, u2, u3⟩

example : InUnit (1 : ℚ) ∧ InUnit (3/4 : ℚ) ∧ InUnit (1/4 : ℚ) := by unfold InUnit; norm_num
example : toRgbF (1 : ℚ) (3/4) (1/4) = .ok (7/16, 1/16, 1/16) := by decide +kernel

/-! ### RGB -> HSL: hue, saturation, lightness of an in-range colour -/

/-- **to_hsl of an in-range RGB colour** returns (no assertion fires) with `h, s, l ∈ [0, 1]`. -/
theorem hsl_in_range (L : FloorLaws K) (r g b : K) (hr : InUnit r) (hg : InUnit g) (hb : InUnit b) :
    toHslF r g b = .ok (hueF r g b, satF r g b, lightF r g b) ∧
      InUnit (hueF r g b) ∧ InUnit (satF r g b) ∧ InUnit (lightF r g b) := by
  obtain ⟨hr1, hg1, hb1, hmx⟩ := mx_facts r g b
  obtain ⟨hr0, hg0, hb0, hmn⟩ := mn_facts r g b
  have hmx1 : max (max r g) b ≤ 1 := by rcases hmx with h | h | h <;> rw [h] <;> [exact hr.2; exact hg.2; exact hb.2]
  have hmn0 : 0 ≤ min (min r g) b := by rcases hmn with h | h | h <;> rw [h] <;> [exact hr.1; exact hg.1; exact hb.1]
  have hs := (chroma_sat r g b hr hg hb).2
  have hl : InUnit (lightF r g b) := by
    rw [lightF_eq]; unfold InUnit; constructor <;> linarith
  have hh : InUnit (hueF r g b) := by
    have h6 := hueF_six L r g b
    have hH : 0 ≤ hueF r g b * 6 ∧ hueF r g b * 6 ≤ 6 := by
      rw [h6]
      by_cases hd : max (max r g) b - min (min r g) b = 0
      · simp [hd]
      · have hdpos : 0 < max (max r g) b - min (min r g) b := lt_of_le_of_ne (by linarith) (Ne.symm hd)
        have qgb := quot_bounds hdpos ⟨hg0, hg1⟩ ⟨hb0, hb1⟩
        have qbr := quot_bounds hdpos ⟨hb0, hb1⟩ ⟨hr0, hr1⟩
        have qrg := quot_bounds hdpos ⟨hr0, hr1⟩ ⟨hg0, hg1⟩
        simp only [hd, if_false]
        split_ifs with h1 h2 h3 <;> constructor <;> linarith [qgb.1, qgb.2, qbr.1, qbr.2, qrg.1, qrg.2]
    unfold InUnit; constructor <;> linarith [hH.1, hH.2]
  refine ⟨?_, hh, hs, hl⟩
  unfold toHslF
  simp only [(inUnit_iff _).mpr hh, (inUnit_iff _).mpr hs, (inUnit_iff _).mpr hl]
  rfl

example : InUnit (3/10 : ℚ) ∧ InUnit (1/5 : ℚ) ∧ InUnit (1/10 : ℚ) := by unfold InUnit; norm_num
example : toHslF (3/10 : ℚ) (1/5) (1/10) = .ok (1/12, 1/2, 1/5) := by decide +kernel

/-! ### grays and the hue circle -/

/-- `gray(v).to_hsl() = hsl(0, 0, v)` for every in-range `v`: zero saturation, lightness kept. -/
theorem gray_float (v : K) (hv : InUnit v) : toHslF v v v = .ok (0, 0, v) := by
  have hh : hueF v v v = 0 := by unfold hueF; simp [maxS_eq, minS_eq]
  have hs : satF v v v = 0 := by unfold satF; simp [maxS_eq, minS_eq]
  have hl : lightF v v v = v := by rw [lightF_eq]; simp
  unfold toHslF
  rw [hh, hs, hl]
  have h0 : inUnit (0 : K) = true := (inUnit_iff _).mpr ⟨le_rfl, zero_le_one⟩
  simp only [h0, (inUnit_iff _).mpr hv]
  rfl

/-- zero saturation converts back to the gray of the same lightness, for every in-range hue -/
theorem gray_float_back (L : FloorLaws K) (h l : K) (hh : InUnit h) (hl : InUnit l) :
    toRgbF h 0 l = .ok (l, l, l) := by
  obtain ⟨r, g, b, hrgb, -, -, -⟩ := rgb_in_range L h 0 l hh ⟨le_rfl, zero_le_one⟩ hl
  have hc : chromaF (0 : K) l = 0 := by unfold chromaF; ring
  have hx : secondF (0 : K) (h * 6) = 0 := by unfold secondF; ring
  have hm : offsetF (0 : K) l = l := by unfold offsetF; ring
  have hH0 : 0 ≤ h * 6 := by have := hh.1; positivity
  have hk0 : 0 ≤ ⌊h * 6⌋ := Int.floor_nonneg.mpr hH0
  have hk : HasTruncI.truncI (h * 6) = ⌊h * 6⌋ := by rw [L.trunc_eq, if_neg (not_lt.mpr hH0)]
  have hk6 : ⌊h * 6⌋ ≤ 6 := by
    have : ⌊h * 6⌋ ≤ ⌊(6 : K)⌋ := Int.floor_le_floor (by linarith [hh.2])
    simpa using this
  have hsx : sextantF (HasTruncI.truncI (h * 6)) (chromaF 0 l) (secondF (chromaF 0 l) (h * 6)) = some (0, 0, 0) := by
    rw [hk, hc, hx]
    generalize ⌊h * 6⌋ = k at hk0 hk6
    have : k = 0 ∨ k = 1 ∨ k = 2 ∨ k = 3 ∨ k = 4 ∨ k = 5 ∨ k = 6 := by omega
    rcases this with rfl | rfl | rfl | rfl | rfl | rfl | rfl <;> simp [sextantF]
  have hu : InUnit (0 + offsetF (chromaF 0 l) l) := by rw [hc, hm, zero_add]; exact hl
  have := toRgbF_of_sextant hsx hu hu hu
  rw [this, hc, hm, zero_add]

/-- **hue 1 equals hue 0**, for every saturation and lightness (in range or not) -/
theorem hue_one_eq_zero (L : FloorLaws K) (s l : K) : toRgbF 1 s l = toRgbF 0 s l := by
  have k1 : HasTruncI.truncI ((1 : K) * 6) = 6 := by
    have := truncI_eq L (x := (1 : K) * 6) 6 (by norm_num) (by norm_num) (by norm_num)
    simpa using this
  have k0 : HasTruncI.truncI ((0 : K) * 6) = 0 := by
    have := truncI_eq L (x := (0 : K) * 6) 0 (by norm_num) (by norm_num) (by norm_num)
    simpa using this
  have x1 : secondF (chromaF s l) ((1 : K) * 6) = 0 := by
    have := secondF_even L (chromaF s l) (H := (1 : K) * 6) 3 (by norm_num) (by norm_num) (by norm_num)
    rw [this]; norm_num
  have x0 : secondF (chromaF s l) ((0 : K) * 6) = 0 := by
    have := secondF_even L (chromaF s l) (H := (0 : K) * 6) 0 (by norm_num) (by norm_num) (by norm_num)
    rw [this]; norm_num
  unfold toRgbF
  simp only [k1, k0, x1, x0]
  simp [sextantF]

end Retro.Props.C16
