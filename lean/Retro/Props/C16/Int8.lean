/-
C16, 8-bit part: integer HSL <-> RGB (fixed point, M = 256) and the saturating add.
-/
import Retro.Lemmas.Color
import Mathlib.Tactic.Linarith
import Mathlib.Tactic.NormNum
import Mathlib.Tactic.Ring
import Mathlib.Tactic.Positivity

namespace Retro.Props.C16
open Retro Retro.Color Retro.Lemmas.Color


/-! ### grays -/

/-- `gray(v).to_hsl() = hsl(0, 0, v)` for every 8-bit `v`: zero hue, zero saturation, lightness kept. -/
theorem gray_u8 (v : Int) (hv : IsU8 v) : toHsl8 v v v = (0, 0, v) := by
  unfold IsU8 at hv
  have hmx : max3 v v v = v := by simp [max3]
  have hmn : min3 v v v = v := by simp [min3]
  have hl : light8 v v v = v := by
    unfold light8; rw [hmx, hmn, tdiv_nonneg_eq _ (by omega)]; omega
  have hh : hue8 v v v = 0 := by
    simp [hue8, hmx, hmn]
  have hs : sat8 v v v = 0 := by
    simp [sat8, hmx, hmn]
  unfold toHsl8
  rw [hl, hh, hs]
  simp only [clampI, asU8]
  refine Prod.ext ?_ (Prod.ext ?_ ?_) <;> simp only [] <;> omega

example : IsU8 160 := by decide

/-- and back: zero saturation gives the gray of the same lightness, whatever the hue. -/
theorem gray_back_u8 (h l : Int) (hh : IsU8 h) (hl : IsU8 l) : toRgb8 h 0 l = .ok (l, l, l) := by
  unfold IsU8 at hh hl
  have hk : IsU8 (Int.tdiv (h * 6) M) ∧ Int.tdiv (h * 6) M ≤ 5 := by
    unfold IsU8 M; rw [tdiv_nonneg_eq _ (by omega)]; omega
  have hc : cxm8 h 0 l = (0, 0, l) := by
    unfold cxm8 M
    simp only [Int.mul_zero, Int.zero_mul]
    refine Prod.ext ?_ (Prod.ext ?_ ?_) <;> simp
  have hch : chan8 0 l = .ok l := by
    unfold chan8; simp only [Int.zero_add]; rw [if_pos (by omega), asU8_of_isU8 ⟨hl.1, hl.2⟩]
  unfold toRgb8
  rw [hc]
  obtain ⟨⟨k0, k255⟩, k5⟩ := hk
  generalize Int.tdiv (h * 6) M = k at *
  have : k = 0 ∨ k = 1 ∨ k = 2 ∨ k = 3 ∨ k = 4 ∨ k = 5 := by omega
  rcases this with rfl | rfl | rfl | rfl | rfl | rfl <;> simp [sextant8, hch]

/-! ### HSL -> RGB is total and in range -/

/-- **Every** 8-bit HSL triple (all 2^24) converts without the `unreachable!` arm or a
`debug_assert!` firing, and every channel of the result is a `u8` value. Algebraic proof. -/
theorem hsl_rgb_in_range_u8 (h s l : Int) (hh : IsU8 h) (hs : IsU8 s) (hl : IsU8 l) :
    ∃ r g b, toRgb8 h s l = .ok (r, g, b) ∧ IsU8 r ∧ IsU8 g ∧ IsU8 b := by
  obtain ⟨hx0, hxc, hm0, hcm⟩ := cxm8_bounds h s l hh hs hl
  have hk : 0 ≤ Int.tdiv (h * 6) M ∧ Int.tdiv (h * 6) M ≤ 5 := by
    unfold IsU8 at hh; unfold M; rw [tdiv_nonneg_eq _ (by omega)]; omega
  unfold toRgb8
  rcases hcxm : cxm8 h s l with ⟨c, x, m⟩
  rw [hcxm] at hx0 hxc hm0 hcm
  simp only at hx0 hxc hm0 hcm ⊢
  obtain ⟨r, g, b, hsx, hr, hg, hb⟩ := sextant8_cases _ c x hk.1 hk.2
  rw [hsx]
  simp only
  have hrr : 0 ≤ r + m ∧ r + m ≤ 255 := by rcases hr with rfl | rfl | rfl <;> omega
  have hgg : 0 ≤ g + m ∧ g + m ≤ 255 := by rcases hg with rfl | rfl | rfl <;> omega
  have hbb : 0 ≤ b + m ∧ b + m ≤ 255 := by rcases hb with rfl | rfl | rfl <;> omega
  rw [chan8_ok hrr.1 hrr.2, chan8_ok hgg.1 hgg.2, chan8_ok hbb.1 hbb.2]
  exact ⟨_, _, _, rfl, hrr, hgg, hbb⟩

example : IsU8 213 ∧ IsU8 255 ∧ IsU8 128 := by decide
example : toRgb8 213 255 128 = .ok (253, 0, 255) := by decide

/-- the hue-sextant index of `to_rgb` never leaves `0..=5` (the `unreachable!` arm is dead) -/
theorem sextant_index_u8 (h : Int) (hh : IsU8 h) : 0 ≤ Int.tdiv (h * 6) M ∧ Int.tdiv (h * 6) M ≤ 5 := by
  unfold IsU8 at hh; unfold M; rw [tdiv_nonneg_eq _ (by omega)]; omega

/-- outside the `u8` hue range the `unreachable!` arm *is* reached (here: the model of a wider hue) -/
example : toRgb8 256 0 0 = .panic "unreachable" := by decide

/-! ### RGB -> HSL is total and in range -/

/-- `to_hsl` has no assertion; its three results are `u8` values for every input. -/
theorem rgb_hsl_in_range_u8 (r g b : Int) :
    IsU8 (toHsl8 r g b).1 ∧ IsU8 (toHsl8 r g b).2.1 ∧ IsU8 (toHsl8 r g b).2.2 :=
  ⟨clamp_isU8 _, clamp_isU8 _, clamp_isU8 _⟩

/-- the saturation divisor `M - |2l - M|` is at least 2 whenever it is used (no division by zero) -/
theorem sat8_divisor_pos (r g b : Int) (hr : IsU8 r) (hg : IsU8 g) (hb : IsU8 b)
    (hl : ¬ (light8 r g b = 0 ∨ light8 r g b = 255)) : 2 ≤ M - absI (2 * light8 r g b - M) := by
  unfold IsU8 at hr hg hb
  have h1 : 0 ≤ max3 r g b + min3 r g b + 1 := by unfold max3 min3; omega
  have h2 : max3 r g b + min3 r g b + 1 ≤ 511 := by unfold max3 min3; omega
  unfold light8 at hl ⊢
  rw [tdiv_nonneg_eq _ h1] at hl ⊢
  unfold M; rw [absI_eq]; split <;> omega

/-- the hue divisor `d = max - min` is non-zero on the branches that divide by it -/
theorem hue8_divisor_pos (r g b : Int) (hd : max3 r g b - min3 r g b ≠ 0) :
    0 < max3 r g b - min3 r g b := by
  unfold max3 min3 at *; omega

/-! ### saturating add -/

/-- `Affine::add` on one channel is the mathematically saturated sum for every `u8` channel and
every `i32` difference: it never wraps. -/
theorem sat_add (c d : Int) (hc : IsU8 c) (hd : i32Min ≤ d ∧ d ≤ i32Max) :
    addSat c d = max 0 (min 255 (c + d)) := by
  unfold IsU8 at hc; unfold i32Min i32Max at hd
  unfold addSat satAddI32 clampI asU8 i32Min i32Max
  split <;> [skip; split] <;> (split <;> [skip; split]) <;> omega

example : IsU8 200 ∧ i32Min ≤ (2147483647 : Int) ∧ (2147483647 : Int) ≤ i32Max := by decide
example : addSat 200 2147483647 = 255 := by decide
example : addSat 3 (-2147483648) = 0 := by decide

theorem sat_add_isU8 (c d : Int) : IsU8 (addSat c d) := clamp_isU8 _

/-- adding the difference of two 8-bit colours gives back the minuend: `b + (a - b) = a` -/
theorem sat_add_sub (a b : Int) (ha : IsU8 a) (hb : IsU8 b) : addSat b (a - b) = a := by
  unfold IsU8 at ha hb
  rw [sat_add b (a - b) hb (by unfold i32Min i32Max; omega)]
  omega

/-- all channels, in order, same length -/
theorem addColor_cons (c d : Int) (cs ds : List Int) :
    addColor (c :: cs) (d :: ds) = addSat c d :: addColor cs ds := rfl

/-! ### more about the integer arithmetic: no clamp needed for h and l, no `i32` overflow -/


/-- hue and lightness of `to_hsl` are `u8` values before the clamp (only the saturation needs it) -/
theorem hue_light_u8 (r g b : Int) (hr : IsU8 r) (hg : IsU8 g) (hb : IsU8 b) :
    IsU8 (hue8 r g b) ∧ IsU8 (light8 r g b) := by
  unfold IsU8 at hr hg hb ⊢
  have hmx : r ≤ max3 r g b ∧ g ≤ max3 r g b ∧ b ≤ max3 r g b ∧ max3 r g b ≤ 255 := by unfold max3; omega
  have hmn : min3 r g b ≤ r ∧ min3 r g b ≤ g ∧ min3 r g b ≤ b ∧ 0 ≤ min3 r g b := by unfold min3; omega
  constructor
  · unfold hue8
    simp only
    generalize hmxe : max3 r g b = mx at *
    generalize hmne : min3 r g b = mn at *
    by_cases hd : mx - mn = 0
    · rw [if_pos hd]; decide
    · rw [if_neg hd]
      have hdpos : 0 < mx - mn := by omega
      have q1 := tdiv_bounds (a := (g - b) * M) hdpos (by decide : (0:Int) ≤ 256) (by unfold M; nlinarith) (by unfold M; nlinarith)
      have q2 := tdiv_bounds (a := (b - r) * M) hdpos (by decide : (0:Int) ≤ 256) (by unfold M; nlinarith) (by unfold M; nlinarith)
      have q3 := tdiv_bounds (a := (r - g) * M) hdpos (by decide : (0:Int) ≤ 256) (by unfold M; nlinarith) (by unfold M; nlinarith)
      split_ifs with h1 h2
      · -- rem_euclid
        unfold remEuclidI
        simp only
        generalize Int.tdiv ((g - b) * M) (mx - mn) = q at q1
        unfold M absI
        by_cases hq : 0 ≤ q
        · rw [tmod_nonneg_eq _ hq]
          have : q % (6 * 256) = q := Int.emod_eq_of_lt hq (by omega)
          rw [this, if_neg (by omega), tdiv_nonneg_eq _ hq]; omega
        · have e : Int.tmod q (6 * 256) = q := by
            have := Int.neg_tmod (-q) (6 * 256)
            rw [Int.neg_neg] at this
            rw [this, tmod_nonneg_eq _ (by omega), Int.emod_eq_of_lt (by omega) (by omega)]; omega
          rw [e, if_pos (by omega)]
          simp only [show ¬ ((6 : Int) * 256 < 0) by decide, if_false]
          rw [tdiv_nonneg_eq _ (by omega)]; omega
      · generalize Int.tdiv ((b - r) * M) (mx - mn) = q at q2
        unfold M; rw [tdiv_nonneg_eq _ (by omega)]; omega
      · generalize Int.tdiv ((r - g) * M) (mx - mn) = q at q3
        unfold M; rw [tdiv_nonneg_eq _ (by omega)]; omega
  · unfold light8; rw [tdiv_nonneg_eq _ (by omega)]; omega

/-- `to_rgb` on `u8` input: every intermediate `i32` value is far inside the `i32` range, so the
checked arithmetic of the debug profile cannot panic (the model's `Int` is faithful). -/
theorem to_rgb8_no_overflow (h s l : Int) (hh : IsU8 h) (hs : IsU8 s) (hl : IsU8 l) :
    (0 ≤ (M - absI (2 * l - M)) * s ∧ (M - absI (2 * l - M)) * s ≤ 65280) ∧
    (0 ≤ (M - absI (2 * l - M)) * s * (M - absI (Int.tmod (h * 6) (2 * M) - M)) ∧
      (M - absI (2 * l - M)) * s * (M - absI (Int.tmod (h * 6) (2 * M) - M)) ≤ 16711680) ∧
    (0 ≤ M * l - Int.tdiv ((M - absI (2 * l - M)) * s) 2 ∧ M * l - Int.tdiv ((M - absI (2 * l - M)) * s) 2 ≤ 65280) := by
  unfold IsU8 at hh hs hl
  have hA : 0 ≤ M - absI (2 * l - M) ∧ M - absI (2 * l - M) ≤ 256 ∧
      M - absI (2 * l - M) ≤ 2 * l ∧ M - absI (2 * l - M) ≤ 512 - 2 * l := by
    unfold M; rw [absI_eq]; split <;> omega
  have hB : 0 ≤ M - absI (Int.tmod (h * 6) (2 * M) - M) ∧ M - absI (Int.tmod (h * 6) (2 * M) - M) ≤ 256 := by
    unfold M; rw [tmod_nonneg_eq _ (by omega), absI_eq]; split <;> omega
  generalize M - absI (2 * l - M) = A at *
  generalize M - absI (Int.tmod (h * 6) (2 * M) - M) = B at *
  have hc0 : 0 ≤ A * s := Int.mul_nonneg hA.1 hs.1
  have hc1 : A * s ≤ 65280 := by nlinarith [hA.2.1]
  have hc2 : A * s ≤ A * 255 := Int.mul_le_mul_of_nonneg_left hs.2 hA.1
  have hx0 : 0 ≤ A * s * B := Int.mul_nonneg hc0 hB.1
  have hx1 : A * s * B ≤ 16711680 := by nlinarith [hB.2]
  refine ⟨⟨hc0, hc1⟩, ⟨hx0, hx1⟩, ?_, ?_⟩
  · rw [tdiv_nonneg_eq _ hc0]
    unfold M; omega
  · rw [tdiv_nonneg_eq _ hc0]; unfold M; omega

end Retro.Props.C16
