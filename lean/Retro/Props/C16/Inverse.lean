/-
C16: the other direction of "mutually inverse" — HSL -> RGB -> HSL is the identity on the canonical
HSL colours (`0 ≤ h < 1`, `0 < s ≤ 1`, `0 < l < 1`), in exact arithmetic over any ordered field.
Six sextants, with the two places where two channels tie for the maximum (`6h = 1`, `6h = 3`)
handled separately because `to_hsl` tests `max == r` before `max == g` before blue.
-/
import Retro.Props.C16.RoundTripF
set_option linter.unusedSectionVars false
namespace Retro.Props.C16
open Retro Retro.Color Retro.Lemmas.Color
variable {K : Type} [Field K] [LinearOrder K] [IsStrictOrderedRing K] [FloorRing K]
  [HasFloor K] [HasTruncI K]

/-- `to_hsl` of an in-range, non-gray colour whose maximum and minimum are known -/
theorem toHslF_of (L : FloorLaws K) {r g b mx mn H s : K}
    (hr : InUnit r) (hg : InUnit g) (hb : InUnit b)
    (hmx : max (max r g) b = mx) (hmn : min (min r g) b = mn) (hd : 0 < mx - mn)
    (hH : (if mx = r then (if (g - b) / (mx - mn) < 0 then (g - b) / (mx - mn) + 6 else (g - b) / (mx - mn))
           else if mx = g then (b - r) / (mx - mn) + 2 else (r - g) / (mx - mn) + 4) = H)
    (hl0 : 0 < mx + mn) (hl1 : mx + mn < 2) (hs : mx - mn = (1 - |mx + mn - 1|) * s) (hs1 : s ≤ 1) :
    toHslF r g b = .ok (H / 6, s, (mx + mn) / 2) := by
  obtain ⟨hok, -, -, -⟩ := hsl_in_range L r g b hr hg hb
  have h6 := hueF_six L r g b
  rw [hmx, hmn, if_neg (ne_of_gt hd), hH] at h6
  have hh : hueF r g b = H / 6 := by rw [← h6]; field_simp
  have hl : lightF r g b = (mx + mn) / 2 := by rw [lightF_eq, hmx, hmn]
  have hsat : satF r g b = s := by
    unfold satF
    simp only [maxS_eq, minS_eq, lightF_eq, absS_eq, hmx, hmn]
    have c1 : ¬ (mx - mn = 0 ∨ (mx + mn) / 2 = 0 ∨ (mx + mn) / 2 = 1) := by
      rintro (h | h | h) <;> linarith
    rw [if_neg c1]
    have e : 2 * ((mx + mn) / 2) - 1 = mx + mn - 1 := by ring
    rw [e]
    have hD : 0 < 1 - |mx + mn - 1| := by
      have : |mx + mn - 1| < 1 := by rw [abs_lt]; constructor <;> linarith
      linarith
    have : (mx - mn) / (1 - |mx + mn - 1|) = s := by rw [hs]; field_simp
    rw [this, min_eq_left hs1]
  rw [hok, hh, hsat, hl]

/-- everything the inverse direction needs to know about `to_rgb`, with the chroma `c`, offset `m`
and second component `x` as plain variables -/
theorem toRgbF_shape (L : FloorLaws K) (h s l : K) (hh : InUnit h) (hs : InUnit s) (hl : InUnit l) :
    ∃ c m x : K, c = (1 - |2 * l - 1|) * s ∧ c + 2 * m = 2 * l ∧
      InUnit m ∧ InUnit (c + m) ∧ InUnit (x + m) ∧
      (∀ (n : ℤ) (a1 a2 a3 : K), 0 ≤ n → (n : K) ≤ h * 6 → h * 6 < (n : K) + 1 →
          sextantF n c x = some (a1, a2, a3) → toRgbF h s l = .ok (a1 + m, a2 + m, a3 + m)) ∧
      (∀ j : ℤ, 0 ≤ j → 2 * (j : K) ≤ h * 6 → h * 6 < 2 * (j : K) + 1 → x = c * (h * 6 - 2 * (j : K))) ∧
      (∀ j : ℤ, 0 ≤ j → 2 * (j : K) + 1 ≤ h * 6 → h * 6 < 2 * (j : K) + 2 → x = c * (2 * (j : K) + 2 - h * 6)) := by
  obtain ⟨u0, uc, ux⟩ := channels_in_unit L h s l hh hs hl
  rw [zero_add] at u0
  refine ⟨chromaF s l, offsetF (chromaF s l) l, secondF (chromaF s l) (h * 6), ?_, ?_, u0, uc, ux, ?_, ?_, ?_⟩
  · unfold chromaF; rw [absS_eq]
  · unfold offsetF; ring
  · intro n a1 a2 a3 hn h1 h2 hsx
    exact toRgbF_sextant L h s l hh hs hl n hn h1 h2 hsx
  · intro j hj h1 h2; exact secondF_even L _ j hj h1 h2
  · intro j hj h1 h2; exact secondF_odd L _ j hj h1 h2

/-- **The other direction**: for a canonical HSL colour (`0 ≤ h < 1`, `0 < s ≤ 1`, `0 < l < 1`; outside
this set the hue or saturation is not determined by the colour), `to_hsl(to_rgb(hsl)) = hsl` exactly. -/
theorem rgb_hsl_inverse_field (L : FloorLaws K) (h s l : K)
    (hh : 0 ≤ h ∧ h < 1) (hs : 0 < s ∧ s ≤ 1) (hl : 0 < l ∧ l < 1) :
    ∃ r g b, toRgbF h s l = .ok (r, g, b) ∧ toHslF r g b = .ok (h, s, l) := by
  obtain ⟨c, m, x, hc, hcm, um, ucm, uxm, hsx, hxe, hxo⟩ :=
    toRgbF_shape L h s l ⟨hh.1, hh.2.le⟩ ⟨hs.1.le, hs.2⟩ ⟨hl.1.le, hl.2.le⟩
  have hD : 0 < 1 - |2 * l - 1| := by
    have : |2 * l - 1| < 1 := by rw [abs_lt]; constructor <;> linarith [hl.1, hl.2]
    linarith
  have hcpos : 0 < c := by rw [hc]; exact mul_pos hD hs.1
  have hcne : c ≠ 0 := ne_of_gt hcpos
  have hH0 : 0 ≤ h * 6 := by have := hh.1; positivity
  have hH6 : h * 6 < 6 := by linarith [hh.2]
  -- facts shared by all cases, phrased with mx = c + m, mn = m
  have hd : 0 < c + m - m := by linarith
  have hl0 : 0 < c + m + m := by linarith [hl.1]
  have hl1 : c + m + m < 2 := by linarith [hl.2]
  have hsat : c + m - m = (1 - |c + m + m - 1|) * s := by
    have e : c + m + m - 1 = 2 * l - 1 := by linarith
    rw [e, ← hc]; ring
  have hlight : (c + m + m) / 2 = l := by linarith
  have hdiv : h * 6 / 6 = h := by field_simp
  have hfl := Int.floor_le (h * 6)
  have hfl' := Int.lt_floor_add_one (h * 6)
  have hk0 : 0 ≤ ⌊h * 6⌋ := Int.floor_nonneg.mpr hH0
  have hk5 : ⌊h * 6⌋ ≤ 5 := by
    have : ⌊h * 6⌋ < 6 := Int.floor_lt.mpr (by exact_mod_cast hH6)
    omega
  generalize ⌊h * 6⌋ = n at hk0 hk5 hfl hfl'
  have hcases : n = 0 ∨ n = 1 ∨ n = 2 ∨ n = 3 ∨ n = 4 ∨ n = 5 := by omega
  -- the closing step: after `toHslF_of`, rewrite H/6 and the lightness
  have close : ∀ {r g b : K}, toHslF r g b = .ok (h * 6 / 6, s, (c + m + m) / 2) →
      toHslF r g b = .ok (h, s, l) := by
    intro r g b e; rw [e, hdiv, hlight]
  rcases hcases with rfl | rfl | rfl | rfl | rfl | rfl
  · -- sextant 0: (c+m, x+m, m), x = c·H, 0 ≤ x < c
    have hx : x = c * (h * 6) := by
      have := hxe 0 le_rfl (by push_cast at *; linarith) (by push_cast at *; linarith)
      rw [this]; push_cast; ring
    have hx0 : 0 ≤ x := by rw [hx]; positivity
    have hx1 : x < c := by rw [hx]; push_cast at hfl'; nlinarith
    refine ⟨_, _, _, hsx 0 c x 0 le_rfl (by simpa using hfl) (by simpa using hfl') (by simp [sextantF]), ?_⟩
    rw [zero_add]
    refine close (toHslF_of L ucm uxm um (mx := c + m) (mn := m) ?_ ?_ hd ?_ hl0 hl1 hsat hs.2)
    · rw [max_eq_left (by linarith : x + m ≤ c + m), max_eq_left (by linarith : m ≤ c + m)]
    · rw [min_eq_right (by linarith : x + m ≤ c + m), min_eq_right (by linarith : m ≤ x + m)]
    · have e : (x + m - m) / (c + m - m) = h * 6 := by
        rw [show x + m - m = x by ring, show c + m - m = c by ring, hx]; field_simp
      rw [if_pos rfl, e, if_neg (not_lt.mpr hH0)]
  · -- sextant 1: (x+m, c+m, m), x = c·(2 − H), 0 < x ≤ c
    have hx : x = c * (2 - h * 6) := by
      have := hxo 0 le_rfl (by push_cast at *; linarith) (by push_cast at *; linarith)
      rw [this]; push_cast; ring
    have hx0 : 0 < x := by rw [hx]; push_cast at hfl'; exact mul_pos hcpos (by linarith)
    have hx1 : x ≤ c := by rw [hx]; push_cast at hfl; nlinarith
    refine ⟨_, _, _, hsx 1 x c 0 (by norm_num) (by simpa using hfl) (by simpa using hfl') (by simp [sextantF]), ?_⟩
    rw [zero_add]
    refine close (toHslF_of L uxm ucm um (mx := c + m) (mn := m) ?_ ?_ hd ?_ hl0 hl1 hsat hs.2)
    · rw [max_eq_right (by linarith : x + m ≤ c + m), max_eq_left (by linarith : m ≤ c + m)]
    · rw [min_eq_left (by linarith : x + m ≤ c + m), min_eq_right (by linarith : m ≤ x + m)]
    · by_cases hxc : x = c
      · -- H = 1 exactly: red ties with green, the red branch answers
        have hH1 : h * 6 = 1 := by
          have : c * (2 - h * 6) = c * 1 := by rw [← hx, hxc, mul_one]
          have := mul_left_cancel₀ hcne this
          linarith
        have e : (c + m - m) / (c + m - m) = 1 := div_self (ne_of_gt hd)
        rw [if_pos (by rw [hxc]), e, if_neg (by norm_num), hH1]
      · have e : (m - (x + m)) / (c + m - m) + 2 = h * 6 := by
          rw [show m - (x + m) = -x by ring, show c + m - m = c by ring, hx]; field_simp; ring
        rw [if_neg (fun hcon => hxc (by linarith)), if_pos rfl, e]
  · -- sextant 2: (m, c+m, x+m), x = c·(H − 2), 0 ≤ x < c
    have hx : x = c * (h * 6 - 2) := by
      have := hxe 1 (by norm_num) (by push_cast at *; linarith) (by push_cast at *; linarith)
      rw [this]; push_cast; ring
    have hx0 : 0 ≤ x := by rw [hx]; push_cast at hfl; exact mul_nonneg hcpos.le (by linarith)
    have hx1 : x < c := by rw [hx]; push_cast at hfl'; nlinarith
    refine ⟨_, _, _, hsx 2 0 c x (by norm_num) (by simpa using hfl) (by simpa using hfl') (by simp [sextantF]), ?_⟩
    rw [zero_add]
    refine close (toHslF_of L um ucm uxm (mx := c + m) (mn := m) ?_ ?_ hd ?_ hl0 hl1 hsat hs.2)
    · rw [max_eq_right (by linarith : m ≤ c + m), max_eq_left (by linarith : x + m ≤ c + m)]
    · rw [min_eq_left (by linarith : m ≤ c + m), min_eq_left (by linarith : m ≤ x + m)]
    · have e : (x + m - m) / (c + m - m) + 2 = h * 6 := by
        rw [show x + m - m = x by ring, show c + m - m = c by ring, hx]; field_simp; ring
      rw [if_neg (fun hcon => hcne (by linarith)), if_pos rfl, e]
  · -- sextant 3: (m, x+m, c+m), x = c·(4 − H), 0 < x ≤ c
    have hx : x = c * (4 - h * 6) := by
      have := hxo 1 (by norm_num) (by push_cast at *; linarith) (by push_cast at *; linarith)
      rw [this]; push_cast; ring
    have hx0 : 0 < x := by rw [hx]; push_cast at hfl'; exact mul_pos hcpos (by linarith)
    have hx1 : x ≤ c := by rw [hx]; push_cast at hfl; nlinarith
    refine ⟨_, _, _, hsx 3 0 x c (by norm_num) (by simpa using hfl) (by simpa using hfl') (by simp [sextantF]), ?_⟩
    rw [zero_add]
    refine close (toHslF_of L um uxm ucm (mx := c + m) (mn := m) ?_ ?_ hd ?_ hl0 hl1 hsat hs.2)
    · rw [max_eq_right (by linarith : m ≤ x + m), max_eq_right (by linarith : x + m ≤ c + m)]
    · rw [min_eq_left (by linarith : m ≤ x + m), min_eq_left (by linarith : m ≤ c + m)]
    · by_cases hxc : x = c
      · -- H = 3 exactly: green ties with blue, the green branch answers
        have hH3 : h * 6 = 3 := by
          have : c * (4 - h * 6) = c * 1 := by rw [← hx, hxc, mul_one]
          have := mul_left_cancel₀ hcne this
          linarith
        have e : (c + m - m) / (c + m - m) = 1 := div_self (ne_of_gt hd)
        rw [if_neg (fun hcon => hcne (by linarith)), if_pos (by rw [hxc]), e, hH3]; norm_num
      · have e : (m - (x + m)) / (c + m - m) + 4 = h * 6 := by
          rw [show m - (x + m) = -x by ring, show c + m - m = c by ring, hx]; field_simp; ring
        rw [if_neg (fun hcon => hcne (by linarith)), if_neg (fun hcon => hxc (by linarith)), e]
  · -- sextant 4: (x+m, m, c+m), x = c·(H − 4), 0 ≤ x < c
    have hx : x = c * (h * 6 - 4) := by
      have := hxe 2 (by norm_num) (by push_cast at *; linarith) (by push_cast at *; linarith)
      rw [this]; push_cast; ring
    have hx0 : 0 ≤ x := by rw [hx]; push_cast at hfl; exact mul_nonneg hcpos.le (by linarith)
    have hx1 : x < c := by rw [hx]; push_cast at hfl'; nlinarith
    refine ⟨_, _, _, hsx 4 x 0 c (by norm_num) (by simpa using hfl) (by simpa using hfl') (by simp [sextantF]), ?_⟩
    rw [zero_add]
    refine close (toHslF_of L uxm um ucm (mx := c + m) (mn := m) ?_ ?_ hd ?_ hl0 hl1 hsat hs.2)
    · rw [max_eq_left (by linarith : m ≤ x + m), max_eq_right (by linarith : x + m ≤ c + m)]
    · rw [min_eq_right (by linarith : m ≤ x + m), min_eq_left (by linarith : m ≤ c + m)]
    · have e : (x + m - m) / (c + m - m) + 4 = h * 6 := by
        rw [show x + m - m = x by ring, show c + m - m = c by ring, hx]; field_simp; ring
      rw [if_neg (fun hcon => absurd hx1 (by linarith)), if_neg (fun hcon => hcne (by linarith)), e]
  · -- sextant 5: (c+m, m, x+m), x = c·(6 − H), 0 < x ≤ c
    have hx : x = c * (6 - h * 6) := by
      have := hxo 2 (by norm_num) (by push_cast at *; linarith) (by push_cast at *; linarith)
      rw [this]; push_cast; ring
    have hx0 : 0 < x := by rw [hx]; exact mul_pos hcpos (by linarith)
    have hx1 : x ≤ c := by rw [hx]; push_cast at hfl; nlinarith
    refine ⟨_, _, _, hsx 5 c 0 x (by norm_num) (by simpa using hfl) (by simpa using hfl') (by simp [sextantF]), ?_⟩
    rw [zero_add]
    refine close (toHslF_of L ucm um uxm (mx := c + m) (mn := m) ?_ ?_ hd ?_ hl0 hl1 hsat hs.2)
    · rw [max_eq_left (by linarith : m ≤ c + m), max_eq_left (by linarith : x + m ≤ c + m)]
    · rw [min_eq_right (by linarith : m ≤ c + m), min_eq_left (by linarith : m ≤ x + m)]
    · have e : (m - (x + m)) / (c + m - m) = h * 6 - 6 := by
        rw [show m - (x + m) = -x by ring, show c + m - m = c by ring, hx]; field_simp; ring
      rw [if_pos rfl, e, if_pos (by linarith)]; ring

example : toRgbF (7/12 : ℚ) (1/2) (1/4) = .ok (1/8, 1/4, 3/8) ∧ toHslF (1/8 : ℚ) (1/4) (3/8) = .ok (7/12, 1/2, 1/4) := by
  decide +kernel

end Retro.Props.C16
