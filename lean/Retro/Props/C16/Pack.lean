/-
C16: packing into 32-bit words (byte order), RGB <-> RGBA, float -> 8-bit clamping.
Statements are for all bytes / all words; proofs go through `toNat` arithmetic (no enumeration).
-/
import Retro.Lemmas.Color
import Mathlib.Tactic.Linarith
import Mathlib.Tactic.NormNum

namespace Retro.Props.C16
open Retro Retro.Color Retro.Lemmas.Color

/-! ### byte order -/

/-- `u32::from_be_bytes([b0,b1,b2,b3])` is `b0·2^24 + b1·2^16 + b2·2^8 + b3`. -/
theorem fromBeBytes_toNat (b0 b1 b2 b3 : UInt8) :
    (fromBeBytes b0 b1 b2 b3).toNat = b0.toNat * 2^24 + b1.toNat * 2^16 + b2.toNat * 2^8 + b3.toNat := by
  have h0 := b0.toNat_lt; have h1 := b1.toNat_lt; have h2 := b2.toNat_lt; have h3 := b3.toNat_lt
  have e24 : UInt32.toNat 24 % 32 = 24 := by decide
  have e16 : UInt32.toNat 16 % 32 = 16 := by decide
  have e8 : UInt32.toNat 8 % 32 = 8 := by decide
  simp only [fromBeBytes, UInt32.toNat_or, UInt32.toNat_shiftLeft, UInt8.toNat_toUInt32, e24, e16, e8]
  have m0 : b0.toNat <<< 24 % 2 ^ 32 = b0.toNat <<< 24 := by rw [Nat.shiftLeft_eq]; omega
  have m1 : b1.toNat <<< 16 % 2 ^ 32 = b1.toNat <<< 16 := by rw [Nat.shiftLeft_eq]; omega
  have m2 : b2.toNat <<< 8 % 2 ^ 32 = b2.toNat <<< 8 := by rw [Nat.shiftLeft_eq]; omega
  rw [m0, m1, m2, Nat.or_assoc, Nat.or_assoc]
  rw [or_shl_add _ b3.toNat 8 h3, or_shl_add _ _ 16 (by omega), or_shl_add _ _ 24 (by omega)]
  omega

/-- `to_rgb_u32` is `0x00_RR_GG_BB` for all bytes. -/
theorem pack_rgb (r g b : UInt8) :
    (toRgbU32 r g b).toNat = r.toNat * 2^16 + g.toNat * 2^8 + b.toNat := by
  rw [toRgbU32, fromBeBytes_toNat]; simp

/-- `to_rgba_u32` is `0xRR_GG_BB_AA` for all bytes. -/
theorem pack_rgba (r g b a : UInt8) :
    (toRgbaU32 r g b a).toNat = r.toNat * 2^24 + g.toNat * 2^16 + b.toNat * 2^8 + a.toNat := by
  rw [toRgbaU32, fromBeBytes_toNat]

/-- `to_argb_u32` (`rotate_right(8)` of the RGBA word) is `0xAA_RR_GG_BB` for all bytes. -/
theorem pack_argb (r g b a : UInt8) :
    (toArgbU32 r g b a).toNat = a.toNat * 2^24 + r.toNat * 2^16 + g.toNat * 2^8 + b.toNat := by
  have h0 := r.toNat_lt; have h1 := g.toNat_lt; have h2 := b.toNat_lt; have h3 := a.toNat_lt
  have e8 : UInt32.toNat 8 % 32 = 8 := by decide
  have e24 : UInt32.toNat (32 - 8) % 32 = 24 := by decide
  simp only [toArgbU32, rotateRight32, UInt32.toNat_or, UInt32.toNat_shiftLeft, UInt32.toNat_shiftRight,
    pack_rgba, e8, e24]
  have hx : (r.toNat * 2^24 + g.toNat * 2^16 + b.toNat * 2^8 + a.toNat) >>> 8
      = r.toNat * 2^16 + g.toNat * 2^8 + b.toNat := by
    rw [Nat.shiftRight_eq_div_pow]; omega
  have hy : (r.toNat * 2^24 + g.toNat * 2^16 + b.toNat * 2^8 + a.toNat) <<< 24 % 2^32
      = a.toNat <<< 24 := by
    rw [Nat.shiftLeft_eq, Nat.shiftLeft_eq]; omega
  rw [hx, hy, Nat.or_comm, or_shl_add _ _ 24 (by omega)]
  omega

/-- same statement as an equation between words: ARGB is `from_be_bytes([a, r, g, b])` -/
theorem pack_argb_eq (r g b a : UInt8) : toArgbU32 r g b a = fromBeBytes a r g b := by
  apply UInt32.toNat_inj.mp
  rw [pack_argb, fromBeBytes_toNat]

/-- reading the bytes back out of the RGBA word (most significant byte first) -/
theorem pack_rgba_bytes (r g b a : UInt8) :
    ((toRgbaU32 r g b a) >>> 24).toUInt8 = r ∧ ((toRgbaU32 r g b a) >>> 16).toUInt8 = g ∧
    ((toRgbaU32 r g b a) >>> 8).toUInt8 = b ∧ (toRgbaU32 r g b a).toUInt8 = a := by
  have h0 := r.toNat_lt; have h1 := g.toNat_lt; have h2 := b.toNat_lt; have h3 := a.toNat_lt
  have e24 : UInt32.toNat 24 % 32 = 24 := by decide
  have e16 : UInt32.toNat 16 % 32 = 16 := by decide
  have e8 : UInt32.toNat 8 % 32 = 8 := by decide
  refine ⟨?_, ?_, ?_, ?_⟩ <;> apply UInt8.toNat_inj.mp <;>
    simp only [UInt32.toNat_toUInt8, UInt32.toNat_shiftRight, pack_rgba, e24, e16, e8,
      Nat.shiftRight_eq_div_pow] <;> omega

/-- every one of the 2^32 words is the packing of its own four bytes (packing is onto) -/
theorem pack_rgba_onto (w : UInt32) :
    toRgbaU32 (w >>> 24).toUInt8 (w >>> 16).toUInt8 (w >>> 8).toUInt8 w.toUInt8 = w := by
  have hw := w.toNat_lt
  have e24 : UInt32.toNat 24 % 32 = 24 := by decide
  have e16 : UInt32.toNat 16 % 32 = 16 := by decide
  have e8 : UInt32.toNat 8 % 32 = 8 := by decide
  apply UInt32.toNat_inj.mp
  rw [pack_rgba]
  simp only [UInt32.toNat_toUInt8, UInt32.toNat_shiftRight, e24, e16, e8, Nat.shiftRight_eq_div_pow]
  omega

example : toRgbU32 0x11 0x22 0x33 = 0x00112233 := by decide
example : toRgbaU32 0x11 0x22 0x33 0x44 = 0x11223344 := by decide
example : toArgbU32 0x11 0x22 0x33 0x44 = 0x44112233 := by decide

/-! ### RGB <-> RGBA -/

/-- `to_rgba` keeps the channels and sets alpha to 0xFF; `to_rgb` keeps the channels and drops alpha;
`to_rgb ∘ to_rgba` is the identity. -/
theorem rgba_rgb (r g b a : UInt8) :
    rgbToRgba r g b = (r, g, b, 0xFF) ∧ rgbaToRgb r g b a = (r, g, b) ∧
    (match rgbToRgba r g b with | (x, y, z, t) => rgbaToRgb x y z t) = (r, g, b) :=
  ⟨rfl, rfl, rfl⟩

/-- float colours: alpha set to 1, channels untouched (any scalar) -/
theorem rgba_rgb_float {β : Type} [OfNat β 1] (r g b a : β) :
    rgbToRgbaF r g b = (r, g, b, 1) ∧ rgbaToRgb r g b a = (r, g, b) := ⟨rfl, rfl⟩

/-- HSLA <-> RGBA conversions carry alpha through unchanged -/
theorem hsla_alpha (r g b a : Int) : (toHsla8 r g b a).2.2.2 = a := rfl

theorem hsla_alpha_back (h s l a : Int) (c : Int × Int × Int × Int) (hc : hslaToRgba8 h s l a = .ok c) :
    c.2.2.2 = a := by
  unfold hslaToRgba8 at hc
  split at hc
  · cases hc; rfl
  · cases hc

/-! ### float -> 8 bit: `(c.clamp(0.0, 1.0) * 255.0) as u8` -/

/-- NaN ↦ 0. -/
theorem to_u8_nan (b : UInt32) (h : F32.isNaN b = true) : toU8 b = 0 := by
  unfold toU8; rw [isNaN_toRat? b h]; simp [h]

/-- every finite value ≤ 0 (including −0.0 and negative subnormals) ↦ 0 -/
theorem to_u8_nonpos (b : UInt32) (v : Rat) (hv : F32.toRat? b = some v) (h : v ≤ 0) : toU8 b = 0 := by
  unfold toU8; rw [hv]
  simp only
  by_cases h0 : v < 0
  · rw [if_pos h0]; exact mul255_zero
  · have : v = 0 := le_antisymm h (not_lt.mp h0)
    subst this
    simp only [lt_self_iff_false, if_false]
    exact mul255_zero

/-- every finite value ≥ 1 ↦ 255 -/
theorem to_u8_ge_one (b : UInt32) (v : Rat) (hv : F32.toRat? b = some v) (h : 1 ≤ v) : toU8 b = 255 := by
  unfold toU8; rw [hv]
  simp only
  have hn : ¬ v < 0 := not_lt.mpr (le_trans (by norm_num) h)
  rw [if_neg hn]
  by_cases h1 : v > 1
  · rw [if_pos h1]; exact mul255_one
  · have : v = 1 := le_antisymm (not_lt.mp h1) h
    subst this
    simp only [gt_iff_lt, lt_self_iff_false, if_false]
    exact mul255_one

/-- −∞ ↦ 0 and +∞ ↦ 255 -/
theorem to_u8_inf : toU8 0xFF800000 = 0 ∧ toU8 0x7F800000 = 255 := by
  constructor <;> decide +kernel

/-- inside `[0,1]` the clamp is the identity: the result is the truncated, once-rounded product -/
theorem to_u8_inside (b : UInt32) (v : Rat) (hv : F32.toRat? b = some v) (h0 : 0 ≤ v) (h1 : v ≤ 1) :
    toU8 b = castU8 (mul255 v) := by
  unfold toU8; rw [hv]
  simp only
  rw [if_neg (not_lt.mpr h0), if_neg (not_lt.mpr h1)]

/-- the three clamping statements of the property in one: NaN ↦ 0, < 0 ↦ 0, > 1 ↦ 255 -/
theorem to_u8_clamps (b : UInt32) :
    (F32.isNaN b = true → toU8 b = 0) ∧
    (∀ v, F32.toRat? b = some v → v < 0 → toU8 b = 0) ∧
    (∀ v, F32.toRat? b = some v → v > 1 → toU8 b = 255) :=
  ⟨to_u8_nan b, fun v hv h => to_u8_nonpos b v hv (le_of_lt h), fun v hv h => to_u8_ge_one b v hv (le_of_lt h)⟩

-- hypotheses are satisfiable: a NaN, −2.0, 1.5, 0.5
example : F32.isNaN 0x7FC00000 = true := by decide
example : F32.toRat? 0xC0000000 = some (-2) ∧ toU8 0xC0000000 = 0 := by decide +kernel
example : F32.toRat? 0x3FC00000 = some (3/2) ∧ toU8 0x3FC00000 = 255 := by decide +kernel
example : toU8 0x3F000000 = 127 := by decide +kernel

/-- `to_color4` of a three-channel float colour sets alpha to 0xFF -/
theorem to_color4_alpha (r g b : UInt32) : (toColor4of3 r g b).2.2.2 = 0xFF := rfl

end Retro.Props.C16
