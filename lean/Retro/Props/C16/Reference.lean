/-
C16: the sextant-table HSL -> RGB code of color.rs computes the same colour as the independent
closed-form reference used by the spec oracle (`Retro.Spec.Color.hslToRgbRef`, the CSS Color 4
formula `f(n) = l − a·max(−1, min(k−3, 9−k, 1))`, `k = (n + 12h) mod 12`), for every in-range HSL
colour, in exact arithmetic.  This is the "model = spec" theorem behind the oracle key
`rgbf-wrong-colour`: the two definitions share no code.
-/
import Retro.Props.C16.Field
import Retro.Spec.Color

namespace Retro.Props.C16
open Retro Retro.Color Retro.Spec.Color Retro.Lemmas.Color

/-- The reference on one sextant `[n, n+1)` of `H = 6h`, channel by channel.  `jr jg jb` are the
windows of `0 + 12h`, `8 + 12h`, `4 + 12h` modulo 12. -/
theorem reference_eq (h s l : ℚ) (hh : InUnit h) (hs : InUnit s) (hl : InUnit l) :
    toRgbF h s l = .ok (hslToRgbRef h s l) := by
  have L := ratLaws
  have hH0 : 0 ≤ h * 6 := by have := hh.1; positivity
  have hH6 : h * 6 ≤ 6 := by linarith [hh.2]
  have hc := chroma_two_a s l
  set a := s * ratMin l (1 - l) with ha
  have hm : offsetF (chromaF s l) l = l - a := by unfold offsetF; rw [hc]; ring
  unfold hslToRgbRef
  -- which sextant
  have hk0 : 0 ≤ ⌊h * 6⌋ := Int.floor_nonneg.mpr hH0
  have hk6 : ⌊h * 6⌋ ≤ 6 := by
    have : ⌊h * 6⌋ ≤ ⌊(6 : ℚ)⌋ := Int.floor_le_floor hH6
    simpa using this
  have hfl := Int.floor_le (h * 6)
  have hfl' := Int.lt_floor_add_one (h * 6)
  generalize hn : ⌊h * 6⌋ = n at hk0 hk6 hfl hfl'
  have hcases : n = 0 ∨ n = 1 ∨ n = 2 ∨ n = 3 ∨ n = 4 ∨ n = 5 ∨ n = 6 := by omega
  rcases hcases with rfl | rfl | rfl | rfl | rfl | rfl | rfl
  · -- sextant 0: (c, x, 0), x = c·H
    have hx := secondF_even L (chromaF s l) (H := h * 6) 0 le_rfl (by push_cast at *; linarith) (by push_cast at *; linarith)
    rw [toRgbF_sextant L h s l hh hs hl 0 le_rfl (by simpa using hfl) (by simpa using hfl')
        (a1 := (chromaF s l)) (a2 := (secondF (chromaF s l) (h * 6))) (a3 := (0 : ℚ)) (by simp [sextantF]),
      hx, hm, hc,
      hslChannel_eq 0 h s l 0 (by push_cast at *; linarith) (by push_cast at *; linarith),
      hslChannel_eq 8 h s l 0 (by push_cast at *; linarith) (by push_cast at *; linarith),
      hslChannel_eq 4 h s l 0 (by push_cast at *; linarith) (by push_cast at *; linarith),
      trap_lo _ (by push_cast at *; linarith), trap_down _ (by push_cast at *; linarith) (by push_cast at *; linarith),
      trap_top _ (by push_cast at *; linarith) (by push_cast at *; linarith)]
    push_cast
    refine congrArg Outcome.ok (Prod.ext ?_ (Prod.ext ?_ ?_)) <;> simp only [] <;> ring
  · -- sextant 1: (x, c, 0), x = c·(2 − H)
    have hx := secondF_odd L (chromaF s l) (H := h * 6) 0 le_rfl (by push_cast at *; linarith) (by push_cast at *; linarith)
    rw [toRgbF_sextant L h s l hh hs hl 1 (by norm_num) (by simpa using hfl) (by simpa using hfl')
        (a1 := (secondF (chromaF s l) (h * 6))) (a2 := (chromaF s l)) (a3 := (0 : ℚ)) (by simp [sextantF]),
      hx, hm, hc,
      hslChannel_eq 0 h s l 0 (by push_cast at *; linarith) (by push_cast at *; linarith),
      hslChannel_eq 8 h s l 0 (by push_cast at *; linarith) (by push_cast at *; linarith),
      hslChannel_eq 4 h s l 0 (by push_cast at *; linarith) (by push_cast at *; linarith),
      trap_up _ (by push_cast at *; linarith) (by push_cast at *; linarith), trap_hi _ (by push_cast at *; linarith),
      trap_top _ (by push_cast at *; linarith) (by push_cast at *; linarith)]
    push_cast
    refine congrArg Outcome.ok (Prod.ext ?_ (Prod.ext ?_ ?_)) <;> simp only [] <;> ring
  · -- sextant 2: (0, c, x), x = c·(H − 2)
    have hx := secondF_even L (chromaF s l) (H := h * 6) 1 (by norm_num) (by push_cast at *; linarith) (by push_cast at *; linarith)
    rw [toRgbF_sextant L h s l hh hs hl 2 (by norm_num) (by simpa using hfl) (by simpa using hfl')
        (a1 := (0 : ℚ)) (a2 := (chromaF s l)) (a3 := (secondF (chromaF s l) (h * 6))) (by simp [sextantF]),
      hx, hm, hc,
      hslChannel_eq 0 h s l 0 (by push_cast at *; linarith) (by push_cast at *; linarith),
      hslChannel_eq 8 h s l 1 (by push_cast at *; linarith) (by push_cast at *; linarith),
      hslChannel_eq 4 h s l 0 (by push_cast at *; linarith) (by push_cast at *; linarith),
      trap_top _ (by push_cast at *; linarith) (by push_cast at *; linarith), trap_lo _ (by push_cast at *; linarith),
      trap_down _ (by push_cast at *; linarith) (by push_cast at *; linarith)]
    push_cast
    refine congrArg Outcome.ok (Prod.ext ?_ (Prod.ext ?_ ?_)) <;> simp only [] <;> ring
  · -- sextant 3: (0, x, c), x = c·(4 − H)
    have hx := secondF_odd L (chromaF s l) (H := h * 6) 1 (by norm_num) (by push_cast at *; linarith) (by push_cast at *; linarith)
    rw [toRgbF_sextant L h s l hh hs hl 3 (by norm_num) (by simpa using hfl) (by simpa using hfl')
        (a1 := (0 : ℚ)) (a2 := (secondF (chromaF s l) (h * 6))) (a3 := (chromaF s l)) (by simp [sextantF]),
      hx, hm, hc,
      hslChannel_eq 0 h s l 0 (by push_cast at *; linarith) (by push_cast at *; linarith),
      hslChannel_eq 8 h s l 1 (by push_cast at *; linarith) (by push_cast at *; linarith),
      hslChannel_eq 4 h s l 0 (by push_cast at *; linarith) (by push_cast at *; linarith),
      trap_top _ (by push_cast at *; linarith) (by push_cast at *; linarith),
      trap_up _ (by push_cast at *; linarith) (by push_cast at *; linarith), trap_hi _ (by push_cast at *; linarith)]
    push_cast
    refine congrArg Outcome.ok (Prod.ext ?_ (Prod.ext ?_ ?_)) <;> simp only [] <;> ring
  · -- sextant 4: (x, 0, c), x = c·(H − 4)
    have hx := secondF_even L (chromaF s l) (H := h * 6) 2 (by norm_num) (by push_cast at *; linarith) (by push_cast at *; linarith)
    rw [toRgbF_sextant L h s l hh hs hl 4 (by norm_num) (by simpa using hfl) (by simpa using hfl')
        (a1 := (secondF (chromaF s l) (h * 6))) (a2 := (0 : ℚ)) (a3 := (chromaF s l)) (by simp [sextantF]),
      hx, hm, hc,
      hslChannel_eq 0 h s l 0 (by push_cast at *; linarith) (by push_cast at *; linarith),
      hslChannel_eq 8 h s l 1 (by push_cast at *; linarith) (by push_cast at *; linarith),
      hslChannel_eq 4 h s l 1 (by push_cast at *; linarith) (by push_cast at *; linarith),
      trap_down _ (by push_cast at *; linarith) (by push_cast at *; linarith),
      trap_top _ (by push_cast at *; linarith) (by push_cast at *; linarith), trap_lo _ (by push_cast at *; linarith)]
    push_cast
    refine congrArg Outcome.ok (Prod.ext ?_ (Prod.ext ?_ ?_)) <;> simp only [] <;> ring
  · -- sextant 5: (c, 0, x), x = c·(6 − H)
    have hx := secondF_odd L (chromaF s l) (H := h * 6) 2 (by norm_num) (by push_cast at *; linarith) (by push_cast at *; linarith)
    rw [toRgbF_sextant L h s l hh hs hl 5 (by norm_num) (by simpa using hfl) (by simpa using hfl')
        (a1 := (chromaF s l)) (a2 := (0 : ℚ)) (a3 := (secondF (chromaF s l) (h * 6))) (by simp [sextantF]),
      hx, hm, hc,
      hslChannel_eq 0 h s l 0 (by push_cast at *; linarith) (by push_cast at *; linarith),
      hslChannel_eq 8 h s l 1 (by push_cast at *; linarith) (by push_cast at *; linarith),
      hslChannel_eq 4 h s l 1 (by push_cast at *; linarith) (by push_cast at *; linarith),
      trap_hi _ (by push_cast at *; linarith),
      trap_top _ (by push_cast at *; linarith) (by push_cast at *; linarith),
      trap_up _ (by push_cast at *; linarith) (by push_cast at *; linarith)]
    push_cast
    refine congrArg Outcome.ok (Prod.ext ?_ (Prod.ext ?_ ?_)) <;> simp only [] <;> ring
  · -- h = 1 exactly: the code folds it into sextant 5 with x = 0; the reference wraps around
    have h1 : h = 1 := by push_cast at hfl; linarith [hh.2]
    subst h1
    rw [hue_one_eq_zero L s l]
    have hx := secondF_even L (chromaF s l) (H := (0 : ℚ) * 6) 0 le_rfl (by norm_num) (by norm_num)
    rw [toRgbF_sextant L 0 s l ⟨le_rfl, zero_le_one⟩ hs hl 0 le_rfl (by norm_num) (by norm_num)
        (a1 := chromaF s l) (a2 := secondF (chromaF s l) ((0 : ℚ) * 6)) (a3 := 0) (by simp [sextantF]),
      hx, hm, hc,
      hslChannel_eq 0 1 s l 1 (by norm_num) (by norm_num),
      hslChannel_eq 8 1 s l 1 (by norm_num) (by norm_num),
      hslChannel_eq 4 1 s l 1 (by norm_num) (by norm_num),
      trap_lo _ (by norm_num), trap_top _ (by norm_num) (by norm_num), trap_top _ (by norm_num) (by norm_num)]
    push_cast
    refine congrArg Outcome.ok (Prod.ext ?_ (Prod.ext ?_ ?_)) <;> simp only [] <;> ring

example : InUnit (1/5 : ℚ) ∧ InUnit (1 : ℚ) ∧ InUnit (1/2 : ℚ) := by unfold InUnit; norm_num
example : hslToRgbRef (1/5) 1 (1/2) = (4/5, 1, 0) := by decide +kernel

end Retro.Props.C16
