/-
C16, 8-bit round trip RGB -> HSL -> RGB over all 2^24 colours.

The bound comes from three nested quantisations (hue / 6, saturation and lightness to 8 bits) and
has no short algebraic proof; it is checked by *complete enumeration* of the 2^24 inputs.
`decide +kernel` is infeasible at this size (measured: 65 536 cases > 6 min), so this one theorem
uses `native_decide` (declared in props/C16.json and DESIGN.md section 5): it adds trust in the Lean
compiler for `rgb_hsl_roundtrip_u8` only.  The reduction from the universally quantified statement
to the enumeration (`allBelow_spec`) is proved in the kernel.
-/
import Retro.Props.C16.Int8

namespace Retro.Props.C16
open Retro Retro.Color Retro.Lemmas.Color

/-- the per-colour check: the round trip does not panic and every channel moves by at most 8 -/
def rtOk (r g b : Nat) : Bool :=
  match roundTrip8 r g b with
  | .ok (r', g', b') =>
    decide (((r : Int) - r').natAbs ≤ 8) && decide (((g : Int) - g').natAbs ≤ 8) && decide (((b : Int) - b').natAbs ≤ 8)
  | .panic _ => false

/-- **All 2^24 8-bit RGB colours**: converting to HSL and back never panics and changes every
channel by at most 8 (the property's 8/255). By enumeration (`native_decide`, see file header). -/
theorem rgb_hsl_roundtrip_u8 (r g b : Int) (hr : IsU8 r) (hg : IsU8 g) (hb : IsU8 b) :
    ∃ r' g' b', roundTrip8 r g b = .ok (r', g', b') ∧
      (r - r').natAbs ≤ 8 ∧ (g - g').natAbs ≤ 8 ∧ (b - b').natAbs ≤ 8 := by
  have hall : allBelow 256 (fun r => allBelow 256 fun g => allBelow 256 fun b => rtOk r g b) = true := by
    native_decide
  unfold IsU8 at hr hg hb
  obtain ⟨rn, rfl⟩ := Int.eq_ofNat_of_zero_le hr.1
  obtain ⟨gn, rfl⟩ := Int.eq_ofNat_of_zero_le hg.1
  obtain ⟨bn, rfl⟩ := Int.eq_ofNat_of_zero_le hb.1
  have h := allBelow_spec (allBelow_spec (allBelow_spec hall rn (by omega)) gn (by omega)) bn (by omega)
  unfold rtOk at h
  split at h
  · rename_i r' g' b' heq
    simp only [Bool.and_eq_true, decide_eq_true_eq] at h
    exact ⟨r', g', b', heq, h.1.1, h.1.2, h.2⟩
  · exact absurd h (by simp)

example : IsU8 255 ∧ IsU8 251 ∧ IsU8 0 := by decide
/-- the bound is nearly sharp: pure yellow comes back 4 off, and errors of 7 occur -/
example : roundTrip8 255 255 0 = .ok (255, 251, 0) := by decide

end Retro.Props.C16
