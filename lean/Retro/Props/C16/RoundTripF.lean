/-
C16: the float round trip RGB -> HSL -> RGB is the identity in exact arithmetic, for every in-range
colour, over any ordered field with floor.  Ten cases: gray; max = r with g < b, g ≥ b, and the
boundary g = max; max = g likewise; max = b twice.
-/
import Retro.Props.C16.Field

set_option linter.unusedSectionVars false

namespace Retro.Props.C16
open Retro Retro.Color Retro.Lemmas.Color

variable {K : Type} [Field K] [LinearOrder K] [IsStrictOrderedRing K] [FloorRing K]
  [HasFloor K] [HasTruncI K]

/-- **Exact round trip**: for every RGB colour in `[0,1]³`, `to_rgb(to_hsl(c)) = c`, and neither
conversion trips an assertion. -/
theorem hsl_rgb_roundtrip_field (L : FloorLaws K) (r g b : K)
    (hr : InUnit r) (hg : InUnit g) (hb : InUnit b) : roundTripF r g b = .ok (r, g, b) := by
  obtain ⟨hok, -, -, -⟩ := hsl_in_range L r g b hr hg hb
  obtain ⟨hC, -⟩ := chroma_sat r g b hr hg hb
  have hM := offset_light r g b
  have h6 := hueF_six L r g b
  obtain ⟨hr1, hg1, hb1, hmx⟩ := mx_facts r g b
  obtain ⟨hr0, hg0, hb0, hmn⟩ := mn_facts r g b
  unfold roundTripF
  rw [hok]
  simp only
  set mx := max (max r g) b with hmxdef
  set mn := min (min r g) b with hmndef
  set s := satF r g b
  set l := lightF r g b
  -- every case ends with `toRgbF_finish`; chroma and offset are rewritten to `mx - mn` and `mn`
  by_cases hd : mx - mn = 0
  · -- gray
    rw [if_pos hd] at h6
    have hrg : r = mn := by linarith
    have hgg : g = mn := by linarith
    have hbg : b = mn := by linarith
    refine toRgbF_finish L 0 le_rfl (by rw [h6]; simp) (by rw [h6]; simp)
      (a1 := mx - mn) (a2 := secondF (mx - mn) (hueF r g b * 6)) (a3 := 0) (by rw [hC]; simp [sextantF]) ?_ ?_ ?_ hr hg hb
    · rw [hC, hM]; linarith
    · rw [hC, hM, hd]; unfold secondF; rw [hgg]; ring
    · rw [hC, hM]; linarith
  · have hdpos : 0 < mx - mn := lt_of_le_of_ne (by linarith) (Ne.symm hd)
    have hdne : mx - mn ≠ 0 := hd
    rw [if_neg hd] at h6
    by_cases hmr : mx = r
    · rw [if_pos hmr] at h6
      obtain ⟨q1, q2⟩ := quot_bounds (lo := mn) (hi := mx) hdpos ⟨hg0, hg1⟩ ⟨hb0, hb1⟩
      by_cases hq : (g - b) / (mx - mn) < 0
      · -- B1: g < b, H = q + 6 ∈ [5, 6)
        rw [if_pos hq] at h6
        have hgb : g - b < 0 := by
          by_contra hcon
          exact absurd (div_nonneg (not_lt.mp hcon) hdpos.le) (not_le.mpr hq)
        have hmng : mn = g := by rcases hmn with e | e | e <;> linarith
        have hx : secondF (mx - mn) (hueF r g b * 6) = b - g := by
          rw [secondF_odd L _ 2 (by norm_num) (by rw [h6]; push_cast; linarith) (by rw [h6]; push_cast; linarith), h6]
          push_cast; field_simp; ring
        refine toRgbF_finish L 5 (by norm_num) (by rw [h6]; push_cast; linarith) (by rw [h6]; push_cast; linarith)
          (a1 := mx - mn) (a2 := 0) (a3 := secondF (mx - mn) (hueF r g b * 6)) (by rw [hC]; simp [sextantF]) ?_ ?_ ?_ hr hg hb
        · rw [hC, hM]; linarith
        · rw [hC, hM]; linarith
        · rw [hC, hM, hx]; linarith
      · rw [if_neg hq] at h6
        have hq0 : 0 ≤ (g - b) / (mx - mn) := not_lt.mp hq
        have hgb : 0 ≤ g - b := by
          by_contra hcon
          exact absurd (div_neg_of_neg_of_pos (not_le.mp hcon) hdpos) (not_lt.mpr hq0)
        have hmnb : mn = b := by rcases hmn with e | e | e <;> linarith
        by_cases hq1 : (g - b) / (mx - mn) < 1
        · -- B2: H = q ∈ [0, 1)
          have hx : secondF (mx - mn) (hueF r g b * 6) = g - b := by
            rw [secondF_even L _ 0 le_rfl (by rw [h6]; push_cast; linarith) (by rw [h6]; push_cast; linarith), h6]
            push_cast; field_simp; ring
          refine toRgbF_finish L 0 le_rfl (by rw [h6]; push_cast; linarith) (by rw [h6]; push_cast; linarith)
            (a1 := mx - mn) (a2 := secondF (mx - mn) (hueF r g b * 6)) (a3 := 0) (by rw [hC]; simp [sextantF]) ?_ ?_ ?_ hr hg hb
          · rw [hC, hM]; linarith
          · rw [hC, hM, hx]; linarith
          · rw [hC, hM]; linarith
        · -- B3: q = 1, H = 1, g = max
          have hqe : (g - b) / (mx - mn) = 1 := le_antisymm q2 (not_lt.mp hq1)
          have hgbd : g - b = mx - mn := by rw [div_eq_iff hdne] at hqe; linarith
          have hx : secondF (mx - mn) (hueF r g b * 6) = mx - mn := by
            rw [secondF_odd L _ 0 le_rfl (by rw [h6, hqe]; push_cast; linarith) (by rw [h6, hqe]; push_cast; linarith), h6, hqe]
            push_cast; ring
          refine toRgbF_finish L 1 (by norm_num) (by rw [h6, hqe]; push_cast; linarith) (by rw [h6, hqe]; push_cast; linarith)
            (a1 := secondF (mx - mn) (hueF r g b * 6)) (a2 := mx - mn) (a3 := 0) (by rw [hC]; simp [sextantF]) ?_ ?_ ?_ hr hg hb
          · rw [hC, hM, hx]; linarith
          · rw [hC, hM]; linarith
          · rw [hC, hM]; linarith
    · rw [if_neg hmr] at h6
      have hrlt : r < mx := lt_of_le_of_ne hr1 (Ne.symm hmr)
      by_cases hmg : mx = g
      · rw [if_pos hmg] at h6
        obtain ⟨q1, q2⟩ := quot_bounds (lo := mn) (hi := mx) hdpos ⟨hb0, hb1⟩ ⟨hr0, hr1⟩
        by_cases hq : (b - r) / (mx - mn) < 0
        · -- C1: b < r, H = q + 2 ∈ (1, 2)
          have hbr : b - r < 0 := by
            by_contra hcon
            exact absurd (div_nonneg (not_lt.mp hcon) hdpos.le) (not_le.mpr hq)
          have hmnb : mn = b := by rcases hmn with e | e | e <;> linarith
          have hx : secondF (mx - mn) (hueF r g b * 6) = r - b := by
            rw [secondF_odd L _ 0 le_rfl (by rw [h6]; push_cast; linarith) (by rw [h6]; push_cast; linarith), h6]
            push_cast; field_simp; ring
          refine toRgbF_finish L 1 (by norm_num) (by rw [h6]; push_cast; linarith) (by rw [h6]; push_cast; linarith)
            (a1 := secondF (mx - mn) (hueF r g b * 6)) (a2 := mx - mn) (a3 := 0) (by rw [hC]; simp [sextantF]) ?_ ?_ ?_ hr hg hb
          · rw [hC, hM, hx]; linarith
          · rw [hC, hM]; linarith
          · rw [hC, hM]; linarith
        · have hq0 : 0 ≤ (b - r) / (mx - mn) := not_lt.mp hq
          have hbr : 0 ≤ b - r := by
            by_contra hcon
            exact absurd (div_neg_of_neg_of_pos (not_le.mp hcon) hdpos) (not_lt.mpr hq0)
          have hmnr : mn = r := by rcases hmn with e | e | e <;> linarith
          by_cases hq1 : (b - r) / (mx - mn) < 1
          · -- C2: H = q + 2 ∈ [2, 3)
            have hx : secondF (mx - mn) (hueF r g b * 6) = b - r := by
              rw [secondF_even L _ 1 (by norm_num) (by rw [h6]; push_cast; linarith) (by rw [h6]; push_cast; linarith), h6]
              push_cast; field_simp; ring
            refine toRgbF_finish L 2 (by norm_num) (by rw [h6]; push_cast; linarith) (by rw [h6]; push_cast; linarith)
              (a1 := 0) (a2 := mx - mn) (a3 := secondF (mx - mn) (hueF r g b * 6)) (by rw [hC]; simp [sextantF]) ?_ ?_ ?_ hr hg hb
            · rw [hC, hM]; linarith
            · rw [hC, hM]; linarith
            · rw [hC, hM, hx]; linarith
          · -- C3: q = 1, H = 3, b = max
            have hqe : (b - r) / (mx - mn) = 1 := le_antisymm q2 (not_lt.mp hq1)
            have hbrd : b - r = mx - mn := by rw [div_eq_iff hdne] at hqe; linarith
            have hx : secondF (mx - mn) (hueF r g b * 6) = mx - mn := by
              rw [secondF_odd L _ 1 (by norm_num) (by rw [h6, hqe]; push_cast; linarith) (by rw [h6, hqe]; push_cast; linarith), h6, hqe]
              push_cast; ring
            refine toRgbF_finish L 3 (by norm_num) (by rw [h6, hqe]; push_cast; linarith) (by rw [h6, hqe]; push_cast; linarith)
              (a1 := 0) (a2 := secondF (mx - mn) (hueF r g b * 6)) (a3 := mx - mn) (by rw [hC]; simp [sextantF]) ?_ ?_ ?_ hr hg hb
            · rw [hC, hM]; linarith
            · rw [hC, hM, hx]; linarith
            · rw [hC, hM]; linarith
      · rw [if_neg hmg] at h6
        have hglt : g < mx := lt_of_le_of_ne hg1 (Ne.symm hmg)
        have hmb : mx = b := by rcases hmx with e | e | e <;> [exact absurd e hmr; exact absurd e hmg; exact e]
        obtain ⟨q1, q2⟩ := quot_bounds (lo := mn) (hi := mx) hdpos ⟨hr0, hr1⟩ ⟨hg0, hg1⟩
        by_cases hq : (r - g) / (mx - mn) < 0
        · -- D1: r < g, H = q + 4 ∈ (3, 4)
          have hrg : r - g < 0 := by
            by_contra hcon
            exact absurd (div_nonneg (not_lt.mp hcon) hdpos.le) (not_le.mpr hq)
          have hmnr : mn = r := by rcases hmn with e | e | e <;> linarith
          have hqm : -1 < (r - g) / (mx - mn) := by rw [lt_div_iff₀ hdpos]; linarith
          have hx : secondF (mx - mn) (hueF r g b * 6) = g - r := by
            rw [secondF_odd L _ 1 (by norm_num) (by rw [h6]; push_cast; linarith) (by rw [h6]; push_cast; linarith), h6]
            push_cast; field_simp; ring
          refine toRgbF_finish L 3 (by norm_num) (by rw [h6]; push_cast; linarith) (by rw [h6]; push_cast; linarith)
            (a1 := 0) (a2 := secondF (mx - mn) (hueF r g b * 6)) (a3 := mx - mn) (by rw [hC]; simp [sextantF]) ?_ ?_ ?_ hr hg hb
          · rw [hC, hM]; linarith
          · rw [hC, hM, hx]; linarith
          · rw [hC, hM]; linarith
        · -- D2: g ≤ r, H = q + 4 ∈ [4, 5)
          have hq0 : 0 ≤ (r - g) / (mx - mn) := not_lt.mp hq
          have hrg : 0 ≤ r - g := by
            by_contra hcon
            exact absurd (div_neg_of_neg_of_pos (not_le.mp hcon) hdpos) (not_lt.mpr hq0)
          have hmng : mn = g := by rcases hmn with e | e | e <;> linarith
          have hq1 : (r - g) / (mx - mn) < 1 := by rw [div_lt_iff₀ hdpos]; linarith
          have hx : secondF (mx - mn) (hueF r g b * 6) = r - g := by
            rw [secondF_even L _ 2 (by norm_num) (by rw [h6]; push_cast; linarith) (by rw [h6]; push_cast; linarith), h6]
            push_cast; field_simp; ring
          refine toRgbF_finish L 4 (by norm_num) (by rw [h6]; push_cast; linarith) (by rw [h6]; push_cast; linarith)
            (a1 := secondF (mx - mn) (hueF r g b * 6)) (a2 := 0) (a3 := mx - mn) (by rw [hC]; simp [sextantF]) ?_ ?_ ?_ hr hg hb
          · rw [hC, hM, hx]; linarith
          · rw [hC, hM]; linarith
          · rw [hC, hM]; linarith

example : InUnit (3/10 : ℚ) ∧ InUnit (1/5 : ℚ) ∧ InUnit (1/10 : ℚ) := by unfold InUnit; norm_num
example : roundTripF (3/10 : ℚ) (1/5) (1/10) = .ok (3/10, 1/5, 1/10) := by decide +kernel

/-- the statement at the scalar the compiled driver uses -/
theorem hsl_rgb_roundtrip_rat (r g b : ℚ) (hr : InUnit r) (hg : InUnit g) (hb : InUnit b) :
    roundTripF r g b = .ok (r, g, b) := hsl_rgb_roundtrip_field ratLaws r g b hr hg hb

/-! ### consequences, error branches, and what is not proved -/


/-- consequence of the exact round trip: `to_hsl` is injective on in-range colours -/
theorem to_hsl_injective (L : FloorLaws K) (r g b r' g' b' : K)
    (hr : InUnit r) (hg : InUnit g) (hb : InUnit b) (hr' : InUnit r') (hg' : InUnit g') (hb' : InUnit b')
    (h : toHslF r g b = toHslF r' g' b') : (r, g, b) = (r', g', b') := by
  have h1 := hsl_rgb_roundtrip_field L r g b hr hg hb
  have h2 := hsl_rgb_roundtrip_field L r' g' b' hr' hg' hb'
  unfold roundTripF at h1 h2
  rw [h] at h1
  rw [h1] at h2
  exact Outcome.ok.inj h2

/-- the error branch: a hue below `-1/6` reaches the `unreachable!` arm (the model reports the
panic, it does not invent a colour) -/
theorem to_rgb_negative_hue_unreachable (L : FloorLaws K) (h s l : K) (hh : h * 6 ≤ -1) :
    toRgbF h s l = .panic "unreachable" := by
  have hneg : h * 6 < 0 := by linarith
  have hk : HasTruncI.truncI (h * 6) ≤ -1 := by
    rw [L.trunc_eq, if_pos hneg]
    have : (1 : ℤ) ≤ ⌊-(h * 6)⌋ := Int.le_floor.mpr (by push_cast; linarith)
    omega
  have hs : sextantF (HasTruncI.truncI (h * 6)) (chromaF s l) (secondF (chromaF s l) (h * 6)) = none := by
    generalize HasTruncI.truncI (h * 6) = k at hk
    unfold sextantF
    simp only [show k ≤ 5 by omega, if_true]
    rw [if_neg (by omega), if_neg (by omega), if_neg (by omega), if_neg (by omega), if_neg (by omega), if_neg (by omega)]
  unfold toRgbF
  simp only [hs]

example : ((-1/2 : ℚ)) * 6 ≤ -1 := by norm_num
example : toRgbF (-1/2 : ℚ) (1/2) (1/2) = .panic "unreachable" := by decide +kernel

/-- the other error branch: an out-of-range saturation trips the channel assertion -/
example : toRgbF (1/2 : ℚ) 2 (1/2) = .panic "channel oob" := by decide +kernel
example : toHslF (3 : ℚ) 0 0 = .panic "channel oob" := by decide +kernel

/-- regression witness of defect D9 (fixed in /repo by fe8af0c): inside the second sextant the
code as it is now returns (0.8, 1, 0); the old rounding selection returned (1, 0.8, 0). -/
example : toRgbF (1/5 : ℚ) 1 (1/2) = .ok (4/5, 1, 0) := by decide +kernel

/-
Full-strength statement of the property for floating-point colours — **NOT proved anywhere in this
development**:

  ∀ r g b : f32 in [0,1],  to_rgb(to_hsl(rgb(r,g,b))) is within 1e-4 of (r,g,b) per channel,
  and no debug_assert! fires, in IEEE-754 binary32 arithmetic.

What is proved is only its exact-arithmetic shadow: the same code read over the rationals (or any
ordered field) returns the input with error 0 (`hsl_rgb_roundtrip_field`, `hsl_rgb_roundtrip_rat`).
Missing for the real statement: a rounding-error analysis of the ~12 float operations (the
cancellation in `1 - |2l - 1|` makes the saturation ill-conditioned for very dark / light colours;
two genuine defects of exactly that kind were found by the correspondence and fixed in /repo, see
design/C16.md).  The 1e-4 bound on the real `f32` code is checked by the spec oracle on dense grids
and random colours, not by theorem.
-/
/-- **A theorem about rationals, not about `f32`.**  The proved part of the float round-trip clause:
in exact arithmetic the round trip is the identity.  It says nothing about rounding. -/
theorem hsl_rgb_roundtrip_exact_arithmetic_partial (r g b : ℚ) (hr : InUnit r) (hg : InUnit g) (hb : InUnit b) :
    roundTripF r g b = .ok (r, g, b) := hsl_rgb_roundtrip_rat r g b hr hg hb

end Retro.Props.C16
