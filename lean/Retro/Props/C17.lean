/-
C17 — Bézier curves and splines evaluate, differentiate and subdivide correctly.
Property theorems, split over sub-modules (all in `namespace Retro.Props.C17`):
  Bezier  – single cubic: ends, Bernstein form, evaluator agreement, bounding box, tangent
  Deriv   – the tangent formula is `Polynomial.derivative` of the Bernstein polynomial
  Spline  – `new`, segment selection never out of bounds, knots, segments, joins
  Curve   – model = spec curve, spline tangent, smoothstep / smootherstep
  Approx  – `approximate`: termination, endpoints, increasing dyadic parameters, justification
  Lipschitz – each component of `eval` is 3·n·M-Lipschitz on [0,1], across joins
  Rays – `from_rays`: accepted iff ≥ 2 rays, segments p, p+v, q−w, q, C¹ at the knots
  Continuity – over ℝ: every component of `eval` is a continuous function of t
  Dyadic – IEEE binary32 bit level: the bisection parameters of `approximate` (`a.lerp(&b, 0.5)` in f32) are
           exact, strictly increasing and distinct down to depth 24 (len < 2^15); sharp at depth 25
-/
import Retro.Props.C17.Bezier
import Retro.Props.C17.Deriv
import Retro.Props.C17.Spline
import Retro.Props.C17.Curve
import Retro.Props.C17.Approx
import Retro.Props.C17.Lipschitz
import Retro.Props.C17.Continuity
import Retro.Props.C17.Rays
import Retro.Props.C17.Dyadic
