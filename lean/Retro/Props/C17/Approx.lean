/-
C17, part 3: `BezierSpline::approximate` / `do_approx` – termination, endpoints, strictly
increasing dyadic parameters, and the justification of every emitted piece.

`halt` is an arbitrary state-passing function (`σ → err → Bool × σ`): the theorems hold for every
caller-supplied criterion, pure (`σ = Unit`) or with interior state.
-/
import Retro.Props.C17.Spline
import Mathlib.Tactic.Ring
import Mathlib.Tactic.FieldSimp
import Mathlib.Tactic.Positivity

set_option linter.unusedSectionVars false

namespace Retro.Props.C17
open Retro Retro.Spline Retro.Spec.Spline Retro.Lemmas.Spline

variable {K : Type} [Field K] [LinearOrder K] [IsStrictOrderedRing K] [FloorRing K]

/-- The three evaluations of `do_approx` succeed on a valid spline for any interval. -/
theorem approxErr_ok (pts : List (List K)) (h : Valid pts) (a b : K) :
    ∃ ap err, approxErr pts a b = .ok (ap, err) ∧ splineEval pts a = .ok ap := by
  obtain ⟨ap, ha⟩ := splineEval_ok pts h a
  obtain ⟨bp, hb⟩ := splineEval_ok pts h b
  obtain ⟨r, hr⟩ := splineEval_ok pts h (lerp a b (1 / 2))
  refine ⟨ap, vsub r (vlerp ap bp (1 / 2)), ?_, ha⟩
  unfold approxErr
  simp only [ha, hb, hr]

/-- `a.lerp(&b, 0.5)` is the midpoint. -/
theorem mid_eq (a b : K) : lerp a b (1 / 2) = (a + b) / 2 := by unfold lerp; ring

theorem mid_between {a b : K} (h : a < b) : a < lerp a b (1 / 2) ∧ lerp a b (1 / 2) < b := by
  rw [mid_eq]; constructor <;> linarith

/-- `ps` tiles `[a, b]`: it starts at `a`, every piece ends where the next begins, and the last
piece ends at `b`. -/
def Contig : K → K → List (Piece K) → Prop
  | _, _, [] => False
  | a, b, [p] => p.a = a ∧ p.b = b
  | a, b, p :: q :: rest => p.a = a ∧ Contig p.b b (q :: rest)

theorem contig_append {a m b : K} {l1 l2 : List (Piece K)} (h1 : Contig a m l1) (h2 : Contig m b l2) :
    Contig a b (l1 ++ l2) := by
  induction l1 generalizing a with
  | nil => exact h1.elim
  | cons p rest ih =>
    cases rest with
    | nil =>
      obtain ⟨ha, hb⟩ := h1
      cases l2 with
      | nil => exact h2.elim
      | cons q r =>
        show p.a = a ∧ Contig p.b b (q :: r)
        exact ⟨ha, by rw [hb]; exact h2⟩
    | cons q r =>
      obtain ⟨ha, hc⟩ := h1
      show p.a = a ∧ Contig p.b b (q :: (r ++ l2))
      exact ⟨ha, ih hc⟩

/-- In a tiling by non-degenerate pieces, every piece lies inside `[a, b]`. -/
theorem contig_bounds {a b : K} {l : List (Piece K)} (hc : Contig a b l)
    (hlt : ∀ p ∈ l, p.a < p.b) : ∀ p ∈ l, a ≤ p.a ∧ p.b ≤ b := by
  induction l generalizing a with
  | nil => exact hc.elim
  | cons p rest ih =>
    cases rest with
    | nil =>
      obtain ⟨ha, hb⟩ := hc
      intro q hq
      simp only [List.mem_singleton] at hq
      subst hq; exact ⟨ha.ge, hb.le⟩
    | cons q r =>
      obtain ⟨ha, hc'⟩ := hc
      intro x hx
      rcases List.mem_cons.mp hx with rfl | hx
      · have hq := ih hc' (fun y hy => hlt y (List.mem_cons_of_mem _ hy)) q (List.mem_cons_self ..)
        have hqlt := hlt q (List.mem_cons_of_mem _ (List.mem_cons_self ..))
        have hxlt := hlt x (List.mem_cons_self ..)
        exact ⟨ha.ge, by linarith [hq.1, hq.2]⟩
      · have := ih hc' (fun y hy => hlt y (List.mem_cons_of_mem _ hy)) x hx
        have hplt := hlt p (List.mem_cons_self ..)
        exact ⟨by linarith [this.1], this.2⟩

/-- The start parameters of a tiling by non-degenerate pieces are strictly increasing. -/
theorem contig_sorted {a b : K} {l : List (Piece K)} (hc : Contig a b l)
    (hlt : ∀ p ∈ l, p.a < p.b) : List.Pairwise (· < ·) (l.map (·.a)) := by
  induction l generalizing a with
  | nil => exact hc.elim
  | cons p rest ih =>
    cases rest with
    | nil => simp
    | cons q r =>
      obtain ⟨_, hc'⟩ := hc
      have hrest := ih hc' (fun y hy => hlt y (List.mem_cons_of_mem _ hy))
      rw [List.map_cons, List.pairwise_cons]
      refine ⟨?_, hrest⟩
      intro x hx
      obtain ⟨y, hy, rfl⟩ := List.mem_map.mp hx
      have hb := contig_bounds hc' (fun y hy => hlt y (List.mem_cons_of_mem _ hy)) y hy
      have := hlt p (List.mem_cons_self ..)
      linarith [hb.1]

theorem contig_head {a b : K} {l : List (Piece K)} (hc : Contig a b l) :
    ∃ p rest, l = p :: rest ∧ p.a = a := by
  cases l with
  | nil => exact hc.elim
  | cons p rest =>
    cases rest with
    | nil => exact ⟨p, [], rfl, hc.1⟩
    | cons q r => exact ⟨p, q :: r, rfl, hc.1⟩

/-- What is known about one emitted piece of `do_approx pts halt d a b`. -/
structure PieceSpec (pts : List (List K)) {σ : Type} (halt : σ → List K → Bool × σ)
    (d : Nat) (a b : K) (p : Piece K) : Prop where
  /-- the piece is a non-degenerate parameter interval -/
  lt : p.a < p.b
  /-- the pushed point is the curve point at the start of the piece -/
  pt : splineEval pts p.a = .ok p.pt
  /-- `dep` is the depth budget left when it was emitted -/
  dep_le : p.dep ≤ d
  /-- the interval is the `j`-th dyadic sub-interval of `[a, b]` at level `d − dep` -/
  dyadic : ∃ j : Nat, j < 2 ^ (d - p.dep) ∧
    p.a = a + (b - a) * (j : K) / (2 : K) ^ (d - p.dep) ∧
    p.b = a + (b - a) * ((j : K) + 1) / (2 : K) ^ (d - p.dep)
  /-- it was emitted because the depth budget was exhausted, or because the caller's `halt`
  returned `true` on the error vector of exactly this interval -/
  justified : (p.dep = 0 ∧ p.halted = false) ∨
    (p.halted = true ∧ ∃ s ap err, approxErr pts p.a p.b = .ok (ap, err) ∧ (halt s err).1 = true)

theorem PieceSpec.lift_left {pts : List (List K)} {σ : Type} {halt : σ → List K → Bool × σ}
    {d : Nat} {a b : K} {p : Piece K} (h : PieceSpec pts halt d a (lerp a b (1 / 2)) p) :
    PieceSpec pts halt (d + 1) a b p := by
  obtain ⟨j, hj, ea, eb⟩ := h.dyadic
  have hd := h.dep_le
  have e : d + 1 - p.dep = (d - p.dep) + 1 := by omega
  refine ⟨h.lt, h.pt, by omega, ⟨j, ?_, ?_, ?_⟩, h.justified⟩
  · rw [e, pow_succ]; omega
  · rw [ea, e, pow_succ, mid_eq]; field_simp; ring
  · rw [eb, e, pow_succ, mid_eq]; field_simp; ring

theorem PieceSpec.lift_right {pts : List (List K)} {σ : Type} {halt : σ → List K → Bool × σ}
    {d : Nat} {a b : K} {p : Piece K} (h : PieceSpec pts halt d (lerp a b (1 / 2)) b p) :
    PieceSpec pts halt (d + 1) a b p := by
  obtain ⟨j, hj, ea, eb⟩ := h.dyadic
  have hd := h.dep_le
  have e : d + 1 - p.dep = (d - p.dep) + 1 := by omega
  refine ⟨h.lt, h.pt, by omega, ⟨2 ^ (d - p.dep) + j, ?_, ?_, ?_⟩, h.justified⟩
  · rw [e, pow_succ]; omega
  · rw [ea, e, pow_succ, mid_eq]; push_cast; field_simp; ring
  · rw [eb, e, pow_succ, mid_eq]; push_cast; field_simp; ring

/-- **Structure of `do_approx`.** For a valid spline, any criterion, any depth and any interval
`a < b`, the recursion returns (it is structural on the depth, so it terminates), with a tiling
of `[a, b]` by at most `2^d` pieces, each satisfying `PieceSpec`. -/
theorem doApprox_spec (pts : List (List K)) (hv : Valid pts) {σ : Type}
    (halt : σ → List K → Bool × σ) (d : Nat) (a b : K) (s : σ) (hab : a < b) :
    ∃ ps s', doApprox pts halt d a b s = .ok (ps, s') ∧ Contig a b ps ∧
      (∀ p ∈ ps, PieceSpec pts halt d a b p) ∧ 1 ≤ ps.length ∧ ps.length ≤ 2 ^ d := by
  induction d generalizing a b s with
  | zero =>
    obtain ⟨ap, err, he, hap⟩ := approxErr_ok pts hv a b
    refine ⟨[⟨a, b, 0, false, ap⟩], s, ?_, ⟨rfl, rfl⟩, ?_, by simp, by simp⟩
    · unfold doApprox; rw [he]
    · intro p hp
      simp only [List.mem_singleton] at hp
      subst hp
      exact ⟨hab, hap, le_rfl, ⟨0, by simp, by simp, by simp⟩, Or.inl ⟨rfl, rfl⟩⟩
  | succ d ih =>
    obtain ⟨ap, err, he, hap⟩ := approxErr_ok pts hv a b
    by_cases hh : (halt s err).1 = true
    · refine ⟨[⟨a, b, d + 1, true, ap⟩], (halt s err).2, ?_, ⟨rfl, rfl⟩, ?_, by simp, ?_⟩
      · unfold doApprox; rw [he]; simp only [hh, if_true]
      · intro p hp
        simp only [List.mem_singleton] at hp
        subst hp
        exact ⟨hab, hap, le_rfl, ⟨0, by simp, by simp, by simp⟩, Or.inr ⟨rfl, s, ap, err, he, hh⟩⟩
      · simp only [List.length_singleton]; exact Nat.one_le_two_pow
    · obtain ⟨hm1, hm2⟩ := mid_between hab
      obtain ⟨l1, s1, r1, c1, q1, n1, m1⟩ := ih a (lerp a b (1 / 2)) (halt s err).2 hm1
      obtain ⟨l2, s2, r2, c2, q2, n2, m2⟩ := ih (lerp a b (1 / 2)) b s1 hm2
      refine ⟨l1 ++ l2, s2, ?_, contig_append c1 c2, ?_, ?_, ?_⟩
      · unfold doApprox; rw [he]; simp only [hh, r1, r2]; rfl
      · intro p hp
        rcases List.mem_append.mp hp with hp | hp
        · exact (q1 p hp).lift_left
        · exact (q2 p hp).lift_right
      · rw [List.length_append]; omega
      · rw [List.length_append, pow_succ]; omega

/-- **`approx_structure`.** For every spline accepted by `new`, every criterion `halt` and every
initial state, `approximate` returns (no panic, terminates) and its output

* is the list of the pieces' points followed by the last control point, so it has one more
  element than there are pieces, at most `2^(10 + ⌊log₂ len⌋) + 1`;
* starts with the first control point (= `eval 0`) and ends with the last control point;
* the pieces tile `[0, 1]`; their start parameters are strictly increasing and dyadic
  (`j / 2^(D − dep)`), and each pushed point is `eval` of the piece's start parameter;
* every piece was emitted at depth budget 0, or `halt` returned `true` on its error vector. -/
theorem approx_structure (pts : List (List K)) (hv : Valid pts) {σ : Type}
    (halt : σ → List K → Bool × σ) (s : σ) :
    ∃ ps out s' first last,
      approximate pts halt s = .ok (ps, out, s') ∧
      pts[0]? = some first ∧ pts[pts.length - 1]? = some last ∧
      out = ps.map (·.pt) ++ [last] ∧
      out.head? = some first ∧ out.getLast? = some last ∧
      out.length = ps.length + 1 ∧ ps.length ≤ 2 ^ maxDepth pts.length ∧
      Contig 0 1 ps ∧
      List.Pairwise (· < ·) (ps.map (·.a)) ∧
      (∀ p ∈ ps, PieceSpec pts halt (maxDepth pts.length) 0 1 p) := by
  obtain ⟨hlen, hn⟩ := valid_len hv
  obtain ⟨ps, s', hr, hc, hq, hn1, hn2⟩ :=
    doApprox_spec pts hv halt (maxDepth pts.length) 0 1 s one_pos
  obtain ⟨f, _, hf0⟩ := head?_ok pts hv
  obtain ⟨l, _, hl0⟩ := getLast?_ok pts hv
  have el : pts.length - 1 = 3 * nSegs pts := by omega
  have hlt : ∀ p ∈ ps, p.a < p.b := fun p hp => (hq p hp).lt
  refine ⟨ps, ps.map (·.pt) ++ [l], s', f, l, ?_, hf0, by rw [el]; exact hl0, rfl, ?_, by simp,
    by simp, hn2, hc, contig_sorted hc hlt, hq⟩
  · unfold approximate
    have : pts.length ≠ 0 := by omega
    simp only [this, if_false, hr, el, hl0]
  · obtain ⟨p, rest, rfl, hpa⟩ := contig_head hc
    have hp := (hq p (List.mem_cons_self ..)).pt
    rw [hpa, splineEval_le_zero pts hv 0 le_rfl hf0] at hp
    simp only [List.map_cons, List.cons_append, List.head?_cons]
    cases hp; rfl

/-- With a criterion that never halts the bound is attained: exactly `2^d` pieces, all at depth
budget 0 (full bisection). -/
theorem doApprox_never_halts (pts : List (List K)) (hv : Valid pts) (d : Nat) (a b : K) (s : Unit) :
    ∃ ps, doApprox pts (fun s _ => (false, s)) d a b s = .ok (ps, ()) ∧ ps.length = 2 ^ d ∧
      ∀ p ∈ ps, p.dep = 0 := by
  induction d generalizing a b with
  | zero =>
    obtain ⟨ap, err, he, _⟩ := approxErr_ok pts hv a b
    exact ⟨[⟨a, b, 0, false, ap⟩], by unfold doApprox; rw [he], by simp, by simp⟩
  | succ d ih =>
    obtain ⟨ap, err, he, _⟩ := approxErr_ok pts hv a b
    obtain ⟨l1, r1, n1, z1⟩ := ih a (lerp a b (1 / 2))
    obtain ⟨l2, r2, n2, z2⟩ := ih (lerp a b (1 / 2)) b
    refine ⟨l1 ++ l2, ?_, by rw [List.length_append, n1, n2, pow_succ]; omega, ?_⟩
    · unfold doApprox; rw [he]; simp only [r1, r2]; rfl
    · intro p hp
      rcases List.mem_append.mp hp with hp | hp
      · exact z1 p hp
      · exact z2 p hp

/-- With a criterion that always halts (and a positive depth) there is a single piece, so the
output is the two end points. -/
theorem doApprox_always_halts (pts : List (List K)) (hv : Valid pts) (d : Nat) (a b : K) (s : Unit) :
    ∃ ap, doApprox pts (fun s _ => (true, s)) (d + 1) a b s = .ok ([⟨a, b, d + 1, true, ap⟩], ()) := by
  obtain ⟨ap, err, he, _⟩ := approxErr_ok pts hv a b
  exact ⟨ap, by unfold doApprox; rw [he]; rfl⟩

/-- The hypotheses are satisfiable: the unit-square arch of the crate's doc example. -/
example : Valid ([[0, 0], [0, 1], [1, 1], [1, 0]] : List (List ℚ)) := by unfold Valid; decide

example : maxDepth 4 = 12 ∧ maxDepth 25 = 14 := by decide

end Retro.Props.C17
