/-
C17, part 1: a single cubic Bézier (`CubicBezier::eval / fast_eval / tangent`, `step`).
All statements are about the model functions of `Retro.Model.Spline` that the driver runs,
at an arbitrary linearly ordered field `K` (exact arithmetic). A value of an affine type is the
list of its components.
-/
import Retro.Lemmas.Spline
import Mathlib.Tactic.NormNum
import Mathlib.Tactic.Positivity

set_option linter.unusedSectionVars false

namespace Retro.Props.C17
open Retro Retro.Spline Retro.Spec.Spline Retro.Lemmas.Spline

variable {K : Type} [Field K] [LinearOrder K] [IsStrictOrderedRing K]

/-! ### `step` and the ends -/

/-- `step` returns `min` at and below 0 … -/
theorem step_le_zero {β : Type} (t : K) (mn mx : β) (f : K → β) (h : t ≤ 0) :
    step t mn mx f = mn := by
  simp [step, h]

/-- … `max` at and above 1 … -/
theorem step_ge_one {β : Type} (t : K) (mn mx : β) (f : K → β) (h : 1 ≤ t) :
    step t mn mx f = mx := by
  have : ¬ t ≤ 0 := not_le.mpr (lt_of_lt_of_le one_pos h)
  simp [step, h, this]

/-- … and `f t` strictly inside. -/
theorem step_interior {β : Type} (t : K) (mn mx : β) (f : K → β) (h0 : 0 < t) (h1 : t < 1) :
    step t mn mx f = f t := by
  simp [step, not_le.mpr h0, not_le.mpr h1]

example : step (1/2 : ℚ) 7 9 (fun t => t * 4) = 2 := by norm_num [step]

/-- `eval` returns the first control point at and beyond the lower end, exactly (all components,
whatever the dimensions). -/
theorem eval_le_zero (p0 p1 p2 p3 : List K) (t : K) (h : t ≤ 0) : bezEval p0 p1 p2 p3 t = p0 :=
  step_le_zero _ _ _ _ h

/-- `eval` returns the last control point at and beyond the upper end. -/
theorem eval_ge_one (p0 p1 p2 p3 : List K) (t : K) (h : 1 ≤ t) : bezEval p0 p1 p2 p3 t = p3 :=
  step_ge_one _ _ _ _ h

theorem fast_eval_le_zero (p0 p1 p2 p3 : List K) (t : K) (h : t ≤ 0) : bezFast p0 p1 p2 p3 t = p0 :=
  step_le_zero _ _ _ _ h

theorem fast_eval_ge_one (p0 p1 p2 p3 : List K) (t : K) (h : 1 ≤ t) : bezFast p0 p1 p2 p3 t = p3 :=
  step_ge_one _ _ _ _ h

example : bezEval [(0:ℚ), 0] [0, 2] [1, -1] [1, 1] (-1) = [0, 0] := eval_le_zero _ _ _ _ _ (by norm_num)
example : bezEval [(0:ℚ), 0] [0, 2] [1, -1] [1, 1] 2 = [1, 1] := eval_ge_one _ _ _ _ _ (by norm_num)

/-! ### Bernstein form -/

/-- De Casteljau's `eval` is the Bernstein form, component by component, strictly inside (0,1). -/
theorem eval_eq_bernstein (p0 p1 p2 p3 : List K) (t : K) (h0 : 0 < t) (h1 : t < 1) :
    bezEval p0 p1 p2 p3 t = map4 (fun a b c d => bernstein a b c d t) p0 p1 p2 p3 := by
  unfold bezEval
  rw [step_interior _ _ _ _ h0 h1]
  simp only []
  rw [evalCore_componentwise]
  exact map4_congr (fun a b c d => casteljau_eq_bernstein a b c d t) _ _ _ _

example : bezEval [(0:ℚ)] [2] [-1] [1] (1/4) = [23/32] := by
  rw [eval_eq_bernstein _ _ _ _ _ (by norm_num) (by norm_num)]; norm_num [map4, bernstein]

/-- The Horner evaluator with `coefficients()` is the Bernstein form too. -/
theorem fast_eval_eq_bernstein (p0 p1 p2 p3 : List K) (t : K) (h0 : 0 < t) (h1 : t < 1) :
    bezFast p0 p1 p2 p3 t = map4 (fun a b c d => bernstein a b c d t) p0 p1 p2 p3 := by
  unfold bezFast
  rw [step_interior _ _ _ _ h0 h1]
  simp only []
  rw [fastCore_componentwise]
  exact map4_congr (fun a b c d => horner_eq_bernstein a b c d t) _ _ _ _

/-- The two evaluators agree for **every** parameter (inside, at and beyond the ends) and every
control polygon. -/
theorem fast_eval_eq_eval (p0 p1 p2 p3 : List K) (t : K) :
    bezFast p0 p1 p2 p3 t = bezEval p0 p1 p2 p3 t := by
  rcases le_or_gt t 0 with h | h0
  · rw [fast_eval_le_zero _ _ _ _ _ h, eval_le_zero _ _ _ _ _ h]
  · rcases le_or_gt 1 t with h | h1
    · rw [fast_eval_ge_one _ _ _ _ _ h, eval_ge_one _ _ _ _ _ h]
    · rw [fast_eval_eq_bernstein _ _ _ _ _ h0 h1, eval_eq_bernstein _ _ _ _ _ h0 h1]

theorem bernstein_zero (a b c d : K) : bernstein a b c d 0 = a := by unfold bernstein; ring
theorem bernstein_one (a b c d : K) : bernstein a b c d 1 = d := by unfold bernstein; ring

/-- On the closed interval `[0,1]`, for control points of one common dimension, `eval` **is** the
Bernstein form (the clamped ends coincide with the polynomial's values there). -/
theorem eval_eq_bernstein_closed (p0 p1 p2 p3 : List K) (t : K) (h0 : 0 ≤ t) (h1 : t ≤ 1)
    (l1 : p1.length = p0.length) (l2 : p2.length = p0.length) (l3 : p3.length = p0.length) :
    bezEval p0 p1 p2 p3 t = map4 (fun a b c d => bernstein a b c d t) p0 p1 p2 p3 := by
  rcases eq_or_lt_of_le h0 with h | h0'
  · subst h
    rw [eval_le_zero _ _ _ _ _ le_rfl, map4_fst _ (fun a b c d => bernstein_zero a b c d) _ _ _ _ l1 l2 l3]
  · rcases eq_or_lt_of_le h1 with h | h1'
    · subst h
      rw [eval_ge_one _ _ _ _ _ le_rfl, map4_fourth _ (fun a b c d => bernstein_one a b c d) _ _ _ _ l1 l2 l3]
    · exact eval_eq_bernstein _ _ _ _ _ h0' h1'

example : bezEval [(3:ℚ), 1] [0, 2] [1, -1] [5, 7] 1
    = map4 (fun a b c d => bernstein a b c d 1) [3, 1] [0, 2] [1, -1] [5, 7] :=
  eval_eq_bernstein_closed _ _ _ _ _ (by norm_num) le_rfl rfl rfl rfl

/-! ### Bounding box -/

theorem lerp_between {lo hi a b t : K} (h0 : 0 ≤ t) (h1 : t ≤ 1)
    (ha : lo ≤ a ∧ a ≤ hi) (hb : lo ≤ b ∧ b ≤ hi) : lo ≤ lerp a b t ∧ lerp a b t ≤ hi := by
  have e : lerp a b t = (1 - t) * a + t * b := by unfold lerp; ring
  have h1' : 0 ≤ 1 - t := by linarith
  rw [e]
  constructor
  · nlinarith [mul_le_mul_of_nonneg_left ha.1 h1', mul_le_mul_of_nonneg_left hb.1 h0]
  · nlinarith [mul_le_mul_of_nonneg_left ha.2 h1', mul_le_mul_of_nonneg_left hb.2 h0]

/-- The Bernstein form of four numbers stays between their minimum and maximum on `[0,1]`. -/
theorem bernstein_between {lo hi a b c d t : K} (h0 : 0 ≤ t) (h1 : t ≤ 1)
    (ha : lo ≤ a ∧ a ≤ hi) (hb : lo ≤ b ∧ b ≤ hi) (hc : lo ≤ c ∧ c ≤ hi) (hd : lo ≤ d ∧ d ≤ hi) :
    lo ≤ bernstein a b c d t ∧ bernstein a b c d t ≤ hi := by
  rw [← casteljau_eq_bernstein]
  unfold casteljau
  have hab := lerp_between h0 h1 ha hb
  have hbc := lerp_between h0 h1 hb hc
  have hcd := lerp_between h0 h1 hc hd
  exact lerp_between h0 h1 (lerp_between h0 h1 hab hbc) (lerp_between h0 h1 hbc hcd)

/-- For `0 ≤ t ≤ 1`, every component of `eval` lies between the minimum and the maximum of the
same component of the four control points: the curve stays in the control polygon's bounding box. -/
theorem eval_in_bbox (p0 p1 p2 p3 : List K) (t : K) (h0 : 0 ≤ t) (h1 : t ≤ 1)
    (l1 : p1.length = p0.length) (l2 : p2.length = p0.length) (l3 : p3.length = p0.length)
    (i : Nat) {a b c d : K} (ha : p0[i]? = some a) (hb : p1[i]? = some b) (hc : p2[i]? = some c)
    (hd : p3[i]? = some d) :
    ∃ v, (bezEval p0 p1 p2 p3 t)[i]? = some v ∧
      min (min a b) (min c d) ≤ v ∧ v ≤ max (max a b) (max c d) := by
  refine ⟨bernstein a b c d t, ?_, ?_⟩
  · rw [eval_eq_bernstein_closed _ _ _ _ _ h0 h1 l1 l2 l3]
    exact map4_getElem? _ _ _ _ _ _ ha hb hc hd
  · have lo_a : min (min a b) (min c d) ≤ a := (min_le_left _ _).trans (min_le_left _ _)
    have lo_b : min (min a b) (min c d) ≤ b := (min_le_left _ _).trans (min_le_right _ _)
    have lo_c : min (min a b) (min c d) ≤ c := (min_le_right _ _).trans (min_le_left _ _)
    have lo_d : min (min a b) (min c d) ≤ d := (min_le_right _ _).trans (min_le_right _ _)
    have hi_a : a ≤ max (max a b) (max c d) := (le_max_left _ _).trans (le_max_left _ _)
    have hi_b : b ≤ max (max a b) (max c d) := (le_max_right _ _).trans (le_max_left _ _)
    have hi_c : c ≤ max (max a b) (max c d) := (le_max_left _ _).trans (le_max_right _ _)
    have hi_d : d ≤ max (max a b) (max c d) := (le_max_right _ _).trans (le_max_right _ _)
    exact bernstein_between h0 h1 ⟨lo_a, hi_a⟩ ⟨lo_b, hi_b⟩ ⟨lo_c, hi_c⟩ ⟨lo_d, hi_d⟩

example : ∃ v : ℚ, (bezEval [(0:ℚ), 0] [0, 2] [1, -1] [1, 1] (1/2))[1]? = some v ∧
    min (min (0:ℚ) 2) (min (-1) 1) ≤ v ∧ v ≤ max (max (0:ℚ) 2) (max (-1) 1) :=
  eval_in_bbox [(0:ℚ), 0] [0, 2] [1, -1] [1, 1] (1/2) (by norm_num) (by norm_num) rfl rfl rfl 1 rfl rfl rfl rfl

/-! ### Tangent -/

/-- `f32::clamp(t, 0, 1)` in a linear order. -/
theorem clampS_eq (t : K) : clampS t 0 1 = max 0 (min t 1) := by
  unfold clampS
  rcases lt_or_ge t 0 with h | h
  · have : ¬ (1 : K) < 0 := not_lt.mpr zero_le_one
    simp [h, this, min_eq_left (le_of_lt (lt_trans h one_pos)), max_eq_left (le_of_lt h)]
  · rcases lt_or_ge 1 t with h1 | h1
    · simp [not_lt.mpr h, h1, min_eq_right (le_of_lt h1)]
    · simp [not_lt.mpr h, not_lt.mpr h1, min_eq_left h1, max_eq_right h]

/-- `tangent(t)` is, component by component, the derivative of the Bernstein form
`3[(1−u)²(p1−p0) + 2(1−u)u(p2−p1) + u²(p3−p2)]` at `u = clamp(t, 0, 1)`, for every `t`.
(`bernsteinDeriv` is shown to be `Polynomial.derivative` of the Bernstein polynomial in
`Retro.Props.C17.bernsteinDeriv_eq_derivative`.) -/
theorem tangent_eq_deriv (p0 p1 p2 p3 : List K) (t : K) :
    bezTangent p0 p1 p2 p3 t
      = map4 (fun a b c d => bernsteinDeriv a b c d (max 0 (min t 1))) p0 p1 p2 p3 := by
  unfold bezTangent
  simp only []
  rw [tangentCore_componentwise, clampS_eq]
  exact map4_congr (fun a b c d => tangent1_eq_deriv a b c d _) _ _ _ _

/-- At and below 0 the tangent is `3(p1 − p0)`, at and above 1 it is `3(p3 − p2)`. -/
theorem tangent_ends (a b c d : K) :
    bernsteinDeriv a b c d 0 = 3 * (b - a) ∧ bernsteinDeriv a b c d 1 = 3 * (d - c) := by
  constructor <;> (unfold bernsteinDeriv; ring)

example : bezTangent [(0:ℚ)] [2] [-1] [1] (1/4) = [3/8] := by
  rw [tangent_eq_deriv]; norm_num [map4, bernsteinDeriv]

end Retro.Props.C17
