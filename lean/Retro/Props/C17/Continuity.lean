/-
C17, part 7: over ℝ the Lipschitz bound gives topological continuity of every component of a
spline's `eval` – on the whole real line, for every segment count.
-/
import Retro.Props.C17.Lipschitz
import Mathlib.Topology.MetricSpace.Lipschitz
import Mathlib.Topology.Instances.Real.Lemmas
import Mathlib.Topology.Order.Lattice
import Mathlib.Algebra.Order.Archimedean.Real.Basic

set_option linter.unusedSectionVars false

namespace Retro.Props.C17
open Retro Retro.Spline Retro.Spec.Spline Retro.Lemmas.Spline

/-- Component `i` of `eval` exists for every parameter (the spline is valid and every control
point has at least `i+1` components). -/
theorem compAt_total {pts : List (List ℝ)} {dim i : Nat} {M : ℝ} (S : Setting pts dim i M) (t : ℝ) :
    ∃ a, CompAt pts i t a := by
  obtain ⟨v, hv, hc⟩ := spline_eq_curve pts S.valid S.n32 dim S.dims t
  obtain ⟨hlen, hn⟩ := valid_len S.valid
  -- the length of `v` is `dim`
  have hl : v.length = dim := by
    rcases le_or_gt t 0 with t0 | t0
    · obtain ⟨f, _, hf0⟩ := head?_ok pts S.valid
      rw [splineEval_le_zero pts S.valid t t0 hf0] at hv
      cases hv; exact S.dims _ (List.mem_of_getElem? hf0)
    · rcases le_or_gt 1 t with t1 | t1
      · obtain ⟨l, _, hl0⟩ := getLast?_ok pts S.valid
        rw [splineEval_ge_one pts S.valid t t1 hl0] at hv
        cases hv; exact S.dims _ (List.mem_of_getElem? hl0)
      · obtain ⟨k, hk, h0, h1⟩ := exists_seg (nSegs pts) hn t t0.le t1.le
        have hb : 3 * k + 3 < pts.length := by omega
        have g0 := List.getElem?_eq_getElem (l := pts) (i := 3 * k) (by omega)
        have g1 := List.getElem?_eq_getElem (l := pts) (i := 3 * k + 1) (by omega)
        have g2 := List.getElem?_eq_getElem (l := pts) (i := 3 * k + 2) (by omega)
        have g3 := List.getElem?_eq_getElem (l := pts) (i := 3 * k + 3) (by omega)
        have l0 := S.dims _ (List.mem_of_getElem? g0)
        have l1 := S.dims _ (List.mem_of_getElem? g1)
        have l2 := S.dims _ (List.mem_of_getElem? g2)
        have l3 := S.dims _ (List.mem_of_getElem? g3)
        rw [spline_eq_segment_closed pts S.valid t k hk S.n32 h0 h1 g0 g1 g2 g3] at hv
        cases hv
        rw [eval_eq_bernstein_closed _ _ _ _ _ (by linarith) (by linarith) (by omega) (by omega) (by omega)]
        exact map4_length _ _ _ _ _ dim l0 l1 l2 l3
  have hi := S.idx
  exact ⟨v[i]'(by omega), v, hv, List.getElem?_eq_getElem (by omega)⟩

/-- **Continuity.** Any function that reads component `i` of `eval` is continuous on `[0,1]` … -/
theorem spline_continuousOn {pts : List (List ℝ)} {dim i : Nat} {M : ℝ} (S : Setting pts dim i M)
    (f : ℝ → ℝ) (hf : ∀ t, CompAt pts i t (f t)) : ContinuousOn f (Set.Icc 0 1) := by
  have hL : LipschitzOnWith (Real.toNNReal (3 * M * (nSegs pts : ℝ))) f (Set.Icc 0 1) := by
    apply LipschitzOnWith.of_dist_le_mul
    intro x hx y hy
    rw [Real.dist_eq, Real.dist_eq]
    have := spline_lipschitz S x y (f x) (f y) hx.1 hx.2 hy.1 hy.2 (hf x) (hf y)
    refine le_trans this ?_
    gcongr
    exact Real.le_coe_toNNReal _
  exact hL.continuousOn

/-- … and, being constant below 0 and above 1, on all of ℝ. -/
theorem spline_continuous {pts : List (List ℝ)} {dim i : Nat} {M : ℝ} (S : Setting pts dim i M)
    (f : ℝ → ℝ) (hf : ∀ t, CompAt pts i t (f t)) : Continuous f := by
  have hclamp : ∀ t, f t = f (max 0 (min t 1)) := by
    intro t
    apply (hf t).unique
    obtain ⟨v, hv, ha⟩ := hf (max 0 (min t 1))
    refine ⟨v, ?_, ha⟩
    rcases le_or_gt t 0 with t0 | t0
    · have e : max 0 (min t 1) = 0 := by
        rw [min_eq_left (by linarith), max_eq_left t0]
      rw [e] at hv
      obtain ⟨p, _, hp⟩ := head?_ok pts S.valid
      rw [splineEval_le_zero pts S.valid t t0 hp, ← hv, splineEval_le_zero pts S.valid 0 le_rfl hp]
    · rcases le_or_gt 1 t with t1 | t1
      · have e : max 0 (min t 1) = 1 := by
          rw [min_eq_right t1, max_eq_right zero_le_one]
        rw [e] at hv
        obtain ⟨p, _, hp⟩ := getLast?_ok pts S.valid
        rw [splineEval_ge_one pts S.valid t t1 hp, ← hv, splineEval_ge_one pts S.valid 1 le_rfl hp]
      · have e : max 0 (min t 1) = t := by
          rw [min_eq_left t1.le, max_eq_right t0.le]
        rw [e] at hv; exact hv
  have hc : Continuous fun t : ℝ => max (0 : ℝ) (min t 1) :=
    continuous_const.max (continuous_id.min continuous_const)
  have hmem : ∀ t : ℝ, max (0 : ℝ) (min t 1) ∈ Set.Icc (0 : ℝ) 1 := fun t =>
    ⟨le_max_left _ _, max_le zero_le_one (min_le_right _ _)⟩
  have : f = fun t => f (max 0 (min t 1)) := funext hclamp
  rw [this]
  exact (spline_continuousOn S f hf).comp_continuous hc hmem

/-- Packaged: component `i` of `eval` *is* a continuous real function of the parameter. -/
theorem exists_continuous_component {pts : List (List ℝ)} {dim i : Nat} {M : ℝ}
    (S : Setting pts dim i M) : ∃ f : ℝ → ℝ, (∀ t, CompAt pts i t (f t)) ∧ Continuous f := by
  choose f hf using compAt_total S
  exact ⟨f, hf, spline_continuous S f hf⟩

end Retro.Props.C17
