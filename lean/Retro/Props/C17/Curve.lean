/-
C17, part 5: the spline model equals the independent spec curve (`Retro.Spec.Spline.curve`),
the spline tangent is the derivative of the selected segment's cubic, and the `step` helpers
`smoothstep` / `smootherstep`.
-/
import Retro.Props.C17.Spline
import Mathlib.Tactic.Positivity

set_option linter.unusedSectionVars false

namespace Retro.Props.C17
open Retro Retro.Spline Retro.Spec.Spline Retro.Lemmas.Spline

variable {K : Type} [Field K] [LinearOrder K] [IsStrictOrderedRing K] [FloorRing K]

/-- Without the `u32` saturation (segment counts below 2^32) the index is `min ⌊t·n⌋ (n−1)`. -/
theorem segIndex_eq_min (n : Nat) (t : K) (hn32 : n ≤ 4294967296) :
    segIndex n t = min (⌊t * (n : K)⌋).toNat (n - 1) := by
  unfold segIndex satU32
  have e : HasFloorInt.floorInt (t * (n : K)) = ⌊t * (n : K)⌋ := rfl
  rw [e]; omega

/-- For `0 < t < 1` the local parameter `t·n − k` of the selected segment lies in `[0, 1)`. -/
theorem local_param_range (n : Nat) (t : K) (hn : 1 ≤ n) (hn32 : n ≤ 4294967296)
    (t0 : 0 < t) (t1 : t < 1) :
    0 ≤ t * (n : K) - (segIndex n t : K) ∧ t * (n : K) - (segIndex n t : K) < 1 := by
  have npos : (0 : K) < (n : K) := by exact_mod_cast hn
  have hx0 : 0 < t * (n : K) := mul_pos t0 npos
  have hx1 : t * (n : K) < (n : K) := by nlinarith
  have hf0 : 0 ≤ ⌊t * (n : K)⌋ := Int.floor_nonneg.mpr hx0.le
  have hf1 : ⌊t * (n : K)⌋ < (n : ℤ) := by
    rw [Int.floor_lt]; exact_mod_cast hx1
  have hk : segIndex n t = (⌊t * (n : K)⌋).toNat := by
    rw [segIndex_eq_min n t hn32]; omega
  have hc : ((segIndex n t : Nat) : K) = ((⌊t * (n : K)⌋ : ℤ) : K) := by
    rw [hk]
    have : (((⌊t * (n : K)⌋).toNat : ℕ) : ℤ) = ⌊t * (n : K)⌋ := Int.toNat_of_nonneg hf0
    exact_mod_cast congrArg (fun z : ℤ => (z : K)) this
  rw [hc]
  constructor
  · linarith [Int.floor_le (t * (n : K))]
  · linarith [Int.lt_floor_add_one (t * (n : K))]

/-- **Model = spec.** For a valid spline whose control points all have the same dimension, the
model's `eval` (saturating cast, `min`, `fast_eval` on coefficient vectors, clamping `step`s) is
the piecewise Bernstein curve of `Retro.Spec.Spline.curve` – for every parameter `t`. -/
theorem spline_eq_curve (pts : List (List K)) (hv : Valid pts) (hn32 : nSegs pts ≤ 4294967296)
    (dim : Nat) (hd : ∀ p ∈ pts, p.length = dim) (t : K) :
    ∃ v, splineEval pts t = .ok v ∧ curve Int.floor pts t = some v := by
  obtain ⟨hlen, hn⟩ := valid_len hv
  obtain ⟨f, hf, hf0⟩ := head?_ok pts hv
  obtain ⟨l, hl, hl0⟩ := getLast?_ok pts hv
  rcases le_or_gt t 0 with t0 | t0
  · exact ⟨f, splineEval_le_zero pts hv t t0 hf0, by unfold curve; simp [t0, hf]⟩
  · rcases le_or_gt 1 t with t1 | t1
    · refine ⟨l, splineEval_ge_one pts hv t t1 hl0, ?_⟩
      unfold curve; simp [not_le.mpr t0, t1, hl]
    · obtain ⟨p0, p1, p2, p3, g0, g1, g2, g3, hs⟩ := segment_ok pts hv t
      obtain ⟨u0, u1⟩ := local_param_range (nSegs pts) t hn hn32 t0 t1
      have l0 := hd p0 (List.mem_of_getElem? g0)
      have l1 := hd p1 (List.mem_of_getElem? g1)
      have l2 := hd p2 (List.mem_of_getElem? g2)
      have l3 := hd p3 (List.mem_of_getElem? g3)
      refine ⟨bezFast p0 p1 p2 p3 (t * (nSegs pts : K) - (segIndex (nSegs pts) t : K)), ?_, ?_⟩
      · unfold splineEval
        rw [hf, hl]; simp only []
        rw [step_interior _ _ _ _ t0 t1, hs]
      · unfold curve
        have e := segIndex_eq_min (nSegs pts) t hn32
        simp only [nSegs] at e g0 g1 g2 g3 ⊢
        rw [if_neg (not_le.mpr t0), if_neg (not_le.mpr t1)]
        simp only [← e, g0, g1, g2, g3]
        rw [fast_eval_eq_eval, eval_eq_bernstein_closed _ _ _ _ _ (by simpa [nSegs] using u0)
          (by simpa [nSegs] using u1.le) (by omega) (by omega) (by omega)]

/-! ### Spline tangent -/

/-- Inside segment `k` (`k ≤ t·n < k+1`) the spline's tangent is the derivative of that
segment's cubic **with respect to the local parameter** `u = t·n − k`, evaluated at `u`. It is NOT
the derivative with respect to the spline's own parameter `t`: that one is `n` times larger
(`whole_curve_derivative`); `BezierSpline::tangent` returns the local one, i.e. `(1/n)·d/dt`. -/
theorem splineTangent_inside (pts : List (List K)) (h : Valid pts) (t : K) (k : Nat)
    (hk : k < nSegs pts) (hk32 : k ≤ 4294967295)
    (h0 : (k : K) ≤ t * (nSegs pts : K)) (h1 : t * (nSegs pts : K) < (k : K) + 1)
    {p0 p1 p2 p3 : List K} (e0 : pts[3 * k]? = some p0) (e1 : pts[3 * k + 1]? = some p1)
    (e2 : pts[3 * k + 2]? = some p2) (e3 : pts[3 * k + 3]? = some p3) :
    splineTangent pts t = .ok (map4 (fun a b c d =>
      bernsteinDeriv a b c d (t * (nSegs pts : K) - (k : K))) p0 p1 p2 p3) := by
  obtain ⟨q0, q1, q2, q3, g0, g1, g2, g3, hs⟩ := segment_ok pts h t
  have hi := segIndex_eq (nSegs pts) k t hk hk32 h0 h1
  rw [hi] at g0 g1 g2 g3 hs
  rw [e0] at g0; rw [e1] at g1; rw [e2] at g2; rw [e3] at g3
  cases g0; cases g1; cases g2; cases g3
  unfold splineTangent
  rw [hs]; simp only []
  rw [tangent_eq_deriv]
  have : max 0 (min (t * (nSegs pts : K) - (k : K)) 1) = t * (nSegs pts : K) - (k : K) := by
    rw [min_eq_left (by linarith), max_eq_right (by linarith)]
  rw [this]

/-- For `t ≤ 0` – `segment` receives the unclamped `t` – the first segment is selected and its
tangent at the start, `3(p1 − p0)`, is returned. -/
theorem splineTangent_below (pts : List (List K)) (h : Valid pts) (t : K) (ht : t ≤ 0)
    {p0 p1 p2 p3 : List K} (e0 : pts[0]? = some p0) (e1 : pts[1]? = some p1)
    (e2 : pts[2]? = some p2) (e3 : pts[3]? = some p3) :
    splineTangent pts t = .ok (map4 (fun a b c d => bernsteinDeriv a b c d 0) p0 p1 p2 p3) := by
  obtain ⟨q0, q1, q2, q3, g0, g1, g2, g3, hs⟩ := segment_ok pts h t
  have hi := segIndex_of_nonpos (nSegs pts) t ht
  rw [hi] at g0 g1 g2 g3 hs
  simp only [Nat.mul_zero, Nat.zero_add] at g0 g1 g2 g3
  rw [e0] at g0; rw [e1] at g1; rw [e2] at g2; rw [e3] at g3
  cases g0; cases g1; cases g2; cases g3
  unfold splineTangent
  rw [hs]; simp only []
  rw [tangent_eq_deriv]
  have hx : t * (nSegs pts : K) ≤ 0 := mul_nonpos_of_nonpos_of_nonneg ht (Nat.cast_nonneg _)
  have : max 0 (min (t * (nSegs pts : K) - ((0 : Nat) : K)) 1) = 0 := by
    rw [Nat.cast_zero, sub_zero, min_eq_left (by linarith), max_eq_left hx]
  rw [this]

/-- For `t ≥ 1` the last segment is selected and its tangent at the end, `3(p3 − p2)`, is
returned. -/
theorem splineTangent_above (pts : List (List K)) (h : Valid pts) (hn32 : nSegs pts ≤ 4294967296)
    (t : K) (ht : 1 ≤ t) {p0 p1 p2 p3 : List K}
    (e0 : pts[3 * (nSegs pts - 1)]? = some p0) (e1 : pts[3 * (nSegs pts - 1) + 1]? = some p1)
    (e2 : pts[3 * (nSegs pts - 1) + 2]? = some p2) (e3 : pts[3 * (nSegs pts - 1) + 3]? = some p3) :
    splineTangent pts t = .ok (map4 (fun a b c d => bernsteinDeriv a b c d 1) p0 p1 p2 p3) := by
  obtain ⟨hlen, hn⟩ := valid_len h
  have npos : (0 : K) < (nSegs pts : K) := by exact_mod_cast hn
  have hx : (nSegs pts : K) ≤ t * (nSegs pts : K) := by nlinarith
  have hc : ((nSegs pts - 1 : Nat) : K) = (nSegs pts : K) - 1 := by
    rw [Nat.cast_sub hn]; simp
  obtain ⟨q0, q1, q2, q3, g0, g1, g2, g3, hs⟩ := segment_ok pts h t
  have hi := segIndex_of_ge (nSegs pts) t hn32 (by rw [hc]; linarith)
  rw [hi] at g0 g1 g2 g3 hs
  rw [e0] at g0; rw [e1] at g1; rw [e2] at g2; rw [e3] at g3
  cases g0; cases g1; cases g2; cases g3
  unfold splineTangent
  rw [hs]; simp only []
  rw [tangent_eq_deriv]
  have : max 0 (min (t * (nSegs pts : K) - ((nSegs pts - 1 : Nat) : K)) 1) = 1 := by
    rw [hc, min_eq_right (by linarith), max_eq_right zero_le_one]
  rw [this]

/-! ### smoothstep / smootherstep -/

/-- `smoothstep` is 0 up to 0, 1 from 1 on, and stays in `[0,1]` in between. -/
theorem smoothstep_range (t : K) : 0 ≤ smoothstep t ∧ smoothstep t ≤ 1 := by
  unfold smoothstep
  rcases le_or_gt t 0 with h | h0
  · rw [step_le_zero _ _ _ _ h]; exact ⟨le_rfl, zero_le_one⟩
  · rcases le_or_gt 1 t with h | h1
    · rw [step_ge_one _ _ _ _ h]; exact ⟨zero_le_one, le_rfl⟩
    · rw [step_interior _ _ _ _ h0 h1]
      constructor
      · have : 0 < 3 - 2 * t := by linarith
        positivity
      · have : 1 - t * t * (3 - 2 * t) = (1 - t) * (1 - t) * (1 + 2 * t) := by ring
        have h2 : 0 ≤ (1 - t) * (1 - t) * (1 + 2 * t) := by
          have : 0 < 1 - t := by linarith
          positivity
        linarith

theorem smoothstep_ends (t : K) : (t ≤ 0 → smoothstep t = 0) ∧ (1 ≤ t → smoothstep t = 1) :=
  ⟨fun h => step_le_zero _ _ _ _ h, fun h => step_ge_one _ _ _ _ h⟩

/-- `smootherstep` likewise. -/
theorem smootherstep_range (t : K) : 0 ≤ smootherstep t ∧ smootherstep t ≤ 1 := by
  unfold smootherstep
  rcases le_or_gt t 0 with h | h0
  · rw [step_le_zero _ _ _ _ h]; exact ⟨le_rfl, zero_le_one⟩
  · rcases le_or_gt 1 t with h | h1
    · rw [step_ge_one _ _ _ _ h]; exact ⟨zero_le_one, le_rfl⟩
    · rw [step_interior _ _ _ _ h0 h1]
      have e1 : (10 + t * (6 * t - 15) : K) = 6 * (t - 5 / 4) ^ 2 + 5 / 8 := by ring
      constructor
      · have : 0 < (10 + t * (6 * t - 15) : K) := by rw [e1]; positivity
        positivity
      · have e2 : 1 - t * t * t * (10 + t * (6 * t - 15))
            = (1 - t) * (1 - t) * (1 - t) * (6 * t * t + 3 * t + 1) := by ring
        have h2 : 0 ≤ (1 - t) * (1 - t) * (1 - t) * (6 * t * t + 3 * t + 1) := by
          have : 0 < 1 - t := by linarith
          positivity
        linarith

example : smoothstep (1/4 : ℚ) = 5/32 := by norm_num [smoothstep, step]

end Retro.Props.C17
