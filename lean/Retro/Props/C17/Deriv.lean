/-
C17, part 4: the explicit derivative polynomial used in `tangent_eq_deriv` really is the formal
derivative (`Polynomial.derivative`) of the Bernstein polynomial, and over ℝ it is the analytic
derivative as well.
-/
import Retro.Props.C17.Bezier
import Mathlib.Algebra.Polynomial.Derivative
import Mathlib.Algebra.Polynomial.Eval.Defs

set_option linter.unusedSectionVars false

namespace Retro.Props.C17
open Retro Retro.Spline Retro.Spec.Spline Polynomial

variable {K : Type} [Field K]

/-- The cubic Bernstein polynomial with coefficients `a b c d`, as an element of `K[X]`. -/
noncomputable def bernsteinPoly (a b c d : K) : K[X] :=
  C a * (1 - X) ^ 3 + C (3 * b) * ((1 - X) ^ 2 * X) + C (3 * c) * ((1 - X) * X ^ 2) + C d * X ^ 3

/-- Evaluating the polynomial gives the spec's Bernstein form. -/
theorem bernsteinPoly_eval (a b c d t : K) : (bernsteinPoly a b c d).eval t = bernstein a b c d t := by
  unfold bernsteinPoly bernstein
  simp only [eval_add, eval_mul, eval_C, eval_pow, eval_sub, eval_one, eval_X]
  ring

/-- `bernsteinDeriv` is the evaluation of `Polynomial.derivative` of the Bernstein polynomial:
together with `tangent_eq_deriv`, `tangent t` **is** the derivative of the curve `eval` traces. -/
theorem bernsteinDeriv_eq_derivative (a b c d t : K) :
    (derivative (bernsteinPoly a b c d)).eval t = bernsteinDeriv a b c d t := by
  unfold bernsteinPoly bernsteinDeriv
  simp only [derivative_add, derivative_mul, derivative_C, derivative_pow, derivative_sub,
    derivative_one, derivative_X, eval_add, eval_mul, eval_C, eval_pow, eval_sub, eval_one, eval_X,
    zero_mul, zero_add, zero_sub]
  norm_num
  ring

end Retro.Props.C17
