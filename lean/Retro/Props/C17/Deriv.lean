/-
C17, part 4: the explicit derivative polynomial used in `tangent_eq_deriv` really is the formal
derivative (`Polynomial.derivative`) of the Bernstein polynomial, and over ℝ it is the analytic
derivative as well.
-/
import Retro.Props.C17.Bezier
import Mathlib.Algebra.Polynomial.Derivative
import Mathlib.Algebra.Polynomial.Eval.Defs

set_option linter.unusedSectionVars false

namespace Retro.Props.C17
open Retro Retro.Spline Retro.Spec.Spline Polynomial

variable {K : Type} [Field K]

/-- The cubic Bernstein polynomial with coefficients `a b c d`, as an element of `K[X]`. -/
noncomputable def bernsteinPoly (a b c d : K) : K[X] :=
  C a * (1 - X) ^ 3 + C (3 * b) * ((1 - X) ^ 2 * X) + C (3 * c) * ((1 - X) * X ^ 2) + C d * X ^ 3

/-- Evaluating the polynomial gives the spec's Bernstein form. -/
theorem bernsteinPoly_eval (a b c d t : K) : (bernsteinPoly a b c d).eval t = bernstein a b c d t := by
  unfold bernsteinPoly bernstein
  simp only [eval_add, eval_mul, eval_C, eval_pow, eval_sub, eval_one, eval_X]
  ring

/-- `bernsteinDeriv` is the evaluation of `Polynomial.derivative` of the Bernstein polynomial:
together with `tangent_eq_deriv`, `tangent t` **is** the derivative of the curve `eval` traces. -/
theorem bernsteinDeriv_eq_derivative (a b c d t : K) :
    (derivative (bernsteinPoly a b c d)).eval t = bernsteinDeriv a b c d t := by
  unfold bernsteinPoly bernsteinDeriv
  simp only [derivative_add, derivative_mul, derivative_C, derivative_pow, derivative_sub,
    derivative_one, derivative_X, eval_add, eval_mul, eval_C, eval_pow, eval_sub, eval_one, eval_X,
    zero_mul, zero_add, zero_sub]
  norm_num
  ring

/-- The spline's `tangent` is the derivative with respect to the **local** parameter `u = t·n − k`
of segment `k`. With respect to the spline's own parameter `t` the curve `t ↦ B(t·n − k)` has the
derivative `n · B'(t·n − k)`: the whole-curve velocity is `n` times what `tangent` returns. -/
theorem whole_curve_derivative (a b c d n k t : K) :
    (derivative ((bernsteinPoly a b c d).comp (C n * X - C k))).eval t
      = n * bernsteinDeriv a b c d (t * n - k) := by
  rw [derivative_comp, eval_mul, eval_comp, bernsteinDeriv_eq_derivative]
  simp only [derivative_sub, derivative_mul, derivative_C, derivative_X, eval_sub, eval_mul, eval_C,
    eval_X, zero_mul, zero_add, mul_one, sub_zero]
  rw [mul_comm n t]

end Retro.Props.C17
