/-
C17, part 9: the dyadic parameters of `approximate()` are EXACT in `f32` – a theorem about IEEE
binary32 bit patterns (`F32.ofRat`, `F32.toRat?`, `Rep`; `F32.add / sub / mul` of
`Retro/Model/F32Ops.lean` = one round-to-nearest-even of the exact result, the arithmetic the C20
drivers validate against Rust through the `rs.*` ops).

spline.rs:271-301: `approximate` calls `do_approx(0.0, 1.0, 10 + len.ilog2(), …)`; `do_approx(a, b, …)`
computes `let mid = a.lerp(&b, 0.5)` on `f32` parameters (math.rs:96 `self.add(&other.sub(self).mul(t))`,
space.rs:87-105 `self + other`, `self - other`, `self * rhs`) and recurses on `(a, mid)` and `(mid, b)`.
So the interval handled at recursion level `k` (`k = 0` at the root) is `[i/2^k, (i+1)/2^k]` in exact
arithmetic, and its midpoint is `(2i+1)/2^(k+1)`.

What is proved here (no rounding hypothesis, no tolerance):

  * `rep_dyadic`          – `n / 2^k`, `n ≤ 2^24`, `k ≤ 149`, is the value of a binary32.
  * `lerp_half_exact`     – for `k ≤ 23`, `i + 1 ≤ 2^k`: `a.lerp(b, 0.5)` on the bit patterns of `i/2^k`,
                            `(i+1)/2^k` is the bit pattern of `(2i+1)/2^(k+1)`; the subtraction, the
                            multiplication and the addition are each exact. (`lerp_half_exact_wide`: the
                            same for any interval with `2i+1 ≤ 2^24`, `k ≤ 148`, e.g. deeper ones near 0.)
  * `bisect_tree_exact`   – for EVERY pattern of halt decisions (`Shape`) of depth `≤ 24`, the `f32`
                            bisection of `[0.0, 1.0]` yields exactly the encodings of the exact-arithmetic
                            intervals; every end point decodes to its rational; start parameters are strictly
                            increasing under the `f32` `<` and are pairwise distinct bit patterns.
  * `bisect_mids_exact`   – for depth `≤ 23` also the midpoint computed in every leaf (`eval(mid)` feeds
                            the error vector) is exact.
  * `bisect_breaks_at_25` – sharpness: the level-24 interval next to 1 is one ulp wide, its `f32` midpoint
                            (a level-25 parameter) is the end point `1.0`; in the level-24 interval before it
                            the midpoint is the start point, so the two children start at the SAME parameter.
  * `doApprox_shape`, `approx_params_f32`, `approx_params_f32_valid` – bridge to the model: the pieces of
                            the model's `approximate` (any scalar instance; here `ℚ`) are the bisection
                            of `[0,1]` along some shape of depth `≤ 10 + ⌊log₂ len⌋`; for `len < 2^15` that
                            is `≤ 24`, and the `f32` parameters ARE the model's parameters.
-/
import Retro.Lemmas.F32Dyadic
import Retro.Props.C17.Approx

set_option linter.unusedSectionVars false

namespace Retro.Props.C17
open Retro Retro.Spline

/-! ### 1. Dyadic rationals are binary32 values -/

/-- The exact dyadic parameter `i / 2^k`. -/
def dy (k i : ℕ) : ℚ := (i : ℚ) / 2 ^ k

/-- Its binary32 bit pattern. -/
def dyF (k i : ℕ) : UInt32 := F32.ofRat (dy k i)

/-- **`rep_dyadic`.** `n / 2^k` with `n ≤ 2^24` (at most 24 significant bits) and `k ≤ 149` is the
exact value of a finite binary32; in particular every `i / 2^k`, `i ≤ 2^k`, `k ≤ 24`. -/
theorem rep_dyadic {n k : ℕ} (hn : n ≤ 2 ^ 24) (hk : k ≤ 149) : F32.Rep ((n : ℚ) / 2 ^ k) :=
  F32.rep_dyadic hn hk

example : F32.Rep ((16777215 : ℕ) / 2 ^ 24) := rep_dyadic (by norm_num) (by norm_num)

theorem rep_dy {k i : ℕ} (hi : i ≤ 2 ^ k) (hk : k ≤ 24) : F32.Rep (dy k i) :=
  F32.rep_dyadic (le_trans hi (Nat.pow_le_pow_right (by norm_num) hk)) (by omega)

/-- Decoding the bit pattern of a dyadic parameter gives the parameter back, exactly. -/
theorem dyF_value {k i : ℕ} (hi : i ≤ 2 ^ k) (hk : k ≤ 24) : F32.toRat? (dyF k i) = some (dy k i) :=
  F32.toRat?_ofRat (rep_dy hi hk)

example : F32.toRat? (dyF 24 16777215) = some (dy 24 16777215) := dyF_value (by norm_num) (by norm_num)

theorem dy_zero : dy 0 0 = 0 := by simp [dy]
theorem dy_one : dy 0 1 = 1 := by simp [dy]

/-- The root interval of `approximate`: the literals `0.0` and `1.0`. -/
theorem dyF_root : dyF 0 0 = 0 ∧ dyF 0 1 = F32.one := by
  unfold dyF
  rw [dy_zero, dy_one]
  exact ⟨F32.ofRat_zero, F32.ofRat_one⟩

theorem dy_double (k i : ℕ) : dy k i = dy (k + 1) (2 * i) := by
  unfold dy; rw [pow_succ]; push_cast; field_simp

/-! ### 2. One bisection step is exact -/

/-- The model's midpoint, `a.lerp(&b, 0.5)` of the generic scalar model (`Retro.lerp`). -/
def midM {α : Type} [Add α] [Sub α] [Mul α] [Div α] [OfNat α 1] [OfNat α 2] (a b : α) : α :=
  lerp a b (1 / 2)

/-- The `f32` midpoint: the same expression on bit patterns, `0.5 = 0x3F000000`. -/
def midF (a b : UInt32) : UInt32 := F32.lerpF a b F32.half

/-- Bit patterns as a scalar type carrying the `f32` operations of the model. -/
structure F32Bits where
  bits : UInt32

instance : Add F32Bits := ⟨fun x y => ⟨F32.add x.bits y.bits⟩⟩
instance : Sub F32Bits := ⟨fun x y => ⟨F32.sub x.bits y.bits⟩⟩
instance : Mul F32Bits := ⟨fun x y => ⟨F32.mul x.bits y.bits⟩⟩

/-- `F32.lerpF` is the generic model `lerp` (the definition every exact-arithmetic theorem of C17 is
about) instantiated with the bit-level `f32` operations: same expression tree, same order. -/
theorem lerpF_is_model_lerp (a b t : UInt32) :
    (lerp (⟨a⟩ : F32Bits) ⟨b⟩ ⟨t⟩).bits = F32.lerpF a b t := rfl

/-- In exact arithmetic the midpoint of `[i/2^k, (i+1)/2^k]` is `(2i+1)/2^(k+1)`. -/
theorem midM_dy (k i : ℕ) : midM (dy k i) (dy k (i + 1)) = dy (k + 1) (2 * i + 1) := by
  unfold midM lerp dy; rw [pow_succ]; push_cast; field_simp; ring

/-- **`lerp_half_exact_wide`.** `a.lerp(b, 0.5)` in `f32` on `a = i/2^k`, `b = (i+1)/2^k` whenever
the midpoint has at most 24 significant bits: the three operations are exact and the result is the bit
pattern of `(2i+1)/2^(k+1)`. -/
theorem lerp_half_exact_wide {i k : ℕ} (hi : 2 * i + 1 ≤ 2 ^ 24) (hk : k ≤ 148) :
    F32.toRat? (F32.sub (dyF k (i + 1)) (dyF k i)) = some (1 / 2 ^ k) ∧
    F32.toRat? (F32.mul (F32.sub (dyF k (i + 1)) (dyF k i)) (F32.ofRat (1 / 2))) = some (1 / 2 ^ (k + 1)) ∧
    F32.toRat? (F32.lerpF (dyF k i) (dyF k (i + 1)) (F32.ofRat (1 / 2))) = some (dy (k + 1) (2 * i + 1)) ∧
    F32.lerpF (dyF k i) (dyF k (i + 1)) (F32.ofRat (1 / 2)) = dyF (k + 1) (2 * i + 1) := by
  rw [F32.ofRat_half]
  obtain ⟨h1, h2, h3⟩ := F32.lerpF_half_dyadic_value hi hk
  exact ⟨h1, h2, h3, F32.lerpF_half_dyadic hi hk⟩

example : 2 * 3 + 1 ≤ 2 ^ 24 ∧ 100 ≤ 148 := by norm_num

/-- **`lerp_half_exact`.** For every interval `[i/2^k, (i+1)/2^k] ⊆ [0,1]` of the bisection down to
level `k ≤ 23`, `a.lerp(&b, 0.5)` evaluated in `f32` (bit level, round-to-nearest-even after each of
`b - a`, `· * 0.5`, `a + ·`) returns the bit pattern of the exact midpoint `(2i+1)/2^(k+1)`:
`b - a = 2^-k`, `(b - a) * 0.5 = 2^-(k+1)` and the sum are binary32 values, so no operation rounds;
and this is the midpoint of the exact model. -/
theorem lerp_half_exact {i k : ℕ} (hi : i + 1 ≤ 2 ^ k) (hk : k ≤ 23) :
    F32.toRat? (F32.sub (dyF k (i + 1)) (dyF k i)) = some (1 / 2 ^ k) ∧
    F32.toRat? (F32.mul (F32.sub (dyF k (i + 1)) (dyF k i)) (F32.ofRat (1 / 2))) = some (1 / 2 ^ (k + 1)) ∧
    F32.toRat? (F32.lerpF (dyF k i) (dyF k (i + 1)) (F32.ofRat (1 / 2))) = some (dy (k + 1) (2 * i + 1)) ∧
    F32.lerpF (dyF k i) (dyF k (i + 1)) (F32.ofRat (1 / 2)) = dyF (k + 1) (2 * i + 1) ∧
    midM (dy k i) (dy k (i + 1)) = dy (k + 1) (2 * i + 1) := by
  have hp : 2 ^ (k + 1) ≤ 2 ^ 24 := Nat.pow_le_pow_right (by norm_num) (by omega)
  have hp' : 2 ^ (k + 1) = 2 * 2 ^ k := by rw [pow_succ]; ring
  obtain ⟨h1, h2, h3, h4⟩ := lerp_half_exact_wide (i := i) (k := k) (by omega) (by omega)
  exact ⟨h1, h2, h3, h4, midM_dy k i⟩

example : (5 : ℕ) + 1 ≤ 2 ^ 3 ∧ 3 ≤ 23 := by norm_num

theorem midF_dy {i k : ℕ} (hi : i + 1 ≤ 2 ^ k) (hk : k ≤ 23) :
    midF (dyF k i) (dyF k (i + 1)) = dyF (k + 1) (2 * i + 1) := by
  have := (lerp_half_exact hi hk).2.2.2.1
  rw [F32.ofRat_half] at this
  exact this

/-! ### 3. The whole bisection tree -/

/-- The pattern of `halt` decisions of one run of `do_approx`: `leaf` = the interval was emitted
(`max_dep == 0 || halt(..)`), `node` = it was split at `mid`. -/
inductive Shape where
  | leaf
  | node (l r : Shape)

namespace Shape
/-- Number of nested splits. -/
def depth : Shape → ℕ
  | leaf => 0
  | node l r => max l.depth r.depth + 1

/-- Full bisection to depth `d` (a criterion that never halts). -/
def full : ℕ → Shape
  | 0 => leaf
  | d + 1 => node (full d) (full d)

theorem depth_full (d : ℕ) : (full d).depth = d := by
  induction d with
  | zero => rfl
  | succ d ih => simp [full, depth, ih]
end Shape

/-- The parameter intervals `do_approx(a, b, …)` emits, left to right, when its decisions follow the
given shape; `mid` is the scalar type's `a.lerp(&b, 0.5)`. -/
def bisect {α : Type} (mid : α → α → α) : Shape → α → α → List (α × α)
  | .leaf, a, b => [(a, b)]
  | .node l r, a, b => bisect mid l a (mid a b) ++ bisect mid r (mid a b) b

/-- Encoding of an exact parameter interval. -/
def encPair (p : ℚ × ℚ) : UInt32 × UInt32 := (F32.ofRat p.1, F32.ofRat p.2)

theorem bisect_node_dy (l r : Shape) (k i : ℕ) :
    bisect midM (.node l r) (dy k i) (dy k (i + 1)) =
      bisect midM l (dy (k + 1) (2 * i)) (dy (k + 1) (2 * i + 1)) ++
      bisect midM r (dy (k + 1) (2 * i + 1)) (dy (k + 1) (2 * i + 1 + 1)) := by
  show bisect midM l (dy k i) (midM (dy k i) (dy k (i + 1))) ++
    bisect midM r (midM (dy k i) (dy k (i + 1))) (dy k (i + 1)) = _
  rw [midM_dy, dy_double k i, dy_double k (i + 1)]
  rfl

theorem bisect_node_dyF (l r : Shape) {k i : ℕ} (hi : i + 1 ≤ 2 ^ k) (hk : k ≤ 23) :
    bisect midF (.node l r) (dyF k i) (dyF k (i + 1)) =
      bisect midF l (dyF (k + 1) (2 * i)) (dyF (k + 1) (2 * i + 1)) ++
      bisect midF r (dyF (k + 1) (2 * i + 1)) (dyF (k + 1) (2 * i + 1 + 1)) := by
  show bisect midF l (dyF k i) (midF (dyF k i) (dyF k (i + 1))) ++
    bisect midF r (midF (dyF k i) (dyF k (i + 1))) (dyF k (i + 1)) = _
  rw [midF_dy hi hk]
  have e1 : dyF k i = dyF (k + 1) (2 * i) := congrArg F32.ofRat (dy_double k i)
  have e2 : dyF k (i + 1) = dyF (k + 1) (2 * i + 1 + 1) := congrArg F32.ofRat (dy_double k (i + 1))
  rw [e1, e2]

/-- Exact arithmetic: every emitted interval below `[i/2^k, (i+1)/2^k]` is dyadic,
`[j/2^k', (j+1)/2^k']` with `k ≤ k' ≤ k + depth`. -/
theorem bisect_dyadic (t : Shape) : ∀ (k i : ℕ), i + 1 ≤ 2 ^ k →
    ∀ p ∈ bisect midM t (dy k i) (dy k (i + 1)),
      ∃ k' j : ℕ, k ≤ k' ∧ k' ≤ k + t.depth ∧ j + 1 ≤ 2 ^ k' ∧ p = (dy k' j, dy k' (j + 1)) := by
  induction t with
  | leaf =>
    intro k i hi p hp
    simp only [bisect, List.mem_singleton] at hp
    exact ⟨k, i, le_rfl, by simp [Shape.depth], hi, hp⟩
  | node l r ihl ihr =>
    intro k i hi p hp
    rw [bisect_node_dy] at hp
    have hp2 : 2 ^ (k + 1) = 2 * 2 ^ k := by rw [pow_succ]; ring
    have hd : (Shape.node l r).depth = max l.depth r.depth + 1 := rfl
    rcases List.mem_append.mp hp with h | h
    · obtain ⟨k', j, h1, h2, h3, h4⟩ := ihl (k + 1) (2 * i) (by omega) p h
      exact ⟨k', j, by omega, by omega, h3, h4⟩
    · obtain ⟨k', j, h1, h2, h3, h4⟩ := ihr (k + 1) (2 * i + 1) (by omega) p h
      exact ⟨k', j, by omega, by omega, h3, h4⟩

/-- The `f32` bisection below a dyadic interval, down to level 24, is the encoding of the exact one. -/
theorem bisect_f32_eq (t : Shape) : ∀ (k i : ℕ), i + 1 ≤ 2 ^ k → k + t.depth ≤ 24 →
    bisect midF t (dyF k i) (dyF k (i + 1)) =
      (bisect midM t (dy k i) (dy k (i + 1))).map encPair := by
  induction t with
  | leaf => intro k i _ _; rfl
  | node l r ihl ihr =>
    intro k i hi hd
    have hd' : (Shape.node l r).depth = max l.depth r.depth + 1 := rfl
    have hp2 : 2 ^ (k + 1) = 2 * 2 ^ k := by rw [pow_succ]; ring
    rw [bisect_node_dyF l r hi (by omega), bisect_node_dy, List.map_append,
      ihl (k + 1) (2 * i) (by omega) (by omega), ihr (k + 1) (2 * i + 1) (by omega) (by omega)]

/-- Exact arithmetic: the emitted intervals are non-degenerate, inside `[a, b]`, and ordered (each ends
no later than any later one starts). -/
theorem bisect_sorted (t : Shape) : ∀ {a b : ℚ}, a < b →
    (∀ p ∈ bisect midM t a b, a ≤ p.1 ∧ p.1 < p.2 ∧ p.2 ≤ b) ∧
    List.Pairwise (fun p q : ℚ × ℚ => p.2 ≤ q.1) (bisect midM t a b) := by
  induction t with
  | leaf =>
    intro a b hab
    refine ⟨?_, by simp [bisect]⟩
    intro p hp
    simp only [bisect, List.mem_singleton] at hp
    subst hp; exact ⟨le_rfl, hab, le_rfl⟩
  | node l r ihl ihr =>
    intro a b hab
    have hm : a < midM a b ∧ midM a b < b := mid_between hab
    obtain ⟨bl, pl⟩ := ihl hm.1
    obtain ⟨br, pr⟩ := ihr hm.2
    constructor
    · intro p hp
      rcases List.mem_append.mp hp with h | h
      · obtain ⟨h1, h2, h3⟩ := bl p h
        exact ⟨h1, h2, by linarith⟩
      · obtain ⟨h1, h2, h3⟩ := br p h
        exact ⟨by linarith, h2, h3⟩
    · show List.Pairwise _ (bisect midM l a (midM a b) ++ bisect midM r (midM a b) b)
      rw [List.pairwise_append]
      refine ⟨pl, pr, ?_⟩
      intro p hp q hq
      linarith [(bl p hp).2.2, (br q hq).1]

/-- **`bisect_tree_exact`.** Start from `[0.0, 1.0]` and follow ANY pattern of halt decisions with at
most 24 nested splits. Then the `f32` code (`mid = a.lerp(&b, 0.5)` at bit level):

* (a) emits exactly the encodings of the intervals the exact-arithmetic model emits; each of those is
  `[j/2^k, (j+1)/2^k]` with `k ≤ depth`, and both end points decode (`toRat?`) to these rationals –
  the `f32` parameters ARE the model's rational parameters;
* (b) every emitted interval is non-degenerate and the start parameters are strictly increasing for the
  `f32` comparison `<` (`F32.lt`);
* (c) the start parameters are pairwise distinct bit patterns. -/
theorem bisect_tree_exact (t : Shape) (hd : t.depth ≤ 24) :
    bisect midF t 0 F32.one = (bisect midM t (0 : ℚ) 1).map encPair ∧
    (∀ p ∈ bisect midM t (0 : ℚ) 1,
      (∃ k j : ℕ, k ≤ t.depth ∧ j + 1 ≤ 2 ^ k ∧ p = (dy k j, dy k (j + 1))) ∧
      F32.toRat? (F32.ofRat p.1) = some p.1 ∧ F32.toRat? (F32.ofRat p.2) = some p.2) ∧
    (∀ f ∈ bisect midF t 0 F32.one, F32.lt f.1 f.2 = true) ∧
    List.Pairwise (fun x y => F32.lt x y = true) ((bisect midF t 0 F32.one).map Prod.fst) ∧
    List.Pairwise (· ≠ ·) ((bisect midF t 0 F32.one).map Prod.fst) := by
  have heq : bisect midF t 0 F32.one = (bisect midM t (0 : ℚ) 1).map encPair := by
    have := bisect_f32_eq t 0 0 (by norm_num) (by omega)
    rw [dyF_root.1, show dyF 0 (0 + 1) = F32.one from dyF_root.2, dy_zero,
      show dy 0 (0 + 1) = 1 from dy_one] at this
    exact this
  have hdy : ∀ p ∈ bisect midM t (0 : ℚ) 1,
      ∃ k j : ℕ, k ≤ t.depth ∧ j + 1 ≤ 2 ^ k ∧ p = (dy k j, dy k (j + 1)) := by
    intro p hp
    have := bisect_dyadic t 0 0 (by norm_num)
    rw [dy_zero, show dy 0 (0 + 1) = 1 from dy_one] at this
    obtain ⟨k, j, _, h2, h3, h4⟩ := this p hp
    exact ⟨k, j, by omega, h3, h4⟩
  have hval : ∀ p ∈ bisect midM t (0 : ℚ) 1,
      F32.toRat? (F32.ofRat p.1) = some p.1 ∧ F32.toRat? (F32.ofRat p.2) = some p.2 := by
    intro p hp
    obtain ⟨k, j, hk, hj, rfl⟩ := hdy p hp
    exact ⟨dyF_value (by omega) (by omega), dyF_value hj (by omega)⟩
  obtain ⟨hb, hpw⟩ := bisect_sorted t (a := 0) (b := 1) one_pos
  have hpw' : List.Pairwise (fun p q : ℚ × ℚ => p.1 < q.1) (bisect midM t (0 : ℚ) 1) := by
    refine hpw.imp_of_mem ?_
    intro p q hp _ h
    exact lt_of_lt_of_le (hb p hp).2.1 h
  refine ⟨heq, fun p hp => ⟨hdy p hp, hval p hp⟩, ?_, ?_, ?_⟩
  · intro f hf
    rw [heq] at hf
    obtain ⟨p, hp, rfl⟩ := List.mem_map.mp hf
    show F32.lt (F32.ofRat p.1) (F32.ofRat p.2) = true
    rw [F32.lt_finite (hval p hp).1 (hval p hp).2]
    exact decide_eq_true (hb p hp).2.1
  · rw [heq, List.map_map, List.pairwise_map]
    refine hpw'.imp_of_mem ?_
    intro p q hp hq h
    show F32.lt (F32.ofRat p.1) (F32.ofRat q.1) = true
    rw [F32.lt_finite (hval p hp).1 (hval q hq).1]
    exact decide_eq_true h
  · rw [heq, List.map_map, List.pairwise_map]
    refine hpw'.imp_of_mem ?_
    intro p q hp hq h e
    have e' : F32.ofRat p.1 = F32.ofRat q.1 := e
    have r1 := F32.rep_of_toRat? (hval p hp).1
    have r2 := F32.rep_of_toRat? (hval q hq).1
    exact (ne_of_lt h) (F32.ofRat_injective_rep r1 r2 e')

/-- The hypothesis is satisfiable at its limit: full bisection to depth 24. -/
example : (Shape.full 24).depth ≤ 24 := by rw [Shape.depth_full]

/-- **`bisect_mids_exact`.** With at most 23 nested splits, also the midpoint that `do_approx` computes
in every emitted interval (it is evaluated – `real = eval(mid)` – for the error vector even when the
interval is not split) is exact: the bit pattern of the model's rational midpoint. -/
theorem bisect_mids_exact (t : Shape) (hd : t.depth ≤ 23) :
    ∀ p ∈ bisect midM t (0 : ℚ) 1,
      midF (F32.ofRat p.1) (F32.ofRat p.2) = F32.ofRat (midM p.1 p.2) ∧
      F32.toRat? (midF (F32.ofRat p.1) (F32.ofRat p.2)) = some (midM p.1 p.2) := by
  intro p hp
  have := bisect_dyadic t 0 0 (by norm_num)
  rw [dy_zero, show dy 0 (0 + 1) = 1 from dy_one] at this
  obtain ⟨k, j, _, h2, h3, rfl⟩ := this p hp
  have hk : k ≤ 23 := by omega
  obtain ⟨_, _, h5, h6, h7⟩ := lerp_half_exact h3 hk
  rw [F32.ofRat_half] at h5 h6
  show midF (dyF k j) (dyF k (j + 1)) = F32.ofRat (midM (dy k j) (dy k (j + 1))) ∧
    F32.toRat? (midF (dyF k j) (dyF k (j + 1))) = some (midM (dy k j) (dy k (j + 1)))
  rw [h7]
  exact ⟨h6, h5⟩

example : (Shape.full 23).depth ≤ 23 := by rw [Shape.depth_full]

/-! ### 4. Sharpness -/

/-- **`bisect_breaks_at_25`.** The bound is sharp. `0x3F7FFFFF = (2^24−1)/2^24` is the largest `f32`
below `1.0`: the level-24 interval `[0x3F7FFFFF, 1.0]` is one ulp wide, and the `f32` midpoint (which
would be the level-25 parameter `(2^25−1)/2^25`) is the END point `1.0` (tie, rounds to even), so the
right child is the degenerate `[1.0, 1.0]`. In the level-24 interval before it,
`[0x3F7FFFFE, 0x3F7FFFFF]`, the midpoint is the START point: both children start at the same parameter,
and "strictly increasing parameters" fails in `f32` from depth 25 on. -/
theorem bisect_breaks_at_25 :
    dyF 24 (2 ^ 24 - 1) = 0x3F7FFFFF ∧ dyF 24 (2 ^ 24) = F32.one ∧
    midF 0x3F7FFFFF F32.one = F32.one ∧ F32.lt (midF 0x3F7FFFFF F32.one) F32.one = false ∧
    dyF 24 (2 ^ 24 - 2) = 0x3F7FFFFE ∧
    midF 0x3F7FFFFE 0x3F7FFFFF = 0x3F7FFFFE ∧
    F32.lt 0x3F7FFFFE (midF 0x3F7FFFFE 0x3F7FFFFF) = false ∧
    bisect midF (.node .leaf .leaf) 0x3F7FFFFE 0x3F7FFFFF =
      [(0x3F7FFFFE, 0x3F7FFFFE), (0x3F7FFFFE, 0x3F7FFFFF)] := by
  refine ⟨?_, ?_, ?_, ?_, ?_, ?_, ?_, ?_⟩
  · unfold dyF dy; decide +kernel
  · unfold dyF dy; decide +kernel
  · unfold midF F32.lerpF; decide +kernel
  · unfold midF F32.lerpF; decide +kernel
  · unfold dyF dy; decide +kernel
  · unfold midF F32.lerpF; decide +kernel
  · unfold midF F32.lerpF; decide +kernel
  · unfold bisect bisect midF F32.lerpF; decide +kernel

/-! ### 5. Bridge to the model's `approximate` -/

section Bridge
variable {α : Type} [Add α] [Sub α] [Mul α] [Div α] [Neg α] [LT α] [DecidableLT α] [LE α]
  [DecidableLE α] [OfNat α 0] [OfNat α 1] [OfNat α 2] [OfNat α 3] [NatCast α] [HasFloorInt α]

/-- **`doApprox_shape`.** Whatever the scalar type (exact rationals, `XRat` of the driver, …), the
control points and the (stateful) criterion: whenever the model's `do_approx` returns, the parameter
intervals of its pieces are the bisection of `[a, b]` along some shape with at most `d` nested
splits, with `mid = a.lerp(&b, 0.5)` of that scalar type. -/
theorem doApprox_shape {σ : Type} (pts : List (List α)) (halt : σ → List α → Bool × σ) (d : ℕ) :
    ∀ (a b : α) (s : σ) (ps : List (Piece α)) (s' : σ),
      doApprox pts halt d a b s = .ok (ps, s') →
      ∃ t : Shape, t.depth ≤ d ∧ ps.map (fun p => (p.a, p.b)) = bisect midM t a b := by
  induction d with
  | zero =>
    intro a b s ps s' h
    unfold doApprox at h
    split at h
    · cases h; exact ⟨.leaf, le_rfl, rfl⟩
    · cases h
  | succ d ih =>
    intro a b s ps s' h
    unfold doApprox at h
    split at h
    · cases h
    · dsimp only at h
      split at h
      · cases h; exact ⟨.leaf, Nat.zero_le _, rfl⟩
      · split at h
        · cases h
        · rename_i l1 s1 h1
          split at h
          · cases h
          · rename_i l2 s2 h2
            cases h
            obtain ⟨t1, d1, e1⟩ := ih _ _ _ _ _ h1
            obtain ⟨t2, d2, e2⟩ := ih _ _ _ _ _ h2
            refine ⟨.node t1 t2, ?_, ?_⟩
            · show max t1.depth t2.depth + 1 ≤ d + 1
              omega
            · rw [List.map_append, e1, e2]; rfl

/-- The same for `approximate`: root interval `[0, 1]`, depth bound `10 + ⌊log₂ len⌋`. -/
theorem approximate_shape {σ : Type} (pts : List (List α)) (halt : σ → List α → Bool × σ) (s : σ)
    (ps : List (Piece α)) (out : List (List α)) (s' : σ)
    (h : approximate pts halt s = .ok (ps, out, s')) :
    ∃ t : Shape, t.depth ≤ maxDepth pts.length ∧
      ps.map (fun p => (p.a, p.b)) = bisect midM t (0 : α) 1 := by
  unfold approximate at h
  dsimp only at h
  split at h
  · cases h
  · split at h
    · cases h
    · rename_i ps0 s0 h0
      split at h
      · cases h
        exact doApprox_shape pts halt _ _ _ _ _ _ h0
      · cases h

end Bridge

/-- `10 + ⌊log₂ len⌋ ≤ 24` exactly for fewer than `2^15` control points. -/
theorem maxDepth_le_24 {len : ℕ} (h0 : len ≠ 0) : maxDepth len ≤ 24 ↔ len < 2 ^ 15 := by
  unfold maxDepth
  have := Nat.log2_lt (n := len) (k := 15) h0
  omega

/-- `10 + ⌊log₂ len⌋ ≤ 23` exactly for fewer than `2^14` control points. -/
theorem maxDepth_le_23 {len : ℕ} (h0 : len ≠ 0) : maxDepth len ≤ 23 ↔ len < 2 ^ 14 := by
  unfold maxDepth
  have := Nat.log2_lt (n := len) (k := 14) h0
  omega

example : maxDepth 32767 = 24 ∧ maxDepth 32768 = 25 := by decide

/-- **`approx_params_f32`.** The parameters of the model's `approximate` ARE the `f32` parameters.
Run the model at exact rationals on a spline with fewer than `2^15` control points (depth bound
`10 + ⌊log₂ len⌋ ≤ 24`), with any criterion. Its pieces follow some shape `t` of halt decisions; the
`f32` recursion of spline.rs that takes the same decisions (`bisect midF t 0.0 1.0`: the driver replays
the implementation's logged decisions, so the shapes coincide) handles exactly the intervals
`(ofRat p.a, ofRat p.b)`; each of these bit patterns decodes to the model's rational parameter; the
intervals are non-degenerate for the `f32` `<`; the start parameters – the parameters of the output
points – are strictly increasing for the `f32` `<` and pairwise distinct as bit patterns. With fewer
than `2^14` control points every midpoint fed to `eval` for the error vector is exact as well. -/
theorem approx_params_f32 [HasFloorInt ℚ] {σ : Type} (pts : List (List ℚ))
    (halt : σ → List ℚ → Bool × σ) (s : σ) (ps : List (Piece ℚ)) (out : List (List ℚ)) (s' : σ)
    (hlen : pts.length < 2 ^ 15) (h : approximate pts halt s = .ok (ps, out, s')) :
    ∃ t : Shape, t.depth ≤ maxDepth pts.length ∧ maxDepth pts.length ≤ 24 ∧
      ps.map (fun p => (p.a, p.b)) = bisect midM t (0 : ℚ) 1 ∧
      bisect midF t 0 F32.one = ps.map (fun p => (F32.ofRat p.a, F32.ofRat p.b)) ∧
      (∀ p ∈ ps, F32.toRat? (F32.ofRat p.a) = some p.a ∧ F32.toRat? (F32.ofRat p.b) = some p.b ∧
        F32.lt (F32.ofRat p.a) (F32.ofRat p.b) = true ∧
        ∃ k j : ℕ, k ≤ maxDepth pts.length ∧ j + 1 ≤ 2 ^ k ∧ p.a = dy k j ∧ p.b = dy k (j + 1)) ∧
      List.Pairwise (fun x y => F32.lt x y = true) (ps.map fun p => F32.ofRat p.a) ∧
      List.Pairwise (· ≠ ·) (ps.map fun p => F32.ofRat p.a) ∧
      (pts.length < 2 ^ 14 → ∀ p ∈ ps,
        midF (F32.ofRat p.a) (F32.ofRat p.b) = F32.ofRat (midM p.a p.b) ∧
        F32.toRat? (midF (F32.ofRat p.a) (F32.ofRat p.b)) = some (midM p.a p.b)) := by
  have h0 : pts.length ≠ 0 := by
    intro h0
    unfold approximate at h
    simp [h0] at h
  have hD : maxDepth pts.length ≤ 24 := (maxDepth_le_24 h0).2 hlen
  obtain ⟨t, ht, hps⟩ := approximate_shape pts halt s ps out s' h
  obtain ⟨heq, hq, hlt, hpw, hne⟩ := bisect_tree_exact t (by omega)
  have hF : bisect midF t 0 F32.one = ps.map (fun p => (F32.ofRat p.a, F32.ofRat p.b)) := by
    rw [heq, ← hps, List.map_map]; rfl
  have hmem : ∀ p ∈ ps, (p.a, p.b) ∈ bisect midM t (0 : ℚ) 1 := by
    intro p hp
    rw [← hps]
    exact List.mem_map.mpr ⟨p, hp, rfl⟩
  have hfst : (bisect midF t 0 F32.one).map Prod.fst = ps.map fun p => F32.ofRat p.a := by
    rw [hF, List.map_map]; rfl
  refine ⟨t, ht, hD, hps, hF, ?_, by rw [← hfst]; exact hpw, by rw [← hfst]; exact hne, ?_⟩
  · intro p hp
    obtain ⟨⟨k, j, hk, hj, e⟩, v1, v2⟩ := hq (p.a, p.b) (hmem p hp)
    have hl := hlt (F32.ofRat p.a, F32.ofRat p.b) (by rw [hF]; exact List.mem_map.mpr ⟨p, hp, rfl⟩)
    exact ⟨v1, v2, hl, k, j, by omega, hj, congrArg Prod.fst e, congrArg Prod.snd e⟩
  · intro hlen' p hp
    have hD' : maxDepth pts.length ≤ 23 := (maxDepth_le_23 h0).2 hlen'
    exact bisect_mids_exact t (by omega) (p.a, p.b) (hmem p hp)

/-- **`approx_params_f32_valid`.** Unconditional form for every spline `new` accepts with fewer than
`2^15` control points: `approximate` returns (`approx_structure`) and its parameters are the `f32`
parameters. -/
theorem approx_params_f32_valid {σ : Type} (pts : List (List ℚ)) (hv : Valid pts)
    (hlen : pts.length < 2 ^ 15) (halt : σ → List ℚ → Bool × σ) (s : σ) :
    ∃ ps out s' t, approximate pts halt s = .ok (ps, out, s') ∧
      t.depth ≤ 24 ∧
      bisect midF t 0 F32.one = ps.map (fun p => (F32.ofRat p.a, F32.ofRat p.b)) ∧
      (∀ p ∈ ps, F32.toRat? (F32.ofRat p.a) = some p.a ∧ F32.toRat? (F32.ofRat p.b) = some p.b) ∧
      List.Pairwise (fun x y => F32.lt x y = true) (ps.map fun p => F32.ofRat p.a) ∧
      List.Pairwise (· ≠ ·) (ps.map fun p => F32.ofRat p.a) := by
  obtain ⟨ps, out, s', _, _, hr, _⟩ := approx_structure pts hv halt s
  obtain ⟨t, ht, hD, _, hF, hp, hpw, hne, _⟩ := approx_params_f32 pts halt s ps out s' hlen hr
  exact ⟨ps, out, s', t, hr, by omega, hF, fun p hp' => ⟨(hp p hp').1, (hp p hp').2.1⟩, hpw, hne⟩

/-- The hypotheses are satisfiable: the crate's doc-example arch (4 control points, depth bound 12). -/
example : Valid ([[0, 0], [0, 1], [1, 1], [1, 0]] : List (List ℚ)) ∧
    ([[0, 0], [0, 1], [1, 1], [1, 0]] : List (List ℚ)).length < 2 ^ 15 := by
  refine ⟨by unfold Valid; decide, by norm_num⟩

end Retro.Props.C17
