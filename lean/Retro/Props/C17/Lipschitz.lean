/-
C17, part 6: quantitative continuity. Each component of a spline's `eval` is Lipschitz on `[0,1]`
with constant `3·n·M` (`n` segments, `M` a bound on the differences of consecutive control
points in that component) – across joins as well as inside segments, for every segment count.
Purely algebraic (any ordered field with floor), so it is a statement about the exact model.
-/
import Retro.Props.C17.Curve
import Mathlib.Tactic.Positivity
import Mathlib.Tactic.GCongr
import Mathlib.Tactic.IntervalCases

set_option linter.unusedSectionVars false

namespace Retro.Props.C17
open Retro Retro.Spline Retro.Spec.Spline Retro.Lemmas.Spline

variable {K : Type} [Field K] [LinearOrder K] [IsStrictOrderedRing K]

/-- Difference of the Bernstein form at two parameters: `(u − v)` times a convex-type combination
of the three control differences. -/
theorem bernstein_sub (a b c d u v : K) :
    bernstein a b c d u - bernstein a b c d v =
      (u - v) * (((1 - u) * (1 - u) + (1 - u) * (1 - v) + (1 - v) * (1 - v)) * (b - a)
        + (2 * u * (1 - u) + 2 * v * (1 - v) + u * (1 - v) + v * (1 - u)) * (c - b)
        + (u * u + u * v + v * v) * (d - c)) := by
  unfold bernstein; ring

/-- **Lipschitz bound for one cubic.** On `[0,1]` the Bernstein form changes by at most
`3·M·|u − v|`, `M` a bound on the differences of consecutive control values. -/
theorem bernstein_lipschitz (a b c d u v M : K) (hu0 : 0 ≤ u) (hu1 : u ≤ 1) (hv0 : 0 ≤ v) (hv1 : v ≤ 1)
    (h1 : |b - a| ≤ M) (h2 : |c - b| ≤ M) (h3 : |d - c| ≤ M) :
    |bernstein a b c d u - bernstein a b c d v| ≤ 3 * M * |u - v| := by
  rw [bernstein_sub, abs_mul]
  have w0 : 0 ≤ (1 - u) * (1 - u) + (1 - u) * (1 - v) + (1 - v) * (1 - v) := by
    have : 0 ≤ 1 - u := by linarith
    have : 0 ≤ 1 - v := by linarith
    positivity
  have w1 : 0 ≤ 2 * u * (1 - u) + 2 * v * (1 - v) + u * (1 - v) + v * (1 - u) := by
    have : 0 ≤ 1 - u := by linarith
    have : 0 ≤ 1 - v := by linarith
    positivity
  have w2 : 0 ≤ u * u + u * v + v * v := by positivity
  have hsum : ((1 - u) * (1 - u) + (1 - u) * (1 - v) + (1 - v) * (1 - v))
      + (2 * u * (1 - u) + 2 * v * (1 - v) + u * (1 - v) + v * (1 - u)) + (u * u + u * v + v * v) = 3 := by ring
  have hM : 0 ≤ M := le_trans (abs_nonneg _) h1
  have key : |((1 - u) * (1 - u) + (1 - u) * (1 - v) + (1 - v) * (1 - v)) * (b - a)
        + (2 * u * (1 - u) + 2 * v * (1 - v) + u * (1 - v) + v * (1 - u)) * (c - b)
        + (u * u + u * v + v * v) * (d - c)| ≤ 3 * M := by
    refine le_trans (abs_add_three _ _ _) ?_
    rw [abs_mul, abs_mul, abs_mul, abs_of_nonneg w0, abs_of_nonneg w1, abs_of_nonneg w2]
    calc _ ≤ ((1 - u) * (1 - u) + (1 - u) * (1 - v) + (1 - v) * (1 - v)) * M
          + (2 * u * (1 - u) + 2 * v * (1 - v) + u * (1 - v) + v * (1 - u)) * M
          + (u * u + u * v + v * v) * M := by
            gcongr
      _ = 3 * M := by rw [← add_mul, ← add_mul, hsum]
  calc |u - v| * _ ≤ |u - v| * (3 * M) := by gcongr
    _ = 3 * M * |u - v| := by ring

variable [FloorRing K]

/-- Component `i` of `eval pts t` is `a`. -/
def CompAt (pts : List (List K)) (i : Nat) (t a : K) : Prop :=
  ∃ v, splineEval pts t = .ok v ∧ v[i]? = some a

theorem CompAt.unique {pts : List (List K)} {i : Nat} {t a a' : K}
    (h : CompAt pts i t a) (h' : CompAt pts i t a') : a = a' := by
  obtain ⟨v, hv, ha⟩ := h
  obtain ⟨v', hv', ha'⟩ := h'
  rw [hv] at hv'; cases hv'
  rw [ha] at ha'; exact Option.some.inj ha'

/-- The standing assumptions: a valid spline of `dim`-dimensional points, a component index, and a
bound `M` on the differences of consecutive control points in that component. -/
structure Setting (pts : List (List K)) (dim i : Nat) (M : K) : Prop where
  valid : Valid pts
  n32 : nSegs pts ≤ 4294967296
  dims : ∀ p ∈ pts, p.length = dim
  idx : i < dim
  bound : ∀ (j : Nat) (p q : List K) (a b : K), pts[j]? = some p → pts[j + 1]? = some q →
    p[i]? = some a → q[i]? = some b → |b - a| ≤ M

/-- Inside the closed segment `k`, component `i` of `eval` is the Bernstein form of the four
control values of that segment, whose consecutive differences are bounded by `M`. -/
theorem seg_comp {pts : List (List K)} {dim i : Nat} {M : K} (S : Setting pts dim i M) (k : Nat)
    (hk : k < nSegs pts) :
    ∃ a0 a1 a2 a3 : K, |a1 - a0| ≤ M ∧ |a2 - a1| ≤ M ∧ |a3 - a2| ≤ M ∧
      ∀ t : K, (k : K) ≤ t * (nSegs pts : K) → t * (nSegs pts : K) ≤ (k : K) + 1 →
        CompAt pts i t (bernstein a0 a1 a2 a3 (t * (nSegs pts : K) - (k : K))) := by
  obtain ⟨hlen, hn⟩ := valid_len S.valid
  have hb : 3 * k + 3 < pts.length := by omega
  have g0 := List.getElem?_eq_getElem (l := pts) (i := 3 * k) (by omega)
  have g1 := List.getElem?_eq_getElem (l := pts) (i := 3 * k + 1) (by omega)
  have g2 := List.getElem?_eq_getElem (l := pts) (i := 3 * k + 2) (by omega)
  have g3 := List.getElem?_eq_getElem (l := pts) (i := 3 * k + 3) (by omega)
  have l0 := S.dims _ (List.mem_of_getElem? g0)
  have l1 := S.dims _ (List.mem_of_getElem? g1)
  have l2 := S.dims _ (List.mem_of_getElem? g2)
  have l3 := S.dims _ (List.mem_of_getElem? g3)
  have hi := S.idx
  have c0 := List.getElem?_eq_getElem (l := pts[3 * k]) (i := i) (by omega)
  have c1 := List.getElem?_eq_getElem (l := pts[3 * k + 1]) (i := i) (by omega)
  have c2 := List.getElem?_eq_getElem (l := pts[3 * k + 2]) (i := i) (by omega)
  have c3 := List.getElem?_eq_getElem (l := pts[3 * k + 3]) (i := i) (by omega)
  refine ⟨_, _, _, _, S.bound _ _ _ _ _ g0 g1 c0 c1, S.bound _ _ _ _ _ g1 g2 c1 c2,
    S.bound _ _ _ _ _ g2 g3 c2 c3, ?_⟩
  intro t h0 h1
  refine ⟨_, spline_eq_segment_closed pts S.valid t k hk S.n32 h0 h1 g0 g1 g2 g3, ?_⟩
  rw [eval_eq_bernstein_closed _ _ _ _ _ (by linarith) (by linarith) (by omega) (by omega) (by omega)]
  exact map4_getElem? _ _ _ _ _ _ c0 c1 c2 c3

/-- `eval` has a component `i` for every parameter in `[0,1]` (indeed for every parameter). -/
theorem exists_seg (n : Nat) (hn : 1 ≤ n) (t : K) (t0 : 0 ≤ t) (t1 : t ≤ 1) :
    ∃ k : Nat, k < n ∧ (k : K) ≤ t * (n : K) ∧ t * (n : K) ≤ (k : K) + 1 := by
  have npos : (0 : K) < (n : K) := by exact_mod_cast hn
  have hx0 : 0 ≤ t * (n : K) := mul_nonneg t0 npos.le
  have hx1 : t * (n : K) ≤ (n : K) := by nlinarith
  rcases eq_or_lt_of_le t1 with h1 | h1
  · refine ⟨n - 1, by omega, ?_, ?_⟩
    · rw [h1, one_mul]; exact_mod_cast Nat.sub_le n 1
    · rw [h1, one_mul, Nat.cast_sub hn]; simp
  · have hf0 : 0 ≤ ⌊t * (n : K)⌋ := Int.floor_nonneg.mpr hx0
    have hlt : t * (n : K) < (n : K) := by nlinarith
    have hf1 : ⌊t * (n : K)⌋ < (n : ℤ) := by rw [Int.floor_lt]; exact_mod_cast hlt
    have hc : (((⌊t * (n : K)⌋).toNat : ℕ) : K) = ((⌊t * (n : K)⌋ : ℤ) : K) := by
      have : (((⌊t * (n : K)⌋).toNat : ℕ) : ℤ) = ⌊t * (n : K)⌋ := Int.toNat_of_nonneg hf0
      exact_mod_cast congrArg (fun z : ℤ => (z : K)) this
    refine ⟨(⌊t * (n : K)⌋).toNat, by omega, ?_, ?_⟩
    · rw [hc]; exact Int.floor_le _
    · rw [hc]; exact (Int.lt_floor_add_one _).le

/-- Within one closed segment. -/
theorem lipschitz_same_segment {pts : List (List K)} {dim i : Nat} {M : K} (S : Setting pts dim i M)
    (k : Nat) (hk : k < nSegs pts) (t t' a a' : K)
    (h0 : (k : K) ≤ t * (nSegs pts : K)) (h1 : t * (nSegs pts : K) ≤ (k : K) + 1)
    (h0' : (k : K) ≤ t' * (nSegs pts : K)) (h1' : t' * (nSegs pts : K) ≤ (k : K) + 1)
    (ha : CompAt pts i t a) (ha' : CompAt pts i t' a') :
    |a - a'| ≤ 3 * M * (nSegs pts : K) * |t - t'| := by
  obtain ⟨a0, a1, a2, a3, b1, b2, b3, hc⟩ := seg_comp S k hk
  rw [(hc t h0 h1).unique ha |>.symm, (hc t' h0' h1').unique ha' |>.symm]
  have := bernstein_lipschitz a0 a1 a2 a3 (t * (nSegs pts : K) - k) (t' * (nSegs pts : K) - k) M
    (by linarith) (by linarith) (by linarith) (by linarith) b1 b2 b3
  have e : t * (nSegs pts : K) - k - (t' * (nSegs pts : K) - k) = (t - t') * (nSegs pts : K) := by ring
  obtain ⟨_, hn⟩ := valid_len S.valid
  have npos : (0 : K) < (nSegs pts : K) := by exact_mod_cast hn
  rw [e, abs_mul, abs_of_pos npos] at this
  calc _ ≤ 3 * M * (|t - t'| * (nSegs pts : K)) := this
    _ = _ := by ring

/-- Across `d` joins, by induction on `d`. -/
theorem lipschitz_chain {pts : List (List K)} {dim i : Nat} {M : K} (S : Setting pts dim i M)
    (d : Nat) : ∀ (k : Nat) (t t' a a' : K), k + d < nSegs pts → t ≤ t' →
      (k : K) ≤ t * (nSegs pts : K) → t * (nSegs pts : K) ≤ (k : K) + 1 →
      ((k + d : Nat) : K) ≤ t' * (nSegs pts : K) → t' * (nSegs pts : K) ≤ ((k + d : Nat) : K) + 1 →
      CompAt pts i t a → CompAt pts i t' a' →
      |a - a'| ≤ 3 * M * (nSegs pts : K) * (t' - t) := by
  obtain ⟨hlen, hn⟩ := valid_len S.valid
  have npos : (0 : K) < (nSegs pts : K) := by exact_mod_cast hn
  induction d with
  | zero =>
    intro k t t' a a' hk htt h0 h1 h0' h1' ha ha'
    have := lipschitz_same_segment S k (by omega) t t' a a' h0 h1 (by simpa using h0') (by simpa using h1') ha ha'
    rwa [abs_sub_comm t t', abs_of_nonneg (sub_nonneg.mpr htt)] at this
  | succ d ih =>
    intro k t t' a a' hk htt h0 h1 h0' h1' ha ha'
    -- the join between segments k and k+1
    have hj : ((k + 1 : Nat) : K) / (nSegs pts : K) * (nSegs pts : K) = ((k + 1 : Nat) : K) := by
      field_simp
    obtain ⟨a0, a1, a2, a3, _, _, _, hc⟩ := seg_comp S k (by omega)
    have hb := hc (((k + 1 : Nat) : K) / (nSegs pts : K)) (by rw [hj]; push_cast; linarith)
      (by rw [hj]; push_cast; linarith)
    have tj : t ≤ ((k + 1 : Nat) : K) / (nSegs pts : K) := by
      rw [le_div_iff₀ npos]; push_cast; linarith
    have jt' : ((k + 1 : Nat) : K) / (nSegs pts : K) ≤ t' := by
      rw [div_le_iff₀ npos]
      have : ((k + 1 : Nat) : K) ≤ ((k + (d + 1) : Nat) : K) := by exact_mod_cast (by omega : k + 1 ≤ k + (d + 1))
      linarith
    have s1 := lipschitz_same_segment S k (by omega) t _ a _ h0 h1 (by rw [hj]; push_cast; linarith)
      (by rw [hj]; push_cast; linarith) ha hb
    rw [abs_sub_comm t, abs_of_nonneg (sub_nonneg.mpr tj)] at s1
    have e : k + 1 + d = k + (d + 1) := by omega
    have s2 := ih (k + 1) _ t' _ a' (by omega) jt' (by rw [hj]) (by rw [hj]; linarith)
      (by rw [e]; exact h0') (by rw [e]; exact h1') hb ha'
    calc |a - a'| ≤ |a - _| + |_ - a'| := abs_sub_le a _ a'
      _ ≤ _ := by
        have hL : 0 ≤ 3 * M * (nSegs pts : K) := by
          have : 0 ≤ M := le_trans (abs_nonneg _) (by assumption : |a1 - a0| ≤ M)
          positivity
        nlinarith [s1, s2]

/-- **`spline_lipschitz`.** For a valid spline and `t, t' ∈ [0,1]`, component `i` of `eval`
moves by at most `3·M·n·|t − t'|` – whether or not joins lie between `t` and `t'`. In particular
`eval` is continuous (uniformly) on `[0,1]`, for every segment count. -/
theorem spline_lipschitz {pts : List (List K)} {dim i : Nat} {M : K} (S : Setting pts dim i M)
    (t t' a a' : K) (t0 : 0 ≤ t) (t1 : t ≤ 1) (t0' : 0 ≤ t') (t1' : t' ≤ 1)
    (ha : CompAt pts i t a) (ha' : CompAt pts i t' a') :
    |a - a'| ≤ 3 * M * (nSegs pts : K) * |t - t'| := by
  obtain ⟨hlen, hn⟩ := valid_len S.valid
  have npos : (0 : K) < (nSegs pts : K) := by exact_mod_cast hn
  -- wlog t ≤ t'
  have main : ∀ (t t' a a' : K), 0 ≤ t → t ≤ 1 → 0 ≤ t' → t' ≤ 1 → t ≤ t' →
      CompAt pts i t a → CompAt pts i t' a' → |a - a'| ≤ 3 * M * (nSegs pts : K) * (t' - t) := by
    intro t t' a a' t0 t1 t0' t1' htt ha ha'
    obtain ⟨k, hk, h0, h1⟩ := exists_seg (nSegs pts) hn t t0 t1
    obtain ⟨k', hk', h0', h1'⟩ := exists_seg (nSegs pts) hn t' t0' t1'
    rcases Nat.lt_or_ge k' k with hlt | hge
    · -- t ≤ t' but k' < k: both lie on the join, hence in segment k' as well
      have hkk : ((k' + 1 : Nat) : K) ≤ (k : K) := by exact_mod_cast hlt
      have hx : t * (nSegs pts : K) ≤ t' * (nSegs pts : K) := by nlinarith
      push_cast at hkk
      have := lipschitz_same_segment S k' hk' t t' a a' (by linarith) (by linarith) h0' h1' ha ha'
      rwa [abs_sub_comm t t', abs_of_nonneg (sub_nonneg.mpr htt)] at this
    · obtain ⟨d, rfl⟩ := Nat.exists_eq_add_of_le hge
      exact lipschitz_chain S d k t t' a a' hk' htt h0 h1 h0' h1' ha ha'
  rcases le_total t t' with h | h
  · rw [abs_sub_comm t t', abs_of_nonneg (sub_nonneg.mpr h)]
    exact main t t' a a' t0 t1 t0' t1' h ha ha'
  · rw [abs_of_nonneg (sub_nonneg.mpr h), abs_sub_comm a a']
    exact main t' t a' a t0' t1' t0 t1 h ha' ha

/-- The setting is satisfiable: the crate's own two-segment test spline, component 0, `M = 4/5`. -/
example : Setting ([[0], [4/5], [9/10], [1], [3/5], [1/2], [1/2]] : List (List ℚ)) 1 0 (4/5) where
  valid := by unfold Valid; decide
  n32 := by unfold nSegs; decide
  dims := by decide
  idx := by decide
  bound := by
    intro j p q a b hp hq ha hb
    have hj : j < 6 := by
      by_contra hc
      have : ([[0], [4/5], [9/10], [1], [3/5], [1/2], [1/2]] : List (List ℚ))[j + 1]? = none := by
        apply List.getElem?_eq_none; simp; omega
      rw [this] at hq; cases hq
    interval_cases j <;> simp at hp hq <;> subst hp hq <;> simp at ha hb <;> subst ha hb <;> norm_num [abs_le]

end Retro.Props.C17
