/-
C17, part 8: `BezierSpline::from_rays`. The control polygon it builds is accepted by `new` exactly
for two or more rays, every segment is `p, p+v, q−w, q` for consecutive rays `(p,v)`, `(q,w)`
(so all evaluation theorems of Spline/Curve/Approx/Lipschitz apply to it), and it is C¹: at every
interior knot the tangent from the left and from the right are both three times the ray's direction.
-/
import Retro.Props.C17.Spline

set_option linter.unusedSectionVars false

namespace Retro.Props.C17
open Retro Retro.Spline Retro.Spec.Spline Retro.Lemmas.Spline

variable {K : Type} [Field K] [LinearOrder K] [IsStrictOrderedRing K] [FloorRing K]

/-- Number of control points: none for no ray, `3n − 2` for `n ≥ 1` rays (one extra leading point
when the list is not the head of the input). -/
theorem fromRaysPts_length (rays : List (List K × List K)) (first : Bool) (h : rays ≠ []) :
    (fromRaysPts first rays).length = 3 * rays.length - (if first then 2 else 1) := by
  induction rays generalizing first with
  | nil => exact absurd rfl h
  | cons r rest ih =>
    obtain ⟨p, v⟩ := r
    cases rest with
    | nil => cases first <;> simp [fromRaysPts]
    | cons r' rest' =>
      have := ih false (by simp)
      simp only [List.length_cons, Bool.false_eq_true, if_false] at this
      rw [fromRaysPts]
      simp only [List.length_append, this, List.length_cons, List.isEmpty_cons, Bool.false_eq_true,
        if_false, List.length_nil]
      cases first <;> simp <;> omega

/-- Dropping the first segment's three leading points leaves the polygon of the remaining rays. -/
theorem fromRaysPts_drop (r0 r1 : List K × List K) (rest : List (List K × List K)) :
    (fromRaysPts true (r0 :: r1 :: rest)).drop 3 = fromRaysPts true (r1 :: rest) := by
  obtain ⟨p, v⟩ := r0
  obtain ⟨q, w⟩ := r1
  simp [fromRaysPts]

/-- The first four points are the Hermite segment of the first two rays. -/
theorem fromRaysPts_head (p v q w : List K) (rest : List (List K × List K)) :
    ∃ tl, fromRaysPts true ((p, v) :: (q, w) :: rest) = p :: vadd p v :: vadd q (vneg w) :: q :: tl := by
  simp [fromRaysPts]

/-- **Segments of `from_rays`.** For consecutive rays `k`, `k+1` the control points `3k … 3k+3` are
`p, p + v, q + (−w), q`. -/
theorem fromRays_segment (rays : List (List K × List K)) (k : Nat) {p v q w : List K}
    (hk : rays[k]? = some (p, v)) (hk1 : rays[k + 1]? = some (q, w)) :
    (fromRaysPts true rays)[3 * k]? = some p ∧ (fromRaysPts true rays)[3 * k + 1]? = some (vadd p v) ∧
    (fromRaysPts true rays)[3 * k + 2]? = some (vadd q (vneg w)) ∧
    (fromRaysPts true rays)[3 * k + 3]? = some q := by
  induction k generalizing rays with
  | zero =>
    match rays, hk, hk1 with
    | r0 :: r1 :: rest, hk, hk1 =>
      simp only [List.getElem?_cons_zero, List.getElem?_cons_succ, Option.some.injEq] at hk hk1
      subst hk hk1
      obtain ⟨tl, e⟩ := fromRaysPts_head p v q w rest
      rw [e]; simp
  | succ k ih =>
    match rays, hk, hk1 with
    | r0 :: r1 :: rest, hk, hk1 =>
      simp only [List.getElem?_cons_succ] at hk hk1
      have := ih (r1 :: rest) hk hk1
      rw [← fromRaysPts_drop r0 r1 rest] at this
      simp only [List.getElem?_drop] at this
      have e0 : 3 * (k + 1) = 3 + 3 * k := by ring
      rw [e0]; simpa only [Nat.add_assoc] using this

/-- `from_rays` succeeds exactly for two or more rays – `new` rejects the one-point polygon of a
single ray and the empty one – and then returns a valid spline with `n − 1` segments. -/
theorem fromRays_ok_iff (rays : List (List K × List K)) :
    (∃ pts, fromRays rays = .ok pts) ↔ 2 ≤ rays.length := by
  unfold fromRays splineNew
  rcases rays with _ | ⟨r0, _ | ⟨r1, rest⟩⟩
  · simp [fromRaysPts]
  · obtain ⟨p, v⟩ := r0; simp [fromRaysPts]
  · have hl := fromRaysPts_length (r0 :: r1 :: rest) true (by simp)
    simp only [List.length_cons, if_true] at hl
    have : 4 ≤ (fromRaysPts true (r0 :: r1 :: rest)).length ∧
        (fromRaysPts true (r0 :: r1 :: rest)).length % 3 = 1 := by rw [hl]; omega
    simp [this]

theorem fromRays_valid (rays : List (List K × List K)) (h : 2 ≤ rays.length) :
    fromRays rays = .ok (fromRaysPts true rays) ∧ Valid (fromRaysPts true rays) ∧
      nSegs (fromRaysPts true rays) = rays.length - 1 := by
  have hne : rays ≠ [] := by rintro rfl; simp at h
  have hl := fromRaysPts_length rays true hne
  simp only [if_true] at hl
  have hv : Valid (fromRaysPts true rays) := by unfold Valid; rw [hl]; omega
  refine ⟨(splineNew_ok_iff _).mpr hv, hv, ?_⟩
  unfold nSegs; rw [hl]; omega

example : fromRays ([([0, 0], [1, 0]), ([2, 1], [0, 1])] : List (List ℚ × List ℚ))
    = .ok [[0, 0], [1, 0], [2, 0], [2, 1]] := by decide +kernel

theorem vadd_getElem? (a b : List K) (i : Nat) {x y : K} (ha : a[i]? = some x) (hb : b[i]? = some y) :
    (vadd a b)[i]? = some (x + y) := by
  induction a generalizing b i with
  | nil => simp at ha
  | cons a0 as ih =>
    cases b with
    | nil => simp at hb
    | cons b0 bs =>
      cases i with
      | zero => simp_all [vadd]
      | succ j =>
        simp only [List.getElem?_cons_succ] at ha hb
        simpa [vadd] using ih bs j ha hb

theorem vneg_getElem? (a : List K) (i : Nat) {x : K} (ha : a[i]? = some x) :
    (vneg a)[i]? = some (-x) := by
  induction a generalizing i with
  | nil => simp at ha
  | cons a0 as ih =>
    cases i with
    | zero => simp_all [vneg]
    | succ j =>
      simp only [List.getElem?_cons_succ] at ha
      simpa [vneg] using ih j ha

/-- **`from_rays` is C¹.** Take three consecutive rays `(p,v)`, `(q,w)`, `(r,u)`. In every
component `i` the tangent of the segment *ending* at `q` (at its end, any local parameter ≥ 1) and
the tangent of the segment *starting* at `q` (at its start, any local parameter ≤ 0) are both
`3·w[i]`: the direction is continuous across the knot, as the position is (`spline_knot`). -/
theorem fromRays_c1 (p v q w r u : List K) (t1 t0 : K) (h1 : 1 ≤ t1) (h0 : t0 ≤ 0) (i : Nat)
    {a a' b c e e' : K} (hp : p[i]? = some a) (hv : v[i]? = some a') (hq : q[i]? = some b)
    (hw : w[i]? = some c) (hr : r[i]? = some e) (hu : u[i]? = some e') :
    (bezTangent p (vadd p v) (vadd q (vneg w)) q t1)[i]? = some (3 * c) ∧
    (bezTangent q (vadd q w) (vadd r (vneg u)) r t0)[i]? = some (3 * c) := by
  constructor
  · rw [tangent_eq_deriv, min_eq_right h1, max_eq_right zero_le_one,
      map4_getElem? _ _ _ _ _ i hp (vadd_getElem? _ _ i hp hv)
        (vadd_getElem? _ _ i hq (vneg_getElem? _ i hw)) hq]
    congr 1; unfold bernsteinDeriv; ring
  · have hm : min t0 1 = t0 := min_eq_left (le_trans h0 zero_le_one)
    rw [tangent_eq_deriv, hm, max_eq_left h0,
      map4_getElem? _ _ _ _ _ i hq (vadd_getElem? _ _ i hq hw)
        (vadd_getElem? _ _ i hr (vneg_getElem? _ i hu)) hr]
    congr 1; unfold bernsteinDeriv; ring

example : (bezTangent [(0:ℚ)] (vadd [0] [1]) (vadd [5] (vneg [2])) [5] 1)[0]? = some (3 * 2) :=
  (fromRays_c1 [0] [1] [5] [2] [9] [4] 1 0 le_rfl le_rfl 0 rfl rfl rfl rfl rfl rfl).1

end Retro.Props.C17
