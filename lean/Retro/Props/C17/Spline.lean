/-
C17, part 2: multi-segment splines (`BezierSpline::new / eval / tangent / segment`).
`K` is a linearly ordered field with a floor (`FloorRing`); the saturating cast `x as u32` of the
model is instantiated with `Int.floor`.
-/
import Retro.Props.C17.Bezier
import Mathlib.Algebra.Order.Floor.Ring
import Mathlib.Tactic.FieldSimp
import Mathlib.Data.Rat.Floor

set_option linter.unusedSectionVars false

namespace Retro.Props.C17
open Retro Retro.Spline Retro.Spec.Spline Retro.Lemmas.Spline

variable {K : Type} [Field K] [LinearOrder K] [IsStrictOrderedRing K] [FloorRing K]

/-- The integer part used by `x as u32`, at a floor ring. -/
instance instHasFloorIntOfFloorRing : HasFloorInt K := ⟨Int.floor⟩

/-- What `BezierSpline::new` accepts: `3n+1` points, `n ≥ 1`. -/
def Valid (pts : List (List K)) : Prop := 4 ≤ pts.length ∧ pts.length % 3 = 1

/-- Number of segments, `(len − 1) / 3` (spline.rs:228). -/
def nSegs (pts : List (List K)) : Nat := (pts.length - 1) / 3

theorem valid_len {pts : List (List K)} (h : Valid pts) :
    pts.length = 3 * nSegs pts + 1 ∧ 1 ≤ nSegs pts := by
  unfold Valid at h; unfold nSegs; omega

/-- `new` accepts exactly the valid lengths and panics otherwise. -/
theorem splineNew_ok_iff (pts : List (List K)) : splineNew pts = .ok pts ↔ Valid pts := by
  unfold splineNew Valid
  by_cases h : 4 ≤ pts.length ∧ pts.length % 3 = 1 <;> simp [h]

theorem splineNew_panics (pts : List (List K)) (h : ¬ Valid pts) :
    ∃ m, splineNew pts = .panic m := by
  unfold splineNew; unfold Valid at h; rw [if_neg h]; exact ⟨_, rfl⟩

/-! ### Segment selection never leaves the control polygon -/

/-- The chosen segment index is below the segment count for **every** `t` – negative, huge,
anything: the saturating cast and the `min(segs − 1)` clamp make it so. -/
theorem segIndex_lt (n : Nat) (t : K) (hn : 1 ≤ n) : segIndex n t < n := by
  unfold segIndex
  have := Nat.min_le_right (satU32 (t * (n : K))) (n - 1)
  omega

/-- `segment_index_bounds`: for a valid spline and every parameter, `idx + 3 < len`, so none of
the four `self.0[idx + k]` can panic. -/
theorem segment_index_bounds (pts : List (List K)) (h : Valid pts) (t : K) :
    3 * segIndex (nSegs pts) t + 3 < pts.length := by
  obtain ⟨hl, hn⟩ := valid_len h
  have := segIndex_lt (nSegs pts) t hn
  omega

/-- The `Nat` minimum of the model is the literal Rust expression
`((t * segs) as u32 as f32).min(segs - 1.0)` read in exact arithmetic, and casting it back
(`seg as usize`) returns the same number. -/
theorem segIndex_cast (n : Nat) (t : K) (hn : 1 ≤ n) :
    ((segIndex n t : Nat) : K) = min ((satU32 (t * (n : K)) : Nat) : K) ((n : K) - 1) ∧
      satU32 ((segIndex n t : Nat) : K) = segIndex n t := by
  constructor
  · unfold segIndex
    rw [Nat.cast_min, Nat.cast_sub hn, Nat.cast_one]
  · have h := segIndex_lt n t hn
    unfold satU32
    have e : HasFloorInt.floorInt ((segIndex n t : Nat) : K) = ⌊((segIndex n t : Nat) : K)⌋ := rfl
    rw [e, Int.floor_natCast, Int.toNat_natCast]
    have : segIndex n t ≤ 4294967295 := by
      unfold segIndex satU32
      exact le_trans (Nat.min_le_left _ _) (Nat.min_le_right _ _)
    omega

/-- Below 0 (and at 0) the first segment is selected. -/
theorem segIndex_of_nonpos (n : Nat) (t : K) (ht : t ≤ 0) : segIndex n t = 0 := by
  unfold segIndex satU32
  have h1 : t * (n : K) ≤ 0 := mul_nonpos_of_nonpos_of_nonneg ht (Nat.cast_nonneg n)
  have h2 : ⌊t * (n : K)⌋ ≤ 0 := by
    have := Int.floor_le (t * (n : K))
    have h3 : ((⌊t * (n : K)⌋ : ℤ) : K) ≤ 0 := le_trans this h1
    exact_mod_cast h3
  have : (HasFloorInt.floorInt (t * (n : K))).toNat = 0 := by
    show (⌊t * (n : K)⌋).toNat = 0
    omega
  rw [this]; simp

/-- Inside segment `k` the index is `k` (for segment counts a `u32` can hold). -/
theorem segIndex_eq (n k : Nat) (t : K) (hk : k < n) (hk32 : k ≤ 4294967295)
    (h0 : (k : K) ≤ t * (n : K)) (h1 : t * (n : K) < (k : K) + 1) : segIndex n t = k := by
  unfold segIndex satU32
  have hf : ⌊t * (n : K)⌋ = (k : ℤ) := by
    rw [Int.floor_eq_iff]; push_cast; exact ⟨h0, h1⟩
  have : (HasFloorInt.floorInt (t * (n : K))).toNat = k := by
    show (⌊t * (n : K)⌋).toNat = k
    rw [hf]; simp
  rw [this]; omega

/-- At and beyond the upper end the last segment is selected. -/
theorem segIndex_of_ge (n : Nat) (t : K) (hn32 : n ≤ 4294967296)
    (h : ((n - 1 : Nat) : K) ≤ t * (n : K)) : segIndex n t = n - 1 := by
  unfold segIndex satU32
  have hf : ((n - 1 : Nat) : ℤ) ≤ ⌊t * (n : K)⌋ := by
    rw [Int.le_floor]; exact_mod_cast h
  have e : HasFloorInt.floorInt (t * (n : K)) = ⌊t * (n : K)⌋ := rfl
  rw [e]
  omega

/-- `segment` succeeds on a valid spline for every `t`, and returns the four points
`3k … 3k+3` with the local parameter `t·n − k`, `k` the selected index. -/
theorem segment_ok (pts : List (List K)) (h : Valid pts) (t : K) :
    ∃ p0 p1 p2 p3,
      pts[3 * segIndex (nSegs pts) t]? = some p0 ∧ pts[3 * segIndex (nSegs pts) t + 1]? = some p1 ∧
      pts[3 * segIndex (nSegs pts) t + 2]? = some p2 ∧ pts[3 * segIndex (nSegs pts) t + 3]? = some p3 ∧
      segment pts t
        = .ok (t * (nSegs pts : K) - (segIndex (nSegs pts) t : K), p0, p1, p2, p3) := by
  have hb := segment_index_bounds pts h t
  have e0 := List.getElem?_eq_getElem (l := pts) (i := 3 * segIndex (nSegs pts) t) (by omega)
  have e1 := List.getElem?_eq_getElem (l := pts) (i := 3 * segIndex (nSegs pts) t + 1) (by omega)
  have e2 := List.getElem?_eq_getElem (l := pts) (i := 3 * segIndex (nSegs pts) t + 2) (by omega)
  have e3 := List.getElem?_eq_getElem (l := pts) (i := 3 * segIndex (nSegs pts) t + 3) (by omega)
  refine ⟨_, _, _, _, e0, e1, e2, e3, ?_⟩
  unfold segment
  simp only [nSegs] at e0 e1 e2 e3 ⊢
  rw [e0, e1, e2, e3]

theorem head?_ok (pts : List (List K)) (h : Valid pts) : ∃ f, pts.head? = some f ∧ pts[0]? = some f := by
  cases pts with
  | nil => simp [Valid] at h
  | cons f _ => exact ⟨f, rfl, rfl⟩

theorem getLast?_ok (pts : List (List K)) (h : Valid pts) :
    ∃ l, pts.getLast? = some l ∧ pts[3 * nSegs pts]? = some l := by
  obtain ⟨hl, _⟩ := valid_len h
  have : pts.getLast? = pts[pts.length - 1]? := List.getLast?_eq_getElem? (l := pts)
  have e : pts.length - 1 = 3 * nSegs pts := by omega
  rw [e] at this
  have hlt : 3 * nSegs pts < pts.length := by omega
  exact ⟨pts[3 * nSegs pts], by rw [this, List.getElem?_eq_getElem hlt], List.getElem?_eq_getElem hlt⟩

/-- `eval` never panics on a spline `new` accepted, whatever the parameter. -/
theorem splineEval_ok (pts : List (List K)) (h : Valid pts) (t : K) :
    ∃ v, splineEval pts t = .ok v := by
  obtain ⟨f, hf, _⟩ := head?_ok pts h
  obtain ⟨l, hl, _⟩ := getLast?_ok pts h
  obtain ⟨p0, p1, p2, p3, _, _, _, _, hs⟩ := segment_ok pts h t
  unfold splineEval
  rw [hf, hl]
  simp only [step]
  split
  · exact ⟨_, rfl⟩
  · split
    · exact ⟨_, rfl⟩
    · rw [hs]; exact ⟨_, rfl⟩

/-- `tangent` never panics either, although it passes the *unclamped* `t` to `segment`. -/
theorem splineTangent_ok (pts : List (List K)) (h : Valid pts) (t : K) :
    ∃ v, splineTangent pts t = .ok v := by
  obtain ⟨p0, p1, p2, p3, _, _, _, _, hs⟩ := segment_ok pts h t
  unfold splineTangent
  rw [hs]; exact ⟨_, rfl⟩

/-- On an invalid (too short) list the model does panic: the guard of `new` is what protects
`eval`. -/
example : splineEval ([[1], [2], [3]] : List (List ℚ)) (1/2) = .panic "index out of bounds" := by
  decide +kernel

/-! ### Ends, knots, segments -/

theorem splineEval_le_zero (pts : List (List K)) (h : Valid pts) (t : K) (ht : t ≤ 0) {p : List K}
    (hp : pts[0]? = some p) : splineEval pts t = .ok p := by
  obtain ⟨f, hf, hf0⟩ := head?_ok pts h
  obtain ⟨l, hl, _⟩ := getLast?_ok pts h
  unfold splineEval
  rw [hf, hl]
  simp only []
  rw [step_le_zero _ _ _ _ ht]
  rw [hf0] at hp; rw [Option.some.inj hp]

theorem splineEval_ge_one (pts : List (List K)) (h : Valid pts) (t : K) (ht : 1 ≤ t) {p : List K}
    (hp : pts[3 * nSegs pts]? = some p) : splineEval pts t = .ok p := by
  obtain ⟨f, hf, _⟩ := head?_ok pts h
  obtain ⟨l, hl, hl0⟩ := getLast?_ok pts h
  unfold splineEval
  rw [hf, hl]
  simp only []
  rw [step_ge_one _ _ _ _ ht]
  rw [hl0] at hp; rw [Option.some.inj hp]

/-- `spline_eq_segment`: strictly inside `(0,1)`, with `k ≤ t·n < k+1`, `eval` is the cubic of
control points `3k … 3k+3` evaluated (by `fast_eval`) at the local parameter `t·n − k`. -/
theorem spline_eq_segment (pts : List (List K)) (h : Valid pts) (t : K) (k : Nat)
    (hk : k < nSegs pts) (hk32 : k ≤ 4294967295) (t0 : 0 < t) (t1 : t < 1)
    (h0 : (k : K) ≤ t * (nSegs pts : K)) (h1 : t * (nSegs pts : K) < (k : K) + 1)
    {p0 p1 p2 p3 : List K} (e0 : pts[3 * k]? = some p0) (e1 : pts[3 * k + 1]? = some p1)
    (e2 : pts[3 * k + 2]? = some p2) (e3 : pts[3 * k + 3]? = some p3) :
    splineEval pts t = .ok (bezFast p0 p1 p2 p3 (t * (nSegs pts : K) - (k : K))) := by
  obtain ⟨f, hf, _⟩ := head?_ok pts h
  obtain ⟨l, hl, _⟩ := getLast?_ok pts h
  obtain ⟨q0, q1, q2, q3, g0, g1, g2, g3, hs⟩ := segment_ok pts h t
  have hi := segIndex_eq (nSegs pts) k t hk hk32 h0 h1
  rw [hi] at g0 g1 g2 g3 hs
  rw [e0] at g0; rw [e1] at g1; rw [e2] at g2; rw [e3] at g3
  cases g0; cases g1; cases g2; cases g3
  unfold splineEval
  rw [hf, hl]
  simp only []
  rw [step_interior _ _ _ _ t0 t1, hs]

/-- The same on the **closed** interval `k ≤ t·n ≤ k+1` and with the De Casteljau evaluator: at
the right end `t·n = k+1` the code has already switched to segment `k+1` (or to the clamped end),
and still returns what segment `k`'s cubic gives there. Both neighbouring cubics therefore agree
with `eval` at a join: this is continuity across joins in algebraic form. -/
theorem spline_eq_segment_closed (pts : List (List K)) (h : Valid pts) (t : K) (k : Nat)
    (hk : k < nSegs pts) (hn32 : nSegs pts ≤ 4294967296)
    (h0 : (k : K) ≤ t * (nSegs pts : K)) (h1 : t * (nSegs pts : K) ≤ (k : K) + 1)
    {p0 p1 p2 p3 : List K} (e0 : pts[3 * k]? = some p0) (e1 : pts[3 * k + 1]? = some p1)
    (e2 : pts[3 * k + 2]? = some p2) (e3 : pts[3 * k + 3]? = some p3) :
    splineEval pts t = .ok (bezEval p0 p1 p2 p3 (t * (nSegs pts : K) - (k : K))) := by
  obtain ⟨hlen, hn⟩ := valid_len h
  have npos : (0 : K) < (nSegs pts : K) := by exact_mod_cast hn
  rcases le_or_gt t 0 with t0 | t0
  · -- t ≤ 0 forces k = 0 and t = 0
    have hx : t * (nSegs pts : K) ≤ 0 := mul_nonpos_of_nonpos_of_nonneg t0 npos.le
    have hk0 : (k : K) ≤ 0 := le_trans h0 hx
    have hk0' : k = 0 := by
      have : (k : K) = 0 := le_antisymm hk0 (Nat.cast_nonneg k)
      exact_mod_cast this
    subst hk0'
    rw [splineEval_le_zero pts h t t0 (by simpa using e0)]
    rw [eval_le_zero _ _ _ _ _ (by simpa using hx)]
  · rcases le_or_gt 1 t with t1 | t1
    · -- t ≥ 1 forces k = n − 1 and t = 1
      have hx : (nSegs pts : K) ≤ t * (nSegs pts : K) := by nlinarith
      have hkn : nSegs pts ≤ k + 1 := by
        have : (nSegs pts : K) ≤ (k : K) + 1 := le_trans hx h1
        exact_mod_cast this
      have hkn' : k + 1 = nSegs pts := by omega
      have e3' : pts[3 * nSegs pts]? = some p3 := by
        rw [← hkn']; simpa [Nat.mul_add] using e3
      rw [splineEval_ge_one pts h t t1 e3']
      rw [eval_ge_one]
      have : ((k + 1 : Nat) : K) ≤ t * (nSegs pts : K) := by rw [hkn']; exact hx
      push_cast at this; linarith
    · rcases eq_or_lt_of_le h1 with hx | hx
      · -- exactly on the join t·n = k+1 < n: the code is in segment k+1 at local 0
        have hk1 : k + 1 < nSegs pts := by
          have : ((k + 1 : Nat) : K) < (nSegs pts : K) := by
            push_cast; rw [← hx]; nlinarith
          exact_mod_cast this
        have hb : 3 * (k + 1) + 3 < pts.length := by omega
        have g1 := List.getElem?_eq_getElem (l := pts) (i := 3 * (k + 1) + 1) (by omega)
        have g2 := List.getElem?_eq_getElem (l := pts) (i := 3 * (k + 1) + 2) (by omega)
        have g3 := List.getElem?_eq_getElem (l := pts) (i := 3 * (k + 1) + 3) (by omega)
        have g0 : pts[3 * (k + 1)]? = some p3 := by simpa [Nat.mul_add] using e3
        have := spline_eq_segment pts h t (k + 1) hk1 (by omega) t0 t1
          (by push_cast; rw [hx]) (by push_cast; rw [hx]; linarith) g0 g1 g2 g3
        rw [this, fast_eval_le_zero _ _ _ _ _ (by push_cast; rw [hx]; linarith)]
        rw [eval_ge_one _ _ _ _ _ (by rw [hx]; linarith)]
      · rw [spline_eq_segment pts h t k hk (by omega) t0 t1 h0 hx e0 e1 e2 e3, fast_eval_eq_eval]

/-- `spline_knot`: at `t = k/n` the spline passes through control point `3k`, exactly, for every
`0 ≤ k ≤ n` and every segment count. -/
theorem spline_knot (pts : List (List K)) (h : Valid pts) (hn32 : nSegs pts ≤ 4294967296) (k : Nat)
    (hk : k ≤ nSegs pts) {p : List K} (hp : pts[3 * k]? = some p) :
    splineEval pts ((k : K) / (nSegs pts : K)) = .ok p := by
  obtain ⟨hlen, hn⟩ := valid_len h
  have npos : (0 : K) < (nSegs pts : K) := by exact_mod_cast hn
  have hx : (k : K) / (nSegs pts : K) * (nSegs pts : K) = (k : K) := by field_simp
  rcases Nat.lt_or_ge k (nSegs pts) with hlt | hge
  · have hb : 3 * k + 3 < pts.length := by omega
    have g1 := List.getElem?_eq_getElem (l := pts) (i := 3 * k + 1) (by omega)
    have g2 := List.getElem?_eq_getElem (l := pts) (i := 3 * k + 2) (by omega)
    have g3 := List.getElem?_eq_getElem (l := pts) (i := 3 * k + 3) (by omega)
    rw [spline_eq_segment_closed pts h _ k hlt hn32 (by rw [hx]) (by rw [hx]; linarith) hp g1 g2 g3]
    rw [eval_le_zero _ _ _ _ _ (by rw [hx]; linarith)]
  · have hkn : k = nSegs pts := by omega
    subst hkn
    rw [div_self (ne_of_gt npos)]
    exact splineEval_ge_one pts h 1 le_rfl hp

set_option linter.unusedVariables false in
/-- `spline_continuous_at_joins`: at an interior join `k/n` the value of `eval`, the left cubic at
its local parameter 1 and the right cubic at its local parameter 0 are the same point `pts[3k]`.
NOTE: the last two conjuncts hold by the end clamps of `step` for *any* four control points – they
only record that adjacent segments share the point `pts[3k]`. The actual continuity content is
`spline_eq_segment_closed` (each cubic agrees with `eval` on its whole closed interval) and the
quantitative `spline_lipschitz` / `spline_continuous`. -/
theorem spline_continuous_at_joins (pts : List (List K)) (h : Valid pts)
    (hn32 : nSegs pts ≤ 4294967296) (k : Nat) (hk0 : 0 < k) (hk : k < nSegs pts)
    {l0 l1 l2 p r1 r2 r3 : List K}
    (a0 : pts[3 * (k - 1)]? = some l0) (a1 : pts[3 * (k - 1) + 1]? = some l1)
    (a2 : pts[3 * (k - 1) + 2]? = some l2) (hp : pts[3 * k]? = some p)
    (b1 : pts[3 * k + 1]? = some r1) (b2 : pts[3 * k + 2]? = some r2) (b3 : pts[3 * k + 3]? = some r3) :
    splineEval pts ((k : K) / (nSegs pts : K)) = .ok p ∧
      bezEval l0 l1 l2 p 1 = p ∧ bezEval p r1 r2 r3 0 = p :=
  ⟨spline_knot pts h hn32 k (le_of_lt hk) hp, eval_ge_one _ _ _ _ _ le_rfl, eval_le_zero _ _ _ _ _ le_rfl⟩

/-- A concrete two-segment spline (the one of the crate's own test) through all three knots. -/
example : splineEval ([[0], [4/5], [9/10], [1], [3/5], [1/2], [1/2]] : List (List ℚ)) (1/2) = .ok [1] := by
  have hv : Valid ([[0], [4/5], [9/10], [1], [3/5], [1/2], [1/2]] : List (List ℚ)) := by
    unfold Valid; decide
  have := spline_knot _ hv (by unfold nSegs; decide) 1 (by unfold nSegs; decide) (p := [1]) rfl
  have e : ((1 : ℕ) : ℚ) / ((nSegs ([[0], [4/5], [9/10], [1], [3/5], [1/2], [1/2]] : List (List ℚ)) : ℕ) : ℚ)
      = 1 / 2 := by norm_num [nSegs]
  rw [e] at this
  exact this

end Retro.Props.C17
