/-
C18 — Angles convert, wrap and change coordinates consistently.
Property theorems, in `namespace Retro.Props.C18`:
  Units  – (ordered field with floor, π a positive parameter) unit conversions, wrap, clamp/min/max
  Coords – (ℝ, Mathlib's sin/cos/sqrt/arg) polar and spherical coordinate changes are inverse
  WrapF32 – (binary32 bit patterns) `Angle::wrap` lies in the closed interval [min, max]; the pre-fix witness above max
-/
import Retro.Props.C18.Units
import Retro.Props.C18.Coords
import Retro.Props.C18.WrapF32
