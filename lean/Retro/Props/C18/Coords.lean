/-
C18, part 2 (over ℝ, noncomputable statements only): the coordinate-change skeletons of
`Retro.Model.Angle`, instantiated with Mathlib's `Real.sin`, `Real.cos`, `Real.sqrt` and
`atan2 y x := Complex.arg (x + y·i)`, are mutually inverse, with radius = length, azimuth in
(−π, π] and altitude in [−π/2, π/2].

That `std`'s `f32` functions approximate these real functions is an assumption (checked only
through the geometric identities the oracle evaluates on the implementation's output).
-/
import Retro.Model.Angle
import Mathlib.Analysis.SpecialFunctions.Complex.Arg
import Mathlib.Analysis.SpecialFunctions.Trigonometric.Inverse
import Retro.Props.C18.Units

set_option linter.unusedSectionVars false

namespace Retro.Props.C18
open Retro Retro.Angle

/-- Four-quadrant arctangent: the argument of `x + y·i`; `atan2 0 0 = 0`, `atan2 0 (−1) = π`. -/
noncomputable def atan2 (y x : ℝ) : ℝ := Complex.arg ⟨x, y⟩

theorem norm_mk (x y : ℝ) : ‖(⟨x, y⟩ : ℂ)‖ = Real.sqrt (dot2 x y) := by
  rw [Complex.norm_def, Complex.normSq_apply]; unfold dot2; rw [zero_add]

/-- `sin_cos` is `(sin, cos)`, and they lie on the unit circle. -/
theorem sin_cos_eq (a : ℝ) :
    sinCos Real.sin Real.cos a = (Real.sin a, Real.cos a) ∧
      (sinCos Real.sin Real.cos a).1 ^ 2 + (sinCos Real.sin Real.cos a).2 ^ 2 = 1 :=
  ⟨rfl, Real.sin_sq_add_cos_sq a⟩

/-! ### Polar -/

/-- `radius_eq_len`: the radial component is the Euclidean length. -/
theorem radius_eq_len (x y : ℝ) :
    (cartToPolar Real.sqrt atan2 x y).1 = Real.sqrt (x ^ 2 + y ^ 2) ∧
      0 ≤ (cartToPolar Real.sqrt atan2 x y).1 := by
  unfold cartToPolar dot2
  simp only []
  exact ⟨by congr 1; ring, Real.sqrt_nonneg _⟩

/-- The azimuth lies in (−π, π]. -/
theorem azimuth_range (x y : ℝ) :
    -Real.pi < (cartToPolar Real.sqrt atan2 x y).2 ∧ (cartToPolar Real.sqrt atan2 x y).2 ≤ Real.pi :=
  Complex.arg_mem_Ioc _

/-- The azimuth has the sign of `y` (positive `y` maps to positive azimuth). -/
theorem azimuth_sign (x y : ℝ) :
    (0 ≤ (cartToPolar Real.sqrt atan2 x y).2 ↔ 0 ≤ y) := by
  unfold cartToPolar atan2; exact Complex.arg_nonneg_iff

/-- `cart_polar_cart`: Cartesian → polar → Cartesian is the identity, for every vector (the zero
vector included). -/
theorem cart_polar_cart (x y : ℝ) :
    polarToCart Real.sin Real.cos (cartToPolar Real.sqrt atan2 x y).1
      (cartToPolar Real.sqrt atan2 x y).2 = (x, y) := by
  have hc := Complex.norm_mul_cos_arg ⟨x, y⟩
  have hs := Complex.norm_mul_sin_arg ⟨x, y⟩
  rw [norm_mk] at hc hs
  unfold polarToCart sinCos cartToPolar atan2
  simp only []
  rw [mul_comm] at hc hs
  rw [hc, hs]

theorem mk_eq_polar (r θ : ℝ) :
    (⟨Real.cos θ * r, Real.sin θ * r⟩ : ℂ) = (r : ℂ) * (Complex.cos θ + Complex.sin θ * Complex.I) := by
  apply Complex.ext
  · simp [← Complex.ofReal_cos, ← Complex.ofReal_sin, mul_comm]
  · simp [← Complex.ofReal_cos, ← Complex.ofReal_sin, mul_comm]

/-- `polar_cart_polar`: polar → Cartesian → polar is the identity for a positive radius and an
azimuth in (−π, π]. -/
theorem polar_cart_polar (r θ : ℝ) (hr : 0 < r) (h0 : -Real.pi < θ) (h1 : θ ≤ Real.pi) :
    cartToPolar Real.sqrt atan2 (polarToCart Real.sin Real.cos r θ).1
      (polarToCart Real.sin Real.cos r θ).2 = (r, θ) := by
  unfold cartToPolar polarToCart sinCos atan2 dot2
  simp only []
  congr 1
  · have : 0 + Real.cos θ * r * (Real.cos θ * r) + Real.sin θ * r * (Real.sin θ * r) = r ^ 2 := by
      have := Real.sin_sq_add_cos_sq θ
      nlinarith
    rw [this, Real.sqrt_sq hr.le]
  · rw [mk_eq_polar]
    exact Complex.arg_mul_cos_add_sin_mul_I hr ⟨h0, h1⟩

/-- `|to_cart(polar(r, az))| = |r|` for every radius (negative ones too) and azimuth. -/
theorem polar_cart_len (r θ : ℝ) :
    (polarToCart Real.sin Real.cos r θ).1 ^ 2 + (polarToCart Real.sin Real.cos r θ).2 ^ 2 = r ^ 2 := by
  unfold polarToCart sinCos
  simp only []
  have := Real.sin_sq_add_cos_sq θ
  nlinarith

example : cartToPolar Real.sqrt atan2 (polarToCart Real.sin Real.cos 2 (Real.pi / 3)).1
    (polarToCart Real.sin Real.cos 2 (Real.pi / 3)).2 = (2, Real.pi / 3) :=
  polar_cart_polar 2 (Real.pi / 3) (by norm_num) (by linarith [Real.pi_pos]) (by linarith [Real.pi_pos])

/-- For **any** azimuth (many revolutions, negative, …) and a positive radius, polar → Cartesian →
polar returns the same radius and the representative of the azimuth in (−π, π]: it differs from the
input by a whole number of turns. -/
theorem polar_cart_polar_any (r θ : ℝ) (hr : 0 < r) :
    (cartToPolar Real.sqrt atan2 (polarToCart Real.sin Real.cos r θ).1
      (polarToCart Real.sin Real.cos r θ).2).1 = r ∧
    ∃ k : ℤ, (cartToPolar Real.sqrt atan2 (polarToCart Real.sin Real.cos r θ).1
      (polarToCart Real.sin Real.cos r θ).2).2 = θ - k * (2 * Real.pi) := by
  unfold cartToPolar polarToCart sinCos atan2 dot2
  simp only []
  constructor
  · have : 0 + Real.cos θ * r * (Real.cos θ * r) + Real.sin θ * r * (Real.sin θ * r) = r ^ 2 := by
      have := Real.sin_sq_add_cos_sq θ
      nlinarith
    rw [this, Real.sqrt_sq hr.le]
  · rw [mk_eq_polar, Complex.arg_mul_cos_add_sin_mul_I_eq_toIocMod hr]
    refine ⟨toIocDiv Real.two_pi_pos (-Real.pi) θ, ?_⟩
    rw [← self_sub_toIocDiv_zsmul]
    simp [zsmul_eq_mul]

/-- A negative radius points the other way: `polar(r, θ)` and `polar(−r, θ + π)` are the same
Cartesian vector, so the round trip returns radius `|r|` and azimuth `θ + π` (mod a turn). -/
theorem polar_neg_radius (r θ : ℝ) :
    polarToCart Real.sin Real.cos r θ = polarToCart Real.sin Real.cos (-r) (θ + Real.pi) := by
  unfold polarToCart sinCos
  simp only [Real.cos_add_pi, Real.sin_add_pi]
  ext <;> simp

/-- Wrapping into any interval that is one full turn long preserves the direction: sine and cosine
are unchanged. -/
theorem wrap_preserves_direction (a mn : ℝ) :
    ∃ w, wrap a mn (mn + 2 * Real.pi) = some w ∧
      Real.sin w = Real.sin a ∧ Real.cos w = Real.cos a := by
  obtain ⟨w, k, hw, hk⟩ := wrap_congruent a mn (mn + 2 * Real.pi) (by linarith [Real.pi_pos])
  have e : w = a + k * (2 * Real.pi) := by
    have : mn + 2 * Real.pi - mn = 2 * Real.pi := by ring
    rw [this] at hk; linarith
  refine ⟨w, hw, ?_, ?_⟩
  · rw [e]; exact Real.sin_add_int_mul_two_pi a k
  · rw [e]; exact Real.cos_add_int_mul_two_pi a k

/-! ### Spherical -/

theorem sqrt_dot3 (x y z : ℝ) :
    Real.sqrt (dot3 x y z) = ‖(⟨Real.sqrt (x * x + z * z), y⟩ : ℂ)‖ := by
  rw [norm_mk]
  unfold dot3 dot2
  congr 1
  rw [Real.mul_self_sqrt (add_nonneg (mul_self_nonneg x) (mul_self_nonneg z))]
  ring

/-- Azimuth in (−π, π], altitude in [−π/2, π/2], radius = length ≥ 0. -/
theorem spherical_ranges (x y z : ℝ) :
    (cartToSph Real.sqrt atan2 x y z).1 = Real.sqrt (x ^ 2 + y ^ 2 + z ^ 2) ∧
    -Real.pi < (cartToSph Real.sqrt atan2 x y z).2.1 ∧ (cartToSph Real.sqrt atan2 x y z).2.1 ≤ Real.pi ∧
    -(Real.pi / 2) ≤ (cartToSph Real.sqrt atan2 x y z).2.2 ∧
    (cartToSph Real.sqrt atan2 x y z).2.2 ≤ Real.pi / 2 := by
  unfold cartToSph
  simp only []
  refine ⟨by unfold dot3; congr 1; ring, (Complex.arg_mem_Ioc _).1, (Complex.arg_mem_Ioc _).2, ?_⟩
  have : |atan2 y (Real.sqrt (x * x + z * z))| ≤ Real.pi / 2 := by
    unfold atan2
    rw [Complex.abs_arg_le_pi_div_two_iff]
    exact Real.sqrt_nonneg _
  exact abs_le.mp this

/-- The altitude has the sign of `y`. -/
theorem altitude_sign (x y z : ℝ) : 0 ≤ (cartToSph Real.sqrt atan2 x y z).2.2 ↔ 0 ≤ y := by
  unfold cartToSph atan2; exact Complex.arg_nonneg_iff

/-- `cart_sph_cart`: Cartesian → spherical → Cartesian is the identity for every vector. -/
theorem cart_sph_cart (x y z : ℝ) :
    sphToCart Real.sin Real.cos (cartToSph Real.sqrt atan2 x y z).1
      (cartToSph Real.sqrt atan2 x y z).2.1 (cartToSph Real.sqrt atan2 x y z).2.2 = (x, y, z) := by
  have hc1 := Complex.norm_mul_cos_arg ⟨Real.sqrt (x * x + z * z), y⟩
  have hs1 := Complex.norm_mul_sin_arg ⟨Real.sqrt (x * x + z * z), y⟩
  rw [← sqrt_dot3] at hc1 hs1
  have hc2 := Complex.norm_mul_cos_arg ⟨x, z⟩
  have hs2 := Complex.norm_mul_sin_arg ⟨x, z⟩
  rw [norm_mk] at hc2 hs2
  have e : dot2 x z = x * x + z * z := by unfold dot2; ring
  rw [e] at hc2 hs2
  simp only at hc1 hs1 hc2 hs2
  unfold sphToCart sinCos cartToSph atan2
  simp only []
  refine Prod.ext ?_ (Prod.ext ?_ ?_)
  · simp only []
    calc Real.cos (Complex.arg ⟨x, z⟩) * Real.cos (Complex.arg ⟨Real.sqrt (x * x + z * z), y⟩)
          * Real.sqrt (dot3 x y z)
        = Real.cos (Complex.arg ⟨x, z⟩) * (Real.sqrt (dot3 x y z)
            * Real.cos (Complex.arg ⟨Real.sqrt (x * x + z * z), y⟩)) := by ring
      _ = x := by rw [hc1, mul_comm, hc2]
  · simp only []
    rw [mul_comm, hs1]
  · simp only []
    calc Real.sin (Complex.arg ⟨x, z⟩) * Real.cos (Complex.arg ⟨Real.sqrt (x * x + z * z), y⟩)
          * Real.sqrt (dot3 x y z)
        = Real.sin (Complex.arg ⟨x, z⟩) * (Real.sqrt (dot3 x y z)
            * Real.cos (Complex.arg ⟨Real.sqrt (x * x + z * z), y⟩)) := by ring
      _ = z := by rw [hc1, mul_comm, hs2]

/-- `|to_cart(spherical(r, az, alt))| = |r|` for all arguments. -/
theorem sph_cart_len (r az alt : ℝ) :
    (sphToCart Real.sin Real.cos r az alt).1 ^ 2 + (sphToCart Real.sin Real.cos r az alt).2.1 ^ 2
      + (sphToCart Real.sin Real.cos r az alt).2.2 ^ 2 = r ^ 2 := by
  unfold sphToCart sinCos
  simp only []
  have h1 := Real.sin_sq_add_cos_sq az
  have h2 := Real.sin_sq_add_cos_sq alt
  have : (Real.cos az * Real.cos alt * r) ^ 2 + (Real.sin alt * r) ^ 2 + (Real.sin az * Real.cos alt * r) ^ 2
      = r ^ 2 * ((Real.sin az ^ 2 + Real.cos az ^ 2) * Real.cos alt ^ 2 + Real.sin alt ^ 2) := by ring
  rw [this, h1, one_mul, add_comm, h2, mul_one]

/-- `sph_cart_sph`: spherical → Cartesian → spherical is the identity for a positive radius, an
azimuth in (−π, π] and an altitude strictly between the poles (at the poles the azimuth is lost). -/
theorem sph_cart_sph (r az alt : ℝ) (hr : 0 < r) (a0 : -Real.pi < az) (a1 : az ≤ Real.pi)
    (b0 : -(Real.pi / 2) < alt) (b1 : alt < Real.pi / 2) :
    cartToSph Real.sqrt atan2 (sphToCart Real.sin Real.cos r az alt).1
      (sphToCart Real.sin Real.cos r az alt).2.1 (sphToCart Real.sin Real.cos r az alt).2.2
      = (r, az, alt) := by
  have hc : 0 < Real.cos alt := Real.cos_pos_of_mem_Ioo ⟨b0, b1⟩
  have hρ : 0 < Real.cos alt * r := mul_pos hc hr
  have h1 := Real.sin_sq_add_cos_sq az
  have h2 := Real.sin_sq_add_cos_sq alt
  have hxz : Real.cos az * Real.cos alt * r * (Real.cos az * Real.cos alt * r)
      + Real.sin az * Real.cos alt * r * (Real.sin az * Real.cos alt * r) = (Real.cos alt * r) ^ 2 := by
    have : Real.cos az * Real.cos alt * r * (Real.cos az * Real.cos alt * r)
      + Real.sin az * Real.cos alt * r * (Real.sin az * Real.cos alt * r)
      = (Real.sin az ^ 2 + Real.cos az ^ 2) * (Real.cos alt * r) ^ 2 := by ring
    rw [this, h1, one_mul]
  unfold cartToSph sphToCart sinCos
  simp only []
  rw [hxz, Real.sqrt_sq hρ.le]
  refine Prod.ext ?_ (Prod.ext ?_ ?_)
  · simp only []
    have : dot3 (Real.cos az * Real.cos alt * r) (Real.sin alt * r) (Real.sin az * Real.cos alt * r)
        = r ^ 2 := by
      unfold dot3
      have : 0 + Real.cos az * Real.cos alt * r * (Real.cos az * Real.cos alt * r)
          + Real.sin alt * r * (Real.sin alt * r)
          + Real.sin az * Real.cos alt * r * (Real.sin az * Real.cos alt * r)
          = r ^ 2 * ((Real.sin az ^ 2 + Real.cos az ^ 2) * Real.cos alt ^ 2 + Real.sin alt ^ 2) := by ring
      rw [this, h1, one_mul, add_comm, h2, mul_one]
    rw [this, Real.sqrt_sq hr.le]
  · simp only []
    unfold atan2
    have : (⟨Real.cos az * Real.cos alt * r, Real.sin az * Real.cos alt * r⟩ : ℂ)
        = ⟨Real.cos az * (Real.cos alt * r), Real.sin az * (Real.cos alt * r)⟩ := by
      congr 1 <;> ring
    rw [this, mk_eq_polar]
    exact Complex.arg_mul_cos_add_sin_mul_I hρ ⟨a0, a1⟩
  · simp only []
    unfold atan2
    rw [mk_eq_polar]
    exact Complex.arg_mul_cos_add_sin_mul_I hr ⟨by linarith [Real.pi_pos], by linarith [Real.pi_pos]⟩

/-- The same for **any** azimuth (many revolutions): radius and altitude come back unchanged, the
azimuth as its representative in (−π, π]. -/
theorem sph_cart_sph_any (r az alt : ℝ) (hr : 0 < r)
    (b0 : -(Real.pi / 2) < alt) (b1 : alt < Real.pi / 2) :
    ∃ k : ℤ, cartToSph Real.sqrt atan2 (sphToCart Real.sin Real.cos r az alt).1
      (sphToCart Real.sin Real.cos r az alt).2.1 (sphToCart Real.sin Real.cos r az alt).2.2
      = (r, az - k * (2 * Real.pi), alt) := by
  obtain ⟨_, k, hk⟩ := polar_cart_polar_any 1 az one_pos
  -- reduce the azimuth to its principal representative and use the principal-range theorem
  have hrange := azimuth_range (polarToCart Real.sin Real.cos 1 az).1 (polarToCart Real.sin Real.cos 1 az).2
  rw [hk] at hrange
  refine ⟨k, ?_⟩
  have hper : sphToCart Real.sin Real.cos r az alt
      = sphToCart Real.sin Real.cos r (az - k * (2 * Real.pi)) alt := by
    unfold sphToCart sinCos
    simp only [Real.sin_sub_int_mul_two_pi, Real.cos_sub_int_mul_two_pi]
  rw [hper]
  exact sph_cart_sph r (az - k * (2 * Real.pi)) alt hr hrange.1 hrange.2 b0 b1
/-! ### asin -/

/-- `asin` accepts exactly `[-1, 1]` (and panics outside), and then returns an angle in
[−π/2, π/2]. -/
theorem asin_range (x : ℝ) (h0 : -1 ≤ x) (h1 : x ≤ 1) :
    ∃ a, asinChecked Real.arcsin x = .ok a ∧ -(Real.pi / 2) ≤ a ∧ a ≤ Real.pi / 2 := by
  refine ⟨Real.arcsin x, ?_, Real.neg_pi_div_two_le_arcsin x, Real.arcsin_le_pi_div_two x⟩
  unfold asinChecked
  rw [if_pos ⟨h0, h1⟩]

theorem asin_panics (x : ℝ) (h : x < -1 ∨ 1 < x) : ∃ m, asinChecked Real.arcsin x = .panic m := by
  unfold asinChecked
  have : ¬ (-1 ≤ x ∧ x ≤ 1) := by
    rintro ⟨h0, h1⟩
    rcases h with h | h <;> linarith
  rw [if_neg this]; exact ⟨_, rfl⟩

end Retro.Props.C18
