/-
C18, part 1 (exact arithmetic, `π` a positive parameter of an ordered field with floor):
unit conversions, `wrap` via `rem_euclid`, clamp / min / max / operators.
-/
import Retro.Model.Angle
import Mathlib.Tactic.Ring
import Mathlib.Tactic.Linarith
import Mathlib.Tactic.NormNum
import Mathlib.Tactic.FieldSimp
import Mathlib.Tactic.Positivity
import Mathlib.Algebra.Order.Field.Basic
import Mathlib.Algebra.Order.Floor.Ring
import Mathlib.Data.Rat.Floor

set_option linter.unusedSectionVars false

namespace Retro.Props.C18
open Retro Retro.Angle Retro.Spline

variable {K : Type} [Field K] [LinearOrder K] [IsStrictOrderedRing K]

/-! ### Degrees, radians, turns -/

theorem radsPerDeg_pos {pi : K} (h : 0 < pi) : 0 < radsPerDeg pi := by unfold radsPerDeg; positivity
theorem radsPerTurn_pos {pi : K} (h : 0 < pi) : 0 < radsPerTurn pi := by unfold radsPerTurn; positivity

/-- Each unit's getter undoes its constructor … -/
theorem getter_constructor (pi a : K) (h : 0 < pi) :
    toRads (rads a) = a ∧ toDegs pi (degs pi a) = a ∧ toTurns pi (turns pi a) = a := by
  have h1 := (radsPerDeg_pos h).ne'
  have h2 := (radsPerTurn_pos h).ne'
  refine ⟨rfl, ?_, ?_⟩
  · unfold toDegs degs; field_simp
  · unfold toTurns turns; field_simp

/-- … and each constructor undoes its getter: the same angle comes back. -/
theorem constructor_getter (pi x : K) (h : 0 < pi) :
    rads (toRads x) = x ∧ degs pi (toDegs pi x) = x ∧ turns pi (toTurns pi x) = x := by
  have h1 := (radsPerDeg_pos h).ne'
  have h2 := (radsPerTurn_pos h).ne'
  refine ⟨rfl, ?_, ?_⟩
  · unfold toDegs degs; field_simp
  · unfold toTurns turns; field_simp

/-- `unit_roundtrips`: the six cross conversions scale by the right constants – 360° = 2π rad =
1 turn – in exact arithmetic, for any positive value of `π`. -/
theorem unit_roundtrips (pi a : K) (h : 0 < pi) :
    toRads (degs pi a) = a * pi / 180 ∧ toTurns pi (degs pi a) = a / 360 ∧
    toDegs pi (rads a) = a * 180 / pi ∧ toTurns pi (rads a) = a / (2 * pi) ∧
    toDegs pi (turns pi a) = a * 360 ∧ toRads (turns pi a) = a * (2 * pi) := by
  have hp := h.ne'
  refine ⟨?_, ?_, ?_, ?_, ?_, ?_⟩ <;>
    simp only [toRads, toDegs, toTurns, degs, turns, rads, radsPerDeg, radsPerTurn] <;>
    field_simp <;> ring

example : toDegs (22/7 : ℚ) (turns (22/7) 2) = 720 := by
  rw [(unit_roundtrips (22/7 : ℚ) 2 (by norm_num)).2.2.2.2.1]; norm_num

/-! ### min / max / clamp / operators act on the magnitude -/

theorem amin_eq (a b : K) : amin a b = min a b := by
  unfold amin; rcases lt_or_ge b a with h | h
  · simp [h, min_eq_right h.le]
  · simp [not_lt.mpr h, min_eq_left h]

theorem amax_eq (a b : K) : amax a b = max a b := by
  unfold amax; rcases lt_or_ge a b with h | h
  · simp [h, max_eq_right h.le]
  · simp [not_lt.mpr h, max_eq_left h]

/-- `clamp` with `min ≤ max` is `max min (min a max)`, lies in `[min, max]`, and fixes values that
are already inside. -/
theorem aclamp_ok (a mn mx : K) (h : mn ≤ mx) :
    aclamp a mn mx = .ok (max mn (min a mx)) ∧ mn ≤ max mn (min a mx) ∧ max mn (min a mx) ≤ mx ∧
      (mn ≤ a → a ≤ mx → max mn (min a mx) = a) := by
  refine ⟨?_, le_max_left _ _, max_le h (min_le_right _ _), fun h1 h2 => by
    rw [min_eq_left h2, max_eq_right h1]⟩
  unfold aclamp clampS
  rw [if_neg (not_lt.mpr h)]
  congr 1
  rcases lt_or_ge a mn with h1 | h1
  · have : ¬ mx < mn := not_lt.mpr h
    simp [h1, this, min_eq_left (le_trans h1.le h), max_eq_left h1.le]
  · rcases lt_or_ge mx a with h2 | h2
    · simp [not_lt.mpr h1, h2, min_eq_right h2.le, h]
    · simp [not_lt.mpr h1, not_lt.mpr h2, min_eq_left h2, max_eq_right h1]

/-- With `min > max` the `assert!` inside `f32::clamp` fires: a panic, never a value. -/
theorem aclamp_panics (a mn mx : K) (h : mx < mn) : ∃ m, aclamp a mn mx = .panic m := by
  unfold aclamp; rw [if_pos h]; exact ⟨_, rfl⟩

example : aclamp (5 : ℚ) 0 3 = .ok 3 := by
  rw [(aclamp_ok (5 : ℚ) 0 3 (by norm_num)).1]; norm_num

/-- The arithmetic operators act on the underlying magnitude, whatever the unit it was given in:
constructing from degrees (or turns) commutes with `+`, `−`, unary `−` and scaling, and reading
back in any unit is additive and homogeneous. -/
theorem ops_on_magnitude (pi x y s : K) :
    aadd (degs pi x) (degs pi y) = degs pi (x + y) ∧ asub (degs pi x) (degs pi y) = degs pi (x - y) ∧
    aneg (degs pi x) = degs pi (-x) ∧ amul (degs pi x) s = degs pi (x * s) ∧
    adiv (degs pi x) s = degs pi (x / s) ∧
    aadd (turns pi x) (turns pi y) = turns pi (x + y) ∧ amul (turns pi x) s = turns pi (x * s) ∧
    toDegs pi (aadd x y) = toDegs pi x + toDegs pi y ∧ toTurns pi (amul x s) = toTurns pi x * s := by
  simp only [aadd, asub, aneg, amul, adiv, degs, turns, toDegs, toTurns]
  refine ⟨?_, ?_, ?_, ?_, ?_, ?_, ?_, ?_, ?_⟩ <;> ring

/-! ### `%`, `rem_euclid`, `wrap` -/

variable [FloorRing K]

instance instHasFloorIntOfFloorRing : HasFloorInt K := ⟨Int.floor⟩

/-- Truncation toward zero: the integer part differs from `q` by less than one, on `q`'s side. -/
theorem truncInt_spec (q : K) :
    (0 ≤ q → ((truncInt q : ℤ) : K) ≤ q ∧ q < (truncInt q : ℤ) + 1) ∧
    (q < 0 → q ≤ ((truncInt q : ℤ) : K) ∧ ((truncInt q : ℤ) : K) - 1 < q) := by
  unfold truncInt
  constructor
  · intro h
    rw [if_neg (not_lt.mpr h)]
    exact ⟨Int.floor_le q, Int.lt_floor_add_one q⟩
  · intro h
    rw [if_pos h]
    have h1 := Int.floor_le (-q)
    have h2 := Int.lt_floor_add_one (-q)
    have e : HasFloorInt.floorInt (-q) = ⌊-q⌋ := rfl
    rw [e]; push_cast
    constructor <;> linarith

/-- Truncation toward zero is odd. -/
theorem truncInt_neg (q : K) : truncInt (-q) = -truncInt q := by
  unfold truncInt
  rcases lt_trichotomy q 0 with h | h | h
  · rw [if_neg (not_lt.mpr (neg_nonneg.mpr h.le)), if_pos h]; simp
  · subst h
    have e : HasFloorInt.floorInt (0 : K) = ⌊(0 : K)⌋ := rfl
    simp [e]
  · rw [if_pos (neg_lt_zero.mpr h), if_neg (not_lt.mpr h.le)]; simp

/-- The value `x % m` takes for a non-zero modulus. -/
theorem fmod_of_ne (x m : K) (hm : m ≠ 0) :
    fmod x m = some (x - ((truncInt (x / m) : ℤ) : K) * m) := by
  unfold fmod
  rw [if_pos (lt_or_gt_of_ne hm)]

/-- `x % 0.0` is NaN – no value. -/
theorem fmod_zero (x : K) : fmod x 0 = none := by
  unfold fmod; rw [if_neg (by simp)]

/-- `x % m` for `m > 0`: a remainder `r = x − n·m` (`n` an integer) of absolute value below `m`
that has the sign of `x`. -/
theorem fmod_spec (x m : K) (hm : 0 < m) :
    ∃ (r : K) (n : ℤ), fmod x m = some r ∧ r = x - (n : K) * m ∧
      (0 ≤ x → 0 ≤ r ∧ r < m) ∧ (x < 0 → -m < r ∧ r ≤ 0) := by
  refine ⟨_, truncInt (x / m), fmod_of_ne x m hm.ne', rfl, ?_, ?_⟩
  · intro hx
    have hq : 0 ≤ x / m := div_nonneg hx hm.le
    obtain ⟨h1, h2⟩ := (truncInt_spec (x / m)).1 hq
    have e : x = x / m * m := by field_simp
    constructor
    · nlinarith
    · nlinarith
  · intro hx
    have hq : x / m < 0 := div_neg_of_neg_of_pos hx hm
    obtain ⟨h1, h2⟩ := (truncInt_spec (x / m)).2 hq
    have e : x = x / m * m := by field_simp
    constructor
    · nlinarith
    · nlinarith

/-- The sign of the modulus is irrelevant to `%`. -/
theorem fmod_neg_modulus (x m : K) : fmod x (-m) = fmod x m := by
  rcases eq_or_ne m 0 with h | h
  · subst h; simp
  · rw [fmod_of_ne x m h, fmod_of_ne x (-m) (neg_ne_zero.mpr h), div_neg, truncInt_neg]
    congr 1; push_cast; ring

theorem absS_eq (m : K) : absS m = |m| := by
  unfold absS
  rcases lt_or_ge m 0 with h | h
  · rw [if_pos h, abs_of_neg h]
  · rw [if_neg (not_lt.mpr h), abs_of_nonneg h]

/-- `rem_euclid` by a positive modulus lands in `[0, m)` and differs from `x` by a whole number of
moduli. -/
theorem remEuclid_spec (x m : K) (hm : 0 < m) :
    ∃ r : K, remEuclid x m = some r ∧ 0 ≤ r ∧ r < m ∧ ∃ k : ℤ, r = x + (k : K) * m := by
  obtain ⟨r, n, hf, hn, hpos, hneg⟩ := fmod_spec x m hm
  unfold remEuclid
  rw [hf, absS_eq, abs_of_pos hm]
  rcases lt_or_ge r 0 with hr | hr
  · refine ⟨r + m, by simp only [if_pos hr], ?_⟩
    have hx : x < 0 := by
      by_contra hx
      exact absurd (hpos (not_lt.mp hx)).1 (not_le.mpr hr)
    obtain ⟨h1, _⟩ := hneg hx
    exact ⟨by linarith, by linarith, -n + 1, by rw [hn]; push_cast; ring⟩
  · refine ⟨r, by simp only [if_neg (not_lt.mpr hr)], hr, ?_, -n, by rw [hn]; push_cast; ring⟩
    rcases lt_or_ge x 0 with hx | hx
    · linarith [(hneg hx).2]
    · exact (hpos hx).2

/-- A zero modulus gives NaN, and the sign of the modulus does not matter (`rhs.abs()`). -/
theorem remEuclid_zero (x : K) : remEuclid x 0 = none := by
  unfold remEuclid; rw [fmod_zero]

theorem remEuclid_neg_modulus (x m : K) : remEuclid x (-m) = remEuclid x m := by
  unfold remEuclid
  rw [fmod_neg_modulus, absS_eq, absS_eq, abs_neg]

/-- `wrap_range`: for a proper interval (`min < max`) `wrap` has a value, inside the interval, the
upper end excluded (in exact arithmetic; `f32` rounding can close it, which the correspondence
check reports and the oracle accepts only as a rounding artefact). -/
theorem wrap_range (a mn mx : K) (h : mn < mx) :
    ∃ w, wrap a mn mx = some w ∧ mn ≤ w ∧ w < mx := by
  obtain ⟨r, hr, h0, h1, _⟩ := remEuclid_spec (a - mn) (mx - mn) (sub_pos.mpr h)
  exact ⟨mn + r, by unfold wrap; rw [hr], by linarith, by linarith⟩

/-- `wrap_congruent`: the wrapped angle differs from the input by a whole number of interval
lengths. -/
theorem wrap_congruent (a mn mx : K) (h : mn < mx) :
    ∃ (w : K) (k : ℤ), wrap a mn mx = some w ∧ w - a = (k : K) * (mx - mn) := by
  obtain ⟨r, hr, _, _, k, hk⟩ := remEuclid_spec (a - mn) (mx - mn) (sub_pos.mpr h)
  exact ⟨mn + r, k, by unfold wrap; rw [hr], by rw [hk]; ring⟩

/-- The degenerate interval `max = min`: NaN, for every input (the span is a zero modulus). -/
theorem wrap_degenerate (a mn : K) : wrap a mn mn = none := by
  unfold wrap; rw [sub_self, remEuclid_zero]

/-- A reversed interval (`max < min`) is not rejected: the span enters through `abs`, so the result
lies in `[min, min + (min − max))` – *above* `min`, outside the interval the caller named – and is
congruent to the input modulo `min − max`. -/
theorem wrap_reversed (a mn mx : K) (h : mx < mn) :
    ∃ (w : K) (k : ℤ), wrap a mn mx = some w ∧ mn ≤ w ∧ w < mn + (mn - mx) ∧
      w - a = (k : K) * (mn - mx) := by
  obtain ⟨r, hr, h0, h1, k, hk⟩ := remEuclid_spec (a - mn) (mn - mx) (sub_pos.mpr h)
  have e : mx - mn = -(mn - mx) := by ring
  refine ⟨mn + r, k, ?_, by linarith, by linarith, by rw [hk]; ring⟩
  unfold wrap; rw [e, remEuclid_neg_modulus, hr]

/-- The two facts characterise `wrap`: it is *the* representative of `a` in `[min, max)`. -/
theorem wrap_unique (a mn mx w : K) (h : mn < mx) (hw0 : mn ≤ w) (hw1 : w < mx) (k : ℤ)
    (hk : w - a = (k : K) * (mx - mn)) : wrap a mn mx = some w := by
  obtain ⟨v, hv, r0, r1⟩ := wrap_range a mn mx h
  obtain ⟨v', j, hv', hj⟩ := wrap_congruent a mn mx h
  rw [hv] at hv'; cases hv'
  have hm : 0 < mx - mn := sub_pos.mpr h
  have hd : v - w = ((j - k : ℤ) : K) * (mx - mn) := by push_cast; linarith
  have hlt : |((j - k : ℤ) : K)| < 1 := by
    rw [abs_lt]
    constructor
    · by_contra hc
      have : ((j - k : ℤ) : K) ≤ -1 := not_lt.mp hc
      nlinarith
    · by_contra hc
      have : 1 ≤ ((j - k : ℤ) : K) := not_lt.mp hc
      nlinarith
  have hz : j - k = 0 := by
    have : |j - k| < 1 := by exact_mod_cast hlt
    exact Int.abs_lt_one_iff.mp this
  rw [hz] at hd
  simp at hd
  rw [hv]; congr 1; linarith

/-- An angle already inside the interval is left alone. -/
theorem wrap_of_mem (a mn mx : K) (h0 : mn ≤ a) (h1 : a < mx) : wrap a mn mx = some a :=
  wrap_unique a mn mx a (lt_of_le_of_lt h0 h1) h0 h1 0 (by simp)

/-- The upper bound itself is **not** a fixed point: it wraps to the lower bound (the interval is
half-open). A result equal to `max` can therefore only be a rounding artefact. -/
theorem wrap_max_eq_min (mn mx : K) (h : mn < mx) : wrap mx mn mx = some mn :=
  wrap_unique mx mn mx mn h le_rfl h (-1) (by push_cast; ring)

/-- More generally every `min + k·(max − min)` wraps to `min`. -/
theorem wrap_multiple_eq_min (mn mx : K) (h : mn < mx) (k : ℤ) :
    wrap (mn + (k : K) * (mx - mn)) mn mx = some mn :=
  wrap_unique _ mn mx mn h le_rfl h (-k) (by push_cast; ring)

/-- `wrap` is periodic: adding whole interval lengths to the input does not change it. -/
theorem wrap_periodic (a mn mx : K) (h : mn < mx) (n : ℤ) :
    wrap (a + (n : K) * (mx - mn)) mn mx = wrap a mn mx := by
  obtain ⟨w, hw, r0, r1⟩ := wrap_range a mn mx h
  obtain ⟨w', j, hw', hj⟩ := wrap_congruent a mn mx h
  rw [hw] at hw'; cases hw'
  rw [hw]
  exact wrap_unique _ mn mx _ h r0 r1 (j - n) (by push_cast; linarith)

example : wrap (7 : ℚ) 0 (44/7) = some (5/7) :=
  wrap_unique 7 0 (44/7) (5/7) (by norm_num) (by norm_num) (by norm_num) (-1) (by norm_num)

example : wrap (3 : ℚ) (-3) 3 = some (-3) := wrap_max_eq_min _ _ (by norm_num)

example : wrap (-1 : ℚ) (-3) 3 = some (-1) := wrap_of_mem _ _ _ (by norm_num) (by norm_num)

example : wrap (5 : ℚ) 2 2 = none := wrap_degenerate _ _

end Retro.Props.C18
