/-
C18 — `Angle::wrap(min, max)` lies in the CLOSED interval `[min, max]` in IEEE binary32 (theorem at the bit level).

angle.rs `Angle::wrap` (after fix ff0ac1e):

    let w = min.0 + f32::rem_euclid(self.0 - min.0, max.0 - min.0);
    Self(if min.0 < max.0 && w > max.0 { max.0 } else { w })

In exact arithmetic the result is in `[min, max)` (`wrap_range`, Props/C18/Units.lean).  In f32 three operations
round (`self − min`, `max − min`, the final sum; `rem_euclid` rounds once more when the remainder is negative),
and BEFORE the fix the result could exceed `max` by one ulp: the rounded length `fl(max − min)` may be larger than
the exact one, the remainder may round up to the full rounded length, and `min + length` then lands above `max`
(`wrap_old_above_max`, the witness found by numeric search and replayed on the real code; recorded as
`fixed: property=C18 ff0ac1e`).  What holds in f32 after the fix, with no epsilon:

  * `wrap_f32_ge_min`     `min ≤ result`: the remainder is `≥ 0` (`fallback_rem_euclid_spec`), `min` is a binary32
                          value, and round-to-nearest never crosses a representable value (`nearest_ge`)
  * `wrap_f32_le_max`     `result ≤ max`: the cap
  * `wrap_f32_in_range`   both
  * `wrap_f32_bounded`    the unconditional form: for finite arguments of magnitude ≤ 2^125 the result IS finite
                          and in `[min, max]` (no hypothesis on intermediate values)
  * `wrap_old_above_max`  sharpness: without the cap the upper bound FAILS on the witness `c127beb2 c127beb1 4132acbe`
  * `wrap_f32_can_equal_max`  the interval cannot be made half-open in f32: the same witness now returns exactly `max`

Hypotheses, all needed: `self`, `min`, `max` finite, `min < max`, the two differences finite (no overflow), and
the result finite (the final sum cannot overflow in practice, but for `max` near the largest float the rounded
length can; rather than bound the magnitudes the theorem speaks about every FINITE result; a non-finite result
is outside the statement, not silently accepted — the correspondence reports `wrap-out-of-range` for it).

`wrapStd` is the function the C20 driver runs against the implementation on every check (std, fallback and libm
configurations; the mm configuration differs only in `rem_euclid`, `mm_rem_euclid_eq_std_algorithm`).
-/
import Retro.Props.C20
import Retro.Lemmas.F32Pred

namespace Retro.Props.C18
open Retro Retro.F32

/-- the f32 width of a proper finite interval is a positive binary32 value -/
theorem width_pos {lo hi : UInt32} {lv hv L : ℚ} (hl : toRat? lo = some lv) (hh : toRat? hi = some hv)
    (hlt : lv < hv) (hL : toRat? (sub hi lo) = some L) : 0 < L := by
  have hthr := sub_finite_lt_thr hh hl hL
  obtain ⟨v, hv1, -, hn⟩ := sub_nearest hh hl hthr
  rw [hL] at hv1
  cases hv1
  obtain ⟨N, hN⟩ := rep_grid (rep_of_toRat? hh)
  obtain ⟨M, hM⟩ := rep_grid (rep_of_toRat? hl)
  have hp : (0:ℚ) < (2:ℚ) ^ (-149 : ℤ) := by positivity
  have hNM : M < N := by
    by_contra hc
    rw [not_lt] at hc
    have : (N : ℚ) ≤ M := by exact_mod_cast hc
    have := mul_le_mul_of_nonneg_right this hp.le
    linarith
  have h1 : (2:ℚ) ^ (-149 : ℤ) ≤ hv - lv := by
    have : (M : ℚ) + 1 ≤ N := by exact_mod_cast hNM
    have := mul_le_mul_of_nonneg_right this hp.le
    rw [hN, hM]; linarith
  have := nearest_ge hn rep_min_sub h1
  linarith

/-- the uncapped sum `min + rem_euclid(self − min, max − min)`, when finite, is not below `min` -/
theorem wrap_sum_ge_min {a lo hi : UInt32} {av lv hv d L w : ℚ}
    (_ha : toRat? a = some av) (hl : toRat? lo = some lv) (hh : toRat? hi = some hv) (hlt : lv < hv)
    (hd : toRat? (sub a lo) = some d) (hL : toRat? (sub hi lo) = some L)
    (hw : toRat? (wrapStdOld a lo hi) = some w) : lv ≤ w := by
  have hLpos := width_pos hl hh hlt hL
  obtain ⟨ρ, r, -, -, -, hr, hr0, -, -, -⟩ := C20.fallback_rem_euclid_spec hd hL hLpos.ne'
  rw [C20.fallback_rem_euclid_eq_std_algorithm] at hr
  unfold wrapStdOld at hw
  have hthr := add_finite_lt_thr hl hr hw
  obtain ⟨v, hv1, -, hn⟩ := add_nearest hl hr hthr
  rw [hw] at hv1
  cases hv1
  exact nearest_ge hn (rep_of_toRat? hl) (by linarith)

theorem wrapStd_eq (a lo hi : UInt32) :
    wrapStd a lo hi = if lt lo hi && lt hi (wrapStdOld a lo hi) then hi else wrapStdOld a lo hi := rfl

/-- **wrap_f32_in_range.** In binary32, for finite `self`, `min < max` with finite differences, every finite
result of `Angle::wrap` lies in `[min, max]`. -/
theorem wrap_f32_in_range {a lo hi : UInt32} {av lv hv d L v : ℚ}
    (ha : toRat? a = some av) (hl : toRat? lo = some lv) (hh : toRat? hi = some hv) (hlt : lv < hv)
    (hd : toRat? (sub a lo) = some d) (hL : toRat? (sub hi lo) = some L)
    (hres : toRat? (wrapStd a lo hi) = some v) : lv ≤ v ∧ v ≤ hv := by
  rw [wrapStd_eq] at hres
  have hlh : lt lo hi = true := by rw [lt_finite hl hh]; simpa using hlt
  rw [hlh, Bool.true_and] at hres
  by_cases hc : lt hi (wrapStdOld a lo hi) = true
  · rw [if_pos hc, hh] at hres
    cases hres
    exact ⟨hlt.le, le_refl _⟩
  · rw [if_neg hc] at hres
    refine ⟨wrap_sum_ge_min ha hl hh hlt hd hL hres, ?_⟩
    rw [lt_finite hh hres] at hc
    simpa using hc

theorem wrap_f32_ge_min {a lo hi : UInt32} {av lv hv d L v : ℚ}
    (ha : toRat? a = some av) (hl : toRat? lo = some lv) (hh : toRat? hi = some hv) (hlt : lv < hv)
    (hd : toRat? (sub a lo) = some d) (hL : toRat? (sub hi lo) = some L)
    (hres : toRat? (wrapStd a lo hi) = some v) : lv ≤ v := (wrap_f32_in_range ha hl hh hlt hd hL hres).1

theorem wrap_f32_le_max {a lo hi : UInt32} {av lv hv d L v : ℚ}
    (ha : toRat? a = some av) (hl : toRat? lo = some lv) (hh : toRat? hi = some hv) (hlt : lv < hv)
    (hd : toRat? (sub a lo) = some d) (hL : toRat? (sub hi lo) = some L)
    (hres : toRat? (wrapStd a lo hi) = some v) : v ≤ hv := (wrap_f32_in_range ha hl hh hlt hd hL hres).2

/-- the same with the f32 comparisons the caller would write: `min <= r && r <= max` -/
theorem wrap_f32_le_cmp {a lo hi : UInt32} {av lv hv d L v : ℚ}
    (ha : toRat? a = some av) (hl : toRat? lo = some lv) (hh : toRat? hi = some hv) (hlt : lv < hv)
    (hd : toRat? (sub a lo) = some d) (hL : toRat? (sub hi lo) = some L)
    (hres : toRat? (wrapStd a lo hi) = some v) :
    lt (wrapStd a lo hi) lo = false ∧ lt hi (wrapStd a lo hi) = false := by
  obtain ⟨h1, h2⟩ := wrap_f32_in_range ha hl hh hlt hd hL hres
  rw [lt_finite hres hl, lt_finite hh hres]
  constructor <;> simp <;> linarith

/-! ### unconditional form for bounded arguments -/

theorem rep_two_pow_126 : Rep ((2:ℚ) ^ 126) :=
  ⟨2 ^ 22, 104, by norm_num, by norm_num, by norm_num, by rw [abs_of_pos (by positivity)]; norm_num⟩

theorem rep_two_pow_127 : Rep ((2:ℚ) ^ 127) :=
  ⟨2 ^ 23, 104, by norm_num, by norm_num, by norm_num, by rw [abs_of_pos (by positivity)]; norm_num⟩

/-- **wrap_f32_bounded.** No finiteness hypotheses left: for finite `self`, `min < max` of magnitude at most
`2^125` (4·10^37; angles are a few radians) the f32 result of `Angle::wrap` IS finite and lies in `[min, max]`. -/
theorem wrap_f32_bounded {a lo hi : UInt32} {av lv hv : ℚ}
    (ha : toRat? a = some av) (hl : toRat? lo = some lv) (hh : toRat? hi = some hv) (hlt : lv < hv)
    (ba : |av| ≤ (2:ℚ) ^ 125) (bl : |lv| ≤ (2:ℚ) ^ 125) (bh : |hv| ≤ (2:ℚ) ^ 125) :
    ∃ v : ℚ, toRat? (wrapStd a lo hi) = some v ∧ lv ≤ v ∧ v ≤ hv := by
  rw [abs_le] at ba bl bh
  have e126 : (2:ℚ) ^ 126 = 2 * (2:ℚ) ^ 125 := by norm_num
  have e127 : (2:ℚ) ^ 127 = 4 * (2:ℚ) ^ 125 := by norm_num
  have p125 : (0:ℚ) < (2:ℚ) ^ 125 := by positivity
  obtain ⟨d, hd, -, -⟩ := sub_between ha hl rep_two_pow_126.neg rep_two_pow_126
    (by rw [e126]; linarith [ba.1, bl.2]) (by rw [e126]; linarith [ba.2, bl.1])
  obtain ⟨L, hL, -, hL2⟩ := sub_between hh hl rep_two_pow_126.neg rep_two_pow_126
    (by rw [e126]; linarith [bh.1, bl.2]) (by rw [e126]; linarith [bh.2, bl.1])
  have hLpos := width_pos hl hh hlt hL
  obtain ⟨ρ, r, -, -, -, hr, hr0, hrL, -, -⟩ := C20.fallback_rem_euclid_spec hd hL hLpos.ne'
  rw [C20.fallback_rem_euclid_eq_std_algorithm] at hr
  rw [abs_of_pos hLpos] at hrL
  obtain ⟨w, hw, -, -⟩ := add_between hl hr rep_two_pow_127.neg rep_two_pow_127
    (by rw [e127]; linarith [bl.1]) (by rw [e126] at hL2; rw [e127]; linarith [bl.2])
  have hw' : toRat? (wrapStdOld a lo hi) = some w := hw
  by_cases hc : (lt lo hi && lt hi (wrapStdOld a lo hi)) = true
  · have hres : toRat? (wrapStd a lo hi) = some hv := by rw [wrapStd_eq, if_pos hc, hh]
    exact ⟨hv, hres, wrap_f32_in_range ha hl hh hlt hd hL hres⟩
  · have hres : toRat? (wrapStd a lo hi) = some w := by rw [wrapStd_eq, if_neg hc, hw']
    exact ⟨w, hres, wrap_f32_in_range ha hl hh hlt hd hL hres⟩

/-! ### sharpness and non-vacuity (bit patterns of the corpus witness `corpus/C18/wrap-above-max.case`) -/

/-- **wrap_old_above_max.** Before fix ff0ac1e: `rads(-10.484056).wrap(rads(-10.4840555), rads(11.167173))` is
`4132acbf`, one ulp ABOVE `max = 4132acbe`. -/
theorem wrap_old_above_max :
    wrapStdOld 0xc127beb2 0xc127beb1 0x4132acbe = 0x4132acbf ∧ lt 0x4132acbe (0x4132acbf : UInt32) = true := by
  decide +kernel

/-- after the fix the same input returns exactly `max`: the interval is closed, not half-open, in f32 -/
theorem wrap_f32_can_equal_max : wrapStd 0xc127beb2 0xc127beb1 0x4132acbe = 0x4132acbe := by decide +kernel

/-- the hypotheses of `wrap_f32_in_range` are satisfiable: the witness meets all of them (all five values finite,
`min < max`) -/
example : (toRat? (0xc127beb2 : UInt32)).isSome = true ∧ (toRat? (0xc127beb1 : UInt32)).isSome = true ∧
    (toRat? (0x4132acbe : UInt32)).isSome = true ∧ lt (0xc127beb1 : UInt32) 0x4132acbe = true ∧
    (toRat? (sub 0xc127beb2 0xc127beb1)).isSome = true ∧ (toRat? (sub 0x4132acbe 0xc127beb1)).isSome = true ∧
    (toRat? (wrapStd 0xc127beb2 0xc127beb1 0x4132acbe)).isSome = true := by decide +kernel

/-- an ordinary case: `wrap(7.0, 0.0, 6.25)` is `0.75` -/
example : wrapStd 0x40e00000 0 0x40c80000 = 0x3f400000 := by decide +kernel

end Retro.Props.C18
