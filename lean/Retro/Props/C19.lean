/-
C19 — PRNG has full period; distributions stay in range for every state.
Property theorems only; helper lemmas live in Retro/Lemmas.
-/
import Retro.Model.Rand
import Mathlib.Tactic.Linarith
import Mathlib.Tactic.NormNum
import Mathlib.Tactic.Ring
import Mathlib.Algebra.Order.Field.Basic
import Mathlib.Algebra.Order.Ring.Rat
import Retro.Props.C19.Period
import Retro.Props.C19.Unit
import Retro.Props.C19.UniformF32

namespace Retro.Props.C19
open Retro Retro.Rand

/-! ### The step map is GF(2)-linear -/

theorem xor4 (a b c d : BitVec 64) : (a ^^^ b) ^^^ (c ^^^ d) = (a ^^^ c) ^^^ (b ^^^ d) := by
  ext i; simp only [BitVec.getElem_xor]; cases a[i] <;> cases b[i] <;> cases c[i] <;> cases d[i] <;> rfl

theorem shl_xor (a b : BitVec 64) (k : Nat) : (a ^^^ b) <<< k = (a <<< k) ^^^ (b <<< k) := by
  ext i; simp only [BitVec.getElem_shiftLeft, BitVec.getElem_xor]; cases decide (i < k) <;> simp

theorem shr_xor (a b : BitVec 64) (k : Nat) : (a ^^^ b) >>> k = (a >>> k) ^^^ (b >>> k) := by
  ext i; simp [BitVec.getElem_ushiftRight]

/-- `next_bits` is linear over GF(2): the basis of the period computation. -/
theorem step_linear (x y : BitVec 64) : step (x ^^^ y) = step x ^^^ step y := by
  unfold step
  simp only [shl_xor, shr_xor, xor4]

theorem step_zero : step 0 = 0 := by decide

/-! ### Integer samples -/

theorem inI32_iff (v : Int) : inI32 v = true ↔ (-2147483648 ≤ v ∧ v ≤ 2147483647) := by
  unfold inI32 i32Min i32Max
  rw [Bool.and_eq_true]
  constructor
  · rintro ⟨h1, h2⟩; exact ⟨of_decide_eq_true h1, of_decide_eq_true h2⟩
  · rintro ⟨h1, h2⟩; exact ⟨decide_eq_true h1, decide_eq_true h2⟩

/-- For every state, whenever the width `end - start` is representable (positive, fits i32),
the integer sample does not panic and lies in the half-open range. -/
theorem uniformI32_range (s : BitVec 64) (a b : Int) (hw : 0 < b - a) (hw' : b - a ≤ i32Max)
    (ha : i32Min ≤ a) (hb : b ≤ i32Max) :
    ∃ v s', uniformI32 s a b = .ok (v, s') ∧ s' = step s ∧ a ≤ v ∧ v < b := by
  simp only [i32Min, i32Max] at *
  have h1 : inI32 (b - a) = true := by rw [inI32_iff]; omega
  have h2 : (b - a == 0) = false := by simp; omega
  have h3 : (b - a == -1) = false := by simp; omega
  have hnn : 0 ≤ (lowI32 (step s)).emod (b - a) := Int.emod_nonneg _ (by omega)
  have hlt : (lowI32 (step s)).emod (b - a) < b - a := Int.emod_lt_of_pos _ hw
  have h4 : inI32 ((lowI32 (step s)).emod (b - a) + a) = true := by rw [inI32_iff]; omega
  refine ⟨(lowI32 (step s)).emod (b - a) + a, step s, ?_, rfl, by omega, by omega⟩
  simp [uniformI32, h1, h2, h3, h4]

/-- The width-overflow case is a panic, never a wrong value (debug profile). -/
theorem uniformI32_overflow_panics (s : BitVec 64) (a b : Int) (hw : i32Max < b - a) :
    ∃ m, uniformI32 s a b = .panic m := by
  have h1 : inI32 (b - a) = false := by
    rw [Bool.eq_false_iff, Ne, inI32_iff]; simp only [i32Max] at hw; omega
  exact ⟨"attempt to subtract with overflow", by simp [uniformI32, h1]⟩

example : (uniformI32 1 1 7).isOk = true := by decide

/-! ### Float samples in exact arithmetic -/

theorem mant_lt (s : BitVec 64) : mant s < 8388608 := by
  unfold mant
  have : (s >>> 41).toNat = s.toNat >>> 41 := BitVec.toNat_ushiftRight s 41
  rw [this, Nat.shiftRight_eq_div_pow]
  have := s.isLt
  omega

theorem unitRat_range (m : Nat) (h : m < 8388608) : 0 ≤ unitRat m ∧ unitRat m < 1 := by
  unfold unitRat
  constructor
  · positivity
  · rw [div_lt_one (by norm_num)]; exact_mod_cast h

/-- `unit * (end - start) + start` over any ordered field: a unit sample in [0,1) lands in
the requested half-open range. (Float rounding of the last step is the known finding
`uniform-f32-returns-end`; see `affine_f32_returns_end`.) -/
theorem affine_range {K : Type} [Field K] [LinearOrder K] [IsStrictOrderedRing K]
    (u a b : K) (hu0 : 0 ≤ u) (hu1 : u < 1) (hab : a < b) :
    a ≤ affine u a b ∧ affine u a b < b := by
  unfold affine
  constructor <;> nlinarith

/-- For every generator state the exact-arithmetic float sample lies in `[start, end)`. -/
theorem uniformRat_range (s : BitVec 64) (a b : Rat) (hab : a < b) :
    a ≤ (uniformRat s a b).1 ∧ (uniformRat s a b).1 < b := by
  obtain ⟨h0, h1⟩ := unitRat_range _ (mant_lt (step s))
  exact affine_range _ a b h0 h1 hab

/-- Bernoulli(p ≤ 0) is false and Bernoulli(p ≥ 1) is true for every state. -/
theorem bernoulli_extremes (s : BitVec 64) (p : Rat) :
    (p ≤ 0 → (bernoulli s p).1 = false) ∧ (1 ≤ p → (bernoulli s p).1 = true) := by
  obtain ⟨h0, h1⟩ := uniformRat_range s 0 1 (by norm_num)
  unfold bernoulli
  constructor
  · intro hp; simp only [decide_eq_false_iff_not, not_lt]; linarith
  · intro hp; simp only [decide_eq_true_eq]; linarith

/-- The known finding, as a theorem about IEEE binary32: with mantissa 2^23-1 the sample for
`Uniform(1000.0..1001.0)` is exactly `end`. -/
theorem affine_f32_returns_end :
    (uniformF32 8388607 (Float32.ofBits 0x447a0000) (Float32.ofBits 0x447a4000)).toBits = 0x447a4000 := by
  decide +kernel

/-! ### Rejection sampling: the exit condition is the postcondition -/

theorem rejectBall_inside (dim fuel : Nat) (s : BitVec 64) (v : List Rat) (s' : BitVec 64)
    (h : rejectBall dim fuel s = some (v, s')) : lenSqr v ≤ 1 := by
  induction fuel generalizing s with
  | zero => simp [rejectBall] at h
  | succ n ih =>
    unfold rejectBall at h
    simp only at h
    split at h
    · rename_i hle
      injection h with h; injection h with hv _; subst hv; exact hle
    · exact ih _ h


/-- The vector `UnitCircle` normalises is never the zero vector (the exit condition of its loop):
the division by its length is defined. Before /repo 66dde8c the first draw was normalised
unconditionally; 2^18 generator states (e.g. 0x00003588a4a5ef5e) make it (0, 0). -/
theorem circleRaw_nonzero (fuel : Nat) (s : BitVec 64) (v : List Rat) (s' : BitVec 64)
    (h : circleRaw fuel s = some (v, s')) : lenSqr v ≠ 0 := by
  induction fuel generalizing s with
  | zero => simp [circleRaw] at h
  | succ n ih =>
    unfold circleRaw at h
    simp only at h
    split at h
    · exact ih _ h
    · rename_i hne
      injection h with h; injection h with hv _; subst hv; exact hne

/-- The fixed defect as a theorem about the model: from state 0x00003588a4a5ef5e the first draw from the
square is exactly (0, 0), and the loop takes a second draw. -/
theorem circle_zero_witness :
    (uniformRatList 0x00003588a4a5ef5e#64 (List.replicate 2 (-1, 1))).1 = [0, 0] ∧
    (circleRaw 2 0x00003588a4a5ef5e#64).isSome = true := by
  decide +kernel

/-! ### Composite distributions draw components in order, each on the successor state -/

theorem uniformI32List_cons (s : BitVec 64) (a b : Int) (rest : List (Int × Int)) (v : Int)
    (s1 s2 : BitVec 64) (vs : List Int)
    (h : uniformI32 s a b = .ok (v, s1)) (h2 : uniformI32List s1 rest = .ok (vs, s2)) :
    uniformI32List s ((a, b) :: rest) = .ok (v :: vs, s2) := by
  simp [uniformI32List, h, h2]

theorem uniformRatList_cons (s : BitVec 64) (a b : Rat) (rest : List (Rat × Rat)) :
    uniformRatList s ((a, b) :: rest) =
      ((uniformRat s a b).1 :: (uniformRatList (uniformRat s a b).2 rest).1,
       (uniformRatList (uniformRat s a b).2 rest).2) := by
  simp [uniformRatList]

end Retro.Props.C19
