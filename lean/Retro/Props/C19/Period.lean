/-
C19 — the xorshift step `x ^= x<<13; x ^= x>>7; x ^= x<<17` (rand.rs:173-179) permutes the
2^64 − 1 non-zero states in a single cycle.

Structure of the argument (all inputs, no enumeration of states):
  * `step` is GF(2)-linear, hence `step x = apply stepMat x` with the 64 columns `step (2^i)`;
    `step^[n] = apply (stepMat ^ n)` (binary powering).
  * `stepMat ^ (2^64 − 1) = 1`               (kernel evaluation, `PowFull`)
  * for each prime `p ∣ 2^64 − 1` an explicit inverse of `stepMat ^ ((2^64−1)/p) + 1`
                                             (kernel evaluation, `Pow3` … `Pow6700417`)
  * so the minimal period of every non-zero state divides `2^64 − 1` and no `(2^64 − 1)/p`:
    it is `2^64 − 1`; an orbit of that size fills the non-zero states.
-/
import Retro.Props.C19.PowFull
import Retro.Props.C19.Pow3
import Retro.Props.C19.Pow5
import Retro.Props.C19.Pow17
import Retro.Props.C19.Pow257
import Retro.Props.C19.Pow641
import Retro.Props.C19.Pow65537
import Retro.Props.C19.Pow6700417
import Mathlib.Dynamics.PeriodicPts.Defs
import Mathlib.Tactic.NormNum
import Mathlib.Tactic.NormNum.Prime
import Mathlib.Order.Interval.Finset.Nat
import Mathlib.Data.Finset.Card

namespace Retro.Props.C19
open Retro.Rand
open Retro.Xorshift (Mat apply mul matPow stepMat identity addMat)

/-! ### 1. The step map as a matrix -/

/-- `next_bits` is multiplication by the matrix whose columns are `step (2^i)`. -/
theorem step_eq_apply (x : BitVec 64) : step x = apply stepMat x :=
  Retro.Xorshift.step_eq_apply x

/-- `apply` of a product is the composition. -/
theorem apply_mul (A B : Mat) (x : BitVec 64) : apply (mul A B) x = apply A (apply B x) :=
  Retro.Xorshift.apply_mul A B x

/-- `n` steps are one multiplication by the `n`-th power (binary powering). -/
theorem iterate_eq_pow (n : ℕ) (x : BitVec 64) : step^[n] x = apply (matPow stepMat n) x :=
  Retro.Xorshift.iterate_eq_pow n x

example : stepMat.length = 64 ∧ stepMat.head? = some 0x40822041#64 := by decide

/-! ### 2. Order divides 2^64 − 1: bijection, zero is isolated -/

/-- After `2^64 − 1` steps every state is back where it started. -/
theorem step_iterate_full (x : BitVec 64) : step^[2 ^ 64 - 1] x = x :=
  Retro.Xorshift.iterate_of_pow_eq_identity order_full x

theorem step_bijective : Function.Bijective step := by
  have hN : (2 ^ 64 - 1 : ℕ) = (2 ^ 64 - 2) + 1 := by norm_num
  refine Function.bijective_iff_has_inverse.mpr ⟨step^[2 ^ 64 - 2], ?_, ?_⟩
  · intro x
    have := step_iterate_full x
    rwa [hN, Function.iterate_succ_apply] at this
  · intro x
    have := step_iterate_full x
    rwa [hN, Function.iterate_succ_apply'] at this

/-- The generator reaches the all-zero (absorbing) state only from the all-zero state. -/
theorem step_eq_zero_iff (x : BitVec 64) : step x = 0 ↔ x = 0 := by
  have h0 : step 0 = 0 := by decide
  constructor
  · intro h
    exact step_bijective.1 (h.trans h0.symm)
  · rintro rfl; exact h0

theorem iterate_eq_zero_iff (n : ℕ) (x : BitVec 64) : step^[n] x = 0 ↔ x = 0 := by
  induction n generalizing x with
  | zero => simp
  | succ n ih => rw [Function.iterate_succ_apply, ih, step_eq_zero_iff]

/-! ### 3. No shorter period -/

theorem factorisation : (2 ^ 64 - 1 : ℕ) = 3 * 5 * 17 * 257 * 641 * 65537 * 6700417 := by norm_num

theorem prime_factor_cases {p : ℕ} (hp : p.Prime) (hd : p ∣ 2 ^ 64 - 1) :
    p = 3 ∨ p = 5 ∨ p = 17 ∨ p = 257 ∨ p = 641 ∨ p = 65537 ∨ p = 6700417 := by
  rw [factorisation] at hd
  have e : ∀ {q : ℕ}, q.Prime → p ∣ q → p = q := fun hq h =>
    (Nat.prime_dvd_prime_iff_eq hp hq).mp h
  rcases (Nat.Prime.dvd_mul hp).mp hd with hd | h
  · rcases (Nat.Prime.dvd_mul hp).mp hd with hd | h
    · rcases (Nat.Prime.dvd_mul hp).mp hd with hd | h
      · rcases (Nat.Prime.dvd_mul hp).mp hd with hd | h
        · rcases (Nat.Prime.dvd_mul hp).mp hd with hd | h
          · rcases (Nat.Prime.dvd_mul hp).mp hd with h | h
            · exact Or.inl (e (by norm_num) h)
            · exact Or.inr (Or.inl (e (by norm_num) h))
          · exact Or.inr (Or.inr (Or.inl (e (by norm_num) h)))
        · exact Or.inr (Or.inr (Or.inr (Or.inl (e (by norm_num) h))))
      · exact Or.inr (Or.inr (Or.inr (Or.inr (Or.inl (e (by norm_num) h)))))
    · exact Or.inr (Or.inr (Or.inr (Or.inr (Or.inr (Or.inl (e (by norm_num) h))))))
  · exact Or.inr (Or.inr (Or.inr (Or.inr (Or.inr (Or.inr (e (by norm_num) h))))))

/-- For every prime `p` dividing `2^64 − 1` (that is 3, 5, 17, 257, 641, 65537, 6700417), the
only state fixed by `(2^64 − 1)/p` steps is zero. -/
theorem no_small_period {p : ℕ} (hp : p.Prime) (hd : p ∣ 2 ^ 64 - 1) (x : BitVec 64)
    (h : step^[(2 ^ 64 - 1) / p] x = x) : x = 0 := by
  rcases prime_factor_cases hp hd with rfl | rfl | rfl | rfl | rfl | rfl | rfl
  · exact no_period_3 x (by rw [show e3 = (2 ^ 64 - 1) / 3 by norm_num [e3]]; exact h)
  · exact no_period_5 x (by rw [show e5 = (2 ^ 64 - 1) / 5 by norm_num [e5]]; exact h)
  · exact no_period_17 x (by rw [show e17 = (2 ^ 64 - 1) / 17 by norm_num [e17]]; exact h)
  · exact no_period_257 x (by rw [show e257 = (2 ^ 64 - 1) / 257 by norm_num [e257]]; exact h)
  · exact no_period_641 x (by rw [show e641 = (2 ^ 64 - 1) / 641 by norm_num [e641]]; exact h)
  · exact no_period_65537 x
      (by rw [show e65537 = (2 ^ 64 - 1) / 65537 by norm_num [e65537]]; exact h)
  · exact no_period_6700417 x
      (by rw [show e6700417 = (2 ^ 64 - 1) / 6700417 by norm_num [e6700417]]; exact h)

example : Nat.Prime 641 ∧ 641 ∣ 2 ^ 64 - 1 := by constructor <;> norm_num

/-! ### 4. Full period, single cycle -/

/-- Every non-zero state has minimal period exactly `2^64 − 1`. -/
theorem period_full (x : BitVec 64) (hx : x ≠ 0) :
    Function.minimalPeriod step x = 2 ^ 64 - 1 := by
  have hper : Function.IsPeriodicPt step (2 ^ 64 - 1) x := step_iterate_full x
  obtain ⟨k, hk⟩ := hper.minimalPeriod_dvd
  by_contra hne
  have hk0 : k ≠ 0 := by
    rintro rfl; rw [Nat.mul_zero] at hk; norm_num at hk
  have hk1 : k ≠ 1 := by
    rintro rfl; rw [Nat.mul_one] at hk; exact hne hk.symm
  have hp := Nat.minFac_prime hk1
  obtain ⟨k', hk'⟩ := Nat.minFac_dvd k
  have hmul : 2 ^ 64 - 1 = k.minFac * (Function.minimalPeriod step x * k') := by
    rw [hk, Nat.mul_left_comm, ← hk']
  have hpd : k.minFac ∣ 2 ^ 64 - 1 := ⟨_, hmul⟩
  have hdiv : (2 ^ 64 - 1) / k.minFac = Function.minimalPeriod step x * k' :=
    Nat.div_eq_of_eq_mul_right hp.pos hmul
  have hfix : step^[(2 ^ 64 - 1) / k.minFac] x = x := by
    rw [hdiv]
    exact (Function.isPeriodicPt_minimalPeriod step x).mul_const k'
  exact hx (no_small_period hp hpd x hfix)

example : (1 : BitVec 64) ≠ 0 := by decide

/-- The non-zero states form one orbit: from any non-zero seed every non-zero state is
reached (within `2^64 − 1` steps). -/
theorem single_cycle (x y : BitVec 64) (hx : x ≠ 0) (hy : y ≠ 0) :
    ∃ k < 2 ^ 64 - 1, step^[k] x = y := by
  classical
  let S : Finset ℕ := (Finset.range (2 ^ 64 - 1)).image (fun k => (step^[k] x).toNat)
  have hinj : Set.InjOn (fun k => (step^[k] x).toNat) (Finset.range (2 ^ 64 - 1) : Set ℕ) := by
    intro a ha b hb hab
    have hab' : step^[a] x = step^[b] x := BitVec.toNat_inj.mp hab
    have := Function.iterate_injOn_Iio_minimalPeriod (f := step) (x := x)
    rw [period_full x hx] at this
    exact this (by simpa using ha) (by simpa using hb) hab'
  have hcard : S.card = 2 ^ 64 - 1 := by
    rw [Finset.card_image_of_injOn hinj, Finset.card_range]
  have hsub : S ⊆ Finset.Ico 1 (2 ^ 64) := by
    intro n hn
    obtain ⟨k, _, rfl⟩ := Finset.mem_image.mp hn
    have hne : step^[k] x ≠ 0 := fun h => hx ((iterate_eq_zero_iff k x).mp h)
    have hpos : (step^[k] x).toNat ≠ 0 := fun h => hne (BitVec.toNat_inj.mp h)
    have hlt := (step^[k] x).isLt
    exact Finset.mem_Ico.mpr ⟨by omega, hlt⟩
  have heq : S = Finset.Ico 1 (2 ^ 64) :=
    Finset.eq_of_subset_of_card_le hsub (by rw [Nat.card_Ico, hcard])
  have hy' : y.toNat ∈ S := by
    rw [heq]
    have hpos : y.toNat ≠ 0 := fun h => hy (BitVec.toNat_inj.mp h)
    exact Finset.mem_Ico.mpr ⟨by omega, y.isLt⟩
  obtain ⟨k, hk, hky⟩ := Finset.mem_image.mp hy'
  exact ⟨k, Finset.mem_range.mp hk, BitVec.toNat_inj.mp hky⟩

example : ∃ k < 2 ^ 64 - 1, step^[k] 1 = 2 := single_cycle 1 2 (by decide) (by decide)

end Retro.Props.C19
