/-
C19 — no period dividing (2^64 − 1)/17.
`J17` is the inverse of `stepMat ^ ((2^64−1)/17) + 1` over GF(2).  It was found by Gaussian
elimination outside Lean (untrusted); what is checked here, by one kernel evaluation on the
packed mirror (≈ 1 s), is `J17 · (stepMat ^ e + 1) = 1`.
-/
import Retro.Lemmas.XorshiftPacked

namespace Retro.Props.C19
open Retro.Rand Retro.Xorshift

/-- (2^64 − 1) / 17 -/
def e17 : Nat := 1085102592571150095

def J17 : Mat :=
  [
   0x1f936a51a6220840#64, 0x8b1486eaae44264f#64, 0x88c3485e6c46aa84#64, 0xd0342fb829d4ee10#64,
   0x33b917fbfdf1b941#64, 0x0b2769c05bd0efd9#64, 0x1574ecf388292465#64, 0x2df2df58a02415cf#64,
   0xa512ea93e87d9e55#64, 0x95d3f4c65161fdb6#64, 0x094ce0e1f56cb5b9#64, 0xe268151b5e49a0cf#64,
   0xc869674b3d5bc877#64, 0x005950b787693be2#64, 0x1cf44a0a92fd15a9#64, 0x581f9b01beba604b#64,
   0x74ed8cb327a2283e#64, 0xe63cd702c004a0a7#64, 0x1e42102a209ba6a2#64, 0x160ffe34570f8cb8#64,
   0x1d822604173ff92a#64, 0x4f771ee32d39ab26#64, 0x0c818cdfe9dd5033#64, 0xba37aaa8d4dd8bcd#64,
   0x0671f3e7ad1b16ea#64, 0x6df67bafa26b892d#64, 0x7f0ce5c37d85dad5#64, 0x01d4e7ec525466a1#64,
   0x961bbde89aeeb777#64, 0x0d8d1bde4d571c34#64, 0xfcd8de5fc9ff60fd#64, 0x38d76d40c4434ba2#64,
   0xc7868042d62357de#64, 0x5f435a20034bdbab#64, 0x4a24bf1aa25e4bab#64, 0x32ba64f6541a96b6#64,
   0x64c90fcea4d1383e#64, 0xb44ff47b3420c7d3#64, 0xe230eee67c1c3291#64, 0x5cb9ec710b79f534#64,
   0x3f2cfb42d7df9ee8#64, 0x93814f32d5361877#64, 0x67c69fa3947850b7#64, 0x0a27c93a2b46cbf1#64,
   0xd7ec7852fb66a0b4#64, 0x61162ab17a846866#64, 0x671a7bb00c42ce2b#64, 0xcd5e77cc9f6b2dea#64,
   0x1c719ae5d8711bfc#64, 0x5ef614b615755320#64, 0x658054710f7b2331#64, 0xe3effa823f7a9bf2#64,
   0xbd79dbfcb9b75d66#64, 0x05b19b5406746f0b#64, 0xbccc19de8a14b512#64, 0x52622cbf5eaa3e3e#64,
   0xe6990444c4209048#64, 0x98f2a1d54ea7d8b2#64, 0x47b5c32e7077d951#64, 0x02a190a1e3f0d373#64,
   0x3b426fa13b26c58a#64, 0xacaa2d7ed64ae903#64, 0xdbc23c6151349f5c#64, 0x0f46304dfe9e8435#64]

theorem certP_17 : certP J17 e17 = packM identity := by decide +kernel

theorem J17_inverse : mul J17 (addMat (matPow stepMat e17) identity) = identity :=
  inverse_of_certP (by decide) certP_17

/-- `step^[(2^64−1)/17]` fixes only the zero state. -/
theorem no_period_17 (x : BitVec 64) (h : step^[e17] x = x) : x = 0 :=
  fixed_eq_zero_of_inverse J17_inverse x h

end Retro.Props.C19
