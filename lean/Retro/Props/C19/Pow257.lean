/-
C19 — no period dividing (2^64 − 1)/257.
`J257` is the inverse of `stepMat ^ ((2^64−1)/257) + 1` over GF(2).  It was found by Gaussian
elimination outside Lean (untrusted); what is checked here, by one kernel evaluation on the
packed mirror (≈ 1 s), is `J257 · (stepMat ^ e + 1) = 1`.
-/
import Retro.Lemmas.XorshiftPacked

namespace Retro.Props.C19
open Retro.Rand Retro.Xorshift

/-- (2^64 − 1) / 257 -/
def e257 : Nat := 71777214294589695

def J257 : Mat :=
  [
   0x5d8a3dfcb7678143#64, 0x4102a7006f1ec7b2#64, 0x32016cc1d52699b6#64, 0x66af497ce307bffc#64,
   0xdb0ab73b957a1961#64, 0xeb873937c435caba#64, 0x43e1faf1ff778587#64, 0x3fad53d8670bfba8#64,
   0xe3333520b27ee806#64, 0xa84ed388deae9aa7#64, 0x6319d5187ad38e6e#64, 0x62c226236ce96d24#64,
   0xb7549201eb13a277#64, 0xf13e5bc3fd563a35#64, 0x9f30b76358f10618#64, 0x4b37001fb9ad6a6a#64,
   0xe7bf0b86118c0361#64, 0x6e652eabf5232d64#64, 0x5a468fbfed519636#64, 0x0be8de4c0e1f68f8#64,
   0xdc2cb82d55b91bfb#64, 0xb20aa126ddde094f#64, 0x51e1468736814256#64, 0xb7c51bf96bc36608#64,
   0xc437e041295678aa#64, 0xcd87abb729015dc3#64, 0x14e1780dba7555e2#64, 0xa4266188759b56e5#64,
   0x3983de0690e17b5b#64, 0x716b28efd43f83d9#64, 0xac78a658b1650b1c#64, 0xb54ba2fd491e8223#64,
   0x8a5fd0f4c7fd57e4#64, 0xc660dc47703ea7a0#64, 0x70936dcc671370d2#64, 0xb3bdb528632b470a#64,
   0x309f5c8e42c74195#64, 0x3aecc263736303a8#64, 0x334e6cf8cc0dbd63#64, 0x088f576a5c76cf81#64,
   0xed42381fd96bccb7#64, 0x409871a9dff955b3#64, 0x71016284c366dd4e#64, 0xec859eb4b04c1528#64,
   0xd043dd804a192b9b#64, 0xc0f142f3f0a8ad02#64, 0x1ffeeee5832c86ad#64, 0x844e5dbb756796a0#64,
   0x281b0906c8df10e3#64, 0xe1f1c55772fab783#64, 0x4f4379c3bcdd391c#64, 0x04fb627073593b26#64,
   0x2d254a208d973458#64, 0xb4192657064a285b#64, 0xc50e32f19fc75060#64, 0x9bf7c1d59a1d31aa#64,
   0x861e05be36eac188#64, 0x1dc9c8ca97b94e2e#64, 0x1a04b0d62e06735f#64, 0xb3a59dbfb10e0c21#64,
   0x0d591b317659cdef#64, 0xb15a7c185a75906d#64, 0x5af70e622a95956a#64, 0xf833562e6f37643d#64]

theorem certP_257 : certP J257 e257 = packM identity := by decide +kernel

theorem J257_inverse : mul J257 (addMat (matPow stepMat e257) identity) = identity :=
  inverse_of_certP (by decide) certP_257

/-- `step^[(2^64−1)/257]` fixes only the zero state. -/
theorem no_period_257 (x : BitVec 64) (h : step^[e257] x = x) : x = 0 :=
  fixed_eq_zero_of_inverse J257_inverse x h

end Retro.Props.C19
